"""Runs the repository's baseline test command (guard off) and compares with /root/.vp/BASELINE.json stable_pass."""
import json, subprocess, sys, xml.etree.ElementTree as ET, os
base = json.load(open('/root/.vp/BASELINE.json'))
out = '/tmp/me/baseline.junit.xml'
env = dict(os.environ); env.pop('MOUETTE_VERIF', None)
subprocess.run(['/venv/bin/python', '-m', 'pytest', '-ra', '-q', '-p', 'no:cacheprovider', '--timeout=900',
                '--continue-on-collection-errors', f'--junitxml={out}'], cwd='/repo', env=env,
               stdout=subprocess.DEVNULL, stderr=subprocess.DEVNULL)
passed = set()
for tc in ET.parse(out).getroot().iter('testcase'):
    if not any(ch.tag in ('failure', 'error', 'skipped') for ch in tc):
        passed.add(f"{tc.get('classname')}::{tc.get('name')}")
want = set(base['stable_pass'])
missing = sorted(want - passed)
print(f"baseline stable_pass: {len(want)}; passing now: {len(want & passed)}; missing: {len(missing)}")
for m in missing[:20]: print('  MISSING', m)
sys.exit(1 if missing else 0)
