#!/bin/bash
# keep_mutant.sh <worktree> <seeded-id> <PID> "<caught-by text>"   -- run from /verif; confirms demo + tests + check, stores under seeded/
set -u
W=$1; ID=$2; PID=$3; CAUGHT=$4
D=/verif/seeded/$ID; mkdir -p $D
cd $W
git diff -- mouette > $D/patch.diff
demo=$(ls demo_*.py | head -1); cp $demo $D/
# demo on mutant
PYTHONPATH=$W /venv/bin/python -W ignore $demo > /tmp/me/demo_mut.txt 2>&1; rc_mut=$?
git stash -q -- mouette
PYTHONPATH=$W /venv/bin/python -W ignore $demo > /tmp/me/demo_clean.txt 2>&1; rc_clean=$?
git stash pop -q
tests=$(PYTHONPATH=$W /venv/bin/python -W ignore -m pytest -q -p no:cacheprovider --deselect tests/test_ff_volumes.py --deselect tests/test_levenberg_marquardt.py tests 2>&1 | tail -1)
cd ${VDIR:-/verif}
MOUETTE_REPO=$W ./check $PID > /tmp/me/check_mut.txt 2>&1; rc_check=$?
viol=$(grep -c '^VIOLATION' /tmp/me/check_mut.txt)
/venv/bin/python - "$W" "$D" "$PID" "$rc_mut" "$rc_clean" "$tests" "$rc_check" "$viol" "$CAUGHT" <<'PY'
import json, sys, os
W, D, PID, rc_mut, rc_clean, tests, rc_check, viol, caught = sys.argv[1:]
meta = json.load(open(os.path.join(W, "meta.json"))) if os.path.exists(os.path.join(W, "meta.json")) else {}
first = [l.strip() for l in open('/tmp/me/check_mut.txt') if l.startswith('VIOLATION') or l.startswith('   C')][:6]
out = {"property": PID, "summary": meta.get("summary"), "needs_to_manifest": meta.get("needs"),
       "author_ran": meta.get("ran"),
       "confirmed_by_integrator": {
           "demo_exit_with_change": int(rc_mut), "demo_exit_without_change": int(rc_clean),
           "existing_suite_with_change": tests,
           "check_cmd": f"MOUETTE_REPO=<worktree with patch> ./check {PID} --tier quick",
           "check_exit": int(rc_check), "violation_lines": int(viol), "first_lines": first},
       "caught_by": caught}
json.dump(out, open(os.path.join(D, "meta.json"), "w"), indent=1)
print(json.dumps(out["confirmed_by_integrator"], indent=1))
PY
