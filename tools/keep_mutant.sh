#!/bin/bash
# keep_mutant.sh <worktree> <seeded-id> <PID> "<caught-by text>"
# Confirms a seeded change (patch.diff is the source of truth): demo fails with it and passes without it, the existing suite
# still passes, and runs the property's check against the patched tree (in a scratch copy of /verif if VDIR is set).
set -u
W=$1; ID=$2; PID=$3; CAUGHT=$4
V=${VDIR:-/verif}
D=/verif/seeded/$ID; mkdir -p $D
cd $W
cp patch.diff $D/patch.diff
demo=$(ls demo*.py | head -1); cp $demo $D/
git checkout -q -- mouette; git clean -fdq mouette; git checkout -q --detach $(git -C /repo rev-parse HEAD)
PYTHONPATH=$W /venv/bin/python -W ignore $demo > /tmp/me/demo_clean.txt 2>&1; rc_clean=$?
git apply patch.diff || { echo "patch does not apply"; exit 3; }
PYTHONPATH=$W /venv/bin/python -W ignore $demo > /tmp/me/demo_mut.txt 2>&1; rc_mut=$?
tests=$(PYTHONPATH=$W /venv/bin/python -W ignore -m pytest -q -p no:cacheprovider --timeout=1800 --deselect tests/test_ff_volumes.py --deselect tests/test_levenberg_marquardt.py tests 2>&1 | tail -1)
cd $V
MOUETTE_REPO=$W ./check $PID > /tmp/me/check_mut_$ID.txt 2>&1; rc_check=$?
viol=$(grep -c '^VIOLATION' /tmp/me/check_mut_$ID.txt)
/venv/bin/python - "$W" "$D" "$PID" "$rc_mut" "$rc_clean" "$tests" "$rc_check" "$viol" "$CAUGHT" "$ID" <<'PY'
import json, sys, os
W, D, PID, rc_mut, rc_clean, tests, rc_check, viol, caught, ID = sys.argv[1:]
meta = json.load(open(os.path.join(W, "meta.json"))) if os.path.exists(os.path.join(W, "meta.json")) else {}
lines = [l.rstrip() for l in open(f'/tmp/me/check_mut_{ID}.txt')]
first = [l.strip() for l in lines if l.startswith('VIOLATION') or l.startswith('   C') or l.startswith('BROKEN')][:8]
out = {"property": PID, "summary": meta.get("summary"), "needs_to_manifest": meta.get("needs"),
       "author_ran": meta.get("ran"),
       "confirmed_by_integrator": {
           "demo_exit_with_change": int(rc_mut), "demo_exit_without_change": int(rc_clean),
           "existing_suite_with_change": tests,
           "check_cmd": f"MOUETTE_REPO=<worktree with patch> ./check {PID} --tier quick",
           "check_exit": int(rc_check), "violation_lines": int(viol), "first_lines": first,
           "last_line": lines[-1] if lines else ""},
       "caught_by": caught}
json.dump(out, open(os.path.join(D, "meta.json"), "w"), indent=1)
print(ID, json.dumps({k: out["confirmed_by_integrator"][k] for k in ("demo_exit_with_change", "demo_exit_without_change", "existing_suite_with_change", "check_exit", "violation_lines")}))
for l in first[:4]: print("    ", l[:160])
PY
