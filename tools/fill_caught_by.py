"""Fills seeded/<id>/meta.json `caught_by` and the integrator's confirmation fields from the logs of the last regression run
(tools/run_seeded_par.sh leaves them in /tmp/me/seeded_par/logs/<id>.log): the distinct finding keys reported with a failing input,
the obligations that broke, and whether any VIOLATION line came without a failing input.  A note about the FIRST run (missed / only
`no-failing-input-found` before the check was strengthened) is kept from seeded/first_run_notes.json.
usage: tools/fill_caught_by.py [logdir]"""
import json, glob, os, re, sys
ROOT = os.path.dirname(os.path.dirname(os.path.abspath(__file__)))
logdir = sys.argv[1] if len(sys.argv) > 1 else "/tmp/me/seeded_par/logs"
notes_p = os.path.join(ROOT, "seeded", "first_run_notes.json")
notes = json.load(open(notes_p)) if os.path.exists(notes_p) else {}
n = 0
for d in sorted(glob.glob(os.path.join(ROOT, "seeded", "C*"))):
    sid = os.path.basename(d)
    mp = os.path.join(d, "meta.json")
    lp = os.path.join(logdir, sid + ".log")
    if not (os.path.exists(mp) and os.path.exists(lp)):
        continue
    m = json.load(open(mp))
    lines = [l.rstrip() for l in open(lp)]
    viol = [l for l in lines if l.startswith("VIOLATION")]
    nf = [l for l in viol if "no-failing-input-found" in l]
    keys = []
    for l in lines:
        mm = re.match(r"^\s+(C\d\d/[^:]+):", l)
        if mm and mm.group(1) not in keys:
            keys.append(mm.group(1))
    broken = []
    for l in lines:
        if l.startswith("BROKEN-OBLIGATION"):
            b = " ".join(l.split()[1:4])[:90]
            if b not in broken:
                broken.append(b)
    c = m.setdefault("confirmed_by_integrator", {})
    c["regression_check_exit"] = 1 if viol else 0
    c["regression_violation_lines"] = len(viol)
    c["regression_without_failing_input"] = len(nf)
    c["regression_last_line"] = lines[-1] if lines else ""
    if m.get("obsolete_after_fix"):
        continue
    if not viol:
        txt = "MISSED by the current check"
    else:
        parts = []
        if keys:
            parts.append("failing input found by the oracle: " + ", ".join(keys[:5]) + (f" (+{len(keys) - 5} more keys)" if len(keys) > 5 else ""))
        if broken:
            parts.append("broken obligations: " + "; ".join(broken[:3]))
        if nf and not keys:
            parts.append("ONLY no-failing-input-found")
        txt = "; ".join(parts)
    if sid in notes:
        txt = notes[sid] + " NOW: " + txt
    old = m.get("caught_by") or ""
    if old in ("", "TBD") or old.startswith("AUTO: ") or sid in notes:
        m["caught_by"] = "AUTO: " + txt
        n += 1
    json.dump(m, open(mp, "w"), indent=1)
print(n, "meta.json files updated")
