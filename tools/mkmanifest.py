"""Writes MANIFEST.json from the property modules present (vlib/props/cXX.py with a MANIFEST dict)."""
import importlib, json, os, sys
ROOT = os.path.dirname(os.path.dirname(os.path.abspath(__file__)))
sys.path.insert(0, ROOT); sys.path.insert(0, "/repo")
props = [json.loads(l) for l in open(os.path.join(ROOT, "properties.jsonl"))]
checks, na = [], []
NA_REASONS = {}
nap = os.path.join(ROOT, "tools", "not_applicable.json")
if os.path.exists(nap): NA_REASONS = json.load(open(nap))
for p in props:
    pid = p["id"]
    try:
        mod = importlib.import_module(f"vlib.props.{pid.lower()}")
        m = mod.MANIFEST
    except Exception as e:  # noqa
        na.append({"property_id": pid, "reason": NA_REASONS.get(pid, "no check registered yet: the Lean model and correspondence for this property are still being built (see DESIGN.md section 5)")})
        continue
    checks.append({
        "property_id": pid,
        "quick_cmd": f"./check {pid} --tier quick",
        "thorough_cmd": f"./check {pid} --tier thorough",
        "evidence_file": f"evidence/{pid}.json",
        "replay_cmd_template": f"./check {pid} --replay {{path}}",
        "engine": "lean-model+correspondence",
        "level_claimed": {"category": "proof", "text": m["level_text"], "design_ref": f"DESIGN.md section 5, {pid}"},
        "level_note": m["level_note"],
        "technique": m.get("technique", "Lean 4 theorems about an executable model + differential correspondence with the implementation + translated fragments"),
    })
man = {
    "version": 1,
    "setup_cmd": "./setup.sh",
    "hooks": {"guard": "MOUETTE_VERIF", "enable": "export MOUETTE_VERIF=1 (set by ./check; no hook is currently compiled into /repo: randomness is injected by patching numpy.random from the harness, aliasing is observed from outside)",
              "baseline_off_cmd": "cd /repo && /venv/bin/python -m pytest -ra -q -p no:cacheprovider --timeout=900 --continue-on-collection-errors",
              "source_commits": [], "add_only": True},
    "engines": [{"name": "lean-model+correspondence", "path": "lean/ vlib/ check",
                 "serves_properties": [c["property_id"] for c in checks],
                 "kind_free_text": "Lean 4.33 theorems about executable models (lake build + per-theorem axiom audit), models tied to /repo by Python-ast translated fragments regenerated every run and by a differential correspondence harness driving the real code and the compiled model driver through a line protocol; oracle on the real code for the failing-input search"}],
    "checks": checks,
    "not_applicable": na,
    "notes": "See DESIGN.md. Exit codes: 0 held on everything explored; 1 VIOLATION line printed; 2 the check itself could not run (harness error / time-out), never a verdict.",
}
json.dump(man, open(os.path.join(ROOT, "MANIFEST.json"), "w"), indent=1)
print("checks:", [c["property_id"] for c in checks], "not_applicable:", len(na))
