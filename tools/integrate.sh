#!/bin/bash
# integrate.sh <agent_dir>   -- copy an agent's NEW files into /verif (never overwrites framework files), list its fix commits
A=$1
cd $A/verif || exit 1
echo "== new files"
rsync -a --ignore-existing --exclude .lake --exclude __pycache__ --exclude .git --exclude replays --exclude evidence \
  --exclude 'lean/Mouette.lean' --exclude 'lean/Driver' --exclude 'lean/lakefile.toml' --exclude 'lean/Mouette/Audit' \
  --itemize-changes ./ /verif/ | grep '^>f' | awk '{print $2}'
echo "== files that differ from /verif (NOT copied; review)"
rsync -a -n --checksum --exclude .lake --exclude __pycache__ --exclude .git --exclude replays --exclude evidence \
  --exclude 'lean/Mouette.lean' --exclude 'lean/Driver' --exclude 'lean/lakefile.toml' --exclude 'lean/Mouette/Audit' --exclude 'lean/lake-manifest.json' \
  --itemize-changes ./ /verif/ | grep '^>f' | awk '{print $2}'
echo "== fix commits in $A/repo"
git -C $A/repo log --oneline origin/main..HEAD 2>/dev/null || git -C $A/repo log --oneline -8
