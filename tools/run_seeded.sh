#!/bin/bash
# Regression over the seeded changes: applies each seeded/<id>/patch.diff to a scratch clone of /repo (outside /repo and /verif),
# runs the property's quick check against it in a scratch copy of /verif, and expects exit 1 with a VIOLATION line.
# usage: tools/run_seeded.sh [id ...]      (default: all)
set -u
S=/tmp/me/seeded_run; rm -rf $S; mkdir -p $S
rsync -a --delete /verif/ $S/verif/
git clone -q /repo $S/repo
ids=${@:-$(cd /verif/seeded && ls -d C*)}
fail=0
for id in $ids; do
  pid=$(echo $id | cut -d- -f1)
  if grep -q '"obsolete_after_fix"' /verif/seeded/$id/meta.json 2>/dev/null; then echo "$id: obsolete (a later repair of /repo made this change harmless; see meta.json)"; continue; fi
  git -C $S/repo reset -q --hard; git -C $S/repo clean -fdq
  if ! git -C $S/repo apply /verif/seeded/$id/patch.diff 2>/dev/null; then
    echo "$id: PATCH-DOES-NOT-APPLY (the repaired tree moved on)"; continue; fi
  (cd $S/verif && MOUETTE_REPO=$S/repo ./check $pid > $S/$id.log 2>&1); rc=$?
  v=$(grep -c '^VIOLATION' $S/$id.log)
  if [ $rc -eq 1 ] && [ $v -ge 1 ]; then echo "$id: caught (exit 1, $v VIOLATION lines)"; else echo "$id: MISSED (exit $rc)"; fail=1; fi
done
rm -rf $S/repo $S/verif
exit $fail
