print('translator: no sites yet')
