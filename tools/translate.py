"""Run every property's translate() (regenerates lean/Mouette/Generated/*.lean from the source tree)."""
import importlib, os, sys
sys.path.insert(0, os.path.dirname(os.path.dirname(os.path.abspath(__file__))))
sys.path.insert(0, os.environ.get("MOUETTE_REPO", "/repo"))
for i in range(1, 21):
    pid = f"c{i:02d}"
    try:
        mod = importlib.import_module(f"vlib.props.{pid}")
    except ModuleNotFoundError:
        continue
    if hasattr(mod, "translate"):
        for s in mod.translate():
            print(pid, s["site"], "ok" if s["ok"] else "BROKEN: " + str(s["detail"])[:200])
