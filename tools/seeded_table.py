"""Rewrites section 10.6 of DESIGN.md (seeded changes and what caught them) from seeded/*/meta.json."""
import json, glob, os, re
ROOT = os.path.dirname(os.path.dirname(os.path.abspath(__file__)))
rows = []
for d in sorted(glob.glob(os.path.join(ROOT, "seeded", "*"))):
    mp = os.path.join(d, "meta.json")
    if not os.path.exists(mp): continue
    m = json.load(open(mp)); c = m["confirmed_by_integrator"]
    esc = lambda s: (s or "").replace("|", "/").replace("\n", " ")
    rows.append(f"| {os.path.basename(d)} | {esc(m.get('summary'))[:230]} | {esc(m.get('needs_to_manifest'))[:200]} | "
                f"exit {c['check_exit']}, {c['violation_lines']} VIOLATION line(s)" + (" — OBSOLETE: harmless since " + esc(m['obsolete_after_fix'])[:120] if m.get('obsolete_after_fix') else "") + f" | {esc(m.get('caught_by'))[:420]} |")
sec = ("### 10.6 Seeded changes (written by fresh sub-agents that saw only the property text) and what caught them\n\n"
       "Each change is kept under `seeded/<id>/` (patch.diff, the author's demonstration, meta.json with what was run). Every one "
       "compiles, passes the 622-test baseline, fails its own demonstration and passes it when reverted; the check was run as "
       "`MOUETTE_REPO=<scratch worktree with the patch> ./check <Cxx>` in a scratch copy of /verif (never in /repo).\n\n"
       "| id | change | needs | check result | caught by |\n|---|---|---|---|---|\n" + "\n".join(rows) + "\n")
p = os.path.join(ROOT, "DESIGN.md")
s = open(p).read()
if "### 10.6 Seeded changes" in s:
    s = re.sub(r"### 10\.6 Seeded changes.*?(?=\n### |\Z)", lambda _: sec, s, flags=re.S)
else:
    s += "\n" + sec
open(p, "w").write(s)
print(len(rows), "seeded changes listed")
