#!/bin/bash
# Parallel regression over the seeded changes (same verdicts as tools/run_seeded.sh, N workers).
# Each worker has its own scratch clone of /repo and its own scratch copy of /verif (with its build output), outside /repo and /verif;
# everything is removed at the end.  usage: tools/run_seeded_par.sh [-j N] [id ...]   (default: 6 workers, all ids)
set -u
N=6
if [ "${1:-}" = "-j" ]; then N=$2; shift 2; fi
S=/tmp/me/seeded_par; rm -rf $S; mkdir -p $S/logs
ids=${@:-$(cd /verif/seeded && ls -d C*)}
i=0
for id in $ids; do echo $id >> $S/q$((i % N)); i=$((i+1)); done
worker() {
  w=$1; [ -f $S/q$w ] || return 0
  rsync -a /verif/ $S/verif$w/
  git clone -q /repo $S/repo$w
  for id in $(cat $S/q$w); do
    pid=$(echo $id | cut -d- -f1)
    if grep -q '"obsolete_after_fix"' /verif/seeded/$id/meta.json 2>/dev/null; then echo "$id: obsolete (a later repair of /repo made this change harmless; see meta.json)"; continue; fi
    git -C $S/repo$w reset -q --hard; git -C $S/repo$w clean -fdq
    if ! git -C $S/repo$w apply /verif/seeded/$id/patch.diff 2>/dev/null; then
      echo "$id: PATCH-DOES-NOT-APPLY (the repaired tree moved on)"; continue; fi
    (cd $S/verif$w && MOUETTE_REPO=$S/repo$w ./check $pid > $S/logs/$id.log 2>&1); rc=$?
    v=$(grep -c '^VIOLATION' $S/logs/$id.log)
    nf=$(grep -c 'no-failing-input-found' $S/logs/$id.log)
    if [ $rc -eq 1 ] && [ $v -ge 1 ]; then echo "$id: caught (exit 1, $v VIOLATION lines, $nf without failing input)"; else echo "$id: MISSED (exit $rc)"; fi
  done
  rm -rf $S/repo$w $S/verif$w
}
for w in $(seq 0 $((N-1))); do worker $w > $S/out$w.txt 2>&1 & done
wait
cat $S/out*.txt | sort
if cat $S/out*.txt | grep -q 'MISSED\|DOES-NOT-APPLY'; then exit 1; fi
exit 0
