#!/bin/bash
# integrate2.sh <agent_dir> <PID> [<PID>...]  -- copy (overwrite) the files owned by the given properties from an agent's copy
A=$1; shift
cd $A/verif || exit 1
for P in "$@"; do
  p=$(echo $P | tr A-Z a-z)
  files=$( { ls vlib/props/${p}*.py known_findings.d/${P}.json 2>/dev/null; find corpus/$P -type f 2>/dev/null; grep -l . lean/Mouette/Props/${P}*.lean lean/Mouette/Generated/${P}*.lean lean/Mouette/Model/Drive${P}.lean 2>/dev/null; } )
  echo "$files"
done
