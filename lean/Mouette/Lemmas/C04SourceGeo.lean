import Mouette.Generated.C04GeoW
import Mouette.Lemmas.C04SourceAttr
import Mouette.Lemmas.C04Source
/-
C04 (round 8) — `geogram_ascii.py: export_attribute` read from the source (`Generated/C04GeoW.lean`) writes, for a dense model attribute,
exactly the lines of its `[ATTR]` chunk in the hand chunk model (`chunkLines (attrChunk g)`).
-/
set_option linter.unusedSimpArgs false
set_option linter.unusedVariables false
namespace Mouette.IOS
open Mouette.IO Mouette.IO.Geo Mouette.Generated


/-- the data lines of a dense attribute: one datum per line, element by element, component by component -/
theorem data_lines (dim size : Nat) (vals : List Tok) (h : vals.length = dim * size) :
    (List.range size).flatMap (fun i => (List.range dim).flatMap (fun j => [[vals.getD (dim * i + j) (.int 0)]]))
      = vals.map (fun t => [t]) := by
  have h1 : ∀ i ∈ List.range size, (List.range dim).flatMap (fun j => [[vals.getD (dim * i + j) (Tok.int 0)]])
      = (rowOf dim vals i).map (fun t => [t]) := by
    intro i hi
    have hi' : i < size := List.mem_range.mp hi
    have hb : dim * i + dim ≤ vals.length := by
      rw [h]; calc dim * i + dim = dim * (i + 1) := by rw [Nat.mul_succ]
        _ ≤ dim * size := Nat.mul_le_mul_left dim hi'
    rw [flatMap_single (fun j => [vals.getD (dim * i + j) (Tok.int 0)])]
    unfold rowOf
    rw [← map_getD_eq dim vals (Tok.int 0) (dim * i) hb, List.map_map]
    rfl
  rw [flatMap_congr_mem _ _ _ h1, ← List.map_flatMap, rows_concat dim vals size (by omega), ← h, List.take_length]

theorem exportAttribute_bridge (size : Nat) (cname aname : String) (g : GAttr)
    (hc : g.cont.name = "\"" ++ cname ++ "\"") (hn : g.name = "\"" ++ aname ++ "\"") (hl : g.vals.length = g.dim * size) :
    C04GW.exportAttribute size cname aname (viewOf g) = chunkLines (attrChunk g) := by
  unfold C04GW.exportAttribute chunkLines attrChunk
  have hdata : (List.range size).flatMap (fun i =>
      if ((viewOf g).dim == 1) = true then
        (if ((viewOf g).typ == AType.bool) = true then [[(viewOf g).asInt i 0]] ++ ([] : File) else [[(viewOf g).fmt i 0]] ++ ([] : File)) ++ ([] : File)
      else
        (List.range (viewOf g).dim).flatMap (fun j =>
          (if ((viewOf g).typ == AType.bool) = true then [[(viewOf g).asInt i j]] ++ ([] : File) else [[(viewOf g).fmt i j]] ++ ([] : File)) ++ ([] : File)) ++ ([] : File))
      = g.vals.map (fun t => [t]) := by
    rw [← data_lines g.dim size g.vals hl]
    apply flatMap_congr_mem
    intro i _
    simp only [viewOf, List.append_nil, ite_self]
    by_cases h1 : g.dim = 1
    · simp [h1]
    · simp [h1]
  simp only [List.append_nil] at hdata ⊢
  rw [hdata]
  cases ht : g.typ <;> simp [viewOf, ht, quoted, typeString, byteSize, sizeTok, fmtI, idx0, hc, hn]

theorem isHeader_markers (s : String) : isHeader (.kw s) = C04GW.chunkMarkers.contains s := by
  simp only [isHeader, C04GW.chunkMarkers, List.contains, List.elem]
  cases (s == "[HEAD]") <;> cases (s == "[ATTS]") <;> cases (s == "[ATTR]") <;> rfl

end Mouette.IOS
