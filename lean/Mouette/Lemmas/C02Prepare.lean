import Mouette.Lemmas.C02CompleteBy
/-
Stage lemmas for the model of `RawMeshData.prepare` (C02). Core Lean only.
-/
set_option linter.unusedSimpArgs false
namespace Mouette.Prepare

/-! ### keys -/

theorem keyE_idem (e : Int × Int) : keyE (keyE e) = keyE e := by
  simp only [keyE]; ext <;> simp <;> omega

theorem validE_iff (n : Nat) (e : Int × Int) :
    validE n e = true ↔ e.1 ≠ e.2 ∧ 0 ≤ e.1 ∧ e.1 < n ∧ 0 ≤ e.2 ∧ e.2 < n := by
  simp [validE, and_assoc]

theorem validE_keyE (n : Nat) (e : Int × Int) : validE n (keyE e) = validE n e := by
  rw [Bool.eq_iff_iff, validE_iff, validE_iff]; simp only [keyE]; omega

theorem keyE_normal (n : Nat) (e : Int × Int) (h : validE n e = true) :
    0 ≤ (keyE e).1 ∧ (keyE e).1 < (keyE e).2 ∧ (keyE e).2 < n := by
  rw [validE_iff] at h; simp only [keyE]; omega

theorem keyE_of_normal (e : Int × Int) (h : e.1 < e.2) : keyE e = e := by
  simp only [keyE]; ext <;> simp <;> omega


/-! ### face keys: the sorted vertex tuple -/

theorem insertNat_perm (a : Nat) (l : List Nat) : (insertNat a l).Perm (a :: l) := by
  induction l with
  | nil => exact List.Perm.refl _
  | cons b l ih =>
    simp only [insertNat]
    split
    · exact List.Perm.refl _
    · exact (List.Perm.cons b ih).trans (List.Perm.swap a b l)

theorem keyF_perm (f : List Nat) : (keyF f).Perm f := by
  induction f with
  | nil => exact List.Perm.refl _
  | cons a l ih =>
    show (insertNat a (keyF l)).Perm (a :: l)
    exact (insertNat_perm a (keyF l)).trans (List.Perm.cons a ih)

theorem insertNat_sorted (a : Nat) (l : List Nat) (h : l.Pairwise (· ≤ ·)) : (insertNat a l).Pairwise (· ≤ ·) := by
  induction l with
  | nil => simp [insertNat]
  | cons b l ih =>
    simp only [insertNat]
    split
    · rename_i hab
      refine List.Pairwise.cons ?_ h
      intro x hx
      rcases List.mem_cons.mp hx with rfl | hx
      · exact hab
      · exact Nat.le_trans hab (List.rel_of_pairwise_cons h hx)
    · rename_i hab
      refine List.Pairwise.cons ?_ (ih h.tail)
      intro x hx
      have := (insertNat_perm a l).subset hx
      rcases List.mem_cons.mp this with rfl | hx
      · omega
      · exact List.rel_of_pairwise_cons h hx

theorem keyF_sorted (f : List Nat) : (keyF f).Pairwise (· ≤ ·) := by
  induction f with
  | nil => exact List.Pairwise.nil
  | cons a l ih => exact insertNat_sorted a (keyF l) ih

/-- two faces have the same key iff they have the same vertices with the same multiplicities -/
theorem keyF_eq_iff_perm (f g : List Nat) : keyF f = keyF g ↔ f.Perm g := by
  constructor
  · intro h
    exact (keyF_perm f).symm.trans (h ▸ keyF_perm g)
  · intro h
    exact List.Perm.eq_of_pairwise (fun a b _ _ h1 h2 => Nat.le_antisymm h1 h2) (keyF_sorted f) (keyF_sorted g)
      ((keyF_perm f).trans (h.trans (keyF_perm g).symm))

/-! ### the edge filter -/

theorem filter_all_valid (n : Nat) (es : List (Int × Int))
    (h : es.any (fun e => !validE n e) = false) : es.filter (validE n) = es := by
  rw [List.filter_eq_self]
  intro e he
  have := (List.any_eq_false.mp h) e he
  simpa using this

theorem prepareEdges_edges (r : Raw) :
    (prepareEdges r).edges = (r.edges.filter (validE r.verts.length)).map keyE := by
  unfold prepareEdges
  by_cases h : r.edges.any (fun e => !validE r.verts.length e) = true
  · simp [h]
  · have h' : r.edges.any (fun e => !validE r.verts.length e) = false := by simpa using h
    simp only [h', Bool.false_eq_true, if_false]
    rw [filter_all_valid _ _ h']

theorem count_filter_valid (n : Nat) (es : List (Int × Int)) (k : Int × Int) (hk : validE n k = true) :
    ((es.filter (validE n)).map keyE).count k = (es.map keyE).count k := by
  induction es with
  | nil => rfl
  | cons e es ih =>
    by_cases he : validE n e = true
    · simp [List.filter_cons, he, List.count_cons, ih]
    · have hne : ¬ keyE e = k := by
        intro h; rw [← h, validE_keyE] at hk; exact he hk
      simp [List.filter_cons, he, List.count_cons, ih, hne]

/-! ### survivors and attribute re-indexing -/

theorem survIdx_append (n : Nat) (a b : List (Int × Int)) (i : Nat) :
    survIdx n (a ++ b) i = survIdx n a i ++ survIdx n b (i + a.length) := by
  induction a generalizing i with
  | nil => simp [survIdx]
  | cons e es ih =>
    simp only [List.cons_append, survIdx, List.length_cons]
    have : i + 1 + es.length = i + (es.length + 1) := by omega
    split <;> simp [ih, this]

theorem survIdx_all_valid (n : Nat) (es : List (Int × Int)) (i : Nat)
    (h : es.any (fun e => !validE n e) = false) : survIdx n es i = List.range' i es.length := by
  induction es generalizing i with
  | nil => rfl
  | cons e es ih =>
    simp only [List.any_cons, Bool.or_eq_false_iff] at h
    have he : validE n e = true := by simpa using h.1
    simp [survIdx, he, ih (i + 1) h.2, List.range'_succ]

theorem survIdx_length (n : Nat) (es : List (Int × Int)) (i : Nat) :
    (survIdx n es i).length = (es.filter (validE n)).length := by
  induction es generalizing i with
  | nil => rfl
  | cons e es ih =>
    by_cases he : validE n e = true <;> simp [survIdx, List.filter_cons, he, ih]

/-- the `j`-th survivor is a valid edge, and it is the `j`-th element of the filtered list -/
theorem survIdx_get (n : Nat) (es : List (Int × Int)) (i j : Nat) (hj : j < (survIdx n es i).length) :
    i ≤ (survIdx n es i)[j] ∧ (survIdx n es i)[j] - i < es.length ∧
      es.getD ((survIdx n es i)[j] - i) (0, 0) = (es.filter (validE n)).getD j (0, 0) := by
  induction es generalizing i j with
  | nil => simp [survIdx] at hj
  | cons e es ih =>
    by_cases he : validE n e = true
    · simp only [survIdx, he, if_true] at hj ⊢
      cases j with
      | zero => simp [List.filter_cons, he]
      | succ j =>
        simp only [List.length_cons, Nat.add_lt_add_iff_right] at hj
        obtain ⟨h1, h2, h3⟩ := ih (i + 1) j hj
        simp only [List.getElem_cons_succ, List.length_cons, List.filter_cons, he, if_true]
        refine ⟨by omega, by omega, ?_⟩
        have : (survIdx n es (i + 1))[j] - i = ((survIdx n es (i + 1))[j] - (i + 1)) + 1 := by omega
        rw [this]; simpa using h3
    · simp only [survIdx, he, Bool.false_eq_true, if_false] at hj ⊢
      obtain ⟨h1, h2, h3⟩ := ih (i + 1) j hj
      simp only [List.length_cons, List.filter_cons, he, Bool.false_eq_true, if_false]
      refine ⟨by omega, by omega, ?_⟩
      have : (survIdx n es (i + 1))[j] - i = ((survIdx n es (i + 1))[j] - (i + 1)) + 1 := by omega
      rw [this]; simpa using h3

theorem lookup_reindexSparse (d : List (Nat × Int)) (surv : List Nat) (k0 j : Nat) (hj : j < surv.length) :
    lookup (reindexSparse d surv k0) (k0 + j) = lookup d surv[j] := by
  induction surv generalizing k0 j with
  | nil => simp at hj
  | cons i rest ih =>
    -- keys produced for `rest` start at k0+1, so none of them equals k0
    have hlow : ∀ (l : List Nat) (a b : Nat), b < a → lookup (reindexSparse d l a) b = none := by
      intro l
      induction l with
      | nil => intro a b _; simp [reindexSparse, lookup]
      | cons x xs ihx =>
        intro a b hab
        simp only [reindexSparse]
        split
        · simp only [lookup]; rw [if_neg (by omega)]; exact ihx (a + 1) b (by omega)
        · exact ihx (a + 1) b (by omega)
    cases j with
    | zero =>
      simp only [reindexSparse, Nat.add_zero, List.getElem_cons_zero]
      split
      · rename_i v hv; simp [lookup, hv]
      · rename_i hv; rw [hv]; exact hlow rest (k0 + 1) k0 (by omega)
    | succ j =>
      simp only [List.length_cons, Nat.add_lt_add_iff_right] at hj
      simp only [reindexSparse, List.getElem_cons_succ]
      have e : k0 + (j + 1) = (k0 + 1) + j := by omega
      split
      · simp only [lookup]; rw [if_neg (by omega), e]; exact ih (k0 + 1) j hj
      · rw [e]; exact ih (k0 + 1) j hj

theorem lookup_reindexSparse_bound (d : List (Nat × Int)) (surv : List Nat) (k0 k : Nat)
    (h : (lookup (reindexSparse d surv k0) k).isSome = true) : k0 ≤ k ∧ k < k0 + surv.length := by
  induction surv generalizing k0 with
  | nil => simp [reindexSparse, lookup] at h
  | cons i rest ih =>
    simp only [reindexSparse] at h
    split at h
    · simp only [lookup] at h
      split at h
      · simp only [List.length_cons]; omega
      · have := ih (k0 + 1) h; simp only [List.length_cons]; omega
    · have := ih (k0 + 1) h; simp only [List.length_cons]; omega

/-- re-indexing: the `j`-th surviving edge reads what it read before -/
theorem reindexAttr_read (surv : List Nat) (a : Attr) (j : Nat) (hj : j < surv.length) :
    (reindexAttr surv a).read j = a.read surv[j] := by
  unfold reindexAttr Attr.read
  cases hst : a.st with
  | sparse d =>
    simp only []
    have := lookup_reindexSparse d surv 0 j hj
    simp only [Nat.zero_add] at this
    rw [this]
  | dense vals =>
    simp [List.getD_eq_getElem?_getD, hj]

/-- sparse attributes: absent stays absent, present stays present -/
theorem reindexAttr_hasKey (surv : List Nat) (a : Attr) (d : List (Nat × Int)) (hst : a.st = .sparse d)
    (j : Nat) (hj : j < surv.length) : (reindexAttr surv a).hasKey j = a.hasKey surv[j] := by
  unfold reindexAttr Attr.hasKey
  rw [hst]
  simp only []
  have := lookup_reindexSparse d surv 0 j hj
  simp only [Nat.zero_add] at this
  rw [this]

/-- dropped edges drop their values: no key beyond the survivors -/
theorem reindexAttr_keys_bound (surv : List Nat) (a : Attr) (k : Nat)
    (h : (reindexAttr surv a).hasKey k = true) : k < surv.length := by
  unfold reindexAttr Attr.hasKey at h
  cases hst : a.st with
  | sparse d =>
    rw [hst] at h; simp only [] at h
    have := lookup_reindexSparse_bound d surv 0 k h
    omega
  | dense vals =>
    rw [hst] at h; simpa using h

theorem reindexAttr_name (surv : List Nat) (a : Attr) : (reindexAttr surv a).name = a.name := by
  unfold reindexAttr; cases a.st <;> rfl

theorem expandAttr_name (k : Nat) (a : Attr) : (expandAttr k a).name = a.name := by
  unfold expandAttr; cases a.st <;> rfl

theorem expandAttr_read (k : Nat) (a : Attr) (i : Nat) : (expandAttr k a).read i = a.read i := by
  unfold expandAttr Attr.read
  cases hst : a.st with
  | sparse d => simp [hst]
  | dense v =>
    simp only []
    by_cases hi : i < v.length
    · simp [List.getD_eq_getElem?_getD, List.getElem?_append_left hi]
    · have hi' : v.length ≤ i := by omega
      simp only [List.getD_eq_getElem?_getD, List.getElem?_append_right hi']
      rw [List.getElem?_eq_none (l := v) hi']
      by_cases h2 : i - v.length < k
      · simp [List.getElem?_replicate, h2]
      · simp [List.getElem?_replicate, h2]

theorem expandAttr_sparse (k : Nat) (a : Attr) (d : List (Nat × Int)) (h : a.st = .sparse d) :
    expandAttr k a = a := by
  unfold expandAttr; rw [h]


/-! ### what each stage touches -/

/-- faces after the completion stage -/
def facesAfter (cfg : Cfg) (r : Raw) : List (List Nat) :=
  if cfg.cf then completeBy keyF r.faces (r.cells.flatMap cellFacesC) else r.faces

/-- edges after the completion stage (not yet filtered / normalised) -/
def edgesAfter (cfg : Cfg) (r : Raw) : List (Int × Int) :=
  if cfg.ce then completeBy keyE r.edges (validSides r.verts.length (facesAfter cfg r)) else r.edges

theorem completeFaces_faces (r : Raw) :
    (completeFaces r).faces = completeBy keyF r.faces (r.cells.flatMap cellFacesC) := by
  unfold completeFaces
  split
  · rename_i h
    have : r.cells = [] := by simpa using h
    simp [this, completeBy]
  · rfl

theorem completeEdges_edges (r : Raw) :
    (completeEdges r).edges = completeBy keyE r.edges (validSides r.verts.length r.faces) := by
  unfold completeEdges
  split
  · rename_i h
    have : r.faces = [] := by simpa using h
    simp [this, completeBy, validSides]
  · rfl

theorem completeFaces_verts (r : Raw) : (completeFaces r).verts = r.verts := by
  unfold completeFaces; split <;> rfl

theorem completed_faces (cfg : Cfg) (r : Raw) : (completed cfg r).faces = facesAfter cfg r := by
  unfold completed facesAfter
  cases cfg.cf <;> cases cfg.ce <;> simp [completeFaces_faces] <;>
    (unfold completeEdges; split <;> simp [completeFaces_faces])

theorem completed_cells (cfg : Cfg) (r : Raw) : (completed cfg r).cells = r.cells := by
  unfold completed
  cases cfg.cf <;> cases cfg.ce <;> simp <;>
    (try unfold completeEdges) <;> (try unfold completeFaces) <;> (repeat' split) <;> rfl

theorem completed_verts (cfg : Cfg) (r : Raw) : (completed cfg r).verts = r.verts := by
  unfold completed
  cases cfg.cf <;> cases cfg.ce <;> simp <;>
    (try unfold completeEdges) <;> (try unfold completeFaces) <;> (repeat' split) <;> rfl

theorem completeFaces_edges (r : Raw) : (completeFaces r).edges = r.edges := by
  unfold completeFaces; split <;> rfl

theorem completeFaces_eattrs (r : Raw) : (completeFaces r).eattrs = r.eattrs := by
  unfold completeFaces; split <;> rfl

theorem completed_edges (cfg : Cfg) (r : Raw) : (completed cfg r).edges = edgesAfter cfg r := by
  unfold completed edgesAfter facesAfter
  cases cfg.cf <;> cases cfg.ce <;>
    simp [completeEdges_edges, completeFaces_edges, completeFaces_faces, completeFaces_verts]

theorem completed_corners (cfg : Cfg) (r : Raw) :
    (completed cfg r).fcElem = r.fcElem ∧ (completed cfg r).fcAdj = r.fcAdj ∧
    (completed cfg r).ccElem = r.ccElem ∧ (completed cfg r).ccAdj = r.ccAdj ∧
    (completed cfg r).cfElem = r.cfElem ∧ (completed cfg r).cfAdj = r.cfAdj := by
  unfold completed
  cases cfg.cf <;> cases cfg.ce <;> simp <;>
    (try unfold completeEdges) <;> (try unfold completeFaces) <;> (repeat' split) <;> simp


section proj
variable (r : Raw)
@[simp] theorem gfc_verts : (genFaceCorners r).verts = r.verts := by unfold genFaceCorners; split <;> rfl
@[simp] theorem gfc_edges : (genFaceCorners r).edges = r.edges := by unfold genFaceCorners; split <;> rfl
@[simp] theorem gfc_eattrs : (genFaceCorners r).eattrs = r.eattrs := by unfold genFaceCorners; split <;> rfl
@[simp] theorem gfc_faces : (genFaceCorners r).faces = r.faces := by unfold genFaceCorners; split <;> rfl
@[simp] theorem gfc_cells : (genFaceCorners r).cells = r.cells := by unfold genFaceCorners; split <;> rfl
@[simp] theorem gfc_ccElem : (genFaceCorners r).ccElem = r.ccElem := by unfold genFaceCorners; split <;> rfl
@[simp] theorem gfc_ccAdj : (genFaceCorners r).ccAdj = r.ccAdj := by unfold genFaceCorners; split <;> rfl
@[simp] theorem gfc_cfElem : (genFaceCorners r).cfElem = r.cfElem := by unfold genFaceCorners; split <;> rfl
@[simp] theorem gfc_cfAdj : (genFaceCorners r).cfAdj = r.cfAdj := by unfold genFaceCorners; split <;> rfl
@[simp] theorem gfc_prepared : (genFaceCorners r).prepared = r.prepared := by unfold genFaceCorners; split <;> rfl

@[simp] theorem gcc_verts : (genCellCorners r).verts = r.verts := by unfold genCellCorners; (repeat' split) <;> rfl
@[simp] theorem gcc_edges : (genCellCorners r).edges = r.edges := by unfold genCellCorners; (repeat' split) <;> rfl
@[simp] theorem gcc_eattrs : (genCellCorners r).eattrs = r.eattrs := by unfold genCellCorners; (repeat' split) <;> rfl
@[simp] theorem gcc_faces : (genCellCorners r).faces = r.faces := by unfold genCellCorners; (repeat' split) <;> rfl
@[simp] theorem gcc_cells : (genCellCorners r).cells = r.cells := by unfold genCellCorners; (repeat' split) <;> rfl
@[simp] theorem gcc_fcElem : (genCellCorners r).fcElem = r.fcElem := by unfold genCellCorners; (repeat' split) <;> rfl
@[simp] theorem gcc_fcAdj : (genCellCorners r).fcAdj = r.fcAdj := by unfold genCellCorners; (repeat' split) <;> rfl
@[simp] theorem gcc_cfElem : (genCellCorners r).cfElem = r.cfElem := by unfold genCellCorners; (repeat' split) <;> rfl
@[simp] theorem gcc_cfAdj : (genCellCorners r).cfAdj = r.cfAdj := by unfold genCellCorners; (repeat' split) <;> rfl
@[simp] theorem gcc_prepared : (genCellCorners r).prepared = r.prepared := by unfold genCellCorners; (repeat' split) <;> rfl

@[simp] theorem pe_verts : (prepareEdges r).verts = r.verts := by unfold prepareEdges; split <;> rfl
@[simp] theorem pe_faces : (prepareEdges r).faces = r.faces := by unfold prepareEdges; split <;> rfl
@[simp] theorem pe_cells : (prepareEdges r).cells = r.cells := by unfold prepareEdges; split <;> rfl
@[simp] theorem pe_fcElem : (prepareEdges r).fcElem = r.fcElem := by unfold prepareEdges; split <;> rfl
@[simp] theorem pe_fcAdj : (prepareEdges r).fcAdj = r.fcAdj := by unfold prepareEdges; split <;> rfl
@[simp] theorem pe_ccElem : (prepareEdges r).ccElem = r.ccElem := by unfold prepareEdges; split <;> rfl
@[simp] theorem pe_ccAdj : (prepareEdges r).ccAdj = r.ccAdj := by unfold prepareEdges; split <;> rfl
@[simp] theorem pe_cfElem : (prepareEdges r).cfElem = r.cfElem := by unfold prepareEdges; split <;> rfl
@[simp] theorem pe_cfAdj : (prepareEdges r).cfAdj = r.cfAdj := by unfold prepareEdges; split <;> rfl
@[simp] theorem pe_prepared : (prepareEdges r).prepared = r.prepared := by unfold prepareEdges; split <;> rfl

@[simp] theorem pv_verts : (prepareVertices r).verts = r.verts.map padVertex := rfl
@[simp] theorem pv_edges : (prepareVertices r).edges = r.edges := rfl
@[simp] theorem pv_eattrs : (prepareVertices r).eattrs = r.eattrs := rfl
@[simp] theorem pv_faces : (prepareVertices r).faces = r.faces := rfl
@[simp] theorem pv_cells : (prepareVertices r).cells = r.cells := rfl
@[simp] theorem pv_fcElem : (prepareVertices r).fcElem = r.fcElem := rfl
@[simp] theorem pv_fcAdj : (prepareVertices r).fcAdj = r.fcAdj := rfl
@[simp] theorem pv_ccElem : (prepareVertices r).ccElem = r.ccElem := rfl
@[simp] theorem pv_ccAdj : (prepareVertices r).ccAdj = r.ccAdj := rfl
@[simp] theorem pv_cfElem : (prepareVertices r).cfElem = r.cfElem := rfl
@[simp] theorem pv_cfAdj : (prepareVertices r).cfAdj = r.cfAdj := rfl
@[simp] theorem pv_prepared : (prepareVertices r).prepared = r.prepared := rfl
end proj

theorem stages_verts (cfg : Cfg) (r : Raw) : (stages cfg r).verts = r.verts.map padVertex := by
  unfold stages; simp [completed_verts]

theorem stages_faces (cfg : Cfg) (r : Raw) : (stages cfg r).faces = facesAfter cfg r := by
  unfold stages; simp [completed_faces]

theorem stages_cells (cfg : Cfg) (r : Raw) : (stages cfg r).cells = r.cells := by
  unfold stages; simp [completed_cells]

theorem stages_edges (cfg : Cfg) (r : Raw) :
    (stages cfg r).edges = ((edgesAfter cfg r).filter (validE r.verts.length)).map keyE := by
  unfold stages; simp [prepareEdges_edges, completed_edges, completed_verts]


/-! ### cell faces and the decomposition of `prepare` -/

theorem genCellFaces_fields (r q : Raw) (h : genCellFaces r = .ok q) :
    q.verts = r.verts ∧ q.edges = r.edges ∧ q.eattrs = r.eattrs ∧ q.faces = r.faces ∧ q.cells = r.cells ∧
    q.fcElem = r.fcElem ∧ q.fcAdj = r.fcAdj ∧ q.ccElem = r.ccElem ∧ q.ccAdj = r.ccAdj ∧ q.prepared = r.prepared := by
  unfold genCellFaces at h
  split at h
  · injection h with h; subst h; simp
  · cases h

theorem prepare_ok (cfg : Cfg) (r p : Raw) (h0 : r.prepared = false) (h : prepare cfg r = .ok p) :
    ∃ q, genCellFaces (stages cfg r) = .ok q ∧ p = { q with prepared := true } := by
  unfold prepare at h
  rw [h0] at h
  simp only [Bool.false_eq_true, if_false] at h
  split at h
  · rename_i q hq
    injection h with h
    exact ⟨q, hq, h.symm⟩
  · cases h

theorem prepare_fields (cfg : Cfg) (r p : Raw) (h0 : r.prepared = false) (h : prepare cfg r = .ok p) :
    p.verts = r.verts.map padVertex ∧
    p.edges = ((edgesAfter cfg r).filter (validE r.verts.length)).map keyE ∧
    p.faces = facesAfter cfg r ∧ p.cells = r.cells ∧ p.prepared = true ∧
    p.eattrs = (stages cfg r).eattrs ∧
    p.fcElem = (stages cfg r).fcElem ∧ p.fcAdj = (stages cfg r).fcAdj ∧
    p.ccElem = (stages cfg r).ccElem ∧ p.ccAdj = (stages cfg r).ccAdj := by
  obtain ⟨q, hq, hp⟩ := prepare_ok cfg r p h0 h
  obtain ⟨a, b, c, d, e, f, g, i, j, _⟩ := genCellFaces_fields _ _ hq
  subst hp
  simp only [a, b, c, d, e, f, g, i, j, stages_verts, stages_edges, stages_faces, stages_cells, and_self]


/-! ### corner records -/

theorem zip_replicate (row : List Nat) (i : Nat) :
    List.zip row (List.replicate row.length i) = row.map (fun v => (v, i)) := by
  induction row with
  | nil => rfl
  | cons x xs ih => simp [List.replicate_succ, ih]

theorem ownersFrom_length (rows : List (List Nat)) (i : Nat) :
    (ownersFrom rows i).length = rows.flatten.length := by
  induction rows generalizing i with
  | nil => rfl
  | cons row rows ih => simp [ownersFrom, ih]

/-- `(element, owner)` records: one per incidence, rows in order, entries of a row in order -/
theorem ownersFrom_zip (rows : List (List Nat)) (i : Nat) :
    List.zip rows.flatten (ownersFrom rows i)
      = (rows.zipIdx i).flatMap (fun ri => ri.1.map (fun v => (v, ri.2))) := by
  induction rows generalizing i with
  | nil => rfl
  | cons row rows ih =>
    simp only [List.flatten_cons, ownersFrom, List.zipIdx_cons, List.flatMap_cons]
    rw [List.zip_append (by simp), zip_replicate, ih]

theorem gfc_regen (r : Raw) (h : r.fcElem = []) :
    (genFaceCorners r).fcElem = r.faces.flatten ∧ (genFaceCorners r).fcAdj = owners r.faces := by
  unfold genFaceCorners; simp [h]

theorem gcc_regen (r : Raw) (h1 : r.ccElem = []) :
    (genCellCorners r).ccElem = r.cells.flatten ∧ (genCellCorners r).ccAdj = owners r.cells := by
  unfold genCellCorners; simp [h1]

/-- stale or missing corner records are rebuilt: whenever the number of face (cell) corner elements differs from the
number of face (cell) vertices, e.g. after elements were appended to a built mesh -/
theorem gfc_regen_stale (r : Raw) (h : r.fcElem.length ≠ (r.faces.map List.length).sum) :
    (genFaceCorners r).fcElem = r.faces.flatten ∧ (genFaceCorners r).fcAdj = owners r.faces := by
  unfold genFaceCorners; rw [if_pos (Or.inr h)]; exact ⟨rfl, rfl⟩

theorem gcc_regen_stale (r : Raw) (h : r.ccElem.length ≠ (r.cells.map List.length).sum) (h2 : r.ccAdj.length ≠ 0) :
    (genCellCorners r).ccElem = r.cells.flatten ∧ (genCellCorners r).ccAdj = owners r.cells := by
  unfold genCellCorners
  rw [if_pos (Or.inr (Or.inr (Or.inl h))), if_neg (fun hh => h2 hh.1)]
  exact ⟨rfl, rfl⟩

theorem flatten_length_sum (rows : List (List Nat)) : rows.flatten.length = (rows.map List.length).sum := by
  induction rows with
  | nil => rfl
  | cons r rs ih => simp [ih]

/-! ### cell-face records -/

theorem lastIdx_some {κ : Type} [DecidableEq κ] (k : κ) (keys : List κ) (i0 j : Nat)
    (h : lastIdx k keys i0 = some j) : i0 ≤ j ∧ keys[j - i0]? = some k := by
  induction keys generalizing i0 with
  | nil => simp [lastIdx] at h
  | cons x xs ih =>
    simp only [lastIdx] at h
    split at h
    · rename_i j' hj'
      injection h with h; subst h
      obtain ⟨h1, h2⟩ := ih (i0 + 1) hj'
      refine ⟨by omega, ?_⟩
      have : j' - i0 = (j' - (i0 + 1)) + 1 := by omega
      rw [this]; simpa using h2
    · split at h
      · rename_i hx
        injection h with h; subst h
        simp [hx]
      · cases h

theorem lastIdx_of_mem {κ : Type} [DecidableEq κ] (k : κ) (keys : List κ) (i0 : Nat) (h : k ∈ keys) :
    ∃ j, lastIdx k keys i0 = some j := by
  induction keys generalizing i0 with
  | nil => simp at h
  | cons x xs ih =>
    simp only [lastIdx]
    cases hrec : lastIdx k xs (i0 + 1) with
    | some j => exact ⟨j, rfl⟩
    | none =>
      rcases List.mem_cons.mp h with rfl | hm
      · exact ⟨i0, by simp⟩
      · obtain ⟨j, hj⟩ := ih (i0 + 1) hm
        rw [hj] at hrec; cases hrec

/-- a record list for the faces `fs`: the `t`-th id points to a stored face with the vertex set of `fs[t]` -/
def PointsTo (keys : List (List Nat)) : List (List Nat) → List Nat → Prop
  | [], [] => True
  | f :: fs, i :: ids => keys[i]? = some (keyF f) ∧ PointsTo keys fs ids
  | _, _ => False

theorem lastIdx_none {κ : Type} [DecidableEq κ] (k : κ) (keys : List κ) (i0 : Nat)
    (h : lastIdx k keys i0 = none) : k ∉ keys := by
  intro hm
  obtain ⟨j, hj⟩ := lastIdx_of_mem k keys i0 hm
  rw [hj] at h; cases h

/-- every face of `fs` is stored: one record per face, pointwise -/
theorem idsOf_complete (keys fs) (h : ∀ f ∈ fs, keyF f ∈ keys) : PointsTo keys fs (idsOf keys fs) := by
  induction fs with
  | nil => trivial
  | cons f fs ih =>
    obtain ⟨j, hj⟩ := lastIdx_of_mem (keyF f) keys 0 (h f (by simp))
    have hrec := ih (fun g hg => h g (by simp [hg]))
    have := lastIdx_some _ _ _ _ hj
    simp only [idsOf, List.filterMap_cons, hj]
    exact ⟨by simpa using this.2, hrec⟩

/-- the records of a cell in general (face completion possibly off): going through the faces of the table in
order, a face whose vertex set is stored gets exactly one record, pointing to a stored face with that vertex
set; a face that is not stored gets none -/
def RecordsOf (keys : List (List Nat)) : List (List Nat) → List Nat → Prop
  | [], ids => ids = []
  | f :: fs, ids =>
    (keyF f ∈ keys ∧ ∃ i rest, ids = i :: rest ∧ keys[i]? = some (keyF f) ∧ RecordsOf keys fs rest) ∨
    (keyF f ∉ keys ∧ RecordsOf keys fs ids)

theorem idsOf_records (keys fs) : RecordsOf keys fs (idsOf keys fs) := by
  induction fs with
  | nil => rfl
  | cons f fs ih =>
    cases hl : lastIdx (keyF f) keys 0 with
    | none =>
      refine Or.inr ⟨lastIdx_none _ _ _ hl, ?_⟩
      simpa [idsOf, hl] using ih
    | some j =>
      have := lastIdx_some _ _ _ _ hl
      have hk : keys[j]? = some (keyF f) := by simpa using this.2
      refine Or.inl ⟨List.mem_of_getElem? hk, j, idsOf keys fs, ?_, hk, ih⟩
      simp [idsOf, hl]

def CellRecords (keys : List (List Nat)) : List (List Nat) → List (List Nat) → Prop
  | [], [] => True
  | c :: cs, ids :: idss => (∃ fs, cellFacesG c = some fs ∧ ids = idsOf keys fs) ∧ CellRecords keys cs idss
  | _, _ => False

theorem cellFaceIds_ok (keys cells idss) (h : cellFaceIds keys cells = .ok idss) :
    CellRecords keys cells idss := by
  induction cells generalizing idss with
  | nil => simp [cellFaceIds] at h; subst h; trivial
  | cons c cs ih =>
    simp only [cellFaceIds] at h
    split at h
    · cases h
    · rename_i fs hfs
      split at h
      · rename_i l hl
        injection h with h; subst h
        exact ⟨⟨fs, hfs, rfl⟩, ih l hl⟩
      · cases h

theorem cellFacesG_eq (c : List Nat) (h : c.length = 4 ∨ c.length = 8) :
    cellFacesG c = some (cellFacesC c) := by
  unfold cellFacesG cellFacesC
  rcases h with h | h <;> simp [h]

/-- cell-face generation fails only on a cell that is neither a tetrahedron nor a hexahedron -/
theorem cellFaceIds_total (keys cells)
    (ha : ∀ c ∈ cells, c.length = 4 ∨ c.length = 8) : ∃ idss, cellFaceIds keys cells = .ok idss := by
  induction cells with
  | nil => exact ⟨[], rfl⟩
  | cons c cs ih =>
    obtain ⟨l, hl⟩ := ih (fun d hd => ha d (by simp [hd]))
    exact ⟨idsOf keys (cellFacesC c) :: l, by simp [cellFaceIds, cellFacesG_eq c (ha c (by simp)), hl]⟩

theorem genCellFaces_regen (r q : Raw) (h : genCellFaces r = .ok q) :
    ∃ idss, cellFaceIds (r.faces.map keyF) r.cells = .ok idss ∧ q.cfElem = idss.flatten ∧ q.cfAdj = owners idss := by
  unfold genCellFaces at h
  split at h
  · rename_i idss hi
    injection h with h; subst h
    exact ⟨idss, hi, rfl, rfl⟩
  · cases h

/-! ### attributes through the pipeline -/

/-- the attribute added by edge completion, if any -/
def extraAttrs (cfg : Cfg) (r : Raw) : List Attr :=
  if cfg.ce = true ∧ (facesAfter cfg r).isEmpty = false ∧ hasAttr r.eattrs hardName = false
  then [hardAttr r.edges.length] else []

/-- what happens to one attribute: dense ones grow with the completed edges, then all are re-indexed if
some edge is invalid -/
def finalAttr (cfg : Cfg) (r : Raw) (a : Attr) : Attr :=
  let a1 := if cfg.ce = true ∧ (facesAfter cfg r).isEmpty = false
            then expandAttr ((edgesAfter cfg r).length - r.edges.length) a else a
  if (edgesAfter cfg r).any (fun e => !validE r.verts.length e) = true
  then reindexAttr (survIdx r.verts.length (edgesAfter cfg r) 0) a1 else a1

theorem completed_eattrs (cfg : Cfg) (r : Raw) :
    (completed cfg r).eattrs = (r.eattrs ++ extraAttrs cfg r).map
      (fun a => if cfg.ce = true ∧ (facesAfter cfg r).isEmpty = false
                then expandAttr ((edgesAfter cfg r).length - r.edges.length) a else a) := by
  unfold completed extraAttrs edgesAfter
  by_cases hce : cfg.ce = true
  · simp only [hce, if_true, true_and]
    have hf : (if cfg.cf = true then completeFaces r else r).faces = facesAfter cfg r := by
      unfold facesAfter; split <;> simp [completeFaces_faces]
    have he : (if cfg.cf = true then completeFaces r else r).edges = r.edges := by
      split <;> simp [completeFaces_edges]
    have ha : (if cfg.cf = true then completeFaces r else r).eattrs = r.eattrs := by
      split <;> simp [completeFaces_eattrs]
    have hv : (if cfg.cf = true then completeFaces r else r).verts = r.verts := by
      split <;> simp [completeFaces_verts]
    unfold completeEdges
    rw [hf, he, ha, hv]
    by_cases hemp : (facesAfter cfg r).isEmpty = true
    · simp [hemp, ha]
    · have hemp' : (facesAfter cfg r).isEmpty = false := by simpa using hemp
      simp only [hemp', Bool.false_eq_true, if_false, true_and]
      by_cases hh : hasAttr r.eattrs hardName = true
      · simp [hh]
      · have hh' : hasAttr r.eattrs hardName = false := by simpa using hh
        simp [hh']
  · have hce' : cfg.ce = false := by simpa using hce
    simp only [hce', Bool.false_eq_true, if_false, false_and, List.append_nil]
    split <;> simp [completeFaces_eattrs]

theorem stages_eattrs (cfg : Cfg) (r : Raw) :
    (stages cfg r).eattrs = (r.eattrs ++ extraAttrs cfg r).map (finalAttr cfg r) := by
  unfold stages
  simp only [gcc_eattrs, gfc_eattrs]
  unfold prepareEdges
  simp only [pv_edges, pv_verts, pv_eattrs, List.length_map, completed_edges, completed_verts, completed_eattrs]
  unfold finalAttr
  split <;> simp_all [Function.comp_def]

theorem hardAttr_lookup (s n k : Nat) :
    lookup ((List.range' s n).map (fun i => (i, (1 : Int)))) k = if s ≤ k ∧ k < s + n then some 1 else none := by
  induction n generalizing s with
  | zero => simp [lookup]
  | succ n ih =>
    simp only [List.range'_succ, List.map_cons, lookup]
    by_cases h : s = k
    · subst h; simp
    · rw [if_neg h, ih (s + 1)]
      by_cases h2 : s ≤ k ∧ k < s + (n + 1)
      · rw [if_pos h2, if_pos (by omega)]
      · rw [if_neg h2, if_neg (by omega)]

theorem hardAttr_hasKey (n k : Nat) : (hardAttr n).hasKey k = decide (k < n) := by
  unfold hardAttr Attr.hasKey
  simp only [List.range_eq_range']
  rw [hardAttr_lookup]
  by_cases h : k < n <;> simp [h]

theorem finalAttr_name (cfg : Cfg) (r : Raw) (a : Attr) : (finalAttr cfg r a).name = a.name := by
  unfold finalAttr
  simp only []
  repeat' split
  all_goals simp [reindexAttr_name, expandAttr_name]

theorem edgesAfter_prefix (cfg : Cfg) (r : Raw) : ∃ added, edgesAfter cfg r = r.edges ++ added := by
  unfold edgesAfter
  split
  · obtain ⟨ad, h, _⟩ := completeBy_prefix keyE r.edges (validSides r.verts.length (facesAfter cfg r))
    exact ⟨ad, h⟩
  · exact ⟨[], by simp⟩


/-! ### vocabulary of the statements in Props/C02 -/

/-- directed sides of a polygon given by positions -/
def dirSides (f : List Nat) : List (Nat × Nat) :=
  (List.range f.length).map (fun i => (f.getD i 0, f.getD ((i + 1) % f.length) 0))

def undSides (f : List Nat) : List (Nat × Nat) := (dirSides f).map (fun s => (min s.1 s.2, max s.1 s.2))

def hexEdges : List (Nat × Nat) :=
  [(0, 1), (1, 2), (2, 3), (0, 3), (4, 5), (5, 6), (6, 7), (4, 7), (0, 4), (1, 5), (2, 6), (3, 7)]

def errOf : Except String Raw → Option String
  | .error e => some e
  | .ok _ => none

/-- two tetrahedra sharing a face + one declared edge given high-first + an invalid declared edge -/
def demo : Raw :=
  { verts := [[0, 0, 0], [1, 0, 0], [0, 1, 0], [0, 0, 1], [1, 1, 1]],
    edges := [(3, 0), (2, 2)],
    eattrs := [{ name := "w", dflt := 7, st := .dense [10, 11] }, { name := "s", dflt := 0, st := .sparse [(0, 5), (1, 6)] }],
    cells := [[0, 1, 2, 3], [1, 2, 3, 4]] }

def demoOut : Option Raw := match prepare {} demo with | .ok p => some p | .error _ => none

end Mouette.Prepare
