import Mouette.Lemmas.SubdivBorder
import Mouette.Lemmas.SubdivManifold6
/-
C13 (round 7): the border-loop successor map through ANY refinement whose border sides are exactly the halves of the border
sides of the input (`BorderHalves`): the lemmas of `SubdivBorder.lean` only use that characterisation.  It holds for the
1→3 quads refinement and for 1→6, so their border loops are in bijection with those of the input as well (a loop of k
sides becomes one of 2k).
-/
namespace Mouette.Subdiv

/-- the border sides of `m'` are exactly the halves of the border sides of `m`, and every side of `m` has its midpoint -/
def BorderHalves (m m' : Raw) : Prop :=
  (∀ x, IsBorder m' x ↔ ∃ s, HalfOfBorder m x s) ∧
  (∀ u v, (u, v) ∈ dirSides m → ∃ mu, halfLookup m.edges m.verts.length (keyify u v) = some mu)

/-- (T1) the two halves of a border side follow each other -/
theorem gen_succ_within_side (m m' : Raw) (h : BorderHalves m m') (hes : EdgesSorted m) (u v mu : Nat)
    (hb : IsBorder m (u, v)) (hl : halfLookup m.edges m.verts.length (keyify u v) = some mu) :
    IsSucc m' (u, mu) (mu, v) :=
  ⟨(h.1 _).mpr ⟨(u, v), hb, mu, hl, Or.inl rfl⟩,
   (h.1 _).mpr ⟨(u, v), hb, mu, hl, Or.inr rfl⟩, rfl⟩

/-- (T2) the second half of a border side is followed by the first half of its successor -/
theorem gen_succ_across_sides (m m' : Raw) (h : BorderHalves m m') (hes : EdgesSorted m) (u v w mu mw : Nat)
    (hs : IsSucc m (u, v) (v, w)) (hl : halfLookup m.edges m.verts.length (keyify u v) = some mu)
    (hl' : halfLookup m.edges m.verts.length (keyify v w) = some mw) : IsSucc m' (mu, v) (v, mw) :=
  ⟨(h.1 _).mpr ⟨(u, v), hs.1, mu, hl, Or.inr rfl⟩,
   (h.1 _).mpr ⟨(v, w), hs.2.1, mw, hl', Or.inl rfl⟩, rfl⟩

/-- (T3) and these are the only successions in the refined mesh -/
theorem gen_succ_cases (m m' : Raw) (h : BorderHalves m m') (hes : EdgesSorted m) (x y : Nat × Nat) (hs : IsSucc m' x y) :
    (∃ u v mu, IsBorder m (u, v) ∧ halfLookup m.edges m.verts.length (keyify u v) = some mu ∧ x = (u, mu) ∧ y = (mu, v)) ∨
    (∃ u v w mu mw, IsSucc m (u, v) (v, w) ∧ halfLookup m.edges m.verts.length (keyify u v) = some mu ∧
        halfLookup m.edges m.verts.length (keyify v w) = some mw ∧ x = (mu, v) ∧ y = (v, mw)) := by
  obtain ⟨hx, hy, hxy⟩ := hs
  obtain ⟨⟨u, v⟩, hb, mu, hl, hxe⟩ := (h.1 x).mp hx
  obtain ⟨⟨u', v'⟩, hb', mu', hl', hye⟩ := (h.1 y).mp hy
  simp only at hl hl' hxe hye
  obtain ⟨b1, b2, b3, b4⟩ := half_bounds hes hl
  obtain ⟨c1, c2, c3, c4⟩ := half_bounds hes hl'
  rcases hxe with rfl | rfl <;> rcases hye with rfl | rfl <;> simp only at hxy
  · omega
  · left
    subst hxy
    rcases same_mid hl hl' with ⟨e3, e4⟩ | ⟨e3, e4⟩
    · subst e3; subst e4; exact ⟨u, v, mu', hb, hl, rfl, rfl⟩
    · -- the opposite side would be a side of the input: (u,v) is not border
      subst e3; subst e4
      exact absurd hb'.1 hb.2
  · right
    subst hxy
    exact ⟨u, u', v', mu, mu', ⟨hb, hb', rfl⟩, hl, hl', rfl, rfl⟩
  · omega

/-- walking along the border of the input lifts to the refined mesh (two steps per step), between first halves -/
theorem gen_loop_walk_lift (m m' : Raw) (h : BorderHalves m m') (hes : EdgesSorted m) (s t : Nat × Nat)
    (hw : Relation.ReflTransGen (IsSucc m) s t) (mu mt : Nat)
    (hl : halfLookup m.edges m.verts.length (keyify s.1 s.2) = some mu)
    (hlt : halfLookup m.edges m.verts.length (keyify t.1 t.2) = some mt) :
    Relation.ReflTransGen (IsSucc m') (s.1, mu) (t.1, mt) := by
  induction hw generalizing mt with
  | refl =>
    rw [hl] at hlt; cases hlt
    exact Relation.ReflTransGen.refl
  | @tail b c _ hbc ih =>
    obtain ⟨hb, hc, e⟩ := hbc
    obtain ⟨mb, hlb⟩ := h.2 b.1 b.2 hb.1
    have step1 := gen_succ_within_side m m' h hes b.1 b.2 mb hb hlb
    have hc' : c = (b.2, c.2) := Prod.ext e rfl
    have step2 : IsSucc m' (mb, b.2) (c.1, mt) := by
      rw [e]
      refine gen_succ_across_sides m m' h hes b.1 b.2 c.2 mb mt ⟨hb, hc' ▸ hc, rfl⟩ hlb ?_
      rw [← e]; exact hlt
    exact ((ih mb hlb).tail step1).tail step2

/-- walking along the border of the refined mesh projects to a walk of the input -/
theorem gen_loop_walk_project (m m' : Raw) (h : BorderHalves m m') (hes : EdgesSorted m) (x y : Nat × Nat)
    (hw : Relation.ReflTransGen (IsSucc m') x y) (s t : Nat × Nat) (hs : HalfOfBorder m x s) (ht : HalfOfBorder m y t) :
    Relation.ReflTransGen (IsSucc m) s t := by
  induction hw generalizing t with
  | refl => rw [side_unique m hes x s t hs ht]
  | @tail b c _ hbc ih =>
    rcases gen_succ_cases m m' h hes b c hbc with ⟨u, v, mu, hb, hl, rfl, rfl⟩ | ⟨u, v, w, mu, mw, hsucc, hl, hl', rfl, rfl⟩
    · have hb1 : HalfOfBorder m (u, mu) (u, v) := ⟨hb, mu, hl, Or.inl rfl⟩
      have hb2 : HalfOfBorder m (mu, v) (u, v) := ⟨hb, mu, hl, Or.inr rfl⟩
      rw [← side_unique m hes _ _ _ hb2 ht]
      exact ih (u, v) hb1
    · have hb1 : HalfOfBorder m (mu, v) (u, v) := ⟨hsucc.1, mu, hl, Or.inr rfl⟩
      have hb2 : HalfOfBorder m (v, mw) (v, w) := ⟨hsucc.2.1, mw, hl', Or.inl rfl⟩
      rw [← side_unique m hes _ _ _ hb2 ht]
      exact (ih (u, v) hb1).tail hsucc


/-! ### instances -/

theorem q3_lookup_of_side (m m1 : Raw) (hc : quads3Core m = .ok m1) (hes : EdgesSorted m) (u v : Nat) (huv : (u, v) ∈ dirSides m) :
    ∃ mu, halfLookup m.edges m.verts.length (keyify u v) = some mu := by
  obtain ⟨mids, bs, parts, _, _, h3, _, _, _⟩ := quads3Core_spec m m1 hc
  obtain ⟨f, hf, hfuv⟩ := List.mem_flatMap.mp huv
  obtain ⟨i, hi⟩ := mem_number_of_mem m.faces (m.verts.length + m.edges.length) f hf
  obtain ⟨p, _, hfl⟩ := mapE_mem_of _ _ _ h3 (i, f) hi
  obtain ⟨a, b, c, mab, mbc, mca, hfe, _, _, _, l1, l2, l3, _⟩ := q3_part_desc m hes i f p hfl
  have hfe : f = [a, b, c] := hfe
  rw [hfe] at hfuv
  simp only [cycPairs, cycGo, List.mem_cons, Prod.mk.injEq, List.not_mem_nil, or_false] at hfuv
  rcases hfuv with ⟨rfl, rfl⟩ | ⟨rfl, rfl⟩ | ⟨rfl, rfl⟩
  · exact ⟨_, l1⟩
  · exact ⟨_, l2⟩
  · exact ⟨_, l3⟩

theorem q3_half_mem (m m1 : Raw) (hc : quads3Core m = .ok m1) (hes : EdgesSorted m) (u v mu : Nat) (x : Nat × Nat)
    (huv : (u, v) ∈ dirSides m) (hl : halfLookup m.edges m.verts.length (keyify u v) = some mu)
    (hxe : x = (u, mu) ∨ x = (mu, v)) : x ∈ dirSides m1 := by
  obtain ⟨f, hf, hfuv⟩ := List.mem_flatMap.mp huv
  obtain ⟨i, hi⟩ := mem_number_of_mem m.faces (m.verts.length + m.edges.length) f hf
  exact (mem_dirSides_q3 m m1 hc hes x).mpr ⟨(i, f), hi, Or.inl ⟨u, v, mu, hfuv, hl, hxe⟩⟩

theorem q3_borderHalves (m m1 : Raw) (hc : quads3Core m = .ok m1) (hes : EdgesSorted m) : BorderHalves m m1 := by
  refine ⟨fun x => ?_, q3_lookup_of_side m m1 hc hes⟩
  constructor
  · rintro ⟨hx, hno⟩
    obtain ⟨u, v, mu, huv, hvu, hl, hxe⟩ := (q3_border m m1 hc hes x hx).mp hno
    exact ⟨(u, v), ⟨huv, hvu⟩, mu, hl, hxe⟩
  · rintro ⟨⟨u, v⟩, ⟨huv, hvu⟩, mu, hl, hxe⟩
    have hx := q3_half_mem m m1 hc hes u v mu x huv hl hxe
    exact ⟨hx, (q3_border m m1 hc hes x hx).mpr ⟨u, v, mu, huv, hvu, hl, hxe⟩⟩

theorem sub6_borderHalves (m m1 m' : Raw) (hc : quads3Core m = .ok m1) (ht : triangulate m1 = .ok m') (hes : EdgesSorted m)
    (ho : OrientedSides m) (hS : SharesAtMostOne m) : BorderHalves m m' := by
  have h4 : ∀ f ∈ m1.faces, f.length = 4 := (quads3Core_counts m m1 hc).2.2.1
  have hnd := q3_sides_diags_nodup m m1 hc hes ho hS
  have hq : ∀ i ∈ List.range m1.faces.length, ∃ a b c d, m1.faces[i]? = some [a, b, c, d] := by
    intro i hi
    have hlt : i < m1.faces.length := List.mem_range.mp hi
    have h4' := h4 m1.faces[i] (List.getElem_mem hlt)
    rcases hfe : m1.faces[i] with _ | ⟨a, _ | ⟨b, _ | ⟨c, _ | ⟨d, _ | ⟨e, t⟩⟩⟩⟩⟩ <;> rw [hfe] at h4' <;> simp at h4'
    exact ⟨a, b, c, d, by rw [List.getElem?_eq_getElem hlt, hfe]⟩
  have hperm := tri_quads_perm _ m1 m' List.nodup_range hq ht
  have hsw : ∀ y ∈ (List.range m1.faces.length).flatMap (fun i => diagOf m1.faces[i]?),
      (y.2, y.1) ∈ (List.range m1.faces.length).flatMap (fun i => diagOf m1.faces[i]?) := by
    intro y hy
    obtain ⟨i, hi, hyi⟩ := List.mem_flatMap.mp hy
    exact List.mem_flatMap.mpr ⟨i, hi, diagOf_swap _ y hyi⟩
  have hsub : ∀ y ∈ dirSides m1, y ∈ dirSides m' := fun y hy => hperm.mem_iff.mpr (List.mem_append.mpr (Or.inl hy))
  obtain ⟨hb1, hb2⟩ := q3_borderHalves m m1 hc hes
  refine ⟨fun x => ?_, hb2⟩
  constructor
  · rintro ⟨hx, hno⟩
    obtain ⟨hx1, hno1⟩ := (cuts_border _ _ _ hperm hnd hsw x hx).mp hno
    exact (hb1 x).mp ⟨hx1, hno1⟩
  · intro hs
    obtain ⟨hx1, hno1⟩ := (hb1 x).mpr hs
    exact ⟨hsub x hx1, (cuts_border _ _ _ hperm hnd hsw x (hsub x hx1)).mpr ⟨hx1, hno1⟩⟩

end Mouette.Subdiv
