import Mouette.Model.FeatRuns
/-! C15 histories: a run that performs its two resets does not see what earlier runs left behind. -/
namespace Mouette.Features

theorem addAll_append_of_nodup : ∀ (l s : List Nat), (s ++ l).Nodup → addAll s l = s ++ l := by
  intro l
  induction l with
  | nil => intro s _; simp [addAll]
  | cons x rest ih =>
    intro s h
    have hx : x ∉ s := by
      intro hm
      have := (List.nodup_append.mp h).2.2 x hm x List.mem_cons_self
      exact this rfl
    have hc : s.contains x = false := by
      cases hb : s.contains x
      · rfl
      · exact absurd (List.contains_iff_mem.mp hb) hx
    unfold addAll
    rw [List.foldl_cons]
    simp only [hc, Bool.false_eq_true, if_false]
    have h' : ((s ++ [x]) ++ rest).Nodup := by simpa using h
    have := ih (s ++ [x]) h'
    unfold addAll at this
    rw [this]; simp

theorem addAll_nil {l : List Nat} (h : l.Nodup) : addAll [] l = l := by
  simpa using addAll_append_of_nodup l [] (by simpa using h)

theorem withDQ_dqOf (es : List EdgeInfo) : withDQ es (dqOf es) = es := by
  unfold withDQ dqOf
  rw [List.zipWith_map_right]
  induction es with
  | nil => rfl
  | cons e rest ih => simp only [List.zipWith_cons_cons]; rw [ih]

/-- the normals a run works with: the attribute if there is one (just injected, or left on the mesh), else the
current geometry -/
theorem runOn_inj {fl : RunFlags} (th : Thresholds) (nv : Nat) (st : RunState) (inp : RunInput)
    (hinj : inp.inj = true) :
    runOn fl th nv st inp = runOn fl th nv { st with normals := none } inp := by
  unfold runOn
  simp only [hinj, if_true]

/-- with the resets in place, and no normals attribute left on the mesh (or one just written by the caller),
a run does not depend on the state it starts from -/
theorem runOn_of_clears {fl : RunFlags} (h1 : fl.selfClear = true) (h2 : fl.edgeClear = true)
    (th : Thresholds) (nv : Nat) (st : RunState) (inp : RunInput)
    (hn : st.normals = none ∨ inp.inj = true) :
    runOn fl th nv st inp = runOn fl th nv RunState.fresh inp := by
  have key : ∀ st' : RunState, st'.normals = none → runOn fl th nv st' inp = runOn fl th nv RunState.fresh inp := by
    intro st' hst
    unfold runOn
    have ho : openAttr fl.edgeClear st'.featE = openAttr fl.edgeClear RunState.fresh.featE := by
      unfold openAttr
      cases st'.featE <;> simp [h2, RunState.fresh]
    have hn' : RunState.fresh.normals = none := rfl
    simp only [h1, if_true, ho, hst, hn']
  rcases hn with hn | hn
  · exact key st hn
  · rw [runOn_inj th nv st inp hn]
    exact key _ rfl

/-- a run that computes its own normals non-persistently leaves no normals attribute behind -/
theorem runOn_normals_none {fl : RunFlags} (h3 : fl.normalsPersistent = false) (th : Thresholds) (nv : Nat)
    (st : RunState) (inp : RunInput) (hst : st.normals = none) (hinj : inp.inj = false) :
    (runOn fl th nv st inp).normals = none := by
  unfold runOn
  simp [hinj, hst, h3]

theorem runHistory_normals_none {fl : RunFlags} (h3 : fl.normalsPersistent = false) (th : Thresholds) (nv : Nat) :
    ∀ (hist : List (Bool × RunInput)) (st : RunState), st.normals = none → (∀ r ∈ hist, r.2.inj = false) →
      (runHistory fl th nv st hist).normals = none := by
  intro hist
  induction hist with
  | nil => intro st h _; simpa [runHistory] using h
  | cons a rest ih =>
    intro st hst hall
    obtain ⟨sd, i0⟩ := a
    have hi0 : i0.inj = false := hall (sd, i0) List.mem_cons_self
    simp only [runHistory]
    apply ih
    · cases sd
      · simp only [Bool.false_eq_true, if_false]
        exact runOn_normals_none h3 th nv _ i0 hst hi0
      · simp only [if_true]
        exact runOn_normals_none h3 th nv _ i0 hst hi0
    · intro r hr; exact hall r (List.mem_cons_of_mem _ hr)

/-- … hence the last run of a history equals the run on a fresh mesh with a fresh detector, provided the normals
it sees are the caller's: either the caller never wrote a `normals` attribute (then every run uses the geometry
of its moment), or the caller wrote one just before the last run -/
theorem runHistory_last {fl : RunFlags} (h1 : fl.selfClear = true) (h2 : fl.edgeClear = true)
    (h3 : fl.normalsPersistent = false) (th : Thresholds) (nv : Nat) (inp : RunInput)
    (hist : List (Bool × RunInput)) (st : RunState) (hst : st.normals = none)
    (hn : (∀ r ∈ hist, r.2.inj = false) ∨ inp.inj = true) :
    runHistory fl th nv st (hist ++ [(true, inp)]) = runOn fl th nv RunState.fresh inp := by
  have happ : ∀ (hist : List (Bool × RunInput)) (st : RunState),
      runHistory fl th nv st (hist ++ [(true, inp)]) = runOn fl th nv (runHistory fl th nv st hist) inp := by
    intro hist
    induction hist with
    | nil => intro st; simp [runHistory]
    | cons a rest ih => intro st; obtain ⟨sd, i0⟩ := a; simp only [List.cons_append, runHistory]; exact ih _
  rw [happ]
  apply runOn_of_clears h1 h2
  rcases hn with hn | hn
  · exact Or.inl (runHistory_normals_none h3 th nv hist st hst hn)
  · exact Or.inr hn

theorem nodup_filter_range (n : Nat) (p : Nat → Bool) : ((List.range n).filter p).Nodup :=
  List.nodup_range.sublist List.filter_sublist

/-- the run on a fresh mesh is the stateless model the C15 theorems are about -/
theorem runOn_fresh (fl : RunFlags) (th : Thresholds) (nv : Nat) (inp : RunInput) :
    (runOn fl th nv RunState.fresh inp).featE = some (flagged th inp.onlyBorder inp.es) ∧
    (runOn fl th nv RunState.fresh inp).det.fe = featureEdges th inp.onlyBorder inp.es ∧
    (runOn fl th nv RunState.fresh inp).det.fv =
      featureVertices nv inp.es (featureEdges th inp.onlyBorder inp.es) ∧
    (runOn fl th nv RunState.fresh inp).det.deg = degrees inp.es (featureEdges th inp.onlyBorder inp.es) ∧
    (runOn fl th nv RunState.fresh inp).det.locKeys =
      featureVertices nv inp.es (featureEdges th inp.onlyBorder inp.es) := by
  have hdet : (if fl.selfClear = true then DetState.fresh else RunState.fresh.det) = DetState.fresh := by
    cases fl.selfClear <;> rfl
  have hfe : (List.range inp.es.length).filter (fun e => (flagged th inp.onlyBorder inp.es).contains e)
      = featureEdges th inp.onlyBorder inp.es := rfl
  have e1 : DetState.fresh.fe = [] := rfl
  have e2 : DetState.fresh.fv = [] := rfl
  have e3 : DetState.fresh.deg = [] := rfl
  have e4 : DetState.fresh.locKeys = [] := rfl
  have h1 : addAll [] (featureEdges th inp.onlyBorder inp.es) = featureEdges th inp.onlyBorder inp.es :=
    addAll_nil (nodup_filter_range _ _)
  have h2 : addAll [] (featureVertices nv inp.es (featureEdges th inp.onlyBorder inp.es))
      = featureVertices nv inp.es (featureEdges th inp.onlyBorder inp.es) :=
    addAll_nil (nodup_filter_range _ _)
  have hopen : openAttr fl.edgeClear RunState.fresh.featE = [] := rfl
  have hflag : flaggedFrom th inp.onlyBorder inp.es [] = flagged th inp.onlyBorder inp.es := rfl
  have hnone : RunState.fresh.normals = none := rfl
  unfold runOn
  cases hinj : inp.inj
  · simp only [Bool.false_eq_true, if_false, hnone, hopen, hflag, hdet, hfe, e1, e2, e3, e4, h1, h2]
    exact ⟨trivial, trivial, trivial, rfl, trivial⟩
  · simp only [if_true, withDQ_dqOf, hopen, hflag, hdet, hfe, e1, e2, e3, e4, h1, h2]
    exact ⟨trivial, trivial, trivial, rfl, trivial⟩

end Mouette.Features
