import Mouette.Model.FeatRuns
/-! C15 histories: a run that performs its two resets does not see what earlier runs left behind. -/
namespace Mouette.Features

theorem addAll_append_of_nodup : ∀ (l s : List Nat), (s ++ l).Nodup → addAll s l = s ++ l := by
  intro l
  induction l with
  | nil => intro s _; simp [addAll]
  | cons x rest ih =>
    intro s h
    have hx : x ∉ s := by
      intro hm
      have := (List.nodup_append.mp h).2.2 x hm x List.mem_cons_self
      exact this rfl
    have hc : s.contains x = false := by
      cases hb : s.contains x
      · rfl
      · exact absurd (List.contains_iff_mem.mp hb) hx
    unfold addAll
    rw [List.foldl_cons]
    simp only [hc, Bool.false_eq_true, if_false]
    have h' : ((s ++ [x]) ++ rest).Nodup := by simpa using h
    have := ih (s ++ [x]) h'
    unfold addAll at this
    rw [this]; simp

theorem addAll_nil {l : List Nat} (h : l.Nodup) : addAll [] l = l := by
  simpa using addAll_append_of_nodup l [] (by simpa using h)

/-- with both resets in place a run does not depend on the state it starts from -/
theorem runOn_of_clears {fl : RunFlags} (h1 : fl.selfClear = true) (h2 : fl.edgeClear = true)
    (th : Thresholds) (nv : Nat) (st : RunState) (inp : RunInput) :
    runOn fl th nv st inp = runOn fl th nv RunState.fresh inp := by
  unfold runOn
  have ho : openAttr fl.edgeClear st.featE = openAttr fl.edgeClear RunState.fresh.featE := by
    unfold openAttr
    cases st.featE <;> simp [h2, RunState.fresh]
  simp only [h1, if_true, ho]

/-- … hence the last run of ANY history equals the run on a fresh mesh with a fresh detector -/
theorem runHistory_last {fl : RunFlags} (h1 : fl.selfClear = true) (h2 : fl.edgeClear = true)
    (th : Thresholds) (nv : Nat) (inp : RunInput) :
    ∀ (hist : List (Bool × RunInput)) (st : RunState),
      runHistory fl th nv st (hist ++ [(true, inp)]) = runOn fl th nv RunState.fresh inp := by
  intro hist
  induction hist with
  | nil =>
    intro st
    simp only [List.nil_append, runHistory, if_true]
    exact runOn_of_clears h1 h2 th nv st inp
  | cons a rest ih =>
    intro st
    obtain ⟨sd, i0⟩ := a
    simp only [List.cons_append, runHistory]
    exact ih _

theorem nodup_filter_range (n : Nat) (p : Nat → Bool) : ((List.range n).filter p).Nodup :=
  List.nodup_range.sublist List.filter_sublist

/-- the run on a fresh mesh is the stateless model the C15 theorems are about -/
theorem runOn_fresh (fl : RunFlags) (th : Thresholds) (nv : Nat) (inp : RunInput) :
    (runOn fl th nv RunState.fresh inp).featE = some (flagged th inp.onlyBorder inp.es) ∧
    (runOn fl th nv RunState.fresh inp).det.fe = featureEdges th inp.onlyBorder inp.es ∧
    (runOn fl th nv RunState.fresh inp).det.fv =
      featureVertices nv inp.es (featureEdges th inp.onlyBorder inp.es) ∧
    (runOn fl th nv RunState.fresh inp).det.deg = degrees inp.es (featureEdges th inp.onlyBorder inp.es) ∧
    (runOn fl th nv RunState.fresh inp).det.locKeys =
      featureVertices nv inp.es (featureEdges th inp.onlyBorder inp.es) := by
  have hflag : flaggedFrom th inp.onlyBorder inp.es (openAttr fl.edgeClear RunState.fresh.featE)
      = flagged th inp.onlyBorder inp.es := rfl
  have hdet : (if fl.selfClear = true then DetState.fresh else RunState.fresh.det) = DetState.fresh := by
    cases fl.selfClear <;> rfl
  have hfe : (List.range inp.es.length).filter (fun e => (flagged th inp.onlyBorder inp.es).contains e)
      = featureEdges th inp.onlyBorder inp.es := rfl
  have e1 : DetState.fresh.fe = [] := rfl
  have e2 : DetState.fresh.fv = [] := rfl
  have e3 : DetState.fresh.deg = [] := rfl
  have e4 : DetState.fresh.locKeys = [] := rfl
  have h1 : addAll [] (featureEdges th inp.onlyBorder inp.es) = featureEdges th inp.onlyBorder inp.es :=
    addAll_nil (nodup_filter_range _ _)
  have h2 : addAll [] (featureVertices nv inp.es (featureEdges th inp.onlyBorder inp.es))
      = featureVertices nv inp.es (featureEdges th inp.onlyBorder inp.es) :=
    addAll_nil (nodup_filter_range _ _)
  unfold runOn
  simp only [hflag, hdet, hfe, e1, e2, e3, e4, h1, h2]
  exact ⟨trivial, trivial, trivial, rfl, trivial⟩

end Mouette.Features
