import Mouette.Lemmas.SubdivArea
/-
C13: total signed volume of a tetrahedral mesh under `split_cell_as_fan` (mesh level), raw Euler characteristic.
-/
namespace Mouette.Subdiv

/-- six times the signed volume of a cell over the vertex list (0 for non-tetrahedra) -/
def cellVol6 (vs : List Pt) : List Nat → Rat
  | [a, b, c, d] => vol6 (vpos vs a) (vpos vs b) (vpos vs c) (vpos vs d)
  | _ => 0

def totalVol6 (m : Raw) : Rat := (m.cells.map (cellVol6 m.verts)).sum

/-- every cell index is a vertex -/
def WFC (m : Raw) : Prop := ∀ c ∈ m.cells, ∀ v ∈ c, v < m.verts.length

theorem sum_set_rat {α} (g : α → Rat) : ∀ (l : List α) (i : Nat) (hi : i < l.length) (x : α),
    ((l.set i x).map g).sum + g l[i] = (l.map g).sum + g x
  | a :: t, 0, _, x => by simp; ring
  | a :: t, i + 1, hi, x => by
    have := sum_set_rat g t i (by simpa using hi) x
    simp only [List.set_cons_succ, List.map_cons, List.sum_cons, List.getElem_cons_succ]
    rw [add_assoc, this]; ring

theorem cellVol6_append (vs ex : List Pt) (c : List Nat) (hc : ∀ v ∈ c, v < vs.length) :
    cellVol6 (vs ++ ex) c = cellVol6 vs c := by
  rcases c with _ | ⟨x0, _ | ⟨x1, _ | ⟨x2, _ | ⟨x3, _ | ⟨x4, t⟩⟩⟩⟩⟩ <;> try rfl
  simp only [cellVol6]
  rw [vpos_append_left _ _ _ (hc x0 (by simp)), vpos_append_left _ _ _ (hc x1 (by simp)),
      vpos_append_left _ _ _ (hc x2 (by simp)), vpos_append_left _ _ _ (hc x3 (by simp))]

theorem getPt_vpos (m : Raw) (a : Nat) (p : Pt) (h : getPt m a = .ok p) : vpos m.verts a = p ∧ a < m.verts.length := by
  unfold getPt at h
  cases hv : m.verts[a]? with
  | none => simp [hv] at h
  | some q =>
    simp only [hv, Except.ok.injEq] at h; subst h
    refine ⟨by simp [vpos, hv], ?_⟩
    by_contra hc
    rw [List.getElem?_eq_none (by omega)] at hv; cases hv

theorem pts4 (m : Raw) (a b c d : Nat) (ps : List Pt) (h : pts m [a, b, c, d] = .ok ps) :
    ps = [vpos m.verts a, vpos m.verts b, vpos m.verts c, vpos m.verts d] ∧
    a < m.verts.length ∧ b < m.verts.length ∧ c < m.verts.length ∧ d < m.verts.length := by
  simp only [pts, mapE] at h
  cases ha : getPt m a with
  | error e => simp [ha] at h
  | ok pa =>
    cases hb : getPt m b with
    | error e => simp [ha, hb] at h
    | ok pb =>
      cases hc : getPt m c with
      | error e => simp [ha, hb, hc] at h
      | ok pc =>
        cases hd : getPt m d with
        | error e => simp [ha, hb, hc, hd] at h
        | ok pd =>
          simp only [ha, hb, hc, hd, Except.ok.injEq] at h
          obtain ⟨e1, l1⟩ := getPt_vpos m a pa ha
          obtain ⟨e2, l2⟩ := getPt_vpos m b pb hb
          obtain ⟨e3, l3⟩ := getPt_vpos m c pc hc
          obtain ⟨e4, l4⟩ := getPt_vpos m d pd hd
          exact ⟨by rw [← h, e1, e2, e3, e4], l1, l2, l3, l4⟩

/-- **`split_cell_as_fan` preserves the total signed volume, each new cell being a quarter of the old one** -/
theorem cellFan_volume (m m' : Raw) (cid a b c d : Nat) (hwf : WFC m) (hc : m.cells[cid]? = some [a, b, c, d])
    (h : splitCellAsFan m cid = .ok m') : totalVol6 m' = totalVol6 m := by
  obtain ⟨ps, hp, hv, hce, _, _⟩ := cellFan_spec m m' cid a b c d hc h
  obtain ⟨hps, la, lb, lc, ld⟩ := pts4 m a b c d ps hp
  have hi : cid < m.cells.length := by
    by_contra hcn
    rw [List.getElem?_eq_none (by omega)] at hc; cases hc
  have hget : m.cells[cid] = [a, b, c, d] := by
    have := List.getElem?_eq_getElem hi; rw [this] at hc; exact Option.some.inj hc
  set G := Pt.smul (1/4) (sumPts ps) with hG
  set ib := m.verts.length with hib
  have hold : ∀ g ∈ m.cells, cellVol6 (m.verts ++ [G]) g = cellVol6 m.verts g := fun g hg =>
    cellVol6_append _ _ _ (hwf g hg)
  have vG : vpos (m.verts ++ [G]) ib = G := by simp [vpos, hib]
  have hGc : G = centre4 (vpos m.verts a) (vpos m.verts b) (vpos m.verts c) (vpos m.verts d) := by
    rw [hG, hps]; rfl
  obtain ⟨q0, q1, q2, q3⟩ := vol_cell_fan (vpos m.verts a) (vpos m.verts b) (vpos m.verts c) (vpos m.verts d)
  unfold totalVol6
  rw [hce, hv, List.map_append, List.sum_append]
  have hs := sum_set_rat (cellVol6 (m.verts ++ [G])) m.cells cid hi [ib, b, c, d]
  rw [hget, hold _ (hget ▸ List.getElem_mem hi), List.map_congr_left hold] at hs
  simp only [List.map_cons, List.map_nil, List.sum_cons, List.sum_nil, cellVol6, vG,
    vpos_append_left _ _ _ la, vpos_append_left _ _ _ lb, vpos_append_left _ _ _ lc, vpos_append_left _ _ _ ld] at hs ⊢
  rw [hGc] at hs ⊢
  linarith

/-! ### Euler characteristic of the raw containers -/

/-- V − E + F over the containers the code maintains -/
def chiRaw (m : Raw) : Int := (m.verts.length : Int) - m.edges.length + m.faces.length

/-- V − E for polylines -/
def chiLine (m : Raw) : Int := (m.verts.length : Int) - m.edges.length

theorem triExtra_euler (f : List Nat) : (triExtraV f : Int) - triExtraE f + triExtraF f = 0 := by
  unfold triExtraV triExtraE triExtraF
  split_ifs <;> omega

/-! ### concrete meshes used as witnesses / non-vacuity examples in `Props/C13.lean` -/

/-- two triangles (the witness of the input-object finding) -/
def witnessMesh : Raw :=
  prepare ⟨[(0, 0, 0), (1, 0, 0), (0, 1, 0), (1, 1, 0)], [], [[0, 1, 2], [1, 3, 2]], []⟩

def pentagon : Raw :=
  prepare ⟨[(2, 0, 0), (1, 2, 0), (-1, 1, 1), (-1, -1, 0), (1, -2, 0), (3, -2, 0)], [], [[0, 1, 2, 3, 4], [0, 4, 5]], []⟩

def oneTet : Raw := prepare ⟨[(0, 0, 0), (1, 0, 0), (0, 1, 0), (0, 0, 1)], [], [], [[0, 1, 2, 3]]⟩

/-- annulus of two quads touching in two opposite corners (3 and 4) and two triangles: manifold, but not a regular complex -/
def nonRegularWitness : Raw :=
  prepare ⟨[(1, 0, 0), (2, 0, 0), (-1, 1, 0), (-2, 2, 0), (-1, -1, 0), (-2, -2, 0)], [],
    [[1, 4, 0, 3], [5, 3, 2, 4], [1, 5, 4], [0, 2, 3]], []⟩

end Mouette.Subdiv
