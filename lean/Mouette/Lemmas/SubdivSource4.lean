import Mouette.Lemmas.SubdivSource3
import Mouette.Lemmas.SubdivBlock
/-
C13 (round 4): the operation dispatcher and the operation sequences of a block, on the TRANSLATED bodies; every operation
keeps `FacesGe2`, so the bridges compose along sequences and along histories of blocks; the editing-block protocol
(`__init__` / `__enter__` / `__exit__` step lists translated from the source) interpreted on the two-alias block model.
-/
namespace Mouette.SubdivSrc
open Mouette.Subdiv
open Mouette.Generated

/-- `applyOp` on the bodies translated from the source -/
def srcApplyOp (m : Raw) : Op → Except Err Raw
  | .fan f => C13Src.splitFaceAsFan m f
  | .triFace f => C13Src.triangulateFace m f
  | .tri => C13Src.triangulate m
  | .loop n => C13Src.loopSubdivision m n
  | .quads3 => C13Src.quads3 m
  | .sub6 n => C13Src.sub6 m n
  | .cellFan c => C13Src.splitCellAsFan m c
  | .faceSplit f => C13Src.splitTetFromFaceCenter m f
  | .edgeSplit e => C13Src.splitEdge m e

/-- `runOps` on the bodies translated from the source -/
def srcRunOps (m : Raw) : List Op → Nat → Raw × Option (Err × Nat)
  | [], _ => (m, none)
  | op :: ops, i =>
    match srcApplyOp m op with
    | .ok m' => srcRunOps m' ops (i + 1)
    | .error e => (m, some (e, i))

theorem srcApplyOp_eq (m : Raw) (op : Op) (h2 : FacesGe2 m) : srcApplyOp m op = applyOp m op := by
  cases op with
  | fan f => exact splitFaceAsFan_bridge m f (fun g hg => h2 g (List.mem_of_getElem? hg))
  | triFace f => exact triangulateFace_bridge m f (fun g hg => h2 g (List.mem_of_getElem? hg))
  | tri => exact triangulate_bridge m h2
  | loop n => exact loopSubdivision_bridge m n h2
  | quads3 => exact quads3_bridge m h2
  | sub6 n => exact sub6_bridge m n h2
  | cellFan c => exact splitCellAsFan_bridge m c
  | faceSplit f => exact splitTetFromFaceCenter_bridge m f
  | edgeSplit e => exact splitEdge_bridge m e

theorem cellFan_faces (m m' : Raw) (cid : Nat) (h : Subdiv.splitCellAsFan m cid = .ok m') : m'.faces = m.faces := by
  unfold Subdiv.splitCellAsFan at h
  cases hc : m.cells[cid]? with
  | none => simp [hc] at h
  | some cell =>
    simp only [hc] at h
    rcases cell with _ | ⟨a, _ | ⟨b, _ | ⟨c, _ | ⟨d, _ | ⟨e, t⟩⟩⟩⟩⟩
    · simp [pure, Except.pure] at h; subst h; rfl
    · simp [pure, Except.pure] at h; subst h; rfl
    · simp [pure, Except.pure] at h; subst h; rfl
    · simp [pure, Except.pure] at h; subst h; rfl
    · simp only [bind, Except.bind] at h
      cases hp : pts m [a, b, c, d] with
      | error er => simp [hp] at h
      | ok ps => simp only [hp, pure, Except.pure, Except.ok.injEq] at h; subst h; rfl
    · simp [pure, Except.pure] at h; subst h; rfl

theorem faceSplit_facesGe2 (m m' : Raw) (fid : Nat) (h : Subdiv.splitTetFromFaceCenter m fid = .ok m') (h2 : FacesGe2 m) :
    FacesGe2 m' := by
  have h0 := h
  unfold Subdiv.splitTetFromFaceCenter at h
  cases hf : m.faces[fid]? with
  | none => simp [hf] at h
  | some f =>
    simp only [hf] at h
    rcases f with _ | ⟨a, _ | ⟨b, _ | ⟨c, _ | ⟨d, t⟩⟩⟩⟩
    · simp [pure, Except.pure] at h; subst h; exact h2
    · simp [pure, Except.pure] at h; subst h; exact h2
    · simp [pure, Except.pure] at h; subst h; exact h2
    · obtain ⟨_, _, _, _, _, _, hfa, _⟩ := faceSplit_spec m m' fid a b c hf h0
      intro y hy
      rw [hfa] at hy
      rcases mem_set_append hy with h1 | h1 | h1
      · exact h2 y h1
      · subst h1; simp
      · simp at h1; rcases h1 with h1 | h1 <;> subst h1 <;> simp
    · simp [pure, Except.pure] at h; subst h; exact h2

theorem splitEdge_faces (m m' : Raw) (eid : Nat) (h : Subdiv.splitEdge m eid = .ok m') : m'.faces = m.faces := by
  unfold Subdiv.splitEdge at h
  cases he : m.edges[eid]? with
  | none => simp [he] at h
  | some ab =>
    obtain ⟨a, b⟩ := ab
    simp only [he] at h
    cases ha : m.verts[a]? with
    | none => simp [ha] at h
    | some pa =>
      cases hb : m.verts[b]? with
      | none => simp [ha, hb] at h
      | some pb => simp only [ha, hb, pure, Except.pure, Except.ok.injEq] at h; subst h; rfl

theorem applyOp_facesGe2 (m m' : Raw) (op : Op) (h : applyOp m op = .ok m') (h2 : FacesGe2 m) : FacesGe2 m' := by
  cases op with
  | fan f => exact fan_facesGe2 m m' f h h2
  | triFace f => exact triangulateFace_facesGe2 m m' f h h2
  | tri => exact triangulate_ok_facesGe2 m m' h h2
  | loop n => exact loopSubdivision_facesGe2 m m' n h h2
  | quads3 => exact quads3_facesGe2 m m' h
  | sub6 n => exact sub6_facesGe2 m m' n h h2
  | cellFan c => intro f hf; rw [cellFan_faces m m' c h] at hf; exact h2 f hf
  | faceSplit f => exact faceSplit_facesGe2 m m' f h h2
  | edgeSplit e => intro f hf; rw [splitEdge_faces m m' e h] at hf; exact h2 f hf

theorem srcRunOps_eq : ∀ (ops : List Op) (m : Raw) (i : Nat), FacesGe2 m → srcRunOps m ops i = runOps m ops i := by
  intro ops
  induction ops with
  | nil => intro m i _; rfl
  | cons op ops ih =>
    intro m i h2
    simp only [srcRunOps, runOps, srcApplyOp_eq m op h2]
    cases ha : applyOp m op with
    | error e => rfl
    | ok m' => exact ih m' (i + 1) (applyOp_facesGe2 m m' op ha h2)

theorem runOps_facesGe2 : ∀ (ops : List Op) (m m' : Raw) (i : Nat) (r : Option (Err × Nat)), runOps m ops i = (m', r) → FacesGe2 m →
    FacesGe2 m' := by
  intro ops
  induction ops with
  | nil => intro m m' i r h h2; simp [runOps] at h; rw [← h.1]; exact h2
  | cons op ops ih =>
    intro m m' i r h h2
    simp only [runOps] at h
    cases ha : applyOp m op with
    | error e => simp [ha] at h; rw [← h.1]; exact h2
    | ok m1 => simp only [ha] at h; exact ih m1 m' (i + 1) r h (applyOp_facesGe2 m m1 op ha h2)

/-! ### `prepare()` keeps `FacesGe2` (faces completed from tetrahedral cells are triangles) -/

theorem tetFaces_len (c g : List Nat) (h : g ∈ tetFaces c) : g.length = 3 := by
  rcases c with _ | ⟨a, _ | ⟨b, _ | ⟨c', _ | ⟨d, _ | ⟨e, t⟩⟩⟩⟩⟩ <;> simp [tetFaces] at h
  rcases h with h | h | h | h <;> subst h <;> rfl

theorem completeFaces_fold_ge2 : ∀ (cands : List (List Nat)) (acc : List (List Nat) × List (List Nat)),
    (∀ g ∈ cands, 2 ≤ g.length) → (∀ g ∈ acc.2, 2 ≤ g.length) →
    ∀ g ∈ (cands.foldl (fun (acc : List (List Nat) × List (List Nat)) f =>
        let k := keyifyL f
        if acc.1.elem k then acc else (acc.1 ++ [k], acc.2 ++ [f])) acc).2, 2 ≤ g.length := by
  intro cands
  induction cands with
  | nil => intro acc _ h; exact h
  | cons f fs ih =>
    intro acc hc ha
    simp only [List.foldl_cons]
    apply ih
    · intro g hg; exact hc g (by simp [hg])
    · by_cases hk : acc.1.elem (keyifyL f) = true
      · simp only [hk, if_true]; exact ha
      · simp only [hk, if_false]
        intro g hg
        rcases List.mem_append.mp hg with h1 | h1
        · exact ha g h1
        · simp at h1; subst h1; exact hc g (by simp)

theorem prepare_facesGe2 (m : Raw) (h2 : FacesGe2 m) : FacesGe2 (prepare m) := by
  unfold prepare completeEdges completeFaces
  simp only []
  intro g hg
  refine completeFaces_fold_ge2 (m.cells.flatMap tetFaces) (m.faces.map keyifyL, m.faces) ?_ (fun g hg => h2 g hg) g hg
  intro g hg
  obtain ⟨c, _, hgc⟩ := List.mem_flatMap.mp hg
  have := tetFaces_len c g hgc
  omega

/-! ### the editing-block protocol, from the step lists translated from the source -/

/-- what the steps of `__enter__` do to the two-alias block model: `wrapRaw` makes `self.mesh` share the containers of the
caller's object; clearing the corner containers is recorded (the caller's corner count drops to 0, shared container) -/
structure EnterState where
  block : Option Block := none
  cleared : List String := []
  adjacency : Bool := false
deriving Inhabited

def enterStep (input : View) (s : EnterState) : Step → EnterState
  | .wrapRaw => { s with block := some ⟨input.raw, input.raw, false, input.cache⟩ }
  | .clear w => { s with cleared := s.cleared ++ [w] }
  | .cellAdjacency => { s with adjacency := true }
  | _ => s

def runEnter (steps : List Step) (input : View) : EnterState := steps.foldl (enterStep input) {}

/-- the caller's object as `__exit__` leaves it: `prepare` works on `self.mesh`; `reinitCaller` re-initialises the caller's
object on the prepared data (containers, corners regenerated, nothing cached); without it the caller's object keeps the
shared containers, its cleared corner container and its old cache (`Block.inputShipped`) -/
structure ExitState where
  work : Raw
  prepared : Bool := false
  caller : Option View := none

def exitStep (b : Block) (s : ExitState) : Step → ExitState
  | .prepare => { s with work := prepare s.work, prepared := true }
  | .reinitCaller => { s with caller := some ⟨s.work, cornerCount s.work, none⟩ }
  | _ => s

def runExit (steps : List Step) (b : Block) : View :=
  let s := steps.foldl (exitStep b) { work := b.work }
  match s.caller with
  | some v => v
  | none => b.inputShipped

/-- a block in which an operation may raise: the operations before the failing one have been applied, the failing one
is taken as atomic (the model's operations are), and `__exit__` then runs on the state reached -/
def Block.runPartial (b : Block) : List Op → Block × Option Err
  | [] => (b, none)
  | op :: ops =>
    match b.step op with
    | .ok b' => Block.runPartial b' ops
    | .error e => (b, some e)

theorem Block.runPartial_ok : ∀ (ops : List Op) (b b' : Block), b.run ops = .ok b' → Block.runPartial b ops = (b', none) := by
  intro ops
  induction ops with
  | nil => intro b b' h; simp [Block.run, pure, Except.pure] at h; subst h; rfl
  | cons op ops ih =>
    intro b b' h
    simp only [Block.run, bind, Except.bind] at h
    cases hs : b.step op with
    | error e => simp [hs] at h
    | ok b1 => simp only [hs] at h; simp only [Block.runPartial, hs]; exact ih b1 b' h

/-- the state reached by a partial run is the state of a complete run of the operations that succeeded -/
theorem Block.runPartial_prefix : ∀ (ops : List Op) (b b' : Block) (r : Option Err), Block.runPartial b ops = (b', r) →
    ∃ done, done <+: ops ∧ b.run done = .ok b' ∧ (r = none → done = ops) := by
  intro ops
  induction ops with
  | nil =>
    intro b b' r h
    simp [Block.runPartial] at h
    exact ⟨[], List.prefix_refl _, by rw [← h.1]; rfl, fun _ => rfl⟩
  | cons op ops ih =>
    intro b b' r h
    simp only [Block.runPartial] at h
    cases hs : b.step op with
    | error e =>
      simp [hs] at h
      exact ⟨[], List.nil_prefix, by rw [← h.1]; rfl, fun hr => by rw [← h.2] at hr; cases hr⟩
    | ok b1 =>
      simp only [hs] at h
      obtain ⟨done, hd1, hd2, hd3⟩ := ih b1 b' r h
      refine ⟨op :: done, ?_, ?_, ?_⟩
      · obtain ⟨t, ht⟩ := hd1; exact ⟨t, by simp [← ht]⟩
      · simp only [Block.run, bind, Except.bind, hs]; exact hd2
      · intro hr; rw [hd3 hr]

end Mouette.SubdivSrc
