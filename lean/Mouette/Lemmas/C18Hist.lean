import Mouette.Generated.C18Hist
import Mouette.Model.FrameFieldH
import Mouette.Lemmas.C18Bridge
/-
Lemmas for the round-3 history model and bridges to `Generated/C18Hist.lean`.
-/
namespace Mouette.Lemmas.C18H
open Mouette.FF Mouette.FFH Mouette.Lemmas.C18 Mouette.Lemmas.C18B
open Mouette.Generated

theorem run_run {α : Type} (init opt : α → α) (s : St α) : run init opt (run init opt s) = run init opt s := by
  unfold run
  rcases s with ⟨i, sm, d⟩
  cases i <;> cases sm <;> simp

theorem run_flags {α : Type} (init opt : α → α) (s : St α) :
    (run init opt s).initialized = true ∧ (run init opt s).smoothed = true := by
  unfold run
  rcases s with ⟨i, sm, d⟩
  cases i <;> cases sm <;> simp

theorem run_fresh {α : Type} (init opt : α → α) (d : α) :
    (run init opt (fresh d)).data = opt (init d) := by
  unfold run fresh; simp

theorem run_after_initialize {α : Type} (init opt : α → α) (d : α) :
    run init opt (initializeStep true init (fresh d)) = run init opt (fresh d) := by
  unfold run initializeStep fresh; simp

theorem listMin_mem : ∀ (l : List Rat), l ≠ [] → listMin l ∈ l
  | [], h => absurd rfl h
  | [x], _ => by simp [listMin]
  | x :: y :: ys, _ => by
    have ih := listMin_mem (y :: ys) (by simp)
    unfold listMin
    simp only
    split
    · exact List.mem_cons_of_mem _ ih
    · simp

theorem rabs_nonneg (x : Rat) : 0 ≤ rabs x := by
  unfold rabs; split <;> linarith

theorem attachWeight_pos (eigs : List Rat) : 0 < attachWeight eigs := by
  unfold attachWeight
  simp only
  split
  · unfold attachFail; norm_num
  · rename_i hne
    have hne' : eigs.filter (fun e => decide (attachThr < rabs e)) ≠ [] := by
      intro h; apply hne; rw [h]; rfl
    have hm := listMin_mem _ hne'
    have := (List.mem_filter.mp hm).2
    have h2 : attachThr < rabs (listMin (eigs.filter (fun e => decide (attachThr < rabs e)))) := by simpa using this
    have : (0 : Rat) < attachThr := by unfold attachThr; norm_num
    linarith

/-- source-shaped candidates of the FACE-based `flag_singularities` -/
def candidatesSrcF (n : Nat) (th1 a1 th2 a2 : Rat) : List Rat :=
  (List.range n).map (fun (k : Nat) =>
    C18V.angleDiff (C18H.faceMatchFst (C18V.rootPhase th2 n 0) a2 (C18V.rootPhase th1 n k) a1)
                   (C18H.faceMatchSnd (C18V.rootPhase th2 n 0) a2 (C18V.rootPhase th1 n k) a1))

theorem candidatesF_bridge (n : Nat) (th1 a1 th2 a2 : Rat) : candidatesSrcF n th1 a1 th2 a2 = candidates n th1 a1 th2 a2 := by
  unfold candidatesSrcF candidates
  apply List.map_congr_left
  intro k _
  rw [angleDiff_bridge, rootPhase_zero, rootPhase_bridge]
  unfold C18H.faceMatchFst C18H.faceMatchSnd
  rfl

end Mouette.Lemmas.C18H
