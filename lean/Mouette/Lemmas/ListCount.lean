/- Counting lemmas for `flatMap` over `List.range` (core Lean only). -/
namespace Mouette.ListCount

theorem length_flatMap_const {α β} (l : List α) (f : α → List β) (c : Nat) (h : ∀ a ∈ l, (f a).length = c) :
    (l.flatMap f).length = l.length * c := by
  induction l with
  | nil => simp
  | cons a t ih =>
    simp only [List.flatMap_cons, List.length_append, List.length_cons]
    rw [h a (by simp), ih (fun b hb => h b (by simp [hb]))]
    rw [Nat.succ_mul]; omega

/-- inner lists have length `c` below the threshold `m` and are empty from `m` on -/
theorem length_flatMap_range_cut {β} (n m c : Nat) (f : Nat → List β)
    (h1 : ∀ i, i < m → (f i).length = c) (h2 : ∀ i, m ≤ i → (f i).length = 0) :
    ((List.range n).flatMap f).length = min n m * c := by
  induction n with
  | zero => simp
  | succ n ih =>
    rw [List.range_succ, List.flatMap_append, List.length_append, ih]
    simp only [List.flatMap_cons, List.flatMap_nil, List.append_nil]
    by_cases h : n < m
    · rw [h1 n h, Nat.min_eq_left (by omega), Nat.min_eq_left (by omega), Nat.succ_mul]
    · rw [h2 n (by omega), Nat.min_eq_right (by omega), Nat.min_eq_right (by omega)]; omega

theorem length_flatMap_range_sum {β} (n : Nat) (f : Nat → List β) (g : Nat → Nat)
    (h : ∀ i, i < n → (f i).length = g i) :
    ((List.range n).flatMap f).length = ((List.range n).map g).sum := by
  induction n with
  | zero => simp
  | succ n ih =>
    rw [List.range_succ, List.flatMap_append, List.length_append, ih (fun i hi => h i (by omega))]
    simp [h n (by omega)]

/-- 0 + 1 + … + n, in the form used by `kpt = j*(j+1)/2` -/
theorem sum_range_succ_eq (n : Nat) : ((List.range n).map (fun j => j + 1)).sum = n * (n + 1) / 2 := by
  induction n with
  | zero => simp
  | succ n ih =>
    rw [List.range_succ, List.map_append, List.sum_append, ih]
    simp only [List.map_cons, List.map_nil, List.sum_cons, List.sum_nil]
    have h2 : (n + 1) * (n + 1 + 1) = n * (n + 1) + 2 * (n + 1) := by
      rw [Nat.mul_add, Nat.mul_one, Nat.succ_mul, Nat.mul_comm 2]; omega
    rw [h2]; omega

theorem takeWhile_range_le (n j : Nat) (p : Nat → Bool) (hp : ∀ i, p i = decide (i ≤ j)) (h : j < n) :
    (List.range n).takeWhile p = List.range (j + 1) := by
  obtain ⟨k, rfl⟩ : ∃ k, n = (j + 1) + k := ⟨n - (j + 1), by omega⟩
  rw [List.range_add, List.takeWhile_append_of_pos]
  · cases k with
    | zero => simp
    | succ k =>
      have e : List.map (fun x => j + 1 + x) (List.range (k + 1))
          = (j + 1 + 0) :: List.map (fun x => j + 1 + x) (List.map Nat.succ (List.range k)) := by
        rw [List.range_succ_eq_map]; rfl
      have : p (j + 1 + 0) = false := by rw [hp]; simp
      rw [e, List.takeWhile_cons, this]; simp
  · intro a ha; rw [hp]; simp at ha ⊢; omega

end Mouette.ListCount
