import Mouette.Model.MeshCheck
/-!
Face connectivity of a face list (core Lean only).

`Adjacent f g`: some directed side of `f` is the opposite of a directed side of `g` (the two faces share an edge, with
compatible orientation). `Reach fs f g`: `g` is reached from `f` by a chain of neighbouring faces that all belong to `fs`.
`FaceConnected fs`: the face list is one component. `connected_of_root` reduces connectivity to reachability from one root
face; `grid_reach` is the generic argument for families addressed by a grid `(i, j)`, `i < m`, `j < n`.

`Umbrella fs v ring`: `ring` lists, without repetition, exactly the faces of `fs` that contain the vertex `v`, and
cyclically consecutive faces of `ring` are neighbours through a side having `v` as an endpoint (the faces around `v`
form ONE closed fan: `v` is a manifold interior vertex).
-/
namespace Mouette.FaceConn
open Mouette.MeshCheck

/-- two faces are neighbours when some side of the first is the opposite of a side of the second -/
def Adjacent (f g : List Nat) : Prop := ∃ e ∈ sides f, (e.2, e.1) ∈ sides g

theorem Adjacent.symm {f g : List Nat} (h : Adjacent f g) : Adjacent g f := by
  obtain ⟨e, he, h⟩ := h
  exact ⟨(e.2, e.1), h, he⟩

/-- reachability through neighbouring faces of the list -/
inductive Reach (fs : List (List Nat)) : List Nat → List Nat → Prop
  | refl (f) : Reach fs f f
  | step {f g h} : Reach fs f g → h ∈ fs → Adjacent g h → Reach fs f h

/-- one component: every face is reachable from every face -/
def FaceConnected (fs : List (List Nat)) : Prop := ∀ f ∈ fs, ∀ g ∈ fs, Reach fs f g

theorem Reach.single {fs : List (List Nat)} {f g : List Nat} (hg : g ∈ fs) (h : Adjacent f g) : Reach fs f g :=
  .step (.refl f) hg h

theorem Reach.trans {fs : List (List Nat)} {f g h : List Nat} (h1 : Reach fs f g) (h2 : Reach fs g h) :
    Reach fs f h := by
  induction h2 with
  | refl => exact h1
  | step _ hm ha ih => exact .step ih hm ha

/-- everything reached from a face of the list is a face of the list -/
theorem Reach.mem {fs : List (List Nat)} {f g : List Nat} (h : Reach fs f g) (hf : f ∈ fs) : g ∈ fs := by
  cases h with
  | refl => exact hf
  | step _ hm _ => exact hm

theorem Reach.symm {fs : List (List Nat)} {f g : List Nat} (h : Reach fs f g) (hf : f ∈ fs) : Reach fs g f := by
  induction h with
  | refl => exact .refl _
  | step h1 _ ha ih => exact (Reach.single (h1.mem hf) ha.symm).trans ih

/-- a longer list reaches at least as much -/
theorem Reach.mono {fs gs : List (List Nat)} (hsub : ∀ f ∈ fs, f ∈ gs) {f g : List Nat} (h : Reach fs f g) :
    Reach gs f g := by
  induction h with
  | refl => exact .refl _
  | step _ hm ha ih => exact .step ih (hsub _ hm) ha

/-- connectivity from a root: every face is reached from one face `r` of the list -/
theorem connected_of_root (fs : List (List Nat)) (r : List Nat) (h : ∀ f ∈ fs, r ∈ fs ∧ Reach fs r f) :
    FaceConnected fs := by
  intro f hf g hg
  obtain ⟨hr, h1⟩ := h f hf
  exact (h1.symm hr).trans (h g hg).2

/-- grid-like families: `face i j` reaches its right neighbour `face i (j+1)` and, in column 0, its lower neighbour
`face (i+1) 0`; then every `face i j` is reached from `face 0 0` -/
theorem grid_reach (fs : List (List Nat)) (face : Nat → Nat → List Nat) (m n : Nat)
    (hh : ∀ i j, i < m → j + 1 < n → Reach fs (face i j) (face i (j + 1)))
    (hv : ∀ i, i + 1 < m → 0 < n → Reach fs (face i 0) (face (i + 1) 0)) :
    ∀ i j, i < m → j < n → Reach fs (face 0 0) (face i j) := by
  have col : ∀ i, i < m → 0 < n → Reach fs (face 0 0) (face i 0) := by
    intro i
    induction i with
    | zero => intro _ _; exact .refl _
    | succ i ih => intro hi hn; exact (ih (by omega) hn).trans (hv i hi hn)
  intro i j
  induction j with
  | zero => intro hi hn; exact col i hi hn
  | succ j ih => intro hi hj; exact (ih hi (by omega)).trans (hh i j hi hj)

/-- one row (a fan, a strip): `face i` reaches `face (i+1)` -/
theorem row_reach (fs : List (List Nat)) (face : Nat → List Nat) (n : Nat)
    (hh : ∀ i, i + 1 < n → Reach fs (face i) (face (i + 1))) :
    ∀ i, i < n → Reach fs (face 0) (face i) := by
  intro i
  induction i with
  | zero => intro _; exact .refl _
  | succ i ih => intro hi; exact (ih (by omega)).trans (hh i hi)

/-! ### umbrella of a vertex -/

/-- neighbours through a side having `v` as an endpoint -/
def AdjacentAt (v : Nat) (f g : List Nat) : Prop := ∃ e ∈ sides f, (e.2, e.1) ∈ sides g ∧ (e.1 = v ∨ e.2 = v)

theorem AdjacentAt.adjacent {v : Nat} {f g : List Nat} (h : AdjacentAt v f g) : Adjacent f g := by
  obtain ⟨e, he, h, _⟩ := h
  exact ⟨e, he, h⟩

/-- cyclically consecutive pairs: (x₀,x₁),(x₁,x₂),…,(xₙ₋₁,x₀) -/
def cyclicPairs {α} (l : List α) : List (α × α) :=
  match l with
  | [] => []
  | a :: _ => l.zip (l.tail ++ [a])

/-- `ring` is the closed fan of the faces of `fs` around the vertex `v` -/
def Umbrella (fs : List (List Nat)) (v : Nat) (ring : List (List Nat)) : Prop :=
  ring.Nodup ∧ (∀ f, f ∈ ring ↔ f ∈ fs ∧ v ∈ f) ∧ ∀ p ∈ cyclicPairs ring, AdjacentAt v p.1 p.2

theorem cyclicPairs_four {α} (a b c d : α) : cyclicPairs [a, b, c, d] = [(a, b), (b, c), (c, d), (d, a)] := rfl

/-- the cyclically consecutive pairs of `g 0, g 1, …, g (n-1)` -/
theorem mem_cyclicPairs_map_range {α} (n : Nat) (g : Nat → α) (p : α × α) :
    p ∈ cyclicPairs ((List.range n).map g) ↔ ∃ k, k < n ∧ p = (g k, g ((k + 1) % n)) := by
  cases n with
  | zero => simp [cyclicPairs]
  | succ m =>
    have hl : (List.range (m + 1)).map g = g 0 :: (List.range' 1 m).map g := by
      rw [List.range_eq_range', List.range'_succ]; simp
    rw [hl]
    unfold cyclicPairs
    simp only [List.tail_cons]
    rw [← hl]
    rw [List.mem_iff_getElem]
    simp only [List.length_zip, List.length_map, List.length_range, List.length_append, List.length_range',
      List.length_cons, List.length_nil, List.getElem_zip, List.getElem_map, List.getElem_range]
    constructor
    · rintro ⟨k, hk, rfl⟩
      have hk' : k < m + 1 := by omega
      refine ⟨k, hk', ?_⟩
      congr 1
      by_cases c : k < m
      · rw [List.getElem_append_left (by simp; exact c)]
        simp [Nat.mod_eq_of_lt (show k + 1 < m + 1 by omega), Nat.add_comm 1 k]
      · have : k = m := by omega
        subst this
        rw [List.getElem_append_right (by simp)]
        simp
    · rintro ⟨k, hk, rfl⟩
      refine ⟨k, by omega, ?_⟩
      congr 1
      by_cases c : k < m
      · rw [List.getElem_append_left (by simp; exact c)]
        simp [Nat.mod_eq_of_lt (show k + 1 < m + 1 by omega), Nat.add_comm 1 k]
      · have : k = m := by omega
        subst this
        rw [List.getElem_append_right (by simp)]
        simp

end Mouette.FaceConn
