import Mouette.Generated.C13Tables
import Mouette.Lemmas.SubdivCount
/-
C13: the model's refinement patterns are the literal tables of `subdivision.py` as the translator reads them NOW
(`Generated/C13Tables.lean`). Every lemma here is closed by `rfl` after the structural lemma about the model: if the
source table changes, the bridge no longer type-checks.
-/
namespace Mouette.Subdiv
open Mouette.Generated.C13

/-- interpretation of the source's local names -/
structure Env where
  a : Nat := 0
  b : Nat := 0
  c : Nat := 0
  d : Nat := 0
  mab : Nat := 0
  mbc : Nat := 0
  mca : Nat := 0
  s : Nat := 0
  ibary : Nat := 0
  icenter : Nat := 0

def Env.get (e : Env) : Sym → Nat
  | .A => e.a | .B => e.b | .C => e.c | .D => e.d | .mAB => e.mab | .mBC => e.mbc | .mCA => e.mca
  | .S => e.s | .ibary => e.ibary | .icenter => e.icenter

def Env.face (e : Env) (f : List Sym) : List Nat := f.map e.get

def Env.edge (e : Env) : List Sym → Nat × Nat
  | [x, y] => keyify (e.get x) (e.get y)
  | _ => (0, 0)

/-- the three dictionary lookups of the source, as (result, key) triples -/
def Env.lookupsOk (e : Env) (h : List (Nat × Nat) × Nat) (tbl : List (List Sym)) : Prop :=
  ∀ t ∈ tbl, match t with
    | [r, x, y] => getHalf h (e.get x) (e.get y) = .ok (e.get r)
    | _ => False

theorem loop_follows_source (h : List (Nat × Nat) × Nat) (f : List Nat) (fs : List (List Nat)) (es : List (Nat × Nat))
    (hok : loopFace h f = .ok (fs, es)) :
    ∃ e : Env, f = [e.a, e.b, e.c] ∧ e.lookupsOk h loopLookups ∧ fs = loopTris.map e.face ∧ es = loopEdges.map e.edge := by
  obtain ⟨a, b, c, mab, mbc, mca, hf, h1, h2, h3, hfs, hes⟩ := loopFace_spec h f fs es hok
  refine ⟨{ a := a, b := b, c := c, mab := mab, mbc := mbc, mca := mca }, hf, ?_, hfs, hes⟩
  intro t ht
  simp only [loopLookups, List.mem_cons, List.not_mem_nil, or_false] at ht
  rcases ht with rfl | rfl | rfl
  · exact h1
  · exact h2
  · exact h3

theorem quads_follow_source (h : List (Nat × Nat) × Nat) (s : Nat) (f : List Nat) (fs : List (List Nat)) (es : List (Nat × Nat))
    (hok : quadsFace h s f = .ok (fs, es)) :
    ∃ e : Env, e.s = s ∧ f = [e.a, e.b, e.c] ∧ e.lookupsOk h quadLookups ∧ fs = quads.map e.face := by
  obtain ⟨a, b, c, mab, mbc, mca, hf, h1, h2, h3, hfs⟩ := quadsFace_spec h s f fs es hok
  refine ⟨{ a := a, b := b, c := c, mab := mab, mbc := mbc, mca := mca, s := s }, rfl, hf, ?_, hfs⟩
  intro t ht
  simp only [quadLookups, List.mem_cons, List.not_mem_nil, or_false] at ht
  rcases ht with rfl | rfl | rfl
  · exact h1
  · exact h2
  · exact h3

/-- the edges `subdivide_triangles_3quads` writes (model) are the source's table -/
theorem quads_edges_follow_source (h : List (Nat × Nat) × Nat) (s a b c mab mbc mca : Nat)
    (h1 : getHalf h a b = .ok mab) (h2 : getHalf h b c = .ok mbc) (h3 : getHalf h c a = .ok mca) :
    ∃ fs, quadsFace h s [a, b, c] = .ok (fs, quadEdges.map
      ({ a := a, b := b, c := c, mab := mab, mbc := mbc, mca := mca, s := s } : Env).edge) := by
  simp only [quadsFace, h1, h2, h3, bind, Except.bind, pure, Except.pure]
  exact ⟨_, rfl⟩

theorem quad_cut_follows_source (m m' : Raw) (fid : Nat) (e : Env) (hf : m.faces[fid]? = some (e.face quadUnpack))
    (h : triangulateFace m fid = .ok m') :
    m'.faces = m.faces.set fid (e.face quadSet) ++ quadAppend.map e.face ∧ m'.edges = m.edges ++ [e.edge quadDiagonal] := by
  obtain ⟨_, hfa, he, _⟩ := quad_split_spec m m' fid e.a e.b e.c e.d hf h
  exact ⟨hfa, he⟩

theorem cell_fan_follows_source (m m' : Raw) (cid : Nat) (e : Env) (hib : e.ibary = m.verts.length)
    (hc : m.cells[cid]? = some (e.face cellUnpack)) (h : splitCellAsFan m cid = .ok m') :
    m'.cells = m.cells.set cid (e.face cellSet) ++ cellAppend.map e.face := by
  obtain ⟨_, _, _, hce, _, _⟩ := cellFan_spec m m' cid e.a e.b e.c e.d hc h
  rw [hce]
  simp only [Env.face, cellSet, cellAppend, List.map_cons, List.map_nil, Env.get, hib]

theorem face_split_follows_source (m m' : Raw) (fid : Nat) (e : Env) (hic : e.icenter = m.verts.length)
    (hf : m.faces[fid]? = some (e.face faceUnpack)) (h : splitTetFromFaceCenter m fid = .ok m') :
    m'.faces = m.faces.set fid (e.face faceSet) ++ faceAppend.map e.face := by
  obtain ⟨_, _, _, _, _, _, hfa, _⟩ := faceSplit_spec m m' fid e.a e.b e.c hf h
  rw [hfa]
  simp only [Env.face, faceSet, faceAppend, List.map_cons, List.map_nil, Env.get, hic]

end Mouette.Subdiv
