import Mouette.Lemmas.CutSourceBridge2
import Mouette.Lemmas.CuttingMap
import Mouette.Lemmas.CuttingBuild
/-!
Bridges for the stages of `_build_mesh_with_cuts` translated in round 5 (`Generated/C16Cut.lean`): the find loop, the
renumbering loop and the `order_verts` loop compute the model's `findFaces`, `mapFaces`, `orderVerts`. Core Lean only.
-/
namespace Mouette.CutSrc
open Mouette Mouette.Cutting Mouette.Generated

theorem foldl_findStep_none : ∀ l : List (List Nat), l.foldl C16.findStep none = none
  | [] => rfl
  | _ :: l => by rw [List.foldl_cons]; exact foldl_findStep_none l

theorem foldl_findStep : ∀ (faces : List (List Nat)) (uf : UF.State) (out : List (List Nat)),
    faces.foldl C16.findStep (some (uf, out)) = (findFaces uf faces).map (fun r => (r.1, out ++ r.2))
  | [], uf, out => by simp [findFaces]
  | f :: fs, uf, out => by
    rw [List.foldl_cons]
    have hstep : C16.findStep (some (uf, out)) f =
        (match findAll uf f with | none => none | some (uf1, r) => some (uf1, out ++ [r])) := rfl
    have hff : findFaces uf (f :: fs) = (match findAll uf f with
        | none => none
        | some (s1, r) => match findFaces s1 fs with
          | none => none
          | some (s2, rs) => some (s2, r :: rs)) := rfl
    rw [hstep, hff]
    cases h : findAll uf f with
    | none => simp only []; rw [foldl_findStep_none]; rfl
    | some r =>
      obtain ⟨uf1, r1⟩ := r
      simp only []
      rw [foldl_findStep fs uf1 (out ++ [r1])]
      cases findFaces uf1 fs with
      | none => rfl
      | some r2 => simp

theorem findLoop_bridge (uf : UF.State) (faces : List (List Nat)) : C16.findLoop uf faces = findFaces uf faces := by
  unfold C16.findLoop
  rw [foldl_findStep]
  cases findFaces uf faces with
  | none => rfl
  | some r => simp

theorem foldl_mapStep_none (m : List (Nat × Nat)) : ∀ l : List (List Nat), l.foldl (C16.mapStep m) none = none
  | [] => rfl
  | _ :: l => by rw [List.foldl_cons]; exact foldl_mapStep_none m l

theorem foldl_mapStep (m : List (Nat × Nat)) : ∀ (faces out : List (List Nat)),
    faces.foldl (C16.mapStep m) (some out) = (mapFaces m faces).map (fun r => out ++ r)
  | [], out => by simp [mapFaces]
  | f :: fs, out => by
    rw [List.foldl_cons]
    have hstep : C16.mapStep m (some out) f =
        (match mapFace m f with | none => none | some r => some (out ++ [r])) := rfl
    have hff : mapFaces m (f :: fs) = (match mapFace m f, mapFaces m fs with
        | some k, some l => some (k :: l)
        | _, _ => none) := rfl
    rw [hstep, hff]
    cases h : mapFace m f with
    | none => simp only []; rw [foldl_mapStep_none]; rfl
    | some r =>
      simp only []
      rw [foldl_mapStep m fs (out ++ [r])]
      cases mapFaces m fs with
      | none => rfl
      | some r2 => simp

theorem mapLoop_bridge (m : List (Nat × Nat)) (faces : List (List Nat)) : C16.mapLoop m faces = mapFaces m faces := by
  unfold C16.mapLoop
  rw [foldl_mapStep]
  cases mapFaces m faces with
  | none => rfl
  | some r => simp

/-! ### `order_verts` -/

/-- slot `k` after the first `n` iterations: written by the (unique) `u < n` in `imap` with `imap[u] = k` -/
theorem orderLoop_slot {m : List (Nat × Nat)} (w : WFMap m) (cv : List Nat) (k : Nat) (hk : k < m.length) : ∀ n,
    ((List.range n).foldl (C16.orderStep m cv) (List.replicate m.length none)).getD k none =
      ((List.range n).find? (fun u => decide (m.lookup u = some k))).map (fun u => cv.getD u 0)
  | 0 => by
    simp only [List.range_zero, List.foldl_nil, List.find?_nil, Option.map_none]
    rw [List.getD_eq_getElem?_getD, List.getElem?_replicate]; simp [hk]
  | n + 1 => by
    have ih := orderLoop_slot w cv k hk n
    have hlen : ∀ j, ((List.range j).foldl (C16.orderStep m cv) (List.replicate m.length none)).length = m.length := by
      intro j
      induction j with
      | zero => simp
      | succ j ihj =>
        rw [List.range_succ, List.foldl_append, List.foldl_cons, List.foldl_nil]
        generalize (List.range j).foldl (C16.orderStep m cv) (List.replicate m.length none) = B at ihj ⊢
        show (if !(dhas m j) then B else B.set (dget m j) (some (cv.getD j 0))).length = m.length
        split
        · exact ihj
        · rw [List.length_set]; exact ihj
    rw [List.range_succ, List.foldl_append, List.foldl_cons, List.foldl_nil, List.find?_append]
    have hlenn := hlen n
    generalize (List.range n).foldl (C16.orderStep m cv) (List.replicate m.length none) = A at ih hlenn ⊢
    have hstep : C16.orderStep m cv A n =
        if !(m.lookup n).isSome then A else A.set ((m.lookup n).getD 0) (some (cv.getD n 0)) := rfl
    rw [hstep]
    cases hl : m.lookup n with
    | none =>
      simp only [Option.isSome_none, Bool.not_false, if_true, List.find?_cons, List.find?_nil]
      rw [ih, hl]
      have : decide ((none : Option Nat) = some k) = false := by simp
      rw [this]
      cases (List.range n).find? (fun u => decide (m.lookup u = some k)) <;> rfl
    | some j =>
      simp only [Option.isSome_some, Bool.not_true, Bool.false_eq_true, if_false, Option.getD_some, List.find?_cons,
        List.find?_nil]
      by_cases hjk : j = k
      · subst hjk
        have hnone : (List.range n).find? (fun u => decide (m.lookup u = some j)) = none := by
          rw [List.find?_eq_none]
          intro u hu hp
          have hu' : u < n := List.mem_range.mp hu
          have : m.lookup u = some j := by simpa using hp
          have := wfmap_inj w this hl
          omega
        rw [hnone, hl]
        rw [List.getD_eq_getElem?_getD, List.getElem?_set_self (by rw [hlenn]; exact hk)]
        simp
      · have hne : decide (some j = some k) = false := by simp [hjk]
        rw [hl, hne]
        rw [List.getD_eq_getElem?_getD, List.getElem?_set_ne hjk, ← List.getD_eq_getElem?_getD, ih]
        cases (List.range n).find? (fun u => decide (m.lookup u = some k)) <;> rfl

theorem orderLoop_length (m : List (Nat × Nat)) (cv : List Nat) : (C16.orderLoop m cv).length = m.length := by
  unfold C16.orderLoop
  generalize cv.length = n
  induction n with
  | zero => simp
  | succ j ihj =>
    rw [List.range_succ, List.foldl_append, List.foldl_cons, List.foldl_nil]
    generalize (List.range j).foldl (C16.orderStep m cv) (List.replicate m.length none) = B at ihj ⊢
    show (if !(dhas m j) then B else B.set (dget m j) (some (cv.getD j 0))).length = m.length
    split
    · exact ihj
    · rw [List.length_set]; exact ihj

/-- the `order_verts` loop as written computes the model's `orderVerts` (for a well-formed `imap`: values `0,1,2,…`,
distinct keys — what the numbering loop produces, `buildImap_spec`) -/
theorem orderLoop_bridge {m : List (Nat × Nat)} (w : WFMap m) (cv : List Nat) :
    C16.orderLoop m cv = orderVerts m cv := by
  apply List.ext_getElem?
  intro k
  by_cases hk : k < m.length
  · have h1 : (C16.orderLoop m cv)[k]? = some ((C16.orderLoop m cv).getD k none) := by
      rw [List.getD_eq_getElem?_getD, List.getElem?_eq_getElem (by rw [orderLoop_length]; exact hk)]; rfl
    rw [h1]
    unfold C16.orderLoop
    rw [orderLoop_slot w cv k hk cv.length]
    unfold orderVerts
    rw [List.getElem?_map, List.getElem?_range hk]
    simp only [Option.map_some]
    congr 1
    have nd : (m.map Prod.snd).Nodup := by rw [w.1]; exact List.nodup_range
    cases hf : m.find? (fun e => e.2 == k && decide (e.1 < cv.length)) with
    | some e =>
      have hp := List.find?_some hf
      have hm := List.mem_of_find?_eq_some hf
      simp only [Bool.and_eq_true, beq_iff_eq, decide_eq_true_eq] at hp
      have hlook : m.lookup e.1 = some k := lookup_of_mem_nodup m w.2 (by rw [← hp.1]; exact hm)
      cases hg : (List.range cv.length).find? (fun u => decide (m.lookup u = some k)) with
      | none =>
        have := List.find?_eq_none.mp hg e.1 (List.mem_range.mpr hp.2)
        simp [hlook] at this
      | some u =>
        have hpu := List.find?_some hg
        have : m.lookup u = some k := by simpa using hpu
        have := wfmap_inj w this hlook
        subst this
        rfl
    | none =>
      cases hg : (List.range cv.length).find? (fun u => decide (m.lookup u = some k)) with
      | none => rfl
      | some u =>
        exfalso
        have hpu := List.find?_some hg
        have hu : u < cv.length := List.mem_range.mp (List.mem_of_find?_eq_some hg)
        have hl : m.lookup u = some k := by simpa using hpu
        have := List.find?_eq_none.mp hf (u, k) (lookup_some_mem m hl)
        simp [hu] at this
  · rw [List.getElem?_eq_none (by rw [orderLoop_length]; omega),
      List.getElem?_eq_none (by rw [orderVerts_length]; omega)]

/-! ### `duplicate_vertices` / `ref_vertex` (round 6) -/

theorem findAll_append : ∀ (a b : List Nat) (s : UF.State),
    findAll s (a ++ b) = (match findAll s a with
      | none => none
      | some (s1, ra) => match findAll s1 b with
        | none => none
        | some (s2, rb) => some (s2, ra ++ rb))
  | [], b, s => by
    simp only [List.nil_append, findAll]
    cases findAll s b with
    | none => rfl
    | some r => obtain ⟨s2, rb⟩ := r; rfl
  | x :: a, b, s => by
    simp only [List.cons_append]
    rw [findAll, findAll]
    cases hx : UF.find s x with
    | none => rfl
    | some r =>
      obtain ⟨s1, r1⟩ := r
      simp only []
      rw [findAll_append a b s1]
      cases findAll s1 a with
      | none => rfl
      | some r2 =>
        obtain ⟨s2, ra⟩ := r2
        simp only []
        cases findAll s2 b with
        | none => rfl
        | some r3 => obtain ⟨s3, rb⟩ := r3; rfl

/-- the writes for the corners of ONE vertex `v` -/
theorem refWrites_const (m : List (Nat × Nat)) (cv : List Nat) (v : Nat) : ∀ (cs rs : List Nat),
    (∀ c, c ∈ cs → cv.getD c 0 = v) → rs.length = cs.length →
    refWrites m cs rs cv = (mapFace m rs).map (fun ks => ks.map (fun k => (k, v)))
  | [], [], _, _ => rfl
  | [], _ :: _, _, h => by simp at h
  | _ :: _, [], _, h => by simp at h
  | c :: cs, r :: rs, hc, hl => by
    have ih := refWrites_const m cv v cs rs (fun x hx => hc x (List.mem_cons_of_mem _ hx)) (by simpa using hl)
    rw [refWrites, mapFace, ih, hc c List.mem_cons_self]
    cases m.lookup r with
    | none => rfl
    | some k =>
      cases mapFace m rs with
      | none => rfl
      | some l => rfl

theorem refWrites_append (m : List (Nat × Nat)) (cv : List Nat) : ∀ (a ra b rb : List Nat), ra.length = a.length →
    refWrites m (a ++ b) (ra ++ rb) cv = (match refWrites m a ra cv, refWrites m b rb cv with
      | some x, some y => some (x ++ y)
      | _, _ => none)
  | [], [], b, rb, _ => by
    simp only [List.nil_append, refWrites]
    cases refWrites m b rb cv <;> rfl
  | [], _ :: _, _, _, h => by simp at h
  | _ :: _, [], _, _, h => by simp at h
  | c :: a, r :: ra, b, rb, h => by
    have ih := refWrites_append m cv a ra b rb (by simpa using h)
    simp only [List.cons_append]
    rw [refWrites, refWrites, ih]
    cases m.lookup r with
    | none => rfl
    | some k =>
      cases refWrites m a ra cv with
      | none => rfl
      | some x =>
        cases refWrites m b rb cv with
        | none => rfl
        | some y => rfl

theorem foldl_dupStep_none (m : List (Nat × Nat)) (dup : Nat → List Nat) : ∀ l : List Nat,
    l.foldl (C16.dupStep m dup) none = none
  | [] => rfl
  | _ :: l => by rw [List.foldl_cons]; exact foldl_dupStep_none m dup l

theorem refLoop_snoc (out : List (Nat × List Nat)) (v : Nat) (ks : List Nat) :
    C16.refLoop (out ++ [(v, ks)]) = C16.refLoop out ++ ks.map (fun k => (k, v)) := by
  unfold C16.refLoop
  rw [List.foldl_append, List.foldl_cons, List.foldl_nil]
  generalize out.foldl (fun ws p => p.2.foldl (fun ws x2 => ws ++ [(x2, p.1)]) ws) [] = W
  simp only []
  induction ks generalizing W with
  | nil => simp
  | cons k ks ih => rw [List.foldl_cons, ih]; simp

/-- the two bookkeeping loops as written = the model's second round of `find` over all corners grouped by vertex, followed
by `refWrites` -/
theorem foldl_dupStep (m : List (Nat × Nat)) (cv : List Nat) : ∀ (L : List Nat) (s : UF.State) (out : List (Nat × List Nat)),
    (L.foldl (C16.dupStep m (cornersOf cv)) (some (s, out))).map (fun r => (r.1, C16.refLoop r.2)) =
      (match findAll s (L.flatMap (cornersOf cv)) with
        | none => none
        | some (s', rs) => match refWrites m (L.flatMap (cornersOf cv)) rs cv with
          | none => none
          | some ws => some (s', C16.refLoop out ++ ws))
  | [], s, out => by simp [findAll, refWrites]
  | v :: L, s, out => by
    rw [List.foldl_cons, List.flatMap_cons, findAll_append]
    have hstep : C16.dupStep m (cornersOf cv) (some (s, out)) v =
        (match findAll s (cornersOf cv v) with
          | none => none
          | some (uf, rs) => match mapFace m rs with
            | none => none
            | some ks => some (uf, out ++ [(v, ks)])) := rfl
    rw [hstep]
    cases h1 : findAll s (cornersOf cv v) with
    | none => simp only []; rw [foldl_dupStep_none]; rfl
    | some r =>
      obtain ⟨s1, r1⟩ := r
      have hlen := findAll_length _ _ _ _ h1
      have hconst := refWrites_const m cv v (cornersOf cv v) r1 (fun c hc => (mem_cornersOf.mp hc).2) hlen
      simp only []
      cases h2 : mapFace m r1 with
      | none =>
        simp only []
        rw [foldl_dupStep_none]
        cases findAll s1 (L.flatMap (cornersOf cv)) with
        | none => rfl
        | some r3 =>
          obtain ⟨s2, r2⟩ := r3
          simp only []
          rw [refWrites_append m cv _ _ _ _ hlen, hconst, h2]
          rfl
      | some ks =>
        simp only []
        rw [foldl_dupStep m cv L s1 (out ++ [(v, ks)])]
        cases findAll s1 (L.flatMap (cornersOf cv)) with
        | none => rfl
        | some r3 =>
          obtain ⟨s2, r2⟩ := r3
          simp only []
          rw [refWrites_append m cv _ _ _ _ hlen, hconst, h2, refLoop_snoc]
          simp only [Option.map_some]
          cases refWrites m (L.flatMap (cornersOf cv)) r2 cv with
          | none => rfl
          | some y => simp [List.append_assoc]

theorem dupLoop_bridge (m : List (Nat × Nat)) (cv : List Nat) (s : UF.State) (nV : Nat) :
    (C16.dupLoop s m (cornersOf cv) nV).map (fun r => C16.refLoop r.2) =
      (match findAll s ((List.range nV).flatMap (cornersOf cv)) with
        | none => none
        | some (_, rs) => refWrites m ((List.range nV).flatMap (cornersOf cv)) rs cv) := by
  have h := foldl_dupStep m cv (List.range nV) s []
  unfold C16.dupLoop idRange
  have h' := congrArg (Option.map Prod.snd) h
  rw [Option.map_map] at h'
  have e : (Prod.snd ∘ fun r : UF.State × List (Nat × List Nat) => (r.1, C16.refLoop r.2)) =
      (fun r => C16.refLoop r.2) := rfl
  rw [e] at h'
  rw [h']
  cases findAll s ((List.range nV).flatMap (cornersOf cv)) with
  | none => rfl
  | some r =>
    obtain ⟨s', rs⟩ := r
    simp only []
    cases refWrites m ((List.range nV).flatMap (cornersOf cv)) rs cv with
    | none => rfl
    | some ws => simp [C16.refLoop]

/-! ### `__init__`: `self.singularities`, `self.singu_set` (round 7) -/

theorem mem_setOf (l : List Nat) (x : Nat) : x ∈ setOf l ↔ x ∈ l := by
  unfold setOf; exact List.mem_eraseDups

/-- `self.singularities` receives ALL the items of the argument, whatever kind of iterable it is (a list is kept as is) -/
theorem init_singularities (isList : Bool) (arg : Iter) : (C16.initSingularities isList arg).1 = arg.items := by
  unfold C16.initSingularities iterate
  cases isList <;> rfl

/-- `self.singu_set` has the members of `self.singularities` when the argument is a list or can be iterated again -/
theorem init_singu_set_reiterable (isList : Bool) (arg : Iter) (h : arg.oneShot = false) (x : Nat) :
    x ∈ (C16.initSingularities isList arg).2 ↔ x ∈ arg.items := by
  unfold C16.initSingularities iterate
  cases isList <;> simp [h, mem_setOf]

/-- what `_prune_edge_tree` tests the singular vertices against has exactly the items of the constructor's argument as members,
for EVERY iterable (list — which Python can always iterate again —, re-iterable or one-shot non-list) -/
theorem prune_reads_singularities (isList : Bool) (arg : Iter) (hl : isList = true → arg.oneShot = false) (x : Nat) :
    x ∈ C16.pruneSingOf (C16.initSingularities isList arg) ↔ x ∈ arg.items := by
  first
  | (unfold C16.pruneSingOf; rw [init_singularities])
  | (unfold C16.pruneSingOf
     cases hs : arg.oneShot with
     | false => exact init_singu_set_reiterable isList arg hs x
     | true =>
       cases isList with
       | true => exact absurd (hl rfl) (by rw [hs]; simp)
       | false => fail "the container read by _prune_edge_tree is empty for a one-shot iterable")

end Mouette.CutSrc
