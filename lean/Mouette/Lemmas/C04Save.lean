import Mouette.Model.IOTables
import Mouette.Lemmas.C04Basic
/-! C04 (round 3): `save` on a used mesh object — histories of saves, and the guard table of `ignore_elements`. -/
namespace Mouette.IO.Tables
open Mouette.IO
variable {C : Type}

/-- the hand-written `applyIgnore` is the interpretation of the guard table -/
theorem applyIgnore_table (ig : Ignore) (m : Raw C) : applyIgnore ig m = applyIgnoreWith saveIgnoreRows ig m := by
  cases ig with
  | mk a b c => cases a <;> cases b <;> cases c <;> rfl

/-- repaired code: a save leaves the caller's mesh as it was -/
theorem saveMesh_preserves (ig : Ignore) (m : Raw C) : (saveMesh .replace ig m).2 = m := rfl

/-- … so after ANY history of saves (any ignore sets, any number) the mesh is the mesh one started with, and the
n-th save writes exactly what a save of a fresh copy would write -/
theorem saveHistory_replace (igs : List Ignore) (m : Raw C) :
    saveHistory .replace igs m = (igs.map (fun ig => applyIgnore ig m), m) := by
  induction igs with
  | nil => rfl
  | cons ig rest ih => simp [saveHistory, saveMesh, ih]

/-- pinned tree (`clear()` on shared containers): the second save sees the emptied mesh -/
theorem saveHistory_clearShared_second (ig1 ig2 : Ignore) (m : Raw C) :
    (saveHistory .clearShared [ig1, ig2] m).1 = [applyIgnore ig1 m, applyIgnore ig2 (applyIgnore ig1 m)] := rfl

/-! wireframe export: with the faces ignored no face is written, so every edge is -/

theorem objEdges_wireframe (cfg : Cfg) (ig : Ignore) (m : Raw C) (hf : ig.faces = true) :
    objEdges cfg (applyIgnore ig m) = if cfg.exportEdges then (if ig.edges then [] else m.edges) else [] := by
  simp [objEdges, applyIgnore, hf]

theorem medEdges_wireframe (ig : Ignore) (m : Raw C) (hf : ig.faces = true) (hc : ig.cells = true) :
    medEdges (applyIgnore ig m) = if ig.edges then [] else m.edges := by
  cases he : ig.edges <;> cases hh : m.hard <;> simp [medEdges, applyIgnore, hf, hc, he, hh]

end Mouette.IO.Tables
