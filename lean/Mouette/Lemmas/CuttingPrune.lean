import Mouette.Model.Cutting
/-!
`_prune_edge_tree` (core Lean only): pruning only removes edges, and never removes an edge of a sub-graph all of
whose leaves are singular ("core closed"): paths between singular vertices, cycles, border loops survive.
-/
namespace Mouette.Cutting

/-- every non-singular end of an edge of `K` has another edge of `K` -/
def CoreClosed (E : List (Nat × Nat)) (sing K : List Nat) : Prop :=
  ∀ e, e ∈ K → ∀ A, (other E e A).isSome = true → A ∉ sing →
    ∃ e', e' ∈ K ∧ e' ≠ e ∧ (other E e' A).isSome = true

theorem mem_incident {E : List (Nat × Nat)} {cut : List Nat} {A e : Nat} :
    e ∈ incident E cut A ↔ e ∈ cut ∧ (other E e A).isSome = true := by
  simp [incident]

theorem degree_erase_le (E : List (Nat × Nat)) (c : List Nat) (e A : Nat) :
    degree E (c.erase e) A ≤ degree E c A := by
  unfold degree incident
  exact (List.Sublist.filter _ List.erase_sublist).length_le

theorem two_le_of_two_mem : ∀ (L : List Nat) {e e' : Nat}, e ∈ L → e' ∈ L → e ≠ e' → 2 ≤ L.length
  | [], _, _, h, _, _ => by simp at h
  | [x], e, e', h, h', hne => by
    simp at h h'
    exact absurd (h.trans h'.symm) hne
  | _ :: _ :: _, _, _, _, _, _ => by simp

/-- invariant of the pruning loop w.r.t. a core-closed `K` -/
def PInv (E : List (Nat × Nat)) (sing K : List Nat) (st : List Nat × List Nat) : Prop :=
  (∀ e, e ∈ K → e ∈ st.1) ∧ (∀ A, A ∈ st.2 → A ∉ sing ∧ degree E st.1 A ≤ 1)

theorem removeEdge_inv {E : List (Nat × Nat)} {sing K : List Nat} {A e : Nat} {st : List Nat × List Nat}
    (he : e ∉ K) (inv : PInv E sing K st) : PInv E sing K (removeEdge E sing A st e) := by
  obtain ⟨hK, hQ⟩ := inv
  have hK' : ∀ x, x ∈ K → x ∈ st.1.erase e := by
    intro x hx
    have hne : x ≠ e := fun h => he (h ▸ hx)
    exact (List.mem_erase_of_ne hne).mpr (hK x hx)
  have hQ' : ∀ B, B ∈ st.2 → B ∉ sing ∧ degree E (st.1.erase e) B ≤ 1 := by
    intro B hB
    exact ⟨(hQ B hB).1, Nat.le_trans (degree_erase_le E st.1 e B) (hQ B hB).2⟩
  unfold removeEdge
  simp only []
  split
  · rename_i B _
    split
    · rename_i hcond
      refine ⟨hK', ?_⟩
      intro C hC
      rcases List.mem_append.mp hC with hC | hC
      · exact hQ' C hC
      · simp at hC; subst hC
        simp only [Bool.and_eq_true, beq_iff_eq, Bool.not_eq_true', List.contains_eq_mem,
          decide_eq_false_iff_not] at hcond
        exact ⟨hcond.2, by show degree E (st.1.erase e) C ≤ 1; omega⟩
    · exact ⟨hK', hQ'⟩
  · exact ⟨hK', hQ'⟩

theorem foldl_removeEdge_inv {E : List (Nat × Nat)} {sing K : List Nat} {A : Nat} :
    ∀ (L : List Nat) (st : List Nat × List Nat), (∀ e, e ∈ L → e ∉ K) → PInv E sing K st →
    PInv E sing K (L.foldl (removeEdge E sing A) st)
  | [], _, _, inv => inv
  | e :: L, st, h, inv =>
    foldl_removeEdge_inv L _ (fun x hx => h x (List.mem_cons_of_mem _ hx))
      (removeEdge_inv (h e List.mem_cons_self) inv)

theorem pruneStep_inv {E : List (Nat × Nat)} {sing K : List Nat} (cc : CoreClosed E sing K)
    {st : List Nat × List Nat} (inv : PInv E sing K st) : PInv E sing K (pruneStep E sing st) := by
  unfold pruneStep
  split
  · exact inv
  · rename_i A q hq
    obtain ⟨hK, hQ⟩ := inv
    have hA := hQ A (by rw [hq]; exact List.mem_cons_self)
    apply foldl_removeEdge_inv
    · intro e he heK
      rw [mem_incident] at he
      obtain ⟨e', he'K, hne, hinc⟩ := cc e heK A he.2 hA.1
      have h1 : e ∈ incident E st.1 A := mem_incident.mpr he
      have h2 : e' ∈ incident E st.1 A := mem_incident.mpr ⟨hK e' he'K, hinc⟩
      have := two_le_of_two_mem _ h1 h2 (Ne.symm hne)
      have hd := hA.2
      unfold degree at hd
      omega
    · refine ⟨hK, ?_⟩
      intro B hB
      exact hQ B (by rw [hq]; exact List.mem_cons_of_mem _ hB)

theorem pruneLoop_inv {E : List (Nat × Nat)} {sing K : List Nat} (cc : CoreClosed E sing K) :
    ∀ (fuel : Nat) (st : List Nat × List Nat), PInv E sing K st → PInv E sing K (pruneLoop E sing fuel st)
  | 0, _, inv => inv
  | fuel + 1, st, inv => by
    unfold pruneLoop
    split
    · exact inv
    · exact pruneLoop_inv cc fuel _ (pruneStep_inv cc inv)

theorem pruneInit_ok (nV : Nat) (E : List (Nat × Nat)) (cut sing : List Nat) :
    ∀ A, A ∈ pruneInit nV E cut sing → A ∉ sing ∧ degree E cut A ≤ 1 := by
  intro A hA
  unfold pruneInit at hA
  rw [List.mem_filter] at hA
  have h := hA.2
  simp only [Bool.and_eq_true, beq_iff_eq, Bool.not_eq_true', List.contains_eq_mem,
    decide_eq_false_iff_not] at h
  exact ⟨h.2, by omega⟩

/-! ### pruning only removes edges -/

theorem removeEdge_sub {E : List (Nat × Nat)} {sing : List Nat} {A e : Nat} {st : List Nat × List Nat} {x : Nat}
    (h : x ∈ (removeEdge E sing A st e).1) : x ∈ st.1 := by
  unfold removeEdge at h
  simp only [] at h
  have key : x ∈ st.1.erase e → x ∈ st.1 := List.mem_of_mem_erase
  split at h
  · split at h
    · exact key h
    · exact key h
  · exact key h

theorem foldl_removeEdge_sub {E : List (Nat × Nat)} {sing : List Nat} {A : Nat} :
    ∀ (L : List Nat) (st : List Nat × List Nat) {x : Nat},
    x ∈ (L.foldl (removeEdge E sing A) st).1 → x ∈ st.1
  | [], _, _, h => h
  | _ :: L, _, _, h => removeEdge_sub (foldl_removeEdge_sub L _ h)

theorem pruneStep_sub {E : List (Nat × Nat)} {sing : List Nat} {st : List Nat × List Nat} {x : Nat}
    (h : x ∈ (pruneStep E sing st).1) : x ∈ st.1 := by
  unfold pruneStep at h
  split at h
  · exact h
  · have := foldl_removeEdge_sub _ _ h
    exact this

theorem pruneLoop_sub {E : List (Nat × Nat)} {sing : List Nat} :
    ∀ (fuel : Nat) (st : List Nat × List Nat) {x : Nat}, x ∈ (pruneLoop E sing fuel st).1 → x ∈ st.1
  | 0, _, _, h => h
  | fuel + 1, st, x, h => by
    unfold pruneLoop at h
    split at h
    · exact h
    · exact pruneStep_sub (pruneLoop_sub fuel _ h)

end Mouette.Cutting
