import Mouette.Lemmas.CuttingPrune
/-!
`_prune_edge_tree` terminates within the fuel of the model and reaches a fixpoint: afterwards the queue is empty
(the driver's flag `Q0`) and no non-singular vertex of degree 1 is left in the cut graph. Core Lean only.
-/
namespace Mouette.Cutting

/-! ### degrees under `erase` -/

theorem incident_erase_of_not_incident {E : List (Nat × Nat)} {c : List Nat} (nd : c.Nodup) {e v : Nat}
    (h : (other E e v).isSome = false) : incident E (c.erase e) v = incident E c v := by
  unfold incident
  rw [nd.erase_eq_filter, List.filter_filter]
  apply List.filter_congr
  intro x _
  by_cases hx : x = e
  · subst hx; simp [h]
  · simp [hx]

theorem degree_erase_of_not_incident {E : List (Nat × Nat)} {c : List Nat} (nd : c.Nodup) {e v : Nat}
    (h : (other E e v).isSome = false) : degree E (c.erase e) v = degree E c v := by
  unfold degree; rw [incident_erase_of_not_incident nd h]

/-- an edge incident to `A` (other end `B`) is incident to `v` only if `v = A` or `v = B` -/
theorem incident_ends {E : List (Nat × Nat)} {e A B v : Nat} (hA : other E e A = some B)
    (hv : (other E e v).isSome = true) : v = A ∨ v = B := by
  unfold other at hA hv
  cases hE : E[e]? with
  | none => rw [hE] at hv; simp at hv
  | some ab =>
    obtain ⟨a, b⟩ := ab
    rw [hE] at hA hv
    simp only [] at hA hv
    by_cases h1 : a = A
    · rw [if_pos h1] at hA
      injection hA with hA
      by_cases h2 : a = v
      · exact Or.inl (h2.symm.trans h1)
      · rw [if_neg h2] at hv
        by_cases h3 : b = v
        · exact Or.inr (h3.symm.trans hA)
        · rw [if_neg h3] at hv; simp at hv
    · rw [if_neg h1] at hA
      by_cases h4 : b = A
      · rw [if_pos h4] at hA
        injection hA with hA
        by_cases h2 : a = v
        · exact Or.inr (h2.symm.trans hA)
        · rw [if_neg h2] at hv
          by_cases h3 : b = v
          · exact Or.inl (h3.symm.trans h4)
          · rw [if_neg h3] at hv; simp at hv
      · rw [if_neg h4] at hA; cases hA

/-! ### termination: the fuel suffices -/

theorem removeEdge_fst (E : List (Nat × Nat)) (sing : List Nat) (A : Nat) (st : List Nat × List Nat) (e : Nat) :
    (removeEdge E sing A st e).1 = st.1.erase e := by
  unfold removeEdge
  simp only []
  split
  · split <;> rfl
  · rfl

theorem removeEdge_snd_len (E : List (Nat × Nat)) (sing : List Nat) (A : Nat) (st : List Nat × List Nat) (e : Nat) :
    (removeEdge E sing A st e).2.length ≤ st.2.length + 1 := by
  unfold removeEdge
  simp only []
  split
  · split
    · simp
    · exact Nat.le_succ _
  · exact Nat.le_succ _

theorem removeEdge_snd_mono (E : List (Nat × Nat)) (sing : List Nat) (A : Nat) (st : List Nat × List Nat) (e : Nat)
    {v : Nat} (h : v ∈ st.2) : v ∈ (removeEdge E sing A st e).2 := by
  unfold removeEdge
  simp only []
  split
  · split
    · exact List.mem_append_left _ h
    · exact h
  · exact h

theorem foldl_removeEdge_measure {E : List (Nat × Nat)} {sing : List Nat} {A : Nat} :
    ∀ (L : List Nat) (st : List Nat × List Nat), L.Nodup → st.1.Nodup → (∀ e, e ∈ L → e ∈ st.1) →
      (L.foldl (removeEdge E sing A) st).1.Nodup ∧
      (L.foldl (removeEdge E sing A) st).1.length + (L.foldl (removeEdge E sing A) st).2.length
        ≤ st.1.length + st.2.length
  | [], _, _, nd, _ => ⟨nd, Nat.le_refl _⟩
  | e :: L, st, ndL, nd, hsub => by
    rw [List.nodup_cons] at ndL
    have he : e ∈ st.1 := hsub e List.mem_cons_self
    have h1 : (removeEdge E sing A st e).1 = st.1.erase e := removeEdge_fst E sing A st e
    have nd1 : (removeEdge E sing A st e).1.Nodup := by rw [h1]; exact nd.erase e
    have hsub1 : ∀ x, x ∈ L → x ∈ (removeEdge E sing A st e).1 := by
      intro x hx
      rw [h1, nd.mem_erase_iff]
      exact ⟨fun hxe => ndL.1 (hxe ▸ hx), hsub x (List.mem_cons_of_mem _ hx)⟩
    obtain ⟨nd2, hm⟩ := foldl_removeEdge_measure L _ ndL.2 nd1 hsub1
    refine ⟨nd2, ?_⟩
    simp only [List.foldl_cons]
    have hl : (removeEdge E sing A st e).1.length + 1 = st.1.length := by
      rw [h1, List.length_erase_of_mem he]
      have : 0 < st.1.length := List.length_pos_of_mem he
      omega
    have hq := removeEdge_snd_len E sing A st e
    omega

theorem incident_nodup {E : List (Nat × Nat)} {c : List Nat} (nd : c.Nodup) (A : Nat) : (incident E c A).Nodup :=
  nd.sublist List.filter_sublist

theorem pruneStep_measure {E : List (Nat × Nat)} {sing : List Nat} {c : List Nat} {A : Nat} {q : List Nat}
    (nd : c.Nodup) :
    (pruneStep E sing (c, A :: q)).1.Nodup ∧
    (pruneStep E sing (c, A :: q)).1.length + (pruneStep E sing (c, A :: q)).2.length ≤ c.length + q.length := by
  unfold pruneStep
  simp only []
  exact foldl_removeEdge_measure (incident E c A) (c, q) (incident_nodup nd A) nd
    (fun e he => (mem_incident.mp he).1)

theorem pruneLoop_queue_empty {E : List (Nat × Nat)} {sing : List Nat} :
    ∀ (fuel : Nat) (st : List Nat × List Nat), st.1.Nodup → st.1.length + st.2.length < fuel →
      (pruneLoop E sing fuel st).2 = []
  | 0, _, _, h => by omega
  | fuel + 1, (c, []), _, _ => by simp [pruneLoop]
  | fuel + 1, (c, A :: q), nd, h => by
    obtain ⟨nd', hm⟩ := pruneStep_measure (E := E) (sing := sing) (A := A) (q := q) nd
    have : pruneLoop E sing (fuel + 1) (c, A :: q) = pruneLoop E sing fuel (pruneStep E sing (c, A :: q)) := by
      simp [pruneLoop]
    rw [this]
    have hm' : (pruneStep E sing (c, A :: q)).1.length + (pruneStep E sing (c, A :: q)).2.length
        ≤ c.length + q.length := hm
    apply pruneLoop_queue_empty fuel _ nd'
    have h' : c.length + (q.length + 1) < fuel + 1 := by simpa using h
    show (pruneStep E sing (c, A :: q)).1.length + (pruneStep E sing (c, A :: q)).2.length < fuel
    omega

theorem pruneInit_length_le (nV : Nat) (E : List (Nat × Nat)) (cut sing : List Nat) :
    (pruneInit nV E cut sing).length ≤ nV := by
  unfold pruneInit
  have := List.length_filter_le (fun i => degree E cut i == 1 && !sing.contains i) (List.range nV)
  simpa using this

/-! ### the fixpoint invariant -/

/-- every non-singular vertex `< nV` of degree 1 is waiting in the queue -/
def LeafQueued (nV : Nat) (E : List (Nat × Nat)) (sing : List Nat) (st : List Nat × List Nat) : Prop :=
  ∀ v, v < nV → v ∉ sing → degree E st.1 v = 1 → v ∈ st.2

theorem pruneInit_leafQueued (nV : Nat) (E : List (Nat × Nat)) (cut sing : List Nat) :
    LeafQueued nV E sing (cut, pruneInit nV E cut sing) := by
  intro v hv hs hd
  unfold pruneInit
  rw [List.mem_filter]
  refine ⟨by simpa using hv, ?_⟩
  simp only [] at hd
  simp [hd, hs]

/-- invariant of the inner `for B in cut_adj[A]` loop: all vertices but `A` -/
def LeafQueuedBut (nV : Nat) (E : List (Nat × Nat)) (sing : List Nat) (A : Nat) (st : List Nat × List Nat) : Prop :=
  ∀ v, v ≠ A → v < nV → v ∉ sing → degree E st.1 v = 1 → v ∈ st.2

theorem removeEdge_leafQueuedBut {nV : Nat} {E : List (Nat × Nat)} {sing : List Nat} {A e : Nat}
    {st : List Nat × List Nat} (nd : st.1.Nodup) (hinc : (other E e A).isSome = true)
    (inv : LeafQueuedBut nV E sing A st) : LeafQueuedBut nV E sing A (removeEdge E sing A st e) := by
  intro v hvA hv hs hd
  rw [removeEdge_fst] at hd
  cases hv' : (other E e v).isSome with
  | false =>
    rw [degree_erase_of_not_incident nd hv'] at hd
    exact removeEdge_snd_mono E sing A st e (inv v hvA hv hs hd)
  | true =>
    cases hB : other E e A with
    | none => rw [hB] at hinc; simp at hinc
    | some B =>
      have hvB : v = B := by
        rcases incident_ends hB hv' with h | h
        · exact absurd h hvA
        · exact h
      subst hvB
      unfold removeEdge
      simp only [hB]
      have hcond : (degree E (st.1.erase e) v == 1 && !sing.contains v) = true := by simp [hd, hs]
      rw [if_pos hcond]
      exact List.mem_append_right _ (by simp)

theorem foldl_removeEdge_leafQueuedBut {nV : Nat} {E : List (Nat × Nat)} {sing : List Nat} {A : Nat} :
    ∀ (L : List Nat) (st : List Nat × List Nat), st.1.Nodup → (∀ e, e ∈ L → (other E e A).isSome = true) →
      LeafQueuedBut nV E sing A st → LeafQueuedBut nV E sing A (L.foldl (removeEdge E sing A) st)
  | [], _, _, _, inv => inv
  | e :: L, st, nd, hL, inv => by
    simp only [List.foldl_cons]
    apply foldl_removeEdge_leafQueuedBut L _ _ (fun x hx => hL x (List.mem_cons_of_mem _ hx))
      (removeEdge_leafQueuedBut nd (hL e List.mem_cons_self) inv)
    rw [removeEdge_fst]; exact nd.erase e

/-- after the inner loop the popped vertex has no cut edge left -/
theorem foldl_removeEdge_erases {E : List (Nat × Nat)} {sing : List Nat} {A : Nat} :
    ∀ (L : List Nat) (st : List Nat × List Nat), st.1.Nodup → ∀ x, x ∈ L →
      x ∉ (L.foldl (removeEdge E sing A) st).1
  | [], _, _, _, hx => by simp at hx
  | e :: L, st, nd, x, hx => by
    simp only [List.foldl_cons]
    intro hmem
    have nd1 : (removeEdge E sing A st e).1.Nodup := by rw [removeEdge_fst]; exact nd.erase e
    rcases List.mem_cons.mp hx with hxe | hxL
    · have h1 := foldl_removeEdge_sub L _ hmem
      rw [removeEdge_fst, nd.mem_erase_iff] at h1
      exact h1.1 hxe
    · exact foldl_removeEdge_erases L _ nd1 x hxL hmem

theorem pruneStep_leafQueued {nV : Nat} {E : List (Nat × Nat)} {sing : List Nat} {c : List Nat} {A : Nat}
    {q : List Nat} (nd : c.Nodup) (inv : LeafQueued nV E sing (c, A :: q)) :
    LeafQueued nV E sing (pruneStep E sing (c, A :: q)) := by
  have hbut : LeafQueuedBut nV E sing A (c, q) := by
    intro v hvA hv hs hd
    rcases List.mem_cons.mp (inv v hv hs hd) with h | h
    · exact absurd h hvA
    · exact h
  have hfold := foldl_removeEdge_leafQueuedBut (nV := nV) (sing := sing) (incident E c A) (c, q) nd
    (fun e he => (mem_incident.mp he).2) hbut
  intro v hv hs hd
  unfold pruneStep at hd ⊢
  simp only [] at hd ⊢
  by_cases hvA : v = A
  · subst hvA
    -- all edges at the popped vertex are gone: its degree is 0
    have hzero : incident E ((incident E c v).foldl (removeEdge E sing v) (c, q)).1 v = [] := by
      rw [List.eq_nil_iff_forall_not_mem]
      intro x hx
      obtain ⟨hx1, hx2⟩ := mem_incident.mp hx
      have hxc : x ∈ c := foldl_removeEdge_sub _ _ hx1
      exact foldl_removeEdge_erases (incident E c v) (c, q) nd x (mem_incident.mpr ⟨hxc, hx2⟩) hx1
    unfold degree at hd
    rw [hzero] at hd
    simp at hd
  · exact hfold v hvA hv hs hd

theorem pruneLoop_leafQueued {nV : Nat} {E : List (Nat × Nat)} {sing : List Nat} :
    ∀ (fuel : Nat) (st : List Nat × List Nat), st.1.Nodup → LeafQueued nV E sing st →
      LeafQueued nV E sing (pruneLoop E sing fuel st)
  | 0, _, _, inv => inv
  | fuel + 1, (c, []), _, inv => by simpa [pruneLoop] using inv
  | fuel + 1, (c, A :: q), nd, inv => by
    have : pruneLoop E sing (fuel + 1) (c, A :: q) = pruneLoop E sing fuel (pruneStep E sing (c, A :: q)) := by
      simp [pruneLoop]
    rw [this]
    exact pruneLoop_leafQueued fuel _ (pruneStep_measure (E := E) (sing := sing) (A := A) (q := q) nd).1
      (pruneStep_leafQueued nd inv)

theorem cutEdges0_nodup (nE : Nat) (ev : List Nat) : (cutEdges0 nE ev).Nodup :=
  List.nodup_range.sublist List.filter_sublist

end Mouette.Cutting
