import Mathlib.Data.List.Perm.Subperm
import Mouette.Lemmas.EQ
import Mouette.Model.KDTree
/-
Helper lemmas for C11: the bounded sorted candidate list, the k-NN traversal invariant, the radius
traversal, the split rule and the construction.
-/
namespace Mouette.KD
open Mouette.AABB Mouette.AABB.EQ

/-! ### boxes -/

/-- every index below a cell lies in the closed box of the cell -/
theorem boxesOk_box {P : Nat → Pt} : ∀ {t : Tree}, boxesOk P t = true →
    ∀ i ∈ t.indices, Box.insideClosed t.box.lo t.box.hi (P i) = true
  | .leaf idx b, h, i, hi => by
    simp only [boxesOk, List.all_eq_true] at h
    exact h i hi
  | .node _ _ b l r, h, i, hi => by
    simp only [boxesOk, Bool.and_eq_true, List.all_eq_true] at h
    exact h.1.1 i hi

theorem boxDist_le {P : Nat → Pt} {t : Tree} (h : boxesOk P t = true) (q : Pt) {i : Nat} (hi : i ∈ t.indices) :
    t.box.dist2 q ≤ fin (sqDist (P i) q) :=
  Box.dist2_le_of_inside _ _ _ _ (boxesOk_box h i hi)

/-! ### the candidate list -/

def Sorted (st : List Cand) : Prop := st.Pairwise (fun a b => a.1 ≤ b.1)

/-- `k` candidates are held and all of them are within squared distance `b` -/
def Full (k : Nat) (b : Rat) (st : List Cand) : Prop := st.length = k ∧ ∀ c ∈ st, c.1 ≤ b

theorem mem_ins {a c : Cand} : ∀ {st : List Cand}, a ∈ ins c st ↔ a = c ∨ a ∈ st
  | [] => by simp [ins]
  | y :: ys => by
    unfold ins; split
    · simp
    · simp only [List.mem_cons, mem_ins (st := ys)]; tauto

theorem ins_perm (c : Cand) : ∀ (st : List Cand), (ins c st).Perm (c :: st)
  | [] => by simp [ins]
  | y :: ys => by
    unfold ins; split
    · exact List.Perm.refl _
    · exact ((ins_perm c ys).cons y).trans (List.Perm.swap c y ys)

theorem length_ins (c : Cand) (st : List Cand) : (ins c st).length = st.length + 1 := by
  simpa using (ins_perm c st).length_eq

theorem ins_sorted {c : Cand} : ∀ {st : List Cand}, Sorted st → Sorted (ins c st)
  | [], _ => by simp [ins, Sorted]
  | y :: ys, h => by
    unfold Sorted at h ⊢
    rw [List.pairwise_cons] at h
    unfold ins; split
    · rename_i hlt
      refine List.pairwise_cons.mpr ⟨?_, List.pairwise_cons.mpr h⟩
      intro a ha
      rcases List.mem_cons.mp ha with rfl | ha
      · exact le_of_lt hlt
      · exact le_trans (le_of_lt hlt) (h.1 a ha)
    · rename_i hge
      refine List.pairwise_cons.mpr ⟨?_, ins_sorted (st := ys) h.2⟩
      intro a ha
      rcases mem_ins.mp ha with rfl | ha
      · exact not_lt.mp hge
      · exact h.1 a ha

theorem push_sorted {k : Nat} {c : Cand} {st : List Cand} (h : Sorted st) : Sorted (push k c st) :=
  List.Pairwise.sublist (List.take_sublist _ _) (ins_sorted h)

theorem mem_push {k : Nat} {a c : Cand} {st : List Cand} (h : a ∈ push k c st) : a = c ∨ a ∈ st :=
  mem_ins.mp (List.mem_of_mem_take h)

theorem length_push_le (k : Nat) (c : Cand) (st : List Cand) : (push k c st).length ≤ k := by
  unfold push; exact List.length_take_le _ _

/-- a full list within `b` stays full and within `b` (no sortedness needed) -/
theorem push_full {b : Rat} {c : Cand} : ∀ {k : Nat} {st : List Cand}, Full k b st → Full k b (push k c st)
  | 0, st, h => by
    have : st = [] := List.eq_nil_of_length_eq_zero h.1
    subst this; simp [push, Full]
  | k + 1, [], h => by simp [Full] at h
  | k + 1, y :: ys, h => by
    have hy : y.1 ≤ b := h.2 y (List.mem_cons_self ..)
    have hys : Full k b ys := ⟨by simpa using h.1, fun c hc => h.2 c (List.mem_cons_of_mem _ hc)⟩
    unfold push ins; split
    · rename_i hlt
      refine ⟨by simp [List.length_take]; have := h.1; simp at this; omega, ?_⟩
      intro a ha
      rw [List.take_succ_cons] at ha
      rcases List.mem_cons.mp ha with rfl | ha
      · exact le_trans (le_of_lt hlt) hy
      · exact h.2 a (List.mem_of_mem_take ha)
    · have ih := push_full (c := c) hys
      unfold push at ih
      refine ⟨by rw [List.take_succ_cons, List.length_cons, ih.1], ?_⟩
      intro a ha
      rw [List.take_succ_cons] at ha
      rcases List.mem_cons.mp ha with rfl | ha
      · exact hy
      · exact ih.2 a ha

theorem Full.mono {k : Nat} {b b' : Rat} {st : List Cand} (h : Full k b st) (hb : b ≤ b') : Full k b' st :=
  ⟨h.1, fun c hc => le_trans (h.2 c hc) hb⟩

theorem sorted_le_getLast {st : List Cand} {w : Cand} (hs : Sorted st) (hw : st.getLast? = some w) :
    ∀ c ∈ st, c.1 ≤ w.1 := by
  obtain ⟨ys, rfl⟩ := List.getLast?_eq_some_iff.mp hw
  intro c hc
  rcases List.mem_append.mp hc with hc | hc
  · exact (List.pairwise_append.mp hs).2.2 c hc w (by simp)
  · simp at hc; subst hc; exact le_refl _

/-- pruning (repaired rule) is sound: if a cell is not visited, the list is full and within every
distance that the cell's box distance bounds from below -/
theorem prune_sound {k : Nat} {st : List Cand} {dB : EQ} {x : Rat} (hs : Sorted st)
    (hp : ¬ dB < furthest k st) (hx : dB ≤ fin x) : Full k x st := by
  unfold furthest at hp
  split at hp
  · rename_i hk
    cases hw : st.getLast? with
    | none =>
      have : st = [] := List.getLast?_eq_none_iff.mp hw
      subst this; exact ⟨hk, by simp⟩
    | some w =>
      rw [hw] at hp
      have h1 : fin w.1 ≤ dB := EQ.not_lt'.mp hp
      have h2 : w.1 ≤ x := fin_le_fin.mp (le_trans' h1 hx)
      exact ⟨hk, fun c hc => le_trans (sorted_le_getLast hs hw c hc) h2⟩
  · have h1 : pinf ≤ dB := EQ.not_lt'.mp hp
    have := le_trans' h1 hx
    simp [leB] at this

/-! ### the k-NN invariant -/

/-- invariant of the traversal: `seen` = indices accounted for so far (inserted or pruned) -/
structure Inv (d : Nat → Rat) (k : Nat) (seen : Nat → Prop) (st : List Cand) : Prop where
  sorted : Sorted st
  len : st.length ≤ k
  nodup : (st.map Prod.snd).Nodup
  val : ∀ c ∈ st, seen c.2 ∧ c.1 = d c.2
  dom : ∀ j, seen j → j ∈ st.map Prod.snd ∨ Full k (d j) st

theorem Inv.init (d : Nat → Rat) (k : Nat) : Inv d k (fun _ => False) [] :=
  ⟨by simp [Sorted], by simp, by simp, by simp, by simp⟩

/-- accounting for indices that the full list already dominates (a pruned cell) -/
theorem Inv.skip {d : Nat → Rat} {k : Nat} {seen : Nat → Prop} {st : List Cand} (S : Nat → Prop)
    (h : Inv d k seen st) (hS : ∀ j, S j → Full k (d j) st) : Inv d k (fun j => seen j ∨ S j) st :=
  ⟨h.sorted, h.len, h.nodup, fun c hc => ⟨Or.inl (h.val c hc).1, (h.val c hc).2⟩,
   fun j hj => hj.elim (h.dom j) (fun hj => Or.inr (hS j hj))⟩

theorem Inv.congr {d : Nat → Rat} {k : Nat} {seen seen' : Nat → Prop} {st : List Cand}
    (h : Inv d k seen st) (e : ∀ j, seen j ↔ seen' j) : Inv d k seen' st :=
  ⟨h.sorted, h.len, h.nodup, fun c hc => ⟨(e _).mp (h.val c hc).1, (h.val c hc).2⟩,
   fun j hj => h.dom j ((e j).mpr hj)⟩

theorem Inv.pushCand {d : Nat → Rat} {k : Nat} {seen : Nat → Prop} {st : List Cand} {j : Nat}
    (h : Inv d k seen st) (hj : ¬ seen j) : Inv d k (fun i => seen i ∨ i = j) (push k (d j, j) st) := by
  have hjst : j ∉ st.map Prod.snd := by
    intro hm
    obtain ⟨c, hc, rfl⟩ := List.mem_map.mp hm
    exact hj (h.val c hc).1
  have hperm := ins_perm (d j, j) st
  have hLs : Sorted (ins (d j, j) st) := ins_sorted h.sorted
  have hLnd : ((ins (d j, j) st).map Prod.snd).Nodup := by
    rw [(hperm.map Prod.snd).nodup_iff]
    simpa using ⟨by simpa using hjst, h.nodup⟩
  have hsplit : (ins (d j, j) st).take k ++ (ins (d j, j) st).drop k = ins (d j, j) st := List.take_append_drop _ _
  refine ⟨push_sorted h.sorted, length_push_le _ _ _, ?_, ?_, ?_⟩
  · exact List.Nodup.sublist ((List.take_sublist _ _).map _) hLnd
  · intro c hc
    rcases mem_push hc with rfl | hc
    · exact ⟨Or.inr rfl, rfl⟩
    · exact ⟨Or.inl (h.val c hc).1, (h.val c hc).2⟩
  · intro i hi
    -- is `i` among the indices of the list before truncation?
    by_cases hmem : i ∈ (ins (d j, j) st).map Prod.snd
    · obtain ⟨c, hc, rfl⟩ := List.mem_map.mp hmem
      have hcv : c.1 = d c.2 := by
        rcases mem_ins.mp hc with rfl | hc'
        · rfl
        · exact (h.val c hc').2
      rw [← hsplit] at hc
      rcases List.mem_append.mp hc with hc | hc
      · exact Or.inl (List.mem_map.mpr ⟨c, hc, rfl⟩)
      · right
        have hlen : k < (ins (d j, j) st).length := by
          by_contra hcon
          rw [List.drop_eq_nil_of_le (by omega)] at hc
          simp at hc
        refine ⟨by unfold push; rw [List.length_take]; omega, ?_⟩
        intro a ha
        have hpw := hLs
        unfold Sorted at hpw
        rw [← hsplit] at hpw
        have := (List.pairwise_append.mp hpw).2.2 a ha c hc
        rw [← hcv]; exact this
    · have hne : i ≠ j := by
        intro e; apply hmem; rw [e]
        exact List.mem_map.mpr ⟨(d j, j), mem_ins.mpr (Or.inl rfl), rfl⟩
      have hi' : seen i := by rcases hi with hi | hi <;> [exact hi; exact absurd hi hne]
      have hnst : i ∉ st.map Prod.snd := by
        intro hm
        obtain ⟨c, hc, rfl⟩ := List.mem_map.mp hm
        exact hmem (List.mem_map.mpr ⟨c, mem_ins.mpr (Or.inr hc), rfl⟩)
      rcases h.dom i hi' with hd | hd
      · exact absurd hd hnst
      · exact Or.inr (push_full hd)

theorem visitLeaf_full {P : Nat → Pt} {q : Pt} {k : Nat} {b : Rat} :
    ∀ {idx : List Nat} {st : List Cand}, Full k b st → Full k b (visitLeaf P q k idx st)
  | [], st, h => by simpa [visitLeaf] using h
  | i :: is, st, h => by
    have := visitLeaf_full (P := P) (q := q) (idx := is) (push_full (c := (sqDist (P i) q, i)) h)
    simpa [visitLeaf] using this

theorem visitLeaf_inv {P : Nat → Pt} {q : Pt} {k : Nat} :
    ∀ {idx : List Nat} {seen : Nat → Prop} {st : List Cand},
      Inv (fun i => sqDist (P i) q) k seen st → idx.Nodup → (∀ i ∈ idx, ¬ seen i) →
      Inv (fun i => sqDist (P i) q) k (fun i => seen i ∨ i ∈ idx) (visitLeaf P q k idx st)
  | [], seen, st, h, _, _ => by
    simpa [visitLeaf] using h.congr (fun j => by simp)
  | i :: is, seen, st, h, hnd, hdis => by
    rw [List.nodup_cons] at hnd
    have h1 := Inv.pushCand (j := i) h (hdis i (List.mem_cons_self ..))
    have h2 := visitLeaf_inv (idx := is) h1 hnd.2 (by
      intro a ha hs
      rcases hs with hs | hs
      · exact hdis a (List.mem_cons_of_mem _ ha) hs
      · subst hs; exact hnd.1 ha)
    have : visitLeaf P q k (i :: is) st = visitLeaf P q k is (push k (sqDist (P i) q, i) st) := by
      simp [visitLeaf]
    rw [this]
    exact h2.congr (fun j => by simp only [List.mem_cons]; tauto)

/-- a full list stays full (and within the same bound) whatever is visited, for ANY pruning rule -/
theorem visitWith_full {far : List Cand → EQ} {P : Nat → Pt} {q : Pt} {k : Nat} {b : Rat} :
    ∀ {t : Tree} {st : List Cand}, Full k b st → Full k b (visitWith far P q k t st)
  | .leaf idx _, st, h => by simpa [visitWith] using visitLeaf_full h
  | .node _ _ _ l r, st, h => by
    simp only [visitWith]
    split
    · split <;> split <;>
        first
          | exact visitWith_full (t := l) (visitWith_full (t := r) h)
          | exact visitWith_full (t := l) h
          | exact visitWith_full (t := r) h
          | exact h
    · split <;> split <;>
        first
          | exact visitWith_full (t := r) (visitWith_full (t := l) h)
          | exact visitWith_full (t := l) h
          | exact visitWith_full (t := r) h
          | exact h


/-- one child of a node: visited (induction hypothesis) or pruned by the repaired rule (sound) -/
theorem child_step {P : Nat → Pt} {q : Pt} {k : Nat} {c : Tree} {seen : Nat → Prop} {st0 st : List Cand}
    (hbox : boxesOk P c = true)
    (ih : Inv (fun i => sqDist (P i) q) k seen st →
          Inv (fun i => sqDist (P i) q) k (fun i => seen i ∨ i ∈ c.indices) (visit P q k c st))
    (hfull : ∀ b, Full k b st0 → Full k b st) (hs0 : Sorted st0)
    (h : Inv (fun i => sqDist (P i) q) k seen st) :
    Inv (fun i => sqDist (P i) q) k (fun i => seen i ∨ i ∈ c.indices)
      (if c.box.dist2 q < furthest k st0 then visit P q k c st else st) := by
  split
  · exact ih h
  · rename_i hp
    exact h.skip (fun i => i ∈ c.indices) (fun j hj => hfull _ (prune_sound hs0 hp (boxDist_le hbox q hj)))

/-- the traversal invariant: after visiting `t`, every index of `t` is accounted for -/
theorem visit_inv {P : Nat → Pt} {q : Pt} {k : Nat} :
    ∀ {t : Tree} {seen : Nat → Prop} {st : List Cand}, boxesOk P t = true → t.indices.Nodup →
      (∀ i ∈ t.indices, ¬ seen i) → Inv (fun i => sqDist (P i) q) k seen st →
      Inv (fun i => sqDist (P i) q) k (fun i => seen i ∨ i ∈ t.indices) (visit P q k t st)
  | .leaf idx _, seen, st, _, hnd, hdis, h => by
    simpa [visit, visitWith, Tree.indices] using visitLeaf_inv h hnd hdis
  | .node _ _ _ l r, seen, st, hb, hnd, hdis, h => by
    simp only [boxesOk, Bool.and_eq_true] at hb
    simp only [Tree.indices] at hnd hdis ⊢
    have hnd' := List.nodup_append.mp hnd
    have hdl : ∀ i ∈ l.indices, ¬ seen i := fun i hi => hdis i (List.mem_append_left _ hi)
    have hdr : ∀ i ∈ r.indices, ¬ seen i := fun i hi => hdis i (List.mem_append_right _ hi)
    simp only [visit, visitWith]
    split
    · -- right (far) child first, then left
      have h1 := child_step (c := r) (st0 := st) hb.2
        (fun hh => visit_inv (t := r) hb.2 hnd'.2.1 hdr hh) (fun _ hf => hf) h.sorted h
      have h2 := child_step (c := l) (st0 := st)
        (st := if r.box.dist2 q < furthest k st then visit P q k r st else st) hb.1.2
        (fun hh => visit_inv (t := l) hb.1.2 hnd'.1 (by
          intro i hi hs
          rcases hs with hs | hs
          · exact hdl i hi hs
          · exact hnd'.2.2 i hi i hs rfl) hh)
        (by intro b hf; split <;> [exact visitWith_full hf; exact hf]) h.sorted h1
      exact h2.congr (fun j => by simp only [List.mem_append]; tauto)
    · have h1 := child_step (c := l) (st0 := st) hb.1.2
        (fun hh => visit_inv (t := l) hb.1.2 hnd'.1 hdl hh) (fun _ hf => hf) h.sorted h
      have h2 := child_step (c := r) (st0 := st)
        (st := if l.box.dist2 q < furthest k st then visit P q k l st else st) hb.2
        (fun hh => visit_inv (t := r) hb.2 hnd'.2.1 (by
          intro i hi hs
          rcases hs with hs | hs
          · exact hdr i hi hs
          · exact hnd'.2.2 i hs i hi rfl) hh)
        (by intro b hf; split <;> [exact visitWith_full hf; exact hf]) h.sorted h1
      exact h2.congr (fun j => by simp only [List.mem_append]; tauto)

/-! ### radius query -/

theorem radius_sublist {P : Nat → Pt} {q : Pt} {r2 : Rat} : ∀ (t : Tree), (radius P q r2 t).Sublist t.indices
  | .leaf idx b => by
    simp only [radius, Tree.indices]; split
    · exact List.nil_sublist _
    · exact List.filter_sublist
  | .node _ _ b l r => by
    simp only [radius, Tree.indices]; split
    · exact List.nil_sublist _
    · exact (radius_sublist l).append (radius_sublist r)

theorem mem_radius {P : Nat → Pt} {q : Pt} {r2 : Rat} {i : Nat} : ∀ {t : Tree}, boxesOk P t = true →
    (i ∈ radius P q r2 t ↔ i ∈ t.indices ∧ sqDist (P i) q ≤ r2)
  | .leaf idx b, hb => by
    simp only [radius, Tree.indices]; split
    · rename_i hp
      simp only [List.not_mem_nil, false_iff, not_and]
      intro hi hle
      have h1 := boxDist_le (t := .leaf idx b) hb q hi
      have h2 : fin (sqDist (P i) q) ≤ fin r2 := fin_le_fin.mpr hle
      exact absurd (le_trans' h1 h2) (EQ.not_le'.mpr hp)
    · simp
  | .node a sv b l r, hb => by
    simp only [radius, Tree.indices]; split
    · rename_i hp
      simp only [List.not_mem_nil, false_iff, not_and]
      intro hi hle
      have h1 := boxDist_le (t := .node a sv b l r) hb q hi
      have h2 : fin (sqDist (P i) q) ≤ fin r2 := fin_le_fin.mpr hle
      exact absurd (le_trans' h1 h2) (EQ.not_le'.mpr hp)
    · simp only [boxesOk, Bool.and_eq_true] at hb
      simp only [List.mem_append, mem_radius (t := l) hb.1.2, mem_radius (t := r) hb.2]
      tauto


/-! ### the split rule -/

/-- what the construction needs from a split of a cell with at least two indices -/
structure SplitOK (P : Nat → Pt) (axis : Nat) (idx : List Nat) (s : Rat × List Nat × List Nat) : Prop where
  perm : (s.2.1 ++ s.2.2).Perm idx
  less : ∀ i ∈ s.2.1, coord (P i) axis ≤ s.1
  more : ∀ i ∈ s.2.2, s.1 ≤ coord (P i) axis
  lt_left : s.2.1.length < idx.length
  lt_right : s.2.2.length < idx.length

theorem leAx_trans (P : Nat → Pt) (axis : Nat) (a b c : Nat) : leAx P axis a b = true → leAx P axis b c = true → leAx P axis a c = true := by
  simp only [leAx, decide_eq_true_eq]; exact le_trans

theorem leAx_total (P : Nat → Pt) (axis : Nat) (a b : Nat) : (leAx P axis a b || leAx P axis b a) = true := by
  simp only [leAx, Bool.or_eq_true, decide_eq_true_eq]; exact le_total _ _

/-! numpy vocabulary lemmas -/

theorem extract_cons (b : Bool) (m : List Bool) (x : Nat) (xs : List Nat) :
    extract (b :: m) (x :: xs) = if b then x :: extract m xs else extract m xs := by
  cases b <;> simp [extract, List.filter_cons]

theorem extract_perm : ∀ (m : List Bool) (xs : List Nat), m.length = xs.length →
    (extract m xs ++ extract (maskNot m) xs).Perm xs
  | [], [], _ => by simp [extract, maskNot]
  | [], _ :: _, h => by simp at h
  | _ :: _, [], h => by simp at h
  | b :: m, x :: xs, h => by
    have ih := extract_perm m xs (by simpa using h)
    cases b
    · simp only [maskNot, List.map_cons, Bool.not_false, extract_cons, if_true, Bool.false_eq_true, if_false]
      exact List.perm_middle.trans (ih.cons x)
    · simp only [maskNot, List.map_cons, Bool.not_true, extract_cons, if_true, Bool.false_eq_true, if_false,
        List.cons_append]
      exact ih.cons x

theorem mem_extract {i : Nat} : ∀ {m : List Bool} {xs : List Nat},
    i ∈ extract m xs ↔ ∃ p : Nat, xs[p]? = some i ∧ m[p]? = some true
  | [], xs => by simp [extract]
  | _ :: _, [] => by simp [extract]
  | b :: m, x :: xs => by
    rw [extract_cons]
    constructor
    · intro h
      cases b
      · simp only [Bool.false_eq_true, if_false] at h
        obtain ⟨p, h1, h2⟩ := mem_extract.mp h
        exact ⟨p + 1, by simpa using h1, by simpa using h2⟩
      · simp only [if_true, List.mem_cons] at h
        rcases h with rfl | h
        · exact ⟨0, by simp, by simp⟩
        · obtain ⟨p, h1, h2⟩ := mem_extract.mp h
          exact ⟨p + 1, by simpa using h1, by simpa using h2⟩
    · rintro ⟨p, h1, h2⟩
      cases p with
      | zero =>
        simp only [List.getElem?_cons_zero, Option.some.injEq] at h1 h2
        subst h1; subst h2; simp
      | succ p =>
        simp only [List.getElem?_cons_succ] at h1 h2
        have := mem_extract.mpr ⟨p, h1, h2⟩
        cases b <;> simp [this]

theorem maskSet_cons (m : List Bool) (p : Nat) (ps : List Nat) : maskSet m (p :: ps) = maskSet (m.set p true) ps := rfl

theorem maskSet_length : ∀ (pos : List Nat) (m : List Bool), (maskSet m pos).length = m.length
  | [], _ => rfl
  | p :: ps, m => by rw [maskSet_cons, maskSet_length ps, List.length_set]

theorem maskSet_get {j : Nat} : ∀ (pos : List Nat) (m : List Bool),
    (maskSet m pos)[j]? = some true ↔ (j < m.length ∧ (m[j]? = some true ∨ j ∈ pos))
  | [], m => by
    simp only [maskSet, List.foldl_nil, List.not_mem_nil, or_false]
    constructor
    · intro h
      exact ⟨(List.getElem?_eq_some_iff.mp h).1, h⟩
    · exact fun h => h.2
  | p :: ps, m => by
    rw [maskSet_cons, maskSet_get ps, List.length_set, List.getElem?_set]
    by_cases hpj : p = j
    · subst hpj
      constructor
      · rintro ⟨hl, _⟩; exact ⟨hl, Or.inr (List.mem_cons_self ..)⟩
      · rintro ⟨hl, _⟩; exact ⟨hl, Or.inl (by simp [hl])⟩
    · simp only [if_neg hpj, List.mem_cons]
      constructor
      · rintro ⟨hl, h | h⟩
        · exact ⟨hl, Or.inl h⟩
        · exact ⟨hl, Or.inr (Or.inr h)⟩
      · rintro ⟨hl, h | h | h⟩
        · exact ⟨hl, Or.inl h⟩
        · exact absurd h.symm hpj
        · exact ⟨hl, Or.inr h⟩

theorem zerosBool_get (n j : Nat) : (zerosBool n)[j]? ≠ some true := by
  simp [zerosBool, List.getElem?_replicate]

theorem extract_leMask (P : Nat → Pt) (axis : Nat) (pv : Rat) : ∀ (idx : List Nat),
    extract (leMask (takeAx P idx axis) pv) idx = idx.filter (fun i => decide (coord (P i) axis ≤ pv)) ∧
    extract (maskNot (leMask (takeAx P idx axis) pv)) idx = idx.filter (fun i => !decide (coord (P i) axis ≤ pv))
  | [] => by simp [extract, takeAx, leMask, maskNot]
  | i :: is => by
    have ih := extract_leMask P axis pv is
    simp only [takeAx, leMask, maskNot, List.map_cons] at ih ⊢
    rw [extract_cons, extract_cons, ih.1, ih.2, List.filter_cons, List.filter_cons]
    exact ⟨rfl, rfl⟩

theorem argsort_perm (xs : List Rat) : (argsortStable xs).Perm (List.range xs.length) := List.mergeSort_perm _ _

theorem argsort_sorted (xs : List Rat) :
    (argsortStable xs).Pairwise (fun a b => xs.getD a 0 ≤ xs.getD b 0) := by
  have := List.pairwise_mergeSort (le := fun a b => decide (xs.getD a 0 ≤ xs.getD b 0))
    (by intro a b c; simp only [decide_eq_true_eq]; exact le_trans)
    (by intro a b; simp only [Bool.or_eq_true, decide_eq_true_eq]; exact le_total _ _) (List.range xs.length)
  simpa [argsortStable] using this

/-- the repaired split is sound and makes progress, for EVERY pivot value -/
theorem splitIdx_ok (P : Nat → Pt) (axis : Nat) (pv : Rat) (idx : List Nat) (h2 : 2 ≤ idx.length) :
    SplitOK P axis idx (splitIdx P axis pv idx) := by
  have hxs : (takeAx P idx axis).length = idx.length := by simp [takeAx]
  have hget : ∀ p i, idx[p]? = some i → (takeAx P idx axis).getD p 0 = coord (P i) axis := by
    intro p i hp
    simp [takeAx, List.getD_eq_getElem?_getD, List.getElem?_map, hp]
  unfold splitIdx
  simp only
  split
  · -- fallback: the mask of the `n/2` positions of smallest coordinate
    generalize hs : argsortStable (takeAx P idx axis) = s
    have hperm : s.Perm (List.range idx.length) := by rw [← hs, ← hxs]; exact argsort_perm _
    have hsorted : s.Pairwise (fun a b => (takeAx P idx axis).getD a 0 ≤ (takeAx P idx axis).getD b 0) := by
      rw [← hs]; exact argsort_sorted _
    have hlen : s.length = idx.length := by simpa using hperm.length_eq
    have hnodup : s.Nodup := hperm.nodup_iff.mpr List.nodup_range
    rw [hxs]
    set h := idx.length / 2 with hh
    have hh1 : 1 ≤ h := by omega
    have hhn : h < idx.length := by omega
    set m' := maskSet (zerosBool idx.length) (s.take h) with hm'
    have hm'len : m'.length = idx.length := by rw [hm', maskSet_length]; simp [zerosBool]
    have hm'get : ∀ j, m'[j]? = some true ↔ j < idx.length ∧ j ∈ s.take h := by
      intro j
      rw [hm', maskSet_get]
      simp only [zerosBool, List.length_replicate]
      constructor
      · rintro ⟨hl, hz | hz⟩
        · exact absurd hz (zerosBool_get _ _)
        · exact ⟨hl, hz⟩
      · rintro ⟨hl, hz⟩; exact ⟨hl, Or.inr hz⟩
    have hsrange : ∀ a (ha : a < s.length), s[a] < idx.length := by
      intro a ha
      have : s[a] ∈ List.range idx.length := hperm.mem_iff.mp (List.getElem_mem ha)
      simpa using this
    have hw : s.getD (h - 1) 0 = s[h - 1]'(by omega) := by
      rw [List.getD_eq_getElem?_getD, List.getElem?_eq_getElem (by omega)]; rfl
    have hpw := List.pairwise_iff_getElem.mp hsorted
    have hperm' := extract_perm m' idx hm'len
    -- membership in the two halves, by position
    have hless : ∀ i ∈ extract m' idx, coord (P i) axis ≤ (takeAx P idx axis).getD (s.getD (h - 1) 0) 0 := by
      intro i hi
      obtain ⟨p, hp1, hp2⟩ := mem_extract.mp hi
      obtain ⟨_, hpt⟩ := (hm'get p).mp hp2
      obtain ⟨a, ha, hap⟩ := List.mem_iff_getElem.mp hpt
      rw [List.length_take] at ha
      rw [List.getElem_take] at hap
      rw [← hget p i hp1, hw, ← hap]
      by_cases hlt : a < h - 1
      · exact hpw a (h - 1) (by omega) (by omega) hlt
      · have : a = h - 1 := by omega
        subst this; exact le_refl _
    have hmore : ∀ i ∈ extract (maskNot m') idx, (takeAx P idx axis).getD (s.getD (h - 1) 0) 0 ≤ coord (P i) axis := by
      intro i hi
      obtain ⟨p, hp1, hp2⟩ := mem_extract.mp hi
      have hpl : p < idx.length := (List.getElem?_eq_some_iff.mp hp1).1
      have hnot : ¬ (p ∈ s.take h) := by
        intro hin
        have := (hm'get p).mpr ⟨hpl, hin⟩
        simp only [maskNot, List.getElem?_map, this, Option.map_some, Bool.not_true, Option.some.injEq] at hp2
        exact absurd hp2 (by decide)
      have hps : p ∈ s := hperm.mem_iff.mpr (by simpa using hpl)
      obtain ⟨b, hb, hbp⟩ := List.mem_iff_getElem.mp hps
      have hbh : h ≤ b := by
        by_contra hc
        apply hnot
        rw [List.mem_iff_getElem]
        exact ⟨b, by rw [List.length_take]; omega, by rw [List.getElem_take]; exact hbp⟩
      rw [← hget p i hp1, hw, ← hbp]
      exact hpw (h - 1) b (by omega) hb (by omega)
    have hne1 : 0 < (extract m' idx).length := by
      have h0 : s[0]'(by omega) < idx.length := hsrange 0 (by omega)
      have hin : s[0]'(by omega) ∈ s.take h := by
        rw [List.mem_iff_getElem]
        exact ⟨0, by rw [List.length_take]; omega, by rw [List.getElem_take]⟩
      have hm := (hm'get (s[0]'(by omega))).mpr ⟨h0, hin⟩
      have : idx[s[0]'(by omega)]'h0 ∈ extract m' idx :=
        mem_extract.mpr ⟨s[0]'(by omega), List.getElem?_eq_getElem h0, hm⟩
      exact List.length_pos_of_mem this
    have hne2 : 0 < (extract (maskNot m') idx).length := by
      have h0 : s[h]'(by omega) < idx.length := hsrange h (by omega)
      have hnin : ¬ (s[h]'(by omega) ∈ s.take h) := by
        intro hin
        obtain ⟨a, ha, hap⟩ := List.mem_iff_getElem.mp hin
        rw [List.length_take] at ha
        rw [List.getElem_take] at hap
        have := (List.getElem_inj hnodup).mp hap
        omega
      have hm : m'[s[h]'(by omega)]? = some false := by
        have hl : s[h]'(by omega) < m'.length := by omega
        rw [List.getElem?_eq_getElem hl]
        cases hv : m'[s[h]'(by omega)]'hl
        · rfl
        · exfalso
          apply hnin
          have : m'[s[h]'(by omega)]? = some true := by rw [List.getElem?_eq_getElem hl, hv]
          exact ((hm'get _).mp this).2
      have : idx[s[h]'(by omega)]'h0 ∈ extract (maskNot m') idx :=
        mem_extract.mpr ⟨s[h]'(by omega), List.getElem?_eq_getElem h0, by simp [maskNot, List.getElem?_map, hm]⟩
      exact List.length_pos_of_mem this
    have hsum := hperm'.length_eq
    rw [List.length_append] at hsum
    exact ⟨hperm', hless, hmore, by simp only; omega, by simp only; omega⟩
  · rename_i hne
    rw [(extract_leMask P axis pv idx).1, (extract_leMask P axis pv idx).2]
    have hne' : ¬ ((idx.filter (fun i => !decide (coord (P i) axis ≤ pv))).isEmpty ||
        (idx.filter (fun i => decide (coord (P i) axis ≤ pv))).isEmpty) = true := by
      intro hc
      apply hne
      simp only [Bool.or_eq_true, List.isEmpty_iff, List.filter_eq_nil_iff] at hc
      simp only [maskAll, maskAny, leMask, takeAx, Bool.or_eq_true, List.all_eq_true, List.any_eq_true,
        Bool.not_eq_true', List.any_eq_false, List.mem_map, id]
      rcases hc with hc | hc
      · left
        rintro b ⟨x, ⟨i, hi, rfl⟩, rfl⟩
        have := hc i hi
        simpa using this
      · right
        rintro b ⟨x, ⟨i, hi, rfl⟩, rfl⟩
        have := hc i hi
        simpa using this
    simp only [Bool.or_eq_true, List.isEmpty_iff, not_or] at hne'
    have hperm := List.filter_append_perm (fun i => decide (coord (P i) axis ≤ pv)) idx
    have hlen := hperm.length_eq
    rw [List.length_append] at hlen
    have h1 : 0 < (idx.filter (fun i => decide (coord (P i) axis ≤ pv))).length := List.length_pos_iff.mpr hne'.2
    have h2' : 0 < (idx.filter (fun i => !decide (coord (P i) axis ≤ pv))).length := List.length_pos_iff.mpr hne'.1
    refine ⟨hperm, ?_, ?_, ?_, ?_⟩
    · intro i hi
      simpa using (List.mem_filter.mp hi).2
    · intro i hi
      have := (List.mem_filter.mp hi).2
      simp only [Bool.not_eq_eq_eq_not, Bool.not_true, decide_eq_false_iff_not, not_le] at this
      exact le_of_lt this
    · simp only; omega
    · simp only; omega

/-! ### construction -/

theorem insideClosed_set_hi : ∀ {lo hi : List EQ} {p : Pt} {axis : Nat} {sv : Rat},
    Box.insideClosed lo hi p = true → coord p axis ≤ sv → Box.insideClosed lo (hi.set axis (fin sv)) p = true
  | [], hi, p, axis, sv, h, _ => by
    cases hi <;> cases p <;> simp [Box.insideClosed] at h ⊢
  | l :: ls, [], p, axis, sv, h, _ => by simp [Box.insideClosed] at h
  | l :: ls, h' :: hs, [], axis, sv, h, _ => by simp [Box.insideClosed] at h
  | l :: ls, h' :: hs, a :: ps, 0, sv, h, hc => by
    simp only [Box.insideClosed, Bool.and_eq_true, decide_eq_true_eq, List.set_cons_zero] at h ⊢
    refine ⟨⟨h.1.1, ?_⟩, h.2⟩
    simpa [coord] using fin_le_fin.mpr hc
  | l :: ls, h' :: hs, a :: ps, axis + 1, sv, h, hc => by
    simp only [Box.insideClosed, Bool.and_eq_true, decide_eq_true_eq, List.set_cons_succ] at h ⊢
    exact ⟨h.1, insideClosed_set_hi h.2 (by simpa [coord] using hc)⟩

theorem insideClosed_set_lo : ∀ {lo hi : List EQ} {p : Pt} {axis : Nat} {sv : Rat},
    Box.insideClosed lo hi p = true → sv ≤ coord p axis → Box.insideClosed (lo.set axis (fin sv)) hi p = true
  | [], hi, p, axis, sv, h, _ => by
    cases hi <;> cases p <;> simp [Box.insideClosed] at h ⊢
  | l :: ls, [], p, axis, sv, h, _ => by simp [Box.insideClosed] at h
  | l :: ls, h' :: hs, [], axis, sv, h, _ => by simp [Box.insideClosed] at h
  | l :: ls, h' :: hs, a :: ps, 0, sv, h, hc => by
    simp only [Box.insideClosed, Bool.and_eq_true, decide_eq_true_eq, List.set_cons_zero] at h ⊢
    refine ⟨⟨?_, h.1.2⟩, h.2⟩
    simpa [coord] using fin_le_fin.mpr hc
  | l :: ls, h' :: hs, a :: ps, axis + 1, sv, h, hc => by
    simp only [Box.insideClosed, Bool.and_eq_true, decide_eq_true_eq, List.set_cons_succ] at h ⊢
    exact ⟨h.1, insideClosed_set_lo h.2 (by simpa [coord] using hc)⟩

theorem indices_eq_leaves : ∀ (t : Tree), t.indices = t.leaves.flatMap (fun l => l.1)
  | .leaf idx b => by simp [Tree.indices, Tree.leaves]
  | .node _ _ _ l r => by simp [Tree.indices, Tree.leaves, indices_eq_leaves l, indices_eq_leaves r]

theorem buildWith_box {split P dim leafSize piv} : ∀ {fuel path axis idx box t},
    buildWith split P dim leafSize piv fuel path axis idx box = some t → t.box = box
  | 0, _, _, _, _, _, h => by simp [buildWith] at h
  | fuel + 1, path, axis, idx, box, t, h => by
    unfold buildWith at h
    split at h
    · cases h; rfl
    · simp only at h
      split at h
      · cases h; rfl
      · cases h


/-! ### witness for the refutation of the original pruning rule: 1-D points −4, 1, 3, query 0, k = 3 -/

def wP : Nat → Pt := fun i => [([-4, 1, 3] : List Rat).getD i 0]

/-- pivots of the witness: the root cell picks 1, the cell {−4, 1} picks −4 (both possible for `random`) -/
def wPiv : Nat → List Rat → Rat := fun path _ => if path = 1 then 1 else -4

def wT : Tree :=
  .node 0 1 (Box.infinite 1)
    (.node 0 (-4) ⟨[ninf], [fin 1]⟩ (.leaf [0] ⟨[ninf], [fin (-4)]⟩) (.leaf [1] ⟨[fin (-4)], [fin 1]⟩))
    (.leaf [2] ⟨[fin 1], [pinf]⟩)

end Mouette.KD
