import Mouette.Lemmas.DijkstraBasic
import Mouette.Model.PathMesh
/-
`build_path`: normal form of the fold, membership characterisation of the polyline edges, vertex lookup.
-/
namespace Mouette.Dijkstra

/-- normal form of the edge list: segments of every path, offset by the running vertex count `k` -/
def segs : Nat → List (List Nat) → List (Nat × Nat)
  | _, [] => []
  | k, l :: ps => (List.range (l.length - 1)).map (fun i => (k + i, k + i + 1)) ++ segs (k + l.length) ps

theorem foldl_buildStep : ∀ (ps : List (List Nat)) (vs : List Nat) (es : List (Nat × Nat)) (k : Nat),
    ps.foldl buildStep ((vs, es), k) = ((vs ++ ps.flatten, es ++ segs k ps), k + ps.flatten.length)
  | [], vs, es, k => by simp [segs]
  | l :: ps, vs, es, k => by
    rw [List.foldl_cons]
    have h : buildStep ((vs, es), k) l =
        ((vs ++ l, es ++ (List.range (l.length - 1)).map (fun i => (k + i, k + i + 1))), k + l.length) := rfl
    rw [h, foldl_buildStep ps]
    simp [segs, Nat.add_assoc, List.append_assoc]

theorem buildPath_eq (ps : List (List Nat)) : buildPath ps = (ps.flatten, segs 0 ps) := by
  unfold buildPath
  rw [foldl_buildStep]
  simp

theorem mem_segs : ∀ (ps : List (List Nat)) (k : Nat) (e : Nat × Nat),
    e ∈ segs k ps ↔ ∃ A l B i, ps = A ++ l :: B ∧ i + 1 < l.length ∧
      e = (k + A.flatten.length + i, k + A.flatten.length + i + 1)
  | [], k, e => by
    simp [segs]
  | l0 :: ps, k, e => by
    unfold segs
    rw [List.mem_append, mem_segs ps (k + l0.length) e]
    constructor
    · rintro (h | ⟨A, l, B, i, hps, hi, he⟩)
      · simp only [List.mem_map, List.mem_range] at h
        obtain ⟨i, hi, rfl⟩ := h
        exact ⟨[], l0, ps, i, rfl, by omega, by simp⟩
      · refine ⟨l0 :: A, l, B, i, by rw [hps]; rfl, hi, ?_⟩
        rw [he]
        simp only [List.flatten_cons, List.length_append]
        ext <;> simp <;> omega
    · rintro ⟨A, l, B, i, hps, hi, he⟩
      cases A with
      | nil =>
        left
        simp only [List.nil_append, List.cons.injEq] at hps
        obtain ⟨rfl, rfl⟩ := hps
        simp only [List.mem_map, List.mem_range]
        exact ⟨i, by omega, by rw [he]; simp⟩
      | cons a A' =>
        right
        simp only [List.cons_append, List.cons.injEq] at hps
        obtain ⟨rfl, rfl⟩ := hps
        refine ⟨A', l, B, i, rfl, hi, ?_⟩
        rw [he]
        simp only [List.flatten_cons, List.length_append]
        ext <;> simp <;> omega

theorem length_segs : ∀ (ps : List (List Nat)) (k : Nat), (segs k ps).length = (ps.map (fun l => l.length - 1)).sum
  | [], _ => rfl
  | l :: ps, k => by
    unfold segs
    simp [length_segs ps]

theorem flatten_lookup (A : List (List Nat)) (l : List Nat) (B : List (List Nat)) (i : Nat) (hi : i < l.length) :
    (A ++ l :: B).flatten[A.flatten.length + i]? = l[i]? := by
  rw [List.flatten_append, List.flatten_cons]
  rw [List.getElem?_append_right (by omega)]
  rw [Nat.add_sub_cancel_left]
  exact List.getElem?_append_left hi

/-- consecutive vertices of a valid path are adjacent -/
theorem PathW.consecutive {adj : Adj} {a t : Nat} {l : List Nat} {W : Rat} (h : PathW adj a t l W) :
    ∀ i, i + 1 < l.length → ∃ x y w, l[i]? = some x ∧ l[i + 1]? = some y ∧ (y, w) ∈ adj x := by
  induction h with
  | single a => intro i hi; simp at hi
  | @cons a b t l w W hab hp ih =>
    intro i hi
    cases i with
    | zero =>
      have hh := hp.head
      cases l with
      | nil => exact absurd rfl hp.ne_nil
      | cons x xs =>
        simp at hh
        subst hh
        exact ⟨a, x, w, by simp, by simp, hab⟩
    | succ i =>
      obtain ⟨x, y, w', h1, h2, h3⟩ := ih i (by simp at hi; omega)
      exact ⟨x, y, w', by simpa using h1, by simpa using h2, h3⟩

end Mouette.Dijkstra
