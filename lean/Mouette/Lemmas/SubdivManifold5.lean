import Mouette.Lemmas.SubdivManifold3
/-
C13 (round 6): `triangulate` on quads.  Cutting the quads at the positions `ids` adds, as a multiset, exactly both
orientations of every cut diagonal B-D to the directed sides.  Hence the exact criterion: the triangulation of a quad mesh
is consistently oriented iff the directed sides of the input together with the diagonals (both orientations) are pairwise
distinct - which fails precisely when a diagonal is already a side or is cut twice (the open finding).
-/
namespace Mouette.Subdiv

/-- both orientations of the diagonal `triangulate_face` cuts a quad along -/
def diagOf : Option (List Nat) → List (Nat × Nat)
  | some [_, b, _, d] => [(b, d), (d, b)]
  | _ => []

theorem tri_quads_perm : ∀ (ids : List Nat) (m m' : Raw), ids.Nodup →
    (∀ i ∈ ids, ∃ a b c d, m.faces[i]? = some [a, b, c, d]) → triangulateFrom m ids = .ok m' →
    (dirSides m').Perm (dirSides m ++ ids.flatMap (fun i => diagOf m.faces[i]?)) := by
  intro ids
  induction ids with
  | nil =>
    intro m m' _ _ h
    simp [triangulateFrom, pure, Except.pure] at h
    subst h; simp
  | cons k ks ih =>
    intro m m' hnd hq h
    obtain ⟨a, b, c, d, hf⟩ := hq k (by simp)
    rw [List.nodup_cons] at hnd
    simp only [triangulateFrom, hf] at h
    have h4 : ([a, b, c, d] : List Nat).length ≠ 3 := by simp
    simp only [h4, if_true, ne_eq, not_false_eq_true, bind, Except.bind] at h
    cases ht : triangulateFace m k with
    | error e => simp [ht] at h
    | ok m1 =>
      simp only [ht] at h
      obtain ⟨_, hfa, _, _⟩ := quad_split_spec m m1 k a b c d hf ht
      have hsame : ∀ i ∈ ks, m1.faces[i]? = m.faces[i]? := by
        intro i hi
        obtain ⟨a', b', c', d', hfi⟩ := hq i (by simp [hi])
        have hlt : i < m.faces.length := by
          by_contra hcn; rw [List.getElem?_eq_none (by omega)] at hfi; cases hfi
        rw [hfa]
        exact set_append_get_other _ _ _ _ _ (fun e => hnd.1 (e ▸ hi)) hlt
      have hq1 : ∀ i ∈ ks, ∃ a b c d, m1.faces[i]? = some [a, b, c, d] := by
        intro i hi
        obtain ⟨a', b', c', d', hfi⟩ := hq i (by simp [hi])
        exact ⟨a', b', c', d', by rw [hsame i hi]; exact hfi⟩
      have p1 := ih m1 m' hnd.2 hq1 h
      have p2 := quad_dirSides_perm m m1 k a b c d hf ht
      have e1 : ks.flatMap (fun i => diagOf m1.faces[i]?) = ks.flatMap (fun i => diagOf m.faces[i]?) := by
        apply List.flatMap_congr
        intro i hi; rw [hsame i hi]
      rw [e1] at p1
      simp only [List.flatMap_cons, hf, diagOf]
      refine p1.trans ?_
      rw [← List.append_assoc]
      exact List.Perm.append_right _ p2

/-- the exact criterion for `triangulate` on a quad mesh -/
theorem triangulate_quads_oriented_iff (m m' : Raw) (hq : ∀ f ∈ m.faces, f.length = 4) (h : triangulate m = .ok m') :
    OrientedSides m' ↔ (dirSides m ++ (List.range m.faces.length).flatMap (fun i => diagOf m.faces[i]?)).Nodup := by
  unfold OrientedSides
  refine (tri_quads_perm _ m m' List.nodup_range ?_ h).nodup_iff
  intro i hi
  have hlt : i < m.faces.length := List.mem_range.mp hi
  have h4 := hq m.faces[i] (List.getElem_mem hlt)
  rcases hfe : m.faces[i] with _ | ⟨a, _ | ⟨b, _ | ⟨c, _ | ⟨d, _ | ⟨e, t⟩⟩⟩⟩⟩ <;> rw [hfe] at h4 <;> simp at h4
  exact ⟨a, b, c, d, by rw [List.getElem?_eq_getElem hlt, hfe]⟩

end Mouette.Subdiv
