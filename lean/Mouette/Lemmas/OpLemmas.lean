import Mouette.Model.Operators
import Mouette.Lemmas.GeomLemmas
import Mathlib.Tactic.Ring
import Mathlib.Tactic.Linarith
/-
Helper lemmas for C08: sums over triplet lists, the edge block.
-/
namespace Mouette.Ops
open Mouette.Geom

theorem rsum_nil : rsum [] = 0 := rfl
theorem rsum_cons (a : Rat) (l : List Rat) : rsum (a :: l) = a + rsum l := rfl
theorem rsum_append (a b : List Rat) : rsum (a ++ b) = rsum a + rsum b := by
  induction a with
  | nil => simp [rsum]
  | cons x xs ih => simp only [List.cons_append, rsum_cons, ih]; ring

theorem rsum_map_add {α} (l : List α) (f g : α → Rat) :
    rsum (l.map (fun a => f a + g a)) = rsum (l.map f) + rsum (l.map g) := by
  induction l with
  | nil => simp [rsum]
  | cons x xs ih => simp only [List.map_cons, rsum_cons, ih]; ring

theorem rsum_map_zero {α} (l : List α) : rsum (l.map (fun _ => (0 : Rat))) = 0 := by
  induction l with
  | nil => rfl
  | cons x xs ih => simp only [List.map_cons, rsum_cons, ih]; ring

theorem rsum_map_congr {α} (l : List α) (f g : α → Rat) (h : ∀ a ∈ l, f a = g a) :
    rsum (l.map f) = rsum (l.map g) := by
  rw [List.map_congr_left h]

theorem toFun_nil (i j : Nat) : toFun [] i j = 0 := rfl
theorem toFun_cons (e : Trip) (T : List Trip) (i j : Nat) :
    toFun (e :: T) i j = (if e.1 = i ∧ e.2.1 = j then e.2.2 else 0) + toFun T i j := rfl
theorem toFun_append (A B : List Trip) (i j : Nat) : toFun (A ++ B) i j = toFun A i j + toFun B i j := by
  simp only [toFun, List.map_append, rsum_append]
theorem rowSum_nil (i : Nat) : rowSum [] i = 0 := rfl
theorem rowSum_cons (e : Trip) (T : List Trip) (i : Nat) :
    rowSum (e :: T) i = (if e.1 = i then e.2.2 else 0) + rowSum T i := rfl
theorem rowSum_append (A B : List Trip) (i : Nat) : rowSum (A ++ B) i = rowSum A i + rowSum B i := by
  simp only [rowSum, List.map_append, rsum_append]
theorem total_append (A B : List Trip) : total (A ++ B) = total A + total B := by
  simp only [total, List.map_append, rsum_append]
theorem quad_append (A B : List Trip) (x : Nat → Rat) : quad (A ++ B) x = quad A x + quad B x := by
  simp only [quad, List.map_append, rsum_append]
theorem eval_append (w : Nat → Rat) (A B : List SEntry) : eval w (A ++ B) = eval w A ++ eval w B := by
  simp only [eval, List.map_append]

theorem eval_edgeBlockS (w : Nat → Rat) (i j c : Nat) : eval w (edgeBlockS i j c) = edgeBlock i j (w c) := by
  simp [eval, edgeBlockS, edgeBlock]

theorem stiffEntry_symm (p q : Nat) (v : Rat) (i j : Nat) : stiffEntry p q v i j = stiffEntry p q v j i := by
  unfold stiffEntry; ring

theorem ite_and_eq_ind (p i q j : Nat) (v : Rat) :
    (if p = i ∧ q = j then v else 0) = v * ind i p * ind j q := by
  unfold ind
  by_cases h1 : p = i <;> by_cases h2 : q = j
  · subst h1; subst h2; simp
  · subst h1; have : ¬ j = q := fun h => h2 h.symm
    simp [h2, this]
  · have : ¬ i = p := fun h => h1 h.symm
    simp [h1, this]
  · have : ¬ i = p := fun h => h1 h.symm
    simp [h1, this]

theorem toFun_edgeBlock (p q : Nat) (v : Rat) (i j : Nat) :
    toFun (edgeBlock p q v) i j = stiffEntry p q v i j := by
  simp only [toFun, edgeBlock, List.map_cons, List.map_nil, rsum_cons, rsum_nil, stiffEntry, ite_and_eq_ind]
  ring

theorem rowSum_edgeBlock (p q : Nat) (v : Rat) (i : Nat) : rowSum (edgeBlock p q v) i = 0 := by
  simp only [rowSum, edgeBlock, List.map_cons, List.map_nil, rsum_cons, rsum_nil]
  by_cases h1 : p = i <;> by_cases h3 : q = i <;> simp [h1, h3]

theorem quad_edgeBlock (p q : Nat) (v : Rat) (x : Nat → Rat) : quad (edgeBlock p q v) x = v * (x p - x q) ^ 2 := by
  simp only [quad, edgeBlock, List.map_cons, List.map_nil, rsum_cons, rsum_nil]; ring

theorem range_succ_map {α} (n : Nat) (f : Nat → α) : (List.range (n + 1)).map f = (List.range n).map f ++ [f n] := by
  rw [List.range_succ, List.map_append]; rfl

/-- `Σ_{j<n} [c = j] v = v` for `c < n` -/
theorem rsum_range_ite (n c : Nat) (v : Rat) (h : c < n) :
    rsum ((List.range n).map (fun j => if c = j then v else 0)) = v := by
  induction n with
  | zero => omega
  | succ n ih =>
    rw [range_succ_map, rsum_append]
    by_cases hc : c = n
    · subst hc
      have : rsum ((List.range c).map (fun j => if c = j then v else 0)) = 0 := by
        rw [rsum_map_congr _ _ (fun _ => (0 : Rat)) (fun a ha => by
          have : a < c := List.mem_range.mp ha
          have : ¬ c = a := by omega
          simp [this]), rsum_map_zero]
      rw [this]; simp [rsum]
    · have hlt : c < n := by omega
      rw [ih hlt]; simp [rsum, hc]

/-- the row sum is the sum of the entries of the row, for a matrix with `n` columns -/
theorem rowSum_eq_sum_toFun' (T : List Trip) (n i : Nat) (h : ∀ e ∈ T, e.2.1 < n) :
    rowSum T i = rsum ((List.range n).map (toFun T i)) := by
  induction T with
  | nil =>
    simp only [rowSum_nil]
    rw [rsum_map_congr _ _ (fun _ => (0 : Rat)) (fun a _ => toFun_nil i a), rsum_map_zero]
  | cons e T ih =>
    have hT : ∀ e' ∈ T, e'.2.1 < n := fun e' he' => h e' (List.mem_cons_of_mem _ he')
    have he : e.2.1 < n := h e (by simp)
    rw [rowSum_cons, ih hT]
    have : (List.range n).map (toFun (e :: T) i)
        = (List.range n).map (fun j => (if e.1 = i ∧ e.2.1 = j then e.2.2 else 0) + toFun T i j) := by
      apply List.map_congr_left; intro a _; rfl
    rw [this, rsum_map_add]
    congr 1
    by_cases hi : e.1 = i
    · simp only [hi, true_and]
      rw [rsum_range_ite n e.2.1 e.2.2 he]; simp
    · simp only [hi, false_and, if_false]
      rw [rsum_map_zero]

theorem blocks_cons (e : Nat × Nat × Rat) (es : List (Nat × Nat × Rat)) :
    blocks (e :: es) = edgeBlock e.1 e.2.1 e.2.2 ++ blocks es := by
  simp [blocks, List.flatMap_cons]

theorem cnt_nil (j : Nat) : cnt [] j = 0 := rfl
theorem cnt_append (a b : List Nat) (j : Nat) : cnt (a ++ b) j = cnt a j + cnt b j := by
  simp only [cnt, List.map_append, rsum_append]
theorem cnt_cons (a : Nat) (l : List Nat) (j : Nat) : cnt (a :: l) j = (if a = j then 1 else 0) + cnt l j := rfl

theorem nbrs_cons (e : Nat × Nat) (es : List (Nat × Nat)) (l j : Nat) :
    cnt (nbrs (e :: es) l) j
      = (if e.1 = l ∧ e.2 = j then 1 else 0) + (if e.2 = l ∧ e.1 = j then 1 else 0) + cnt (nbrs es l) j := by
  simp only [nbrs, List.filter_cons, cnt_append]
  by_cases h1 : e.1 = l <;> by_cases h2 : e.2 = l <;> simp [h1, h2, cnt_cons, cnt_append] <;> ring

theorem toFun_adjacencyAux_one (es : List (Nat × Nat)) (k i j : Nat) :
    toFun (adjacencyAux (fun _ => 1) es k) i j = cnt (nbrs es i) j := by
  induction es generalizing k with
  | nil => rfl
  | cons e es ih =>
    simp only [adjacencyAux, toFun_cons, ih, nbrs_cons]; ring

theorem toFun_graphLapRow (es : List (Nat × Nat)) (l i j : Nat) :
    toFun (graphLapRow es l) i j
      = if l = i then (if i = j then ((nbrs es i).length : Rat) else 0) - cnt (nbrs es i) j else 0 := by
  unfold graphLapRow
  rw [toFun_cons]
  have key : ∀ L : List Nat, toFun (L.map (fun b => (l, b, (-1 : Rat)))) i j = if l = i then - cnt L j else 0 := by
    intro L
    induction L with
    | nil => simp [toFun, rsum, cnt]
    | cons b L ih =>
      simp only [List.map_cons, toFun_cons, ih, cnt_cons]
      by_cases h1 : l = i <;> by_cases h2 : b = j <;> simp [h1, h2] <;> ring
  rw [key]
  by_cases h1 : l = i
  · subst h1; by_cases h2 : l = j <;> simp [h2] <;> ring
  · simp [h1]

theorem toFun_graphLap (es : List (Nat × Nat)) (n i j : Nat) :
    toFun (graphLap es n) i j
      = if i < n then (if i = j then ((nbrs es i).length : Rat) else 0) - cnt (nbrs es i) j else 0 := by
  unfold graphLap
  induction n with
  | zero => simp [toFun, rsum]
  | succ n ih =>
    rw [List.range_succ, List.flatMap_append, toFun_append, ih]
    simp only [List.flatMap_cons, List.flatMap_nil, List.append_nil, toFun_graphLapRow]
    by_cases h1 : i < n
    · have : ¬ n = i := by omega
      have h2 : i < n + 1 := by omega
      simp [h1, h2, this]
    · by_cases h3 : n = i
      · subst h3; simp
      · have : ¬ i < n + 1 := by omega
        simp [h1, this, h3]

theorem cnt_symm_nbrs (es : List (Nat × Nat)) (i j : Nat) : cnt (nbrs es i) j = cnt (nbrs es j) i := by
  induction es with
  | nil => rfl
  | cons e es ih =>
    rw [nbrs_cons, nbrs_cons, ih]
    have a : (if e.1 = i ∧ e.2 = j then (1 : Rat) else 0) = (if e.2 = j ∧ e.1 = i then 1 else 0) := by
      simp only [and_comm]
    have b : (if e.2 = i ∧ e.1 = j then (1 : Rat) else 0) = (if e.1 = j ∧ e.2 = i then 1 else 0) := by
      simp only [and_comm]
    rw [a, b]; ring

theorem cnt_total (L : List Nat) (n : Nat) (h : ∀ b ∈ L, b < n) :
    rsum ((List.range n).map (cnt L)) = (L.length : Rat) := by
  induction L with
  | nil =>
    rw [rsum_map_congr _ _ (fun _ => (0 : Rat)) (fun a _ => cnt_nil a), rsum_map_zero]; simp
  | cons b L ih =>
    have hb : b < n := h b (by simp)
    have hL : ∀ b' ∈ L, b' < n := fun b' hb' => h b' (List.mem_cons_of_mem _ hb')
    have : (List.range n).map (cnt (b :: L)) = (List.range n).map (fun j => (if b = j then 1 else 0) + cnt L j) := by
      apply List.map_congr_left; intro a _; rfl
    rw [this, rsum_map_add, rsum_range_ite n b 1 hb, ih hL, List.length_cons]; push_cast; ring

end Mouette.Ops
