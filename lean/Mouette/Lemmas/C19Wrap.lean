import Mathlib.Tactic.Ring
import Mathlib.Tactic.Linarith
import Mouette.Lemmas.C19Sampling
import Mouette.Model.SamplingWrap
/- C19 round 2 — helper lemmas for the wrapping options and list-level samplers. -/
namespace Mouette.Lemmas.C19
open Mouette.Sampling Mouette.SamplingWrap

theorem range_map_getD {α β} (l : List α) (d : α) (f : α → β) :
    (List.range l.length).map (fun i => f (l.getD i d)) = l.map f := by
  apply List.ext_getElem (by simp)
  intro i h1 h2
  have hi : i < l.length := by simpa using h1
  simp [List.getD_eq_getElem?_getD, List.getElem?_eq_getElem hi]

theorem pad3_length (p : Pt) (h : p.length ≤ 3) : (pad3 p).length = 3 := by
  simp [pad3]; omega

theorem pad3_take (p : Pt) : (pad3 p).take p.length = p := by
  simp [pad3]

theorem pad3_tail_zero (p : Pt) (k : Nat) (hk : p.length ≤ k) : (pad3 p).getD k 0 = 0 := by
  simp only [pad3, List.getD_eq_getElem?_getD]
  rw [List.getElem?_append_right hk]
  by_cases h : k - p.length < 3 - p.length
  · simp [List.getElem?_replicate, h]
  · simp [List.getElem?_replicate, h]

end Mouette.Lemmas.C19
