import Mouette.Lemmas.TreesInv
/-
`SpanningTree.traverse` (both orders) on any parent/children tables forming a tree: terminates within fuel,
visits every reached element exactly once, parents first.
-/
namespace Mouette.Trees
open Mouette.Dijkstra (nodup_length_le)

/-- what the traversal needs to know about the tables -/
structure TreeOK (parent : Nat → Option Nat) (children : Nat → List Nat) (root n : Nat) (reached : Nat → Bool)
    (depth : Nat → Option Nat) : Prop where
  ch_iff : ∀ p c, c ∈ children p ↔ parent c = some p
  ch_nodup : ∀ p, (children p).Nodup
  parent_root : parent root = none
  root_reached : reached root = true
  reached_lt : ∀ x, reached x = true → x < n
  par_reached : ∀ c p, parent c = some p → reached c = true ∧ reached p = true
  reached_par : ∀ x, reached x = true → x ≠ root → ∃ p, parent x = some p
  depth_root : depth root = some 0
  depth_some : ∀ x, reached x = true → ∃ d, depth x = some d
  depth_par : ∀ c p, parent c = some p → ∃ dp, depth p = some dp ∧ depth c = some (dp + 1)

abbrev Item := Nat × Option Nat
def nodes (l : List Item) : List Nat := l.map Prod.fst

@[simp] theorem nodes_append (a b : List Item) : nodes (a ++ b) = nodes a ++ nodes b := by simp [nodes]
@[simp] theorem nodes_cons (x : Item) (a : List Item) : nodes (x :: a) = x.1 :: nodes a := by simp [nodes]
@[simp] theorem nodes_nil : nodes ([] : List Item) = [] := rfl

structure TJ (parent : Nat → Option Nat) (children : Nat → List Nat) (root : Nat) (W O : List Item) : Prop where
  nodup : (nodes O ++ nodes W).Nodup
  anc : ∀ c ∈ nodes O ++ nodes W, c = root ∨ ∃ p, parent c = some p ∧ p ∈ nodes O
  lbl : ∀ e ∈ O ++ W, e.2 = parent e.1
  closed : ∀ x ∈ nodes O, ∀ c ∈ children x, c ∈ nodes O ++ nodes W
  has_root : root ∈ nodes O ++ nodes W
  pfirst : ∀ c ∈ nodes O, ∀ p, parent c = some p → p ∈ nodes O ∧ (nodes O).idxOf p < (nodes O).idxOf c
  first : (O ++ W).head? = some (root, none)

theorem tj_init {parent : Nat → Option Nat} {children : Nat → List Nat} {root : Nat} (hr : parent root = none) :
    TJ parent children root [(root, none)] [] := by
  refine { nodup := by simp, anc := by simp, lbl := by simp [hr], closed := by simp, has_root := by simp,
           pfirst := by simp, first := by simp }

theorem tj_step {parent : Nat → Option Nat} {children : Nat → List Nat} {root n : Nat} {reached : Nat → Bool}
    {depth : Nat → Option Nat} (T : TreeOK parent children root n reached depth) {x : Item} {W O W' : List Item}
    (J : TJ parent children root (x :: W) O)
    (hperm : W'.Perm (W ++ (children x.1).map (fun c => (c, some x.1)))) :
    TJ parent children root W' (O ++ [x]) := by
  have hnodes : (nodes W').Perm (nodes W ++ children x.1) := by
    have := hperm.map Prod.fst
    simpa [nodes, List.map_map, Function.comp_def] using this
  have hmemW' : ∀ c, c ∈ nodes W' ↔ c ∈ nodes W ∨ c ∈ children x.1 := by
    intro c; rw [hnodes.mem_iff]; simp
  have hxW : x.1 ∈ nodes O ++ nodes (x :: W) := by simp
  have hold := J.nodup
  simp only [nodes_cons] at hold
  have hx_notO : x.1 ∉ nodes O := by
    intro h
    have := (List.nodup_append.mp hold).2.2 x.1 h x.1 (by simp)
    exact this rfl
  -- children of `x` are new
  have hnew : ∀ c ∈ children x.1, c ∉ nodes O ++ nodes (x :: W) := by
    intro c hc hmem
    have hpc : parent c = some x.1 := (T.ch_iff _ _).mp hc
    rcases J.anc c hmem with h | ⟨p, hp, hpO⟩
    · rw [h, T.parent_root] at hpc; simp at hpc
    · rw [hpc] at hp; simp at hp; rw [← hp] at hpO; exact hx_notO hpO
  refine { nodup := ?_, anc := ?_, lbl := ?_, closed := ?_, has_root := ?_, pfirst := ?_, first := ?_ }
  · have hp : (nodes (O ++ [x]) ++ nodes W').Perm ((nodes O ++ x.1 :: nodes W) ++ children x.1) := by
      have := List.Perm.append_left (nodes (O ++ [x])) hnodes
      refine this.trans ?_
      simp
    rw [hp.nodup_iff, List.nodup_append]
    refine ⟨hold, T.ch_nodup _, ?_⟩
    intro a ha b hb hab
    subst hab
    exact hnew a hb (by simpa using ha)
  · intro c hc
    simp only [nodes_append, nodes_cons, nodes_nil, List.mem_append, List.mem_cons, List.not_mem_nil, or_false] at hc
    rcases hc with (hc | hc) | hc
    · rcases J.anc c (by simp [hc]) with h | ⟨p, hp, hpO⟩
      · exact Or.inl h
      · exact Or.inr ⟨p, hp, by simp [hpO]⟩
    · subst hc
      rcases J.anc x.1 hxW with h | ⟨p, hp, hpO⟩
      · exact Or.inl h
      · exact Or.inr ⟨p, hp, by simp [hpO]⟩
    · rcases (hmemW' c).mp hc with h | h
      · rcases J.anc c (by simp [h]) with h' | ⟨p, hp, hpO⟩
        · exact Or.inl h'
        · exact Or.inr ⟨p, hp, by simp [hpO]⟩
      · exact Or.inr ⟨x.1, (T.ch_iff _ _).mp h, by simp⟩
  · intro e he
    simp only [List.mem_append, List.mem_cons, List.not_mem_nil, or_false] at he
    rcases he with (he | he) | he
    · exact J.lbl e (by simp [he])
    · subst he; exact J.lbl e (by simp)
    · rcases List.mem_append.mp (hperm.mem_iff.mp he) with h | h
      · exact J.lbl e (by simp [h])
      · simp only [List.mem_map] at h
        obtain ⟨c, hc, rfl⟩ := h
        exact ((T.ch_iff _ _).mp hc).symm
  · intro y hy c hc
    simp only [nodes_append, nodes_cons, nodes_nil, List.mem_append, List.mem_cons, List.not_mem_nil, or_false] at hy ⊢
    rcases hy with hy | hy
    · have := J.closed y hy c hc
      simp only [nodes_cons, List.mem_append, List.mem_cons] at this
      rcases this with h | h | h
      · exact Or.inl (Or.inl h)
      · exact Or.inl (Or.inr h)
      · exact Or.inr ((hmemW' c).mpr (Or.inl h))
    · subst hy
      exact Or.inr ((hmemW' c).mpr (Or.inr hc))
  · have := J.has_root
    simp only [nodes_append, nodes_cons, nodes_nil, List.mem_append, List.mem_cons, List.not_mem_nil, or_false] at this ⊢
    rcases this with h | h | h
    · exact Or.inl (Or.inl h)
    · exact Or.inl (Or.inr h)
    · exact Or.inr ((hmemW' _).mpr (Or.inl h))
  · intro c hc p hp
    simp only [nodes_append, nodes_cons, nodes_nil, List.mem_append, List.mem_cons, List.not_mem_nil, or_false] at hc
    rcases hc with hc | hc
    · obtain ⟨h1, h2⟩ := J.pfirst c hc p hp
      refine ⟨by simp [h1], ?_⟩
      simp only [nodes_append, nodes_cons, nodes_nil]
      rw [List.idxOf_append_of_mem h1, List.idxOf_append_of_mem hc]
      exact h2
    · subst hc
      rcases J.anc x.1 hxW with h | ⟨p', hp', hpO⟩
      · rw [h, T.parent_root] at hp; simp at hp
      · rw [hp] at hp'; simp at hp'; subst hp'
        refine ⟨by simp [hpO], ?_⟩
        simp only [nodes_append, nodes_cons, nodes_nil]
        rw [List.idxOf_append_of_mem hpO, List.idxOf_append_of_notMem hx_notO]
        have : List.idxOf p (nodes O) < (nodes O).length := List.idxOf_lt_length_iff.mpr hpO
        simp
        omega
  · have := J.first
    cases O with
    | nil => simp at this; simp [this]
    | cons o os => simpa using this

/-- all nodes on the work list / output are reached, hence `< n` -/
theorem TJ.reached {parent : Nat → Option Nat} {children : Nat → List Nat} {root n : Nat} {reached : Nat → Bool}
    {depth : Nat → Option Nat} (T : TreeOK parent children root n reached depth) {W O : List Item}
    (J : TJ parent children root W O) : ∀ c ∈ nodes O ++ nodes W, reached c = true := by
  intro c hc
  rcases J.anc c hc with h | ⟨p, hp, _⟩
  · rw [h]; exact T.root_reached
  · exact (T.par_reached c p hp).1

theorem trav_ok {parent : Nat → Option Nat} {children : Nat → List Nat} {root n : Nat} {reached : Nat → Bool}
    {depth : Nat → Option Nat} (T : TreeOK parent children root n reached depth) (bfs : Bool) :
    ∀ (f : Nat) (W O : List Item), TJ parent children root W O → n + 1 ≤ O.length + f →
      ∃ O', trav bfs children f W O = (O', []) ∧ TJ parent children root [] O'
  | 0, W, O, J, h => by
    exfalso
    have hlt : ∀ c ∈ nodes O ++ nodes W, c < n := fun c hc => T.reached_lt c (J.reached T c hc)
    have := nodup_length_le J.nodup hlt
    simp [nodes] at this
    omega
  | f+1, [], O, J, _ => ⟨O, by simp [trav], J⟩
  | f+1, x :: W, O, J, h => by
    unfold trav
    simp only
    cases bfs with
    | true =>
      simp only [if_true]
      exact trav_ok T true f _ _ (tj_step T J (List.Perm.refl _)) (by simp; omega)
    | false =>
      simp only [Bool.false_eq_true, if_false]
      refine trav_ok T false f _ _ (tj_step T J ?_) (by simp; omega)
      exact (List.perm_append_comm).trans (List.Perm.append_left _ (List.reverse_perm _))

/-- P0/P1 `traverse_once_parent_first` (generic form) -/
theorem traverse_spec {parent : Nat → Option Nat} {children : Nat → List Nat} {root n : Nat} {reached : Nat → Bool}
    {depth : Nat → Option Nat} (T : TreeOK parent children root n reached depth) (bfs : Bool) :
    ∃ O, trav bfs children (n + 1) [(root, none)] [] = (O, []) ∧
      (nodes O).Nodup ∧ (∀ x, x ∈ nodes O ↔ reached x = true) ∧ (∀ e ∈ O, e.2 = parent e.1) ∧
      O.head? = some (root, none) ∧
      (∀ c ∈ nodes O, ∀ p, parent c = some p → p ∈ nodes O ∧ (nodes O).idxOf p < (nodes O).idxOf c) := by
  obtain ⟨O, hO, J⟩ := trav_ok T bfs (n + 1) _ _ (tj_init (children := children) T.parent_root) (by simp)
  refine ⟨O, hO, by simpa using J.nodup, ?_, fun e he => J.lbl e (by simp [he]), by simpa using J.first, J.pfirst⟩
  intro x
  constructor
  · intro hx; exact J.reached T x (by simp [hx])
  · -- by induction on the depth
    have key : ∀ (d x : Nat), reached x = true → depth x = some d → x ∈ nodes O := by
      intro d
      induction d with
      | zero =>
        intro x hx hd
        by_cases hxr : x = root
        · subst hxr; simpa using J.has_root
        · obtain ⟨p, hp⟩ := T.reached_par x hx hxr
          obtain ⟨dp, _, h2⟩ := T.depth_par x p hp
          rw [hd] at h2; simp at h2
      | succ d ih =>
        intro x hx hd
        have hxr : x ≠ root := by intro h; rw [h, T.depth_root] at hd; simp at hd
        obtain ⟨p, hp⟩ := T.reached_par x hx hxr
        obtain ⟨dp, h1, h2⟩ := T.depth_par x p hp
        rw [hd] at h2
        have hdp : dp = d := by simp at h2; omega
        subst hdp
        have hpO := ih p (T.par_reached x p hp).2 h1
        have := J.closed p hpO x ((T.ch_iff _ _).mpr hp)
        simpa using this
    intro hx
    obtain ⟨d, hd⟩ := T.depth_some x hx
    exact key d x hx hd

end Mouette.Trees
