import Mouette.Generated.C16SpanF
/-!
The breadth-first traversal of the feature graph in `_build_singularity_spanning_tree_with_features` as written
(`Generated/C16SpanF.lean`) builds a FOREST: every flagged pair `(c, p)` is a feature adjacency (`c ∈ featNbrs p`), `p` was marked
visited strictly before `c`, and no vertex is the child of two flagged pairs. Core Lean only.
-/
namespace Mouette.SpanSrc
open Mouette Mouette.Generated

structure BInv (featNbrs : Nat → List Nat) (s : BSt) : Prop where
  queue : ∀ x p, (x, some p) ∈ s.queue → p ∈ s.visited ∧ x ∈ featNbrs p
  flags : ∀ c p, (c, p) ∈ s.flags → c ∈ featNbrs p ∧ ∃ pre post, s.visited = pre ++ c :: post ∧ p ∈ pre
  nodup : s.visited.Nodup
  child : (s.flags.map Prod.fst).Nodup

theorem binv_init (featNbrs : Nat → List Nat) (a b : List Nat) : BInv featNbrs (C16F.bfsInit a b) := by
  refine ⟨?_, ?_, List.nodup_nil, List.nodup_nil⟩
  · intro x p h
    simp [C16F.bfsInit] at h
  · intro c p h; simp [C16F.bfsInit] at h

theorem bfsPush_fields (featNbrs : Nat → List Nat) (v : Nat) : ∀ (l : List Nat) (s : BSt),
    let r := l.foldl (fun s nv => if !(s.visited.contains nv) then { s with queue := s.queue ++ [(nv, some v)] } else s) s
    r.visited = s.visited ∧ r.flags = s.flags ∧ r.parent = s.parent ∧
      ∀ x p, (x, p) ∈ r.queue → (x, p) ∈ s.queue ∨ (p = some v ∧ x ∈ l)
  | [], s => ⟨rfl, rfl, rfl, fun _ _ h => Or.inl h⟩
  | nv :: l, s => by
    simp only [List.foldl_cons]
    by_cases h : (!(s.visited.contains nv)) = true
    · rw [if_pos h]
      obtain ⟨a, b, c, d⟩ := bfsPush_fields featNbrs v l { s with queue := s.queue ++ [(nv, some v)] }
      refine ⟨a, b, c, ?_⟩
      intro x p hx
      rcases d x p hx with h1 | h1
      · rcases List.mem_append.mp h1 with h2 | h2
        · exact Or.inl h2
        · simp at h2; exact Or.inr ⟨h2.2, by rw [h2.1]; exact List.mem_cons_self⟩
      · exact Or.inr ⟨h1.1, List.mem_cons_of_mem _ h1.2⟩
    · rw [if_neg h]
      obtain ⟨a, b, c, d⟩ := bfsPush_fields featNbrs v l s
      refine ⟨a, b, c, ?_⟩
      intro x p hx
      rcases d x p hx with h1 | h1
      · exact Or.inl h1
      · exact Or.inr ⟨h1.1, List.mem_cons_of_mem _ h1.2⟩

theorem binv_push {featNbrs : Nat → List Nat} {S : BSt} {v : Nat} (key : BInv featNbrs S) (hvS : v ∈ S.visited) :
    BInv featNbrs (C16F.bfsPush featNbrs v S) := by
  obtain ⟨a, b, _, d⟩ := bfsPush_fields featNbrs v (featNbrs v) S
  unfold C16F.bfsPush
  refine ⟨?_, by rw [a, b]; exact key.flags, by rw [a]; exact key.nodup, by rw [b]; exact key.child⟩
  intro x p h
  rw [a]
  rcases d x (some p) h with h1 | h1
  · exact key.queue x p h1
  · injection h1.1 with e; subst e; exact ⟨hvS, h1.2⟩

theorem binv_body {featNbrs : Nat → List Nat} {s : BSt} (I : BInv featNbrs s) : BInv featNbrs (C16F.bfsBody featNbrs s) := by
  unfold C16F.bfsBody
  cases hq : s.queue with
  | nil => simpa [hq] using I
  | cons e q =>
    obtain ⟨v, prev⟩ := e
    simp only []
    have Iq : ∀ x p, (x, some p) ∈ q → p ∈ s.visited ∧ x ∈ featNbrs p :=
      fun x p h => I.queue x p (by rw [hq]; exact List.mem_cons_of_mem _ h)
    by_cases hv : s.visited.contains v = true
    · rw [if_pos hv]
      exact ⟨Iq, I.flags, I.nodup, I.child⟩
    · rw [if_neg hv]
      have hvn : v ∉ s.visited := by simpa using hv
      have hold : ∀ c p, (c, p) ∈ s.flags → c ∈ featNbrs p ∧ ∃ pre post, s.visited ++ [v] = pre ++ c :: post ∧ p ∈ pre := by
        intro c p h
        obtain ⟨h1, pre, post, h2, h3⟩ := I.flags c p h
        exact ⟨h1, pre, post ++ [v], by rw [h2]; simp, h3⟩
      have hnd : (s.visited ++ [v]).Nodup := by
        rw [List.nodup_append]
        exact ⟨I.nodup, by simp, by intro a ha b hb; simp at hb; subst hb; intro e; subst e; exact hvn ha⟩
      cases prev with
      | none =>
        exact binv_push ⟨fun x p h => ⟨List.mem_append_left _ (Iq x p h).1, (Iq x p h).2⟩, hold, hnd, I.child⟩ (by simp)
      | some p0 =>
        have hp0 := I.queue v p0 (by rw [hq]; exact List.mem_cons_self)
        refine binv_push ⟨fun x p h => ⟨List.mem_append_left _ (Iq x p h).1, (Iq x p h).2⟩, ?_, hnd, ?_⟩ (by simp)
        · intro c p h
          rcases List.mem_append.mp h with h | h
          · exact hold c p h
          · simp at h; obtain ⟨rfl, rfl⟩ := h
            exact ⟨hp0.2, s.visited, [], rfl, hp0.1⟩
        · show (List.map Prod.fst (s.flags ++ [(v, p0)])).Nodup
          rw [List.map_append, List.nodup_append]
          refine ⟨I.child, by simp, ?_⟩
          intro a ha b hb
          simp at hb; subst hb
          intro e; subst e
          obtain ⟨pr, hpr⟩ := List.mem_map.mp ha
          obtain ⟨c', p'⟩ := pr
          obtain ⟨_, pre, post, h2, _⟩ := I.flags c' p' hpr.1
          apply hvn
          rw [h2, ← hpr.2]; simp

theorem binv_while {featNbrs : Nat → List Nat} : ∀ (fuel : Nat) (s : BSt), BInv featNbrs s →
    BInv featNbrs (C16F.bfsWhile featNbrs fuel s)
  | 0, _, I => I
  | fuel + 1, s, I => by
    unfold C16F.bfsWhile
    split
    · exact binv_while fuel _ (binv_body I)
    · exact I

end Mouette.SpanSrc
