import Mathlib.Tactic.Ring
import Mathlib.Tactic.Linarith
import Mathlib.Tactic.FieldSimp
import Mathlib.Tactic.LinearCombination
import Mouette.Model.Prim
/- helper identities for the vector primitives -/
namespace Mouette.Prim
open V3

theorem cross_orth (a b : V3) : dot (cross a b) a = 0 ∧ dot (cross a b) b = 0 := by
  constructor <;> simp only [dot, cross] <;> ring

/-- a point `v1 + m` with `2 m·(v2 - v1) = |v2 - v1|²` is equidistant from `v1` and `v2` -/
theorem equidist_of (v1 v2 m : V3) (h : 2 * dot m (sub v2 v1) = norm2 (sub v2 v1)) :
    norm2 (sub (add v1 m) v1) = norm2 (sub (add v1 m) v2) := by
  simp only [norm2, dot, sub, add] at h ⊢
  linear_combination h

/-- with `n = a × b` and `w = |a|² (b × n) + |b|² (n × a)`: `w·a = |a|² |n|²`, `w·b = |b|² |n|²` -/
theorem circum_w_dot (a b : V3) :
    dot (add (smul (norm2 a) (cross b (cross a b))) (smul (norm2 b) (cross (cross a b) a))) a = norm2 a * norm2 (cross a b) ∧
    dot (add (smul (norm2 a) (cross b (cross a b))) (smul (norm2 b) (cross (cross a b) a))) b = norm2 b * norm2 (cross a b) := by
  constructor <;> simp only [norm2, dot, add, smul, cross] <;> ring

theorem dot_smul (t : Rat) (w a : V3) : dot (smul t w) a = t * dot w a := by
  simp only [dot, smul]; ring

theorem dot_add_left (x y a : V3) : dot (add x y) a = dot x a + dot y a := by
  simp only [dot, add]; ring

theorem add_assoc' (x y z : V3) : add (add x y) z = add x (add y z) := by
  simp only [add, V3.mk.injEq]; refine ⟨?_, ?_, ?_⟩ <;> ring

theorem smul_zero' (n : V3) : smul 0 n = ⟨0, 0, 0⟩ := by simp [smul]
theorem add_zero' (c : V3) : add c ⟨0, 0, 0⟩ = c := by simp [add]

/-- a 3-vector as the indexable `A[i]` of the source -/
def idx3 (a : V3) : Nat → Rat := fun i => match i with | 0 => a.x | 1 => a.y | _ => a.z
def idx2 (a : V2) : Nat → Rat := fun i => match i with | 0 => a.x | _ => a.y
/-- `mat = np.array([A,B,C])`: rows A, B, C -/
def rows3 (A B C : V3) : Nat → Nat → Rat := fun i => match i with | 0 => idx3 A | 1 => idx3 B | _ => idx3 C


end Mouette.Prim
