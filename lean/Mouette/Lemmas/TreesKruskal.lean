import Mouette.Lemmas.UnionFind
import Mouette.Model.Trees
/-
The Kruskal loop of `EdgeMinimalSpanningTree.compute` on the union-find model: the selected edges form a
spanning forest of the admissible edges. Uses the refinement theorem of the union-find model
(`Lemmas/UnionFind.lean`, property C20): the state after a history answers `connected` by the equivalence
closure of the unions of the history.
-/
namespace Mouette.Trees
open Mouette.UF

/-- history-level answer of `connected` (restatement of `Props.C20.uf_refines` from the lemma layer) -/
theorem connected_run (ops : List Op) (x y : Nat) (hx : x ∈ present ops) (hy : y ∈ present ops) :
    ∃ b, connected (run ops) x y = some (run (ops ++ [.connected x y]), b) ∧ (b = true ↔ Joined ops x y) := by
  have hx' : x ∈ (run ops).elts := ((refines_run ops).mem x).mpr hx
  have hy' : y ∈ (run ops).elts := ((refines_run ops).mem y).mpr hy
  obtain ⟨s', b, hc, _, _, hb⟩ := connected_spec (inv_run ops) hx' hy'
  refine ⟨b, ?_, hb.trans ((refines_run ops).cls x y hx' hy')⟩
  have : run (ops ++ [.connected x y]) = s' := by
    unfold run
    rw [List.foldl_append]
    simp only [List.foldl_cons, List.foldl_nil, step]
    have hc' : connected (List.foldl step init ops) x y = some (s', b) := hc
    rw [hc']
  rw [this]; exact hc

theorem run_snoc (ops : List Op) (op : Op) : run (ops ++ [op]) = step (run ops) op := by
  unfold run
  rw [List.foldl_append]
  rfl

theorem ufInit_eq (n : Nat) : ufInit n = run ((List.range n).map Op.add) := by
  unfold ufInit run
  rw [List.foldl_map]
  rfl

theorem present_adds (l : List Nat) : present (l.map Op.add) = l := by
  induction l with
  | nil => rfl
  | cons x xs ih => simp [present, ih]

theorem unionPairs_adds (l : List Nat) : unionPairs (l.map Op.add) = [] := by
  induction l with
  | nil => rfl
  | cons x xs ih => simp [unionPairs, ih]

/-- tree-edge relation of an edge list stored with `keyify` -/
def Linked (T : List (Nat × Nat)) (a b : Nat) : Prop := keyify a b ∈ T

theorem keyify_comm (a b : Nat) : keyify a b = keyify b a := by
  unfold keyify
  by_cases h1 : a ≤ b <;> by_cases h2 : b ≤ a <;> simp [h1, h2]
  · constructor <;> omega
  · omega

theorem keyify_eq {a b c d : Nat} (h : keyify a b = keyify c d) : (a = c ∧ b = d) ∨ (a = d ∧ b = c) := by
  unfold keyify at h
  by_cases h1 : a ≤ b <;> by_cases h2 : c ≤ d <;> simp [h1, h2] at h <;> omega

/-- the closure of the selected pairs equals the closure of the stored (keyified) edges -/
theorem closure_pairs_iff (C : List (Nat × Nat)) (u v : Nat) :
    EqvClosure (fun a b => (a, b) ∈ C) u v ↔ EqvClosure (Linked (C.map (fun p => keyify p.1 p.2))) u v := by
  constructor
  · apply EqvClosure.mono
    intro a b h
    exact List.mem_map.mpr ⟨(a, b), h, rfl⟩
  · intro h
    induction h with
    | @rel a b hab =>
      obtain ⟨p, hp, he⟩ := List.mem_map.mp hab
      rcases keyify_eq he with ⟨h1, h2⟩ | ⟨h1, h2⟩
      · have : p = (a, b) := by ext <;> simp [h1, h2]
        rw [this] at hp
        exact EqvClosure.rel hp
      · have : p = (b, a) := by ext <;> simp [h1, h2]
        rw [this] at hp
        exact EqvClosure.symm (EqvClosure.rel hp)
    | refl a => exact EqvClosure.refl a
    | symm _ ih => exact EqvClosure.symm ih
    | trans _ _ ih1 ih2 => exact EqvClosure.trans ih1 ih2

/-- every selected pair joins two elements that the pairs selected before it do not join (so the selected
edges contain no cycle) -/
def Indep : List (Nat × Nat) → Prop
  | [] => True
  | p :: C => Indep C ∧ ¬ EqvClosure (fun a b => (a, b) ∈ C) p.1 p.2

/-- one iteration of the Kruskal loop -/
def kStep (acc : UF.State × List (Nat × Nat)) (e : Nat × Nat × Rat) : UF.State × List (Nat × Nat) :=
  match UF.connected acc.1 e.1 e.2.1 with
  | some (s1, true) => (s1, acc.2)
  | some (s1, false) => (UF.union s1 e.1 e.2.1, acc.2 ++ [keyify e.1 e.2.1])
  | none => acc

theorem kruskalLoop_eq (es : List (Nat × Nat × Rat)) (s : UF.State) : kruskalLoop es s = es.foldl kStep (s, []) := rfl

/-- loop invariant: the state is the union-find state of a history whose unions are the selected pairs
(`C`, most recent first) -/
structure KInv (n : Nat) (done : List (Nat × Nat × Rat)) (acc : UF.State × List (Nat × Nat)) : Prop where
  hist : ∃ ops C, acc.1 = run ops ∧ (∀ v, v < n → v ∈ present ops) ∧ unionPairs ops = C.reverse ∧
    acc.2 = C.reverse.map (fun p => keyify p.1 p.2) ∧ Indep C ∧
    (∀ p ∈ C, ∃ e ∈ done, p = (e.1, e.2.1)) ∧
    (∀ e ∈ done, EqvClosure (fun a b => (a, b) ∈ C) e.1 e.2.1)

theorem mem_reverse_rel (C : List (Nat × Nat)) (u v : Nat) :
    EqvClosure (fun a b => (a, b) ∈ C.reverse) u v ↔ EqvClosure (fun a b => (a, b) ∈ C) u v := by
  constructor <;> (apply EqvClosure.mono; intro a b h; simpa using h)

theorem kinv_step {n : Nat} {done : List (Nat × Nat × Rat)} {acc : UF.State × List (Nat × Nat)}
    (I : KInv n done acc) (e : Nat × Nat × Rat) (ha : e.1 < n) (hb : e.2.1 < n) :
    KInv n (done ++ [e]) (kStep acc e) := by
  obtain ⟨ops, C, h1, h2, h3, h4, h5, h6, h7⟩ := I.hist
  obtain ⟨b, hc, hb'⟩ := connected_run ops e.1 e.2.1 (h2 _ ha) (h2 _ hb)
  have hJ : ∀ u v, Joined ops u v ↔ EqvClosure (fun a b => (a, b) ∈ C) u v := by
    intro u v
    unfold Joined
    rw [h3]
    exact mem_reverse_rel C u v
  unfold kStep
  rw [h1, hc]
  cases b with
  | true =>
    simp only
    have hj : EqvClosure (fun a b => (a, b) ∈ C) e.1 e.2.1 := (hJ _ _).mp (hb'.mp rfl)
    refine ⟨ops ++ [.connected e.1 e.2.1], C, rfl, ?_, ?_, h4, h5, ?_, ?_⟩
    · intro v hv; rw [present_append]; exact List.mem_append_left _ (h2 v hv)
    · rw [unionPairs_append]; simp [unionPairs, h3]
    · intro p hp
      obtain ⟨e', he', hpe⟩ := h6 p hp
      exact ⟨e', List.mem_append_left _ he', hpe⟩
    · intro e' he'
      rcases List.mem_append.mp he' with h | h
      · exact h7 e' h
      · simp at h; subst h; exact hj
  | false =>
    simp only
    have hnj : ¬ EqvClosure (fun a b => (a, b) ∈ C) e.1 e.2.1 := by
      intro h
      have := hb'.mpr ((hJ _ _).mpr h)
      simp at this
    refine ⟨ops ++ [.connected e.1 e.2.1] ++ [.union e.1 e.2.1], (e.1, e.2.1) :: C, ?_, ?_, ?_, ?_, ⟨h5, hnj⟩, ?_, ?_⟩
    · simp only [run_snoc]; rfl
    · intro v hv
      rw [present_append, present_append]
      exact List.mem_append_left _ (List.mem_append_left _ (h2 v hv))
    · rw [unionPairs_append, unionPairs_append]; simp [unionPairs, h3]
    · rw [h4]; simp
    · intro p hp
      rcases List.mem_cons.mp hp with h | h
      · exact ⟨e, by simp, h⟩
      · obtain ⟨e', he', hpe⟩ := h6 p h
        exact ⟨e', List.mem_append_left _ he', hpe⟩
    · intro e' he'
      rcases List.mem_append.mp he' with h | h
      · exact EqvClosure.mono (fun a b hab => List.mem_cons_of_mem _ hab) (h7 e' h)
      · simp at h; subst h
        exact EqvClosure.rel (by simp)

theorem kinv_fold {n : Nat} : ∀ (es done : List (Nat × Nat × Rat)) (acc : UF.State × List (Nat × Nat)),
    (∀ e ∈ es, e.1 < n ∧ e.2.1 < n) → KInv n done acc → KInv n (done ++ es) (es.foldl kStep acc)
  | [], done, acc, _, I => by simpa using I
  | e :: es, done, acc, hlt, I => by
    have := kinv_fold es (done ++ [e]) (kStep acc e) (fun x hx => hlt x (List.mem_cons_of_mem _ hx))
      (kinv_step I e (hlt e (by simp)).1 (hlt e (by simp)).2)
    simpa using this

theorem kinv_init (n : Nat) : KInv n [] (ufInit n, []) := by
  refine ⟨(List.range n).map Op.add, [], ufInit_eq n, ?_, ?_, rfl, trivial, by simp, by simp⟩
  · intro v hv; rw [present_adds]; exact List.mem_range.mpr hv
  · rw [unionPairs_adds]; rfl

/-- acyclicity in terms of the stored edge list: every stored edge joins two elements that are not linked by
the edges stored before it -/
def Forest : List (Nat × Nat) → Prop
  | [] => True
  | t :: T => ¬ EqvClosure (Linked T) t.1 t.2 ∧ Forest T

theorem keyify_fst_snd (a b : Nat) :
    ((keyify a b).1 = a ∧ (keyify a b).2 = b) ∨ ((keyify a b).1 = b ∧ (keyify a b).2 = a) := by
  unfold keyify
  by_cases h : a ≤ b <;> simp [h]

theorem forest_of_indep : ∀ C : List (Nat × Nat), Indep C → Forest (C.map (fun p => keyify p.1 p.2))
  | [], _ => trivial
  | p :: C, ⟨h1, h2⟩ => by
    refine ⟨?_, forest_of_indep C h1⟩
    intro h
    apply h2
    rw [closure_pairs_iff]
    rcases keyify_fst_snd p.1 p.2 with ⟨e1, e2⟩ | ⟨e1, e2⟩
    · simp only at h ⊢
      rw [e1, e2] at h; exact h
    · simp only at h ⊢
      rw [e1, e2] at h; exact EqvClosure.symm h

end Mouette.Trees
