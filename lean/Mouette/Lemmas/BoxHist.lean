import Mathlib.Tactic.Linarith
import Mouette.Model.BoxHist
/-
Frame lemmas for the heap model: with the repaired (copying) constructor every box owns two fresh arrays beyond
the caller's arrays and beyond every earlier box; no operation touches the caller's prefix of the heap; `pad`
touches only the two arrays of its own box; `normalized` (repaired) leaves the error state unchanged.
-/
namespace Mouette.BoxHist
open Mouette.AABB

/-- ownership invariant: the first `n` arrays are the caller's; boxes own pairs of later arrays, allocated in order -/
structure Owned (n : Nat) (s : State) : Prop where
  len : n ≤ s.heap.length
  refs : ∀ b ∈ s.boxes, n ≤ b.lo ∧ b.lo < b.hi ∧ b.hi < s.heap.length
  ordered : s.boxes.Pairwise (fun a b => a.hi < b.lo)

theorem owned_init (arrs : List (List Rat)) : Owned arrs.length (init arrs) :=
  ⟨by simp [init], by simp [init], by simp [init]⟩

theorem allocBox_owned {n : Nat} {s : State} (h : Owned n s) (bx : Box) : Owned n (s.allocBox bx) := by
  refine ⟨?_, ?_, ?_⟩
  · simp only [State.allocBox, List.length_append]; have := h.len; omega
  · intro b hb
    simp only [State.allocBox, List.mem_append, List.mem_singleton] at hb
    simp only [State.allocBox, List.length_append, List.length_cons, List.length_nil]
    rcases hb with hb | rfl
    · have := h.refs b hb; omega
    · have := h.len; simp only; omega
  · simp only [State.allocBox]
    rw [List.pairwise_append]
    refine ⟨h.ordered, by simp, ?_⟩
    intro a ha b hb
    simp only [List.mem_singleton] at hb
    subst hb
    exact (h.refs a ha).2.2

theorem allocBox_caller {n : Nat} {s : State} (h : Owned n s) (bx : Box) :
    (s.allocBox bx).heap.take n = s.heap.take n := by
  simp only [State.allocBox]
  exact List.take_append_of_le_length h.len

theorem padAt_heap {s s' : State} {b : BoxRef} {p : List Rat} (hp : padAt s b p = some s') :
    ∃ x y, s'.heap = (s.heap.set b.lo x).set b.hi y ∧ s'.boxes = s.boxes ∧ s'.err = s.err := by
  unfold padAt at hp
  split at hp
  · simp only [Option.some.injEq] at hp
    subst hp
    exact ⟨_, _, rfl, rfl, rfl⟩
  · cases hp

theorem padAt_owned {n : Nat} {s s' : State} {b : BoxRef} {p : List Rat} (h : Owned n s)
    (hp : padAt s b p = some s') : Owned n s' := by
  obtain ⟨x, y, hh, hb, _⟩ := padAt_heap hp
  refine ⟨?_, ?_, ?_⟩
  · rw [hh]; simp only [List.length_set]; exact h.len
  · intro b' hb'
    rw [hb] at hb'
    rw [hh]; simp only [List.length_set]; exact h.refs b' hb'
  · rw [hb]; exact h.ordered

theorem padAt_caller {n : Nat} {s s' : State} {b : BoxRef} {p : List Rat} (hlo : n ≤ b.lo) (hhi : n ≤ b.hi)
    (hp : padAt s b p = some s') : s'.heap.take n = s.heap.take n := by
  obtain ⟨x, y, hh, _, _⟩ := padAt_heap hp
  rw [hh, List.take_set_of_le hhi, List.take_set_of_le hlo]

/-- `pad` changes no array other than the two of its own box -/
theorem padAt_other {s s' : State} {b : BoxRef} {p : List Rat} (hp : padAt s b p = some s') (r : Nat)
    (h1 : r ≠ b.lo) (h2 : r ≠ b.hi) : s'.get r = s.get r := by
  obtain ⟨x, y, hh, _, _⟩ := padAt_heap hp
  simp only [State.get, hh, List.getD_eq_getElem?_getD]
  rw [List.getElem?_set_ne (Ne.symm h2), List.getElem?_set_ne (Ne.symm h1)]

theorem pairwise_mem_cases {α} {R : α → α → Prop} : ∀ {l : List α} {a b : α}, l.Pairwise R → a ∈ l → b ∈ l →
    a = b ∨ R a b ∨ R b a
  | [], _, _, _, ha, _ => by simp at ha
  | x :: xs, a, b, hp, ha, hb => by
    rw [List.pairwise_cons] at hp
    rcases List.mem_cons.mp ha with ha' | ha' <;> rcases List.mem_cons.mp hb with hb' | hb'
    · exact Or.inl (ha'.trans hb'.symm)
    · subst ha'; exact Or.inr (Or.inl (hp.1 b hb'))
    · subst hb'; exact Or.inr (Or.inr (hp.1 a ha'))
    · exact pairwise_mem_cases hp.2 ha' hb'

/-- two different boxes of an owned state share no array -/
theorem owned_disjoint {n : Nat} {s : State} (h : Owned n s) {a b : BoxRef} (ha : a ∈ s.boxes) (hb : b ∈ s.boxes)
    (hne : a ≠ b) : a.lo ≠ b.lo ∧ a.lo ≠ b.hi ∧ a.hi ≠ b.lo ∧ a.hi ≠ b.hi := by
  have ra := h.refs a ha
  have rb := h.refs b hb
  rcases pairwise_mem_cases h.ordered ha hb with e | e | e
  · exact absurd e hne
  · refine ⟨?_, ?_, ?_, ?_⟩ <;> omega
  · refine ⟨?_, ?_, ?_, ?_⟩ <;> omega

theorem boxArg_mem {s : State} {b : Nat} {r : BoxRef} (h : s.boxArg b = some r) : r ∈ s.boxes := by
  unfold State.boxArg at h
  split at h
  · cases h
  · exact List.mem_of_getElem? h

theorem mkCopy_eq {s s' : State} {i j : Nat} (h : mkCopy s i j = some s') : s' = s.allocBox ⟨s.get i, s.get j⟩ := by
  unfold mkCopy at h
  split at h
  · simpa using h.symm
  · cases h

/-- what one step of the REPAIRED code preserves -/
structure Frame (n : Nat) (s s' : State) : Prop where
  owned : Owned n s'
  caller : s'.heap.take n = s.heap.take n
  err : s'.err = s.err

theorem frame_refl {n : Nat} {s : State} (h : Owned n s) : Frame n s s := ⟨h, rfl, rfl⟩

theorem frame_alloc {n : Nat} {s : State} (h : Owned n s) (bx : Box) : Frame n s (s.allocBox bx) :=
  ⟨allocBox_owned h bx, allocBox_caller h bx, rfl⟩

theorem frame_pad {n : Nat} {s s' : State} {b : Nat} {rb : BoxRef} {p : List Rat} (h : Owned n s)
    (hb : s.boxArg b = some rb) (hp : padAt s rb p = some s') : Frame n s s' := by
  have r := h.refs rb (boxArg_mem hb)
  exact ⟨padAt_owned h hp, padAt_caller r.1 (by omega) hp, (padAt_heap hp).choose_spec.choose_spec.2.2⟩

theorem step_frame {n : Nat} {s : State} (h : Owned n s) (op : Op) : Frame n s (step s op).1 := by
  cases op <;> simp only [step, stepWith]
  case mk i j =>
    split
    · rename_i s' hs'; rw [mkCopy_eq hs']; exact frame_alloc h _
    · exact frame_refl h
  case inf d => exact frame_alloc h _
  case cube d c => exact frame_alloc h _
  case ofp is pad => split <;> [exact frame_alloc h _; exact frame_refl h]
  case inter a b =>
    split
    · split <;> [exact frame_alloc h _; exact frame_refl h]
    · exact frame_refl h
  case union a b =>
    split
    · split <;> [exact frame_alloc h _; exact frame_refl h]
    · exact frame_refl h
  case doint a b =>
    split
    · split <;> exact frame_refl h
    · exact frame_refl h
  case padf b x =>
    split
    · rename_i rb hb
      split
      · rename_i s' hp; exact frame_pad h hb hp
      · exact frame_refl h
    · exact frame_refl h
  case padv b i =>
    split
    · rename_i rb hb
      split
      · rename_i s' hp; exact frame_pad h hb hp
      · exact frame_refl h
    · exact frame_refl h
  case contains b i =>
    split
    · split <;> exact frame_refl h
    · exact frame_refl h
  case project b i =>
    split
    · split <;> exact frame_refl h
    · exact frame_refl h
  case dist b i w =>
    split
    · split <;> exact frame_refl h
    · exact frame_refl h
  case empty b => split <;> exact frame_refl h
  case center b =>
    split
    · split <;> exact frame_refl h
    · exact frame_refl h
  case span b =>
    split
    · split <;> exact frame_refl h
    · exact frame_refl h
  case get b => split <;> exact frame_refl h
  case nrm i =>
    refine ⟨⟨h.len, h.refs, h.ordered⟩, rfl, ?_⟩
    simp only [normalizedRepaired]
    split <;> rfl

end Mouette.BoxHist
