import Mathlib.Data.List.Nodup
import Mouette.Lemmas.SubdivVolume
import Mouette.Lemmas.SubdivArea2
/-
C13 (round 2): `split_tet_from_face_center` preserves the total signed volume of the mesh (mesh level: induction over
the loop on the cells adjacent to the face).
-/
namespace Mouette.Subdiv

/-- six times the signed volume of a cell under a position function -/
def volP (P : Nat → Pt) : List Nat → Rat
  | [p, q, r, s] => vol6 (P p) (P q) (P r) (P s)
  | _ => 0

theorem cellVol6_eq_volP (vs : List Pt) (c : List Nat) : cellVol6 vs c = volP (vpos vs) c := by
  rcases c with _ | ⟨x0, _ | ⟨x1, _ | ⟨x2, _ | ⟨x3, _ | ⟨x4, t⟩⟩⟩⟩⟩ <;> rfl

theorem oppIndex_cases (f : List Nat) (x0 x1 x2 x3 : Nat) :
    oppIndex f [x0, x1, x2, x3] =
      if x0 ∉ f then some 0 else if x1 ∉ f then some 1 else if x2 ∉ f then some 2 else if x3 ∉ f then some 3 else none := by
  have hr : List.range 4 = [0, 1, 2, 3] := by decide
  simp only [oppIndex, List.length_cons, List.length_nil, Nat.reduceAdd, hr]
  simp only [List.find?_cons, List.getElem?_cons_zero, List.getElem?_cons_succ, List.find?_nil]
  by_cases h0 : x0 ∈ f <;> by_cases h1 : x1 ∈ f <;> by_cases h2 : x2 ∈ f <;> by_cases h3 : x3 ∈ f <;> simp [h0, h1, h2, h3]

theorem centreCells_cases (x0 x1 x2 x3 ic : Nat) :
    centreCells [x0, x1, x2, x3] 0 ic = [[x0, ic, x2, x3], [x0, x1, ic, x3], [x0, x1, x2, ic]] ∧
    centreCells [x0, x1, x2, x3] 1 ic = [[ic, x1, x2, x3], [x0, x1, ic, x3], [x0, x1, x2, ic]] ∧
    centreCells [x0, x1, x2, x3] 2 ic = [[ic, x1, x2, x3], [x0, ic, x2, x3], [x0, x1, x2, ic]] ∧
    centreCells [x0, x1, x2, x3] 3 ic = [[ic, x1, x2, x3], [x0, ic, x2, x3], [x0, x1, ic, x3]] := by
  have hr : List.range 4 = [0, 1, 2, 3] := by decide
  refine ⟨?_, ?_, ?_, ?_⟩ <;> simp [centreCells, hr, List.filter]

/-- the centre of three points does not depend on their order -/
theorem centre3_of_perm (P : Nat → Pt) (a b c y0 y1 y2 : Nat) (hab : a ≠ b) (hbc : b ≠ c) (hca : c ≠ a)
    (ha : a = y0 ∨ a = y1 ∨ a = y2) (hb : b = y0 ∨ b = y1 ∨ b = y2) (hc : c = y0 ∨ c = y1 ∨ c = y2) :
    centre3 (P a) (P b) (P c) = centre3 (P y0) (P y1) (P y2) := by
  rcases ha with rfl | rfl | rfl <;> rcases hb with rfl | rfl | rfl <;> rcases hc with rfl | rfl | rfl <;>
    first
    | rfl
    | (exfalso; omega)
    | (simp only [centre3, sumPts, List.foldr, Pt.add, Pt.zero, Pt.divn, Prod.mk.injEq]
       refine ⟨?_, ?_, ?_⟩ <;> ring)

/-- one adjacent cell: the three cells written by the code add up to the cell they replace -/
theorem split_cell_vol (P : Nat → Pt) (a b c ic x0 x1 x2 x3 iF : Nat) (c0 c1 c2 : List Nat)
    (hG : P ic = centre3 (P a) (P b) (P c)) (hn : [a, b, c].Nodup)
    (hsub : isSubset [a, b, c] [x0, x1, x2, x3] = true)
    (hopp : oppIndex [a, b, c] [x0, x1, x2, x3] = some iF)
    (hcc : centreCells [x0, x1, x2, x3] iF ic = [c0, c1, c2]) :
    volP P c0 + volP P c1 + volP P c2 = volP P [x0, x1, x2, x3] := by
  obtain ⟨hab, hbc, hca⟩ : a ≠ b ∧ b ≠ c ∧ c ≠ a := by
    simp only [List.nodup_cons, List.mem_cons, List.not_mem_nil, or_false, not_or, List.nodup_nil, and_true,
      not_false_eq_true] at hn
    exact ⟨hn.1.1, hn.2, fun e => hn.1.2 e.symm⟩
  simp only [isSubset, List.all_cons, List.all_nil, Bool.and_true, Bool.and_eq_true, List.elem_eq_mem,
    decide_eq_true_eq, List.mem_cons, List.not_mem_nil, or_false] at hsub
  obtain ⟨ma, mb, mc⟩ := hsub
  obtain ⟨cc0, cc1, cc2, cc3⟩ := centreCells_cases x0 x1 x2 x3 ic
  rw [oppIndex_cases] at hopp
  simp only [List.mem_cons, List.not_mem_nil, or_false, not_or] at hopp
  split_ifs at hopp with h0 h1 h2 h3
  · -- the opposite vertex is x0
    simp only [Option.some.injEq] at hopp; subst hopp
    rw [cc0] at hcc
    simp only [List.cons.injEq, and_true] at hcc
    obtain ⟨rfl, rfl, rfl⟩ := hcc
    have hGc := centre3_of_perm P a b c x1 x2 x3 hab hbc hca
      (by rcases ma with h | h | h | h; exact absurd h.symm h0.1; exact Or.inl h; exact Or.inr (Or.inl h); exact Or.inr (Or.inr h))
      (by rcases mb with h | h | h | h; exact absurd h.symm h0.2.1; exact Or.inl h; exact Or.inr (Or.inl h); exact Or.inr (Or.inr h))
      (by rcases mc with h | h | h | h; exact absurd h.symm h0.2.2; exact Or.inl h; exact Or.inr (Or.inl h); exact Or.inr (Or.inr h))
    obtain ⟨q1, q2, q3⟩ := vol_face_centre_opp0 (P x0) (P x1) (P x2) (P x3)
    simp only [volP, hG, hGc]
    linarith
  · simp only [Option.some.injEq] at hopp; subst hopp
    rw [cc1] at hcc
    simp only [List.cons.injEq, and_true] at hcc
    obtain ⟨rfl, rfl, rfl⟩ := hcc
    have hGc := centre3_of_perm P a b c x0 x2 x3 hab hbc hca
      (by rcases ma with h | h | h | h; exact Or.inl h; exact absurd h.symm h1.1; exact Or.inr (Or.inl h); exact Or.inr (Or.inr h))
      (by rcases mb with h | h | h | h; exact Or.inl h; exact absurd h.symm h1.2.1; exact Or.inr (Or.inl h); exact Or.inr (Or.inr h))
      (by rcases mc with h | h | h | h; exact Or.inl h; exact absurd h.symm h1.2.2; exact Or.inr (Or.inl h); exact Or.inr (Or.inr h))
    obtain ⟨q1, q2, q3⟩ := vol_face_centre_opp1 (P x0) (P x1) (P x2) (P x3)
    simp only [volP, hG, hGc]
    linarith
  · simp only [Option.some.injEq] at hopp; subst hopp
    rw [cc2] at hcc
    simp only [List.cons.injEq, and_true] at hcc
    obtain ⟨rfl, rfl, rfl⟩ := hcc
    have hGc := centre3_of_perm P a b c x0 x1 x3 hab hbc hca
      (by rcases ma with h | h | h | h; exact Or.inl h; exact Or.inr (Or.inl h); exact absurd h.symm h2.1; exact Or.inr (Or.inr h))
      (by rcases mb with h | h | h | h; exact Or.inl h; exact Or.inr (Or.inl h); exact absurd h.symm h2.2.1; exact Or.inr (Or.inr h))
      (by rcases mc with h | h | h | h; exact Or.inl h; exact Or.inr (Or.inl h); exact absurd h.symm h2.2.2; exact Or.inr (Or.inr h))
    obtain ⟨q1, q2, q3⟩ := vol_face_centre_opp2 (P x0) (P x1) (P x2) (P x3)
    simp only [volP, hG, hGc]
    linarith
  · simp only [Option.some.injEq] at hopp; subst hopp
    rw [cc3] at hcc
    simp only [List.cons.injEq, and_true] at hcc
    obtain ⟨rfl, rfl, rfl⟩ := hcc
    have hGc := centre3_of_perm P a b c x0 x1 x2 hab hbc hca
      (by rcases ma with h | h | h | h; exact Or.inl h; exact Or.inr (Or.inl h); exact Or.inr (Or.inr h); exact absurd h.symm h3.1)
      (by rcases mb with h | h | h | h; exact Or.inl h; exact Or.inr (Or.inl h); exact Or.inr (Or.inr h); exact absurd h.symm h3.2.1)
      (by rcases mc with h | h | h | h; exact Or.inl h; exact Or.inr (Or.inl h); exact Or.inr (Or.inr h); exact absurd h.symm h3.2.2)
    obtain ⟨q1, q2, q3⟩ := vol_face_centre_opp3 (P x0) (P x1) (P x2) (P x3)
    simp only [volP, hG, hGc]
    linarith

theorem splitOneCell_spec (ic : Nat) (f : List Nat) (cells cells' : List (List Nat)) (k : Nat) (cell : List Nat)
    (hk : cells[k]? = some cell) (h4 : cell.length = 4) (h : splitOneCell ic f cells k = .ok cells') :
    ∃ iF c0 c1 c2, oppIndex f cell = some iF ∧ centreCells cell iF ic = [c0, c1, c2] ∧ cells' = cells.set k c0 ++ [c1, c2] := by
  unfold splitOneCell at h
  simp only [hk, h4, ne_eq, not_true_eq_false, if_false] at h
  cases ho : oppIndex f cell with
  | none => simp [ho] at h
  | some iF =>
    simp only [ho] at h
    cases hcc : centreCells cell iF ic with
    | nil => simp [hcc] at h
    | cons c0 t0 =>
      rcases t0 with _ | ⟨c1, _ | ⟨c2, _ | ⟨c3, t3⟩⟩⟩
      all_goals simp only [hcc] at h
      all_goals try (simp [throw, throwThe, MonadExceptOf.throw] at h)
      simp only [pure, Except.pure, Except.ok.injEq] at h
      exact ⟨iF, c0, c1, c2, rfl, hcc, h.symm⟩

theorem foldE_split_volume (P : Nat → Pt) (a b c ic : Nat) (hG : P ic = centre3 (P a) (P b) (P c)) (hn : [a, b, c].Nodup) :
    ∀ (adj : List Nat) (cs cs' : List (List Nat)), adj.Nodup →
      (∀ k ∈ adj, ∃ cell, cs[k]? = some cell ∧ isSubset [a, b, c] cell = true ∧ cell.length = 4) →
      foldE (splitOneCell ic [a, b, c]) cs adj = .ok cs' → (cs'.map (volP P)).sum = (cs.map (volP P)).sum
  | [], cs, cs', _, _, h => by simp only [foldE, Except.ok.injEq] at h; subst h; rfl
  | k :: rest, cs, cs', hnd, hadj, h => by
    simp only [foldE] at h
    cases h1 : splitOneCell ic [a, b, c] cs k with
    | error e => simp [h1] at h
    | ok cs1 =>
      simp only [h1] at h
      obtain ⟨cell, hk, hsub, h4⟩ := hadj k (by simp)
      obtain ⟨iF, c0, c1, c2, hopp, hcc, hcs1⟩ := splitOneCell_spec ic _ cs cs1 k cell hk h4 h1
      have hkl : k < cs.length := by
        by_contra hc; rw [List.getElem?_eq_none (by omega)] at hk; cases hk
      have hget : cs[k] = cell := by
        have := List.getElem?_eq_getElem hkl; rw [this] at hk; exact Option.some.inj hk
      have hnd' : rest.Nodup := (List.nodup_cons.mp hnd).2
      have hnk : k ∉ rest := (List.nodup_cons.mp hnd).1
      have hadj' : ∀ j ∈ rest, ∃ cell, cs1[j]? = some cell ∧ isSubset [a, b, c] cell = true ∧ cell.length = 4 := by
        intro j hj
        obtain ⟨cj, hcj, hs, hl⟩ := hadj j (by simp [hj])
        have hjl : j < cs.length := by
          by_contra hc; rw [List.getElem?_eq_none (by omega)] at hcj; cases hcj
        have hne : j ≠ k := fun e => hnk (e ▸ hj)
        exact ⟨cj, by rw [hcs1, set_append_get_other _ _ _ _ _ hne hjl]; exact hcj, hs, hl⟩
      have ih := foldE_split_volume P a b c ic hG hn rest cs1 cs' hnd' hadj' h
      rw [ih, hcs1, List.map_append, List.sum_append]
      have hs := sum_set_rat (volP P) cs k hkl c0
      rw [hget] at hs
      rcases cell with _ | ⟨x0, _ | ⟨x1, _ | ⟨x2, _ | ⟨x3, _ | ⟨x4, t⟩⟩⟩⟩⟩ <;> simp at h4
      have hv := split_cell_vol P a b c ic x0 x1 x2 x3 iF c0 c1 c2 hG hn hsub hopp hcc
      simp only [List.map_cons, List.map_nil, List.sum_cons, List.sum_nil, add_zero]
      linarith

theorem mem_adjacentCells (m : Raw) (f : List Nat) (k : Nat) (h : k ∈ adjacentCells m f) :
    ∃ cell, m.cells[k]? = some cell ∧ isSubset f cell = true := by
  simp only [adjacentCells, List.mem_filter, List.mem_range] at h
  obtain ⟨hk, hp⟩ := h
  rw [List.getElem?_eq_getElem hk] at hp
  exact ⟨m.cells[k], List.getElem?_eq_getElem hk, hp⟩

theorem adjacentCells_nodup (m : Raw) (f : List Nat) : (adjacentCells m f).Nodup :=
  List.Nodup.filter _ List.nodup_range

/-- **`split_tet_from_face_center` preserves the total signed volume of the mesh** -/
theorem faceSplit_volume (m m' : Raw) (fid a b c : Nat) (hwf : WFC m) (hall : ∀ x ∈ m.cells, x.length = 4)
    (hn : [a, b, c].Nodup) (hf : m.faces[fid]? = some [a, b, c]) (h : splitTetFromFaceCenter m fid = .ok m') :
    totalVol6 m' = totalVol6 m := by
  obtain ⟨ps, cells, hp, hfold, hv, hce, _, _⟩ := faceSplit_spec m m' fid a b c hf h
  have hps := pts3 m a b c ps hp
  -- the face's vertices exist
  have hbound : a < m.verts.length ∧ b < m.verts.length ∧ c < m.verts.length := by
    simp only [pts, mapE] at hp
    cases ha : getPt m a with
    | error e => simp [ha] at hp
    | ok pa =>
      cases hb : getPt m b with
      | error e => simp [ha, hb] at hp
      | ok pb =>
        cases hc : getPt m c with
        | error e => simp [ha, hb, hc] at hp
        | ok pc => exact ⟨(getPt_vpos m a pa ha).2, (getPt_vpos m b pb hb).2, (getPt_vpos m c pc hc).2⟩
  set G := (sumPts ps).divn 3 with hGdef
  set P := vpos (m.verts ++ [G]) with hP
  have hPG : P m.verts.length = centre3 (P a) (P b) (P c) := by
    have e1 : P m.verts.length = G := by simp [hP, vpos]
    rw [e1, hP, vpos_append_left _ _ _ hbound.1, vpos_append_left _ _ _ hbound.2.1, vpos_append_left _ _ _ hbound.2.2,
      hGdef, hps]
    rfl
  have hadj : ∀ k ∈ adjacentCells m [a, b, c], ∃ cell, m.cells[k]? = some cell ∧ isSubset [a, b, c] cell = true ∧ cell.length = 4 := by
    intro k hk
    obtain ⟨cell, h1, h2⟩ := mem_adjacentCells m _ k hk
    exact ⟨cell, h1, h2, hall cell (List.mem_of_getElem? h1)⟩
  have key := foldE_split_volume P a b c m.verts.length hPG hn _ m.cells cells (adjacentCells_nodup m _) hadj hfold
  unfold totalVol6
  rw [hce, hv]
  have e1 : cells.map (cellVol6 (m.verts ++ [G])) = cells.map (volP P) :=
    List.map_congr_left (fun c _ => cellVol6_eq_volP _ c)
  have e2 : m.cells.map (cellVol6 m.verts) = m.cells.map (volP P) :=
    List.map_congr_left (fun c hc => by rw [← cellVol6_eq_volP, cellVol6_append _ _ _ (hwf c hc)])
  rw [e1, e2, key]

end Mouette.Subdiv
