import Mouette.Model.FloatOps
import Mouette.Lemmas.AnglesR
import Mathlib.Analysis.SpecialFunctions.Trigonometric.Basic
/-
What is ASSUMED about the float operations, as ONE definition each:

* `FloatOps.Exact F` (over ℝ): `math.pi` is π; `x % m` for a positive modulus is `pmod x m = x − m⌊x/m⌋` (Python's sign convention);
  `math.cos`, `math.sin` are the real functions.  Arithmetic `+ − * /` and comparisons are exact (they are the field operations of ℝ);
  rounding is not modelled.  `cmath.polar(c) = (|c|, arg c)`, `cmath.rect(1, θ) = exp(iθ)` and `atan2` are the Mathlib functions the
  specifications of `Lemmas/AnglesR.lean` are written with.
* `FloatOps.TrigLaws F` (any commutative ring): the only facts about `cos` / `sin` the rotation theorems use - the unit circle and
  the two addition formulas.  `Exact` implies `TrigLaws` (`exact_trigLaws`).
-/
namespace Mouette
open Real Mouette.Angles

structure FloatOps.Exact (F : FloatOps ℝ) : Prop where
  pi_eq : F.pi = π
  fmod_eq : ∀ x m : ℝ, 0 < m → F.fmod x m = pmod x m
  cos_eq : ∀ x, F.cos x = Real.cos x
  sin_eq : ∀ x, F.sin x = Real.sin x

structure FloatOps.TrigLaws {α : Type} [CommRing α] (F : FloatOps α) : Prop where
  unit : ∀ a, F.cos a * F.cos a + F.sin a * F.sin a = 1
  cos_add : ∀ a b, F.cos (a + b) = F.cos a * F.cos b - F.sin a * F.sin b
  sin_add : ∀ a b, F.sin (a + b) = F.sin a * F.cos b + F.cos a * F.sin b

/-- the float operations read exactly: the instance every `Exact` hypothesis is satisfied by -/
noncomputable def realOps : FloatOps ℝ := ⟨π, pmod, Real.cos, Real.sin⟩

theorem realOps_exact : realOps.Exact := ⟨rfl, fun _ _ _ => rfl, fun _ => rfl, fun _ => rfl⟩

theorem exact_trigLaws {F : FloatOps ℝ} (h : F.Exact) : F.TrigLaws := by
  refine ⟨fun a => ?_, fun a b => ?_, fun a b => ?_⟩
  · rw [h.cos_eq, h.sin_eq]; nlinarith [Real.cos_sq_add_sin_sq a]
  · simp only [h.cos_eq, h.sin_eq]; exact Real.cos_add a b
  · simp only [h.cos_eq, h.sin_eq]; exact Real.sin_add a b

end Mouette
