import Mouette.Lemmas.CuttingThm
import Mathlib.Data.List.Forall2
/-!
From the flat (per corner) statements to the nested "face by face, corner by corner" form (core Lean only).
-/
namespace Mouette.Cutting

theorem getD_append_l (a b : List Nat) (i : Nat) (h : i < a.length) : (a ++ b).getD i 0 = a.getD i 0 := by
  rw [List.getD_eq_getElem?_getD, List.getD_eq_getElem?_getD, List.getElem?_append_left h]

theorem getD_append_r (a b : List Nat) (i : Nat) (h : a.length ≤ i) : (a ++ b).getD i 0 = b.getD (i - a.length) 0 := by
  rw [List.getD_eq_getElem?_getD, List.getD_eq_getElem?_getD, List.getElem?_append_right h]

theorem forall2_of_getD {R : Nat → Nat → Prop} : ∀ (a b : List Nat), a.length = b.length →
    (∀ i, i < b.length → R (a.getD i 0) (b.getD i 0)) → List.Forall₂ R a b
  | [], [], _, _ => .nil
  | x :: a, y :: b, hl, h =>
    .cons (h 0 (by simp)) (forall2_of_getD a b (by simpa using hl) (fun i hi => by
      have := h (i + 1) (by simp; omega)
      simpa using this))
  | [], _ :: _, hl, _ => by simp at hl
  | _ :: _, [], hl, _ => by simp at hl

theorem forall2_nested_of_flat {R : Nat → Nat → Prop} : ∀ (A B : List (List Nat)),
    A.map List.length = B.map List.length →
    (∀ c, c < B.flatten.length → R (A.flatten.getD c 0) (B.flatten.getD c 0)) →
    List.Forall₂ (List.Forall₂ R) A B
  | [], [], _, _ => .nil
  | a :: A, b :: B, hs, h => by
    simp only [List.map_cons, List.cons.injEq] at hs
    obtain ⟨hl, hs'⟩ := hs
    refine .cons (forall2_of_getD a b hl ?_) (forall2_nested_of_flat A B hs' ?_)
    · intro i hi
      have := h i (by rw [List.flatten_cons, List.length_append]; omega)
      rw [List.flatten_cons, List.flatten_cons, getD_append_l _ _ _ (by omega),
        getD_append_l _ _ _ hi] at this
      exact this
    · intro c hc
      have := h (b.length + c) (by rw [List.flatten_cons, List.length_append]; omega)
      rw [List.flatten_cons, List.flatten_cons, getD_append_r _ _ _ (by omega),
        getD_append_r _ _ _ (by omega)] at this
      have e1 : b.length + c - a.length = c := by omega
      have e2 : b.length + c - b.length = c := by omega
      rw [e1, e2] at this
      exact this
  | [], _ :: _, hs, _ => by simp at hs
  | _ :: _, [], hs, _ => by simp at hs

end Mouette.Cutting
