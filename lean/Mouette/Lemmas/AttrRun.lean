import Mouette.Lemmas.AttrSim
/-
Run-level consequences of the step simulation: refinement of whole scripts, reachability of the invariants,
determinacy of update-free scripts.
-/
namespace Mouette.Attr
set_option linter.unusedSimpArgs false
set_option linter.unusedVariables false

theorem specStep_size (t : Spec) (op : Op) : (specStep t op).1.size = sizeAfter t.size op := by
  cases op with
  | create ty k d =>
    cases d with
    | none => rfl
    | some x => simp only [specStep, sizeAfter]; split <;> rfl
  | delete => rfl
  | cclear => rfl
  | append => rfl
  | extendList n => rfl
  | extendCont m => rfl
  | extendSelf => rfl
  | set i v =>
    simp only [specStep, sizeAfter]
    cases t.attr with
    | none => rfl
    | some a =>
      simp only
      split
      · cases checkVal a.ty a.k v <;> rfl
      · rfl
  | get i =>
    simp only [specStep, sizeAfter]
    cases t.attr with
    | none => rfl
    | some a => simp only; split <;> rfl
  | upd i c x =>
    simp only [specStep, sizeAfter]
    cases t.attr with
    | none => rfl
    | some a => simp only; split <;> (try split) <;> (try split) <;> rfl
  | clear =>
    simp only [specStep, sizeAfter]
    cases t.attr <;> rfl
  | asArray =>
    simp only [specStep, sizeAfter]
    cases t.attr <;> rfl

theorem runObs_cons (dense : Bool) (s : State) (op : Op) (ops : List Op) :
    runObs dense s (op :: ops) = (step dense s op).2 :: runObs dense (step dense s op).1 ops := by
  simp [runObs, run]

theorem specRun_cons (t : Spec) (op : Op) (ops : List Op) :
    specRun t (op :: ops) = (specStep t op).2 :: specRun (specStep t op).1 ops := by
  simp [specRun]

/-- all three invariants together -/
structure Good (dense : Bool) (s : State) (t : Spec) : Prop where
  inv : Inv s
  mode : ModeOk dense s
  rel : R s t

theorem good_init (dense : Bool) (n0 : Nat) : Good dense (init n0) (specInit n0) :=
  ⟨inv_init n0, (fun a h => by cases h), R_init n0⟩

theorem good_step {dense : Bool} {s : State} {t : Spec} (op : Op) (hg : Good dense s t)
    (hidx : dense = false → opInRange s.size op = true) :
    Good dense (step dense s op).1 (specStep t op).1 ∧ Matches (specStep t op).2 (step dense s op).2 ∧
    (step dense s op).1.size = sizeAfter s.size op := by
  obtain ⟨h1, h2⟩ := sim_step dense s t op hg.inv hg.mode hg.rel hidx
  refine ⟨⟨inv_step dense s op hg.inv, modeOk_step dense s op hg.inv hg.mode, h1⟩, h2, ?_⟩
  rw [h1.1, specStep_size, hg.rel.1]

theorem refines_aux (dense : Bool) : ∀ (ops : List Op) (s : State) (t : Spec), Good dense s t →
    (dense = false → wellIndexed s.size ops = true) →
    Forall2 Matches (specRun t ops) (runObs dense s ops) := by
  intro ops
  induction ops with
  | nil => intro s t _ _; exact Forall2.nil
  | cons op ops ih =>
    intro s t hg hw
    have hidx : dense = false → opInRange s.size op = true := by
      intro hd; have := hw hd; simp only [wellIndexed, Bool.and_eq_true] at this; exact this.1
    obtain ⟨hg', hmatch, hsize⟩ := good_step op hg hidx
    rw [runObs_cons, specRun_cons]
    refine Forall2.cons hmatch (ih _ _ hg' ?_)
    intro hd; have := hw hd; simp only [wellIndexed, Bool.and_eq_true] at this
    rw [hsize]; exact this.2

def specFinal : Spec → List Op → Spec
  | t, [] => t
  | t, op :: ops => specFinal (specStep t op).1 ops

theorem good_final (dense : Bool) : ∀ (ops : List Op) (s : State) (t : Spec), Good dense s t →
    (dense = false → wellIndexed s.size ops = true) → Good dense (final dense s ops) (specFinal t ops) := by
  intro ops
  induction ops with
  | nil => intro s t hg _; exact hg
  | cons op ops ih =>
    intro s t hg hw
    have hidx : dense = false → opInRange s.size op = true := by
      intro hd; have := hw hd; simp only [wellIndexed, Bool.and_eq_true] at this; exact this.1
    obtain ⟨hg', _, hsize⟩ := good_step op hg hidx
    refine ih _ _ hg' ?_
    intro hd; have := hw hd; simp only [wellIndexed, Bool.and_eq_true] at this
    rw [hsize]; exact this.2

theorem modeOk_final (dense : Bool) : ∀ (ops : List Op) (s : State), Inv s → ModeOk dense s →
    ModeOk dense (final dense s ops) := by
  intro ops
  induction ops with
  | nil => intro s _ h; exact h
  | cons op ops ih => intro s hi hm; exact ih _ (inv_step dense s op hi) (modeOk_step dense s op hi hm)

/-! ### reads -/

theorem read_eq (s : State) (a : Attr) (i : Int) :
    read s a i = if boundsFail a i then .error .oob else .ok (lookupVal s.heap a i) := by
  unfold read get boundsFail lookupVal
  cases hst : a.store with
  | sparse data =>
    simp only
    cases hl : data.lookup i <;> simp
  | dense n arr =>
    simp only
    by_cases hb : oobGuard i n = true
    · simp [hb]
    · simp [hb]

/-! ### update-free scripts: the specification determines every observation -/

def SObs.total : SObs → Prop
  | .val o => o.isSome
  | .arr _ g => ∀ i, (g i).isSome
  | _ => True

def STotal (t : Spec) : Prop := ∀ ta, t.attr = some ta → ∀ i, (ta.f i).isSome = true

theorem stotal_step (t : Spec) (op : Op) (hop : op.isMut = false) (ht : STotal t) :
    STotal (specStep t op).1 ∧ (specStep t op).2.total := by
  cases op with
  | create ty k d =>
    cases d with
    | none => simp only [specStep]; exact ⟨fun ta h i => by simp only [specMk] at h; injection h with h; rw [← h]; rfl, trivial⟩
    | some x =>
      simp only [specStep]; split
      · exact ⟨fun ta h i => by simp only [specMk] at h; injection h with h; rw [← h]; rfl, trivial⟩
      · exact ⟨ht, trivial⟩
  | delete => exact ⟨(fun ta h => by cases h), trivial⟩
  | cclear => exact ⟨(fun ta h => by cases h), trivial⟩
  | append => exact ⟨ht, trivial⟩
  | extendList n => exact ⟨ht, trivial⟩
  | extendCont m => exact ⟨ht, trivial⟩
  | extendSelf => exact ⟨ht, trivial⟩
  | set i v =>
    simp only [specStep]
    cases hta : t.attr with
    | none => exact ⟨ht, trivial⟩
    | some a =>
      simp only
      split
      · cases checkVal a.ty a.k v with
        | error e => exact ⟨ht, trivial⟩
        | ok val =>
          refine ⟨?_, trivial⟩
          intro ta h j; simp only at h; injection h with h; rw [← h]; simp only
          split
          · rfl
          · exact ht a hta j
      · exact ⟨ht, trivial⟩
  | get i =>
    simp only [specStep]
    cases hta : t.attr with
    | none => exact ⟨ht, trivial⟩
    | some a =>
      simp only
      split
      · exact ⟨ht, ht a hta i⟩
      · exact ⟨ht, trivial⟩
  | upd i c x => cases hop
  | clear =>
    simp only [specStep]
    cases hta : t.attr with
    | none => exact ⟨ht, trivial⟩
    | some a => exact ⟨(fun ta h j => by simp only at h; injection h with h; rw [← h]; rfl), trivial⟩
  | asArray =>
    simp only [specStep]
    cases hta : t.attr with
    | none => exact ⟨ht, trivial⟩
    | some a => exact ⟨ht, fun j => ht a hta _⟩

theorem matches_total_unique {so : SObs} {o1 o2 : Obs} (ht : so.total) (h1 : Matches so o1) (h2 : Matches so o2) : o1 = o2 := by
  cases so with
  | ok =>
    cases o1 <;> cases o2 <;> first | rfl | exact absurd h1 id | exact absurd h2 id
  | err e =>
    cases o1 <;> cases o2 <;> first | exact absurd h1 id | exact absurd h2 id | skip
    simp only [Matches] at h1 h2; rw [← h1, ← h2]
  | val o =>
    cases o1 <;> cases o2 <;> first | exact absurd h1 id | exact absurd h2 id | skip
    simp only [Matches] at h1 h2
    cases o with
    | none => cases ht
    | some w => rw [h1 w rfl, h2 w rfl]
  | arr n g =>
    cases o1 <;> cases o2 <;> first | exact absurd h1 id | exact absurd h2 id | skip
    rename_i r1 r2
    simp only [Matches] at h1 h2
    congr 1
    apply List.ext_getElem?
    intro i
    by_cases hi : i < n
    · have hg := ht i
      cases hgi : g i with
      | none => rw [hgi] at hg; cases hg
      | some w =>
        have e1 := h1.2 i hi w hgi
        have e2 := h2.2 i hi w hgi
        have l1 : i < r1.length := by rw [h1.1]; exact hi
        have l2 : i < r2.length := by rw [h2.1]; exact hi
        rw [List.getD_eq_getElem?_getD, List.getElem?_eq_getElem l1] at e1
        rw [List.getD_eq_getElem?_getD, List.getElem?_eq_getElem l2] at e2
        simp only [Option.getD_some] at e1 e2
        rw [List.getElem?_eq_getElem l1, List.getElem?_eq_getElem l2, e1, e2]
    · have l1 : r1.length ≤ i := by rw [h1.1]; omega
      have l2 : r2.length ≤ i := by rw [h2.1]; omega
      rw [List.getElem?_eq_none l1, List.getElem?_eq_none l2]

theorem specRun_total : ∀ (ops : List Op) (t : Spec), mutFree ops = true → STotal t → ∀ so ∈ specRun t ops, so.total := by
  intro ops
  induction ops with
  | nil => intro t _ _ so h; cases h
  | cons op ops ih =>
    intro t hmf ht so hso
    simp only [mutFree, List.all_cons, Bool.and_eq_true, Bool.not_eq_true'] at hmf
    obtain ⟨h1, h2⟩ := stotal_step t op hmf.1 ht
    rw [specRun_cons] at hso
    rcases List.mem_cons.mp hso with h | h
    · rw [h]; exact h2
    · exact ih _ (by simp only [mutFree]; exact hmf.2) h1 so h

theorem forall2_unique {sos : List SObs} {l1 l2 : List Obs} (ht : ∀ so ∈ sos, so.total)
    (h1 : Forall2 Matches sos l1) (h2 : Forall2 Matches sos l2) : l1 = l2 := by
  induction h1 generalizing l2 with
  | nil => cases h2; rfl
  | cons hm _ ih =>
    cases h2 with
    | cons hm2 h2' =>
      rw [matches_total_unique (ht _ List.mem_cons_self) hm hm2, ih (fun so h => ht so (List.mem_cons_of_mem _ h)) h2']

theorem forall2_common {sos : List SObs} {l1 l2 : List Obs}
    (h1 : Forall2 Matches sos l1) (h2 : Forall2 Matches sos l2) :
    Forall2 (fun o1 o2 => ∃ so, Matches so o1 ∧ Matches so o2) l1 l2 := by
  induction h1 generalizing l2 with
  | nil => cases h2; exact Forall2.nil
  | cons hm _ ih =>
    cases h2 with
    | cons hm2 h2' => exact Forall2.cons ⟨_, hm, hm2⟩ (ih h2')

end Mouette.Attr
