import Mouette.Generated.C18Vertex
import Mouette.Lemmas.C18Vertex
/-
Bridges between the source-shaped terms of `Generated/C18Vertex.lean` (re-extracted from vertex2d.py, connection.py,
laplacian_op.py, attr_faces.py, utils/maths.py on every run) and the hand-written normal forms of the models.
A changed operator or constant in the source makes one of these proofs fail.
-/
namespace Mouette.Lemmas.C18B
open Mouette.FF Mouette.FFV Mouette.Lemmas.C18 Mouette.Lemmas.C18V
open Mouette.Generated

theorem two_half : (2 : Rat) * ((1 : Rat) / 2) = 1 := by norm_num

theorem angleDiff_bridge (a b : Rat) : C18V.angleDiff a b = FF.angleDiff a b := by
  unfold C18V.angleDiff C18V.fmod FF.angleDiff
  simp only [two_half, div_one, one_mul]
  try ring

theorem rootPhase_bridge (t : Rat) (n k : Nat) : C18V.rootPhase t n k = (t + (k : Rat)) / (n : Rat) := by
  unfold C18V.rootPhase
  congr 1; ring

theorem rootPhase_zero (t : Rat) (n : Nat) : C18V.rootPhase t n 0 = t / (n : Rat) := by
  rw [rootPhase_bridge]; simp

/-- the list comprehension of `flag_singularities`, with the source's own `angle_diff`, `roots` and argument expressions -/
def candidatesSrc (n : Nat) (e : VEdge) : List Rat :=
  (List.range n).map (fun (k : Nat) =>
    C18V.angleDiff (C18V.matchFst (C18V.rootPhase e.thB n 0) e.aB (C18V.rootPhase e.thA n k) e.aA)
                   (C18V.matchSnd (C18V.rootPhase e.thB n 0) e.aB (C18V.rootPhase e.thA n k) e.aA))

theorem candidates_bridge (n : Nat) (e : VEdge) : candidatesSrc n e = candidatesV n e := by
  unfold candidatesSrc candidatesV
  apply List.map_congr_left
  intro k _
  rw [angleDiff_bridge, rootPhase_zero, rootPhase_bridge]
  unfold C18V.matchFst C18V.matchSnd
  rfl

theorem guardedBranch_bridge (s : Bool) (order : Nat) : C18V.guardedBranch s order = FFV.guardedBranch s order := by
  unfold C18V.guardedBranch FFV.guardedBranch
  rcases Nat.mod_two_eq_zero_or_one order with h | h <;> cases s <;> simp [h]

theorem featThreshold_bridge : C18V.featureNormThreshold = FFV.featThreshold := by
  unfold C18V.featureNormThreshold FFV.featThreshold; norm_num

theorem curvTerm_bridge (tba tab : Rat) : C18V.curvTerm tba tab = FFV.curvTerm tba tab := by
  unfold C18V.curvTerm FFV.curvTerm; ring

end Mouette.Lemmas.C18B
