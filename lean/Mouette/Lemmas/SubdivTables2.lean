import Mathlib.Tactic.NormNum
import Mouette.Generated.C13Struct
import Mouette.Lemmas.SubdivGeom
import Mouette.Lemmas.SubdivCount
/-
C13 (round 3): bridges between the model and the second batch of translated fragments (`Generated/C13Struct.lean`):
the way every new vertex is computed from the sum of the refined element's points (divisors), and the range / index
expressions of the fan.
-/
namespace Mouette.Subdiv
open Mouette.Generated.C13

/-- the centre the SOURCE computes: the sum of the points divided / scaled as the translated expression says -/
def centreOf : Divisor → List Pt → Pt
  | .len, ps => (sumPts ps).divn ps.length
  | .const k, ps => (sumPts ps).divn k
  | .scale n d, ps => Pt.smul ((n : Rat) / (d : Rat)) (sumPts ps)

theorem fan_centre_follows_source (m m' : Raw) (fid : Nat) (h : splitFaceAsFan m fid = .ok m') :
    ∃ f ps, m.faces[fid]? = some f ∧ pts m f = .ok ps ∧ m'.verts = m.verts ++ [centreOf fanDivisor ps] := by
  obtain ⟨f, ps, _, _, _, hf, hp, _, hv, _⟩ := fan_spec m m' fid h
  exact ⟨f, ps, hf, hp, hv⟩

theorem mid_follows_source (p q : Pt) :
    mid p q = centreOf loopMidDivisor [p, q] ∧ mid p q = centreOf quadsMidDivisor [p, q] ∧
    mid p q = centreOf edgeMidDivisor [p, q] := by
  have : sumPts [p, q] = Pt.add p q := by
    simp only [sumPts, List.foldr]; rw [Pt.add_zero']
  refine ⟨?_, ?_, ?_⟩ <;> simp only [mid, centreOf, loopMidDivisor, quadsMidDivisor, edgeMidDivisor, this]

theorem quads_bary_follows_source (m : Raw) (bs : List Pt) (h : baryCentres m = .ok bs) (i : Nat) (hi : i < m.faces.length) :
    ∃ ps, pts m m.faces[i] = .ok ps ∧ bs[i]? = some (centreOf quadsBaryDivisor ps) := by
  obtain ⟨b, hb1, hb2⟩ := mapE_get _ _ _ h i hi
  simp only [bind, Except.bind] at hb1
  cases hp : pts m m.faces[i] with
  | error e => simp [hp] at hb1
  | ok ps =>
    simp only [hp, pure, Except.pure, Except.ok.injEq] at hb1
    exact ⟨ps, rfl, by rw [hb2, ← hb1]; rfl⟩

theorem cell_centre_follows_source (m m' : Raw) (cid a b c d : Nat) (hc : m.cells[cid]? = some [a, b, c, d])
    (h : splitCellAsFan m cid = .ok m') :
    ∃ ps, pts m [a, b, c, d] = .ok ps ∧ m'.verts = m.verts ++ [centreOf cellDivisor ps] := by
  obtain ⟨ps, hp, hv, _⟩ := cellFan_spec m m' cid a b c d hc h
  refine ⟨ps, hp, ?_⟩
  rw [hv]
  simp only [centreOf, cellDivisor]
  norm_num

theorem face_centre_follows_source (m m' : Raw) (fid a b c : Nat) (hf : m.faces[fid]? = some [a, b, c])
    (h : splitTetFromFaceCenter m fid = .ok m') :
    ∃ ps, pts m [a, b, c] = .ok ps ∧ m'.verts = m.verts ++ [centreOf faceCentreDivisor ps] := by
  obtain ⟨ps, _, hp, _, hv, _⟩ := faceSplit_spec m m' fid a b c hf h
  exact ⟨ps, hp, hv⟩

/-! ### the fan: `for k in range(1, nf): faces.append([f[k], f[(k+1)%nf], iV])` -/

theorem cycGo_getElem? {α} (first : α) : ∀ (l : List α) (k : Nat),
    (cycGo first l)[k]? = (l[k]?).bind (fun x => some (x, (l[k + 1]?).getD first))
  | [], k => by simp [cycGo]
  | [x], 0 => by simp [cycGo]
  | [x], k + 1 => by simp [cycGo]
  | x :: y :: t, 0 => by simp [cycGo]
  | x :: y :: t, k + 1 => by
    have ih := cycGo_getElem? first (y :: t) k
    simp only [cycGo, List.getElem?_cons_succ]
    exact ih

/-- the k-th directed side of a face joins `f[k]` and `f[(k+1) % n]` -/
theorem cycPairs_getElem? (f : List Nat) (k : Nat) (hk : k < f.length) :
    (cycPairs f)[k]? = some (f.getD k 0, f.getD ((k + 1) % f.length) 0) := by
  cases f with
  | nil => simp at hk
  | cons a t =>
    simp only [cycPairs]
    rw [cycGo_getElem?]
    simp only [List.getElem?_eq_getElem hk, Option.bind_some, Option.some.injEq, Prod.mk.injEq, List.getD_eq_getElem?_getD]
    refine ⟨rfl, ?_⟩
    by_cases h1 : k + 1 < (a :: t).length
    · rw [Nat.mod_eq_of_lt h1, List.getElem?_eq_getElem h1]; rfl
    · have : k + 1 = (a :: t).length := by omega
      rw [this, Nat.mod_self, List.getElem?_eq_none (by omega)]
      simp

/-- **the faces appended by the fan are the ones the source's loop writes** (`range(fanLo, fanHi nf)`, indices
`fanFst k nf`, `fanSnd k nf` as translated), and the face that stays in place is `[f[0], f[1], iV]` -/
theorem fan_faces_follow_source (f : List Nat) (iV a b : Nat) (rest : List (Nat × Nat)) (hc : cycPairs f = (a, b) :: rest) :
    [a, b, iV] = [f.getD 0 0, f.getD (1 % f.length) 0, iV] ∧
    rest.map (fun ab => [ab.1, ab.2, iV]) =
      (List.range' fanLo (fanHi f.length - fanLo)).map
        (fun k => [f.getD (fanFst k f.length) 0, f.getD (fanSnd k f.length) 0, iV]) := by
  have hlen : rest.length + 1 = f.length := by
    have := cycPairs_length f; rw [hc] at this; simpa using this
  constructor
  · have h0 := cycPairs_getElem? f 0 (by omega)
    rw [hc] at h0
    simp only [List.getElem?_cons_zero, Option.some.injEq, Prod.mk.injEq, Nat.zero_add] at h0
    rw [h0.1, h0.2]
  · apply List.ext_getElem?
    intro j
    simp only [List.getElem?_map, fanLo, fanHi, fanFst, fanSnd]
    by_cases hj : j < rest.length
    · have h1 := cycPairs_getElem? f (j + 1) (by omega)
      rw [hc, List.getElem?_cons_succ] at h1
      rw [h1, List.getElem?_range' (by omega)]
      simp [Nat.add_comm]
    · rw [List.getElem?_eq_none (by omega), List.getElem?_eq_none (by simp; omega)]
      simp

end Mouette.Subdiv
