import Mouette.Lemmas.BorderMesh
/-! C01 `ring_sorted`, vertex ring: `vertex_to_vertices(v)` is the image of the corner ring under `spoke`,
preceded (border vertex) by the neighbour without half-edge. -/
namespace Mouette.Surface
open Mouette.Props.C01 Mouette.Border

theorem mergeSort_eq_of_strict' {α} {le : α → α → Bool}
    (trans : ∀ a b c, le a b = true → le b c = true → le a c = true)
    (total : ∀ a b, (le a b || le b a) = true) {R cs : List α} (hperm : cs.Perm R)
    (hR : R.Pairwise (fun a b => le a b = true ∧ le b a = false)) : cs.mergeSort le = R := by
  have hs := List.pairwise_mergeSort trans total cs
  have hp := (List.mergeSort_perm cs le).trans hperm
  have hR' : R.Pairwise (fun a b => le a b = true) := hR.imp (fun h => h.1)
  apply List.Perm.eq_of_pairwise (le := fun a b => le a b = true) ?_ hs hR' hp
  intro a b ha hb h1 h2
  have ha' : a ∈ R := hp.mem_iff.mp ha
  have hne : R.Pairwise (fun x y => ¬ (le x y = true ∧ le y x = true)) :=
    hR.imp (fun h hc => by rw [h.2] at hc; cases hc.2)
  exact pairwise_unique (R := fun x y => le x y = true ∧ le y x = true) (fun _ _ h => ⟨h.2, h.1⟩) hne ha' hb ⟨h1, h2⟩

theorem find_keyOf {idx : List (Nat × Int)} {c : Nat} (hc : c ∈ idx.map (·.1)) :
    (idx.find? fun e => e.1 == c).map (·.2) = some (keyOf idx c) := by
  unfold keyOf
  have hsome : (idx.find? fun e => e.1 == c).isSome := by
    rw [List.find?_isSome]
    obtain ⟨e, he, rfl⟩ := List.mem_map.mp hc
    exact ⟨e, he, by simp⟩
  obtain ⟨e, he⟩ := Option.isSome_iff_exists.mp hsome
  rw [he]; rfl

theorem vtc_perm (S : Surf) (v : Nat) :
    (vertexToCorners S v).Perm (cornersAt S v) ∧ (vertexToCorners S v).Nodup := by
  have hp : (vertexToCorners S v).Perm (cornersAt S v) := by
    unfold vertexToCorners
    split
    · exact List.mergeSort_perm _ _
    · exact List.Perm.refl _
  exact ⟨hp, (hp.nodup_iff).mpr (cornersAt_nodup S v)⟩

section mesh
variable {faces : Faces} {nv : Nat}

theorem spoke_eq {f i : Nat} (hf : f < faces.length) (hi : i < (fa faces f).length) :
    spoke (build nv faces true) (offset faces f + i) = (fa faces f).getD ((i + 1) % (fa faces f).length) 0 := by
  unfold spoke
  rw [cornerToHalfEdge_eq_spec nv true hf hi]; rfl

/-- a corner at `A` starts the half-edge `A → spoke c` -/
theorem side_of_corner {A c : Nat} (hc : c ∈ cornersAt (build nv faces true) A) :
    ∃ f i, IsSide faces f i A (spoke (build nv faces true) c) ∧ c = offset faces f + i := by
  obtain ⟨f, i, hf, hi, hv, rfl⟩ := mem_cornersAt.mp hc
  exact ⟨f, i, ⟨hf, hi, hv, (spoke_eq hf hi).symm⟩, rfl⟩

theorem hec_spoke (hO : Oriented faces) {A c : Nat} (hc : c ∈ cornersAt (build nv faces true) A) :
    halfEdgeToCorner (build nv faces true) A (spoke (build nv faces true) c) = some c := by
  obtain ⟨f, i, hs, rfl⟩ := side_of_corner hc
  exact (halfEdgeToCorner_eq_spec nv true hO _ _ _).mpr ⟨f, i, hs, rfl⟩

theorem edges_le {a b : Nat} (h : (a, b) ∈ edgesOf faces) : a ≤ b := by
  obtain ⟨f, i, u, v, _, hk⟩ := mem_edgesOf.mp h
  unfold key2 at hk
  split at hk <;> simp only [Prod.mk.injEq] at hk <;> omega

theorem neighbours_nodup (A : Nat) : (neighbours (build nv faces true) A).Nodup := by
  unfold neighbours sortNat
  rw [(List.mergeSort_perm _ _).nodup_iff]
  have hE : (build nv faces true).edges = edgesOf faces := rfl
  rw [hE, List.Nodup, List.pairwise_filterMap]
  refine (nodup_edgesOf faces).imp_of_mem ?_
  rintro ⟨a, b⟩ ⟨a', b'⟩ hm hm' hne w hw w' hw' hww
  subst hww
  have h1 := edges_le hm
  have h2 := edges_le hm'
  apply hne
  simp only at hw hw'
  by_cases ha : (a == A) = true <;> by_cases ha' : (a' == A) = true
  · rw [if_pos ha] at hw; rw [if_pos ha'] at hw'
    simp only [beq_iff_eq] at ha ha'
    rw [ha, ha', Option.some.inj hw, Option.some.inj hw']
  · rw [if_pos ha] at hw; rw [if_neg ha'] at hw'
    by_cases hb' : (b' == A) = true
    · rw [if_pos hb'] at hw'
      simp only [beq_iff_eq, Bool.not_eq_true, beq_eq_false_iff_ne, ne_eq] at ha ha' hb'
      have e1 := Option.some.inj hw; have e2 := Option.some.inj hw'
      exfalso; omega
    · rw [if_neg hb'] at hw'; cases hw'
  · rw [if_neg ha] at hw; rw [if_pos ha'] at hw'
    by_cases hb : (b == A) = true
    · rw [if_pos hb] at hw
      simp only [beq_iff_eq, Bool.not_eq_true, beq_eq_false_iff_ne, ne_eq] at ha ha' hb
      have e1 := Option.some.inj hw; have e2 := Option.some.inj hw'
      exfalso; omega
    · rw [if_neg hb] at hw; cases hw
  · rw [if_neg ha] at hw; rw [if_neg ha'] at hw'
    by_cases hb : (b == A) = true <;> by_cases hb' : (b' == A) = true
    · rw [if_pos hb] at hw; rw [if_pos hb'] at hw'
      simp only [beq_iff_eq] at hb hb'
      rw [hb, hb', Option.some.inj hw, Option.some.inj hw']
    · rw [if_neg hb'] at hw'; cases hw'
    · rw [if_neg hb] at hw; cases hw
    · rw [if_neg hb] at hw; cases hw

/-- the vertex ring, given what is known about the corner ring `L = vertex_to_corners(A)`:
`pre` is `[w0]` (border vertex) or `[]` (interior vertex) -/
theorem v2v_eq_of (hO : Oriented faces) {A : Nat} (pre : List Nat)
    (hu : ∃ ring, RingOpen (build nv faces true) A ring ∨ RingClosed (build nv faces true) A ring)
    (hne : (cornersAt (build nv faces true) A).isEmpty = false)
    (hpre_nb : ∀ w ∈ pre, w ∈ neighbours (build nv faces true) A)
    (hpre_no : ∀ w ∈ pre, ∀ f i, ¬ IsSide faces f i A w)
    (hpre_nd : pre.Nodup) (hpre_len : pre.length ≤ 1)
    (hrest : ∀ w ∈ neighbours (build nv faces true) A, (∀ f i, ¬ IsSide faces f i A w) → w ∈ pre) :
    vertexToVertices (build nv faces true) A =
      pre ++ (vertexToCorners (build nv faces true) A).map (spoke (build nv faces true)) := by
  have hsrt : (build nv faces true).sortOn = true := rfl
  obtain ⟨hkeys, hcover⟩ := sortedCorners_keys hsrt hu
  obtain ⟨hLperm, hLnd⟩ := vtc_perm (build nv faces true) A
  have hLmem : ∀ c ∈ vertexToCorners (build nv faces true) A, c ∈ cornersAt (build nv faces true) A :=
    fun c hc => hLperm.mem_iff.mp hc
  unfold vertexToVertices
  simp only [hsrt, hne, Bool.not_false, Bool.and_self, if_true]
  -- keys
  have hkpre : ∀ w ∈ pre, keyV (build nv faces true) (sortIndex (build nv faces true) A).1 A w = none := by
    intro w hw
    unfold keyV
    cases hh : halfEdgeToCorner (build nv faces true) A w with
    | none => rfl
    | some c =>
      obtain ⟨g, j, hs', _⟩ := (halfEdgeToCorner_eq_spec nv true hO A w c).mp hh
      exact absurd hs' (hpre_no w hw g j)
  have hkspoke : ∀ c ∈ vertexToCorners (build nv faces true) A,
      keyV (build nv faces true) (sortIndex (build nv faces true) A).1 A (spoke (build nv faces true) c) =
        some (keyOf (sortIndex (build nv faces true) A).1 c) := by
    intro c hc
    unfold keyV
    rw [hec_spoke hO (hLmem c hc)]
    simp only [Option.bind_some]
    exact find_keyOf (hcover c hc)
  apply mergeSort_eq_of_strict'
  · intro a b c; exact leOptInt_trans _ _ _
  · intro a b; exact leOptInt_total _ _
  · -- permutation: both sides duplicate-free with the same elements
    have hspoke_inj : ∀ c ∈ vertexToCorners (build nv faces true) A, ∀ c' ∈ vertexToCorners (build nv faces true) A,
        spoke (build nv faces true) c = spoke (build nv faces true) c' → c = c' := by
      intro c hc c' hc' he
      have h1 := hec_spoke hO (hLmem c hc)
      have h2 := hec_spoke hO (hLmem c' hc')
      rw [he, h2] at h1
      exact (Option.some.inj h1).symm
    have hRnd : (pre ++ (vertexToCorners (build nv faces true) A).map (spoke (build nv faces true))).Nodup := by
      rw [List.nodup_append]
      refine ⟨hpre_nd, ?_, ?_⟩
      · rw [List.Nodup, List.pairwise_map]
        refine hLnd.imp_of_mem ?_
        intro a b ha hb hab he
        exact hab (hspoke_inj a ha b hb he)
      · intro a ha b hb hab
        subst hab
        obtain ⟨c, hc, rfl⟩ := List.mem_map.mp hb
        obtain ⟨f, i, hs, _⟩ := side_of_corner (hLmem c hc)
        exact hpre_no _ ha f i hs
    have hsub1 : neighbours (build nv faces true) A ⊆
        pre ++ (vertexToCorners (build nv faces true) A).map (spoke (build nv faces true)) := by
      intro w hw
      by_cases hex : ∃ g j, IsSide faces g j A w
      · obtain ⟨g, j, hs⟩ := hex
        have hmem : offset faces g + j ∈ cornersAt (build nv faces true) A :=
          mem_cornersAt.mpr ⟨g, j, hs.1, hs.2.1, hs.2.2.1, rfl⟩
        refine List.mem_append.mpr (Or.inr (List.mem_map.mpr ⟨offset faces g + j, hLperm.mem_iff.mpr hmem, ?_⟩))
        rw [spoke_eq hs.1 hs.2.1]; exact hs.2.2.2
      · exact List.mem_append.mpr (Or.inl (hrest w hw (fun g j hs => hex ⟨g, j, hs⟩)))
    have hsub2 : pre ++ (vertexToCorners (build nv faces true) A).map (spoke (build nv faces true)) ⊆
        neighbours (build nv faces true) A := by
      intro w hw
      rcases List.mem_append.mp hw with h1 | h1
      · exact hpre_nb w h1
      · obtain ⟨c, hc, rfl⟩ := List.mem_map.mp h1
        obtain ⟨f, i, hs, _⟩ := side_of_corner (hLmem c hc)
        exact (side_neighbour hs).2
    exact (List.subperm_of_subset (neighbours_nodup A) hsub1).antisymm (List.subperm_of_subset hRnd hsub2)
  · -- strictly increasing keys along `pre ++ spokes`
    rw [List.pairwise_append]
    refine ⟨?_, ?_, ?_⟩
    · rw [List.pairwise_iff_getElem]
      intro i j hi hj hij
      omega
    · rw [List.pairwise_map]
      refine hkeys.imp_of_mem ?_
      intro a b ha hb hab
      rw [hkspoke a ha, hkspoke b hb]
      simp only [leOptInt, decide_eq_true_eq, decide_eq_false_iff_not]
      omega
    · intro a ha b hb
      obtain ⟨c, hc, rfl⟩ := List.mem_map.mp hb
      rw [hkpre a ha, hkspoke c hc]
      exact ⟨rfl, rfl⟩

theorem cornersAt_ne_of_ring {S : Surf} {A : Nat} {ring : List Nat} (hp : ring.Perm (cornersAt S A))
    (hne : ring ≠ []) : (cornersAt S A).isEmpty = false := by
  cases hcs : cornersAt S A with
  | nil => rw [hcs] at hp; exact absurd (List.Perm.eq_nil hp) hne
  | cons _ _ => rfl

/-- border vertex: `[w0] ++ spokes of the corner ring` -/
theorem v2v_border (hO : Oriented faces) {A : Nat} {ring : List Nat}
    (hr : RingOpen (build nv faces true) A ring) (hne : ring ≠ []) :
    ∃ w0, vertexToVertices (build nv faces true) A =
        w0 :: (vertexToCorners (build nv faces true) A).map (spoke (build nv faces true)) ∧
      (∃ f i, IsSide faces f i w0 A) ∧ (∀ f i, ¬ IsSide faces f i A w0) := by
  obtain ⟨w0, _, _, hs0, hn0⟩ := v2v_head_border hO hr hne
  refine ⟨w0, ?_, hs0, hn0⟩
  obtain ⟨f0, i0, hside0⟩ := hs0
  have := v2v_eq_of hO [w0] ⟨ring, Or.inl hr⟩ (cornersAt_ne_of_ring hr.perm hne)
    (fun w hw => by rw [List.mem_singleton] at hw; subst hw; exact (side_neighbour hside0).1)
    (fun w hw => by rw [List.mem_singleton] at hw; subst hw; exact hn0)
    (List.nodup_singleton _) (by simp)
    (fun w hw hno => by
      rw [List.mem_singleton]
      rcases neighbour_side hw with ⟨g, j, hs⟩ | ⟨g, j, hs⟩
      · exact absurd hs (hno g j)
      · exact in_border_unique hO hr ⟨g, j, hs⟩ hno ⟨f0, i0, hside0⟩ hn0)
  simpa using this

/-- interior vertex: the spokes of the corner ring -/
theorem v2v_interior (hO : Oriented faces) {A : Nat} {ring : List Nat}
    (hr : RingClosed (build nv faces true) A ring) (hne : ring ≠ []) :
    vertexToVertices (build nv faces true) A =
      (vertexToCorners (build nv faces true) A).map (spoke (build nv faces true)) := by
  have := v2v_eq_of hO [] ⟨ring, Or.inr hr⟩ (cornersAt_ne_of_ring hr.perm hne)
    (fun w hw => absurd hw List.not_mem_nil) (fun w hw => absurd hw List.not_mem_nil)
    List.nodup_nil (by simp)
    (fun w hw hno => by
      exfalso
      rcases neighbour_side hw with ⟨g, j, hs⟩ | ⟨g, j, hs⟩
      · exact hno g j hs
      · obtain ⟨hg, hj, hGj, hGj1⟩ := hs
        have hj' : (j + 1) % (fa faces g).length < (fa faces g).length := Nat.mod_lt _ (by omega)
        have hstep : stepB (build nv faces true) (offset faces g + (j + 1) % (fa faces g).length) = none := by
          rw [stepB_eq nv true hO hg hj', succ_pred_mod hj, hGj1, hGj]
          cases hh : halfEdgeToCorner (build nv faces true) A w with
          | none => rfl
          | some c =>
            obtain ⟨g', j', hs', _⟩ := (halfEdgeToCorner_eq_spec nv true hO A w c).mp hh
            exact absurd hs' (hno g' j')
        have hmem : offset faces g + (j + 1) % (fa faces g).length ∈ cornersAt (build nv faces true) A :=
          mem_cornersAt.mpr ⟨g, _, hg, hj', hGj1, rfl⟩
        obtain ⟨t, ht, hrt⟩ := List.mem_iff_getElem.mp (hr.perm.mem_iff.mpr hmem)
        have := closed_back hr t ht
        rw [hrt, hstep] at this
        cases this)
  simpa using this

end mesh

end Mouette.Surface
