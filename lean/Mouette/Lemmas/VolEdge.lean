import Mouette.Lemmas.VolBorder
/-!
Edge → faces / cells of the volume model: the unsorted dictionaries against direct inspection, and
the rotational sort as a permutation of them.
-/
namespace Mouette.Vol
open Mesh

variable {m : Mesh}

theorem mem_e2fPairs {e f : Nat} : (e, f) ∈ m.e2fPairs ↔ f < m.nF ∧ e ∈ m.faceToEdges f := by
  unfold Mesh.e2fPairs
  simp only [List.mem_flatMap, List.mem_range, List.mem_map, Prod.mk.injEq]
  constructor
  · rintro ⟨f', hf', e', he', rfl, rfl⟩; exact ⟨hf', he'⟩
  · rintro ⟨hf, he⟩; exact ⟨f, hf, e, he, rfl, rfl⟩

/-- unsorted `_adjE2F[e]` : the stored faces having `e` among their sides -/
theorem mem_e2f {e f : Nat} : f ∈ m.conn.e2f.getD e [] ↔ e < m.nE ∧ f < m.nF ∧ e ∈ m.faceToEdges f := by
  unfold Mesh.conn
  simp only [mem_buckets_getD, mem_e2fPairs]

variable (k : Conn)

/-- unsorted `_adjE2C[e]` : the cells of the faces around `e`, each once -/
theorem mem_e2cRaw {e c : Nat} : c ∈ k.e2cRaw e ↔ ∃ f ∈ k.e2f.getD e [], c ∈ k.faceToCells f := by
  unfold Conn.e2cRaw
  rw [List.mem_eraseDups]
  simp [List.mem_flatMap]

theorem e2cRaw_nodup (e : Nat) : (k.e2cRaw e).Nodup := eraseDups_nodup _

theorem map_snd_map_pair {α : Type} (g : Nat → α) (l : List Nat) :
    (l.map fun x => (g x, x)).map (·.2) = l := by
  induction l with
  | nil => rfl
  | cons a t ih => simp only [List.map_cons, ih]

/-- the stable sort by walk keys only permutes -/
theorem sortByKey_perm (l : List Nat) (keys : List (Nat × Int)) : (Conn.sortByKey l keys).Perm l := by
  unfold Conn.sortByKey
  simp only
  have h := (List.mergeSort_perm (l.map fun x => ((keys.reverse).lookup x, x))
    (fun a b => match a.1, b.1 with
      | some x, some y => decide (x ≤ y)
      | none, some _ => false
      | _, none => true)).map (·.2)
  have h2 : ((l.map fun x => ((keys.reverse).lookup x, x)).map (·.2)) = l := map_snd_map_pair _ l
  rw [h2] at h
  exact h

theorem sortEdge_perm {e : Nat} {cs fs : List Nat} (h : k.sortEdge e = some (cs, fs)) :
    cs.Perm (k.e2cRaw e) ∧ fs.Perm (k.e2f.getD e []) := by
  unfold Conn.sortEdge at h
  repeat' split at h
  all_goals first
    | (cases h; done)
    | (simp only [Option.some.injEq, Prod.mk.injEq] at h
       obtain ⟨rfl, rfl⟩ := h
       exact ⟨sortByKey_perm _ _, sortByKey_perm _ _⟩)

/-- **edge → cells / faces, as sets**: whatever `config.sort_neighborhoods`, the answers are permutations of the
unsorted dictionaries, i.e. of what inspecting the faces and cells yields -/
theorem edgeToCellFace_perm {sorted : Bool} {e : Nat} {cs fs : List Nat}
    (h : k.edgeToCellFace sorted e = some (cs, fs)) :
    cs.Perm (k.e2cRaw e) ∧ fs.Perm (k.e2f.getD e []) := by
  unfold Conn.edgeToCellFace at h
  split at h
  · exact sortEdge_perm k h
  · simp only [Option.some.injEq, Prod.mk.injEq] at h
    obtain ⟨rfl, rfl⟩ := h
    exact ⟨List.Perm.refl _, List.Perm.refl _⟩

end Mouette.Vol

namespace Mouette.Vol
open Mesh

/-- what one direction of the walk around the edge `(A,B)` produces: every crossed face is a stored face
with vertex set `{A, B, p}`; a face that is really crossed is shared by the cell left and the cell entered -/
inductive WalkChain (k : Conn) (A B : Nat) : Nat → List Nat → List Nat → Prop
  | last {c face p : Nat} : k.m.faceId [A, B, p] = some face → WalkChain k A B c [] [face]
  | step {c c' face p : Nat} {cs fs : List Nat} : k.m.faceId [A, B, p] = some face →
      k.otherFaceSide c face = some c' → WalkChain k A B c' cs fs → WalkChain k A B c (c' :: cs) (face :: fs)

theorem walk_chain (k : Conn) (A B : Nat) :
    ∀ (fuel c p : Nat) (seen cs fs : List Nat), k.walk A B fuel c p seen = some (cs, fs) →
      WalkChain k A B c cs fs ∧ (∀ x ∈ cs, x ∉ seen) ∧ cs.Nodup ∧ fs.length = cs.length + 1 := by
  intro fuel
  induction fuel with
  | zero => intro c p seen cs fs h; simp [Conn.walk] at h
  | succ n ih =>
    intro c p seen cs fs h
    unfold Conn.walk at h
    split at h
    · cases h
    · rename_i face hface
      split at h
      · simp only [Option.some.injEq, Prod.mk.injEq] at h
        obtain ⟨rfl, rfl⟩ := h
        exact ⟨.last hface, by simp, by simp, by simp⟩
      · rename_i c' hc'
        split at h
        · simp only [Option.some.injEq, Prod.mk.injEq] at h
          obtain ⟨rfl, rfl⟩ := h
          exact ⟨.last hface, by simp, by simp, by simp⟩
        · rename_i hseen
          split at h
          · cases h
          · rename_i p' rest hp'
            split at h
            · cases h
            · rename_i cs' fs' hw
              simp only [Option.some.injEq, Prod.mk.injEq] at h
              obtain ⟨rfl, rfl⟩ := h
              obtain ⟨hch, hnew, hnd, hlen⟩ := ih c' p' (c' :: seen) cs' fs' hw
              refine ⟨.step hface hc' hch, ?_, ?_, by simp [hlen]⟩
              · intro x hx
                rcases List.mem_cons.1 hx with rfl | hx
                · simpa using hseen
                · exact fun hs => hnew x hx (List.mem_cons_of_mem _ hs)
              · refine List.nodup_cons.2 ⟨?_, hnd⟩
                intro hmem
                exact hnew c' hmem (by simp)

/-- `other_face_side(c, f) = c'` means that `f` lies in exactly the two cells `c` and `c'` -/
theorem otherFaceSide_some {k : Conn} {c f c' : Nat} (h : k.otherFaceSide c f = some c') :
    c ∈ k.faceToCells f ∧ c' ∈ k.faceToCells f ∧ (k.faceToCells f).length = 2 := by
  unfold Conn.otherFaceSide at h
  split at h
  · rename_i c1 c2 hl
    rw [hl]
    split at h
    · rename_i h1; cases h; subst h1; simp
    · split at h
      · rename_i h2; cases h; subst h2; simp
      · cases h
  · cases h

end Mouette.Vol
