import Mathlib.Tactic.Ring
import Mathlib.Tactic.Linarith
import Mouette.Model.Subdiv
/-
Counting lemmas for the C13 model: lengths of the containers after every operation, prefix preservation of
the vertex list, position of the new vertices.
-/
namespace Mouette.Subdiv

/-! ### generic helpers -/

theorem cycGo_length {α} (first : α) : ∀ l : List α, (cycGo first l).length = l.length
  | [] => rfl
  | [_] => rfl
  | _ :: y :: t => by simp [cycGo, cycGo_length first (y :: t)]

theorem cycPairs_length {α} (l : List α) : (cycPairs l).length = l.length := by
  cases l with
  | nil => rfl
  | cons a t => simp [cycPairs, cycGo_length]

theorem mapE_length {α β} (g : α → Except Err β) : ∀ (l : List α) (r : List β), mapE g l = .ok r → r.length = l.length
  | [], r, h => by simp [mapE] at h; subst h; rfl
  | a :: t, r, h => by
    simp only [mapE] at h
    cases hg : g a with
    | error e => simp [hg] at h
    | ok b =>
      cases ht : mapE g t with
      | error e => simp [hg, ht] at h
      | ok bs =>
        simp [hg, ht] at h; subst h
        simp [mapE_length g t bs ht]

/-- pointwise description of a successful `mapE` -/
theorem mapE_get {α β} (g : α → Except Err β) : ∀ (l : List α) (r : List β), mapE g l = .ok r →
    ∀ i (hi : i < l.length), ∃ b, g l[i] = .ok b ∧ r[i]? = some b
  | [], r, h, i, hi => by simp at hi
  | a :: t, r, h, i, hi => by
    simp only [mapE] at h
    cases hg : g a with
    | error e => simp [hg] at h
    | ok b =>
      cases ht : mapE g t with
      | error e => simp [hg, ht] at h
      | ok bs =>
        simp [hg, ht] at h; subst h
        cases i with
        | zero => exact ⟨b, by simpa using hg, by simp⟩
        | succ j =>
          have hj : j < t.length := by simpa using hi
          obtain ⟨b', hb1, hb2⟩ := mapE_get g t bs ht j hj
          exact ⟨b', by simpa using hb1, by simpa using hb2⟩

theorem mapE_forall {α β} (g : α → Except Err β) (P : β → Prop) (hP : ∀ a b, g a = .ok b → P b) :
    ∀ (l : List α) (r : List β), mapE g l = .ok r → ∀ b ∈ r, P b
  | [], r, h => by simp [mapE] at h; subst h; simp
  | a :: t, r, h => by
    simp only [mapE] at h
    cases hg : g a with
    | error e => simp [hg] at h
    | ok b =>
      cases ht : mapE g t with
      | error e => simp [hg, ht] at h
      | ok bs =>
        simp [hg, ht] at h; subst h
        intro x hx
        rcases List.mem_cons.mp hx with h1 | h1
        · subst h1; exact hP a _ hg
        · exact mapE_forall g P hP t bs ht x h1

/-- total length of the pieces when every piece has `k` elements -/
theorem flatMap_length_const {α β} (f : α → List β) (k : Nat) :
    ∀ l : List α, (∀ a ∈ l, (f a).length = k) → (l.flatMap f).length = k * l.length
  | [], _ => by simp
  | a :: t, h => by
    have h1 := h a (by simp)
    have h2 := flatMap_length_const f k t (fun x hx => h x (by simp [hx]))
    simp [List.flatMap_cons, h1, h2]; ring

/-! ### split_face_as_fan -/

theorem fan_spec (m m' : Raw) (fid : Nat) (h : splitFaceAsFan m fid = .ok m') :
    ∃ f ps a b rest, m.faces[fid]? = some f ∧ pts m f = .ok ps ∧ cycPairs f = (a, b) :: rest ∧
      m'.verts = m.verts ++ [bary ps] ∧
      m'.faces = m.faces.set fid [a, b, m.verts.length] ++ rest.map (fun ab => [ab.1, ab.2, m.verts.length]) ∧
      m'.edges = m.edges ++ f.map (fun v => keyify v m.verts.length) ∧ m'.cells = m.cells := by
  unfold splitFaceAsFan at h
  cases hf : m.faces[fid]? with
  | none => simp [hf] at h
  | some f =>
    simp only [hf] at h
    cases hp : pts m f with
    | error e => simp [hp, bind, Except.bind] at h
    | ok ps =>
      simp only [hp, bind, Except.bind] at h
      cases hc : cycPairs f with
      | nil => simp [hc] at h
      | cons ab rest =>
        obtain ⟨a, b⟩ := ab
        simp only [hc, pure, Except.pure, Except.ok.injEq] at h
        subst h
        exact ⟨f, ps, a, b, rest, rfl, hp, hc, rfl, rfl, rfl, rfl⟩

theorem fan_counts' (m m' : Raw) (fid : Nat) (h : splitFaceAsFan m fid = .ok m') :
    ∃ f, m.faces[fid]? = some f ∧ 1 ≤ f.length ∧
      m'.verts.length = m.verts.length + 1 ∧
      m'.faces.length = m.faces.length + (f.length - 1) ∧
      m'.edges.length = m.edges.length + f.length ∧ m'.cells = m.cells := by
  obtain ⟨f, ps, a, b, rest, hf, _, hc, hv, hfa, he, hce⟩ := fan_spec m m' fid h
  have hl := cycPairs_length f
  rw [hc] at hl
  simp only [List.length_cons] at hl
  refine ⟨f, hf, by omega, ?_, ?_, ?_, hce⟩
  · simp [hv]
  · simp [hfa]; omega
  · simp [he]

/-! ### triangulate_face / triangulate -/

def triExtraF (f : List Nat) : Nat := if f.length < 4 then 0 else if f.length = 4 then 1 else f.length - 1
def triExtraV (f : List Nat) : Nat := if f.length ≤ 4 then 0 else 1
def triExtraE (f : List Nat) : Nat := if f.length < 4 then 0 else if f.length = 4 then 1 else f.length

def faceAt (m : Raw) (i : Nat) : List Nat := (m.faces[i]?).getD []

theorem set_append_get_other {α} (l r : List α) (i j : Nat) (x : α) (hne : j ≠ i) (hj : j < l.length) :
    (l.set i x ++ r)[j]? = l[j]? := by
  rw [List.getElem?_append_left (by simpa using hj)]
  rw [List.getElem?_set_ne (Ne.symm hne)]

theorem quad_split_spec (m m' : Raw) (fid a b c d : Nat) (hf : m.faces[fid]? = some [a, b, c, d])
    (h : triangulateFace m fid = .ok m') :
    m'.verts = m.verts ∧ m'.faces = m.faces.set fid [a, b, d] ++ [[b, c, d]] ∧
    m'.edges = m.edges ++ [keyify b d] ∧ m'.cells = m.cells := by
  simp only [triangulateFace, hf, pure, Except.pure, Except.ok.injEq] at h
  subst h
  exact ⟨rfl, rfl, rfl, rfl⟩

theorem triFace_counts (m m' : Raw) (fid : Nat) (h : triangulateFace m fid = .ok m') :
    ∃ f, m.faces[fid]? = some f ∧
      m'.verts.length = m.verts.length + triExtraV f ∧
      m'.faces.length = m.faces.length + triExtraF f ∧
      m'.edges.length = m.edges.length + triExtraE f ∧ m'.cells = m.cells ∧
      (∃ extra, m'.verts = m.verts ++ extra) ∧
      (∀ j, j ≠ fid → j < m.faces.length → m'.faces[j]? = m.faces[j]?) := by
  cases hf : m.faces[fid]? with
  | none => simp [triangulateFace, hf] at h
  | some f =>
    refine ⟨f, rfl, ?_⟩
    have fanCase : 5 ≤ f.length → splitFaceAsFan m fid = .ok m' →
        m'.verts.length = m.verts.length + triExtraV f ∧
        m'.faces.length = m.faces.length + triExtraF f ∧
        m'.edges.length = m.edges.length + triExtraE f ∧ m'.cells = m.cells ∧
        (∃ extra, m'.verts = m.verts ++ extra) ∧
        (∀ j, j ≠ fid → j < m.faces.length → m'.faces[j]? = m.faces[j]?) := by
      intro h5 hfan
      obtain ⟨f', ps, a, b, rest, hf', _, hc, hv, hfa, he, hce⟩ := fan_spec m m' fid hfan
      rw [hf] at hf'; cases hf'
      have hl := cycPairs_length f
      rw [hc] at hl; simp only [List.length_cons] at hl
      have hV : triExtraV f = 1 := by unfold triExtraV; split_ifs <;> omega
      have hF : triExtraF f = f.length - 1 := by unfold triExtraF; split_ifs <;> omega
      have hE : triExtraE f = f.length := by unfold triExtraE; split_ifs <;> omega
      refine ⟨?_, ?_, ?_, hce, ⟨_, hv⟩, ?_⟩
      · simp [hv, hV]
      · simp [hfa, hF]; omega
      · simp [he, hE]
      · intro j hne hj; rw [hfa]; exact set_append_get_other _ _ _ _ _ hne hj
    rcases f with _ | ⟨a, _ | ⟨b, _ | ⟨c, _ | ⟨d, _ | ⟨e, t⟩⟩⟩⟩⟩
    all_goals simp only [triangulateFace, hf] at h
    · simp [pure, Except.pure] at h; subst h; simp [triExtraV, triExtraF, triExtraE]
    · simp [pure, Except.pure] at h; subst h; simp [triExtraV, triExtraF, triExtraE]
    · simp [pure, Except.pure] at h; subst h; simp [triExtraV, triExtraF, triExtraE]
    · simp [pure, Except.pure] at h; subst h; simp [triExtraV, triExtraF, triExtraE]
    · simp only [pure, Except.pure, Except.ok.injEq] at h; subst h
      refine ⟨by simp [triExtraV], by simp [triExtraF], by simp [triExtraE], rfl, ⟨[], by simp⟩, ?_⟩
      intro j hne hj; exact set_append_get_other _ _ _ _ _ hne hj
    · have h5 : 5 ≤ (a :: b :: c :: d :: e :: t).length := by simp
      have hnot : ¬ ((a :: b :: c :: d :: e :: t).length < 4) := by simp
      simp only [hnot, if_false] at h
      exact fanCase h5 h

theorem triFrom_counts : ∀ (ids : List Nat) (m m' : Raw), ids.Nodup → (∀ i ∈ ids, i < m.faces.length) →
    triangulateFrom m ids = .ok m' →
      m'.verts.length = m.verts.length + (ids.map (fun i => triExtraV (faceAt m i))).sum ∧
      m'.faces.length = m.faces.length + (ids.map (fun i => triExtraF (faceAt m i))).sum ∧
      m'.edges.length = m.edges.length + (ids.map (fun i => triExtraE (faceAt m i))).sum ∧
      m'.cells = m.cells ∧ (∃ extra, m'.verts = m.verts ++ extra) ∧
      (∀ j, j ∉ ids → j < m.faces.length → m'.faces[j]? = m.faces[j]?)
  | [], m, m', _, _, h => by
    simp only [triangulateFrom, pure, Except.pure, Except.ok.injEq] at h; subst h
    exact ⟨by simp, by simp, by simp, rfl, ⟨[], by simp⟩, fun _ _ _ => rfl⟩
  | i :: rest, m, m', hnd, hlt, h => by
    have hi : i < m.faces.length := hlt i (by simp)
    have hnd' : rest.Nodup := (List.nodup_cons.mp hnd).2
    have hni : i ∉ rest := (List.nodup_cons.mp hnd).1
    have hfi : m.faces[i]? = some m.faces[i] := List.getElem?_eq_getElem hi
    simp only [triangulateFrom, hfi] at h
    by_cases h3 : (m.faces[i]).length ≠ 3
    · simp only [h3, if_true, bind, Except.bind, ne_eq, not_false_eq_true] at h
      cases h1 : triangulateFace m i with
      | error e => simp [h1] at h
      | ok m1 =>
        simp only [h1] at h
        obtain ⟨f, hf, hv1, hf1, he1, hc1, ⟨ex1, hx1⟩, hoth⟩ := triFace_counts m m1 i h1
        rw [hfi] at hf; cases hf
        have hlt1 : ∀ j ∈ rest, j < m1.faces.length := fun j hj => by
          have := hlt j (by simp [hj]); omega
        obtain ⟨hv2, hf2, he2, hc2, ⟨ex2, hx2⟩, hoth2⟩ := triFrom_counts rest m1 m' hnd' hlt1 h
        have hsame : ∀ j ∈ rest, faceAt m1 j = faceAt m j := fun j hj => by
          have hne : j ≠ i := fun e => hni (e ▸ hj)
          simp only [faceAt, hoth j hne (hlt j (by simp [hj]))]
        have e1 : rest.map (fun i => triExtraV (faceAt m1 i)) = rest.map (fun i => triExtraV (faceAt m i)) :=
          List.map_congr_left (fun j hj => by rw [hsame j hj])
        have e2 : rest.map (fun i => triExtraF (faceAt m1 i)) = rest.map (fun i => triExtraF (faceAt m i)) :=
          List.map_congr_left (fun j hj => by rw [hsame j hj])
        have e3 : rest.map (fun i => triExtraE (faceAt m1 i)) = rest.map (fun i => triExtraE (faceAt m i)) :=
          List.map_congr_left (fun j hj => by rw [hsame j hj])
        have hfa : faceAt m i = m.faces[i] := by simp [faceAt, hfi]
        refine ⟨?_, ?_, ?_, by rw [hc2, hc1], ⟨ex1 ++ ex2, by rw [hx2, hx1, List.append_assoc]⟩, ?_⟩
        · rw [hv2, hv1, e1]; simp [hfa]; omega
        · rw [hf2, hf1, e2]; simp [hfa]; omega
        · rw [he2, he1, e3]; simp [hfa]; omega
        · intro j hj hjl
          have hne : j ≠ i := fun e => hj (by simp [e])
          have hjr : j ∉ rest := fun e => hj (by simp [e])
          rw [hoth2 j hjr (by omega), hoth j hne hjl]
    · have h3' : (m.faces[i]).length = 3 := by simpa using h3
      simp only [h3', ne_eq, not_true_eq_false, if_false] at h
      obtain ⟨hv2, hf2, he2, hc2, hx2, hoth2⟩ := triFrom_counts rest m m' hnd' (fun j hj => hlt j (by simp [hj])) h
      have hfa : faceAt m i = m.faces[i] := by simp [faceAt, hfi]
      refine ⟨?_, ?_, ?_, hc2, hx2, ?_⟩
      · rw [hv2]; simp [hfa, triExtraV, h3']
      · rw [hf2]; simp [hfa, triExtraF, h3']
      · rw [he2]; simp [hfa, triExtraE, h3']
      · intro j hj hjl
        exact hoth2 j (fun e => hj (by simp [e])) hjl

theorem range_map_getD {α} (l : List α) (d : α) : (List.range l.length).map (fun i => (l[i]?).getD d) = l := by
  apply List.ext_getElem
  · simp
  · intro i h1 h2
    simp at h1
    simp [List.getElem?_eq_getElem h1]

theorem triangulate_counts' (m m' : Raw) (h : triangulate m = .ok m') :
    m'.verts.length = m.verts.length + (m.faces.map triExtraV).sum ∧
    m'.faces.length = m.faces.length + (m.faces.map triExtraF).sum ∧
    m'.edges.length = m.edges.length + (m.faces.map triExtraE).sum ∧ m'.cells = m.cells ∧
    (∃ extra, m'.verts = m.verts ++ extra) := by
  obtain ⟨hv, hf, he, hc, hx, _⟩ := triFrom_counts (List.range m.faces.length) m m' List.nodup_range
    (fun i hi => by simpa using hi) h
  have key : ∀ g : List Nat → Nat, ((List.range m.faces.length).map (fun i => g (faceAt m i))) = m.faces.map g := by
    intro g
    have := congrArg (List.map g) (range_map_getD m.faces [])
    simpa [faceAt, List.map_map, Function.comp_def] using this
  rw [key] at hv hf he
  exact ⟨hv, hf, he, hc, hx⟩

/-! ### loop_subdivision -/

theorem loopFace_spec (h : List (Nat × Nat) × Nat) (f : List Nat) (fs : List (List Nat)) (es : List (Nat × Nat))
    (hok : loopFace h f = .ok (fs, es)) :
    ∃ a b c mab mbc mca, f = [a, b, c] ∧ getHalf h a b = .ok mab ∧ getHalf h b c = .ok mbc ∧ getHalf h c a = .ok mca ∧
      fs = [[mab, mbc, mca], [a, mab, mca], [b, mbc, mab], [c, mca, mbc]] ∧
      es = [keyify a mab, keyify mab b, keyify b mbc, keyify mbc c, keyify c mca, keyify mca a,
            keyify mab mbc, keyify mbc mca, keyify mca mab] := by
  rcases f with _ | ⟨a, _ | ⟨b, _ | ⟨c, _ | ⟨d, t⟩⟩⟩⟩
  all_goals simp only [loopFace] at hok
  all_goals try (simp [throw, throwThe, MonadExceptOf.throw] at hok; done)
  simp only [bind, Except.bind] at hok
  cases h1 : getHalf h a b with
  | error e => simp [h1] at hok
  | ok mab =>
    cases h2 : getHalf h b c with
    | error e => simp [h1, h2] at hok
    | ok mbc =>
      cases h3 : getHalf h c a with
      | error e => simp [h1, h2, h3] at hok
      | ok mca =>
        simp only [h1, h2, h3, pure, Except.pure, Except.ok.injEq, Prod.mk.injEq] at hok
        exact ⟨a, b, c, mab, mbc, mca, rfl, by first | rfl | assumption, by first | rfl | assumption, by first | rfl | assumption, hok.1.symm, hok.2.symm⟩

theorem loopOnce_spec (m m' : Raw) (h : loopOnce m = .ok m') :
    ∃ mids parts, midpointsOf m = .ok mids ∧ mapE (loopFace (m.edges, m.verts.length)) m.faces = .ok parts ∧
      m'.verts = m.verts ++ mids ∧ m'.faces = parts.flatMap (·.1) ∧ m'.edges = dedup (parts.flatMap (·.2)) ∧ m'.cells = [] := by
  simp only [loopOnce, bind, Except.bind] at h
  cases h1 : midpointsOf m with
  | error e => simp [h1] at h
  | ok mids =>
    cases h2 : mapE (loopFace (m.edges, m.verts.length)) m.faces with
    | error e => simp [h1, h2] at h
    | ok parts =>
      simp only [h1, h2, pure, Except.pure, Except.ok.injEq] at h
      subst h
      exact ⟨mids, parts, rfl, rfl, rfl, rfl, rfl, rfl⟩

theorem loop_counts' (m m' : Raw) (h : loopOnce m = .ok m') :
    m'.verts.length = m.verts.length + m.edges.length ∧ m'.faces.length = 4 * m.faces.length ∧
    (∀ f ∈ m'.faces, f.length = 3) ∧ (∀ f ∈ m.faces, f.length = 3) ∧ (∃ extra, m'.verts = m.verts ++ extra) := by
  obtain ⟨mids, parts, h1, h2, hv, hf, _, _⟩ := loopOnce_spec m m' h
  have hl1 := mapE_length _ _ _ h1
  have hl2 := mapE_length _ _ _ h2
  have hall : ∀ p ∈ parts, p.1.length = 4 ∧ ∀ f ∈ p.1, f.length = 3 := by
    apply mapE_forall (loopFace (m.edges, m.verts.length)) (fun p => p.1.length = 4 ∧ ∀ f ∈ p.1, f.length = 3) _ _ _ h2
    intro f p hp
    obtain ⟨fs, es⟩ := p
    obtain ⟨a, b, c, mab, mbc, mca, _, _, _, _, hfs, _⟩ := loopFace_spec _ _ _ _ hp
    subst hfs
    simp
  refine ⟨by simp [hv, hl1], ?_, ?_, ?_, ⟨mids, hv⟩⟩
  · rw [hf, flatMap_length_const (fun p : List (List Nat) × List (Nat × Nat) => p.1) 4 parts (fun p hp => (hall p hp).1), hl2]
  · intro f hfm
    rw [hf] at hfm
    obtain ⟨p, hp, hfp⟩ := List.mem_flatMap.mp hfm
    exact (hall p hp).2 f hfp
  · intro f hfm
    obtain ⟨i, hi, rfl⟩ := List.getElem_of_mem hfm
    obtain ⟨p, hp, _⟩ := mapE_get _ _ _ h2 i hi
    obtain ⟨fs, es⟩ := p
    obtain ⟨a, b, c, _, _, _, hfe, _⟩ := loopFace_spec _ _ _ _ hp
    rw [hfe]; rfl

/-! ### subdivide_triangles_3quads -/

theorem quadsFace_spec (h : List (Nat × Nat) × Nat) (s : Nat) (f : List Nat) (fs : List (List Nat)) (es : List (Nat × Nat))
    (hok : quadsFace h s f = .ok (fs, es)) :
    ∃ a b c mab mbc mca, f = [a, b, c] ∧ getHalf h a b = .ok mab ∧ getHalf h b c = .ok mbc ∧ getHalf h c a = .ok mca ∧
      fs = [[a, mab, s, mca], [b, mbc, s, mab], [c, mca, s, mbc]] := by
  rcases f with _ | ⟨a, _ | ⟨b, _ | ⟨c, _ | ⟨d, t⟩⟩⟩⟩
  all_goals simp only [quadsFace] at hok
  all_goals try (simp [throw, throwThe, MonadExceptOf.throw] at hok; done)
  simp only [bind, Except.bind] at hok
  cases h1 : getHalf h a b with
  | error e => simp [h1] at hok
  | ok mab =>
    cases h2 : getHalf h b c with
    | error e => simp [h1, h2] at hok
    | ok mbc =>
      cases h3 : getHalf h c a with
      | error e => simp [h1, h2, h3] at hok
      | ok mca =>
        simp only [h1, h2, h3, pure, Except.pure, Except.ok.injEq, Prod.mk.injEq] at hok
        exact ⟨a, b, c, mab, mbc, mca, rfl, by first | rfl | assumption, by first | rfl | assumption, by first | rfl | assumption, hok.1.symm⟩

theorem number_length {α} : ∀ (k : Nat) (l : List α), (number k l).length = l.length
  | _, [] => rfl
  | k, _ :: t => by simp [number, number_length (k + 1) t]

/-- the part of `subdivide_triangles_3quads` after its call to `triangulate` -/
def quads3Core (m : Raw) : Except Err Raw := do
  let mids ← midpointsOf m
  let h := (m.edges, m.verts.length)
  let bs ← baryCentres m
  let base := m.verts.length + m.edges.length
  let parts ← mapE (fun sf => quadsFace h sf.1 sf.2) (number base m.faces)
  pure { verts := m.verts ++ mids ++ bs
         edges := dedup (parts.flatMap (·.2))
         faces := parts.flatMap (·.1)
         cells := [] }

theorem quads3_eq (m : Raw) : quads3 m = (triangulate m).bind quads3Core := by
  unfold quads3; rfl

theorem quads3Core_spec (m m' : Raw) (h : quads3Core m = .ok m') :
    ∃ mids bs parts, midpointsOf m = .ok mids ∧ baryCentres m = .ok bs ∧
      mapE (fun sf => quadsFace (m.edges, m.verts.length) sf.1 sf.2) (number (m.verts.length + m.edges.length) m.faces) = .ok parts ∧
      m'.verts = m.verts ++ mids ++ bs ∧ m'.faces = parts.flatMap (·.1) ∧ m'.cells = [] := by
  simp only [quads3Core, bind, Except.bind] at h
  cases h1 : midpointsOf m with
  | error e => simp [h1] at h
  | ok mids =>
    cases h2 : baryCentres m with
    | error e => simp [h1, h2] at h
    | ok bs =>
      cases h3 : mapE (fun sf => quadsFace (m.edges, m.verts.length) sf.1 sf.2) (number (m.verts.length + m.edges.length) m.faces) with
      | error e => simp [h1, h2, h3] at h
      | ok parts =>
        simp only [h1, h2, h3, pure, Except.pure, Except.ok.injEq] at h
        subst h
        exact ⟨mids, bs, parts, rfl, rfl, rfl, rfl, rfl, rfl⟩

theorem quads3Core_counts (m m' : Raw) (h : quads3Core m = .ok m') :
    m'.verts.length = m.verts.length + m.edges.length + m.faces.length ∧ m'.faces.length = 3 * m.faces.length ∧
    (∀ f ∈ m'.faces, f.length = 4) ∧ (∃ extra, m'.verts = m.verts ++ extra) := by
  obtain ⟨mids, bs, parts, h1, h2, h3, hv, hf, _⟩ := quads3Core_spec m m' h
  have hl1 := mapE_length _ _ _ h1
  have hl2 := mapE_length _ _ _ h2
  have hl3 := mapE_length _ _ _ h3
  rw [number_length] at hl3
  have hall : ∀ p ∈ parts, p.1.length = 3 ∧ ∀ f ∈ p.1, f.length = 4 := by
    apply mapE_forall (fun sf : Nat × List Nat => quadsFace (m.edges, m.verts.length) sf.1 sf.2)
      (fun p => p.1.length = 3 ∧ ∀ f ∈ p.1, f.length = 4) _ _ _ h3
    intro sf p hp
    obtain ⟨fs, es⟩ := p
    obtain ⟨a, b, c, mab, mbc, mca, _, _, _, _, hfs⟩ := quadsFace_spec _ _ _ _ _ hp
    subst hfs
    simp
  refine ⟨by simp [hv, hl1, hl2]; omega, ?_, ?_, ⟨mids ++ bs, by rw [hv, List.append_assoc]⟩⟩
  · rw [hf, flatMap_length_const (fun p : List (List Nat) × List (Nat × Nat) => p.1) 3 parts (fun p hp => (hall p hp).1), hl3]
  · intro f hfm
    rw [hf] at hfm
    obtain ⟨p, hp, hfp⟩ := List.mem_flatMap.mp hfm
    exact (hall p hp).2 f hfp

/-! ### subdivide_triangles_6, loop_subdivision(n) as compositions -/

theorem sum_map_const_of_forall {α} (g : α → Nat) (k : Nat) : ∀ l : List α, (∀ a ∈ l, g a = k) → (l.map g).sum = k * l.length
  | [], _ => by simp
  | a :: t, h => by
    have h1 := h a (by simp)
    have h2 := sum_map_const_of_forall g k t (fun x hx => h x (by simp [hx]))
    simp [h1, h2]; ring

/-- number of triangles of the mesh once triangulated as the code does -/
def triCount (m : Raw) : Nat := m.faces.length + (m.faces.map triExtraF).sum

theorem iterM_one {α} (f : α → Except Err α) (a : α) : iterM f 1 a = f a := by
  simp only [iterM, bind, Except.bind]
  cases f a <;> rfl

theorem iterM_succ {α} (f : α → Except Err α) (n : Nat) (a : α) : iterM f (n + 1) a = (f a).bind (iterM f n) := rfl

theorem quads3_counts' (m m' : Raw) (h : quads3 m = .ok m') :
    ∃ m1, triangulate m = .ok m1 ∧
      m'.verts.length = m1.verts.length + m1.edges.length + m1.faces.length ∧
      m'.faces.length = 3 * triCount m ∧ (∀ f ∈ m'.faces, f.length = 4) ∧ (∃ extra, m'.verts = m.verts ++ extra) := by
  rw [quads3_eq] at h
  cases h1 : triangulate m with
  | error e => simp [h1, Except.bind] at h
  | ok m1 =>
    simp only [h1, Except.bind] at h
    obtain ⟨hv, hf, h4, ⟨ex2, hx2⟩⟩ := quads3Core_counts m1 m' h
    obtain ⟨_, hf1, _, _, ⟨ex1, hx1⟩⟩ := triangulate_counts' m m1 h1
    refine ⟨m1, rfl, hv, ?_, h4, ⟨ex1 ++ ex2, by rw [hx2, hx1, List.append_assoc]⟩⟩
    rw [hf, hf1, triCount]

theorem sub6_one_counts (m m' : Raw) (h : sub6 m 1 = .ok m') :
    m'.faces.length = 6 * triCount m ∧ (∃ extra, m'.verts = m.verts ++ extra) := by
  simp only [sub6, iterM_one, bind, Except.bind] at h
  cases h1 : quads3 m with
  | error e => simp [h1] at h
  | ok m2 =>
    simp only [h1] at h
    obtain ⟨m1, _, _, hf2, h4, ⟨ex1, hx1⟩⟩ := quads3_counts' m m2 h1
    obtain ⟨_, hf3, _, _, ⟨ex2, hx2⟩⟩ := triangulate_counts' m2 m' h
    have hs : (m2.faces.map triExtraF).sum = 1 * m2.faces.length :=
      sum_map_const_of_forall triExtraF 1 m2.faces (fun f hf => by simp [triExtraF, h4 f hf])
    refine ⟨by rw [hf3, hs, hf2]; ring, ⟨ex1 ++ ex2, by rw [hx2, hx1, List.append_assoc]⟩⟩

theorem loop_one_counts (m m' : Raw) (h : loopSubdivision m 1 = .ok m') :
    ∃ m1, triangulate m = .ok m1 ∧ m'.verts.length = m1.verts.length + m1.edges.length ∧
      m'.faces.length = 4 * triCount m ∧ (∀ f ∈ m'.faces, f.length = 3) ∧ (∃ extra, m'.verts = m.verts ++ extra) := by
  simp only [loopSubdivision, iterM_one, bind, Except.bind] at h
  cases h1 : triangulate m with
  | error e => simp [h1] at h
  | ok m1 =>
    simp only [h1] at h
    obtain ⟨hv, hf, h3, _, ⟨ex2, hx2⟩⟩ := loop_counts' m1 m' h
    obtain ⟨_, hf1, _, _, ⟨ex1, hx1⟩⟩ := triangulate_counts' m m1 h1
    exact ⟨m1, rfl, hv, by rw [hf, hf1, triCount], h3, ⟨ex1 ++ ex2, by rw [hx2, hx1, List.append_assoc]⟩⟩

/-! ### split_edge, split_cell_as_fan, split_tet_from_face_center -/

theorem splitEdge_spec (m m' : Raw) (eid : Nat) (h : splitEdge m eid = .ok m') :
    ∃ a b pa pb, m.edges[eid]? = some (a, b) ∧ m.verts[a]? = some pa ∧ m.verts[b]? = some pb ∧
      m'.verts = m.verts ++ [mid pa pb] ∧
      m'.edges = m.edges.set eid (keyify a m.verts.length) ++ [keyify b m.verts.length] ∧
      m'.faces = m.faces ∧ m'.cells = m.cells := by
  unfold splitEdge at h
  cases he : m.edges[eid]? with
  | none => simp [he] at h
  | some ab =>
    obtain ⟨a, b⟩ := ab
    simp only [he] at h
    cases ha : m.verts[a]? with
    | none => simp [ha] at h
    | some pa =>
      cases hb : m.verts[b]? with
      | none => simp [ha, hb] at h
      | some pb =>
        simp only [ha, hb, pure, Except.pure, Except.ok.injEq] at h
        subst h
        exact ⟨a, b, pa, pb, rfl, ha, hb, rfl, rfl, rfl, rfl⟩

theorem cellFan_spec (m m' : Raw) (cid a b c d : Nat) (hc : m.cells[cid]? = some [a, b, c, d])
    (h : splitCellAsFan m cid = .ok m') :
    ∃ ps, pts m [a, b, c, d] = .ok ps ∧ m'.verts = m.verts ++ [Pt.smul (1/4) (sumPts ps)] ∧
      m'.cells = m.cells.set cid [m.verts.length, b, c, d] ++
        [[a, m.verts.length, c, d], [a, b, m.verts.length, d], [a, b, c, m.verts.length]] ∧
      m'.faces = m.faces ∧ m'.edges = m.edges := by
  simp only [splitCellAsFan, hc, bind, Except.bind] at h
  cases hp : pts m [a, b, c, d] with
  | error e => simp [hp] at h
  | ok ps =>
    simp only [hp, pure, Except.pure, Except.ok.injEq] at h
    subst h
    exact ⟨ps, rfl, rfl, rfl, rfl, rfl⟩

theorem splitOneCell_length (ic : Nat) (f : List Nat) (cells cells' : List (List Nat)) (c : Nat)
    (hall : ∀ x ∈ cells, x.length = 4) (h : splitOneCell ic f cells c = .ok cells') :
    cells'.length = cells.length + 2 ∧ (∀ x ∈ cells', x.length = 4) := by
  unfold splitOneCell at h
  cases hc : cells[c]? with
  | none => simp [hc] at h
  | some cell =>
    have hmem : cell ∈ cells := List.mem_of_getElem? hc
    have h4 := hall cell hmem
    simp only [hc, h4, ne_eq, not_true_eq_false, if_false] at h
    cases ho : oppIndex f cell with
    | none => simp [ho] at h
    | some iF =>
      simp only [ho] at h
      have hlen : ∀ x ∈ centreCells cell iF ic, x.length = 4 := by
        intro x hx
        simp only [centreCells, List.mem_map] at hx
        obtain ⟨i, _, rfl⟩ := hx
        simp [h4]
      cases hcc : centreCells cell iF ic with
      | nil => simp [hcc] at h
      | cons c0 t0 =>
        rcases t0 with _ | ⟨c1, _ | ⟨c2, _ | ⟨c3, t3⟩⟩⟩
        all_goals simp only [hcc] at h
        all_goals try (simp [throw, throwThe, MonadExceptOf.throw] at h)
        simp only [pure, Except.pure, Except.ok.injEq] at h
        subst h
        rw [hcc] at hlen
        refine ⟨by simp, ?_⟩
        intro x hx
        rcases List.mem_append.mp hx with h1 | h1
        · rcases List.mem_or_eq_of_mem_set h1 with h2 | h2
          · exact hall x h2
          · subst h2; exact hlen _ (by simp)
        · simp only [List.mem_cons, List.not_mem_nil, or_false] at h1
          rcases h1 with h2 | h2 <;> subst h2 <;> exact hlen _ (by simp)

theorem foldE_splitOneCell_length (ic : Nat) (f : List Nat) : ∀ (adj : List Nat) (cells cells' : List (List Nat)),
    (∀ x ∈ cells, x.length = 4) → foldE (splitOneCell ic f) cells adj = .ok cells' →
    cells'.length = cells.length + 2 * adj.length ∧ (∀ x ∈ cells', x.length = 4)
  | [], cells, cells', hall, h => by
    simp only [foldE, Except.ok.injEq] at h; subst h; exact ⟨by simp, hall⟩
  | c :: t, cells, cells', hall, h => by
    simp only [foldE] at h
    cases h1 : splitOneCell ic f cells c with
    | error e => simp [h1] at h
    | ok cs1 =>
      simp only [h1] at h
      obtain ⟨hl1, hall1⟩ := splitOneCell_length ic f cells cs1 c hall h1
      obtain ⟨hl2, hall2⟩ := foldE_splitOneCell_length ic f t cs1 cells' hall1 h
      exact ⟨by rw [hl2, hl1]; simp; ring, hall2⟩

theorem faceSplit_spec (m m' : Raw) (fid a b c : Nat) (hf : m.faces[fid]? = some [a, b, c])
    (h : splitTetFromFaceCenter m fid = .ok m') :
    ∃ ps cells, pts m [a, b, c] = .ok ps ∧ foldE (splitOneCell m.verts.length [a, b, c]) m.cells (adjacentCells m [a, b, c]) = .ok cells ∧
      m'.verts = m.verts ++ [(sumPts ps).divn 3] ∧ m'.cells = cells ∧
      m'.faces = m.faces.set fid [a, b, m.verts.length] ++ [[m.verts.length, b, c], [a, m.verts.length, c]] ∧
      m'.edges = m.edges := by
  simp only [splitTetFromFaceCenter, hf, bind, Except.bind] at h
  cases hp : pts m [a, b, c] with
  | error e => simp [hp] at h
  | ok ps =>
    simp only [hp] at h
    cases hc : foldE (splitOneCell m.verts.length [a, b, c]) m.cells (adjacentCells m [a, b, c]) with
    | error e => simp [hc] at h
    | ok cells =>
      simp only [hc, pure, Except.pure, Except.ok.injEq] at h
      subst h
      exact ⟨ps, cells, rfl, rfl, rfl, rfl, rfl, rfl⟩

end Mouette.Subdiv
