import Mathlib.Data.List.Nodup
import Mathlib.Data.List.Perm.Subperm
import Mouette.Lemmas.GraphRank
/-
Orientation of a forest from a root (`EdgeMinimalSpanningTree.compute`, second half): basic facts about the
tree-neighbour lists and about "attachment lists" (every entry hangs a new vertex below an older one).
-/
namespace Mouette.Trees
open Mouette.UF

/-- `u` and `x` are joined by a stored edge (in either orientation) -/
def adjT (tes : List (Nat × Nat)) (u x : Nat) : Prop := (u, x) ∈ tes ∨ (x, u) ∈ tes

theorem adjT_symm {tes : List (Nat × Nat)} {u x : Nat} (h : adjT tes u x) : adjT tes x u := Or.symm h

theorem adjT_CR {tes : List (Nat × Nat)} {u x : Nat} (h : adjT tes u x) : CR tes u x := by
  rcases h with h | h
  · exact EqvClosure.rel h
  · exact EqvClosure.symm (EqvClosure.rel h)

theorem mem_treeNbrs {tes : List (Nat × Nat)} {u x : Nat} : x ∈ treeNbrs tes u ↔ adjT tes u x := by
  unfold treeNbrs adjT
  simp only [List.mem_filterMap]
  constructor
  · rintro ⟨e, he, hx⟩
    split at hx
    · rename_i h1
      simp at hx
      left
      have : e = (u, x) := by ext <;> simp [h1, hx]
      rw [← this]; exact he
    · split at hx
      · rename_i _ h2
        simp at hx
        right
        have : e = (x, u) := by ext <;> simp [h2, hx]
        rw [← this]; exact he
      · simp at hx
  · rintro (h | h)
    · exact ⟨(u, x), h, by simp⟩
    · refine ⟨(x, u), h, ?_⟩
      by_cases hxu : x = u
      · subst hxu; simp
      · simp [hxu]

theorem treeNbrs_cons (p : Nat × Nat) (C : List (Nat × Nat)) (u : Nat) :
    treeNbrs (p :: C) u =
      (if p.1 = u then [p.2] else if p.2 = u then [p.1] else []) ++ treeNbrs C u := by
  unfold treeNbrs
  rw [List.filterMap_cons]
  by_cases h1 : p.1 = u
  · simp [h1]
  · by_cases h2 : p.2 = u
    · simp [h1, h2]
    · simp [h1, h2]

/-- in a forest no neighbour is listed twice, and no vertex is its own neighbour -/
theorem treeNbrs_nodup : ∀ (C : List (Nat × Nat)) (u : Nat), Indep C → (treeNbrs C u).Nodup
  | [], _, _ => by simp [treeNbrs]
  | p :: C, u, hi => by
    have ih := treeNbrs_nodup C u hi.1
    rw [treeNbrs_cons]
    by_cases h1 : p.1 = u
    · rw [if_pos h1]
      simp only [List.singleton_append, List.nodup_cons]
      refine ⟨?_, ih⟩
      intro hm
      apply hi.2
      rw [h1]
      exact adjT_CR (mem_treeNbrs.mp hm)
    · rw [if_neg h1]
      by_cases h2 : p.2 = u
      · rw [if_pos h2]
        simp only [List.singleton_append, List.nodup_cons]
        refine ⟨?_, ih⟩
        intro hm
        apply hi.2
        rw [h2]
        exact (adjT_CR (mem_treeNbrs.mp hm)).symm
      · rw [if_neg h2]; simpa using ih

theorem indep_no_loop {C : List (Nat × Nat)} (hi : Indep C) {a : Nat} : (a, a) ∉ C := by
  induction C with
  | nil => simp
  | cons p C ih =>
    intro h
    rcases List.mem_cons.mp h with h | h
    · apply hi.2
      rw [← h]
      exact CR.refl C a
    · exact ih hi.1 h

/-- a duplicate-free sub-collection of a forest is a forest -/
theorem indep_of_nodup_subset {n : Nat} {T U : List (Nat × Nat)} (hr : InRange n T) (hi : Indep T) (hn : U.Nodup)
    (hs : ∀ p ∈ U, p ∈ T) : Indep U := by
  obtain ⟨l, hl, hsub⟩ := List.Nodup.subperm hn (fun p hp => hs p hp)
  have h1 : Indep l := Indep.sublist hsub hi
  have hrl : InRange n l := fun p hp => hr p (hsub.subset hp)
  exact Indep.perm hrl hl h1

theorem indep_map_keyify : ∀ (C : List (Nat × Nat)), Indep C → Indep (C.map (fun p => keyify p.1 p.2))
  | [], _ => trivial
  | p :: C, hi => by
    refine ⟨indep_map_keyify C hi.1, ?_⟩
    have hsub : ∀ u v, CR (C.map (fun p => keyify p.1 p.2)) u v → CR C u v := by
      intro u v h
      induction h with
      | @rel a b hab =>
        obtain ⟨q, hq, he⟩ := List.mem_map.mp hab
        rcases keyify_fst_snd q.1 q.2 with ⟨e1, e2⟩ | ⟨e1, e2⟩
        · have : q = (a, b) := by
            ext
            · rw [← e1, he]
            · rw [← e2, he]
          rw [this] at hq; exact EqvClosure.rel hq
        · have : q = (b, a) := by
            ext
            · rw [← e2, he]
            · rw [← e1, he]
          rw [this] at hq; exact EqvClosure.symm (EqvClosure.rel hq)
      | refl a => exact CR.refl _ _
      | symm _ ih => exact ih.symm
      | trans _ _ i1 i2 => exact i1.trans i2
    intro h
    have h' := hsub _ _ h
    apply hi.2
    rcases keyify_fst_snd p.1 p.2 with ⟨e1, e2⟩ | ⟨e1, e2⟩
    · rw [e1, e2] at h'; exact h'
    · rw [e1, e2] at h'; exact h'.symm

/-! ### attachment lists (most recent entry first) -/

/-- vertices known so far -/
def VV (root : Nat) (Ar : List (Nat × Nat)) : List Nat := root :: Ar.map Prod.fst

/-- every entry `(c, p)` hangs a new vertex `c` below an already known vertex `p` -/
def Attach (root : Nat) : List (Nat × Nat) → Prop
  | [] => True
  | q :: Ar => Attach root Ar ∧ q.2 ∈ VV root Ar ∧ q.1 ∉ VV root Ar

theorem VV_mono {root : Nat} {q : Nat × Nat} {Ar : List (Nat × Nat)} {x : Nat} (h : x ∈ VV root Ar) :
    x ∈ VV root (q :: Ar) := by
  unfold VV at h ⊢
  simp only [List.map_cons, List.mem_cons] at h ⊢
  rcases h with h | h
  · exact Or.inl h
  · exact Or.inr (Or.inr h)

theorem attach_nodup {root : Nat} : ∀ (Ar : List (Nat × Nat)), Attach root Ar → (VV root Ar).Nodup
  | [], _ => by simp [VV]
  | q :: Ar, h => by
    have ih := attach_nodup Ar h.1
    have hq := h.2.2
    unfold VV at ih hq ⊢
    simp only [List.map_cons, List.nodup_cons, List.mem_cons, not_or] at ih hq ⊢
    refine ⟨⟨?_, ih.1⟩, hq.2, ih.2⟩
    exact fun h' => hq.1 h'.symm

theorem attach_endpoints {root : Nat} : ∀ (Ar : List (Nat × Nat)), Attach root Ar →
    ∀ q ∈ Ar, q.1 ∈ VV root Ar ∧ q.2 ∈ VV root Ar
  | [], _, q, hq => by simp at hq
  | q0 :: Ar, h, q, hq => by
    rcases List.mem_cons.mp hq with rfl | hq
    · exact ⟨by simp [VV], VV_mono h.2.1⟩
    · obtain ⟨a, b⟩ := attach_endpoints Ar h.1 q hq
      exact ⟨VV_mono a, VV_mono b⟩

/-- every known vertex is connected to the root through the attachment entries -/
theorem attach_conn {root : Nat} : ∀ (Ar : List (Nat × Nat)), Attach root Ar → ∀ x ∈ VV root Ar, CR Ar root x
  | [], _, x, hx => by
    simp [VV] at hx; subst hx; exact CR.refl _ _
  | q :: Ar, h, x, hx => by
    have ih := attach_conn Ar h.1
    have mono : ∀ y, CR Ar root y → CR (q :: Ar) root y :=
      fun y hy => CR.mono (fun p hp => List.mem_cons_of_mem _ hp) hy
    unfold VV at hx
    simp only [List.map_cons, List.mem_cons] at hx
    rcases hx with hx | hx | hx
    · subst hx; exact CR.refl _ _
    · subst hx
      have h1 := mono _ (ih q.2 h.2.1)
      have h2 : CR (q :: Ar) q.1 q.2 := EqvClosure.rel (by simp)
      exact h1.trans h2.symm
    · exact mono _ (ih x (by unfold VV; simp [hx]))

/-- no two entries are mutual parents -/
theorem attach_no_mutual {root : Nat} : ∀ (Ar : List (Nat × Nat)), Attach root Ar → ∀ a b, (a, b) ∈ Ar → (b, a) ∈ Ar → False
  | [], _, _, _, h, _ => by simp at h
  | q :: Ar, h, a, b, h1, h2 => by
    have hend := attach_endpoints Ar h.1
    rcases List.mem_cons.mp h1 with e1 | h1' <;> rcases List.mem_cons.mp h2 with e2 | h2'
    · -- q = (a,b) = (b,a): a = b, but q.2 ∈ VV, q.1 ∉ VV
      rw [← e1] at e2
      have hab : b = a := congrArg Prod.fst e2
      have := h.2.1; have := h.2.2
      rw [← e1] at *
      simp only at *
      subst hab
      contradiction
    · -- q = (a,b), (b,a) ∈ Ar: a = snd of an older entry, so known, but q.1 = a is new
      have := (hend _ h2').2
      apply h.2.2
      rw [← e1]; exact this
    · -- q = (b,a), (a,b) ∈ Ar
      have := (hend _ h1').2
      apply h.2.2
      rw [← e2]; exact this
    · exact attach_no_mutual Ar h.1 a b h1' h2'

theorem attach_unique {root : Nat} {Ar : List (Nat × Nat)} (h : Attach root Ar) {q q' : Nat × Nat}
    (hq : q ∈ Ar) (hq' : q' ∈ Ar) (he : q.1 = q'.1) : q = q' := by
  have hn := attach_nodup Ar h
  unfold VV at hn
  have hn' : (Ar.map Prod.fst).Nodup := (List.nodup_cons.mp hn).2
  exact List.inj_on_of_nodup_map hn' hq hq' he

end Mouette.Trees
