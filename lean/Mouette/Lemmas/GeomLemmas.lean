import Mouette.Model.Geom
import Mathlib.Tactic.Ring
import Mathlib.Tactic.LinearCombination
import Mathlib.Tactic.FieldSimp
import Mathlib.Tactic.Linarith
/-
Helper lemmas for C07/C08: componentwise algebra of `V3`, linearity of `M3.apply`, the cofactor identity
behind `cross (R a) (R b) = det R • R (cross a b)`.
-/
namespace Mouette.Geom

/-- unfold every vector operation to components and close by `ring` -/
macro "v3ring" : tactic =>
  `(tactic| (simp only [add, sub, smul, dot, cross, norm2, dist2, det3, mid, triArea2, cornerCS, tetDet, M3.apply, M3.det,
      M3.c0, M3.c1, M3.c2, V3.zero] <;> ring))

macro "v3ext" : tactic =>
  `(tactic| (apply V3.ext <;> v3ring))

theorem add_zero' (a : V3) : add a V3.zero = a := by v3ext
theorem add_comm' (a b : V3) : add a b = add b a := by v3ext
theorem add_assoc' (a b c : V3) : add (add a b) c = add a (add b c) := by v3ext
theorem smul_add' (k : Rat) (a b : V3) : smul k (add a b) = add (smul k a) (smul k b) := by v3ext
theorem smul_smul' (k l : Rat) (a : V3) : smul k (smul l a) = smul (k * l) a := by v3ext
theorem add_sub_cancel' (a t : V3) : sub (add a t) t = a := by v3ext

theorem apply_add (m : M3) (a b : V3) : m.apply (add a b) = add (m.apply a) (m.apply b) := by v3ext
theorem apply_sub (m : M3) (a b : V3) : m.apply (sub a b) = sub (m.apply a) (m.apply b) := by v3ext
theorem apply_smul (m : M3) (k : Rat) (a : V3) : m.apply (smul k a) = smul k (m.apply a) := by v3ext

theorem cross_smul_left (k : Rat) (a b : V3) : cross (smul k a) b = smul k (cross a b) := by v3ext
theorem cross_smul_right (k : Rat) (a b : V3) : cross a (smul k b) = smul k (cross a b) := by v3ext
theorem norm2_smul (k : Rat) (a : V3) : norm2 (smul k a) = k * k * norm2 a := by v3ring
theorem dot_smul_right (k : Rat) (a b : V3) : dot a (smul k b) = k * dot a b := by v3ring

theorem vsum_map_add (ps : List V3) (t : V3) :
    vsum (ps.map (fun p => add p t)) = add (vsum ps) (smul (ps.length : Rat) t) := by
  induction ps with
  | nil => apply V3.ext <;> simp [vsum, add, smul, V3.zero]
  | cons p ps ih =>
    simp only [List.map_cons, vsum, List.foldr_cons, List.length_cons] at ih ⊢
    rw [ih]
    apply V3.ext <;> simp only [add, smul] <;> push_cast <;> ring

theorem vsum_map_apply (m : M3) (ps : List V3) : vsum (ps.map m.apply) = m.apply (vsum ps) := by
  induction ps with
  | nil => apply V3.ext <;> simp [vsum, M3.apply, dot, V3.zero]
  | cons p ps ih =>
    simp only [List.map_cons, vsum, List.foldr_cons] at ih ⊢
    rw [ih, apply_add]

theorem vsum_map_smul (k : Rat) (ps : List V3) : vsum (ps.map (smul k)) = smul k (vsum ps) := by
  induction ps with
  | nil => apply V3.ext <;> simp [vsum, smul, V3.zero]
  | cons p ps ih =>
    simp only [List.map_cons, vsum, List.foldr_cons] at ih ⊢
    rw [ih, smul_add']

theorem absR_neg (q : Rat) : absR (-q) = absR q := by
  unfold absR
  by_cases h : q < 0
  · have : ¬ (-q < 0) := by linarith
    simp [h, this]
  · by_cases h0 : q = 0
    · simp [h0]
    · have : -q < 0 := by
        have : 0 < q := lt_of_le_of_ne (not_lt.mp h) (Ne.symm h0)
        linarith
      simp [h, this]

theorem rsum_map_mul_const (ws : List Rat) (c : Rat) : rsum (ws.map (fun w => w * c)) = rsum ws * c := by
  induction ws with
  | nil => simp [rsum]
  | cons w ws ih =>
    simp only [rsum, List.map_cons, List.foldr_cons] at ih ⊢
    rw [ih]; ring

/-- numerator of the circumcentre offset -/
abbrev ccW (u v : V3) : V3 := cross (sub (smul (norm2 u) v) (smul (norm2 v) u)) (cross u v)

theorem ccW_dot_u (u v : V3) : dot (ccW u v) u = norm2 u * norm2 (cross u v) := by v3ring
theorem ccW_dot_v (u v : V3) : dot (ccW u v) v = norm2 v * norm2 (cross u v) := by v3ring
theorem ccW_dot_n (u v : V3) : dot (ccW u v) (cross u v) = 0 := by v3ring

theorem dist2_offset (a b w : V3) (k : Rat) :
    dist2 (add a (smul k w)) b = norm2 (sub b a) - 2 * k * dot w (sub b a) + k * k * norm2 w := by v3ring
theorem dist2_offset_self (a w : V3) (k : Rat) : dist2 (add a (smul k w)) a = k * k * norm2 w := by v3ring
theorem dot_offset (a w n : V3) (k : Rat) : dot (sub (add a (smul k w)) a) n = k * dot w n := by v3ring

/-- Cramer: a vector is determined by its products with `u`, `v`, `u × v` (determinant `|u × v|²`) -/
theorem solve3 (u v d : V3) :
    smul (norm2 (cross u v)) d =
      add (add (smul (dot d u) (cross v (cross u v))) (smul (dot d v) (cross (cross u v) u)))
        (smul (dot d (cross u v)) (cross u v)) := by v3ext

theorem dist2_diff (p q a b : V3) :
    dist2 p a - dist2 p b - (dist2 q a - dist2 q b) = 2 * dot (sub p q) (sub b a) := by v3ring
theorem dot_sub_diff (p q a n : V3) : dot (sub p a) n - dot (sub q a) n = dot (sub p q) n := by v3ring

end Mouette.Geom
