import Mouette.Generated.C04Readers
import Mouette.Lemmas.C04Basic
import Mouette.Lemmas.C04Source
/-
C04 (round 4) — bridges for the READERS translated from the source (`Generated/C04Readers.lean`): `import_xyz` (line loop) and
`parse_tet_data`, `parse_off_data` (deque, header counts, `for _ in range(n)` loops, per-record if-chain) and `parse_vertex` + `parse_obj_data`
(line loop filling the mesh and the list of face records, then the loop over the face records) compute what the hand models
`importXyz` / `importTet` / `importOff` / `importObj` compute.
-/
set_option linter.unusedSimpArgs false
set_option linter.unusedVariables false
namespace Mouette.IOS
open Mouette.IO Mouette.Generated
variable {C : Type}


theorem xyzStep_bridge (cd : Codec C) (r : Raw C) (l : Line) : C04R.xyzStep cd r l = stepXyz cd r l := by
  unfold C04R.xyzStep stepXyz
  cases h : mapOpt (readNum cd) l with
  | none => rfl
  | some d =>
    match d with
    | [] => simp [vec3]
    | [a] => simp
    | [a, b] => simp [vec3]
    | a :: b :: c :: t => simp [vec3]

theorem importXyz_bridge (cd : Codec C) (file : File) : C04R.importXyz cd file = IO.importXyz cd file := by
  unfold C04R.importXyz IO.importXyz
  have : C04R.xyzStep cd = stepXyz cd := by funext r l; exact xyzStep_bridge cd r l
  rw [this]


theorem iter_succ {σ : Type} (body : σ → Option σ) (n : Nat) (s : σ) : iter body (n + 1) s = (body s).bind (iter body n) := by
  cases h : body s <;> simp [iter, h]

theorem popEach_eq {β : Type} (g : Line → Option β) (upd : Raw C → β → Raw C) : ∀ (n : Nat) (d : File) (r : Raw C),
    popEach g upd n (d, r) =
      if d.length < n then none else (mapOpt g (d.take n)).map (fun xs => (d.drop n, xs.foldl upd r))
  | 0, d, r => by simp [popEach, iter, mapOpt]
  | n + 1, [], r => by simp [popEach, iter, popStep, popLine]
  | n + 1, l :: t, r => by
    have ih := popEach_eq g upd n t
    unfold popEach at ih ⊢
    rw [iter_succ]
    have h1 : popStep g upd (l :: t, r) = (g l).map (fun x => (t, upd r x)) := by
      unfold popStep popLine; cases hg : g l <;> simp [hg]
    rw [h1]
    cases hg : g l with
    | none => simp [mapOpt, hg]
    | some x =>
      simp only [Option.map_some, Option.bind_some, ih]
      by_cases hlt : t.length < n
      · simp [hlt]
      · simp only [hlt, List.length_cons, Nat.add_lt_add_iff_right, if_false, List.take_succ_cons, List.drop_succ_cons, mapOpt, hg]
        cases mapOpt g (List.take n t) <;> simp

theorem readCoords_eq (cd : Codec C) (l : Line) : readCoords cd l = (mapOpt (readNum cd) l).bind vec3 := by
  match l with
  | [] => simp [readCoords, mapOpt, vec3]
  | [a] => cases ha : readNum cd a <;> simp [readCoords, mapOpt, vec3, ha]
  | [a, b] => cases ha : readNum cd a <;> cases hb : readNum cd b <;> simp [readCoords, mapOpt, vec3, ha, hb]
  | [a, b, c] =>
    cases ha : readNum cd a <;> cases hb : readNum cd b <;> cases hc : readNum cd c <;> simp [readCoords, mapOpt, vec3, ha, hb, hc]
  | a :: b :: c :: e :: t =>
    cases h : mapOpt (readNum cd) (a :: b :: c :: e :: t) with
    | none => simp [readCoords]
    | some r =>
      have := mapOpt_length _ _ _ h
      match r, this with
      | x :: y :: z :: w :: u, _ => simp [readCoords, vec3]

theorem readTetRec_eq (l : Line) : readTetRec l = mapOpt readNat (slice 1 none l) := by
  cases l <;> simp [readTetRec, slice, mapOpt, readNat]

theorem foldl_snoc_verts (r : Raw C) (xs : List (C × C × C)) :
    xs.foldl (fun r x => { r with verts := r.verts ++ [x] }) r = { r with verts := r.verts ++ xs } := by
  induction xs generalizing r with
  | nil => simp
  | cons a t ih => simp [List.foldl_cons, ih, List.append_assoc]

theorem foldl_snoc_cells (r : Raw C) (xs : List (List Nat)) :
    xs.foldl (fun r x => { r with cells := r.cells ++ [x] }) r = { r with cells := r.cells ++ xs } := by
  induction xs generalizing r with
  | nil => simp
  | cons a t ih => simp [List.foldl_cons, ih, List.append_assoc]

theorem parseTet_bridge (cd : Codec C) (file : File) : C04R.parseTet cd file = importTet cd file := by
  unfold C04R.parseTet importTet
  match file with
  | [] => simp [popLine]
  | [l1] =>
    cases l1 with
    | nil => simp [popLine, tokAt]
    | cons a t => simp only [popLine, tokAt, List.getElem?_cons_zero, Option.bind_some]; cases readNat a <;> rfl
  | [] :: l2 :: rest => simp [popLine, tokAt]
  | (a :: _) :: [] :: rest =>
    simp only [popLine, tokAt, List.getElem?_cons_zero, Option.bind_some]
    cases readNat a <;> simp
  | (a :: _) :: (b :: _) :: rest =>
    simp only [popLine, tokAt, List.getElem?_cons_zero, Option.bind_some, readNat]
    cases ha : readIdx0 a with
    | none => rfl
    | some nv =>
      cases hb : readIdx0 b with
      | none => rfl
      | some nc =>
        simp only [popEach_eq, foldl_snoc_verts, foldl_snoc_cells]
        have hc : (fun l => (mapOpt (readNum cd) l).bind vec3) = readCoords cd := by funext l; rw [readCoords_eq]
        have ht : (fun l => mapOpt readIdx0 (slice 1 none l)) = readTetRec := by funext l; rw [readTetRec_eq]; rfl
        rw [hc, ht]
        by_cases h1 : rest.length < nv
        · have : rest.length < nv + nc := by omega
          simp [h1, this]
        · simp only [h1, if_false]
          cases hv : mapOpt (readCoords cd) (List.take nv rest) with
          | none => by_cases h3 : rest.length < nv + nc <;> simp [h3]
          | some vs =>
            simp only [Option.map_some, List.length_drop]
            by_cases h2 : rest.length - nv < nc
            · have : rest.length < nv + nc := by omega
              simp [h2, this]
            · have : ¬ rest.length < nv + nc := by omega
              simp only [h2, this, if_false]
              cases mapOpt readTetRec (List.take nc (List.drop nv rest)) <;> simp [Raw.empty]


/-! ### off -/


theorem popFold_eq (step : Raw C → Line → Option (Raw C)) : ∀ (n : Nat) (d : File) (r : Raw C),
    popFold step n (d, r) = if d.length < n then none else (foldOpt step r (d.take n)).map (fun r' => (d.drop n, r'))
  | 0, d, r => by simp [popFold, iter, foldOpt]
  | n + 1, [], r => by simp [popFold, iter, popFoldStep, popLine]
  | n + 1, l :: t, r => by
    have ih := popFold_eq step n t
    unfold popFold at ih ⊢
    rw [iter_succ]
    have h1 : popFoldStep step (l :: t, r) = (step r l).map (fun r' => (t, r')) := by
      unfold popFoldStep popLine; cases hg : step r l <;> simp [hg]
    rw [h1]
    cases hg : step r l with
    | none => simp [foldOpt, hg]
    | some x =>
      simp only [Option.map_some, Option.bind_some, ih]
      by_cases hlt : t.length < n
      · simp [hlt]
      · simp only [hlt, List.length_cons, Nat.add_lt_add_iff_right, if_false, List.take_succ_cons, List.drop_succ_cons, foldOpt, hg]

theorem offRecord_bridge (r : Raw C) (l : Line) : C04R.offRecord r l = stepOff r l := by
  unfold C04R.offRecord stepOff
  cases l with
  | nil => simp [tokAt]
  | cons t rest =>
    simp only [tokAt, List.getElem?_cons_zero, Option.bind_some]
    cases ht : readInt t with
    | none => rfl
    | some k =>
      simp only [slice, readNat, List.take_succ_cons, List.drop_succ_cons, List.drop_zero, beq_iff_eq]
      by_cases h3 : k = 3
      · simp only [h3, if_true]; cases mapOpt readIdx0 (List.take 3 rest) <;> rfl
      · by_cases h4 : k = 4
        · have h43 : ¬ ((4 : Int) = 3) := by decide
          have h42 : ¬ ((4 : Int) = 2) := by decide
          simp only [h4, h43, h42, if_true, if_false]; cases mapOpt readIdx0 (List.take 4 rest) <;> rfl
        · by_cases h2 : k = 2 <;> simp [h2, h3, h4]

theorem parseOff_bridge (cd : Codec C) (file : File) : C04R.parseOff cd file = importOff cd file := by
  unfold C04R.parseOff importOff
  match file with
  | [] => simp [popLine]
  | [] :: rest => simp [popLine, tokAt]
  | [h :: _] =>
    simp only [popLine, tokAt, List.getElem?_cons_zero]
    cases h <;> simp
  | (h :: _) :: l2 :: rest =>
    simp only [popLine, tokAt, List.getElem?_cons_zero]
    by_cases hh : h = Tok.kw "OFF"
    · subst hh
      simp only [bne_self_eq_false, Bool.false_eq_true, if_false, if_true]
      match l2 with
      | [] => simp [three]
      | [a] => simp [three]
      | [a, b] => simp [three]
      | a :: b :: c :: e :: t => simp [three]
      | [a, b, c] =>
        simp only [three, readNat]
        cases ha : readIdx0 a with
        | none => rfl
        | some nv =>
          cases hb : readIdx0 b with
          | none => rfl
          | some nf =>
            cases hc : readInt c with
            | none => rfl
            | some ne =>
              simp only [popEach_eq, popFold_eq, foldl_snoc_verts]
              have hcd : (fun l => (mapOpt (readNum cd) l).bind vec3) = readCoords cd := by funext l; rw [readCoords_eq]
              have hst : (C04R.offRecord : Raw C → Line → Option (Raw C)) = stepOff := by funext r l; exact offRecord_bridge r l
              rw [hcd, hst]
              by_cases h1 : rest.length < nv
              · have : rest.length < nv + nf := by omega
                simp [h1, this]
              · simp only [h1, if_false]
                cases hv : mapOpt (readCoords cd) (List.take nv rest) with
                | none => by_cases h3 : rest.length < nv + nf <;> simp [h3]
                | some vs =>
                  simp only [Option.map_some, List.length_drop]
                  by_cases h2 : rest.length - nv < nf
                  · have : rest.length < nv + nf := by omega
                    simp [h2, this]
                  · have : ¬ rest.length < nv + nf := by omega
                    simp only [h2, this, if_false, Raw.empty, List.nil_append]
                    cases hf : foldOpt stepOff ({ verts := vs } : Raw C) (List.take nf (List.drop nv rest)) <;> simp [hf]
    · have hne : (h != Tok.kw "OFF") = true := by simp [hh]
      simp only [hne, if_true]
      cases h with
      | kw k =>
        have hk : k ≠ "OFF" := fun e => hh (by rw [e])
        match l2 with
        | [] => rfl
        | [a] => rfl
        | [a, b] => rfl
        | a :: b :: c :: e :: t => rfl
        | [a, b, c] => simp [hk]
      | int i => rfl
      | txt s => rfl

/-! ### obj -/


abbrev vids (fs : List (List (Nat × Int × Int))) : List (List Nat) := fs.map (fun F => F.map (·.1))

/-- corner triples produced by `parse_vertex` on plain tokens -/
def Plain (F : List (Nat × Int × Int)) : Prop := ∀ c ∈ F, c.2.1 = -1 ∧ c.2.2 = -1

theorem mapOpt_parseVertex (ts : List Tok) :
    mapOpt C04R.parseVertex ts = (mapOpt readIdx1 ts).map (fun f => f.map (fun v => (v, (-1 : Int), (-1 : Int)))) := by
  induction ts with
  | nil => rfl
  | cons t r ih =>
    unfold mapOpt
    rw [ih]
    unfold C04R.parseVertex
    cases readIdx1 t <;> cases mapOpt readIdx1 r <;> simp

theorem mapOpt_objCorner (F : List (Nat × Int × Int)) (h : Plain F) : mapOpt C04R.objCorner F = some (F.map (·.1)) := by
  induction F with
  | nil => rfl
  | cons c t ih =>
    have hc := h c (by simp)
    have ht : Plain t := fun x hx => h x (by simp [hx])
    unfold mapOpt
    rw [ih ht]
    simp [C04R.objCorner, hc.1, hc.2]

theorem mapOpt_faces (fs : List (List (Nat × Int × Int))) (h : ∀ F ∈ fs, Plain F) :
    mapOpt (fun F => mapOpt C04R.objCorner F) fs = some (vids fs) := by
  induction fs with
  | nil => rfl
  | cons F t ih =>
    unfold mapOpt
    rw [mapOpt_objCorner F (h F (by simp)), ih (fun G hG => h G (by simp [hG]))]
    simp [vids]

/-- the model state that corresponds to (mesh, pending face records) -/
def merge (s : Raw C × List (List (Nat × Int × Int))) : Raw C := { s.1 with faces := s.1.faces ++ vids s.2 }

theorem vec3_take3 (cd : Codec C) (rest : Line) :
    (mapOpt (readNum cd) (rest.take 3)).bind vec3 =
      match rest with
      | a :: b :: c :: _ =>
        match readNum cd a, readNum cd b, readNum cd c with
        | some x, some y, some z => some (x, y, z)
        | _, _, _ => none
      | _ => none := by
  match rest with
  | [] => simp [mapOpt, vec3]
  | [a] => cases ha : readNum cd a <;> simp [mapOpt, vec3, ha]
  | [a, b] => cases ha : readNum cd a <;> cases hb : readNum cd b <;> simp [mapOpt, vec3, ha, hb]
  | a :: b :: c :: t =>
    cases ha : readNum cd a <;> cases hb : readNum cd b <;> cases hc : readNum cd c <;> simp [mapOpt, vec3, ha, hb, hc]

theorem objLine_bridge (cd : Codec C) (s : Raw C × List (List (Nat × Int × Int))) (hp : ∀ F ∈ s.2, Plain F) (l : Line) :
    match C04R.objLine cd s l with
    | none => stepObj cd (merge s) l = none
    | some s' => stepObj cd (merge s) l = some (merge s') ∧ ∀ F ∈ s'.2, Plain F := by
  unfold C04R.objLine
  match l with
  | [] => simp [stepObj]; exact hp
  | .int i :: rest => simp [stepObj, tokAt]; exact hp
  | .txt i :: rest => simp [stepObj, tokAt]; exact hp
  | .kw k :: rest =>
    simp only [List.isEmpty_cons, Bool.false_eq_true, if_false, tokAt, List.getElem?_cons_zero, beq_iff_eq, Tok.kw.injEq]
    unfold stepObj
    simp only []
    by_cases hv : k = "v"
    · subst hv
      simp only [if_true, slice, List.take_succ_cons, List.drop_succ_cons, List.drop_zero, vec3_take3]
      match rest with
      | [] => simp
      | [a] => simp
      | [a, b] => simp
      | a :: b :: c :: t =>
        cases ha : readNum cd a <;> cases hb : readNum cd b <;> cases hc : readNum cd c <;> simp [merge, ha, hb, hc] <;> exact hp
    · simp only [hv, if_false]
      by_cases hvn : k = "vn"
      · subst hvn; simp
      · simp only [hvn, if_false]
        by_cases hvt : k = "vt"
        · subst hvt; simp
        · simp only [hvt, if_false]
          by_cases hf : k = "f"
          · subst hf
            simp only [if_true, slice, List.drop_succ_cons, List.drop_zero, mapOpt_parseVertex]
            cases hr : mapOpt readIdx1 rest with
            | none => simp
            | some f =>
              simp only [Option.map_some, merge, vids, List.map_append, List.map_cons, List.map_nil, List.map_map]
              refine ⟨?_, ?_⟩
              · simp [List.append_assoc, Function.comp_def]
              · intro F hF
                rcases List.mem_append.mp hF with h | h
                · exact hp F h
                · have : F = f.map (fun v => (v, (-1 : Int), (-1 : Int))) := by simpa using h
                  subst this
                  intro c hc
                  obtain ⟨v, _, rfl⟩ := List.mem_map.mp hc
                  exact ⟨rfl, rfl⟩
          · simp only [hf, if_false]
            by_cases hl : k = "l"
            · subst hl
              simp only [if_true]
              match rest with
              | [] => simp
              | [a] => cases ha : readIdx1 a <;> simp [ha]
              | a :: b :: t =>
                cases ha : readIdx1 a <;> cases hb : readIdx1 b <;> simp [merge, ha, hb] <;> exact hp
            · simp [hl, hvn, hvt]; exact hp

theorem foldObj_bridge (cd : Codec C) : ∀ (file : File) (s : Raw C × List (List (Nat × Int × Int))) (hp : ∀ F ∈ s.2, Plain F),
    match foldOpt (C04R.objLine cd) s file with
    | none => foldOpt (stepObj cd) (merge s) file = none
    | some s' => foldOpt (stepObj cd) (merge s) file = some (merge s') ∧ ∀ F ∈ s'.2, Plain F
  | [], s, hp => by simp [foldOpt]; exact hp
  | l :: t, s, hp => by
    have h1 := objLine_bridge cd s hp l
    unfold foldOpt
    cases hl : C04R.objLine cd s l with
    | none => rw [hl] at h1; simp only [] at h1 ⊢; rw [h1]
    | some s' =>
      rw [hl] at h1
      simp only [] at h1 ⊢
      rw [h1.1]
      exact foldObj_bridge cd t s' h1.2

theorem parseObj_bridge (cd : Codec C) (file : File) : C04R.parseObj cd file = importObj cd file := by
  unfold C04R.parseObj importObj
  have h := foldObj_bridge cd file (Raw.empty, []) (by simp)
  have hm : merge ((Raw.empty : Raw C), ([] : List (List (Nat × Int × Int)))) = Raw.empty := by simp [merge, Raw.empty, vids]
  rw [hm] at h
  cases hf : foldOpt (C04R.objLine cd) (Raw.empty, []) file with
  | none => rw [hf] at h; simp only [] at h ⊢; rw [h]
  | some s' =>
    rw [hf] at h
    simp only [] at h ⊢
    rw [h.1, mapOpt_faces s'.2 h.2]
    rfl


/-! ### medit: the `while data:` loop of `import_medit` and `parse_field` against the line-by-line automaton `stepMedit` -/


/-- the automaton of `Model/IO.lean` run from a given mode, with its end-of-file check -/
def medRun (cd : Codec C) (mode : MedMode) (r : Raw C) (file : File) : Option (Raw C) :=
  match foldOpt (stepMedit cd meditRows) (mode, r) file with
  | some (.idle, r) => some r
  | some (.done, r) => some r
  | _ => none

theorem medRun_nil_idle (cd : Codec C) (r : Raw C) : medRun cd .idle r [] = some r := rfl

theorem medRun_cons (cd : Codec C) (mode : MedMode) (r : Raw C) (l : Line) (t : File) :
    medRun cd mode r (l :: t) = match stepMedit cd meditRows (mode, r) l with
      | none => none
      | some s => medRun cd s.1 s.2 t := by
  unfold medRun
  simp only [foldOpt]
  cases stepMedit cd meditRows (mode, r) l <;> rfl

theorem medRun_done (cd : Codec C) (r : Raw C) : ∀ file : File, medRun cd .done r file = some r
  | [] => rfl
  | l :: t => by rw [medRun_cons]; simp [stepMedit, medRun_done cd r t]

theorem fieldRecord_eq (k : Nat) (l : Line) : C04R.fieldRecord k l = readField k l := rfl

/-- a block being read: if one automaton step on a block line is "parse with `g`, store with `upd`", the automaton run is the
`for _ in range(n)` loop followed by the run from idle -/
theorem medRun_block {β : Type} (cd : Codec C) (what : Option (Cont × Nat)) (g : Line → Option β) (upd : Raw C → β → Option (Raw C))
    (hstep : ∀ (n : Nat) (r : Raw C) (l : Line), stepMedit cd meditRows (.inBlock what (n + 1), r) l =
      ((g l).bind (upd r)).map (fun r' => (afterCount what n, r'))) :
    ∀ (n : Nat) (d : File) (r : Raw C),
    medRun cd (afterCount what n) r d =
      match popFold (fun r l => (g l).bind (upd r)) n (d, r) with
      | none => none
      | some s => medRun cd .idle s.2 s.1
  | 0, d, r => by simp [afterCount, popFold, iter]
  | n + 1, [], r => by simp [afterCount, popFold, iter, popFoldStep, popLine, medRun, foldOpt]
  | n + 1, l :: t, r => by
    have ih := medRun_block cd what g upd hstep n t
    have hac : afterCount what (n + 1) = .inBlock what (n + 1) := by simp [afterCount]
    rw [hac, medRun_cons, hstep]
    unfold popFold at ih ⊢
    rw [iter_succ]
    have h1 : popFoldStep (fun r l => (g l).bind (upd r)) (l :: t, r) = ((g l).bind (upd r)).map (fun r' => (t, r')) := by
      unfold popFoldStep popLine; cases hg : (g l).bind (upd r) <;> simp [hg]
    rw [h1]
    cases hg : (g l).bind (upd r) with
    | none => simp
    | some r' => simp [ih]

theorem popEach_as_popFold {β : Type} (g : Line → Option β) (u : Raw C → β → Raw C) (n : Nat) (s : RSt C) :
    popEach g u n s = popFold (fun r l => (g l).bind (fun x => some (u r x))) n s := by
  unfold popEach popFold
  have : popStep g u = popFoldStep (fun r l => (g l).bind (fun x => some (u r x))) := by
    funext s
    unfold popStep popFoldStep
    cases popLine s.1 with
    | none => rfl
    | some p => cases hg : g p.1 <;> simp [hg]
  rw [this]

theorem parseField_as_popFold (c : Cont) (n k : Nat) (s : RSt C) :
    C04R.parseField c n k s = popFold (fun r l => (readField k l).bind (fun x => pushElem r c x)) n s := by
  unfold C04R.parseField
  congr 1
  funext r l
  rw [fieldRecord_eq]
  cases readField k l <;> rfl

theorem medRun_vertsBlock (cd : Codec C) (n : Nat) (d : File) (r : Raw C) :
    medRun cd (afterCount none n) r d =
      match popEach (fun l => (mapOpt (readNum cd) (slice 0 (some 3) l)).bind vec3) (fun r x => { r with verts := r.verts ++ [x] }) n (d, r) with
      | none => none
      | some s => medRun cd .idle s.2 s.1 := by
  rw [popEach_as_popFold]
  apply medRun_block cd none (fun l => (mapOpt (readNum cd) (slice 0 (some 3) l)).bind vec3)
    (fun r x => some { r with verts := r.verts ++ [x] })
  intro n r l
  simp only [slice, List.drop_zero, vec3_take3, stepMedit]
  match l with
  | [] => simp
  | [a] => simp
  | [a, b] => simp
  | a :: b :: c :: u =>
    cases ha : readNum cd a <;> cases hb : readNum cd b <;> cases hc : readNum cd c <;> simp [ha, hb, hc]

theorem medRun_fieldBlock (cd : Codec C) (c : Cont) (k n : Nat) (d : File) (r : Raw C) :
    medRun cd (afterCount (some (c, k)) n) r d =
      match C04R.parseField c n k (d, r) with
      | none => none
      | some s => medRun cd .idle s.2 s.1 := by
  rw [parseField_as_popFold]
  apply medRun_block cd (some (c, k)) (readField k) (fun r x => pushElem r c x)
  intro n r l
  simp only [stepMedit]
  cases hf : readField k l with
  | none => simp
  | some e => cases hp : pushElem r c e <;> simp [hp]

/-- the count line that follows a block keyword -/
theorem medRun_count (cd : Codec C) (what : Option (Cont × Nat)) (r : Raw C) (d : File) :
    medRun cd (.count what) r d =
      match popLine d with
      | none => none
      | some (l1, d) => match (one l1).bind readNat with
        | none => none
        | some n => medRun cd (afterCount what n) r d := by
  cases d with
  | nil => simp [popLine, medRun, foldOpt]
  | cons l t =>
    rw [medRun_cons]
    simp only [popLine, stepMedit, readNat]
    match l with
    | [] => simp [one]
    | [a] => cases ha : readIdx0 a <;> simp [one, ha]
    | a :: b :: u => simp [one]

theorem popEach_length {β : Type} (g : Line → Option β) (u : Raw C → β → Raw C) (n : Nat) (d : File) (r : Raw C) (s : RSt C)
    (h : popEach g u n (d, r) = some s) : s.1.length ≤ d.length := by
  rw [popEach_eq] at h
  by_cases hl : d.length < n
  · simp [hl] at h
  · simp only [hl, if_false] at h
    cases hm : mapOpt g (List.take n d) with
    | none => simp [hm] at h
    | some xs => simp [hm] at h; subst h; simp

theorem popFold_length (step : Raw C → Line → Option (Raw C)) (n : Nat) (d : File) (r : Raw C) (s : RSt C)
    (h : popFold step n (d, r) = some s) : s.1.length ≤ d.length := by
  rw [popFold_eq] at h
  by_cases hl : d.length < n
  · simp [hl] at h
  · simp only [hl, if_false] at h
    cases hm : foldOpt step r (List.take n d) with
    | none => simp [hm] at h
    | some xs => simp [hm] at h; subst h; simp

theorem parseField_length (c : Cont) (n k : Nat) (d : File) (r : Raw C) (s : RSt C)
    (h : C04R.parseField c n k (d, r) = some s) : s.1.length ≤ d.length :=
  popFold_length _ n d r s h

/-- one keyword branch of the loop: count line, block, then the loop again -/
theorem branch_field (cd : Codec C) (c : Cont) (k : Nat) (fuel : Nat) (rest : File) (r : Raw C)
    (ih : ∀ (d : File) (r : Raw C), d.length < fuel → C04R.meditLoop cd fuel (d, r) = medRun cd .idle r d)
    (hf : rest.length < fuel + 1) :
    (match popLine rest with
      | none => none
      | some (l1, d) =>
      match (one l1).bind readNat with
      | none => none
      | some n1 =>
      match C04R.parseField c n1 k (d, r) with
      | none => none
      | some s => C04R.meditLoop cd fuel s) = medRun cd (.count (some (c, k))) r rest := by
  rw [medRun_count]
  cases rest with
  | nil => rfl
  | cons l1 d =>
    simp only [popLine]
    cases hn : (one l1).bind readNat with
    | none => rfl
    | some n1 =>
      simp only []
      rw [medRun_fieldBlock]
      cases hp : C04R.parseField c n1 k (d, r) with
      | none => rfl
      | some s =>
        simp only []
        have := parseField_length c n1 k d r s hp
        have hl : s.1.length < fuel := by simp at hf; omega
        have := ih s.1 s.2 hl
        simpa using this

theorem branch_verts (cd : Codec C) (fuel : Nat) (rest : File) (r : Raw C)
    (ih : ∀ (d : File) (r : Raw C), d.length < fuel → C04R.meditLoop cd fuel (d, r) = medRun cd .idle r d)
    (hf : rest.length < fuel + 1) :
    (match popLine rest with
      | none => none
      | some (l1, d) =>
      match (one l1).bind readNat with
      | none => none
      | some n1 =>
      match popEach (fun l => (mapOpt (readNum cd) (slice 0 (some 3) l)).bind vec3) (fun r x => { r with verts := r.verts ++ [x] }) n1 (d, r) with
      | none => none
      | some s => C04R.meditLoop cd fuel s) = medRun cd (.count none) r rest := by
  rw [medRun_count]
  cases rest with
  | nil => rfl
  | cons l1 d =>
    simp only [popLine]
    cases hn : (one l1).bind readNat with
    | none => rfl
    | some n1 =>
      simp only []
      rw [medRun_vertsBlock]
      cases hp : popEach (fun l => (mapOpt (readNum cd) (slice 0 (some 3) l)).bind vec3) (fun r x => { r with verts := r.verts ++ [x] }) n1 (d, r) with
      | none => rfl
      | some s =>
        simp only []
        have := popEach_length _ _ n1 d r s hp
        have hl : s.1.length < fuel := by simp at hf; omega
        have := ih s.1 s.2 hl
        simpa using this

theorem meditLoop_bridge (cd : Codec C) : ∀ (fuel : Nat) (d : File) (r : Raw C), d.length < fuel →
    C04R.meditLoop cd fuel (d, r) = medRun cd .idle r d
  | 0, d, r, h => by omega
  | fuel + 1, [], r, h => by simp [C04R.meditLoop, popLine, medRun_nil_idle]
  | fuel + 1, line :: rest, r, h => by
    have ih := meditLoop_bridge cd fuel
    have hrest : rest.length < fuel := by simp at h; omega
    have hrest1 : rest.length < fuel + 1 := by omega
    unfold C04R.meditLoop
    simp only [popLine, beq_iff_eq]
    rw [medRun_cons]
    match line with
    | [] => simp [stepMedit, ih rest r hrest]
    | [.int i] => simp [stepMedit, ih rest r hrest]
    | [.txt i] => simp [stepMedit, ih rest r hrest]
    | a :: b :: u => simp [stepMedit, ih rest r hrest]
    | [.kw k] =>
      simp only [List.cons.injEq, Tok.kw.injEq, and_true, stepMedit]
      by_cases h1 : k = "End"
      · subst h1; simp [medRun_done]
      · by_cases h2 : k = "Vertices"
        · subst h2
          simp only [h1, if_false, if_true]
          exact branch_verts cd fuel rest r ih hrest1
        · simp only [h1, h2, if_false]
          by_cases h3 : k = "Edges"
          · subst h3
            simp only [if_true, meditRows, lookupRow]
            exact branch_field cd .edges 2 fuel rest r ih hrest1
          · by_cases h4 : k = "Triangles"
            · subst h4
              simp only [h3, if_false, if_true, meditRows, lookupRow]
              exact branch_field cd .faces 3 fuel rest r ih hrest1
            · by_cases h5 : k = "Quadrilaterals"
              · subst h5
                simp only [h3, h4, if_false, if_true, meditRows, lookupRow]
                exact branch_field cd .faces 4 fuel rest r ih hrest1
              · by_cases h6 : k = "Tetrahedra"
                · subst h6
                  simp only [h3, h4, h5, if_false, if_true, meditRows, lookupRow]
                  exact branch_field cd .cells 4 fuel rest r ih hrest1
                · by_cases h7 : k = "Hexahedra"
                  · subst h7
                    simp only [h3, h4, h5, h6, if_false, if_true, meditRows, lookupRow]
                    exact branch_field cd .cells 8 fuel rest r ih hrest1
                  · simp only [h3, h4, h5, h6, h7, if_false, meditRows, lookupRow]
                    exact ih rest r hrest

theorem importMedit_bridge (cd : Codec C) (file : File) : C04R.importMedit cd file = importMedit cd file := by
  unfold C04R.importMedit
  rw [meditLoop_bridge cd (file.length + 1) file Raw.empty (by omega)]
  rfl

end Mouette.IOS
