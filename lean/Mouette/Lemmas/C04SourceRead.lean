import Mouette.Generated.C04Readers
import Mouette.Lemmas.C04Basic
import Mouette.Lemmas.C04Source
/-
C04 (round 4) — bridges for the READERS translated from the source (`Generated/C04Readers.lean`): `import_xyz` (line loop) and
`parse_tet_data` (deque, header counts, `for _ in range(n)` loops) compute what the hand models `importXyz` / `importTet` compute.
-/
set_option linter.unusedSimpArgs false
namespace Mouette.IOS
open Mouette.IO Mouette.Generated
variable {C : Type}


theorem xyzStep_bridge (cd : Codec C) (r : Raw C) (l : Line) : C04R.xyzStep cd r l = stepXyz cd r l := by
  unfold C04R.xyzStep stepXyz
  cases h : mapOpt (readNum cd) l with
  | none => rfl
  | some d =>
    match d with
    | [] => simp [vec3]
    | [a] => simp
    | [a, b] => simp [vec3]
    | a :: b :: c :: t => simp [vec3]

theorem importXyz_bridge (cd : Codec C) (file : File) : C04R.importXyz cd file = IO.importXyz cd file := by
  unfold C04R.importXyz IO.importXyz
  have : C04R.xyzStep cd = stepXyz cd := by funext r l; exact xyzStep_bridge cd r l
  rw [this]


theorem iter_succ {σ : Type} (body : σ → Option σ) (n : Nat) (s : σ) : iter body (n + 1) s = (body s).bind (iter body n) := by
  cases h : body s <;> simp [iter, h]

theorem popEach_eq {β : Type} (g : Line → Option β) (upd : Raw C → β → Raw C) : ∀ (n : Nat) (d : File) (r : Raw C),
    popEach g upd n (d, r) =
      if d.length < n then none else (mapOpt g (d.take n)).map (fun xs => (d.drop n, xs.foldl upd r))
  | 0, d, r => by simp [popEach, iter, mapOpt]
  | n + 1, [], r => by simp [popEach, iter, popStep, popLine]
  | n + 1, l :: t, r => by
    have ih := popEach_eq g upd n t
    unfold popEach at ih ⊢
    rw [iter_succ]
    have h1 : popStep g upd (l :: t, r) = (g l).map (fun x => (t, upd r x)) := by
      unfold popStep popLine; cases hg : g l <;> simp [hg]
    rw [h1]
    cases hg : g l with
    | none => simp [mapOpt, hg]
    | some x =>
      simp only [Option.map_some, Option.bind_some, ih]
      by_cases hlt : t.length < n
      · simp [hlt]
      · simp only [hlt, List.length_cons, Nat.add_lt_add_iff_right, if_false, List.take_succ_cons, List.drop_succ_cons, mapOpt, hg]
        cases mapOpt g (List.take n t) <;> simp

theorem readCoords_eq (cd : Codec C) (l : Line) : readCoords cd l = (mapOpt (readNum cd) l).bind vec3 := by
  match l with
  | [] => simp [readCoords, mapOpt, vec3]
  | [a] => cases ha : readNum cd a <;> simp [readCoords, mapOpt, vec3, ha]
  | [a, b] => cases ha : readNum cd a <;> cases hb : readNum cd b <;> simp [readCoords, mapOpt, vec3, ha, hb]
  | [a, b, c] =>
    cases ha : readNum cd a <;> cases hb : readNum cd b <;> cases hc : readNum cd c <;> simp [readCoords, mapOpt, vec3, ha, hb, hc]
  | a :: b :: c :: e :: t =>
    cases h : mapOpt (readNum cd) (a :: b :: c :: e :: t) with
    | none => simp [readCoords]
    | some r =>
      have := mapOpt_length _ _ _ h
      match r, this with
      | x :: y :: z :: w :: u, _ => simp [readCoords, vec3]

theorem readTetRec_eq (l : Line) : readTetRec l = mapOpt readNat (slice 1 none l) := by
  cases l <;> simp [readTetRec, slice, mapOpt, readNat]

theorem foldl_snoc_verts (r : Raw C) (xs : List (C × C × C)) :
    xs.foldl (fun r x => { r with verts := r.verts ++ [x] }) r = { r with verts := r.verts ++ xs } := by
  induction xs generalizing r with
  | nil => simp
  | cons a t ih => simp [List.foldl_cons, ih, List.append_assoc]

theorem foldl_snoc_cells (r : Raw C) (xs : List (List Nat)) :
    xs.foldl (fun r x => { r with cells := r.cells ++ [x] }) r = { r with cells := r.cells ++ xs } := by
  induction xs generalizing r with
  | nil => simp
  | cons a t ih => simp [List.foldl_cons, ih, List.append_assoc]

theorem parseTet_bridge (cd : Codec C) (file : File) : C04R.parseTet cd file = importTet cd file := by
  unfold C04R.parseTet importTet
  match file with
  | [] => simp [popLine]
  | [l1] =>
    cases l1 with
    | nil => simp [popLine, tokAt]
    | cons a t => simp only [popLine, tokAt, List.getElem?_cons_zero, Option.bind_some]; cases readNat a <;> rfl
  | [] :: l2 :: rest => simp [popLine, tokAt]
  | (a :: _) :: [] :: rest =>
    simp only [popLine, tokAt, List.getElem?_cons_zero, Option.bind_some]
    cases readNat a <;> simp
  | (a :: _) :: (b :: _) :: rest =>
    simp only [popLine, tokAt, List.getElem?_cons_zero, Option.bind_some, readNat]
    cases ha : readIdx0 a with
    | none => rfl
    | some nv =>
      cases hb : readIdx0 b with
      | none => rfl
      | some nc =>
        simp only [popEach_eq, foldl_snoc_verts, foldl_snoc_cells]
        have hc : (fun l => (mapOpt (readNum cd) l).bind vec3) = readCoords cd := by funext l; rw [readCoords_eq]
        have ht : (fun l => mapOpt readIdx0 (slice 1 none l)) = readTetRec := by funext l; rw [readTetRec_eq]; rfl
        rw [hc, ht]
        by_cases h1 : rest.length < nv
        · have : rest.length < nv + nc := by omega
          simp [h1, this]
        · simp only [h1, if_false]
          cases hv : mapOpt (readCoords cd) (List.take nv rest) with
          | none => by_cases h3 : rest.length < nv + nc <;> simp [h3]
          | some vs =>
            simp only [Option.map_some, List.length_drop]
            by_cases h2 : rest.length - nv < nc
            · have : rest.length < nv + nc := by omega
              simp [h2, this]
            · have : ¬ rest.length < nv + nc := by omega
              simp only [h2, this, if_false]
              cases mapOpt readTetRec (List.take nc (List.drop nv rest)) <;> simp [Raw.empty]

end Mouette.IOS
