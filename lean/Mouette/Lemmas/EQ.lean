import Mathlib.Tactic.Linarith
import Mathlib.Tactic.Ring
import Mouette.Model.AABB
/-
Order facts about `EQ` (rationals with ±∞) and the soundness of the point–box distance:
a point of the closed box is at least as far from `q` as the box.
-/
namespace Mouette.AABB
open EQ

namespace EQ

@[simp] theorem le_def (a b : EQ) : (a ≤ b) = (leB a b = true) := rfl
@[simp] theorem lt_def (a b : EQ) : (a < b) = (leB b a = false) := rfl

theorem fin_le_fin {x y : Rat} : (fin x ≤ fin y) ↔ x ≤ y := by simp [leB]
theorem fin_lt_fin {x y : Rat} : (fin x < fin y) ↔ x < y := by simp [leB]

theorem le_refl' (a : EQ) : a ≤ a := by cases a <;> simp [leB]

theorem le_trans' {a b c : EQ} (h1 : a ≤ b) (h2 : b ≤ c) : a ≤ c := by
  cases a <;> cases b <;> cases c <;> simp_all [leB]
  exact le_trans h1 h2

theorem le_total' (a b : EQ) : a ≤ b ∨ b ≤ a := by
  cases a <;> cases b <;> simp [leB]
  exact le_total _ _

theorem le_antisymm' {a b : EQ} (h1 : a ≤ b) (h2 : b ≤ a) : a = b := by
  cases a <;> cases b <;> simp_all [leB]
  exact le_antisymm h1 h2

theorem not_lt' {a b : EQ} : ¬ a < b ↔ b ≤ a := by simp

theorem not_le' {a b : EQ} : ¬ a ≤ b ↔ b < a := by simp

theorem lt_of_lt_of_le' {a b c : EQ} (h1 : a < b) (h2 : b ≤ c) : a < c := by
  cases a <;> cases b <;> cases c <;> simp_all [leB]
  exact lt_of_lt_of_le h1 h2

theorem max_le_iff {a b c : EQ} : EQ.max a b ≤ c ↔ a ≤ c ∧ b ≤ c := by
  unfold EQ.max
  split
  · rename_i h; exact ⟨fun h' => ⟨le_trans' h h', h'⟩, fun h' => h'.2⟩
  · rename_i h
    have : b ≤ a := by rcases le_total' a b with h' | h' <;> [exact absurd h' h; exact h']
    exact ⟨fun h' => ⟨h', le_trans' this h'⟩, fun h' => h'.1⟩

theorem le_max_left' (a b : EQ) : a ≤ EQ.max a b := by
  unfold EQ.max; split
  · assumption
  · exact le_refl' a

theorem le_max_right' (a b : EQ) : b ≤ EQ.max a b := by
  unfold EQ.max; split
  · exact le_refl' b
  · rename_i h; rcases le_total' a b with h' | h' <;> [exact absurd h' h; exact h']

theorem le_min_iff {a b c : EQ} : c ≤ EQ.min a b ↔ c ≤ a ∧ c ≤ b := by
  unfold EQ.min
  split
  · rename_i h; exact ⟨fun h' => ⟨h', le_trans' h' h⟩, fun h' => h'.1⟩
  · rename_i h
    have : b ≤ a := by rcases le_total' a b with h' | h' <;> [exact absurd h' h; exact h']
    exact ⟨fun h' => ⟨le_trans' h' this, h'⟩, fun h' => h'.2⟩

theorem min_le_left' (a b : EQ) : EQ.min a b ≤ a := by
  unfold EQ.min; split
  · exact le_refl' a
  · rename_i h; rcases le_total' a b with h' | h' <;> [exact absurd h' h; exact h']

theorem min_le_right' (a b : EQ) : EQ.min a b ≤ b := by
  unfold EQ.min; split
  · assumption
  · exact le_refl' b

theorem max_cases (a b : EQ) : EQ.max a b = a ∨ EQ.max a b = b := by
  unfold EQ.max; split <;> simp

theorem min_cases (a b : EQ) : EQ.min a b = a ∨ EQ.min a b = b := by
  unfold EQ.min; split <;> simp

theorem add_le_fin {a b : EQ} {x y : Rat} (ha : a ≤ fin x) (hb : b ≤ fin y) : EQ.add a b ≤ fin (x + y) := by
  cases a <;> cases b <;> simp_all [leB, EQ.add]
  linarith

end EQ

namespace Box

@[simp] theorem max_ninf_left (a : EQ) : EQ.max ninf a = a := by simp [EQ.max, leB]
@[simp] theorem max_fin_ninf (x : Rat) : EQ.max (fin x) ninf = fin x := by simp [EQ.max, leB]
@[simp] theorem max_fin_fin (x y : Rat) : EQ.max (fin x) (fin y) = fin (rmax x y) := by
  unfold EQ.max rmax; by_cases h : x ≤ y <;> simp [leB, h]

theorem excess_ninf_pinf (b : Rat) : excess ninf pinf b = fin 0 := by
  simp [excess, EQ.subR, EQ.rsub]
theorem excess_fin_pinf (x b : Rat) : excess (fin x) pinf b = fin (rmax (x - b) 0) := by
  simp [excess, EQ.subR, EQ.rsub]
theorem excess_ninf_fin (y b : Rat) : excess ninf (fin y) b = fin (rmax (b - y) 0) := by
  simp [excess, EQ.subR, EQ.rsub]
theorem excess_fin_fin (x y b : Rat) : excess (fin x) (fin y) b = fin (rmax (rmax (x - b) (b - y)) 0) := by
  simp [excess, EQ.subR, EQ.rsub]

/-- one coordinate: the excess of `b` over `[l,h]`, squared, is at most `(a-b)²` for every `a ∈ [l,h]` -/
theorem sq_excess_le {l h : EQ} {a b : Rat} (hl : l ≤ fin a) (hh : fin a ≤ h) :
    (excess l h b).sq ≤ fin ((a - b) * (a - b)) := by
  cases l <;> cases h
  all_goals first
    | (simp [leB] at hl; done)
    | (simp [leB] at hh; done)
    | skip
  · rw [excess_ninf_fin]; simp only [EQ.sq]; rw [fin_le_fin]
    have hh' := fin_le_fin.mp hh
    unfold rmax; split <;> nlinarith [mul_self_nonneg (a - b)]
  · rw [excess_ninf_pinf]; simp only [EQ.sq]; rw [fin_le_fin]
    nlinarith [mul_self_nonneg (a - b)]
  · rw [excess_fin_fin]; simp only [EQ.sq]; rw [fin_le_fin]
    have hh' := fin_le_fin.mp hh
    have hl' := fin_le_fin.mp hl
    unfold rmax; split <;> split <;> nlinarith [mul_self_nonneg (a - b)]
  · rw [excess_fin_pinf]; simp only [EQ.sq]; rw [fin_le_fin]
    have hl' := fin_le_fin.mp hl
    unfold rmax; split <;> nlinarith [mul_self_nonneg (a - b)]

/-- a point of the closed box is at least as far from `q` as the box (squared l2 distance) -/
theorem dist2_le_of_inside : ∀ (lo hi : List EQ) (p q : List Rat),
    insideClosed lo hi p = true → normL2sq (distVec lo hi q) ≤ fin (Mouette.AABB.sqDistR p q)
  | [], hi, p, q, h => by
    cases hi <;> cases p <;> simp [insideClosed] at h
    simp [distVec, normL2sq, sqDistR, leB]
  | l :: ls, [], p, q, h => by simp [insideClosed] at h
  | l :: ls, h' :: hs, [], q, h => by simp [insideClosed] at h
  | l :: ls, h' :: hs, a :: ps, [], h => by simp [distVec, normL2sq, sqDistR, leB]
  | l :: ls, h' :: hs, a :: ps, b :: qs, h => by
    simp only [insideClosed, Bool.and_eq_true, decide_eq_true_eq] at h
    simp only [distVec, normL2sq, sqDistR]
    exact add_le_fin (sq_excess_le h.1.1 h.1.2) (dist2_le_of_inside ls hs ps qs h.2)

end Box
end Mouette.AABB
