import Mouette.Lemmas.SubdivEdges3
import Mouette.Lemmas.SubdivVolume
/-
C13 (round 2): E' = 2E + 3F for `subdivide_triangles_3quads`, E'' = 2E + 6F for the 1→6 refinement, and the Euler
characteristic of the refined meshes.
-/
namespace Mouette.Subdiv

theorem mem_number {α} : ∀ (k : Nat) (l : List α) (p : Nat × α), p ∈ number k l → p.2 ∈ l ∧ k ≤ p.1 ∧ p.1 < k + l.length
  | _, [], p, h => by simp [number] at h
  | k, a :: t, p, h => by
    simp only [number, List.mem_cons] at h
    rcases h with rfl | h
    · simp
    · obtain ⟨h1, h2, h3⟩ := mem_number (k + 1) t p h
      exact ⟨by simp [h1], by omega, by simp; omega⟩

theorem mem_number_of {α} : ∀ (k : Nat) (l : List α) (a : α), a ∈ l → ∃ s, (s, a) ∈ number k l
  | _, [], a, h => by simp at h
  | k, b :: t, a, h => by
    rcases List.mem_cons.mp h with rfl | h
    · exact ⟨k, by simp [number]⟩
    · obtain ⟨s, hs⟩ := mem_number_of (k + 1) t a h
      exact ⟨s, by simp [number, hs]⟩

theorem number_pairwise {α} : ∀ (k : Nat) (l : List α), (number k l).Pairwise (fun p q => p.1 ≠ q.1 ∧ k ≤ p.1 ∧ k ≤ q.1)
  | _, [] => List.Pairwise.nil
  | k, a :: t => by
    simp only [number, List.pairwise_cons]
    refine ⟨?_, (number_pairwise (k + 1) t).imp (fun ⟨h1, h2, h3⟩ => ⟨h1, by omega, by omega⟩)⟩
    intro q hq
    obtain ⟨_, h2, _⟩ := mem_number (k + 1) t q hq
    exact ⟨by simp; omega, by simp, by omega⟩

/-- **number of distinct edges after `subdivide_triangles_3quads`** (the part after its `triangulate`) -/
theorem quads3Core_edge_count (m m' : Raw) (h : quads3Core m = .ok m') (hE : EdgesAreSides m) (hN : TriNondeg m) :
    m'.edges.length = 2 * m.edges.length + 3 * m.faces.length := by
  simp only [quads3Core, bind, Except.bind] at h
  cases h1 : midpointsOf m with
  | error e => simp [h1] at h
  | ok mids =>
    cases h2 : baryCentres m with
    | error e => simp [h1, h2] at h
    | ok bs =>
      cases h3 : mapE (fun sf => quadsFace (m.edges, m.verts.length) sf.1 sf.2) (number (m.verts.length + m.edges.length) m.faces) with
      | error e => simp [h1, h2, h3] at h
      | ok parts =>
        simp only [h1, h2, h3, pure, Except.pure, Except.ok.injEq] at h
        subst h
        have hl := mapE_length _ _ _ h3
        rw [number_length] at hl
        have hdesc : ∀ (sf : Nat × List Nat) p, quadsFace (m.edges, m.verts.length) sf.1 sf.2 = .ok p →
            ∃ a b c mab mbc mca, sf.2 = [a, b, c] ∧ halfLookup m.edges m.verts.length (keyify a b) = some mab ∧
              halfLookup m.edges m.verts.length (keyify b c) = some mbc ∧
              halfLookup m.edges m.verts.length (keyify c a) = some mca ∧
              p.2.take 6 = sixHalves a b c mab mbc mca ∧ p.2.drop 6 = [keyify mab sf.1, keyify mbc sf.1, keyify mca sf.1] := by
          intro sf p hp
          obtain ⟨fs, es⟩ := p
          obtain ⟨a, b, c, mab, mbc, mca, hf, g1, g2, g3, _⟩ := quadsFace_spec _ _ _ _ _ hp
          rw [hf] at hp
          simp only [quadsFace, g1, g2, g3, bind, Except.bind, pure, Except.pure, Except.ok.injEq, Prod.mk.injEq] at hp
          obtain ⟨_, hes⟩ := hp
          subst hes
          exact ⟨a, b, c, mab, mbc, mca, hf, getHalf_ok _ _ _ _ _ g1, getHalf_ok _ _ _ _ _ g2, getHalf_ok _ _ _ _ _ g3, rfl, rfl⟩
        show (dedup (parts.flatMap (·.2))).length = _
        rw [← hl]
        apply count_refined_edges m.edges m.verts.length parts
        · intro e hee; have := hE.2.1 e hee; omega
        · apply halves_mem_iff m parts hE
          · intro p hp
            obtain ⟨sf, hsf, hfp⟩ := mapE_mem_back _ _ _ h3 p hp
            obtain ⟨a, b, c, mab, mbc, mca, e, l1, l2, l3, t6, _⟩ := hdesc sf p hfp
            exact ⟨sf.2, (mem_number _ _ _ hsf).1, a, b, c, mab, mbc, mca, e, l1, l2, l3, t6⟩
          · intro f hf
            obtain ⟨s, hs⟩ := mem_number_of (m.verts.length + m.edges.length) m.faces f hf
            obtain ⟨p, hp, hfp⟩ := mapE_mem_of _ _ _ h3 (s, f) hs
            obtain ⟨a, b, c, mab, mbc, mca, e, l1, l2, l3, t6, _⟩ := hdesc (s, f) p hfp
            exact ⟨p, hp, a, b, c, mab, mbc, mca, e, l1, l2, l3, t6⟩
        · intro p hp
          obtain ⟨sf, hsf, hfp⟩ := mapE_mem_back _ _ _ h3 p hp
          obtain ⟨a, b, c, mab, mbc, mca, e, l1, l2, l3, _, d6⟩ := hdesc sf p hfp
          obtain ⟨hfm, hs1, _⟩ := mem_number _ _ _ hsf
          rw [e] at hfm
          obtain ⟨d1, d2, d3⟩ := lookups_distinct _ _ _ _ _ _ _ _ (hN _ hfm) l1 l2 l3
          obtain ⟨b1, u1⟩ := lookup_ge _ _ _ _ l1
          obtain ⟨b2, u2⟩ := lookup_ge _ _ _ _ l2
          obtain ⟨b3, u3⟩ := lookup_ge _ _ _ _ l3
          rw [d6, keyify_sorted (by omega), keyify_sorted (by omega), keyify_sorted (by omega)]
          refine ⟨rfl, ?_, ?_⟩
          · simp only [List.nodup_cons, List.mem_cons, List.not_mem_nil, or_false, not_or, Prod.mk.injEq, and_true,
              List.nodup_nil, not_false_eq_true]
            exact ⟨⟨d1, fun e => d3 e.symm⟩, d2⟩
          · intro x hx
            simp only [List.mem_cons, List.not_mem_nil, or_false] at hx
            rcases hx with rfl | rfl | rfl <;> assumption
        · refine mapE_pairwise (fun sf : Nat × List Nat => quadsFace (m.edges, m.verts.length) sf.1 sf.2)
            (fun p q => p.1 ≠ q.1 ∧ m.verts.length + m.edges.length ≤ p.1 ∧ m.verts.length + m.edges.length ≤ q.1) _ ?_ _ parts
            (number_pairwise _ _) h3
          intro sf sg p q hp hq ⟨hne, hb1, hb2⟩
          obtain ⟨a, b, c, mab, mbc, mca, e, l1, l2, l3, _, d6⟩ := hdesc sf p hp
          obtain ⟨a', b', c', nab, nbc, nca, e', k1, k2, k3, _, d6'⟩ := hdesc sg q hq
          have u1 := (lookup_ge _ _ _ _ l1).2
          have u2 := (lookup_ge _ _ _ _ l2).2
          have u3 := (lookup_ge _ _ _ _ l3).2
          have v1 := (lookup_ge _ _ _ _ k1).2
          have v2 := (lookup_ge _ _ _ _ k2).2
          have v3 := (lookup_ge _ _ _ _ k3).2
          rw [d6, d6', keyify_sorted (by omega), keyify_sorted (by omega), keyify_sorted (by omega),
            keyify_sorted (by omega), keyify_sorted (by omega), keyify_sorted (by omega)]
          intro x hx hy
          simp only [List.mem_cons, List.not_mem_nil, or_false] at hx hy
          rcases hx with rfl | rfl | rfl <;> rcases hy with hy | hy | hy <;>
            exact hne (by simpa using congrArg Prod.snd hy)

/-! ### triangle meshes are left alone by `triangulate` -/

theorem triangulateFrom_tri : ∀ (ids : List Nat) (m : Raw), (∀ f ∈ m.faces, f.length = 3) → (∀ i ∈ ids, i < m.faces.length) →
    triangulateFrom m ids = .ok m
  | [], m, _, _ => rfl
  | i :: rest, m, h3, hlt => by
    have hi := hlt i (by simp)
    simp only [triangulateFrom, List.getElem?_eq_getElem hi, h3 _ (List.getElem_mem hi), ne_eq, not_true_eq_false, if_false]
    exact triangulateFrom_tri rest m h3 (fun j hj => hlt j (by simp [hj]))

theorem triangulate_tri (m : Raw) (h3 : ∀ f ∈ m.faces, f.length = 3) : triangulate m = .ok m :=
  triangulateFrom_tri _ m h3 (fun i hi => by simpa using hi)

/-! ### Euler characteristic of the refined triangle meshes -/

theorem loopOnce_chi (m m' : Raw) (h : loopOnce m = .ok m') (hE : EdgesAreSides m) (hN : TriNondeg m)
    (hS : SharesAtMostOne m) : chiRaw m' = chiRaw m := by
  obtain ⟨hv, hf, _⟩ := loop_counts' m m' h
  have he := loop_edge_count m m' h hE hN hS
  unfold chiRaw; rw [hv, hf, he]; push_cast; omega

theorem quads3Core_chi (m m' : Raw) (h : quads3Core m = .ok m') (hE : EdgesAreSides m) (hN : TriNondeg m) :
    chiRaw m' = chiRaw m := by
  obtain ⟨hv, hf, _⟩ := quads3Core_counts m m' h
  have he := quads3Core_edge_count m m' h hE hN
  unfold chiRaw; rw [hv, hf, he]; push_cast; omega

theorem quads3_tri (m m' : Raw) (h3 : ∀ f ∈ m.faces, f.length = 3) (h : quads3 m = .ok m') : quads3Core m = .ok m' := by
  rw [quads3_eq, triangulate_tri m h3] at h; exact h

/-- 1→6 on a triangle mesh: V'' = V+E+F, E'' = 2E+6F (3quads' distinct edges + one diagonal per quad), F'' = 6F -/
theorem sub6_tri_counts (m m' : Raw) (h3 : ∀ f ∈ m.faces, f.length = 3) (h : sub6 m 1 = .ok m')
    (hE : EdgesAreSides m) (hN : TriNondeg m) :
    m'.verts.length = m.verts.length + m.edges.length + m.faces.length ∧
    m'.edges.length = 2 * m.edges.length + 6 * m.faces.length ∧ m'.faces.length = 6 * m.faces.length := by
  simp only [sub6, iterM_one, bind, Except.bind] at h
  cases h1 : quads3 m with
  | error e => simp [h1] at h
  | ok m2 =>
    simp only [h1] at h
    have hc := quads3_tri m m2 h3 h1
    obtain ⟨hv2, hf2, h4, _⟩ := quads3Core_counts m m2 hc
    have he2 := quads3Core_edge_count m m2 hc hE hN
    obtain ⟨hv3, hf3, he3, _, _⟩ := triangulate_counts' m2 m' h
    have s1 : (m2.faces.map triExtraV).sum = 0 * m2.faces.length :=
      sum_map_const_of_forall triExtraV 0 m2.faces (fun f hf => by simp [triExtraV, h4 f hf])
    have s2 : (m2.faces.map triExtraF).sum = 1 * m2.faces.length :=
      sum_map_const_of_forall triExtraF 1 m2.faces (fun f hf => by simp [triExtraF, h4 f hf])
    have s3 : (m2.faces.map triExtraE).sum = 1 * m2.faces.length :=
      sum_map_const_of_forall triExtraE 1 m2.faces (fun f hf => by simp [triExtraE, h4 f hf])
    refine ⟨by rw [hv3, s1, hv2]; ring, by rw [he3, s3, he2, hf2]; ring, by rw [hf3, s2, hf2]; ring⟩

theorem sub6_tri_chi (m m' : Raw) (h3 : ∀ f ∈ m.faces, f.length = 3) (h : sub6 m 1 = .ok m')
    (hE : EdgesAreSides m) (hN : TriNondeg m) : chiRaw m' = chiRaw m := by
  obtain ⟨hv, he, hf⟩ := sub6_tri_counts m m' h3 h hE hN
  unfold chiRaw; rw [hv, he, hf]; push_cast; omega

end Mouette.Subdiv
