import Mouette.Lemmas.C04GeoAttrs
/-! C04 (round 2, P1): mouette's geogram importer reads the chunk list of an INDEPENDENT writer
(`refExportChunks`: all [ATTS] first; `facet_ptr` / `cell_ptr` when needed) for faces AND cells of any, mixed, arity. -/
namespace Mouette.IO.Geo
open Mouette.IO
variable {C : Type}

def szRef (m : Raw C) : Sizes := fun k => match k with
  | .vertices => m.verts.length | .edges => m.edges.length | .facets => m.faces.length
  | .facetCorners => m.faces.flatten.length | .cells => m.cells.length
  | .cellCorners => m.cells.flatten.length | .cellFacets => 0

set_option maxHeartbeats 4000000 in
theorem sizesOf_ref (cd : Codec C) (m : Raw C) : sizesOf (refExportChunks cd m) = szRef m := by
  funext k
  rw [sizesOf_eq]
  by_cases he : m.edges = [] <;> by_cases hf : m.faces = [] <;> by_cases hc : m.cells = [] <;>
    by_cases ht : allLen 3 m.faces = true <;> by_cases hq : allLen 4 m.cells = true <;>
    cases k <;>
    simp [refExportChunks, szStep, contOf, Cont.name, szRef, he, hf, hc, ht, hq]

set_option maxHeartbeats 4000000 in
theorem ptrPass_ref (cd : Codec C) (m : Raw C) :
    ptrPass (szRef m) (refExportChunks cd m) = some (ptrOf 3 m.faces, ptrOf 4 m.cells) := by
  have hp : ∀ fs : List (List Nat), mapOpt readIdx0 ((prefixSums 0 fs).map idx0) = some (prefixSums 0 fs) :=
    fun fs => mapOpt_idx0 _
  have hpsF : m.faces ≠ [] → ptrSizes m.faces.length (m.faces.map List.length).sum (prefixSums 0 m.faces)
      = some (m.faces.map List.length) := by
    intro hf; have := ptrSizes_export m.faces hf; simpa only [List.length_flatten] using this
  have hpsC : m.cells ≠ [] → ptrSizes m.cells.length (m.cells.map List.length).sum (prefixSums 0 m.cells)
      = some (m.cells.map List.length) := by
    intro hc; have := ptrSizes_export m.cells hc; simpa only [List.length_flatten] using this
  rw [ptrPass_eq]
  by_cases he : m.edges = [] <;> by_cases hf : m.faces = [] <;> by_cases hc : m.cells = [] <;>
    by_cases ht : allLen 3 m.faces = true <;> by_cases hq : allLen 4 m.cells = true <;>
    simp [refExportChunks, ptrStep, foldOpt, facetPtrName, cellPtrName, typeOf, szRef, ptrOf, he, hf, hc, ht, hq, hp,
      hpsF, hpsC]

def refExpected (m : Raw C) : GMesh C := { raw := { m with hard := none }, attrs := refPtrAttrs m, adj := [] }

set_option maxHeartbeats 16000000 in
theorem mainPass_ref (cd : Codec C) (h : RoundTrips cd) (m : Raw C) :
    foldOpt (stepImport cd (szRef m) (defaultPtr 3 m.faces.length (ptrOf 3 m.faces))
        (defaultPtr 4 m.cells.length (ptrOf 4 m.cells))) {} (refExportChunks cd m) = some (refExpected m) := by
  have hF := elemsBuild 3 m.faces
  have hC := elemsBuild 4 m.cells
  have hFc : mapOpt readIdx0 (m.faces.flatten.map idx0) = some m.faces.flatten := mapOpt_idx0 _
  have hCc : mapOpt readIdx0 (m.cells.flatten.map idx0) = some m.cells.flatten := mapOpt_idx0 _
  have hP := pts_read cd h m.verts
  have hE := edges_read m.edges
  have hE3 : (m.edges.flatMap (fun e => [e.1, e.2])).take (2 * m.edges.length)
      = m.edges.flatMap (fun e => [e.1, e.2]) := by
    apply List.take_of_length_le; rw [flat_len]; omega
  have hE4 := pairs_flat m.edges
  have hV := convVals_int cd (prefixSums 0 m.faces)
  have hW := convVals_int cd (prefixSums 0 m.cells)
  by_cases he : m.edges = [] <;> by_cases hf : m.faces = [] <;> by_cases hc : m.cells = [] <;>
    by_cases ht : allLen 3 m.faces = true <;> by_cases hq : allLen 4 m.cells = true <;>
    simp [refExportChunks, stepImport, foldOpt, facetPtrName, cellPtrName, typeOf, contOf, Cont.name, szRef,
      refExpected, refPtrAttrs, he, hf, hc, ht, hq, hF, hC, hFc, hCc, hP, hE, hE3, hE4, hV, hW, triples_flat, sum_two,
      -List.map_flatten]

theorem importChunks_refExportChunks (cd : Codec C) (h : RoundTrips cd) (m : Raw C) :
    importChunks cd (refExportChunks cd m) = some (refExpected m) := by
  unfold importChunks
  simp only [sizesOf_ref cd m, ptrPass_ref cd m]
  exact mainPass_ref cd h m

end Mouette.IO.Geo
