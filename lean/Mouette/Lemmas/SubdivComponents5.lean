import Mouette.Lemmas.SubdivManifold4
import Mouette.Lemmas.SubdivComponents4
/-
C13 (round 6): connected components through the 1→3 quads refinement.  Every vertex of the result has a representative in
the input (an old vertex: itself; an edge midpoint: the first end of its edge; a barycentre vertex: the first corner of its
face); a side of the result joins vertices whose representatives are connected in the input, and a side (u,v) of the input
is replaced by the path u - m_uv - v.
-/
namespace Mouette.Subdiv

theorem number_get {α} : ∀ (l : List α) (k i : Nat) (a : α), (i, a) ∈ number k l → k ≤ i ∧ l[i - k]? = some a := by
  intro l
  induction l with
  | nil => intro k i a h; simp [number] at h
  | cons b t ih =>
    intro k i a h
    simp only [number, List.mem_cons, Prod.mk.injEq] at h
    rcases h with ⟨rfl, rfl⟩ | h
    · simp
    · obtain ⟨h1, h2⟩ := ih (k + 1) i a h
      refine ⟨by omega, ?_⟩
      have : i - k = (i - (k + 1)) + 1 := by omega
      rw [this, List.getElem?_cons_succ]; exact h2

/-- the representative in the input of a vertex of the 1→3 quads mesh -/
def repQ (m : Raw) (z : Nat) : Nat :=
  if z < m.verts.length then z
  else if z < m.verts.length + m.edges.length then (m.edges.getD (z - m.verts.length) (0, 0)).1
  else ((m.faces.getD (z - (m.verts.length + m.edges.length)) []).headD 0)

theorem q3_components (m m' : Raw) (h : quads3Core m = .ok m') (hes : EdgesSorted m) :
    CompPres m m' ∧ (∀ z w, Adj m' z w → ∃ c, c < m.verts.length ∧ Conn m' w c) := by
  have hesb : ∀ e ∈ m.edges, e.1 < e.2 ∧ e.2 < m.verts.length := hes
  have memD := mem_dirSides_q3 m m' h hes
  obtain ⟨mids, bs, parts, _, _, h3, hv, _, _⟩ := quads3Core_spec m m' h
  -- representatives
  have repOld : ∀ z, z < m.verts.length → repQ m z = z := fun z hz => by simp [repQ, hz]
  have repMid : ∀ u v mu, halfLookup m.edges m.verts.length (keyify u v) = some mu → repQ m mu = u ∨ repQ m mu = v := by
    intro u v mu hl
    obtain ⟨i, hi, hmu, _, hcase, _⟩ := lookup_side m.edges m.verts.length u v mu hesb hl
    have : repQ m mu = m.edges[i].1 := by
      unfold repQ
      rw [if_neg (by omega), if_pos (by omega)]
      have : mu - m.verts.length = i := by omega
      rw [this, List.getD_eq_getElem?_getD, List.getElem?_eq_getElem hi]; rfl
    rw [this]
    rcases hcase with ⟨e1, _⟩ | ⟨_, e2⟩
    · exact Or.inl e1.symm
    · exact Or.inr e2.symm
  have repS : ∀ sf ∈ number (m.verts.length + m.edges.length) m.faces, ∀ a t, sf.2 = a :: t → repQ m sf.1 = a := by
    intro sf hsf a t hft
    obtain ⟨i, f⟩ := sf
    obtain ⟨h1, h2⟩ := number_get _ _ _ _ hsf
    simp only at hft
    unfold repQ
    rw [if_neg (by omega), if_neg (by omega), List.getD_eq_getElem?_getD, h2, hft]; rfl
  -- one side of the result: representatives connected in the input
  have side_step : ∀ x y, (x, y) ∈ dirSides m' → Conn m (repQ m x) (repQ m y) := by
    intro x y hxy
    obtain ⟨sf, hsf, hcase⟩ := (memD _).mp hxy
    obtain ⟨_, _, hfm⟩ := number_mem _ _ sf hsf
    rcases hcase with ⟨u, v, mu, huv, hl, hxe⟩ | ⟨t, mt, ht, l1, hxe⟩
    · obtain ⟨b1, b2, _, _⟩ := half_bounds hesb hl
      have cuv : Conn m u v := Relation.ReflTransGen.single (Or.inl (List.mem_flatMap.mpr ⟨sf.2, hfm, huv⟩))
      rcases hxe with e | e <;> simp only [Prod.mk.injEq] at e <;> rw [e.1, e.2]
      · rw [repOld u b1]
        rcases repMid u v mu hl with r | r <;> rw [r]
        · exact Relation.ReflTransGen.refl
        · exact cuv
      · rw [repOld v b2]
        rcases repMid u v mu hl with r | r <;> rw [r]
        · exact cuv
        · exact Relation.ReflTransGen.refl
    · obtain ⟨p, _, hfl⟩ := mapE_mem_of _ _ _ h3 sf hsf
      obtain ⟨a, b, c, mab, mbc, mca, hfe, _, _, _, _, _, _, _⟩ := q3_part_desc m hes sf.1 sf.2 p hfl
      have hS : repQ m sf.1 = a := repS sf hsf a [b, c] hfe
      have hM : repQ m mt ∈ sf.2 := by
        rw [hfe] at ht ⊢
        simp only [sidesKeyed_tri, List.mem_cons, List.not_mem_nil, or_false] at ht
        rcases ht with rfl | rfl | rfl
        · rcases repMid _ _ _ l1 with r | r <;> simp [r]
        · rcases repMid _ _ _ l1 with r | r <;> simp [r]
        · rcases repMid _ _ _ l1 with r | r <;> simp [r]
      have hA : a ∈ sf.2 := by rw [hfe]; simp
      rcases hxe with e | e <;> simp only [Prod.mk.injEq] at e <;> rw [e.1, e.2, hS]
      · exact face_conn m sf.2 hfm _ _ hM hA
      · exact face_conn m sf.2 hfm _ _ hA hM
  have project : ∀ x y, Conn m' x y → Conn m (repQ m x) (repQ m y) := by
    intro x y hc
    induction hc with
    | refl => exact Relation.ReflTransGen.refl
    | @tail u v _ huv ih =>
      rcases huv with huv | huv
      · exact ih.trans (side_step u v huv)
      · exact ih.trans (side_step v u huv).symm
  -- a side of the input is a path of two sides of the result
  have halves : ∀ u v, (u, v) ∈ dirSides m → ∃ mu, (u, mu) ∈ dirSides m' ∧ (mu, v) ∈ dirSides m' := by
    intro u v huv
    obtain ⟨f, hf, hfuv⟩ := List.mem_flatMap.mp huv
    obtain ⟨i, hi⟩ := mem_number_of_mem m.faces (m.verts.length + m.edges.length) f hf
    obtain ⟨p, _, hfl⟩ := mapE_mem_of _ _ _ h3 (i, f) hi
    obtain ⟨a, b, c, mab, mbc, mca, hfe, _, _, _, l1, l2, l3, _⟩ := q3_part_desc m hes i f p hfl
    have hfe : f = [a, b, c] := hfe
    have hfuv' := hfuv
    rw [hfe] at hfuv'
    simp only [cycPairs, cycGo, List.mem_cons, Prod.mk.injEq, List.not_mem_nil, or_false] at hfuv'
    have mk : ∀ mu, halfLookup m.edges m.verts.length (keyify u v) = some mu → (u, mu) ∈ dirSides m' ∧ (mu, v) ∈ dirSides m' :=
      fun mu hl => ⟨(memD _).mpr ⟨(i, f), hi, Or.inl ⟨u, v, mu, hfuv, hl, Or.inl rfl⟩⟩,
                    (memD _).mpr ⟨(i, f), hi, Or.inl ⟨u, v, mu, hfuv, hl, Or.inr rfl⟩⟩⟩
    rcases hfuv' with ⟨rfl, rfl⟩ | ⟨rfl, rfl⟩ | ⟨rfl, rfl⟩
    · exact ⟨_, mk _ l1⟩
    · exact ⟨_, mk _ l2⟩
    · exact ⟨_, mk _ l3⟩
  have lift : ∀ x y, Conn m x y → Conn m' x y := by
    intro x y hc
    induction hc with
    | refl => exact Relation.ReflTransGen.refl
    | @tail u v _ huv ih =>
      rcases huv with huv | huv
      · obtain ⟨mu, h1, h2⟩ := halves u v huv
        exact (ih.tail (Or.inl h1)).tail (Or.inl h2)
      · obtain ⟨mu, h1, h2⟩ := halves v u huv
        exact (ih.tail (Or.inr h2)).tail (Or.inr h1)
  refine ⟨⟨by rw [hv]; simp, fun x y hx hy => ⟨fun hc => ?_, lift x y⟩⟩, ?_⟩
  · have := project x y hc
    rwa [repOld x hx, repOld y hy] at this
  · -- every end of a side of the result is connected to an old vertex
    have one : ∀ x y, (x, y) ∈ dirSides m' → (∃ c, c < m.verts.length ∧ Conn m' x c) ∧ (∃ c, c < m.verts.length ∧ Conn m' y c) := by
      intro x y hxy
      obtain ⟨sf, hsf, hcase⟩ := (memD _).mp hxy
      rcases hcase with ⟨u, v, mu, huv, hl, hxe⟩ | ⟨t, mt, ht, l1, hxe⟩
      · obtain ⟨b1, b2, _, _⟩ := half_bounds hesb hl
        have s1 : (u, mu) ∈ dirSides m' := (memD _).mpr ⟨sf, hsf, Or.inl ⟨u, v, mu, huv, hl, Or.inl rfl⟩⟩
        rcases hxe with e | e <;> simp only [Prod.mk.injEq] at e <;> rw [e.1, e.2]
        · exact ⟨⟨u, b1, Relation.ReflTransGen.refl⟩, ⟨u, b1, Relation.ReflTransGen.single (Or.inr s1)⟩⟩
        · exact ⟨⟨u, b1, Relation.ReflTransGen.single (Or.inr s1)⟩, ⟨v, b2, Relation.ReflTransGen.refl⟩⟩
      · -- the midpoint of the spoke is the midpoint of a side (p,q) of the face: connected to p
        obtain ⟨p, _, hfl⟩ := mapE_mem_of _ _ _ h3 sf hsf
        obtain ⟨a, b, c, mab, mbc, mca, hfe, _, _, _, _, _, _, _⟩ := q3_part_desc m hes sf.1 sf.2 p hfl
        have hmt : ∃ c0, c0 < m.verts.length ∧ Conn m' mt c0 := by
          rw [hfe] at ht
          simp only [sidesKeyed_tri, List.mem_cons, List.not_mem_nil, or_false] at ht
          have mk : ∀ u v, (u, v) ∈ cycPairs sf.2 → halfLookup m.edges m.verts.length (keyify u v) = some mt →
              ∃ c0, c0 < m.verts.length ∧ Conn m' mt c0 := by
            intro u v huv hl
            obtain ⟨b1, _, _, _⟩ := half_bounds hesb hl
            exact ⟨u, b1, Relation.ReflTransGen.single (Or.inr ((memD _).mpr ⟨sf, hsf, Or.inl ⟨u, v, mt, huv, hl, Or.inl rfl⟩⟩))⟩
          rcases ht with rfl | rfl | rfl
          · exact mk a b (by rw [hfe]; simp [cycPairs, cycGo]) l1
          · exact mk b c (by rw [hfe]; simp [cycPairs, cycGo]) l1
          · exact mk c a (by rw [hfe]; simp [cycPairs, cycGo]) l1
        obtain ⟨c0, hc0, hcm⟩ := hmt
        rcases hxe with e | e <;> simp only [Prod.mk.injEq] at e <;> rw [e.1, e.2]
        · exact ⟨⟨c0, hc0, hcm⟩, ⟨c0, hc0, Relation.ReflTransGen.head (Or.inr (by rw [← e.1, ← e.2]; exact hxy)) hcm⟩⟩
        · exact ⟨⟨c0, hc0, Relation.ReflTransGen.head (Or.inl (by rw [← e.1, ← e.2]; exact hxy)) hcm⟩, ⟨c0, hc0, hcm⟩⟩
    intro z w hzw
    rcases hzw with hz | hz
    · exact (one z w hz).2
    · exact (one w z hz).1

/-- 1→6 = 1→3 quads, then every quad cut along its corner-barycentre... diagonal: components of the original vertices -/
theorem sub6_components (m m' : Raw) (h3 : ∀ f ∈ m.faces, f.length = 3) (hes : EdgesSorted m) (hwf : WF m)
    (h : sub6 m 1 = .ok m') : CompPres m m' := by
  simp only [sub6, iterM_one, bind, Except.bind] at h
  cases h1 : quads3 m with
  | error e => simp [h1] at h
  | ok m1 =>
    simp only [h1] at h
    have hc := quads3_tri m m1 h3 h1
    have hwf1 : WF m1 := (quads3_area m m1 hwf h1).2
    exact (q3_components m m1 hc hes).1.trans (triangulateFrom_components _ m1 m' hwf1 h)

end Mouette.Subdiv
