import Mouette.Model.Cutting
/-!
The compaction map `imap` of `_build_mesh_with_cuts`, `order_verts`, and the `ref_vertex` dictionary
(core Lean only).
-/
namespace Mouette.Cutting

/-! ### association lists -/

theorem lookup_some_mem : ∀ (m : List (Nat × Nat)) {a k : Nat}, m.lookup a = some k → (a, k) ∈ m
  | [], _, _, h => by simp [List.lookup] at h
  | (x, y) :: r, a, k, h => by
    by_cases hax : a = x
    · subst hax
      simp [List.lookup] at h
      subst h; exact List.mem_cons_self
    · have : (a == x) = false := by simpa using hax
      simp only [List.lookup, this] at h
      exact List.mem_cons_of_mem _ (lookup_some_mem r h)

theorem lookup_of_mem_nodup : ∀ (m : List (Nat × Nat)) {a k : Nat}, (m.map Prod.fst).Nodup →
    (a, k) ∈ m → m.lookup a = some k
  | [], _, _, _, h => by simp at h
  | (x, y) :: r, a, k, nd, h => by
    rw [List.map_cons, List.nodup_cons] at nd
    rcases List.mem_cons.mp h with h' | h'
    · injection h' with h1 h2
      subst h1; subst h2
      simp [List.lookup]
    · have hax : a ≠ x := by
        intro e; subst e
        have : a ∈ r.map Prod.fst := List.mem_map.mpr ⟨(a, k), h', rfl⟩
        exact nd.1 this
      have : (a == x) = false := by simpa using hax
      simp only [List.lookup, this]
      exact lookup_of_mem_nodup r nd.2 h'

theorem lookup_none_of_not_mem : ∀ (m : List (Nat × Nat)) {a : Nat}, a ∉ m.map Prod.fst → m.lookup a = none
  | [], _, _ => rfl
  | (x, y) :: r, a, h => by
    rw [List.map_cons, List.mem_cons, not_or] at h
    have : (a == x) = false := by simpa using h.1
    simp only [List.lookup, this]
    exact lookup_none_of_not_mem r h.2

theorem lookup_append_left : ∀ (m m' : List (Nat × Nat)) {a k : Nat}, m.lookup a = some k →
    (m ++ m').lookup a = some k
  | [], _, _, _, h => by simp [List.lookup] at h
  | (x, y) :: r, m', a, k, h => by
    by_cases hax : a = x
    · subst hax
      simp [List.lookup] at h ⊢
      exact h
    · have : (a == x) = false := by simpa using hax
      simp only [List.lookup, this, List.cons_append] at h ⊢
      exact lookup_append_left r m' h

theorem lookup_append_new : ∀ (m : List (Nat × Nat)) {a k : Nat}, m.lookup a = none →
    (m ++ [(a, k)]).lookup a = some k
  | [], _, _, _ => by simp [List.lookup]
  | (x, y) :: r, a, k, h => by
    by_cases hax : a = x
    · subst hax; simp at h
    · have : (a == x) = false := by simpa using hax
      simp only [List.lookup, this, List.cons_append] at h ⊢
      exact lookup_append_new r h

theorem snd_unique : ∀ (m : List (Nat × Nat)) {a b k : Nat}, (m.map Prod.snd).Nodup →
    (a, k) ∈ m → (b, k) ∈ m → a = b
  | [], _, _, _, _, h, _ => by simp at h
  | (x, y) :: r, a, b, k, nd, ha, hb => by
    rw [List.map_cons, List.nodup_cons] at nd
    rcases List.mem_cons.mp ha with ha' | ha' <;> rcases List.mem_cons.mp hb with hb' | hb'
    · injection ha' with h1 _; injection hb' with h2 _; rw [h1, h2]
    · injection ha' with _ h2
      subst h2
      have : k ∈ r.map Prod.snd := List.mem_map.mpr ⟨(b, k), hb', rfl⟩
      exact absurd this nd.1
    · injection hb' with _ h2
      subst h2
      have : k ∈ r.map Prod.snd := List.mem_map.mpr ⟨(a, k), ha', rfl⟩
      exact absurd this nd.1
    · exact snd_unique r nd.2 ha' hb'

/-! ### `imap` -/

/-- values are `0,1,2,…` in order, keys are pairwise distinct -/
def WFMap (m : List (Nat × Nat)) : Prop :=
  m.map Prod.snd = List.range m.length ∧ (m.map Prod.fst).Nodup

theorem wfmap_nil : WFMap [] := ⟨rfl, List.nodup_nil⟩

theorem imapStep_wf {m : List (Nat × Nat)} (w : WFMap m) (v : Nat) : WFMap (imapStep m v) := by
  unfold imapStep
  split
  · exact w
  · rename_i h
    have hn : m.lookup v = none := by
      cases hl : m.lookup v with
      | none => rfl
      | some k => rw [hl] at h; simp at h
    have hv : v ∉ m.map Prod.fst := by
      intro hm
      obtain ⟨p, hp, hpv⟩ := List.mem_map.mp hm
      have : m.lookup v = some p.2 := lookup_of_mem_nodup m w.2 (by rw [← hpv]; exact hp)
      rw [hn] at this; cases this
    refine ⟨?_, ?_⟩
    · rw [List.map_append, w.1, List.length_append, List.length_singleton, List.range_succ]; rfl
    · rw [List.map_append, List.nodup_append]
      refine ⟨w.2, by simp, ?_⟩
      intro a ha b hb
      simp at hb
      subst hb
      intro e; subst e; exact hv ha

theorem imapStep_mono {m : List (Nat × Nat)} {a k : Nat} (v : Nat) (h : m.lookup a = some k) :
    (imapStep m v).lookup a = some k := by
  unfold imapStep
  split
  · exact h
  · exact lookup_append_left m _ h

theorem imapStep_has (m : List (Nat × Nat)) (v : Nat) : ∃ k, (imapStep m v).lookup v = some k := by
  unfold imapStep
  split
  · rename_i h
    cases hl : m.lookup v with
    | none => rw [hl] at h; simp at h
    | some k => exact ⟨k, rfl⟩
  · rename_i h
    have hn : m.lookup v = none := by
      cases hl : m.lookup v with
      | none => rfl
      | some k => rw [hl] at h; simp at h
    exact ⟨m.length, lookup_append_new m hn⟩

theorem foldl_imapStep_spec : ∀ (rs : List Nat) (m : List (Nat × Nat)), WFMap m →
    WFMap (rs.foldl imapStep m) ∧
    (∀ a k, m.lookup a = some k → (rs.foldl imapStep m).lookup a = some k) ∧
    (∀ r, r ∈ rs → ∃ k, (rs.foldl imapStep m).lookup r = some k)
  | [], m, w => ⟨w, fun _ _ h => h, fun r hr => by simp at hr⟩
  | v :: rs, m, w => by
    obtain ⟨w', mono, has⟩ := foldl_imapStep_spec rs (imapStep m v) (imapStep_wf w v)
    refine ⟨w', fun a k h => mono a k (imapStep_mono v h), ?_⟩
    intro r hr
    rcases List.mem_cons.mp hr with hr | hr
    · subst hr
      obtain ⟨k, hk⟩ := imapStep_has m r
      exact ⟨k, mono r k hk⟩
    · exact has r hr

theorem buildImap_spec (faces1 : List (List Nat)) :
    WFMap (buildImap faces1) ∧ ∀ r, r ∈ faces1.flatten → ∃ k, (buildImap faces1).lookup r = some k := by
  obtain ⟨w, _, has⟩ := foldl_imapStep_spec faces1.flatten [] wfmap_nil
  exact ⟨w, has⟩

theorem wfmap_inj {m : List (Nat × Nat)} (w : WFMap m) {a b k : Nat}
    (ha : m.lookup a = some k) (hb : m.lookup b = some k) : a = b := by
  have nd : (m.map Prod.snd).Nodup := by rw [w.1]; exact List.nodup_range
  exact snd_unique m nd (lookup_some_mem m ha) (lookup_some_mem m hb)

theorem wfmap_lt {m : List (Nat × Nat)} (w : WFMap m) {a k : Nat} (ha : m.lookup a = some k) :
    k < m.length := by
  have : k ∈ m.map Prod.snd := List.mem_map.mpr ⟨(a, k), lookup_some_mem m ha, rfl⟩
  rw [w.1] at this
  simpa using this

/-- `[imap[v] for v in F]` -/
def look (m : List (Nat × Nat)) (v : Nat) : Nat := (m.lookup v).getD 0

theorem mapFace_spec : ∀ (m : List (Nat × Nat)) (f l : List Nat), mapFace m f = some l →
    l = f.map (look m) ∧ ∀ v, v ∈ f → m.lookup v = some (look m v)
  | _, [], l, h => by
    simp only [mapFace, Option.some.injEq] at h
    subst h; exact ⟨rfl, fun v hv => by simp at hv⟩
  | m, v :: r, l, h => by
    unfold mapFace at h
    split at h
    · rename_i k l' hk hr
      injection h with h
      subst h
      obtain ⟨e, hall⟩ := mapFace_spec m r l' hr
      have hlook : look m v = k := by unfold look; rw [hk]; rfl
      refine ⟨by rw [List.map_cons, hlook, e], ?_⟩
      intro x hx
      rcases List.mem_cons.mp hx with hx | hx
      · subst hx; rw [hlook]; exact hk
      · exact hall x hx
    · cases h

theorem mapFaces_spec : ∀ (m : List (Nat × Nat)) (fs ls : List (List Nat)), mapFaces m fs = some ls →
    ls = fs.map (List.map (look m)) ∧ ∀ v, v ∈ fs.flatten → m.lookup v = some (look m v)
  | _, [], ls, h => by
    simp only [mapFaces, Option.some.injEq] at h
    subst h; exact ⟨rfl, fun v hv => by simp at hv⟩
  | m, f :: r, ls, h => by
    unfold mapFaces at h
    split at h
    · rename_i k l' hk hr
      injection h with h
      subst h
      obtain ⟨e1, h1⟩ := mapFace_spec m f k hk
      obtain ⟨e2, h2⟩ := mapFaces_spec m r l' hr
      refine ⟨by rw [List.map_cons, e1, e2], ?_⟩
      intro x hx
      rw [List.flatten_cons, List.mem_append] at hx
      rcases hx with hx | hx
      · exact h1 x hx
      · exact h2 x hx
    · cases h

/-! ### `order_verts` -/

theorem orderVerts_length (m : List (Nat × Nat)) (cv : List Nat) : (orderVerts m cv).length = m.length := by
  simp [orderVerts]

theorem orderVerts_spec {m : List (Nat × Nat)} (w : WFMap m) {cv : List Nat} {r k : Nat}
    (h : m.lookup r = some k) (hr : r < cv.length) :
    (orderVerts m cv)[k]? = some (some (cv.getD r 0)) := by
  have hk := wfmap_lt w h
  have hmem := lookup_some_mem m h
  have nd : (m.map Prod.snd).Nodup := by rw [w.1]; exact List.nodup_range
  unfold orderVerts
  rw [List.getElem?_map, List.getElem?_range hk]
  simp only [Option.map_some]
  cases hf : m.find? (fun e => e.2 == k && decide (e.1 < cv.length)) with
  | none =>
    rw [List.find?_eq_none] at hf
    have := hf (r, k) hmem
    simp [hr] at this
  | some e =>
    have hp := List.find?_some hf
    have hm := List.mem_of_find?_eq_some hf
    simp only [Bool.and_eq_true, beq_iff_eq, decide_eq_true_eq] at hp
    have he : e = (e.1, k) := by rw [← hp.1]
    rw [he] at hm
    have : e.1 = r := snd_unique m nd hm hmem
    simp only [Option.map_some, this]

/-! ### `ref_vertex` -/

theorem refWrites_spec (m : List (Nat × Nat)) (cv : List Nat) (root : Nat → Nat) :
    ∀ (cs : List Nat) (ws : List (Nat × Nat)), refWrites m cs (cs.map root) cv = some ws →
    ws = cs.map (fun c => (look m (root c), cv.getD c 0)) ∧
    ∀ c, c ∈ cs → m.lookup (root c) = some (look m (root c))
  | [], ws, h => by
    simp only [refWrites, Option.some.injEq] at h
    subst h; exact ⟨rfl, fun c hc => by simp at hc⟩
  | c :: cs, ws, h => by
    rw [List.map_cons] at h
    unfold refWrites at h
    split at h
    · rename_i k l hk hr
      injection h with h
      subst h
      obtain ⟨e, hall⟩ := refWrites_spec m cv root cs l hr
      have hlook : look m (root c) = k := by unfold look; rw [hk]; rfl
      refine ⟨by rw [List.map_cons, hlook, e], ?_⟩
      intro x hx
      rcases List.mem_cons.mp hx with hx | hx
      · subst hx; rw [hlook]; exact hk
      · exact hall x hx
    · cases h

/-- a dictionary read: if some write has key `k` and all writes with key `k` carry `v`, the read gives `v` -/
theorem lookup_of_all : ∀ (l : List (Nat × Nat)) {k v : Nat}, (∃ p, p ∈ l ∧ p.1 = k) →
    (∀ p, p ∈ l → p.1 = k → p.2 = v) → l.lookup k = some v
  | [], _, _, ⟨p, hp, _⟩, _ => by simp at hp
  | (x, y) :: r, k, v, hex, hall => by
    by_cases hkx : k = x
    · subst hkx
      have : y = v := hall (k, y) List.mem_cons_self rfl
      subst this
      simp [List.lookup]
    · have : (k == x) = false := by simpa using hkx
      simp only [List.lookup, this]
      apply lookup_of_all r
      · obtain ⟨p, hp, hpk⟩ := hex
        rcases List.mem_cons.mp hp with hp | hp
        · subst hp; exact absurd hpk.symm hkx
        · exact ⟨p, hp, hpk⟩
      · exact fun p hp => hall p (List.mem_cons_of_mem _ hp)

theorem lastWrite_of_all {ws : List (Nat × Nat)} {k v : Nat} (hex : ∃ p, p ∈ ws ∧ p.1 = k)
    (hall : ∀ p, p ∈ ws → p.1 = k → p.2 = v) : lastWrite ws k = some v := by
  unfold lastWrite
  apply lookup_of_all
  · obtain ⟨p, hp, hk⟩ := hex
    exact ⟨p, List.mem_reverse.mpr hp, hk⟩
  · intro p hp; exact hall p (List.mem_reverse.mp hp)

end Mouette.Cutting
