import Mouette.Lemmas.AttrHandlesRun
/-
Extended scripts without in-place updates: the extended specification determines every observation.
-/
namespace Mouette.Attr
set_option linter.unusedSimpArgs false
set_option linter.unusedVariables false

def Op2.isMut : Op2 → Bool
  | .base op => op.isMut
  | .updH _ _ _ => true
  | _ => false

def mutFree2 (ops : List Op2) : Bool := ops.all (fun o => !o.isMut)

def SObs2.total : SObs2 → Prop
  | .base o => o.total
  | .any => False

theorem specWriteAll_total : ∀ (keys : List Int) (t : Spec) (v : InVal), STotal t →
    STotal (specWriteAll t keys v).1 ∧ (specWriteAll t keys v).2.total := by
  intro keys
  induction keys with
  | nil => intro t v ht; exact ⟨ht, trivial⟩
  | cons key r ih =>
    intro t v ht
    obtain ⟨h1, h2⟩ := stotal_step t (.set key v) rfl ht
    simp only [specWriteAll]
    cases hs : specStep t (.set key v) with
    | mk t' so =>
      rw [hs] at h1 h2; simp only at h1 h2
      cases so with
      | ok => exact ih t' v h1
      | val o => exact ⟨h1, h2⟩
      | arr n g => exact ⟨h1, h2⟩
      | err e => exact ⟨h1, h2⟩

theorem stotal_step2 (t : Spec2) (op : Op2) (hop : op.isMut = false) (ht : STotal t.sp) :
    STotal (specStep2 t op).1.sp ∧ (specStep2 t op).2.total := by
  cases op with
  | base op =>
    obtain ⟨h1, h2⟩ := stotal_step t.sp op hop ht
    simp only [specStep2]
    cases hs : specStep t.sp op with
    | mk sp' so => rw [hs] at h1 h2; exact ⟨h1, h2⟩
  | hold i =>
    obtain ⟨h1, h2⟩ := stotal_step t.sp (.get i) rfl ht
    simp only [specStep2]
    cases hs : specStep t.sp (.get i) with
    | mk sp' so =>
      rw [hs] at h1 h2; simp only at h1 h2
      cases so <;> exact ⟨h1, h2⟩
  | updH h c x => cases hop
  | setFromRead i j =>
    obtain ⟨h1, h2⟩ := stotal_step t.sp (.get i) rfl ht
    simp only [specStep2]
    cases hs : specStep t.sp (.get i) with
    | mk sp' so =>
      rw [hs] at h1 h2; simp only at h1 h2
      cases so with
      | ok => exact ⟨h1, h2⟩
      | arr n g => exact ⟨h1, h2⟩
      | err e => exact ⟨h1, h2⟩
      | val o =>
        cases o with
        | none => cases h2
        | some w =>
          simp only
          obtain ⟨g1, g2⟩ := stotal_step sp' (.set j (toInVal (specK t.sp) w)) rfl h1
          cases hs2 : specStep sp' (.set j (toInVal (specK t.sp) w)) with
          | mk sp'' so2 => rw [hs2] at g1 g2; exact ⟨g1, g2⟩
  | setShared v keys =>
    simp only [specStep2]
    cases hta : t.sp.attr with
    | none => exact ⟨ht, trivial⟩
    | some a =>
      simp only
      obtain ⟨g1, g2⟩ := specWriteAll_total keys t.sp v ht
      cases hs : specWriteAll t.sp keys v with
      | mk sp' so => rw [hs] at g1 g2; exact ⟨g1, g2⟩

theorem specRun2_total : ∀ (ops : List Op2) (t : Spec2), mutFree2 ops = true → STotal t.sp →
    ∀ so ∈ specRun2 t ops, so.total := by
  intro ops
  induction ops with
  | nil => intro t _ _ so h; cases h
  | cons op ops ih =>
    intro t hmf ht so hso
    simp only [mutFree2, List.all_cons, Bool.and_eq_true, Bool.not_eq_true'] at hmf
    obtain ⟨h1, h2⟩ := stotal_step2 t op hmf.1 ht
    simp only [specRun2] at hso
    rcases List.mem_cons.mp hso with h | h
    · rw [h]; exact h2
    · exact ih _ (by simp only [mutFree2]; exact hmf.2) h1 so h

theorem forall2_unique2 {sos : List SObs2} {l1 l2 : List Obs} (ht : ∀ so ∈ sos, so.total)
    (h1 : Forall2 Matches2 sos l1) (h2 : Forall2 Matches2 sos l2) : l1 = l2 := by
  induction h1 generalizing l2 with
  | nil => cases h2; rfl
  | @cons so o1 ls lo hm _ ih =>
    cases h2 with
    | cons hm2 h2' =>
      have hso := ht so List.mem_cons_self
      cases so with
      | any => exact absurd hso id
      | base b =>
        rw [matches_total_unique hso hm hm2, ih (fun so h => ht so (List.mem_cons_of_mem _ h)) h2']

end Mouette.Attr
