import Mouette.Lemmas.AttrSource
/-
C05 round 5 — a SOURCE-LEVEL step machine: one operation of a script executed by the definitions translated from the working
tree (Generated/C05Src.lean), the way the harness drives the library (`get_attribute` then the accessor of the object's class,
the object mutated in place inside the container's dict), and exact forms of the translated accessors used by the bridge
`srcStep_bridge` (Props/C05SourceRun.lean).
-/
namespace Mouette.AttrSrc
open Mouette.Attr Mouette.Generated.C05Src
set_option linter.unusedSimpArgs false
set_option linter.unusedVariables false

abbrev SrcSt := Heap × Cont

/-- the container's dict holds the attribute OBJECT: a method that updates the object is seen through the dict -/
def putBack (c : Cont) (nm : String) (a : Self) : Cont := { c with attr := attrSet c.attr nm a }

/-- `a[i] = v`, `a[i]`, `a.clear()`, `a.as_array(len(container))`: dynamic dispatch on the class of the object -/
def dispSet (i : Int) (v : InVal) (h : Heap) (a : Self) : Except Err (Unit × Heap × Self) :=
  match a.cls with
  | .dense => denseSetitem i v h a
  | .sparse => sparseSetitem i v h a

def dispGet (i : Int) (h : Heap) (a : Self) : Except Err (Res × Heap × Self) :=
  match a.cls with
  | .dense => denseGetitem i h a
  | .sparse => sparseGetitem i h a

def dispClear (h : Heap) (a : Self) : Except Err (Unit × Heap × Self) :=
  match a.cls with
  | .dense => denseClear h a
  | .sparse => sparseClear h a

def dispAsArray (n : Nat) (h : Heap) (a : Self) : Except Err (List Val × Heap × Self) :=
  match a.cls with
  | .dense => .ok (denseAsArray h a, h, a)
  | .sparse => sparseAsArray n h a

/-- result of a container method as (state, observation) -/
def contObs {α : Type} (st : SrcSt) : Except Err (α × Heap × Cont) → SrcSt × Obs
  | .ok (_, h, c) => ((h, c), .ok)
  | .error e => (st, .err e)

/-- one operation of a script on the attribute named `nm`, storage mode `dense`, by the TRANSLATED code -/
def srcStep (dense : Bool) (nm : String) (st : SrcSt) : Op → SrcSt × Obs
  | .create ty k d => contObs st (createAttribute false nm ty k dense d none st.1 st.2)
  | .delete => contObs st (deleteAttribute nm st.1 st.2)
  | .cclear => contObs st (contClear st.1 st.2)
  | .append => contObs st (contAppend 0 st.1 st.2)
  | .extendList n => contObs st (contIadd (.seq .list (List.replicate n 0)) st.1 st.2)
  | .extendCont m => contObs st (contIadd (.cont (List.replicate m 0)) st.1 st.2)
  | .extendSelf => contObs st (contIadd .me st.1 st.2)
  | .set i v =>
    match getAttribute nm st.1 st.2 with
    | .error e => (st, .err e)
    | .ok (a, h, c) =>
      match dispSet i v h a with
      | .error e => (st, .err e)
      | .ok (_, h', a') => ((h', putBack c nm a'), .ok)
  | .get i =>
    match getAttribute nm st.1 st.2 with
    | .error e => (st, .err e)
    | .ok (a, h, c) =>
      match dispGet i h a with
      | .error e => (st, .err e)
      | .ok (r, h', a') => ((h', putBack c nm a'), .val (r.val h'))
  | .upd i cx x =>
    match getAttribute nm st.1 st.2 with
    | .error e => (st, .err e)
    | .ok (a, h, c) =>
      match dispGet i h a with
      | .error e => (st, .err e)
      | .ok (r, h', a') =>
        if a.elemsize > 1 then
          if cx < a.elemsize then
            match r with
            | .obj hd => ((mutate h' hd cx x, putBack c nm a'), .ok)      -- `v[c] = x` on the object that was handed out
            | .byValue _ => ((h', putBack c nm a'), .ok)
          else ((h', putBack c nm a'), .err .index)
        else ((h', putBack c nm a'), .ok)
  | .clear =>
    match getAttribute nm st.1 st.2 with
    | .error e => (st, .err e)
    | .ok (a, h, c) =>
      match dispClear h a with
      | .error e => (st, .err e)
      | .ok (_, h', a') => ((h', putBack c nm a'), .ok)
  | .asArray =>
    match getAttribute nm st.1 st.2 with
    | .error e => (st, .err e)
    | .ok (a, h, c) =>
      match dispAsArray (contLen c) h a with
      | .error e => (st, .err e)
      | .ok (rows, h', a') => ((h', putBack c nm a'), .arr rows)

def srcRun (dense : Bool) (nm : String) : SrcSt → List Op → List (Obs × SrcSt)
  | _, [] => []
  | st, op :: ops => ((srcStep dense nm st op).2, (srcStep dense nm st op).1) :: srcRun dense nm (srcStep dense nm st op).1 ops

def srcRunObs (dense : Bool) (nm : String) (st : SrcSt) (ops : List Op) : List Obs := (srcRun dense nm st ops).map (·.1)

/-- the container the harness starts from: `n0` elements, no attribute -/
def srcInit (n0 : Nat) : SrcSt := ([], { data := List.replicate n0 0, attr := [] })

/-- arities ≥ 1 (the statement's quantifier) -/
def arityOk : List Op → Bool
  | [] => true
  | .create _ k _ :: t => decide (1 ≤ k) && arityOk t
  | _ :: t => arityOk t

/-- states reached by single-attribute scripts -/
def Good (dense : Bool) (nm : String) (c : Cont) : Prop :=
  c.attr = [] ∨ ∃ a, c.attr = [(nm, a)] ∧ ClsOk a ∧ a.cls = (if dense then Cls.dense else Cls.sparse) ∧ 1 ≤ a.elemsize

/-! exact forms of the translated accessors -/

theorem sparseSetitem_exact (self : Self) (d : List (Int × Nat)) (hd : self.data = .dict d) (h : Heap) (key : Int) (v : InVal) :
    sparseSetitem key v h self =
      match checkVal self.type self.elemsize v with
      | .error e => .error e
      | .ok val => .ok ((), h ++ [.vec val], { self with data := .dict (dinsert d key h.length) }) := by
  unfold sparseSetitem checkVal
  cases v with
  | sc x =>
    by_cases h1 : 1 < self.elemsize
    · have h1' : self.elemsize > 1 := h1
      simp [h1, h1', pyList]
    · have hdec : decide (1 < self.elemsize) = false := by simp [h1]
      have : ¬ self.elemsize > 1 := h1
      simp only [hdec, Bool.false_eq_true, if_false, pyType, attrType, gen_canCast, this]
      cases hc : canCast x.ty self.type with
      | true => simp [allocVec, scalarVal, hd, Data.asDict]
      | false => simp
  | vec l =>
    by_cases h1 : 1 < self.elemsize
    · have h1' : self.elemsize > 1 := h1
      simp only [h1, h1', decide_true, if_true, pyList]
      by_cases hn : l.length = self.elemsize
      · simp only [hn, ne_eq, not_true_eq_false, decide_false, Bool.false_eq_true, if_false]
        simp only [pyTypeS, attrType, gen_canCast]
        rw [forE_neg]
        cases ha : l.all (fun x => canCast x.ty self.type) with
        | true => simp [allocVec, vecOf, hd, Data.asDict]
        | false => simp
      · simp [hn]
    · have : ¬ self.elemsize > 1 := h1
      simp [h1, this, pyType, attrType]

theorem denseSetitem_exact (self : Self) (r : Nat) (hd : self.data = .array r) (h : Heap) (key : Int) (v : InVal) :
    denseSetitem key v h self =
      if oobGuard key self.nElem then .error .oob else
      match checkVal self.type self.elemsize v with
      | .error e => .error e
      | .ok val => .ok ((), rowStore h r key val, self) := by
  have hg : checkOutOfBounds key h self = if oobGuard key self.nElem then .error .oob else .ok ((), h, self) := by
    unfold checkOutOfBounds oobGuard
    by_cases h1 : key < 0 <;> by_cases h2 : (self.nElem : Int) ≤ key <;> simp [h1, h2]
  unfold denseSetitem checkVal
  rw [hg]
  cases hgg : oobGuard key self.nElem with
  | true => simp
  | false =>
    simp only [Bool.false_eq_true, if_false]
    cases v with
    | sc x =>
      by_cases h1 : 1 < self.elemsize
      · have h1' : self.elemsize > 1 := h1
        simp [h1, h1', pyList]
      · have hdec : decide (1 < self.elemsize) = false := by simp [h1]
        have : ¬ self.elemsize > 1 := h1
        simp only [hdec, Bool.false_eq_true, if_false, pyType, attrType, gen_canCast, this]
        cases hc : canCast x.ty self.type with
        | true => simp [scalarVal, hd, Data.asRef]
        | false => simp
    | vec l =>
      by_cases h1 : 1 < self.elemsize
      · have h1' : self.elemsize > 1 := h1
        simp only [h1, h1', decide_true, if_true, pyList]
        by_cases hn : l.length = self.elemsize
        · simp only [hn, ne_eq, not_true_eq_false, decide_false, Bool.false_eq_true, if_false]
          simp only [pyTypeS, attrType, gen_canCast]
          rw [forE_neg]
          cases ha : l.all (fun x => canCast x.ty self.type) with
          | true => simp [vecOf, hd, Data.asRef]
          | false => simp
        · simp [hn]
      · have : ¬ self.elemsize > 1 := h1
        simp [h1, this, pyType, attrType]

theorem forItems_sparseArray (h : Heap) (size : Nat) (dr : Val) : ∀ (d : List (Int × Nat)) (out : List Val), out.length = size →
    forItems d out (fun acc k r => npRowAssign acc k (cellVec h r)) = sparseArray h size dr d out := by
  intro d
  induction d with
  | nil => intro out _; rfl
  | cons p t ih =>
    intro out hl
    obtain ⟨k, r⟩ := p
    simp only [forItems, sparseArray, npRowAssign, hl]
    by_cases hb : ((if k < 0 then k + (size : Int) else k) < 0 || (size : Int) ≤ (if k < 0 then k + (size : Int) else k)) = true
    · simp [hb]
    · simp only [hb, Bool.false_eq_true, if_false]
      exact ih _ (by simp [hl])

/-- `Attribute.as_array` as written (np.full of defaults, then the stored rows written in dict order) is the model's sparse export -/
theorem sparseAsArray_exact (self : Self) (d : List (Int × Nat)) (hd : self.data = .dict d) (h : Heap) (n : Nat) :
    sparseAsArray n h self =
      match sparseArray h n self.toAttr.dfltRow d (List.replicate n self.toAttr.dfltRow) with
      | .ok rows => .ok (rows, h, self)
      | .error e => .error e := by
  unfold sparseAsArray
  simp only [hd, Data.asDict, npFull_default]
  rw [forItems_sparseArray h n self.toAttr.dfltRow d _ (by simp)]
  cases sparseArray h n self.toAttr.dfltRow d (List.replicate n self.toAttr.dfltRow) <;> rfl

end Mouette.AttrSrc
