import Mouette.Lemmas.DijkstraBasic
/-
The loop invariant of the Dijkstra model and its preservation by `relax` (inner loop) and `step` (outer loop).
-/
namespace Mouette.Dijkstra
open Mouette.PQ

/-- edge `u → e.1` of weight `e.2` has been relaxed: `dist e.1 ≤ dist u + e.2` -/
def Relaxed (s : State) (u : Nat) (e : Nat × Rat) : Prop :=
  ∃ dx du, s.dist e.1 = some dx ∧ s.dist u = some du ∧ dx ≤ du + e.2

/-- Invariant. Ghosts: `b` = label of the last settled vertex ("radius"), `order` = settled vertices in the
order of settling, `v`/`todo` = vertex being processed and its not yet relaxed adjacencies (`todo = []` between
iterations of the outer loop). -/
structure Inv (adj : Adj) (start n : Nat) (v : Nat) (todo : List (Nat × Rat)) (b : Rat) (order : List Nat)
    (s : State) : Prop where
  start_lt : start < n
  b_nonneg : 0 ≤ b
  dist_start : s.dist start = some 0
  order_nodup : order.Nodup
  vis_iff : ∀ u, s.visited u = true ↔ u ∈ order
  vis_lt : ∀ u ∈ order, u < n
  vis_dist : ∀ u, s.visited u = true → ∃ du, s.dist u = some du ∧ du ≤ b
  q_ok : ∀ x p, (x, p) ∈ s.queue → x < n ∧ ∃ pp dx, p = Prio.fin pp ∧ b ≤ pp ∧ s.dist x = some dx ∧ dx ≤ pp
  unv : ∀ x dx, s.visited x = false → s.dist x = some dx → b ≤ dx ∧ (x, Prio.fin dx) ∈ s.queue
  cur : todo ≠ [] → s.visited v = true ∧ s.dist v = some b
  todo_sub : ∀ e ∈ todo, e ∈ adj v
  pred_ok : ∀ u p, s.pred u = some p → s.visited p = true ∧ u ≠ start ∧
      (∃ w dp, (u, w) ∈ adj p ∧ s.dist p = some dp ∧ s.dist u = some (dp + w)) ∧
      (s.visited u = true → order.idxOf p < order.idxOf u)
  pred_some : ∀ u du, u ≠ start → s.dist u = some du → ∃ p, s.pred u = some p
  edges : ∀ u, s.visited u = true → ∀ e ∈ adj u, (u = v ∧ e ∈ todo) ∨ Relaxed s u e

def Reach (adj : Adj) (start n : Nat) (s : State) : Prop := ∃ v b order, Inv adj start n v [] b order s

theorem inv_init (adj : Adj) {start n : Nat} (h : start < n) : Inv adj start n 0 [] 0 [] (init start) := by
  refine { start_lt := h, b_nonneg := le_refl _, dist_start := by simp [init], order_nodup := List.nodup_nil,
           vis_iff := by simp [init], vis_lt := by simp, vis_dist := by simp [init], q_ok := ?_, unv := ?_,
           cur := by simp, todo_sub := by simp, pred_ok := by simp [init], pred_some := ?_, edges := by simp [init] }
  · intro x p hm
    simp [init] at hm
    obtain ⟨rfl, rfl⟩ := hm
    exact ⟨h, 0, 0, rfl, le_refl _, by simp [init], le_refl _⟩
  · intro x dx _ hd
    by_cases hx : x = start
    · subst hx
      simp [init] at hd
      subst hd
      exact ⟨le_refl _, by simp [init]⟩
    · simp [init, upd_ne _ _ hx] at hd
  · intro u du hu hd
    simp [init, upd_ne _ _ hu] at hd

/-- visited flags are not touched by the inner loop -/
theorem relax_visited (v : Nat) (s : State) (e : Nat × Rat) : (relax v s e).visited = s.visited := by
  unfold relax
  simp only
  split <;> split <;> rfl

theorem relax_queue_len (v : Nat) (s : State) (e : Nat × Rat) : (relax v s e).queue.length ≤ s.queue.length + 1 := by
  unfold relax
  simp only
  split <;> split <;> simp [push]

theorem inv_relax {adj : Adj} {start n v : Nat} {e : Nat × Rat} {todo : List (Nat × Rat)} {b : Rat}
    {order : List Nat} {s : State} (hnn : NonNeg adj) (hwf : WF adj n)
    (I : Inv adj start n v (e :: todo) b order s) : Inv adj start n v todo b order (relax v s e) := by
  obtain ⟨hvv, hdv⟩ := I.cur (by simp)
  have hev : e ∈ adj v := I.todo_sub e (by simp)
  have hw : 0 ≤ e.2 := hnn v e hev
  have hnv : e.1 < n := hwf v e hev
  have hd : addW (s.dist v) e.2 = some (b + e.2) := by rw [hdv]; rfl
  by_cases hg : gt (s.dist e.1) (some (b + e.2)) = true
  · -- the label of `e.1` is lowered
    have hunv : s.visited e.1 = false := by
      cases hvis : s.visited e.1 with
      | false => rfl
      | true =>
        obtain ⟨du, hdu, hle⟩ := I.vis_dist _ hvis
        rcases (gt_true_iff _ _).mp hg with h | ⟨a, ha, hlt⟩
        · rw [hdu] at h; simp at h
        · rw [hdu] at ha; simp at ha; subst ha; linarith
    have hne_v : e.1 ≠ v := by intro h; rw [h, hvv] at hunv; simp at hunv
    have hne_s : e.1 ≠ start := by
      intro h
      rcases (gt_true_iff _ _).mp hg with h' | ⟨a, ha, hlt⟩
      · rw [h, I.dist_start] at h'; simp at h'
      · rw [h, I.dist_start] at ha; simp at ha; subst ha; have := I.b_nonneg; linarith
    have hs' : relax v s e = { s with dist := upd s.dist e.1 (some (b + e.2)), pred := upd s.pred e.1 (some v),
                                       queue := s.queue ++ [(e.1, Prio.fin (b + e.2))] } := by
      unfold relax
      simp only [hd, hg, if_true, hunv, upd_same, prioOf, push]
      rfl
    rw [hs']
    -- old label of `e.1`, if any, exceeds the new one
    have hold : ∀ a, s.dist e.1 = some a → b + e.2 < a := by
      intro a ha
      rcases (gt_true_iff _ _).mp hg with h | ⟨a', ha', hlt⟩
      · rw [ha] at h; simp at h
      · rw [ha] at ha'; simp at ha'; subst ha'; exact hlt
    refine { start_lt := I.start_lt, b_nonneg := I.b_nonneg, dist_start := ?_, order_nodup := I.order_nodup,
             vis_iff := I.vis_iff, vis_lt := I.vis_lt, vis_dist := ?_, q_ok := ?_, unv := ?_, cur := ?_,
             todo_sub := fun e' he' => I.todo_sub e' (List.mem_cons_of_mem _ he'), pred_ok := ?_,
             pred_some := ?_, edges := ?_ }
    · simp only; rw [upd_ne _ _ (Ne.symm hne_s)]; exact I.dist_start
    · intro u hu
      have hne : u ≠ e.1 := by intro h; rw [h, hunv] at hu; simp at hu
      simp only; rw [upd_ne _ _ hne]; exact I.vis_dist u hu
    · intro x p hm
      simp only at hm
      rcases List.mem_append.mp hm with hm | hm
      · obtain ⟨hx, pp, dx, hp, hb, hdx, hle⟩ := I.q_ok x p hm
        refine ⟨hx, ?_⟩
        by_cases hxe : x = e.1
        · subst hxe
          have := hold dx hdx
          exact ⟨pp, b + e.2, hp, hb, by simp, by linarith⟩
        · exact ⟨pp, dx, hp, hb, by simp only; rw [upd_ne _ _ hxe]; exact hdx, hle⟩
      · simp at hm
        obtain ⟨rfl, rfl⟩ := hm
        exact ⟨hnv, b + e.2, b + e.2, rfl, by linarith, by simp, le_refl _⟩
    · intro x dx hvx hdx
      simp only at hvx hdx ⊢
      by_cases hxe : x = e.1
      · subst hxe
        simp at hdx; subst hdx
        exact ⟨by linarith, by simp⟩
      · rw [upd_ne _ _ hxe] at hdx
        obtain ⟨h1, h2⟩ := I.unv x dx hvx hdx
        exact ⟨h1, List.mem_append_left _ h2⟩
    · intro _
      simp only
      rw [upd_ne _ _ (Ne.symm hne_v)]
      exact ⟨hvv, hdv⟩
    · intro u p hp
      simp only at hp ⊢
      by_cases hue : u = e.1
      · subst hue
        simp at hp; subst hp
        refine ⟨hvv, hne_s, ⟨e.2, b, hev, ?_, by simp⟩, ?_⟩
        · rw [upd_ne _ _ (Ne.symm hne_v)]; exact hdv
        · intro h; rw [hunv] at h; simp at h
      · rw [upd_ne _ _ hue] at hp
        obtain ⟨hvp, hus, ⟨w, dp, hmem, hdp, hdu⟩, hidx⟩ := I.pred_ok u p hp
        have hpe : p ≠ e.1 := by intro h; rw [h, hunv] at hvp; simp at hvp
        refine ⟨hvp, hus, ⟨w, dp, hmem, ?_, ?_⟩, hidx⟩
        · rw [upd_ne _ _ hpe]; exact hdp
        · rw [upd_ne _ _ hue]; exact hdu
    · intro u du hus hdu
      simp only at hdu ⊢
      by_cases hue : u = e.1
      · subst hue; exact ⟨v, by simp⟩
      · rw [upd_ne _ _ hue] at hdu ⊢
        exact I.pred_some u du hus hdu
    · intro u hvu e' he'
      simp only at hvu
      have hue : u ≠ e.1 := by intro h; rw [h, hunv] at hvu; simp at hvu
      have key : ∀ dx du, s.dist e'.1 = some dx → s.dist u = some du → dx ≤ du + e'.2 →
          Relaxed { s with dist := upd s.dist e.1 (some (b + e.2)), pred := upd s.pred e.1 (some v),
                           queue := s.queue ++ [(e.1, Prio.fin (b + e.2))] } u e' := by
        intro dx du h1 h2 h3
        by_cases hx : e'.1 = e.1
        · refine ⟨b + e.2, du, ?_, ?_, ?_⟩
          · simp only; rw [hx]; simp
          · simp only; rw [upd_ne _ _ hue]; exact h2
          · have := hold dx (hx ▸ h1); linarith
        · refine ⟨dx, du, ?_, ?_, h3⟩
          · simp only; rw [upd_ne _ _ hx]; exact h1
          · simp only; rw [upd_ne _ _ hue]; exact h2
      rcases I.edges u hvu e' he' with ⟨huv, hmem⟩ | ⟨dx, du, h1, h2, h3⟩
      · rcases List.mem_cons.mp hmem with h | h
        · right
          subst h; subst huv
          refine ⟨b + e'.2, b, ?_, ?_, le_refl _⟩
          · simp
          · simp only; rw [upd_ne _ _ hue]; exact hdv
        · exact Or.inl ⟨huv, h⟩
      · exact Or.inr (key dx du h1 h2 h3)
  · -- no label changes
    have hg' : gt (s.dist e.1) (some (b + e.2)) = false := by simpa using hg
    obtain ⟨a, ha, hale⟩ := (gt_false_iff _ _).mp hg'
    have hrel : Relaxed s v e := ⟨a, b, ha, hdv, hale⟩
    cases hvis : s.visited e.1 with
    | true =>
      have hs' : relax v s e = s := by
        unfold relax
        simp only [hd, hg', Bool.false_eq_true, if_false, hvis, if_true]
      rw [hs']
      refine { I with cur := fun _ => ⟨hvv, hdv⟩,
                      todo_sub := fun e' he' => I.todo_sub e' (List.mem_cons_of_mem _ he'), edges := ?_ }
      intro u hvu e' he'
      rcases I.edges u hvu e' he' with ⟨huv, hmem⟩ | h
      · rcases List.mem_cons.mp hmem with h | h
        · right; subst h; subst huv; exact hrel
        · exact Or.inl ⟨huv, h⟩
      · exact Or.inr h
    | false =>
      have hs' : relax v s e = { s with queue := s.queue ++ [(e.1, Prio.fin a)] } := by
        unfold relax
        simp only [hd, hg', Bool.false_eq_true, if_false, hvis]
        simp only [ha, prioOf, push]
      rw [hs']
      obtain ⟨hba, _⟩ := I.unv e.1 a hvis ha
      refine { start_lt := I.start_lt, b_nonneg := I.b_nonneg, dist_start := I.dist_start,
               order_nodup := I.order_nodup, vis_iff := I.vis_iff, vis_lt := I.vis_lt, vis_dist := I.vis_dist,
               q_ok := ?_, unv := ?_, cur := fun _ => ⟨hvv, hdv⟩,
               todo_sub := fun e' he' => I.todo_sub e' (List.mem_cons_of_mem _ he'), pred_ok := I.pred_ok,
               pred_some := I.pred_some, edges := ?_ }
      · intro x p hm
        simp only at hm
        rcases List.mem_append.mp hm with hm | hm
        · exact I.q_ok x p hm
        · simp at hm
          obtain ⟨rfl, rfl⟩ := hm
          exact ⟨hnv, a, a, rfl, hba, ha, le_refl _⟩
      · intro x dx hvx hdx
        obtain ⟨h1, h2⟩ := I.unv x dx hvx hdx
        exact ⟨h1, List.mem_append_left _ h2⟩
      · intro u hvu e' he'
        rcases I.edges u hvu e' he' with ⟨huv, hmem⟩ | ⟨dx, du, h1, h2, h3⟩
        · rcases List.mem_cons.mp hmem with h | h
          · right; subst h; subst huv; exact ⟨a, b, ha, hdv, hale⟩
          · exact Or.inl ⟨huv, h⟩
        · exact Or.inr ⟨dx, du, h1, h2, h3⟩

theorem inv_fold {adj : Adj} {start n v : Nat} {b : Rat} {order : List Nat} (hnn : NonNeg adj) (hwf : WF adj n) :
    ∀ (l : List (Nat × Rat)) (s : State), Inv adj start n v l b order s →
      Inv adj start n v [] b order (l.foldl (relax v) s)
  | [], _, I => I
  | _ :: l, _, I => inv_fold hnn hwf l _ (inv_relax hnn hwf I)

theorem fold_visited (v : Nat) : ∀ (l : List (Nat × Rat)) (s : State), (l.foldl (relax v) s).visited = s.visited
  | [], _ => rfl
  | e :: l, s => by rw [List.foldl_cons, fold_visited v l, relax_visited]

theorem fold_queue_len (v : Nat) : ∀ (l : List (Nat × Rat)) (s : State),
    (l.foldl (relax v) s).queue.length ≤ s.queue.length + l.length
  | [], _ => by simp
  | e :: l, s => by
    rw [List.foldl_cons]
    have h1 := fold_queue_len v l (relax v s e)
    have h2 := relax_queue_len v s e
    simp only [List.length_cons]
    omega

/-- one iteration of the outer loop preserves the invariant -/
theorem reach_step {pop : Pop} {adj : Adj} {start n : Nat} (hpop : PopOK pop) (hnn : NonNeg adj) (hwf : WF adj n)
    {s s' : State} (R : Reach adj start n s) (hstep : step pop adj s = some s') : Reach adj start n s' := by
  obtain ⟨v0, b, order, I⟩ := R
  unfold step at hstep
  cases hp : pop s.queue with
  | none => rw [hp] at hstep; simp at hstep
  | some r =>
    obtain ⟨e, q'⟩ := r
    rw [hp] at hstep
    simp only at hstep
    have hperm := hpop.perm _ _ _ hp
    have hmin := hpop.min _ _ _ hp
    have hmem : ∀ x, x ∈ s.queue ↔ x = e ∨ x ∈ q' := by
      intro x; rw [← hperm.mem_iff]; simp
    have hno_todo : ∀ u (e' : Nat × Rat), ¬ (u = v0 ∧ e' ∈ ([] : List (Nat × Rat))) := by simp
    by_cases hvis : s.visited e.1 = true
    · -- stale entry: skipped
      rw [if_pos hvis] at hstep
      simp at hstep; subst hstep
      refine ⟨v0, b, order, { I with q_ok := ?_, unv := ?_ }⟩
      · intro x p hm
        exact I.q_ok x p ((hmem _).mpr (Or.inr hm))
      · intro x dx hvx hdx
        obtain ⟨h1, h2⟩ := I.unv x dx hvx hdx
        refine ⟨h1, ?_⟩
        rcases (hmem _).mp h2 with h | h
        · exfalso; rw [← h] at hvis; simp at hvis; rw [hvis] at hvx; simp at hvx
        · exact h
    · -- `e.1` is settled now
      have hvis' : s.visited e.1 = false := by simpa using hvis
      rw [if_neg hvis] at hstep
      simp at hstep; subst hstep
      have he_mem : (e.1, e.2) ∈ s.queue := (hmem _).mpr (Or.inl rfl)
      obtain ⟨hvn, pp, dv, hpp, hbpp, hdv, hdvpp⟩ := I.q_ok e.1 e.2 he_mem
      obtain ⟨hbdv, hentry⟩ := I.unv e.1 dv hvis' hdv
      have hppdv : pp ≤ dv := by
        have := hmin _ hentry
        rw [hpp] at this
        exact (prio_le_fin _ _).mp this
      have hpd : pp = dv := le_antisymm hppdv hdvpp
      subst hpd
      have hnotin : e.1 ∉ order := by
        intro h; rw [← I.vis_iff] at h; rw [h] at hvis'; simp at hvis'
      refine ⟨e.1, pp, order ++ [e.1], inv_fold hnn hwf (adj e.1) _ ?_⟩
      refine { start_lt := I.start_lt, b_nonneg := le_trans I.b_nonneg hbdv, dist_start := I.dist_start,
               order_nodup := ?_, vis_iff := ?_, vis_lt := ?_, vis_dist := ?_, q_ok := ?_, unv := ?_,
               cur := fun _ => ⟨by simp, hdv⟩, todo_sub := fun _ h => h, pred_ok := ?_,
               pred_some := I.pred_some, edges := ?_ }
      · have := I.order_nodup
        simp only [List.nodup_append, this, true_and]
        simp
        intro a ha h; exact hnotin (h ▸ ha)
      · intro u
        simp only
        by_cases hu : u = e.1
        · subst hu; simp
        · rw [upd_ne _ _ hu, I.vis_iff]; simp [hu]
      · intro u hu
        rcases List.mem_append.mp hu with h | h
        · exact I.vis_lt u h
        · simp at h; subst h; exact hvn
      · intro u hu
        simp only at hu ⊢
        by_cases hue : u = e.1
        · subst hue; exact ⟨pp, hdv, le_refl _⟩
        · rw [upd_ne _ _ hue] at hu
          obtain ⟨du, h1, h2⟩ := I.vis_dist u hu
          exact ⟨du, h1, le_trans h2 hbdv⟩
      · intro x p hm
        simp only at hm
        have hm' : (x, p) ∈ s.queue := (hmem _).mpr (Or.inr hm)
        obtain ⟨hx, pp', dx, hp', hb', hdx, hle⟩ := I.q_ok x p hm'
        refine ⟨hx, pp', dx, hp', ?_, hdx, hle⟩
        have := hmin _ hm'
        rw [hpp, hp'] at this
        exact (prio_le_fin _ _).mp this
      · intro x dx hvx hdx
        simp only at hvx hdx ⊢
        have hxe : x ≠ e.1 := by intro h; subst h; simp at hvx
        rw [upd_ne _ _ hxe] at hvx
        obtain ⟨h1, h2⟩ := I.unv x dx hvx hdx
        constructor
        · have := hmin _ h2
          rw [hpp] at this
          exact (prio_le_fin _ _).mp this
        · rcases (hmem _).mp h2 with h | h
          · exfalso; apply hxe; rw [← h]
          · exact h
      · intro u p hp'
        simp only at hp' ⊢
        obtain ⟨hvp, hus, hex, hidx⟩ := I.pred_ok u p hp'
        have hpo : p ∈ order := (I.vis_iff p).mp hvp
        refine ⟨?_, hus, hex, ?_⟩
        · by_cases hpe : p = e.1
          · subst hpe; simp
          · rw [upd_ne _ _ hpe]; exact hvp
        · intro hvu
          rw [List.idxOf_append_of_mem hpo]
          by_cases hue : u = e.1
          · subst hue
            rw [List.idxOf_append_of_notMem hnotin]
            have : List.idxOf p order < order.length := List.idxOf_lt_length_iff.mpr hpo
            simp
            omega
          · rw [upd_ne _ _ hue] at hvu
            rw [List.idxOf_append_of_mem ((I.vis_iff u).mp hvu)]
            exact hidx hvu
      · intro u hvu e' he'
        simp only at hvu
        by_cases hue : u = e.1
        · subst hue; exact Or.inl ⟨rfl, he'⟩
        · rw [upd_ne _ _ hue] at hvu
          rcases I.edges u hvu e' he' with h | h
          · exact absurd h (hno_todo _ _)
          · exact Or.inr h

theorem reach_init (adj : Adj) {start n : Nat} (h : start < n) : Reach adj start n (init start) :=
  ⟨0, 0, [], inv_init adj h⟩

theorem reach_iter {pop : Pop} {adj : Adj} {start n : Nat} (hpop : PopOK pop) (hnn : NonNeg adj) (hwf : WF adj n) :
    ∀ (f : Nat) (s : State), Reach adj start n s → Reach adj start n (iter pop adj f s)
  | 0, _, R => R
  | f+1, s, R => by
    unfold iter
    cases h : step pop adj s with
    | none => exact R
    | some s' => exact reach_iter hpop hnn hwf f s' (reach_step hpop hnn hwf R h)

end Mouette.Dijkstra
