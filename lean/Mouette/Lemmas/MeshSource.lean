import Mouette.Generated.C06Src
import Mouette.Lemmas.MeshHeap
/-
Bridges from the TRANSLATED bodies of transform.py / merge (Generated/C06Src.lean) to the hand model Model/MeshHeap.lean:
the vertex loop `for i in mesh.id_vertices: mesh.vertices[i] = g(...)` run statement by statement is the model's one-shot
`mapRebind`; the in-place loop is `mapInPlace`.
-/
namespace Mouette.MeshSrc
open Mouette.MeshHeap
set_option linter.unusedSimpArgs false
set_option linter.unusedVariables false

/-- state after the first `j` iterations of a rebinding loop -/
def partialRebind (f : V3 → V3) (s : State) (mi : Nat) (m : Mesh) (j : Nat) : State :=
  { heap := s.heap ++ ((coords s.heap m).take j).map f,
    meshes := s.meshes.set mi { m with verts := List.range' s.heap.length j ++ m.verts.drop j } }

theorem getD_range'_drop (a j : Nat) (l : List Nat) (hj : j < l.length) :
    (List.range' a j ++ l.drop j).getD j 0 = l[j] := by
  rw [List.getD_eq_getElem?_getD, List.getElem?_append_right (by simp)]
  simp [hj]

theorem set_range'_drop (a j x : Nat) (l : List Nat) (hj : j < l.length) :
    (List.range' a j ++ l.drop j).set j x = List.range' a j ++ x :: l.drop (j + 1) := by
  rw [List.set_append_right _ _ (by simp)]
  simp only [List.length_range', Nat.sub_self]
  rw [List.drop_eq_getElem_cons hj]
  rfl

theorem partialRebind_step (f : V3 → V3) (s : State) (mi : Nat) (m : Mesh) (hm : s.meshes[mi]? = some m)
    (hwf : ∀ r ∈ m.verts, r < s.heap.length) (j : Nat) (hj : j < m.verts.length) :
    setVertex (partialRebind f s mi m j) mi j (f (vertexAt (partialRebind f s mi m j) mi j)) = partialRebind f s mi m (j + 1) := by
  have hmi : mi < s.meshes.length := by
    rcases Nat.lt_or_ge mi s.meshes.length with h | h
    · exact h
    · rw [List.getElem?_eq_none h] at hm; cases hm
  have hget : (partialRebind f s mi m j).meshes[mi]? = some { m with verts := List.range' s.heap.length j ++ m.verts.drop j } := by
    simp [partialRebind, hmi]
  have hcl : (coords s.heap m).length = m.verts.length := by simp [coords]
  have hv : vertexAt (partialRebind f s mi m j) mi j = (coords s.heap m)[j]'(by omega) := by
    unfold vertexAt
    rw [hget]
    simp only [getD_range'_drop _ _ _ hj]
    simp only [partialRebind]
    rw [deref_append _ _ (hwf _ (List.getElem_mem hj))]
    simp [coords]
  unfold setVertex
  rw [hget, hv]
  simp only [partialRebind, set_range'_drop _ _ _ _ hj, List.set_set]
  congr 1
  · rw [List.take_succ, List.map_append, List.append_assoc]
    simp [List.getElem?_eq_getElem (by omega : j < (coords s.heap m).length)]
  · congr 2
    simp only [List.length_append, List.length_map, List.length_take, hcl, Nat.min_eq_left (Nat.le_of_lt hj)]
    rw [List.range'_1_concat, List.append_assoc]
    rfl

theorem rebind_prefix (f : V3 → V3) (g : State → Nat → V3) (s : State) (mi : Nat) (m : Mesh) (hm : s.meshes[mi]? = some m)
    (hwf : ∀ r ∈ m.verts, r < s.heap.length) (hg : ∀ s' i, g s' i = f (vertexAt s' mi i)) :
    ∀ j, j ≤ m.verts.length →
      (List.range j).foldl (fun s' i => setVertex s' mi i (g s' i)) s = partialRebind f s mi m j := by
  intro j
  induction j with
  | zero =>
    intro _
    have hset : s.meshes.set mi m = s.meshes := by
      apply List.ext_getElem?
      intro k
      by_cases hk : mi = k
      · subst hk
        rcases Nat.lt_or_ge mi s.meshes.length with h | h
        · rw [List.getElem?_set_self h, hm]
        · rw [List.getElem?_eq_none h] at hm; cases hm
      · rw [List.getElem?_set_ne hk]
    simp only [List.range_zero, List.foldl_nil, partialRebind, List.take_zero, List.map_nil, List.append_nil, List.range'_zero,
      List.nil_append, List.drop_zero]
    show s = { heap := s.heap, meshes := s.meshes.set mi m }
    rw [hset]
  | succ j ih =>
    intro hj
    rw [List.range_succ, List.foldl_append, ih (by omega)]
    simp only [List.foldl_cons, List.foldl_nil, hg]
    exact partialRebind_step f s mi m hm hwf j (by omega)

/-- the rebinding vertex loop, run statement by statement, is the model's one-shot `mapRebind` -/
theorem rebindLoop_eq (f : V3 → V3) (g : State → Nat → V3) (s : State) (mi : Nat) (hwf : WF s)
    (hg : ∀ s' i, g s' i = f (vertexAt s' mi i)) :
    (idVertices s mi).foldl (fun s' i => setVertex s' mi i (g s' i)) s = mapRebind f s mi := by
  unfold idVertices nVerts mapRebind
  cases hm : s.meshes[mi]? with
  | none => simp
  | some m =>
    simp only
    have hwfm : ∀ r ∈ m.verts, r < s.heap.length := hwf m (mem_of_getElem? hm)
    rw [rebind_prefix f g s mi m hm hwfm hg m.verts.length (Nat.le_refl _)]
    have hcl : (coords s.heap m).length = m.verts.length := by simp [coords]
    have hdrop : List.drop m.verts.length m.verts = [] := List.drop_length
    have htake : List.take m.verts.length (List.map f (coords s.heap m)) = List.map f (coords s.heap m) :=
      List.take_of_length_le (by simp [hcl])
    simp [partialRebind, alloc, hcl, hdrop, htake]

/-- state after the first `j` iterations of the in-place loop `mesh.vertices[i][c] = x` -/
theorem inplace_prefix (c : Nat) (x : Rat) (s : State) (mi : Nat) (m : Mesh) (hm : s.meshes[mi]? = some m) :
    ∀ j, j ≤ m.verts.length →
      (List.range j).foldl (fun s' i => editVertex s' mi i c x) s =
        { s with heap := (m.verts.take j).foldl (fun h r => h.set r ((deref h r).set c x)) s.heap } := by
  intro j
  induction j with
  | zero => intro _; simp
  | succ j ih =>
    intro hj
    have hjl : j < m.verts.length := by omega
    rw [List.range_succ, List.foldl_append, ih (by omega)]
    simp only [List.foldl_cons, List.foldl_nil, editVertex, hm, List.getElem?_eq_getElem hjl]
    rw [List.take_succ, List.foldl_append]
    simp [List.getElem?_eq_getElem hjl]

theorem inplaceLoop_eq (c : Nat) (x : Rat) (s : State) (mi : Nat) :
    (idVertices s mi).foldl (fun s' i => editVertex s' mi i c x) s = mapInPlace (fun p => p.set c x) s mi := by
  unfold idVertices nVerts mapInPlace
  cases hm : s.meshes[mi]? with
  | none => simp
  | some m =>
    simp only
    rw [inplace_prefix c x s mi m hm m.verts.length (Nat.le_refl _)]
    simp

end Mouette.MeshSrc
