import Mouette.Lemmas.AttrHandlesStep
/-
The invariants of the extended model along every script.
-/
namespace Mouette.Attr
set_option linter.unusedSimpArgs false
set_option linter.unusedVariables false

structure Good2 (dense : Bool) (s : State2) : Prop where
  inv : Inv s.st
  mode : ModeOk dense s.st
  hinv : HInv s

theorem good2_init (dense : Bool) (n0 : Nat) : Good2 dense (init2 n0) :=
  ⟨inv_init n0, (fun a h => by cases h), (fun hl h => by cases h)⟩

theorem writeAll_props (dense : Bool) : ∀ (keys : List Int) (s : State) (v : InVal), Inv s → ModeOk dense s →
    Inv (writeAll dense s keys v).1 ∧ ModeOk dense (writeAll dense s keys v).1 ∧ Ext s (writeAll dense s keys v).1 := by
  intro keys
  induction keys with
  | nil => intro s v hi hm; exact ⟨hi, hm, ext_refl s⟩
  | cons key t ih =>
    intro s v hi hm
    have h1 := inv_step dense s (.set key v) hi
    have h2 := modeOk_step dense s (.set key v) hi hm
    have h3 := (ext_step dense s (.set key v)).1
    simp only [writeAll]
    cases hs : step dense s (.set key v) with
    | mk s' o =>
      rw [hs] at h1 h2 h3; simp only at h1 h2 h3
      cases o with
      | ok =>
        simp only
        obtain ⟨g1, g2, g3⟩ := ih s' v h1 h2
        exact ⟨g1, g2, ext_trans h3 g3⟩
      | val w => exact ⟨h1, h2, h3⟩
      | arr rows => exact ⟨h1, h2, h3⟩
      | err e => exact ⟨h1, h2, h3⟩

/-- the handle returned by a read is sound: it can only be the storage of the entry read -/
theorem get_handle_ok {s s' : State} {a : Attr} {i : Int} {hd : Handle} {v : Val}
    (hok : StoreOk s.heap s.size a) (ha : s.attr = some a) (hg : get s a i = .ok (s', hd, v)) :
    HOk s' { orig := some i, hd := some hd } := by
  have hattr := (get_len hg).2
  unfold get at hg
  cases hst : a.store with
  | sparse data =>
    unfold StoreOk at hok; rw [hst] at hok; simp only at hok
    obtain ⟨_, hinj, hty⟩ := hok
    rw [hst] at hg; simp only at hg
    cases hl : data.lookup i with
    | some r =>
      rw [hl] at hg; simp only at hg
      injection hg with hg; injection hg with h1 h2; injection h2 with h2 _; subst h1; subst h2
      have hmem := mem_of_lookup hl
      obtain ⟨w, hw⟩ := hty (i, r) hmem
      refine ⟨fun hd' e => by simp only [Option.some.injEq] at e; rw [← e]; exact heap_some_lt hw, ?_⟩
      intro a' ha'; rw [ha] at ha'; injection ha' with ha'; subst ha'
      unfold HOkA; rw [hst]; simp only
      intro p hp e
      have := hinj p hp (i, r) hmem e
      simp only at this; rw [this]
    | none =>
      rw [hl] at hg; simp only at hg
      injection hg with hg; injection hg with h1 h2; injection h2 with h2 _; subst h1; subst h2
      refine ⟨fun hd' e => by simp only [Option.some.injEq] at e; rw [← e]; simp [hdRef], ?_⟩
      intro a' ha'; simp only at ha'; rw [ha] at ha'; injection ha' with ha'; subst ha'
      unfold HOkA; rw [hst]; simp only
      intro p hp e
      obtain ⟨w, hw⟩ := hty p hp
      have := heap_some_lt hw; omega
  | dense n arr =>
    have hir := get_dense_inRange (r := (s', hd, v)) hst (by unfold get; exact hg)
    unfold StoreOk at hok; rw [hst] at hok; simp only at hok
    obtain ⟨_, rows, hrows, _⟩ := hok
    rw [hst] at hg; simp only at hg
    have hb : ¬ oobGuard i n = true := by unfold oobGuard; simp; omega
    rw [if_neg hb] at hg
    injection hg with hg; injection hg with h1 h2; injection h2 with h2 _; subst h1; subst h2
    refine ⟨fun hd' e => by simp only [Option.some.injEq] at e; rw [← e]; exact heap_some_lt hrows, ?_⟩
    intro a' ha'; rw [ha] at ha'; injection ha' with ha'; subst ha'
    unfold HOkA; rw [hst]; simp only
    intro _; congr 1; omega

theorem hinv_ext {s : State2} {st' : State} (h : HInv s) (he : Ext s.st st') : HInv { st := st', held := s.held } :=
  fun hl hm => hok_ext (h hl hm) he

theorem good2_step (dense : Bool) (s : State2) (op : Op2) (hg : Good2 dense s) : Good2 dense (step2 dense s op).1 := by
  cases op with
  | base op =>
    simp only [step2]
    obtain ⟨he, hf⟩ := ext_step dense s.st op
    refine ⟨inv_step dense s.st op hg.inv, modeOk_step dense s.st op hg.inv hg.mode, ?_⟩
    intro hl hm
    simp only at hm ⊢
    by_cases hc : (op.invalidates && (step dense s.st op).2.isOk) = true
    · rw [if_pos hc] at hm
      simp only [Bool.and_eq_true] at hc
      simp only [forget, List.mem_map] at hm
      obtain ⟨hl0, hm0, rfl⟩ := hm
      exact hok_fresh (hg.hinv hl0 hm0) (hf hc.1 hc.2)
    · rw [if_neg hc] at hm
      exact hok_ext (hg.hinv hl hm) he
  | hold i =>
    simp only [step2]
    cases ha : s.st.attr with
    | none => exact hg
    | some a =>
      simp only
      cases hget : get s.st a i with
      | error e => exact hg
      | ok r =>
        obtain ⟨st', hd, v⟩ := r
        simp only
        obtain ⟨_, hsz, hat, hok, _⟩ := get_spec (hg.inv a ha) hget
        obtain ⟨hlen, _⟩ := get_len hget
        refine ⟨?_, ?_, ?_⟩
        · intro a'' h; simp only at h ⊢; rw [hat, ha] at h; injection h with h; rw [← h, hsz]; exact hok
        · intro a'' h; simp only at h; rw [hat] at h; exact hg.mode a'' h
        · intro hl hm
          simp only [List.mem_append, List.mem_singleton] at hm
          rcases hm with hm | hm
          · exact hok_ext (hg.hinv hl hm) (ext_of_attr_eq hat hlen)
          · rw [hm]
            by_cases hk : a.k > 1
            · simp only [hk, if_true]; exact get_handle_ok (hg.inv a ha) ha hget
            · simp only [hk, if_false]
              exact ⟨(fun hd' e => by cases e), (fun a' _ => by unfold HOkA; simp only)⟩
  | updH h c x =>
    simp only [step2]
    cases hh : s.held[h]? with
    | none => exact hg
    | some hl =>
      simp only
      cases hhd : hl.hd with
      | none => exact hg
      | some hd =>
        simp only
        by_cases hc : c < handleLen s.st.heap hd
        · rw [if_pos hc]
          refine ⟨?_, hg.mode, ?_⟩
          · intro a ha; simp only at ha ⊢; exact storeOk_mutate hd c x (hg.inv a ha)
          · exact hinv_ext hg.hinv (ext_of_attr_eq rfl (by simp only [mutate_length]; exact Nat.le_refl _))
        · rw [if_neg hc]; exact hg
  | setFromRead i j =>
    simp only [step2]
    cases ha : s.st.attr with
    | none => exact hg
    | some a =>
      simp only
      cases hget : get s.st a i with
      | error e => exact hg
      | ok r =>
        obtain ⟨st', hd, v⟩ := r
        simp only
        obtain ⟨_, hsz, hat, hok, _⟩ := get_spec (hg.inv a ha) hget
        obtain ⟨hlen, _⟩ := get_len hget
        have hinv' : Inv st' := by
          intro a'' h; rw [hat, ha] at h; injection h with h; rw [← h, hsz]; exact hok
        have hm' : ModeOk dense st' := by intro a'' h; rw [hat] at h; exact hg.mode a'' h
        refine ⟨inv_step dense st' _ hinv', modeOk_step dense st' _ hinv' hm', ?_⟩
        exact hinv_ext hg.hinv (ext_trans (ext_of_attr_eq hat hlen) (ext_step dense st' _).1)
  | setShared v keys =>
    simp only [step2]
    cases ha : s.st.attr with
    | none => exact hg
    | some a =>
      simp only
      cases v with
      | sc x =>
        simp only
        obtain ⟨g1, g2, g3⟩ := writeAll_props dense keys s.st (.sc x) hg.inv hg.mode
        refine ⟨g1, g2, ?_⟩
        intro hl hm
        simp only [List.mem_append, List.mem_singleton] at hm
        rcases hm with hm | hm
        · exact hok_ext (hg.hinv hl hm) g3
        · rw [hm]; exact ⟨(fun hd' e => by cases e), (fun a' _ => by unfold HOkA; simp only)⟩
      | vec l =>
        simp only
        have hinv0 : Inv { heap := s.st.heap ++ [Cell.vec l], size := s.st.size, attr := some a } := by
          intro a' ha'; simp only at ha' ⊢; exact storeOk_append _ (hg.inv a' (by rw [ha]; exact ha'))
        have hm0 : ModeOk dense { heap := s.st.heap ++ [Cell.vec l], size := s.st.size, attr := some a } := by
          intro a' ha'; simp only at ha'; exact hg.mode a' (by rw [ha]; exact ha')
        have he0 : Ext s.st { heap := s.st.heap ++ [Cell.vec l], size := s.st.size, attr := some a } :=
          ext_of_attr_eq (by simp only; exact ha.symm) (by simp)
        obtain ⟨g1, g2, g3⟩ := writeAll_props dense keys
          { heap := s.st.heap ++ [Cell.vec l], size := s.st.size, attr := some a } (.vec l) hinv0 hm0
        refine ⟨g1, g2, ?_⟩
        intro hl hm
        simp only [List.mem_append, List.mem_singleton] at hm
        rcases hm with hm | hm
        · exact hok_ext (hg.hinv hl hm) (ext_trans he0 g3)
        · rw [hm]
          refine ⟨fun hd' e => by
            simp only [Option.some.injEq] at e; rw [← e]; simp only [hdRef]
            have := g3.1; simp only [List.length_append, List.length_singleton] at this; omega, ?_⟩
          intro a' ha'
          unfold HOkA; simp only
          cases hst : a'.store with
          | dense n arr => simp only
          | sparse data' =>
            simp only
            intro p hp e
            have hx := g3.2 a' ha'; rw [hst] at hx; simp only at hx
            rcases hx p hp with hf | ⟨a0, data0, ha0, hs0, hp0⟩
            · simp only [List.length_append, List.length_singleton] at hf; omega
            · skip
              have hok := hg.inv a0 (by rw [ha]; exact ha0)
              unfold StoreOk at hok; rw [hs0] at hok; simp only at hok
              obtain ⟨w, hw⟩ := hok.2.2 p hp0
              have := heap_some_lt hw; omega

theorem good2_final (dense : Bool) : ∀ (ops : List Op2) (s : State2), Good2 dense s → Good2 dense (final2 dense s ops) := by
  intro ops
  induction ops with
  | nil => intro s h; exact h
  | cons op ops ih => intro s h; exact ih _ (good2_step dense s op h)

end Mouette.Attr
