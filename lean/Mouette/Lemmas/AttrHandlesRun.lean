import Mouette.Lemmas.AttrHandlesSim
/-
Run-level consequences for the extended model.
-/
namespace Mouette.Attr
set_option linter.unusedSimpArgs false
set_option linter.unusedVariables false

theorem goodR_init (dense : Bool) (n0 : Nat) : GoodR dense (init2 n0) (specInit2 n0) :=
  ⟨good2_init dense n0, R_init n0, rfl⟩

theorem refines2_aux (dense : Bool) : ∀ (ops : List Op2) (s : State2) (t : Spec2), GoodR dense s t →
    (dense = false → wellIndexed2 s.st.size ops = true) →
    Forall2 Matches2 (specRun2 t ops) (run2 dense s ops) := by
  intro ops
  induction ops with
  | nil => intro s t _ _; exact Forall2.nil
  | cons op ops ih =>
    intro s t hg hw
    have hidx : dense = false → op2InRange s.st.size op = true := by
      intro hd; have := hw hd; simp only [wellIndexed2, Bool.and_eq_true] at this; exact this.1
    obtain ⟨hg', hm, hsz⟩ := sim_step2 dense s t op hg hidx
    simp only [specRun2, run2]
    refine Forall2.cons hm (ih _ _ hg' ?_)
    intro hd; have := hw hd; simp only [wellIndexed2, Bool.and_eq_true] at this
    rw [hsz]; exact this.2

theorem forall2_common2 {sos : List SObs2} {l1 l2 : List Obs}
    (h1 : Forall2 Matches2 sos l1) (h2 : Forall2 Matches2 sos l2) :
    Forall2 (fun o1 o2 => ∃ so, Matches2 so o1 ∧ Matches2 so o2) l1 l2 := by
  induction h1 generalizing l2 with
  | nil => cases h2; exact Forall2.nil
  | cons hm _ ih =>
    cases h2 with
    | cons hm2 h2' => exact Forall2.cons ⟨_, hm, hm2⟩ (ih h2')

/-- dense storage: after the container grew, the matrix is a NEW object: no earlier read result reaches it -/
theorem dense_grow_dead {s : State} {a : Attr} (m : Nat) (hinv : Inv s) (hm : ModeOk true s) (ha : s.attr = some a)
    (hd : Handle) (hlt : hdRef hd < s.heap.length) (c : Nat) (x : Scalar) :
    ∃ a', (grow s m).attr = some a' ∧
      ∀ j : Int, 0 ≤ j → lookupVal (mutate (grow s m).heap hd c x) a' j = lookupVal (grow s m).heap a' j := by
  have hden := hm a ha
  unfold isDense at hden
  cases hst : a.store with
  | sparse data => rw [hst] at hden; cases hden
  | dense n arr =>
    rw [grow_some ha]
    refine ⟨(expandAttr s.heap a m).2, rfl, ?_⟩
    have hok := (expand_spec (h' := (expandAttr s.heap a m).1) (a' := (expandAttr s.heap a m).2) (m := m) (hinv a ha) rfl).2.2.2.1
    have hs' : (expandAttr s.heap a m).2.store = .dense (n + m) s.heap.length := by simp [expandAttr, hst]
    apply mutate_dead c x hok
    rw [hs']
    cases hd with
    | whole r => simp only
    | row arr' i' => simp only; simp only [hdRef] at hlt; omega

end Mouette.Attr
