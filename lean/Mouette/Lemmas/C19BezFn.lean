import Mathlib.Tactic.Ring
import Mathlib.Tactic.Linarith
import Mouette.Model.BezierSource
import Mouette.Lemmas.C19Sampling
/-
C19 round 5 — helper lemmas for the whole-function bridges of the Bézier exports (`Props/C19Bez.lean`):
the `for` loops of the source (threaded state, possible raise) against `mapE` / `map` / `flatMap`.
-/
namespace Mouette.Lemmas.C19Bez
open Mouette.SamplingSrc Mouette.BezierSrc

@[simp] theorem bind_ok {α β : Type} (v : α) (f : α → Res β) : Res.bind (.ok v) f = f v := rfl
@[simp] theorem bind_raised {α β : Type} (e : String) (f : α → Res β) : Res.bind (.raised e) f = .raised e := rfl

theorem forE_cons {α σ : Type} (x : α) (xs : List α) (s : σ) (body : σ → α → Res σ) :
    forE (x :: xs) s body = Res.bind (body s x) (fun s' => forE xs s' body) := by
  simp only [forE, Res.bind]

/-- a loop whose body never raises is a `foldl` -/
theorem forE_ok {α σ : Type} (g : σ → α → σ) : ∀ (xs : List α) (s : σ),
    forE xs s (fun s x => .ok (g s x)) = .ok (xs.foldl g s) := by
  intro xs
  induction xs with
  | nil => intro s; rfl
  | cons x xs ih => intro s; rw [forE_cons, bind_ok, ih]; rfl

theorem foldl_faces (h : Nat → List (List Nat)) : ∀ (is : List Nat) (o : RawOut),
    is.foldl (fun st i => { st with faces := st.faces ++ h i }) o = { o with faces := o.faces ++ is.flatMap h } := by
  intro is
  induction is with
  | nil => intro o; simp
  | cons i is ih => intro o; rw [List.foldl_cons, ih]; simp

theorem foldl_edges (h : Nat → List (List Nat)) : ∀ (is : List Nat) (o : RawOut),
    is.foldl (fun st i => { st with edges := st.edges ++ h i }) o = { o with edges := o.edges ++ is.flatMap h } := by
  intro is
  induction is with
  | nil => intro o; simp
  | cons i is ih => intro o; rw [List.foldl_cons, ih]; simp

theorem flatMap_single {α β : Type} (f : α → β) : ∀ xs : List α, xs.flatMap (fun i => [f i]) = xs.map f := by
  intro xs; induction xs with
  | nil => rfl
  | cons x xs ih => simp [List.flatMap_cons, ih]

theorem forE_edges (f : Nat → List Nat) (xs : List Nat) (o : RawOut) :
    forE xs o (fun st x => .ok (RawOut.appendEdge st (f x))) = .ok { o with edges := o.edges ++ xs.map f } := by
  rw [forE_ok]
  have := foldl_edges (fun i => [f i]) xs o
  simp only [RawOut.appendEdge]
  rw [this, flatMap_single]

theorem forE_faces (f : Nat → List Nat) (xs : List Nat) (o : RawOut) :
    forE xs o (fun st x => .ok (RawOut.appendFace st (f x))) = .ok { o with faces := o.faces ++ xs.map f } := by
  rw [forE_ok]
  have := foldl_faces (fun i => [f i]) xs o
  simp only [RawOut.appendFace]
  rw [this, flatMap_single]

/-- nested face loops: `for i in is: for j in js: faces.append(f i j)` -/
theorem forE_faces2 (f : Nat → Nat → List Nat) (js : List Nat) (is : List Nat) (o : RawOut) :
    forE is o (fun st i => Res.bind (forE js st (fun st j => .ok (RawOut.appendFace st (f i j)))) (fun st => .ok st))
      = .ok { o with faces := o.faces ++ is.flatMap (fun i => js.map (f i)) } := by
  have hb : (fun (st : RawOut) (i : Nat) => Res.bind (forE js st (fun st j => .ok (RawOut.appendFace st (f i j)))) (fun st => Res.ok st))
      = (fun st i => .ok { st with faces := st.faces ++ js.map (f i) }) := by
    funext st i
    rw [forE_faces, bind_ok]
  rw [hb, forE_ok, foldl_faces]

/-- the vertex loop of `as_polyline` -/
theorem forE_polyVerts (evaluate : Rat → Res Row) : ∀ (pts : List Rat) (k : Nat) (o : RawOut),
    forE (pts.zipIdx k) o (fun st x => Res.bind (evaluate x.1) (fun p =>
        if decide (p.length = 2) then .ok (RawOut.setAttr (RawOut.appendVert st [p.getD 0 0, p.getD 1 0, (0 : Rat)]) x.2 [x.1])
        else if decide (p.length = 3) then .ok (RawOut.setAttr (RawOut.appendVert st p) x.2 [x.1])
        else .ok (RawOut.setAttr st x.2 [x.1])))
      = (match mapE evaluate pts with
         | .raised e => .raised e
         | .ok vs => .ok { o with verts := o.verts ++ vs.flatMap padVert,
                                   attr := o.attr ++ (pts.zipIdx k).map (fun ix => (ix.2, [ix.1])) }) := by
  intro pts
  induction pts with
  | nil => intro k o; simp [forE, mapE]
  | cons t ts ih =>
    intro k o
    rw [List.zipIdx_cons, forE_cons]
    simp only [mapE]
    cases he : evaluate t with
    | raised e => rfl
    | ok p =>
      rw [bind_ok]
      by_cases h2 : p.length = 2
      · rw [if_pos (by simpa using h2), bind_ok, ih]
        cases mapE evaluate ts <;> simp [padVert, h2, RawOut.setAttr, RawOut.appendVert]
      · by_cases h3 : p.length = 3
        · rw [if_neg (by simpa using h2), if_pos (by simpa using h3), bind_ok, ih]
          cases mapE evaluate ts <;> simp [padVert, h2, h3, RawOut.setAttr, RawOut.appendVert]
        · rw [if_neg (by simpa using h2), if_neg (by simpa using h3), bind_ok, ih]
          cases mapE evaluate ts <;> simp [padVert, h2, h3, RawOut.setAttr]

theorem mapE_length {α β : Type} (f : α → Res β) : ∀ (xs : List α) (ys : List β), mapE f xs = .ok ys → ys.length = xs.length := by
  intro xs
  induction xs with
  | nil => intro ys h; simp [mapE] at h; subst h; rfl
  | cons x xs ih =>
    intro ys h
    simp only [mapE] at h
    cases hf : f x with
    | raised e => simp [hf] at h
    | ok y =>
      cases hm : mapE f xs with
      | raised e => simp [hf, hm] at h
      | ok ys' =>
        simp [hf, hm] at h
        subst h
        simp [ih ys' hm]

/-- the inner vertex loop of `as_surface` (row `q` evaluated at parameter `ui`) -/
theorem forE_surfRow (dcv : List Row → Rat → Res Row) (q : List Row) (ui : Rat) (V : List Rat) : ∀ (js : List Nat) (o : RawOut) (k : Nat),
    forE js (o, k) (fun st j => Res.bind (dcv q (V.getD j 0)) (fun v =>
        .ok (RawOut.setAttr (RawOut.appendVert st.1 v) st.2 [ui, V.getD j 0], st.2 + 1)))
      = (match mapE (fun j => dcv q (V.getD j 0)) js with
         | .raised e => .raised e
         | .ok vs => .ok ({ o with verts := o.verts ++ vs,
                                    attr := o.attr ++ (js.zipIdx k).map (fun jk => (jk.2, [ui, V.getD jk.1 0])) }, k + js.length)) := by
  intro js
  induction js with
  | nil => intro o k; simp [forE, mapE]
  | cons j js ih =>
    intro o k
    rw [forE_cons]
    simp only [mapE]
    cases hd : dcv q (V.getD j 0) with
    | raised e => rfl
    | ok v =>
      rw [bind_ok, bind_ok, ih]
      cases mapE (fun j => dcv q (V.getD j 0)) js <;>
        simp [RawOut.setAttr, RawOut.appendVert, List.zipIdx_cons, Nat.add_assoc, Nat.add_comm 1]

/-- the vertex loop nest of `as_surface` (rows `is`, `n2` columns, counter `k`) -/
theorem forE_surfGrid (evaluate_row : Rat → Res (List Row)) (dcv : List Row → Rat → Res Row) (U V : List Rat) (n2 : Nat) :
    ∀ (is : List Nat) (o : RawOut) (k : Nat),
    forE is (o, k) (fun st i => Res.bind (evaluate_row (U.getD i 0)) (fun q =>
        Res.bind (forE (List.range n2) (st.1, st.2) (fun st j => Res.bind (dcv q (V.getD j 0)) (fun v =>
          .ok (RawOut.setAttr (RawOut.appendVert st.1 v) st.2 [U.getD i 0, V.getD j 0], st.2 + 1))))
        (fun st => .ok (st.1, st.2))))
      = (match mapE (fun i => Res.bind (evaluate_row (U.getD i 0)) (fun q => mapE (fun j => dcv q (V.getD j 0)) (List.range n2))) is with
         | .raised e => .raised e
         | .ok rows => .ok ({ o with verts := o.verts ++ rows.flatten,
                                     attr := o.attr ++ ((is.flatMap (fun i => (List.range n2).map (fun j => (i, j)))).zipIdx k).map
                                       (fun pk => (pk.2, [U.getD pk.1.1 0, V.getD pk.1.2 0])) }, k + is.length * n2)) := by
  intro is
  induction is with
  | nil => intro o k; simp [forE, mapE]
  | cons i is ih =>
    intro o k
    rw [forE_cons]
    simp only [mapE]
    cases hq : evaluate_row (U.getD i 0) with
    | raised e => rfl
    | ok q =>
      simp only [bind_ok]
      rw [forE_surfRow dcv q (U.getD i 0) V (List.range n2) o k]
      cases hm : mapE (fun j => dcv q (V.getD j 0)) (List.range n2) with
      | raised e => rfl
      | ok vs =>
        have hl : vs.length = n2 := by rw [mapE_length _ _ _ hm]; simp
        simp only [bind_ok]
        rw [ih]
        cases mapE (fun i => Res.bind (evaluate_row (U.getD i 0)) (fun q => mapE (fun j => dcv q (V.getD j 0)) (List.range n2))) is with
        | raised e => rfl
        | ok rows =>
          simp only [List.length_range, List.flatMap_cons, List.zipIdx_append, List.map_append, List.length_map,
            List.flatten_cons, List.append_assoc, List.zipIdx_map, List.map_map, List.length_cons]
          have hk : k + n2 + is.length * n2 = k + (is.length + 1) * n2 := by ring
          have hf : ((fun (pk : (Nat × Nat) × Nat) => (pk.2, [U.getD pk.1.1 0, V.getD pk.1.2 0])) ∘ Prod.map (fun j => (i, j)) id)
              = (fun (jk : Nat × Nat) => (jk.2, [U.getD i 0, V.getD jk.1 0])) := by
            funext jk; rfl
          rw [hk, hf]

theorem mapE_total {α β : Type} (f : α → Res β) (g : α → β) : ∀ (xs : List α), (∀ x ∈ xs, f x = .ok (g x)) →
    mapE f xs = .ok (xs.map g) := by
  intro xs
  induction xs with
  | nil => intro _; rfl
  | cons x xs ih =>
    intro h
    simp only [mapE, h x (List.mem_cons_self ..), ih (fun y hy => h y (List.mem_cons_of_mem _ hy)), List.map_cons]

theorem mapE_raises {α β : Type} (f : α → Res β) : ∀ (xs : List α) (x : α) (e : String), x ∈ xs → f x = .raised e →
    ∃ e', mapE f xs = .raised e' := by
  intro xs
  induction xs with
  | nil => intro x e hx; simp at hx
  | cons y ys ih =>
    intro x e hx hf
    simp only [mapE]
    cases hy : f y with
    | raised e1 => exact ⟨e1, rfl⟩
    | ok v =>
      have hx' : x ∈ ys := by
        rcases List.mem_cons.mp hx with rfl | h
        · rw [hf] at hy; cases hy
        · exact h
      obtain ⟨e', he'⟩ := ih x e hx' hf
      exact ⟨e', by simp [he']⟩

/-- the vertex `as_polyline` stores for a 2-D / 3-D curve point -/
def padPt (v : Row) : Row := if v.length = 2 then [v.getD 0 0, v.getD 1 0, 0] else v

theorem flatMap_padVert : ∀ (vs : List Row), (∀ v ∈ vs, v.length = 2 ∨ v.length = 3) → vs.flatMap padVert = vs.map padPt := by
  intro vs
  induction vs with
  | nil => intro _; rfl
  | cons v vs ih =>
    intro h
    rw [List.flatMap_cons, List.map_cons, ih (fun y hy => h y (List.mem_cons_of_mem _ hy))]
    rcases h v (List.mem_cons_self ..) with h2 | h3
    · simp [padVert, padPt, h2]
    · have : ¬ v.length = 2 := by omega
      simp [padVert, padPt, h3]

theorem padPt_length (v : Row) (h : v.length = 2 ∨ v.length = 3) : (padPt v).length = 3 := by
  rcases h with h2 | h3
  · simp [padPt, h2]
  · have : ¬ v.length = 2 := by omega
    simp [padPt, this, h3]

theorem flatten_grid {β : Type} (f : Nat → Nat → β) (n1 n2 : Nat) :
    ((List.range n1).map (fun i => (List.range n2).map (fun j => f i j))).flatten
      = (Mouette.Bezier.gridPairs n1 n2).map (fun p => f p.1 p.2) := by
  simp [Mouette.Bezier.gridPairs, List.map_flatMap, List.flatMap_def, List.map_map, Function.comp_def]

theorem linspaceV_mem (n : Nat) : ∀ t ∈ linspaceV n, 0 ≤ t ∧ t ≤ 1 := by
  intro t ht
  simp only [linspaceV, List.mem_map, List.mem_range] at ht
  obtain ⟨k, hk, rfl⟩ := ht
  exact Mouette.Lemmas.C19.linspace01_mem hk

end Mouette.Lemmas.C19Bez
