import Mouette.Generated.C17Sys
import Mouette.Lemmas.TutteResidual
import Mathlib.Tactic.Ring
import Mathlib.Tactic.Linarith
import Mathlib.Tactic.NormNum
/-!
Bridges for the fragments translated in round 4 (`Generated/C17Sys.lean`): the Laplacian assembly of
`laplacian_op.py: laplacian`, the sub-matrices / right-hand sides / storage loops of `TutteEmbedding.run`, the
`from_string` table and the keys read by `flat_mesh`. A change of a weight, of the pairing, of a sign, of a selector, of the
array that goes into a right-hand side or into a stored slot makes these lemmas fail to compile.
-/
namespace Mouette.Tutte
open Mouette.Generated

/-! ### Laplacian assembly -/

theorem bridge_lapEntries (i j : Nat) (v : Rat) : C17S.lapEntries i j v = edgeTriplets i j v := by
  first
  | rfl
  | (unfold C17S.lapEntries edgeTriplets; simp)

theorem bridge_lapPairs (p q r : Nat) (a b c : Rat) :
    (C17S.lapPairs p q r a b c).flatMap (fun t => C17S.lapEntries t.1 t.2.1 t.2.2) = faceTriplets p q r a b c := by
  unfold C17S.lapPairs faceTriplets
  simp only [List.flatMap_cons, List.flatMap_nil, bridge_lapEntries, List.append_nil, List.append_assoc]

theorem bridge_lapWeights :
    C17S.lapUniform = (1 / 2, 1 / 2, 1 / 2) ∧ ∀ x : Rat, C17S.lapCotWeight x = x / 2 := by
  refine ⟨?_, ?_⟩
  · first
    | rfl
    | (unfold C17S.lapUniform; norm_num)
  · intro x
    unfold C17S.lapCotWeight
    ring

/-- the Laplacian triplets assembled from the TRANSLATED pieces (weights, pairing, the four writes per pair) -/
def genLapFrom (cot : Option (List Rat)) : Nat → List (List Nat) → List Triplet
  | _, [] => []
  | iT, f :: fs =>
    let w (k : Nat) : Rat := match cot with
      | none => (match k with | 0 => C17S.lapUniform.1 | 1 => C17S.lapUniform.2.1 | _ => C17S.lapUniform.2.2)
      | some l => C17S.lapCotWeight (l.getD (3 * iT + k) 0)
    (C17S.lapPairs (f.getD 0 0) (f.getD 1 0) (f.getD 2 0) (w 0) (w 1) (w 2)).flatMap
        (fun t => C17S.lapEntries t.1 t.2.1 t.2.2) ++ genLapFrom cot (iT + 1) fs

/-- … are the model's triplets -/
theorem bridge_lapTriplets (cot : Option (List Rat)) : ∀ (F : List (List Nat)) (iT : Nat),
    genLapFrom cot iT F = lapTripletsFrom cot iT F
  | [], _ => rfl
  | f :: fs, iT => by
    unfold genLapFrom lapTripletsFrom
    simp only []
    rw [bridge_lapPairs, bridge_lapTriplets cot fs (iT + 1)]
    obtain ⟨hu, hc⟩ := bridge_lapWeights
    cases cot with
    | none => simp only [hu]
    | some l => simp only [hc]

theorem length_lapTripletsFrom (cot : Option (List Rat)) : ∀ (F : List (List Nat)) (iT : Nat),
    (lapTripletsFrom cot iT F).length = 12 * F.length
  | [], _ => rfl
  | f :: fs, iT => by
    unfold lapTripletsFrom
    simp only []
    rw [List.length_append, length_lapTripletsFrom cot fs (iT + 1)]
    simp [faceTriplets, edgeTriplets]
    omega

/-- `n_coeffs` as written is the number of COO entries the loop writes (no slot left at zero, no write out of range) -/
theorem bridge_lapNCoeffs (cot : Option (List Rat)) (F : List (List Nat)) :
    (lapTriplets cot F).length = C17S.lapNCoeffs F.length := by
  have h := length_lapTripletsFrom cot F 0
  unfold lapTriplets C17S.lapNCoeffs
  omega

theorem bridge_lapCotSelection : C17S.lapCotSelection = ("flag", "cotan") := rfl

/-! ### the linear system of `run` -/

theorem dotL_nil_left (b : List Rat) : dotL [] b = 0 := by simp [dotL]

theorem dotL_map (l : List Nat) (f g : Nat → Rat) :
    dotL (l.map f) (l.map g) = (l.map (fun c => f c * g c)).sum := by
  induction l with
  | nil => simp [dotL]
  | cons x l ih =>
    unfold dotL at ih ⊢
    simp only [List.map_cons, List.zipWith_cons_cons, List.sum_cons, ih]

/-- the system as written in the source: rows `freeInds`; matrix `lap[freeInds,:][:,freeInds]`; right-hand side
`-lap[freeInds,:][:,bndInds].dot(x_B)` -/
theorem bridge_system (T : List Triplet) (free bnd : List Nat) :
    C17S.sysA (entry T) free bnd = free.map (fun r => free.map (fun c => entry T r c)) ∧
    C17S.sysB (entry T) free bnd = free.map (fun r => bnd.map (fun c => entry T r c)) ∧
    C17S.sysBoundaryOf = ("Ubnd", "Vbnd") ∧ C17S.sysFreeSource = "interior_vertices" :=
  ⟨rfl, rfl, rfl, rfl⟩

/-- A vector that solves the system the SOURCE assembles satisfies every free row of `L u = 0`: if `x_I = u|free` solves
`A x_I = −B x_B` with `x_B = u|bnd` (this is what `spsolve` is asked for), then `(L u)_r = 0` for every free vertex `r` whose
row only has columns in `free ++ bnd`. -/
theorem mulRow_zero_of_source_system (T : List Triplet) (free bnd : List Nat) (u : Nat → Rat)
    (nd : (free ++ bnd).Nodup)
    (hsol : (C17S.sysA (entry T) free bnd).map (fun row => dotL row (free.map u)) =
      C17S.sysRhs (C17S.sysB (entry T) free bnd) (bnd.map u))
    (r : Nat) (hr : r ∈ free) (cover : ∀ t, t ∈ T → t.1 = r → t.2.1 ∈ free ++ bnd) :
    mulRow T u r = 0 := by
  unfold C17S.sysA C17S.sysB C17S.sysRhs at hsol
  rw [List.map_map, List.map_map] at hsol
  have hrow := (List.map_inj_left.mp hsol) r hr
  simp only [Function.comp] at hrow
  rw [dotL_map, dotL_map] at hrow
  rw [mulRow_eq_entries T u r (free ++ bnd) nd cover, List.map_append, List.sum_append, hrow]
  ring

/-! ### storage loops -/

theorem bridge_store (free bnd : List Nat) :
    C17S.storeVertex free bnd = writes free bnd ∧ C17S.storeCorner free bnd = writes free bnd := by
  unfold C17S.storeVertex C17S.storeCorner writes
  constructor <;> rfl

/-! ### `from_string`, `flat_mesh` -/

theorem bridge_fromString :
    C17S.boundaryModes = [("CIRCLE", 0), ("SQUARE", 1), ("CUSTOM", 2)] ∧
    C17S.fromStringTable = [("circle", 0), ("square", 1), ("custom", 2)] := ⟨rfl, rfl⟩

theorem bridge_flatKeys (t i v : Nat) : C17S.flatCornerKey t i = 3 * t + i ∧ C17S.flatVertexKey v = v := by
  unfold C17S.flatCornerKey C17S.flatVertexKey
  constructor
  · first | rfl | omega
  · first | rfl | omega

/-- corner `3t+i` of a triangle list is corner `i` of face `t` (the slot `cornerStore` writes for that corner) -/
theorem flatten_getD_tri : ∀ (F : List (List Nat)), (∀ f, f ∈ F → f.length = 3) → ∀ t i, t < F.length → i < 3 →
    F.flatten.getD (3 * t + i) 0 = (F.getD t []).getD i 0
  | [], _, _, _, ht, _ => by simp at ht
  | f :: fs, tri, 0, i, _, hi => by
    have hf : f.length = 3 := tri f List.mem_cons_self
    simp only [List.flatten_cons, Nat.mul_zero, Nat.zero_add, List.getD_cons_zero]
    rw [List.getD_eq_getElem?_getD, List.getD_eq_getElem?_getD, List.getElem?_append_left (by omega)]
  | f :: fs, tri, t + 1, i, ht, hi => by
    have hf : f.length = 3 := tri f List.mem_cons_self
    have ih := flatten_getD_tri fs (fun g hg => tri g (List.mem_cons_of_mem _ hg)) t i (by simpa using ht) hi
    simp only [List.flatten_cons, List.getD_cons_succ]
    rw [List.getD_eq_getElem?_getD, List.getElem?_append_right (by omega)]
    have : 3 * (t + 1) + i - f.length = 3 * t + i := by omega
    rw [this, ← List.getD_eq_getElem?_getD]
    exact ih

/-! ### `__init__` -/

theorem bridge_init :
    C17S.initAllowedModes = ["square", "circle"] ∧ (∀ m, C17S.initMode false m = m) ∧ (∀ m, C17S.initMode true m = 2) ∧
    C17S.initKeys = ("custom_boundary", "use_cotan") ∧ C17S.baseSaveOnCorners = ("save_on_corners", true) :=
  ⟨rfl, fun _ => rfl, fun _ => rfl, rfl, rfl⟩

end Mouette.Tutte
