import Mouette.Model.UnionFindC
import Mouette.Lemmas.UnionFindSize
/-!
The lemmas of `Lemmas/UnionFind.lean` / `Lemmas/UnionFindSize.lean` about `union`, `step`, `run`, for `unionC c` / `stepC c` /
`runC c` with an ARBITRARY size comparison `c` (core Lean only): which of two roots survives a link never matters for the
partition, the counters or the size fields. `c := ltCmp` gives back `union` / `run` (`runC_lt`).
-/
namespace Mouette.UF

theorem unionC_lt (s : State) (x y : Nat) : unionC ltCmp s x y = union s x y := by
  unfold unionC union ltCmp
  simp only [decide_eq_true_eq]
  rfl

theorem stepC_lt (s : State) (op : Op) : stepC ltCmp s op = step s op := by
  cases op <;> simp only [stepC, step, unionC_lt] <;> rfl

theorem runC_lt (ops : List Op) : runC ltCmp ops = run ops := by
  unfold runC run
  congr 1
  funext s op
  exact stepC_lt s op

theorem sizeOrder_lt : SizeOrder ltCmp :=
  ⟨fun a b h => by simp [ltCmp] at h; omega, fun a b h => by simp [ltCmp] at h; omega⟩

theorem sizeOrder_le : SizeOrder leCmp :=
  ⟨fun a b h => by simp [leCmp] at h; omega, fun a b h => by simp [leCmp] at h; omega⟩

/-- `unionC` unfolded: two adds, two finds (root-preserving, exposed), then possibly one link. -/
theorem union_unfoldC {s : State} (inv : Inv s) (c : Nat → Nat → Bool) (x y : Nat) :
    ∃ s2 s3, find (add (add s x) y) x = some (s2, classOf (add (add s x) y) x) ∧
      find s2 y = some (s3, classOf (add (add s x) y) y) ∧ Inv s2 ∧ Inv s3 ∧
      PEquiv (add (add s x) y) s2 ∧ PEquiv s2 s3 ∧
      unionC c s x y =
        (if classOf (add (add s x) y) x = classOf (add (add s x) y) y then s3
        else if c (s3.siz.getD (classOf (add (add s x) y) x) 0) (s3.siz.getD (classOf (add (add s x) y) y) 0) = true then
          { s3 with par := s3.par.set (classOf (add (add s x) y) x) (classOf (add (add s x) y) y),
                    siz := s3.siz.set (classOf (add (add s x) y) y)
                      (s3.siz.getD (classOf (add (add s x) y) y) 0 + s3.siz.getD (classOf (add (add s x) y) x) 0),
                    nComps := s3.nComps - 1 }
        else
          { s3 with par := s3.par.set (classOf (add (add s x) y) y) (classOf (add (add s x) y) x),
                    siz := s3.siz.set (classOf (add (add s x) y) x)
                      (s3.siz.getD (classOf (add (add s x) y) x) 0 + s3.siz.getD (classOf (add (add s x) y) y) 0),
                    nComps := s3.nComps - 1 }) := by
  have inv1 : Inv (add (add s x) y) := inv_add (inv_add inv x) y
  have hx1 : x ∈ (add (add s x) y).elts := by
    rw [mem_add_elts, mem_add_elts]; exact Or.inl (Or.inr rfl)
  have hy1 : y ∈ (add (add s x) y).elts := by
    rw [mem_add_elts]; exact Or.inr rfl
  generalize hs1 : add (add s x) y = s1 at *
  obtain ⟨s2, xr, h1, inv2, pe12, r1, hxr⟩ := find_spec inv1 hx1
  have hy2 : y ∈ s2.elts := by rw [pe12.elts]; exact hy1
  obtain ⟨s3, yr, h2, inv3, pe23, r2, hyr⟩ := find_spec inv2 hy2
  rw [pe12.elts, pe12.par.reach] at r2
  have exr : classOf s1 x = xr := (rootOf_eq_iff inv1 (idxOf_lt hx1) xr).mpr r1
  have eyr : classOf s1 y = yr := (rootOf_eq_iff inv1 (idxOf_lt hy1) yr).mpr r2
  rw [exr, eyr]
  refine ⟨s2, s3, h1, h2, inv2, inv3, pe12, pe23, ?_⟩
  simp only [unionC, hs1, h1, h2]

/-- the facts every user of a link needs, in one place -/
theorem union_linkFactsC {s : State} (inv : Inv s) (x y : Nat) {s3 : State} (_inv3 : Inv s3)
    (pe13 : PEquiv (add (add s x) y) s3) :
    classOf (add (add s x) y) x < s3.elts.length ∧ classOf (add (add s x) y) y < s3.elts.length ∧
    parent s3.par (classOf (add (add s x) y) x) = classOf (add (add s x) y) x ∧
    parent s3.par (classOf (add (add s x) y) y) = classOf (add (add s x) y) y := by
  have inv1 : Inv (add (add s x) y) := inv_add (inv_add inv x) y
  have hx1 : x ∈ (add (add s x) y).elts := by
    rw [mem_add_elts, mem_add_elts]; exact Or.inl (Or.inr rfl)
  have hy1 : y ∈ (add (add s x) y).elts := by
    rw [mem_add_elts]; exact Or.inr rfl
  refine ⟨by rw [pe13.elts]; exact classOf_lt inv1 hx1, by rw [pe13.elts]; exact classOf_lt inv1 hy1,
    (pe13.par.root_iff _).mpr (rootOf_isRoot inv1 (idxOf_lt hx1)),
    (pe13.par.root_iff _).mpr (rootOf_isRoot inv1 (idxOf_lt hy1))⟩

theorem union_specC {s : State} (inv : Inv s) (c : Nat → Nat → Bool) (x y : Nat) :
    Inv (unionC c s x y) ∧ (unionC c s x y).elts = (add (add s x) y).elts ∧
    ∃ a b,
      ((a = classOf (add (add s x) y) x ∧ b = classOf (add (add s x) y) y) ∨
       (a = classOf (add (add s x) y) y ∧ b = classOf (add (add s x) y) x)) ∧
      ∀ i, i < (add (add s x) y).elts.length →
        rootOf (unionC c s x y) i
          = if rootOf (add (add s x) y) i = a then b else rootOf (add (add s x) y) i := by
  have inv1 : Inv (add (add s x) y) := inv_add (inv_add inv x) y
  obtain ⟨s2, s3, _, _, _, inv3, pe12, pe23, hu⟩ := union_unfoldC inv c x y
  have pe13 := pe12.trans pe23
  obtain ⟨hxr, hyr, hxroot, hyroot⟩ := union_linkFactsC inv x y inv3 pe13
  generalize add (add s x) y = s1 at *
  generalize classOf s1 x = xr at *
  generalize classOf s1 y = yr at *
  have hrt : ∀ i, i < s1.elts.length → rootOf s3 i = rootOf s1 i :=
    fun i hi => pe13.rootOf inv1 inv3 hi
  have hl3 : s3.elts.length = s1.elts.length := by rw [pe13.elts]
  rw [hu]
  by_cases hxy : xr = yr
  · rw [if_pos hxy]
    refine ⟨inv3, pe13.elts, xr, yr, Or.inl ⟨rfl, rfl⟩, ?_⟩
    intro i hi
    rw [hrt i hi, ← hxy]
    split
    · rename_i e; exact e
    · rfl
  · rw [if_neg hxy]
    split
    · refine ⟨inv_link inv3 hxroot hyroot hxy (by omega) (by omega) _ (List.length_set ..),
        pe13.elts, xr, yr, Or.inl ⟨rfl, rfl⟩, ?_⟩
      intro i hi
      rw [rootOf_link inv3 hxroot hyroot hxy (by omega) (by omega) _ (List.length_set ..) (by omega),
        hrt i hi]
    · refine ⟨inv_link inv3 hyroot hxroot (fun e => hxy e.symm) (by omega) (by omega) _
          (List.length_set ..), pe13.elts, yr, xr, Or.inr ⟨rfl, rfl⟩, ?_⟩
      intro i hi
      rw [rootOf_link inv3 hyroot hxroot (fun e => hxy e.symm) (by omega) (by omega) _
        (List.length_set ..) (by omega), hrt i hi]

theorem stepC_query (c : Nat → Nat → Bool) (s : State) {op : Op} (hq : op.isQuery = true) :
    stepC c s op = step s op := by
  cases op <;> first | rfl | cases hq

theorem inv_stepC (c : Nat → Nat → Bool) {s : State} (inv : Inv s) (op : Op) : Inv (stepC c s op) := by
  cases op with
  | add x => exact inv_add inv x
  | union x y => exact (union_specC inv c x y).1
  | find x => exact inv_step inv (.find x)
  | connected x y => exact inv_step inv (.connected x y)
  | component x => exact inv_step inv (.component x)

theorem inv_foldlC (c : Nat → Nat → Bool) {s : State} (inv : Inv s) (ops : List Op) :
    Inv (ops.foldl (stepC c) s) := by
  induction ops generalizing s with
  | nil => exact inv
  | cons op ops ih => exact ih (inv_stepC c inv op)

theorem inv_runC (c : Nat → Nat → Bool) (ops : List Op) : Inv (runC c ops) := inv_foldlC c inv_init ops

theorem rep_unionC (c : Nat → Nat → Bool) {P : Nat → Prop} {J J' : Nat → Nat → Prop} {s : State} (r : Rep P J s)
    (inv : Inv s) (hrefl : ∀ a, J a a)
    (hsupp : ∀ u v, J u v → u = v ∨ (P u ∧ P v)) (x y : Nat)
    (hJ' : ∀ u v, J' u v ↔ J u v ∨ (J u x ∧ J y v) ∨ (J u y ∧ J x v)) :
    Rep (fun z => (P z ∨ z = x) ∨ z = y) J' (unionC c s x y) := by
  have r1 : Rep (fun z => (P z ∨ z = x) ∨ z = y) J (add (add s x) y) := by
    refine rep_add (rep_add r inv hrefl hsupp x) (inv_add inv x) hrefl ?_ y
    intro u v j
    rcases hsupp u v j with e | ⟨h1, h2⟩
    · exact Or.inl e
    · exact Or.inr ⟨Or.inl h1, Or.inl h2⟩
  obtain ⟨_, helts, a, b, hab, hroot⟩ := union_specC inv c x y
  have hx1 : x ∈ (add (add s x) y).elts := by
    rw [mem_add_elts, mem_add_elts]; exact Or.inl (Or.inr rfl)
  have hy1 : y ∈ (add (add s x) y).elts := by
    rw [mem_add_elts]; exact Or.inr rfl
  refine ⟨fun z => by rw [helts]; exact r1.mem z, ?_⟩
  intro u v hu hv
  rw [helts] at hu hv
  have hcu : classOf (unionC c s x y) u = if classOf (add (add s x) y) u = a then b
      else classOf (add (add s x) y) u := by
    unfold classOf; rw [helts]; exact hroot _ (idxOf_lt hu)
  have hcv : classOf (unionC c s x y) v = if classOf (add (add s x) y) v = a then b
      else classOf (add (add s x) y) v := by
    unfold classOf; rw [helts]; exact hroot _ (idxOf_lt hv)
  rw [hcu, hcv, ite_merge_iff _ _ (classOf (add (add s x) y) x) (classOf (add (add s x) y) y) a b hab,
    hJ', r1.cls u v hu hv, r1.cls u x hu hx1,
    r1.cls y v hy1 hv, r1.cls u y hu hy1, r1.cls x v hx1 hv]

theorem refines_stepC (c : Nat → Nat → Bool) {ops : List Op} {s : State} (r : Refines ops s) (inv : Inv s) (op : Op) :
    Refines (ops ++ [op]) (stepC c s op) := by
  cases op with
  | add x => exact refines_step r inv (.add x)
  | union x y =>
    refine rep_congr (J := Joined (ops ++ [.union x y]))
      (rep_unionC c r inv (Joined.refl ops) (fun _ _ j => j.support) x y
        (Joined_snoc_union ops x y)) ?_ (fun _ _ => Iff.rfl)
    intro z; rw [present_append]; simp [present]
    constructor
    · rintro (h | rfl | rfl)
      · exact Or.inl (Or.inl h)
      · exact Or.inl (Or.inr rfl)
      · exact Or.inr rfl
    · rintro ((h | rfl) | rfl)
      · exact Or.inl h
      · exact Or.inr (Or.inl rfl)
      · exact Or.inr (Or.inr rfl)
  | find x => exact refines_step r inv (.find x)
  | connected x y => exact refines_step r inv (.connected x y)
  | component x => exact refines_step r inv (.component x)

theorem refines_foldlC (c : Nat → Nat → Bool) : ∀ (ops ops0 : List Op) (s : State), Inv s → Refines ops0 s →
    Refines (ops0 ++ ops) (ops.foldl (stepC c) s) := by
  intro ops
  induction ops with
  | nil => intro ops0 s _ r; rw [List.append_nil]; exact r
  | cons op ops ih =>
    intro ops0 s inv r
    rw [List.append_cons, List.foldl_cons]
    exact ih _ _ (inv_stepC c inv op) (refines_stepC c r inv op)

/-- after ANY history, whichever root each link keeps, the state represents (present elements, joined relation) -/
theorem refines_runC (c : Nat → Nat → Bool) (ops : List Op) : Refines ops (runC c ops) := by
  have := refines_foldlC c ops [] init inv_init refines_init
  rwa [List.nil_append] at this

theorem sizeInv_stepC (c : Nat → Nat → Bool) {s : State} (inv : Inv s) (h : SizeInv s) (op : Op) :
    SizeInv (stepC c s op) := by
  cases op with
  | add x => exact sizeInv_add inv h x
  | find x => exact sizeInv_step inv h (.find x)
  | connected x y => exact sizeInv_step inv h (.connected x y)
  | component x => exact sizeInv_step inv h (.component x)
  | union x y =>
    have inv1 : Inv (add (add s x) y) := inv_add (inv_add inv x) y
    have h1 : SizeInv (add (add s x) y) := sizeInv_add (inv_add inv x) (sizeInv_add inv h x) y
    obtain ⟨s2, s3, _, _, _, inv3, pe12, pe23, hu⟩ := union_unfoldC inv c x y
    have pe := pe12.trans pe23
    have h3 : SizeInv s3 := sizeInv_pequiv inv1 inv3 pe h1
    obtain ⟨hcx, hcy, hrx, hry⟩ := union_linkFactsC inv x y inv3 pe
    show SizeInv (unionC c s x y)
    rw [hu]
    split
    · exact h3
    · rename_i hne
      split
      · exact sizeInv_link inv3 h3 hrx hry hne hcx hcy
      · exact sizeInv_link inv3 h3 hry hrx (fun e => hne e.symm) hcy hcx

theorem sizeInv_runC (c : Nat → Nat → Bool) (ops : List Op) : SizeInv (runC c ops) := by
  have aux : ∀ (ops : List Op) (s : State), Inv s → SizeInv s → SizeInv (ops.foldl (stepC c) s) := by
    intro ops
    induction ops with
    | nil => intro s _ h; exact h
    | cons op ops ih => intro s i h; exact ih _ (inv_stepC c i op) (sizeInv_stepC c i h op)
  exact aux ops init inv_init sizeInv_init

end Mouette.UF
