import Mouette.Model.Operators
import Mouette.Lemmas.OpLemmas
/-
C08: total of the edge mass matrix `area_weight_matrix_edges` under manifold edge/face incidence.
-/
namespace Mouette.Ops
open Mouette.Geom

/-- the faces met when walking over all edges (both sides of every edge), with multiplicity -/
def edgeFaceIncidences (faces : List Face) (es : List (Nat × Nat)) : List Nat := es.flatMap (edgeFaceList faces)

/-- manifold edge/face incidence, decidable: every face is met exactly three times (it has three edges in the edge list, each
listing it once) -/
def EdgeFaceIncidence (faces : List Face) (es : List (Nat × Nat)) : Prop :=
  ∀ t, t < faces.length → (edgeFaceIncidences faces es).count t = 3
instance (faces : List Face) (es : List (Nat × Nat)) : Decidable (EdgeFaceIncidence faces es) := by
  unfold EdgeFaceIncidence; infer_instance

theorem directFaceAux_lt (fs : List Face) (t0 a b : Nat) (r : Nat × Nat × Nat) (h : directFaceAux fs t0 a b = some r) :
    t0 ≤ r.1 ∧ r.1 < t0 + fs.length := by
  induction fs generalizing t0 with
  | nil => simp [directFaceAux] at h
  | cons f fs ih =>
    unfold directFaceAux at h
    cases hs : sideIndex f a b with
    | some i =>
      rw [hs] at h
      simp only [Option.some.injEq] at h
      subst h
      simp
    | none =>
      rw [hs] at h
      have := ih (t0 + 1) h
      simp only [List.length_cons]
      omega

theorem edgeFaceList_lt (faces : List Face) (e : Nat × Nat) : ∀ t ∈ edgeFaceList faces e, t < faces.length := by
  intro t ht
  unfold edgeFaceList edgeFaces directFace at ht
  simp only [List.mem_append, Option.mem_toList, Option.map_eq_some_iff] at ht
  rcases ht with ⟨r, hr, rfl⟩ | ⟨r, hr, rfl⟩
  · have := directFaceAux_lt faces 0 _ _ r hr; omega
  · have := directFaceAux_lt faces 0 _ _ r hr; omega

theorem edgeFaceIncidences_lt (faces : List Face) (es : List (Nat × Nat)) :
    ∀ t ∈ edgeFaceIncidences faces es, t < faces.length := by
  intro t ht
  simp only [edgeFaceIncidences, List.mem_flatMap] at ht
  obtain ⟨e, _, he⟩ := ht
  exact edgeFaceList_lt faces e t he

theorem total_massEdgesAux (ar : Nat → Rat) (faces : List Face) (es : List (Nat × Nat)) (k : Nat) :
    total (massEdgesAux ar faces es k) = rsum ((edgeFaceIncidences faces es).map (fun t => ar t / 3)) := by
  induction es generalizing k with
  | nil => rfl
  | cons e es ih =>
    simp only [massEdgesAux, total_append, ih (k + 1), edgeFaceIncidences, List.flatMap_cons, List.map_append, rsum_append]
    congr 1
    simp only [total, List.map_map, Function.comp_def]

/-- a sum over a list of indices `< n` regrouped by index: `Σ_{t∈L} g t = Σ_{t<n} count(t,L) · g t` -/
theorem rsum_by_count (L : List Nat) (n : Nat) (g : Nat → Rat) (h : ∀ t ∈ L, t < n) :
    rsum (L.map g) = rsum ((List.range n).map (fun t => (L.count t : Rat) * g t)) := by
  induction L with
  | nil =>
    simp only [List.map_nil, rsum_nil, List.count_nil]
    rw [rsum_map_congr _ _ (fun _ => (0 : Rat)) (fun a _ => by simp), rsum_map_zero]
  | cons a L ih =>
    have ha : a < n := h a (by simp)
    have hL : ∀ t ∈ L, t < n := fun t ht => h t (List.mem_cons_of_mem _ ht)
    rw [List.map_cons, rsum_cons, ih hL]
    have e : (List.range n).map (fun t => ((a :: L).count t : Rat) * g t)
        = (List.range n).map (fun t => (if a = t then g a else 0) + (L.count t : Rat) * g t) := by
      apply List.map_congr_left
      intro t _
      rw [List.count_cons]
      by_cases hat : a = t
      · subst hat; simp; ring
      · simp [hat]
    rw [e, rsum_map_add, rsum_range_ite n a (g a) ha]

/-- **massEdges_total**: under manifold edge/face incidence the entries of the edge mass matrix sum to the total area -/
theorem massEdges_total' (ar : Nat → Rat) (faces : List Face) (es : List (Nat × Nat)) (h : EdgeFaceIncidence faces es) :
    total (massEdges ar faces es) = sumAr ar faces.length := by
  unfold massEdges
  rw [total_massEdgesAux, rsum_by_count _ faces.length _ (edgeFaceIncidences_lt faces es), sumAr]
  apply rsum_map_congr
  intro t ht
  rw [h t (List.mem_range.mp ht)]
  push_cast; ring

end Mouette.Ops
