import Mouette.Model.AttrHandles
import Mouette.Lemmas.AttrRun
/-
Handles that stay alive (C05 round 2): what an in-place update through a handle can reach.
-/
namespace Mouette.Attr
set_option linter.unusedSimpArgs false
set_option linter.unusedVariables false

def hdRef : Handle → Nat
  | .whole r => r
  | .row arr _ => arr

/-! ### `mutate` touches one cell and keeps its kind -/

theorem mutate_length (h : Heap) (hd : Handle) (c : Nat) (x : Scalar) : (mutate h hd c x).length = h.length := by
  cases hd with
  | whole r =>
    simp only [mutate]
    cases hr : h[r]? with
    | none => rfl
    | some cell => cases cell <;> simp
  | row arr i =>
    simp only [mutate]
    cases hr : h[arr]? with
    | none => rfl
    | some cell => cases cell <;> simp

theorem mutate_other (h : Heap) (hd : Handle) (c : Nat) (x : Scalar) (r : Nat) (hne : hdRef hd ≠ r) :
    (mutate h hd c x)[r]? = h[r]? := by
  cases hd with
  | whole r0 =>
    simp only [mutate]; simp only [hdRef] at hne
    cases hr : h[r0]? with
    | none => rfl
    | some cell => cases cell <;> simp [List.getElem?_set_ne hne]
  | row arr i =>
    simp only [mutate]; simp only [hdRef] at hne
    cases hr : h[arr]? with
    | none => rfl
    | some cell => cases cell <;> simp [List.getElem?_set_ne hne]

theorem mutate_vec (h : Heap) (hd : Handle) (c : Nat) (x : Scalar) (r : Nat) (v : Val) (hv : h[r]? = some (.vec v)) :
    ∃ v', (mutate h hd c x)[r]? = some (.vec v') ∧ ((∀ r0, hd ≠ .whole r0) ∨ hdRef hd ≠ r → v' = v) := by
  by_cases hne : hdRef hd = r
  · cases hd with
    | whole r0 =>
      simp only [hdRef] at hne; subst hne
      refine ⟨v.set c x, ?_, ?_⟩
      · simp only [mutate, hv]; exact heap_set_same _ hv
      · intro h'; rcases h' with h' | h'
        · exact absurd rfl (h' r0)
        · exact absurd rfl h'
    | row arr i =>
      simp only [hdRef] at hne; subst hne
      exact ⟨v, by simp only [mutate, hv], fun _ => rfl⟩
  · exact ⟨v, by rw [mutate_other h hd c x r hne]; exact hv, fun _ => rfl⟩

theorem mutate_mat (h : Heap) (hd : Handle) (c : Nat) (x : Scalar) (r : Nat) (m : List Val) (hm : h[r]? = some (.mat m)) :
    ∃ m', (mutate h hd c x)[r]? = some (.mat m') ∧ m'.length = m.length ∧
      (∀ j, (∀ i, hd = .row r i → i ≠ j) → m'.getD j [] = m.getD j []) := by
  by_cases hne : hdRef hd = r
  · cases hd with
    | whole r0 =>
      simp only [hdRef] at hne; subst hne
      exact ⟨m, by simp only [mutate, hm], rfl, fun _ _ => rfl⟩
    | row arr i =>
      simp only [hdRef] at hne; subst hne
      refine ⟨m.set i ((m.getD i []).set c x), ?_, by simp, ?_⟩
      · simp only [mutate, hm]; exact heap_set_same _ hm
      · intro j hj
        have : i ≠ j := hj i rfl
        simp [List.getD_eq_getElem?_getD, List.getElem?_set_ne this]
  · exact ⟨m, by rw [mutate_other h hd c x r hne]; exact hm, rfl, fun _ _ => rfl⟩

theorem storeOk_mutate {h : Heap} {n : Nat} {a : Attr} (hd : Handle) (c : Nat) (x : Scalar) (hok : StoreOk h n a) :
    StoreOk (mutate h hd c x) n a := by
  unfold StoreOk at *
  cases hst : a.store with
  | sparse data =>
    rw [hst] at hok; simp only at hok ⊢
    refine ⟨hok.1, hok.2.1, ?_⟩
    intro p hp; obtain ⟨v, hv⟩ := hok.2.2 p hp
    obtain ⟨v', h1, _⟩ := mutate_vec h hd c x p.2 v hv
    exact ⟨v', h1⟩
  | dense n' arr =>
    rw [hst] at hok; simp only at hok ⊢
    obtain ⟨h1, rows, h2, h3⟩ := hok
    obtain ⟨m', g1, g2, _⟩ := mutate_mat h hd c x arr rows h2
    exact ⟨h1, m', g1, by rw [g2]; exact h3⟩

/-! ### what a live handle may reach -/

/-- relative to the current attribute: a vector handle can be the cell of key `orig` only; a row handle into the
CURRENT matrix is row `orig` -/
def HOkA (a : Attr) (hl : Held) : Prop :=
  match hl.hd, a.store with
  | some (.whole r), .sparse data => ∀ p ∈ data, p.2 = r → hl.orig = some p.1
  | some (.row arr' i'), .dense _ arr => arr' = arr → hl.orig = some (i' : Int)
  | _, _ => True

def HOk (s : State) (hl : Held) : Prop :=
  (∀ hd, hl.hd = some hd → hdRef hd < s.heap.length) ∧ ∀ a, s.attr = some a → HOkA a hl

def HInv (s : State2) : Prop := ∀ hl ∈ s.held, HOk s.st hl

/-- in-place update through a handle: only the entry it was read from (if any) can change -/
theorem mutate_isolated {h : Heap} {n : Nat} {a : Attr} {hl : Held} {hd : Handle} (c : Nat) (x : Scalar)
    (hok : StoreOk h n a) (hh : HOkA a hl) (hhd : hl.hd = some hd) :
    ∀ j : Int, 0 ≤ j → hl.orig ≠ some j → lookupVal (mutate h hd c x) a j = lookupVal h a j := by
  intro j hj hne
  unfold HOkA at hh; rw [hhd] at hh
  unfold StoreOk at hok; unfold lookupVal
  cases hst : a.store with
  | sparse data =>
    rw [hst] at hok hh; simp only at hok hh ⊢
    cases hl' : data.lookup j with
    | none => rfl
    | some r' =>
      simp only
      obtain ⟨v, hv⟩ := hok.2.2 (j, r') (mem_of_lookup hl')
      obtain ⟨v', h1, h2⟩ := mutate_vec h hd c x r' v hv
      have : v' = v := by
        apply h2
        cases hd with
        | whole r =>
          right; simp only [hdRef]
          intro e
          have := hh (j, r') (mem_of_lookup hl') e.symm
          exact hne this
        | row arr i => left; intro r0 e; cases e
      unfold cellVec; rw [h1, hv, this]
  | dense n' arr =>
    rw [hst] at hok hh; simp only at hok hh ⊢
    obtain ⟨_, rows, hrows, _⟩ := hok
    obtain ⟨m', g1, _, g3⟩ := mutate_mat h hd c x arr rows hrows
    have e1 : cellMat (mutate h hd c x) arr = m' := by unfold cellMat; rw [g1]
    have e2 : cellMat h arr = rows := by unfold cellMat; rw [hrows]
    rw [e1, e2]
    apply g3
    intro i he
    rw [he] at hh; simp only at hh
    have := hh trivial
    intro e; apply hne; rw [this, e]; congr 1; omega

/-- a handle that cannot be the current matrix / any current dict cell reaches NOTHING -/
theorem mutate_dead {h : Heap} {n : Nat} {a : Attr} {hd : Handle} (c : Nat) (x : Scalar)
    (hok : StoreOk h n a)
    (hdead : match hd, a.store with
      | .whole r, .sparse data => ∀ p ∈ data, p.2 ≠ r
      | .row arr' _, .dense _ arr => arr' ≠ arr
      | _, _ => True) :
    ∀ j : Int, 0 ≤ j → lookupVal (mutate h hd c x) a j = lookupVal h a j := by
  intro j hj
  have := mutate_isolated (hl := { orig := none, hd := some hd }) c x hok (by
    unfold HOkA; simp only
    cases hd with
    | whole r =>
      cases hst : a.store with
      | sparse data => rw [hst] at hdead; simp only at hdead ⊢; intro p hp e; exact absurd e (hdead p hp)
      | dense n' arr => simp only
    | row arr' i' =>
      cases hst : a.store with
      | sparse data => simp only
      | dense n' arr => rw [hst] at hdead; simp only at hdead ⊢; intro e; exact absurd e hdead) rfl j hj (by simp)
  exact this

/-! ### handles survive state changes -/

/-- `s'` extends `s`: every reference of the attribute of `s'` is either fresh or was already the reference of the same
key / the same matrix in `s` -/
def Ext (s s' : State) : Prop :=
  s.heap.length ≤ s'.heap.length ∧
  ∀ a', s'.attr = some a' →
    match a'.store with
    | .sparse data' => ∀ p ∈ data', s.heap.length ≤ p.2 ∨ ∃ a data, s.attr = some a ∧ a.store = .sparse data ∧ p ∈ data
    | .dense _ arr' => s.heap.length ≤ arr' ∨ ∃ a n, s.attr = some a ∧ a.store = .dense n arr'

/-- every reference of the attribute of `s'` is fresh (or there is no attribute) -/
def Fresh (s s' : State) : Prop :=
  s.heap.length ≤ s'.heap.length ∧
  ∀ a', s'.attr = some a' →
    match a'.store with
    | .sparse data' => ∀ p ∈ data', s.heap.length ≤ p.2
    | .dense _ arr' => s.heap.length ≤ arr'

theorem hok_ext {s s' : State} {hl : Held} (h : HOk s hl) (he : Ext s s') : HOk s' hl := by
  refine ⟨fun hd hhd => Nat.lt_of_lt_of_le (h.1 hd hhd) he.1, ?_⟩
  intro a' ha'
  have hx := he.2 a' ha'
  unfold HOkA
  cases hhd : hl.hd with
  | none => simp only
  | some hd =>
    have hlt := h.1 hd hhd
    cases hd with
    | whole r =>
      cases hst : a'.store with
      | dense n arr => simp only
      | sparse data' =>
        rw [hst] at hx; simp only at hx ⊢
        intro p hp e
        simp only [hdRef] at hlt
        rcases hx p hp with hf | ⟨a, data, ha, hsa, hpd⟩
        · omega
        · have := h.2 a ha; unfold HOkA at this; rw [hhd, hsa] at this; simp only at this
          exact this p hpd e
    | row arr' i' =>
      cases hst : a'.store with
      | sparse data' => simp only
      | dense n arr =>
        rw [hst] at hx; simp only at hx ⊢
        intro e
        simp only [hdRef] at hlt
        rcases hx with hf | ⟨a, n0, ha, hsa⟩
        · omega
        · have := h.2 a ha; unfold HOkA at this; rw [hhd, hsa] at this; simp only at this
          exact this e

theorem hok_fresh {s s' : State} {hl : Held} (h : HOk s hl) (he : Fresh s s') : HOk s' { hl with orig := none } := by
  refine ⟨fun hd hhd => Nat.lt_of_lt_of_le (h.1 hd hhd) he.1, ?_⟩
  intro a' ha'
  have hx := he.2 a' ha'
  unfold HOkA
  cases hhd : hl.hd with
  | none => simp only
  | some hd =>
    have hlt := h.1 hd hhd
    cases hd with
    | whole r =>
      cases hst : a'.store with
      | dense n arr => simp only
      | sparse data' =>
        rw [hst] at hx; simp only at hx ⊢
        intro p hp e; simp only [hdRef] at hlt; have := hx p hp; omega
    | row arr' i' =>
      cases hst : a'.store with
      | sparse data' => simp only
      | dense n arr =>
        rw [hst] at hx; simp only at hx ⊢
        intro e; simp only [hdRef] at hlt; omega

theorem ext_of_attr_eq {s s' : State} (ha : s'.attr = s.attr) (hl : s.heap.length ≤ s'.heap.length) : Ext s s' := by
  refine ⟨hl, ?_⟩
  intro a' ha'
  rw [ha] at ha'
  cases hst : a'.store with
  | sparse data' => simp only; intro p hp; exact Or.inr ⟨a', data', ha', hst, hp⟩
  | dense n arr => simp only; exact Or.inr ⟨a', n, ha', hst⟩

theorem ext_refl (s : State) : Ext s s := ext_of_attr_eq rfl (Nat.le_refl _)

theorem ext_of_fresh {s s' : State} (h : Fresh s s') : Ext s s' := by
  refine ⟨h.1, ?_⟩
  intro a' ha'
  have := h.2 a' ha'
  cases hst : a'.store with
  | sparse data' => rw [hst] at this; simp only at this ⊢; intro p hp; exact Or.inl (this p hp)
  | dense n arr => rw [hst] at this; simp only at this ⊢; exact Or.inl this

theorem ext_trans {s s' s'' : State} (h1 : Ext s s') (h2 : Ext s' s'') : Ext s s'' := by
  refine ⟨Nat.le_trans h1.1 h2.1, ?_⟩
  intro a'' ha''
  have hx := h2.2 a'' ha''
  cases hst : a''.store with
  | sparse data'' =>
    rw [hst] at hx; simp only at hx ⊢
    intro p hp
    rcases hx p hp with hf | ⟨a', data', ha', hsa', hpd⟩
    · exact Or.inl (Nat.le_trans h1.1 hf)
    · have := h1.2 a' ha'; rw [hsa'] at this; simp only at this; exact this p hpd
  | dense n arr =>
    rw [hst] at hx; simp only at hx ⊢
    rcases hx with hf | ⟨a', n', ha', hsa'⟩
    · exact Or.inl (Nat.le_trans h1.1 hf)
    · have := h1.2 a' ha'; rw [hsa'] at this; simp only at this; exact this

end Mouette.Attr
