import Mathlib.RingTheory.Polynomial.Bernstein
import Mouette.Lemmas.C19Bezier
/- Link of the `Nat.choose` Bernstein basis used in C19 to Mathlib's `bernsteinPolynomial`. -/
namespace Mouette.Lemmas.C19
open Polynomial

theorem bernstein_eq_mathlib (n i : Nat) (t : Rat) : (bernsteinPolynomial ℚ n i).eval t = bernstein n i t := by
  simp [bernsteinPolynomial, bernstein]

end Mouette.Lemmas.C19
