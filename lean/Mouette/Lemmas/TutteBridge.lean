import Mouette.Generated.C17Tutte
import Mouette.Model.Tutte
/-!
Bridge between the fragments re-translated from `tutte.py: _initialize_boundary` on every run
(`Generated/C17Tutte.lean`) and the hand-written model `Model/Tutte.lean`. If the source changes (corner
indices, a range bound, the start of a running index, an affine expression) these lemmas stop compiling.
-/
namespace Mouette.Tutte
open Mouette.Generated

/-- the square boundary assembled from the TRANSLATED pieces (corner indices and values, four ranges, starts of the
running index, expressions) with the loop combinator of the model -/
def genSquare (n : Nat) (corner : List Rat) (loops : Nat → Option (Nat → Rat)) : List Rat :=
  let A := List.replicate n (0 : Rat)
  let c := C17.corners n
  let A := (((A.set (c.getD 0 0) (corner.getD 0 0)).set (c.getD 1 0) (corner.getD 1 0)).set (c.getD 2 0)
    (corner.getD 2 0)).set (c.getD 3 0) (corner.getD 3 0)
  [0, 1, 2, 3].foldl (fun A s => match loops s with
    | none => A
    | some g => loopSet A (C17.rangeOf n s).1 ((C17.rangeOf n s).2 - (C17.rangeOf n s).1)
        (fun k => g (k + C17.startOf n s))) A

/-- tolerant of arithmetic re-spellings of the index expressions (`n*3//4`, `1+n//4`, …): `rfl` first, `omega` otherwise -/
theorem bridge_corners (n : Nat) : C17.corners n = sqCorners n := by
  first
  | rfl
  | (unfold C17.corners sqCorners; simp only [List.cons.injEq, and_true, true_and]; first | omega | (refine ⟨?_, ?_, ?_, ?_⟩ <;> omega))

theorem bridge_range (n : Nat) : ∀ s, C17.rangeOf n s = sideRange n s
  | 0 => by first | rfl | (simp only [C17.rangeOf, sideRange, Prod.mk.injEq, and_true, true_and]; first | omega | (constructor <;> omega))
  | 1 => by first | rfl | (simp only [C17.rangeOf, sideRange, Prod.mk.injEq, and_true, true_and]; first | omega | (constructor <;> omega))
  | 2 => by first | rfl | (simp only [C17.rangeOf, sideRange, Prod.mk.injEq, and_true, true_and]; first | omega | (constructor <;> omega))
  | _ + 3 => by first | rfl | (simp only [C17.rangeOf, sideRange, Prod.mk.injEq, and_true, true_and]; first | omega | (constructor <;> omega))

theorem bridge_start (n : Nat) : ∀ s, C17.startOf n s = sideStart s
  | 0 => rfl | 1 => rfl | 2 => rfl | _ + 3 => rfl

theorem bridge_exprs (n : Nat) :
    C17.loopU n 0 = some (ramp n) ∧ C17.loopU n 1 = some (fun _ => 1) ∧ C17.loopU n 2 = some (rampDown n) ∧
    C17.loopU n 3 = none ∧ C17.loopV n 0 = none ∧ C17.loopV n 1 = some (ramp n) ∧
    C17.loopV n 2 = some (fun _ => 1) ∧ C17.loopV n 3 = some (rampDown n) :=
  ⟨rfl, rfl, rfl, rfl, rfl, rfl, rfl, rfl⟩

theorem bridge_cornerValues : C17.cornerU = [0, 1, 1, 0] ∧ C17.cornerV = [0, 0, 1, 1] := ⟨rfl, rfl⟩

/-- the model's `U` array is the one assembled from the translated pieces -/
theorem bridge_U (n : Nat) : genSquare n C17.cornerU (C17.loopU n) = squareU n := by
  first
  | rfl
  | (unfold genSquare; simp only [bridge_corners, bridge_range, bridge_start]; rfl)

theorem bridge_V (n : Nat) : genSquare n C17.cornerV (C17.loopV n) = squareV n := by
  first
  | rfl
  | (unfold genSquare; simp only [bridge_corners, bridge_range, bridge_start]; rfl)

end Mouette.Tutte
