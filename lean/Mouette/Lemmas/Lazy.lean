import Mouette.Model.Lazy
/-! Helper lemmas for the generic lazy-cache machine (`Model/Lazy.lean`). -/
namespace Mouette.Lazy

theorem mem_union {a b : List St} {x : St} : x ∈ union a b ↔ x ∈ a ∨ x ∈ b := by
  unfold union
  induction b generalizing a with
  | nil => simp
  | cons y rest ih =>
    rw [List.foldl_cons, ih]
    by_cases h : a.contains y = true
    · rw [if_pos h]
      have hy : y ∈ a := List.contains_iff_mem.mp h
      constructor
      · rintro (h1 | h1)
        · exact Or.inl h1
        · exact Or.inr (List.mem_cons_of_mem _ h1)
      · rintro (h1 | h1)
        · exact Or.inl h1
        · rcases List.mem_cons.mp h1 with rfl | h2
          · exact Or.inl hy
          · exact Or.inr h2
    · rw [if_neg h]
      simp only [List.mem_append, List.mem_cons, List.not_mem_nil, or_false]
      constructor
      · rintro ((h1 | h1) | h1)
        · exact Or.inl h1
        · exact Or.inr (Or.inl h1)
        · exact Or.inr (Or.inr h1)
      · rintro (h1 | h1 | h1)
        · exact Or.inl (Or.inl h1)
        · exact Or.inl (Or.inr h1)
        · exact Or.inr h1

theorem mem_after {o : Out} {x : St} : x ∈ after o ↔ x ∈ o.ok ∨ x ∈ o.bad := mem_union

/-- invariant of the fold in `stepSet`: nothing failed so far and all outcomes lie in `S` -/
def Good (S : List St) (o : Out) : Prop := (∀ x, x ∉ o.bad) ∧ ∀ x ∈ o.ok, x ∈ S

theorem closedOk_init {tbl : Table} {S : List St} (h : closedOk tbl S = true) :
    ∀ s ∈ initSet tbl, s ∈ S := by
  unfold closedOk at h
  rw [Bool.and_eq_true] at h
  intro s hs
  exact List.contains_iff_mem.mp (List.all_eq_true.mp h.1 s hs)

theorem closedOk_step {tbl : Table} {S : List St} (h : closedOk tbl S = true)
    {s : St} (hs : s ∈ S) {q : Nat} (hq : q ∈ tbl.queries) : Good S (step tbl s q) := by
  unfold closedOk at h
  rw [Bool.and_eq_true] at h
  have h2 := List.all_eq_true.mp h.2 s hs
  have h3 := List.all_eq_true.mp h2 q hq
  rw [Bool.and_eq_true] at h3
  constructor
  · intro x hx
    have : (step tbl s q).bad = [] := List.isEmpty_iff.mp h3.1
    rw [this] at hx; cases hx
  · intro x hx
    exact List.contains_iff_mem.mp (List.all_eq_true.mp h3.2 x hx)

theorem stepSet_good {tbl : Table} {S : List St} (h : closedOk tbl S = true)
    {q : Nat} (hq : q ∈ tbl.queries) (T : List St) (hT : ∀ s ∈ T, s ∈ S) :
    Good S (stepSet tbl T q) := by
  unfold stepSet
  have gen : ∀ (T : List St) (acc : Out), (∀ s ∈ T, s ∈ S) → Good S acc →
      Good S (T.foldl (fun acc s => let r := step tbl s q;
        { ok := union acc.ok r.ok, bad := union acc.bad r.bad }) acc) := by
    intro T
    induction T with
    | nil => intro acc _ hacc; simpa using hacc
    | cons s rest ih =>
      intro acc hT hacc
      rw [List.foldl_cons]
      apply ih
      · intro s' hs'; exact hT s' (List.mem_cons_of_mem _ hs')
      · have hg := closedOk_step h (hT s List.mem_cons_self) hq
        constructor
        · intro x hx
          rcases mem_union.mp hx with h1 | h1
          · exact hacc.1 x h1
          · exact hg.1 x h1
        · intro x hx
          rcases mem_union.mp hx with h1 | h1
          · exact hacc.2 x h1
          · exact hg.2 x h1
  exact gen T _ hT ⟨fun x hx => List.not_mem_nil hx, fun x hx => absurd hx List.not_mem_nil⟩

theorem after_good {S : List St} {o : Out} (h : Good S o) : ∀ x ∈ after o, x ∈ S := by
  intro x hx
  rcases mem_after.mp hx with h1 | h1
  · exact h.2 x h1
  · exact absurd h1 (h.1 x)

/-- a closed set is an inductive invariant of every history made of public calls -/
theorem foldl_mem_closed {tbl : Table} {S : List St} (h : closedOk tbl S = true) :
    ∀ (qs : List Nat) (T : List St), (∀ s ∈ T, s ∈ S) → (∀ q ∈ qs, q ∈ tbl.queries) →
      ∀ x ∈ qs.foldl (fun T q => after (stepSet tbl T q)) T, x ∈ S := by
  intro qs
  induction qs with
  | nil => intro T hT _; simpa using hT
  | cons q rest ih =>
    intro T hT hq
    rw [List.foldl_cons]
    apply ih
    · exact after_good (stepSet_good h (hq q List.mem_cons_self) T hT)
    · intro q' hq'; exact hq q' (List.mem_cons_of_mem _ hq')

theorem run_mem_closed {tbl : Table} {S : List St} (h : closedOk tbl S = true)
    (qs : List Nat) (hqs : ∀ q ∈ qs, q ∈ tbl.queries) : ∀ x ∈ run tbl qs, x ∈ S :=
  foldl_mem_closed h qs (initSet tbl) (closedOk_init h) hqs

theorem wellGuarded_closed {tbl : Table} (h : WellGuarded tbl = true) :
    closedOk tbl (reachable tbl) = true := by
  unfold WellGuarded at h
  rw [Bool.and_eq_true] at h
  exact h.2

end Mouette.Lazy
