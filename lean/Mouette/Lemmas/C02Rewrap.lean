import Mouette.Lemmas.C02Prepare
/-
"Building again from an already built mesh changes nothing": the invariant `Canon` that the output of
`prepare` satisfies, that is inherited by every re-wrap `RawMeshData(mesh)`, and on which `prepare` is the
identity (up to the `_prepared` flag). Core Lean only.
-/
set_option linter.unusedSimpArgs false
namespace Mouette.Prepare

structure Canon (cfg : Cfg) (x : Raw) : Prop where
  verts : ∀ v ∈ x.verts, padVertex v = v
  edges : ∀ e ∈ x.edges, validE x.verts.length e = true ∧ e.1 < e.2
  faces : cfg.cf = true → ∀ c ∈ x.cells, ∀ f ∈ cellFacesC c, keyF f ∈ x.faces.map keyF
  hard : cfg.ce = true → x.faces ≠ [] → hasAttr x.eattrs hardName = true
  sides : cfg.ce = true → ∀ s ∈ validSides x.verts.length x.faces, keyE s ∈ x.edges.map keyE
  fc : x.fcElem = x.faces.flatten ∧ x.fcAdj = owners x.faces
  cc : x.ccElem = x.cells.flatten ∧ x.ccAdj = owners x.cells
  cf : ∃ idss, cellFaceIds (x.faces.map keyF) x.cells = .ok idss ∧ x.cfElem = idss.flatten ∧ x.cfAdj = owners idss

theorem padVertex_idem (v : List Rat) : padVertex (padVertex v) = padVertex v := by
  unfold padVertex
  by_cases h : v.length < 3
  · have : ¬ (v ++ List.replicate (3 - v.length) (0 : Rat)).length < 3 := by simp; omega
    rw [if_pos h, if_neg this]
  · simp [h]

theorem expandAttr_zero (a : Attr) : expandAttr 0 a = a := by
  unfold expandAttr
  cases hst : a.st with
  | sparse d => rfl
  | dense v =>
    cases a
    simp_all

theorem completeFaces_canon (cfg : Cfg) (x : Raw) (hc : Canon cfg x) (hcf : cfg.cf = true) :
    completeFaces x = x := by
  unfold completeFaces
  split
  · rfl
  · rw [completeBy_noop keyF x.faces _ (by
      intro f hf
      obtain ⟨c, hcm, hfc⟩ := List.mem_flatMap.mp hf
      exact hc.faces hcf c hcm f hfc)]

theorem completeEdges_canon (cfg : Cfg) (x : Raw) (hc : Canon cfg x) (hce : cfg.ce = true) :
    completeEdges x = x := by
  unfold completeEdges
  split
  · rfl
  · rename_i hne
    have hne' : x.faces ≠ [] := by simpa using hne
    rw [completeBy_noop keyE x.edges _ (fun s hs => hc.sides hce s hs)]
    have hm : x.eattrs.map (expandAttr 0) = x.eattrs := by
      conv => rhs; rw [← List.map_id x.eattrs]
      exact List.map_congr_left (fun a _ => by simpa using expandAttr_zero a)
    simp [hc.hard hce hne', hm]

theorem completed_canon (cfg : Cfg) (x : Raw) (hc : Canon cfg x) : completed cfg x = x := by
  unfold completed
  by_cases hcf : cfg.cf = true <;> by_cases hce : cfg.ce = true <;>
    simp [hcf, hce, completeFaces_canon cfg x hc, completeEdges_canon cfg x hc]

theorem prepareVertices_canon (cfg : Cfg) (x : Raw) (hc : Canon cfg x) : prepareVertices x = x := by
  unfold prepareVertices
  have : x.verts.map padVertex = x.verts := by
    conv => rhs; rw [← List.map_id x.verts]
    exact List.map_congr_left (fun v hv => by simpa using hc.verts v hv)
  rw [this]

theorem prepareEdges_canon (cfg : Cfg) (x : Raw) (hc : Canon cfg x) : prepareEdges x = x := by
  unfold prepareEdges
  have h1 : x.edges.any (fun e => !validE x.verts.length e) = false := by
    rw [List.any_eq_false]; intro e he; simp [(hc.edges e he).1]
  have h2 : x.edges.map keyE = x.edges := by
    conv => rhs; rw [← List.map_id x.edges]
    exact List.map_congr_left (fun e he => by simpa using keyE_of_normal e (hc.edges e he).2)
  simp [h1, h2]

theorem genFaceCorners_canon (cfg : Cfg) (x : Raw) (hc : Canon cfg x) : genFaceCorners x = x := by
  unfold genFaceCorners
  split
  · rw [← hc.fc.1, ← hc.fc.2]
  · rfl

theorem genCellCorners_canon (cfg : Cfg) (x : Raw) (hc : Canon cfg x) : genCellCorners x = x := by
  unfold genCellCorners
  have hl : x.ccAdj.length = x.ccElem.length := by
    rw [hc.cc.1, hc.cc.2]; exact ownersFrom_length _ 0
  split
  · split
    · omega
    · rw [← hc.cc.1, ← hc.cc.2]
  · rfl

theorem genCellFaces_canon (cfg : Cfg) (x : Raw) (hc : Canon cfg x) : genCellFaces x = .ok x := by
  obtain ⟨idss, h1, h2, h3⟩ := hc.cf
  unfold genCellFaces
  rw [h1]; simp only []; rw [← h2, ← h3]

/-- on canonical data `prepare` only sets the flag -/
theorem prepare_canon (cfg : Cfg) (x : Raw) (hc : Canon cfg x) (h0 : x.prepared = false) :
    prepare cfg x = .ok { x with prepared := true } := by
  unfold prepare stages
  rw [completed_canon cfg x hc, prepareVertices_canon cfg x hc, prepareEdges_canon cfg x hc,
    genFaceCorners_canon cfg x hc, genCellCorners_canon cfg x hc, genCellFaces_canon cfg x hc]
  simp [h0]

/-- the output of `prepare` on fresh raw data (empty corner containers) is canonical (degenerate faces included: their
sides are never stored) -/
theorem prepare_makes_canon (cfg : Cfg) (r p : Raw) (h0 : r.prepared = false) (h : prepare cfg r = .ok p)
    (hfc : r.fcElem = []) (hcc : r.ccElem = []) :
    Canon cfg p := by
  obtain ⟨hv, he, hf, hcells, _, hattrs, h1, h2, h3, h4⟩ := prepare_fields cfg r p h0 h
  have hn : p.verts.length = r.verts.length := by rw [hv]; simp
  obtain ⟨c1, _, c3, _, c5, _⟩ := completed_corners cfg r
  refine ⟨?_, ?_, ?_, ?_, ?_, ?_, ?_, ?_⟩
  · intro v hvm
    rw [hv] at hvm
    obtain ⟨w, _, rfl⟩ := List.mem_map.mp hvm
    exact padVertex_idem w
  · intro e hem
    rw [he] at hem
    obtain ⟨e0, he0, rfl⟩ := List.mem_map.mp hem
    have hval := (List.mem_filter.mp he0).2
    rw [hn, validE_keyE]
    exact ⟨hval, (keyE_normal _ _ hval).2.1⟩
  · intro hcfon c hc f hfm
    rw [hf, hcells] at *
    unfold facesAfter; rw [if_pos hcfon]
    exact completeBy_complete keyF _ _ f (List.mem_flatMap.mpr ⟨c, hc, hfm⟩)
  · intro hce hne
    rw [hattrs, stages_eattrs]
    by_cases hh : hasAttr r.eattrs hardName = true
    · unfold hasAttr at hh ⊢
      rw [List.any_eq_true] at hh ⊢
      obtain ⟨a, ha, hna⟩ := hh
      exact ⟨finalAttr cfg r a, List.mem_map.mpr ⟨a, by simp [ha], rfl⟩, by rw [finalAttr_name]; exact hna⟩
    · have hh' : hasAttr r.eattrs hardName = false := by simpa using hh
      have hemp : (facesAfter cfg r).isEmpty = false := by
        rw [hf] at hne; simpa using hne
      have : extraAttrs cfg r = [hardAttr r.edges.length] := by
        unfold extraAttrs; simp [hce, hemp, hh']
      unfold hasAttr
      rw [List.any_eq_true]
      exact ⟨finalAttr cfg r (hardAttr r.edges.length), List.mem_map.mpr ⟨_, by simp [this], rfl⟩,
        by rw [finalAttr_name]; simp [hardAttr]⟩
  · intro hce s hs
    rw [hf, hn] at hs
    have hsv : validE r.verts.length s = true := (List.mem_filter.mp hs).2
    have hmem : keyE s ∈ (edgesAfter cfg r).map keyE := by
      unfold edgesAfter; rw [if_pos hce]
      exact completeBy_complete keyE _ _ s hs
    obtain ⟨e, hem, hek⟩ := List.mem_map.mp hmem
    have hev : validE r.verts.length e = true := by
      rw [← validE_keyE, hek, validE_keyE]; exact hsv
    rw [he]
    refine List.mem_map.mpr ⟨keyE e, List.mem_map.mpr ⟨e, List.mem_filter.mpr ⟨hem, hev⟩, rfl⟩, ?_⟩
    rw [keyE_idem]; exact hek
  · rw [h1, h2, hf]
    unfold stages
    simp only [gcc_fcElem, gcc_fcAdj]
    have a := gfc_regen (prepareEdges (prepareVertices (completed cfg r))) (by simp [c1, hfc])
    simpa [completed_faces] using a
  · rw [h3, h4, hcells]
    unfold stages
    have b := gcc_regen (genFaceCorners (prepareEdges (prepareVertices (completed cfg r)))) (by simp [c3, hcc])
    simpa [completed_cells] using b
  · obtain ⟨q, hq, hp⟩ := prepare_ok cfg r p h0 h
    obtain ⟨_, _, _, hqf, hqc, _⟩ := genCellFaces_fields _ _ hq
    obtain ⟨idss, hi, e1, e2⟩ := genCellFaces_regen _ _ hq
    subst hp
    exact ⟨idss, by simpa [hqf, hqc] using hi, e1, e2⟩

/-- re-wrapping a built mesh (whatever its class) keeps the data canonical -/
theorem rewrap_canon (cfg : Cfg) (p : Raw) (d : Nat) (hc : Canon cfg p) : Canon cfg (rewrap ⟨d, p⟩) := by
  obtain ⟨idss, i1, i2, i3⟩ := hc.cf
  by_cases h3 : 3 ≤ d
  · have h2 : 2 ≤ d := by omega
    have h1 : 1 ≤ d := by omega
    refine ⟨?_, ?_, ?_, ?_, ?_, ?_, ?_, ?_⟩ <;> simp only [rewrap, h1, h2, h3, if_true]
    · exact hc.verts
    · exact hc.edges
    · exact hc.faces
    · exact hc.hard
    · exact hc.sides
    · exact hc.fc
    · exact hc.cc
    · exact ⟨idss, i1, i2, i3⟩
  · by_cases h2 : 2 ≤ d
    · have h1 : 1 ≤ d := by omega
      refine ⟨?_, ?_, ?_, ?_, ?_, ?_, ?_, ?_⟩ <;> simp only [rewrap, h1, h2, h3, if_true, if_false]
      · exact hc.verts
      · exact hc.edges
      · intro _ c hcm; simp at hcm
      · exact hc.hard
      · exact hc.sides
      · exact hc.fc
      · exact ⟨rfl, rfl⟩
      · exact ⟨[], rfl, rfl, rfl⟩
    · by_cases h1 : 1 ≤ d
      · refine ⟨?_, ?_, ?_, ?_, ?_, ?_, ?_, ?_⟩ <;> simp only [rewrap, h1, h2, h3, if_true, if_false]
        · exact hc.verts
        · exact hc.edges
        · intro _ c hcm; simp at hcm
        · intro _ hne; exact absurd rfl hne
        · intro _ s hs; simp [validSides] at hs
        · exact ⟨rfl, rfl⟩
        · exact ⟨rfl, rfl⟩
        · exact ⟨[], rfl, rfl, rfl⟩
      · refine ⟨?_, ?_, ?_, ?_, ?_, ?_, ?_, ?_⟩ <;> simp only [rewrap, h1, h2, h3, if_true, if_false]
        · exact hc.verts
        · intro e he; simp at he
        · intro _ c hcm; simp at hcm
        · intro _ hne; exact absurd rfl hne
        · intro _ s hs; simp [validSides] at hs
        · exact ⟨rfl, rfl⟩
        · exact ⟨rfl, rfl⟩
        · exact ⟨[], rfl, rfl, rfl⟩

end Mouette.Prepare
