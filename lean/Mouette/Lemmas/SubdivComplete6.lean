import Mouette.Lemmas.SubdivComplete5
/-
C13 (round 2): opposite vertices of the cells on a face, and helper lemmas for the completion counts of
`split_tet_from_face_center`.
-/
namespace Mouette.Subdiv

theorem third_elem (g : List Nat) (hg : g.Nodup) (hl : g.length = 3) (u w : Nat) : ∃ t ∈ g, t ≠ u ∧ t ≠ w := by
  by_contra hcon
  push_neg at hcon
  refine too_many hg (l₂ := [u, w]) ?_ (by simp [hl])
  intro t ht
  by_cases h : t = u
  · simp [h]
  · simp [hcon t ht h]

theorem key_of_three (g : List Nat) (t u w : Nat) (hl : g.length = 3) (ht : t ∈ g) (hu : u ∈ g) (hw : w ∈ g)
    (h1 : t ≠ u) (h2 : u ≠ w) (h3 : w ≠ t) : keyifyL g = keyifyL [t, u, w] := by
  refine (keyifyL_congr (perm_of_subset ?_ ?_ (by simp [hl]))).symm
  · simp only [List.nodup_cons, List.mem_cons, List.not_mem_nil, or_false, not_or, List.nodup_nil, and_true,
      not_false_eq_true]
    exact ⟨⟨h1, fun e => h3 e.symm⟩, h2⟩
  · intro v hv
    simp only [List.mem_cons, List.not_mem_nil, or_false] at hv
    rcases hv with rfl | rfl | rfl <;> assumption

/-- `o` is the vertex of the cell that is not on the face -/
def IsOpp (f cell : List Nat) (o : Nat) : Prop := o ∈ cell ∧ o ∉ f ∧ ∀ v ∈ cell, v ≠ o → v ∈ f

theorem opp_exists (f cell : List Nat) (hc : cell.Nodup) (h4 : cell.length = 4) (hn : f.Nodup) (h3 : f.length = 3)
    (hsub : f ⊆ cell) : ∃ o, IsOpp f cell o := by
  have : ∃ o ∈ cell, o ∉ f := by
    by_contra hcon
    push_neg at hcon
    exact too_many hc (l₂ := f) hcon (by omega)
  obtain ⟨o, ho, hof⟩ := this
  refine ⟨o, ho, hof, ?_⟩
  intro v hv hne
  have hsub' : f ⊆ cell.erase o := by
    intro w hw
    have hne' : w ≠ o := fun e => hof (by rw [← e]; exact hw)
    exact (List.mem_erase_of_ne hne').mpr (hsub hw)
  have hlen : (cell.erase o).length ≤ f.length := by
    rw [List.length_erase_of_mem ho, h4, h3]
  exact (perm_of_subset hn hsub' hlen).mem_iff.mpr ((List.mem_erase_of_ne hne).mpr hv)

theorem opp_unique {f cell : List Nat} {o o' : Nat} (h : IsOpp f cell o) (h' : IsOpp f cell o') : o = o' := by
  by_contra hne
  exact h'.2.1 (h.2.2 o' h'.1 (fun e => hne e.symm))

theorem opp_mem_iff {f cell : List Nat} {o : Nat} (h : IsOpp f cell o) (hsub : f ⊆ cell) (v : Nat) :
    v ∈ cell ↔ (v = o ∨ v ∈ f) := by
  constructor
  · intro hv
    by_cases e : v = o
    · exact Or.inl e
    · exact Or.inr (h.2.2 v hv e)
  · rintro (rfl | hv)
    · exact h.1
    · exact hsub hv

theorem filter_single {p : Nat → Bool} (o : Nat) : ∀ (l : List Nat), l.Nodup → o ∈ l → p o = true →
    (∀ v ∈ l, v ≠ o → p v = false) → l.filter p = [o]
  | [], _, h, _, _ => by simp at h
  | x :: t, hnd, hmem, hp, hothers => by
    obtain ⟨hx, ht⟩ := List.nodup_cons.mp hnd
    by_cases hxo : x = o
    · subst hxo
      have : t.filter p = [] := by
        rw [List.filter_eq_nil_iff]
        intro v hv
        have hne : v ≠ x := fun e => hx (e ▸ hv)
        simp [hothers v (by simp [hv]) hne]
      simp [List.filter_cons, hp, this]
    · have hpx : p x = false := hothers x (by simp) hxo
      have hmem' : o ∈ t := by
        rcases List.mem_cons.mp hmem with e | e
        · exact absurd e.symm hxo
        · exact e
      simp only [List.filter_cons, hpx, Bool.false_eq_true, if_false]
      exact filter_single o t ht hmem' hp (fun v hv hne => hothers v (by simp [hv]) hne)

/-- the vertices of a cell that are not on the face (exactly one for a cell on the face) -/
def oppL (f cell : List Nat) : List Nat := cell.filter (fun v => !f.elem v)

theorem oppL_eq {f cell : List Nat} {o : Nat} (hc : cell.Nodup) (h : IsOpp f cell o) : oppL f cell = [o] := by
  refine filter_single o cell hc h.1 (by simpa using h.2.1) ?_
  intro v hv hne
  simpa using h.2.2 v hv hne

/-- the cells that contain the face -/
def adjCells (m : Raw) (f : List Nat) : List (List Nat) := m.cells.filter (fun cell => isSubset f cell)

theorem adjCells_eq (m : Raw) (f : List Nat) :
    adjCells m f = (adjacentCells m f).map (fun i => (m.cells[i]?).getD []) := by
  have hr := range_map_getD m.cells []
  unfold adjCells adjacentCells
  conv_lhs => rw [← hr]
  rw [List.filter_map]
  congr 1
  apply List.filter_congr
  intro k hk
  have hk' : k < m.cells.length := by simpa using hk
  simp [Function.comp, List.getElem?_eq_getElem hk']

theorem adjCells_length (m : Raw) (f : List Nat) : (adjCells m f).length = (adjacentCells m f).length := by
  rw [adjCells_eq]; simp

/-- opposite vertices of all the cells on the face -/
def opps (m : Raw) (f : List Nat) : List Nat := (adjCells m f).flatMap (oppL f)

/-- every cell is a tetrahedron on four different vertices of the mesh -/
def TetCells (m : Raw) : Prop := ∀ cell ∈ m.cells, cell.length = 4 ∧ cell.Nodup ∧ ∀ v ∈ cell, v < m.verts.length

instance (m : Raw) : Decidable (TetCells m) := by unfold TetCells; infer_instance

/-- no two cells have the same four vertices -/
def CellsDistinct (m : Raw) : Prop := m.cells.Pairwise (fun c1 c2 => keyifyL c1 ≠ keyifyL c2)

instance (m : Raw) : Decidable (CellsDistinct m) := by unfold CellsDistinct; infer_instance

theorem mem_opps (m : Raw) (f : List Nat) (hT : TetCells m) (hn : f.Nodup) (h3 : f.length = 3) (o : Nat) :
    o ∈ opps m f ↔ ∃ cell ∈ m.cells, f ⊆ cell ∧ IsOpp f cell o := by
  simp only [opps, List.mem_flatMap, adjCells, List.mem_filter, isSubset_iff]
  constructor
  · rintro ⟨cell, ⟨hcm, hsub⟩, ho⟩
    obtain ⟨h4, hc, _⟩ := hT cell hcm
    obtain ⟨o', hopp⟩ := opp_exists f cell hc h4 hn h3 hsub
    rw [oppL_eq hc hopp] at ho
    simp only [List.mem_singleton] at ho
    subst ho
    exact ⟨cell, hcm, hsub, hopp⟩
  · rintro ⟨cell, hcm, hsub, hopp⟩
    obtain ⟨_, hc, _⟩ := hT cell hcm
    exact ⟨cell, ⟨hcm, hsub⟩, by rw [oppL_eq hc hopp]; simp⟩

theorem opps_length (m : Raw) (f : List Nat) (hT : TetCells m) (hn : f.Nodup) (h3 : f.length = 3) :
    (opps m f).length = (adjacentCells m f).length := by
  rw [← adjCells_length]
  have := flatMap_length_const (oppL f) 1 (adjCells m f) (by
    intro cell hcell
    simp only [adjCells, List.mem_filter, isSubset_iff] at hcell
    obtain ⟨h4, hc, _⟩ := hT cell hcell.1
    obtain ⟨o', hopp⟩ := opp_exists f cell hc h4 hn h3 hcell.2
    rw [oppL_eq hc hopp]; rfl)
  simpa [opps] using this

theorem opps_nodup (m : Raw) (f : List Nat) (hT : TetCells m) (hD : CellsDistinct m) (hn : f.Nodup) (h3 : f.length = 3) :
    (opps m f).Nodup := by
  rw [opps, List.nodup_flatMap]
  constructor
  · intro cell hcell
    simp only [adjCells, List.mem_filter, isSubset_iff] at hcell
    obtain ⟨h4, hc, _⟩ := hT cell hcell.1
    obtain ⟨o', hopp⟩ := opp_exists f cell hc h4 hn h3 hcell.2
    rw [oppL_eq hc hopp]; exact List.nodup_singleton _
  · have hsl : (adjCells m f).Pairwise (fun c1 c2 => keyifyL c1 ≠ keyifyL c2) :=
      List.Pairwise.sublist List.filter_sublist hD
    refine (List.Pairwise.and_mem.mp hsl).imp ?_
    rintro c1 c2 ⟨hm1, hm2, hne⟩
    simp only [adjCells, List.mem_filter, isSubset_iff] at hm1 hm2
    obtain ⟨h41, hc1, _⟩ := hT c1 hm1.1
    obtain ⟨h42, hc2, _⟩ := hT c2 hm2.1
    obtain ⟨o1, hopp1⟩ := opp_exists f c1 hc1 h41 hn h3 hm1.2
    obtain ⟨o2, hopp2⟩ := opp_exists f c2 hc2 h42 hn h3 hm2.2
    simp only [Function.onFun, oppL_eq hc1 hopp1, oppL_eq hc2 hopp2, List.disjoint_left, List.mem_singleton]
    rintro x rfl e
    subst e
    apply hne
    exact (keyifyL_eq_iff hc1 hc2).mpr (fun v => by rw [opp_mem_iff hopp1 hm1.2, opp_mem_iff hopp2 hm2.2])

end Mouette.Subdiv
