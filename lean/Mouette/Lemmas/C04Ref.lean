import Mouette.Model.IORef
import Mouette.Lemmas.C04Codecs
/-! C04 (P1): interoperability lemmas between mouette's codecs (Model/IO.lean) and the independent reference
writers / readers (Model/IORef.lean) for obj, off, tet, xyz. -/
namespace Mouette.IO
variable {C : Type}

/-! ### obj: mouette reads the reference layout -/

theorem stepObj_refV (cd : Codec C) (h : RoundTrips cd) (r : Raw C) (v : C × C × C) :
    stepObj cd r (.kw "v" :: (coordLine cd v ++ [.int 1])) = some { r with verts := r.verts ++ [v] } := by
  simp [stepObj, coordLine, readNum_num cd h]

theorem foldObj_refV (cd : Codec C) (h : RoundTrips cd) (vs : List (C × C × C)) (r : Raw C) :
    foldOpt (stepObj cd) r (vs.map (fun v => .kw "v" :: (coordLine cd v ++ [.int 1])))
      = some { r with verts := r.verts ++ vs } := by
  induction vs generalizing r with
  | nil => simp [foldOpt]
  | cons v t ih =>
    simp only [List.map_cons, foldOpt, stepObj_refV cd h]
    rw [ih]; simp

theorem importObj_refExportObj (cd : Codec C) (h : RoundTrips cd) (m : Raw C) :
    importObj cd (refExportObj cd m) = some (refObjContent m) := by
  unfold importObj refExportObj
  have c0 : stepObj cd (Raw.empty : Raw C) [.kw "#", .kw "reference", .kw "writer"] = some Raw.empty := by
    simp [stepObj]
  have c1 : stepObj cd (Raw.empty : Raw C) [.kw "o", .kw "mesh"] = some Raw.empty := by simp [stepObj]
  simp only [foldOpt, c0, c1]
  rw [foldOpt_append_some _ _ _ _ _ (foldObj_refV cd h m.verts Raw.empty)]
  have g1 : ∀ r : Raw C, stepObj cd r [.kw "g", .kw "faces"] = some r := fun r => by simp [stepObj]
  have g2 : ∀ r : Raw C, stepObj cd r [.kw "g", .kw "lines"] = some r := fun r => by simp [stepObj]
  have hf : ∀ r : Raw C, foldOpt (stepObj cd) r ([.kw "g", .kw "faces"] :: m.faces.map (fun f => .kw "f" :: f.map idx1))
      = some { r with faces := r.faces ++ m.faces } := by
    intro r
    simp only [foldOpt, g1]
    exact foldObj_f cd m.faces r
  have hl : ∀ r : Raw C, foldOpt (stepObj cd) r ([.kw "g", .kw "lines"] :: m.edges.map (fun e => [.kw "l", idx1 e.1, idx1 e.2]))
      = some { r with edges := r.edges ++ m.edges.map keyify } := by
    intro r
    simp only [foldOpt, g2]
    exact foldObj_l cd m.edges r
  rw [foldOpt_append_some _ _ _ _ _ (hf _), hl]
  simp [refObjContent, Raw.empty]

/-! ### obj: the reference reader reads mouette's layout -/

theorem refStepObj_v (cd : Codec C) (h : RoundTrips cd) (r : Raw C) (v : C × C × C) :
    refStepObj cd r (vLine cd v) = some { r with verts := r.verts ++ [v] } := by
  simp [refStepObj, vLine, coordLine, readNum_num cd h]

theorem refStepObj_l (cd : Codec C) (r : Raw C) (e : Nat × Nat) :
    refStepObj cd r (lLine e) = some { r with edges := r.edges ++ [keyify e] } := by
  simp [refStepObj, lLine, mapOpt, consec]

theorem refStepObj_f (cd : Codec C) (r : Raw C) (f : List Nat) :
    refStepObj cd r (fLine f) = some { r with faces := r.faces ++ [f] } := by
  simp [refStepObj, fLine, mapOpt_idx1]

theorem refImportObj_exportObj (cd : Codec C) (h : RoundTrips cd) (cfg : Cfg) (m : Raw C) :
    refImportObj cd (exportObj cd cfg m) = some (restrictObj cfg m) := by
  have fv : ∀ (vs : List (C × C × C)) (r : Raw C),
      foldOpt (refStepObj cd) r (vs.map (vLine cd)) = some { r with verts := r.verts ++ vs } := by
    intro vs
    induction vs with
    | nil => intro r; simp [foldOpt]
    | cons v t ih => intro r; simp only [List.map_cons, foldOpt, refStepObj_v cd h]; rw [ih]; simp
  have fl : ∀ (es : List (Nat × Nat)) (r : Raw C),
      foldOpt (refStepObj cd) r (es.map lLine) = some { r with edges := r.edges ++ es.map keyify } := by
    intro es
    induction es with
    | nil => intro r; simp [foldOpt]
    | cons e t ih => intro r; simp only [List.map_cons, foldOpt, refStepObj_l]; rw [ih]; simp
  have ff : ∀ (fs : List (List Nat)) (r : Raw C),
      foldOpt (refStepObj cd) r (fs.map fLine) = some { r with faces := r.faces ++ fs } := by
    intro fs
    induction fs with
    | nil => intro r; simp [foldOpt]
    | cons f t ih => intro r; simp only [List.map_cons, foldOpt, refStepObj_f]; rw [ih]; simp
  unfold refImportObj exportObj
  rw [foldOpt_append_some _ _ _ _ _ (fv m.verts Raw.empty)]
  rw [foldOpt_append_some _ _ _ _ _ (fl (objEdges cfg m) _)]
  rw [ff]
  simp [restrictObj, Raw.empty]

/-! ### off -/

theorem importOff_refExportOff_actual (cd : Codec C) (h : RoundTrips cd) (m : Raw C)
    (hf : ∀ f ∈ m.faces, f.length ≠ 2) :
    importOff cd (refExportOff cd m)
      = some { verts := m.verts, faces := ofArity 3 m.faces, cells := ofArity 4 m.faces } := by
  have hv : mapOpt (readCoords cd) (m.verts.map (coordLine cd)) = some m.verts :=
    mapOpt_map _ _ (readCoords_coordLine cd h) _
  have e : (fun (f : List Nat) => idx0 f.length :: f.map idx0) = recLine := rfl
  simp only [importOff, refExportOff, readIdx0_idx0, readInt_idx0, if_true, e]
  rw [take_off, drop_off, hv]
  have hl : ¬ ((m.verts.map (coordLine cd) ++ m.faces.map recLine).length < m.verts.length + m.faces.length) := by
    simp
  simp only [hl, if_false]
  rw [foldOff_actual m.faces hf]
  simp

theorem refReadFace_recLine (f : List Nat) : refReadFace (recLine f) = some f := by
  have ht : (f.map idx0).take f.length = f.map idx0 := List.take_of_length_le (by simp)
  simp [refReadFace, recLine, ht, mapOpt_idx0]

theorem refImportOff_exportOff (cd : Codec C) (h : RoundTrips cd) (m : Raw C) :
    refImportOff cd (exportOff cd m) = some (restrictOff m) := by
  have hv : mapOpt (readCoords cd) (m.verts.map (coordLine cd)) = some m.verts :=
    mapOpt_map _ _ (readCoords_coordLine cd h) _
  have hfc : mapOpt refReadFace (m.faces.map recLine) = some m.faces :=
    mapOpt_map _ _ refReadFace_recLine _
  have t1 : (m.verts.map (coordLine cd) ++ m.faces.map recLine).take m.verts.length = m.verts.map (coordLine cd) := by
    rw [List.take_left' (by simp)]
  have t2 : (m.verts.map (coordLine cd) ++ m.faces.map recLine).drop m.verts.length = m.faces.map recLine := by
    rw [List.drop_left' (by simp)]
  have hl : ¬ ((m.verts.map (coordLine cd) ++ m.faces.map recLine).length ≠ m.verts.length + m.faces.length) := by
    simp
  simp only [refImportOff, exportOff, readIdx0_idx0, if_true]
  rw [t1, t2, hv, hfc]
  simp [hl, restrictOff]

/-! ### tet -/

theorem importTet_refExportTet (cd : Codec C) (h : RoundTrips cd) (m : Raw C) :
    importTet cd (refExportTet cd m) = some (restrictTet m) := by
  have e : refExportTet cd m = exportTet cd m := rfl
  rw [e]; exact importTet_exportTet cd h m

theorem refReadCell_recLine (c : List Nat) : refReadCell (recLine c) = some c := by
  simp [refReadCell, recLine, mapOpt_idx0]

theorem refImportTet_exportTet (cd : Codec C) (h : RoundTrips cd) (m : Raw C) :
    refImportTet cd (exportTet cd m) = some (restrictTet m) := by
  have hv : mapOpt (readCoords cd) (m.verts.map (coordLine cd)) = some m.verts :=
    mapOpt_map _ _ (readCoords_coordLine cd h) _
  have hc : mapOpt refReadCell (m.cells.map recLine) = some m.cells :=
    mapOpt_map _ _ refReadCell_recLine _
  have t1 : (m.verts.map (coordLine cd) ++ m.cells.map recLine).take m.verts.length = m.verts.map (coordLine cd) := by
    rw [List.take_left' (by simp)]
  have t2 : (m.verts.map (coordLine cd) ++ m.cells.map recLine).drop m.verts.length = m.cells.map recLine := by
    rw [List.drop_left' (by simp)]
  have hl : ¬ ((m.verts.map (coordLine cd) ++ m.cells.map recLine).length ≠ m.verts.length + m.cells.length) := by
    simp
  simp only [refImportTet, exportTet, readIdx0_idx0]
  rw [t1, t2, hv, hc]
  simp [hl, restrictTet]

/-! ### xyz -/

theorem importXyz_refExportXyz (cd : Codec C) (h : RoundTrips cd) (m : Raw C) :
    importXyz cd (refExportXyz cd m) = some (restrictXyz m) := by
  have st : ∀ (r : Raw C) (v : C × C × C),
      stepXyz cd r (coordLine cd v ++ [num cd cd.zero, num cd cd.zero, num cd cd.zero])
        = some { r with verts := r.verts ++ [v] } := by
    intro r v
    simp [stepXyz, coordLine, mapOpt, readNum_num cd h]
  have key : ∀ (vs : List (C × C × C)) (r : Raw C),
      foldOpt (stepXyz cd) r (vs.map (fun v => coordLine cd v ++ [num cd cd.zero, num cd cd.zero, num cd cd.zero]))
        = some { r with verts := r.verts ++ vs } := by
    intro vs
    induction vs with
    | nil => intro r; simp [foldOpt]
    | cons v t ih => intro r; simp only [List.map_cons, foldOpt, st]; rw [ih]; simp
  simp [importXyz, refExportXyz, key, restrictXyz, Raw.empty]

theorem refImportXyz_exportXyz (cd : Codec C) (h : RoundTrips cd) (m : Raw C) :
    refImportXyz cd (exportXyz cd m) = some (restrictXyz m) := by
  have st : ∀ (r : Raw C) (v : C × C × C),
      refStepXyz cd r (coordLine cd v) = some { r with verts := r.verts ++ [v] } := by
    intro r v
    simp [refStepXyz, coordLine, mapOpt, readNum_num cd h]
  have key : ∀ (vs : List (C × C × C)) (r : Raw C),
      foldOpt (refStepXyz cd) r (vs.map (coordLine cd)) = some { r with verts := r.verts ++ vs } := by
    intro vs
    induction vs with
    | nil => intro r; simp [foldOpt]
    | cons v t ih => intro r; simp only [List.map_cons, foldOpt, st]; rw [ih]; simp
  simp [refImportXyz, exportXyz, key, restrictXyz, Raw.empty]

end Mouette.IO
