import Mouette.Model.IOStl
import Mouette.Lemmas.C04Stl
/-! C04 (round 3): merging identical points keeps the soup. -/
namespace Mouette.IO
variable {C : Type} [DecidableEq C]

theorem addPt_prefix (vs : List (Pt C)) (p : Pt C) : ∃ ext, (addPt vs p).1 = vs ++ ext := by
  unfold addPt; split
  · exact ⟨[], by simp⟩
  · exact ⟨[p], rfl⟩

theorem addPt_get (vs : List (Pt C)) (p : Pt C) : (addPt vs p).1[(addPt vs p).2]? = some p := by
  unfold addPt; split
  · rename_i h
    simp only
    have hlt : vs.idxOf p < vs.length := List.idxOf_lt_length_of_mem h
    rw [List.getElem?_eq_getElem hlt]
    simp
  · simp

theorem get_prefix {α : Type} (vs ext : List α) (i : Nat) (p : α) (h : vs[i]? = some p) : (vs ++ ext)[i]? = some p := by
  have hlt : i < vs.length := by
    rcases Nat.lt_or_ge i vs.length with hl | hl
    · exact hl
    · rw [List.getElem?_eq_none hl] at h; cases h
  rw [List.getElem?_append_left hlt]; exact h

theorem mergeTris_prefix (ts : List (Tri C)) (vs : List (Pt C)) : ∃ ext, (mergeTris ts vs).1 = vs ++ ext := by
  induction ts generalizing vs with
  | nil => exact ⟨[], by simp [mergeTris]⟩
  | cons t rest ih =>
    obtain ⟨e1, h1⟩ := addPt_prefix vs t.1
    obtain ⟨e2, h2⟩ := addPt_prefix (addPt vs t.1).1 t.2.1
    obtain ⟨e3, h3⟩ := addPt_prefix (addPt (addPt vs t.1).1 t.2.1).1 t.2.2
    obtain ⟨e4, h4⟩ := ih (addPt (addPt (addPt vs t.1).1 t.2.1).1 t.2.2).1
    refine ⟨e1 ++ e2 ++ e3 ++ e4, ?_⟩
    simp only [mergeTris]
    rw [h4, h3, h2, h1]; simp

/-- the faces produced from `ts`, looked up in any extension of the final vertex list, give back `ts` -/
theorem mergeTris_soup (ts : List (Tri C)) (vs : List (Pt C)) (ext : List (Pt C)) :
    mapOpt (fun f => match f with
      | [i, j, k] => (match ((mergeTris ts vs).1 ++ ext)[i]?, ((mergeTris ts vs).1 ++ ext)[j]?, ((mergeTris ts vs).1 ++ ext)[k]? with
          | some a, some b, some c => some (a, b, c)
          | _, _, _ => none)
      | _ => none) (mergeTris ts vs).2 = some ts := by
  induction ts generalizing vs ext with
  | nil => simp [mergeTris, mapOpt]
  | cons t rest ih =>
    obtain ⟨a, b, c⟩ := t
    -- names for the three insertions
    let A := addPt vs a
    let B := addPt A.1 b
    let D := addPt B.1 c
    obtain ⟨eB, hB⟩ := addPt_prefix A.1 b
    obtain ⟨eD, hD⟩ := addPt_prefix B.1 c
    obtain ⟨eR, hR⟩ := mergeTris_prefix rest D.1
    have ga : A.1[A.2]? = some a := addPt_get vs a
    have gb : B.1[B.2]? = some b := addPt_get A.1 b
    have gc : D.1[D.2]? = some c := addPt_get B.1 c
    have fin : (mergeTris ((a, b, c) :: rest) vs).1 = (mergeTris rest D.1).1 := rfl
    have fa : ((mergeTris rest D.1).1 ++ ext)[A.2]? = some a := by
      rw [hR, hD, hB]; simp only [List.append_assoc]; exact get_prefix _ _ _ _ ga
    have fb : ((mergeTris rest D.1).1 ++ ext)[B.2]? = some b := by
      rw [hR, hD]; simp only [List.append_assoc]; exact get_prefix _ _ _ _ gb
    have fc : ((mergeTris rest D.1).1 ++ ext)[D.2]? = some c := by
      rw [hR]; simp only [List.append_assoc]; exact get_prefix _ _ _ _ gc
    have hrest := ih D.1 ext
    show mapOpt _ ([A.2, B.2, D.2] :: (mergeTris rest D.1).2) = _
    simp only [mapOpt, fin, fa, fb, fc, hrest]

theorem soupOf_mergeTris (ts : List (Tri C)) :
    soupOf ({ verts := (mergeTris ts []).1, faces := (mergeTris ts []).2 } : Raw C) = some ts := by
  have := mergeTris_soup ts [] []
  simp only [List.append_nil] at this
  unfold soupOf
  exact this

end Mouette.IO
