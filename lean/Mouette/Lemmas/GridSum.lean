import Mouette.Lemmas.EdgeCount
/-!
Generic helpers for rectangular grids of faces (core Lean only):

* `flatMap_range_cut`: a guard `if i < m then … else []` inside a `flatMap` over `List.range n` (m ≤ n) shortens the range;
* sums over `grid2` / `grid2b` of functions of one coordinate;
* counting the elements of a short list that satisfy a Boolean predicate as a sum of indicators, and the indicator of
  "the opposite side lies in no face" from a membership characterisation.
-/
namespace Mouette.GridSum
open Mouette.MeshCheck Mouette.EdgeCount

/-- a guard `i < m` inside a loop over `range n` (m ≤ n) is a loop over `range m` -/
theorem flatMap_range_cut {β} (n m : Nat) (h : m ≤ n) (g : Nat → List β) :
    (List.range n).flatMap (fun i => if i < m then g i else []) = (List.range m).flatMap g := by
  obtain ⟨k, rfl⟩ : ∃ k, n = m + k := ⟨n - m, by omega⟩
  rw [List.range_add, List.flatMap_append]
  have h1 : (List.range m).flatMap (fun i => if i < m then g i else []) = (List.range m).flatMap g := by
    apply flatMap_congr_on
    intro i hi
    rw [List.mem_range] at hi
    rw [if_pos hi]
  have h2 : (List.map (fun x => m + x) (List.range k)).flatMap (fun i => if i < m then g i else []) = [] := by
    rw [List.flatMap_eq_nil_iff]
    intro i hi
    rw [List.mem_map] at hi
    obtain ⟨x, _, rfl⟩ := hi
    rw [if_neg (by omega)]
  rw [h1, h2, List.append_nil]

/-- a conjunction of two guards, one per loop level, in a doubly nested loop -/
theorem flatMap_range_cut2 {β} (n n' m m' : Nat) (h : m ≤ n) (h' : m' ≤ n') (g : Nat → Nat → List β) :
    (List.range n).flatMap (fun i => (List.range n').flatMap (fun j => if i < m ∧ j < m' then g i j else [])) =
    (List.range m).flatMap (fun i => (List.range m').flatMap (fun j => g i j)) := by
  rw [← flatMap_range_cut n m h (fun i => (List.range m').flatMap (fun j => g i j))]
  apply flatMap_congr_on
  intro i _
  by_cases hi : i < m
  · rw [if_pos hi, ← flatMap_range_cut n' m' h' (fun j => g i j)]
    apply flatMap_congr_on
    intro j _
    by_cases hj : j < m'
    · rw [if_pos ⟨hi, hj⟩, if_pos hj]
    · rw [if_neg (fun c => hj c.2), if_neg hj]
  · rw [if_neg hi, List.flatMap_eq_nil_iff]
    intro j _
    rw [if_neg (fun c => hi c.1)]

theorem sum_map_flatMap {α β} (l : List α) (F : α → List β) (h : β → Nat) :
    ((l.flatMap F).map h).sum = (l.map (fun a => ((F a).map h).sum)).sum := by
  induction l with
  | nil => rfl
  | cons a t ih => simp only [List.flatMap_cons, List.map_append, List.sum_append, List.map_cons, List.sum_cons, ih]

theorem sum_map_mul_left {α} (l : List α) (c : Nat) (f : α → Nat) :
    (l.map (fun a => c * f a)).sum = c * (l.map f).sum := by
  induction l with
  | nil => rfl
  | cons a t ih => simp only [List.map_cons, List.sum_cons, ih, Nat.mul_add]

/-- Σ over the m × n grid of a function of the row index -/
theorem sum_grid2_fst (m n : Nat) (f : Nat → Nat) :
    ((grid2 m n).map (fun p => f p.1)).sum = n * ((List.range m).map f).sum := by
  unfold grid2
  rw [sum_map_flatMap, ← sum_map_mul_left]
  congr 1
  apply List.map_congr_left
  intro i _
  rw [sum_map_flatMap]
  simp only [List.map_cons, List.map_nil, List.sum_cons, List.sum_nil, Nat.add_zero]
  rw [sum_map_const, List.length_range]

/-- Σ over the m × n grid of a function of the column index -/
theorem sum_grid2_snd (m n : Nat) (g : Nat → Nat) :
    ((grid2 m n).map (fun p => g p.2)).sum = m * ((List.range n).map g).sum := by
  unfold grid2
  rw [sum_map_flatMap]
  have : (List.range m).map (fun i => (((List.range n).flatMap fun j => [(i, j)]).map (fun p => g p.2)).sum) =
      (List.range m).map (fun _ => ((List.range n).map g).sum) := by
    apply List.map_congr_left
    intro i _
    rw [sum_map_flatMap]
    simp only [List.map_cons, List.map_nil, List.sum_cons, List.sum_nil, Nat.add_zero]
  rw [this, sum_map_const, List.length_range]

/-- Σ over the m × n grid of `f i + g j` -/
theorem sum_grid2_add (m n : Nat) (f g : Nat → Nat) :
    ((grid2 m n).map (fun p => f p.1 + g p.2)).sum =
      n * ((List.range m).map f).sum + m * ((List.range n).map g).sum := by
  rw [sum_map_add (grid2 m n) (fun p => f p.1) (fun p => g p.2), sum_grid2_fst, sum_grid2_snd]

/-- Σ over the doubled grid (two faces per cell) is Σ over the cells of the two contributions -/
theorem sum_grid2b (m n : Nat) (h : Nat → Nat → Bool → Nat) :
    ((grid2b m n).map (fun p => h p.1 p.2.1 p.2.2)).sum =
      ((grid2 m n).map (fun p => h p.1 p.2 false + h p.1 p.2 true)).sum := by
  unfold grid2b grid2
  rw [sum_map_flatMap, sum_map_flatMap]
  congr 1
  apply List.map_congr_left
  intro i _
  rw [sum_map_flatMap, sum_map_flatMap]
  simp only [List.map_cons, List.map_nil, List.sum_cons, List.sum_nil, Nat.add_zero]

/-- the four border indicators of an m × n grid of cells add up to the perimeter -/
theorem sum_grid2_perimeter (m n : Nat) (hm : 1 ≤ m) (hn : 1 ≤ n) :
    ((grid2 m n).map (fun p => ((if p.1 = 0 then 1 else 0) + (if p.1 = m - 1 then 1 else 0)) +
      ((if p.2 = 0 then 1 else 0) + (if p.2 = n - 1 then 1 else 0)))).sum = 2 * m + 2 * n := by
  rw [sum_grid2_add m n (fun i => (if i = 0 then 1 else 0) + (if i = m - 1 then 1 else 0))
    (fun j => (if j = 0 then 1 else 0) + (if j = n - 1 then 1 else 0))]
  rw [sum_map_add, sum_map_add, sum_range_indicator m 0 (by omega), sum_range_indicator m (m - 1) (by omega),
    sum_range_indicator n 0 (by omega), sum_range_indicator n (n - 1) (by omega)]
  omega

/-- number of elements satisfying `P`, as a sum of indicators -/
theorem length_filter_eq_sum {α} (l : List α) (P : α → Bool) :
    (l.filter P).length = (l.map (fun x => if P x = true then 1 else 0)).sum := by
  induction l with
  | nil => rfl
  | cons a t ih =>
    rw [List.filter_cons, List.map_cons, List.sum_cons]
    by_cases h : P a = true
    · rw [if_pos h, if_pos h, List.length_cons, ih]; omega
    · rw [if_neg h, if_neg h, ih]; omega

/-- indicator of "`e` is in no face" from a characterisation of membership -/
theorem ind_not_contains {α} [BEq α] [LawfulBEq α] (L : List α) (e : α) (c : Prop) [Decidable c] (h : e ∈ L ↔ ¬ c) :
    (if (!L.contains e) = true then 1 else 0) = (if c then 1 else 0) := by
  by_cases hc : c
  · have : e ∉ L := fun hm => (h.mp hm) hc
    simp [hc, this]
  · have : e ∈ L := h.mpr hc
    simp [hc, this]

theorem ind_contains {α} [BEq α] [LawfulBEq α] (L : List α) (e : α) (h : e ∈ L) :
    (if (!L.contains e) = true then 1 else 0) = 0 := by
  simp [h]

end Mouette.GridSum
