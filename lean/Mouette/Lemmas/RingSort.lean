import Mathlib.Data.List.Rotate
import Mouette.Model.RingSpec
import Mouette.Lemmas.Surface
/-! C01 `ring_sorted`: the two walks of `_sort_vertex_neighborhoods` and the stable sort. -/
namespace Mouette.Surface

/-! ### sorting by distinct keys gives the unique increasing arrangement -/

theorem mergeSort_eq_of_strict {key : Nat → Int} {R cs : List Nat} (hperm : cs.Perm R)
    (hkey : R.Pairwise (fun a b => key a < key b)) :
    cs.mergeSort (fun a b => decide (key a ≤ key b)) = R := by
  have hs := List.pairwise_mergeSort (le := fun a b => decide (key a ≤ key b))
    (by intro a b c h1 h2; simp only [decide_eq_true_eq] at *; omega)
    (by intro a b; simp only [Bool.or_eq_true, decide_eq_true_eq]; omega) cs
  have hp := (List.mergeSort_perm cs (fun a b => decide (key a ≤ key b))).trans hperm
  have hs' : (cs.mergeSort (fun a b => decide (key a ≤ key b))).Pairwise (fun a b => key a ≤ key b) :=
    hs.imp (fun h => by simpa using h)
  have hR' : R.Pairwise (fun a b => key a ≤ key b) := hkey.imp (fun h => Int.le_of_lt h)
  apply List.Perm.eq_of_pairwise (le := fun a b => key a ≤ key b) ?_ hs' hR' hp
  intro a b ha hb h1 h2
  have ha' : a ∈ R := hp.mem_iff.mp ha
  have hne : R.Pairwise (fun x y => ¬ (key x = key y)) := hkey.imp (fun h => by omega)
  exact pairwise_unique (R := fun x y => key x = key y) (fun _ _ h => h.symm) hne ha' hb (by omega)

/-! ### the `sort_index` dictionary -/

/-- every entry of the dictionary carries the key `K` assigns to its corner -/
def Cons (K : Nat → Int) (idx : List (Nat × Int)) : Prop := ∀ e ∈ idx, e.2 = K e.1

theorem keyOf_of_cons {K : Nat → Int} {idx : List (Nat × Int)} (h : Cons K idx) {c : Nat}
    (hc : c ∈ idx.map (·.1)) : keyOf idx c = K c := by
  unfold keyOf
  have hsome : (idx.find? fun e => e.1 == c).isSome := by
    rw [List.find?_isSome]
    obtain ⟨e, he, rfl⟩ := List.mem_map.mp hc
    exact ⟨e, he, by simp⟩
  obtain ⟨e, he⟩ := Option.isSome_iff_exists.mp hsome
  have hp := List.find?_some he
  have hm := List.mem_of_find?_eq_some he
  simp only [beq_iff_eq] at hp
  rw [he]
  simp only [Option.map_some, Option.getD_some]
  rw [h e hm, hp]

theorem cons_cons {K : Nat → Int} {idx : List (Nat × Int)} (h : Cons K idx) {c : Nat} {k : Int}
    (hk : k = K c) : Cons K ((c, k) :: idx) := by
  intro e he
  rcases List.mem_cons.mp he with rfl | h'
  · exact hk
  · exact h e h'

theorem sortIndex_cons {S : Surf} {v c0 : Nat} {rest : List Nat} (h : cornersAt S v = c0 :: rest) :
    sortIndex S v =
      (if (walkBack S (rest.length + 1) c0 0 []).2 then
        (walkFwd S (rest.length + 1) c0 0 (walkBack S (rest.length + 1) c0 0 []).1, true)
       else ((walkBack S (rest.length + 1) c0 0 []).1, false)) := by
  unfold sortIndex
  rw [h]

/-! ### border vertex: the ring is a path -/
section openRing
variable {S : Surf} {v : Nat} {ring : List Nat} (p : Nat)

/-- key assigned to a corner: its position in the ring relative to the starting corner `ring[p]` -/
def Kopen (ring : List Nat) (p : Nat) (c : Nat) : Int := (ring.idxOf c : Int) - p

theorem Kopen_getElem (hnd : ring.Nodup) (j : Nat) (hj : j < ring.length) :
    Kopen ring p ring[j] = (j : Int) - p := by
  unfold Kopen; rw [hnd.idxOf_getElem j hj]

theorem walkBack_open (hr : RingOpen S v ring) :
    ∀ (j : Nat) (hj : j < ring.length) (fuel : Nat) (acc : List (Nat × Int)), j + 1 ≤ fuel →
      Cons (Kopen ring p) acc →
      (walkBack S fuel ring[j] ((j : Int) - p) acc).2 = true ∧
      Cons (Kopen ring p) (walkBack S fuel ring[j] ((j : Int) - p) acc).1 ∧
      (∀ e ∈ acc, e ∈ (walkBack S fuel ring[j] ((j : Int) - p) acc).1) ∧
      ∀ i (hi : i ≤ j), ring[i]'(by omega) ∈ (walkBack S fuel ring[j] ((j : Int) - p) acc).1.map (·.1) := by
  intro j
  induction j with
  | zero =>
    intro hj fuel acc hf hc
    obtain ⟨f, rfl⟩ : ∃ f, fuel = f + 1 := ⟨fuel - 1, by omega⟩
    have h0 := hr.first hj
    unfold stepB at h0
    simp only [walkBack, h0]
    refine ⟨trivial, cons_cons hc (by rw [Kopen_getElem p hr.nodup 0 hj]), ?_, ?_⟩
    · intro e he; exact List.mem_cons_of_mem _ he
    · intro i hi
      have : i = 0 := by omega
      subst this
      simp
  | succ j ih =>
    intro hj fuel acc hf hc
    obtain ⟨f, rfl⟩ : ∃ f, fuel = f + 1 := ⟨fuel - 1, by omega⟩
    have hb := hr.back j hj
    unfold stepB at hb
    have hind : (((j + 1 : Nat) : Int) - (p : Int) - 1) = (j : Int) - p := by omega
    simp only [walkBack, hb, hind]
    have hc' : Cons (Kopen ring p) ((ring[j+1], ((j + 1 : Nat) : Int) - p) :: acc) :=
      cons_cons hc (by rw [Kopen_getElem p hr.nodup (j+1) hj])
    obtain ⟨h1, h2, h3, h4⟩ := ih (by omega) f _ (by omega) hc'
    refine ⟨h1, h2, ?_, ?_⟩
    · intro e he; exact h3 e (List.mem_cons_of_mem _ he)
    · intro i hi
      rcases Nat.lt_or_ge i (j+1) with hlt | hge
      · exact h4 i (by omega)
      · have : i = j + 1 := by omega
        subst this
        exact List.mem_map.mpr ⟨_, h3 _ List.mem_cons_self, rfl⟩

theorem walkFwd_open (hr : RingOpen S v ring) :
    ∀ (fuel : Nat) (j : Nat) (hj : j < ring.length) (acc : List (Nat × Int)), ring.length - j ≤ fuel →
      Cons (Kopen ring p) acc →
      Cons (Kopen ring p) (walkFwd S fuel ring[j] ((j : Int) - p) acc) ∧
      (∀ e ∈ acc, e ∈ walkFwd S fuel ring[j] ((j : Int) - p) acc) ∧
      ∀ i (hi : j ≤ i) (hi' : i < ring.length), ring[i] ∈ (walkFwd S fuel ring[j] ((j : Int) - p) acc).map (·.1) := by
  intro fuel
  induction fuel with
  | zero => intro j hj acc hf; omega
  | succ f ih =>
    intro j hj acc hf hc
    have hc' : Cons (Kopen ring p) ((ring[j], (j : Int) - p) :: acc) :=
      cons_cons hc (by rw [Kopen_getElem p hr.nodup j hj])
    rcases Nat.lt_or_ge (j + 1) ring.length with hlt | hge
    · have hfw := hr.fwd j hlt
      unfold stepF at hfw
      obtain ⟨o, ho, hn⟩ := Option.bind_eq_some_iff.mp hfw
      have hind : ((j : Int) - (p : Int) + 1) = ((j + 1 : Nat) : Int) - p := by omega
      simp only [walkFwd, ho, hn, hind]
      obtain ⟨h2, h3, h4⟩ := ih (j+1) hlt _ (by omega) hc'
      refine ⟨h2, ?_, ?_⟩
      · intro e he; exact h3 e (List.mem_cons_of_mem _ he)
      · intro i hi hi'
        rcases Nat.lt_or_ge j i with h5 | h5
        · exact h4 i (by omega) hi'
        · have : i = j := by omega
          subst this
          exact List.mem_map.mpr ⟨_, h3 _ List.mem_cons_self, rfl⟩
    · have hjl : j = ring.length - 1 := by omega
      have hl := hr.last (by omega)
      have hl' : stepF S ring[j] = none := by
        have : ring[j] = ring[ring.length - 1]'(by omega) := by congr 1
        rw [this]; exact hl
      unfold stepF at hl'
      have hres : walkFwd S (f+1) ring[j] ((j : Int) - p) acc = (ring[j], (j : Int) - p) :: acc := by
        simp only [walkFwd]
        cases ho : oppositeCorner S ring[j] with
        | none => rfl
        | some o =>
          have := Option.bind_eq_none_iff.mp hl' o ho
          simp only [this]
      rw [hres]
      refine ⟨hc', fun e he => List.mem_cons_of_mem _ he, ?_⟩
      intro i hi hi'
      have : i = j := by omega
      subst this
      simp

/-- the `sort_index` dictionary of a border vertex: the first walk hits the border, every corner of the
ring gets the key "position in the ring minus position of the starting corner" -/
theorem sortIndex_open (hr : RingOpen S v ring) (hne : ring ≠ []) :
    ∃ p, (sortIndex S v).2 = true ∧ Cons (Kopen ring p) (sortIndex S v).1 ∧
      ∀ t (ht : t < ring.length), ring[t] ∈ (sortIndex S v).1.map (·.1) := by
  cases hcs : cornersAt S v with
  | nil =>
    have : ring = [] := List.Perm.eq_nil (hcs ▸ hr.perm)
    exact absurd this hne
  | cons c0 rest =>
    have hlen : ring.length = rest.length + 1 := by rw [hr.perm.length_eq, hcs]; rfl
    have hc0 : c0 ∈ ring := hr.perm.mem_iff.mpr (by rw [hcs]; exact List.mem_cons_self)
    have hp : ring.idxOf c0 < ring.length := List.idxOf_lt_length_iff.mpr hc0
    have hcp : ring[ring.idxOf c0] = c0 := List.getElem_idxOf hp
    obtain ⟨b1, b2, _, b4⟩ := walkBack_open (ring.idxOf c0) hr (ring.idxOf c0) hp (rest.length + 1) []
      (by omega) (fun e he => absurd he List.not_mem_nil)
    have h00 : ((ring.idxOf c0 : Nat) : Int) - (ring.idxOf c0 : Nat) = 0 := by omega
    rw [hcp, h00] at b1 b2 b4
    obtain ⟨f2, f3, f4⟩ := walkFwd_open (ring.idxOf c0) hr (rest.length + 1) (ring.idxOf c0) hp
      (walkBack S (rest.length + 1) c0 0 []).1 (by omega) b2
    rw [hcp, h00] at f2 f3 f4
    refine ⟨ring.idxOf c0, ?_⟩
    rw [sortIndex_cons hcs, if_pos b1]
    refine ⟨rfl, f2, ?_⟩
    intro t ht
    rcases Nat.lt_or_ge t (ring.idxOf c0) with h1 | h1
    · obtain ⟨e, he, he'⟩ := List.mem_map.mp (b4 t (by omega))
      exact List.mem_map.mpr ⟨e, f3 e he, he'⟩
    · exact f4 t h1 ht

/-- **border vertex**: with sorting on, `vertex_to_corners(v)` is exactly the path `ring` -/
theorem vertexToCorners_open (hs : S.sortOn = true) (hr : RingOpen S v ring) :
    vertexToCorners S v = ring := by
  unfold vertexToCorners
  simp only [hs, if_true]
  apply mergeSort_eq_of_strict hr.perm.symm
  cases hcs : cornersAt S v with
  | nil =>
    have : ring = [] := List.Perm.eq_nil (hcs ▸ hr.perm)
    subst this; exact List.Pairwise.nil
  | cons c0 rest =>
    have hlen : ring.length = rest.length + 1 := by rw [hr.perm.length_eq, hcs]; rfl
    have hc0 : c0 ∈ ring := hr.perm.mem_iff.mpr (by rw [hcs]; exact List.mem_cons_self)
    have hp : ring.idxOf c0 < ring.length := List.idxOf_lt_length_iff.mpr hc0
    have hcp : ring[ring.idxOf c0] = c0 := List.getElem_idxOf hp
    obtain ⟨b1, b2, _, b4⟩ := walkBack_open (ring.idxOf c0) hr (ring.idxOf c0) hp (rest.length + 1) []
      (by omega) (fun e he => absurd he List.not_mem_nil)
    have h00 : ((ring.idxOf c0 : Nat) : Int) - (ring.idxOf c0 : Nat) = 0 := by omega
    rw [hcp, h00] at b1 b2 b4
    obtain ⟨f2, f3, f4⟩ := walkFwd_open (ring.idxOf c0) hr (rest.length + 1) (ring.idxOf c0) hp
      (walkBack S (rest.length + 1) c0 0 []).1 (by omega) b2
    rw [hcp, h00] at f2 f3 f4
    rw [sortIndex_cons hcs, if_pos b1]
    simp only
    rw [List.pairwise_iff_getElem]
    intro i j hi hj hij
    have cover : ∀ t (ht : t < ring.length),
        ring[t] ∈ (walkFwd S (rest.length + 1) c0 0 (walkBack S (rest.length + 1) c0 0 []).1).map (·.1) := by
      intro t ht
      rcases Nat.lt_or_ge t (ring.idxOf c0) with h1 | h1
      · obtain ⟨e, he, he'⟩ := List.mem_map.mp (b4 t (by omega))
        exact List.mem_map.mpr ⟨e, f3 e he, he'⟩
      · exact f4 t h1 ht
    rw [keyOf_of_cons f2 (cover i hi), keyOf_of_cons f2 (cover j hj),
      Kopen_getElem _ hr.nodup i hi, Kopen_getElem _ hr.nodup j hj]
    omega

end openRing

/-! ### interior vertex: the ring is a cycle -/

theorem mod_cases (a n : Nat) (h : a < 2 * n) : (a < n ∧ a % n = a) ∨ (n ≤ a ∧ a % n = a - n) := by
  rcases Nat.lt_or_ge a n with h1 | h1
  · exact Or.inl ⟨h1, Nat.mod_eq_of_lt h1⟩
  · refine Or.inr ⟨h1, ?_⟩
    rw [Nat.mod_eq_sub_mod h1, Nat.mod_eq_of_lt (by omega)]

theorem modA {n m k p : Nat} (hm : m < n) (hk : k < n) (h : (m + k) % n = p) : (p + n - m) % n = k := by
  rcases mod_cases (m + k) n (by omega) with ⟨h1, h2⟩ | ⟨h1, h2⟩
  · rw [h2] at h; subst h
    rcases mod_cases (m + k + n - m) n (by omega) with ⟨h3, h4⟩ | ⟨h3, h4⟩ <;> omega
  · rw [h2] at h; subst h
    rcases mod_cases (m + k - n + n - m) n (by omega) with ⟨h3, h4⟩ | ⟨h3, h4⟩ <;> omega

theorem modB {n m k p : Nat} (hm : m < n) (hk : k + 1 < n + 1) (h : (m + k) % n = p) :
    ((m + n - 1) % n + (k + 1)) % n = p := by
  rcases mod_cases (m + n - 1) n (by omega) with ⟨h1, h2⟩ | ⟨h1, h2⟩
  · have hm0 : m = 0 := by omega
    subst hm0
    rw [h2]
    have : 0 + n - 1 + (k + 1) = n + k := by omega
    rw [this, Nat.add_mod_left]
    simpa using h
  · rw [h2]
    have : m + n - 1 - n + (k + 1) = m + k := by omega
    rw [this]; exact h

theorem modC {n a p : Nat} (ha : a < n) (hp : p < n) : (p + n - (a + p + 1) % n) % n = n - 1 - a := by
  rcases mod_cases (a + p + 1) n (by omega) with ⟨h1, h2⟩ | ⟨h1, h2⟩
  · rw [h2]
    rcases mod_cases (p + n - (a + p + 1)) n (by omega) with ⟨h3, h4⟩ | ⟨h3, h4⟩ <;> omega
  · rw [h2]
    rcases mod_cases (p + n - (a + p + 1 - n)) n (by omega) with ⟨h3, h4⟩ | ⟨h3, h4⟩ <;> omega

section closedRing
variable {S : Surf} {v : Nat} {ring : List Nat} (p : Nat)

/-- key assigned to a corner: minus the number of `stepB` moves from the starting corner `ring[p]` -/
def Kclosed (ring : List Nat) (p : Nat) (c : Nat) : Int :=
  -(((p + ring.length - ring.idxOf c) % ring.length : Nat) : Int)

theorem closed_back (hr : RingClosed S v ring) (j : Nat) (hj : j < ring.length) :
    stepB S ring[j] = some (ring[(j + ring.length - 1) % ring.length]'(Nat.mod_lt _ (by omega))) := by
  cases j with
  | zero =>
    have h := hr.close hj
    rw [h]
    congr 2
    rcases mod_cases (0 + ring.length - 1) ring.length (by omega) with ⟨_, h2⟩ | ⟨_, h2⟩ <;> omega
  | succ j =>
    have h := hr.back j hj
    rw [h]
    congr 2
    rcases mod_cases (j + 1 + ring.length - 1) ring.length (by omega) with ⟨_, h2⟩ | ⟨_, h2⟩ <;> omega

theorem walkBack_closed (hr : RingClosed S v ring) :
    ∀ (fuel m : Nat) (hm : m < ring.length) (k : Nat) (acc : List (Nat × Int)),
      k + fuel = ring.length → (m + k) % ring.length = p → Cons (Kclosed ring p) acc →
      (walkBack S fuel ring[m] (-(k : Int)) acc).2 = false ∧
      Cons (Kclosed ring p) (walkBack S fuel ring[m] (-(k : Int)) acc).1 ∧
      (∀ e ∈ acc, e ∈ (walkBack S fuel ring[m] (-(k : Int)) acc).1) ∧
      ∀ k', k ≤ k' → (hk' : k' < ring.length) →
        ring[(p + ring.length - k') % ring.length]'(Nat.mod_lt _ (by omega)) ∈
          (walkBack S fuel ring[m] (-(k : Int)) acc).1.map (·.1) := by
  intro fuel
  induction fuel with
  | zero =>
    intro m hm k acc hk _ hc
    simp only [walkBack]
    exact ⟨trivial, hc, fun e he => he, fun k' h1 h2 => by omega⟩
  | succ f ih =>
    intro m hm k acc hk hmk hc
    have hkn : k < ring.length := by omega
    have hb := closed_back hr m hm
    unfold stepB at hb
    have hind : (-(k : Int) - 1) = -((k + 1 : Nat) : Int) := by omega
    simp only [walkBack, hb, hind]
    have hK : Kclosed ring p ring[m] = -(k : Int) := by
      unfold Kclosed
      rw [hr.nodup.idxOf_getElem m hm, modA hm hkn hmk]
    have hc' : Cons (Kclosed ring p) ((ring[m], -(k : Int)) :: acc) := cons_cons hc hK.symm
    obtain ⟨h1, h2, h3, h4⟩ := ih ((m + ring.length - 1) % ring.length) (Nat.mod_lt _ (by omega)) (k + 1) _
      (by omega) (modB hm (by omega) hmk) hc'
    refine ⟨h1, h2, fun e he => h3 e (List.mem_cons_of_mem _ he), ?_⟩
    intro k' hk1 hk2
    rcases Nat.lt_or_ge k k' with h5 | h5
    · exact h4 k' (by omega) hk2
    · have hkk : k' = k := by omega
      subst hkk
      have hidx : (p + ring.length - k') % ring.length = m := by
        have := modA (n := ring.length) (m := k') (k := m) (p := p) hk2 hm (by rw [Nat.add_comm]; exact hmk)
        exact this
      have : ring[(p + ring.length - k') % ring.length]'(Nat.mod_lt _ (by omega)) = ring[m] := by
        congr 1
      rw [this]
      exact List.mem_map.mpr ⟨_, h3 _ List.mem_cons_self, rfl⟩

/-- **interior vertex**: with sorting on, `vertex_to_corners(v)` is the cycle `ring` read from the
position after the (arbitrary) corner the code started from -/
theorem vertexToCorners_closed (hs : S.sortOn = true) (hr : RingClosed S v ring) :
    ∃ r, vertexToCorners S v = ring.rotate r := by
  cases hcs : cornersAt S v with
  | nil =>
    have : ring = [] := List.Perm.eq_nil (hcs ▸ hr.perm)
    subst this
    refine ⟨0, ?_⟩
    unfold vertexToCorners
    simp [hcs]
  | cons c0 rest =>
    have hlen : ring.length = rest.length + 1 := by rw [hr.perm.length_eq, hcs]; rfl
    have hc0 : c0 ∈ ring := hr.perm.mem_iff.mpr (by rw [hcs]; exact List.mem_cons_self)
    have hp : ring.idxOf c0 < ring.length := List.idxOf_lt_length_iff.mpr hc0
    have hcp : ring[ring.idxOf c0] = c0 := List.getElem_idxOf hp
    refine ⟨ring.idxOf c0 + 1, ?_⟩
    obtain ⟨b1, b2, _, b4⟩ := walkBack_closed (ring.idxOf c0) hr (rest.length + 1) (ring.idxOf c0) hp 0 []
      (by omega) (by simpa using Nat.mod_eq_of_lt hp) (fun e he => absurd he List.not_mem_nil)
    have h00 : (-((0 : Nat) : Int)) = 0 := by omega
    rw [hcp, h00] at b1 b2 b4
    unfold vertexToCorners
    simp only [hs, if_true]
    apply mergeSort_eq_of_strict
    · exact hr.perm.symm.trans (List.rotate_perm ring _).symm
    · have b1' : (walkBack S (rest.length + 1) c0 0 []).2 = false := b1
      rw [sortIndex_cons hcs, b1']
      simp only [Bool.false_eq_true, if_false]
      rw [List.pairwise_iff_getElem]
      intro i j hi hj hij
      rw [List.length_rotate] at hi hj
      have key : ∀ t (ht : t < ring.length),
          keyOf (walkBack S (rest.length + 1) c0 0 []).1 ((ring.rotate (ring.idxOf c0 + 1))[t]'(by rw [List.length_rotate]; exact ht))
            = -((ring.length - 1 - t : Nat) : Int) := by
        intro t ht
        rw [List.getElem_rotate]
        have hidx : (t + (ring.idxOf c0 + 1)) % ring.length
            = (ring.idxOf c0 + ring.length - (ring.length - 1 - t)) % ring.length := by
          congr 1; omega
        have hmem := b4 (ring.length - 1 - t) (by omega) (by omega)
        have heq : ring[(t + (ring.idxOf c0 + 1)) % ring.length]'(Nat.mod_lt _ (by omega))
            = ring[(ring.idxOf c0 + ring.length - (ring.length - 1 - t)) % ring.length]'(Nat.mod_lt _ (by omega)) := by
          congr 1
        rw [heq, keyOf_of_cons b2 hmem]
        unfold Kclosed
        rw [hr.nodup.idxOf_getElem _ (Nat.mod_lt _ (by omega)), ← hidx]
        have := modC (n := ring.length) (a := t) (p := ring.idxOf c0) ht hp
        have h2 : (t + (ring.idxOf c0 + 1)) = (t + ring.idxOf c0 + 1) := by omega
        rw [h2, this]
      rw [key i hi, key j hj]
      omega

end closedRing

/-! ### both cases: the keys increase strictly along the returned corner ring -/

/-- with sorting on and the umbrella condition at `v`, the `sort_index` keys are strictly increasing along
`vertex_to_corners(v)` and every one of its corners is a key of the dictionary -/
theorem sortedCorners_keys {S : Surf} {v : Nat} (hs : S.sortOn = true)
    (hu : ∃ ring, RingOpen S v ring ∨ RingClosed S v ring) :
    (vertexToCorners S v).Pairwise (fun a b => keyOf (sortIndex S v).1 a < keyOf (sortIndex S v).1 b) ∧
    ∀ c ∈ vertexToCorners S v, c ∈ (sortIndex S v).1.map (·.1) := by
  obtain ⟨ring, hr | hr⟩ := hu
  · rw [vertexToCorners_open hs hr]
    by_cases hne : ring = []
    · subst hne; exact ⟨List.Pairwise.nil, fun c hc => absurd hc List.not_mem_nil⟩
    · obtain ⟨p, _, hcons, hcover⟩ := sortIndex_open hr hne
      constructor
      · rw [List.pairwise_iff_getElem]
        intro i j hi hj hij
        rw [keyOf_of_cons hcons (hcover i hi), keyOf_of_cons hcons (hcover j hj),
          Kopen_getElem _ hr.nodup i hi, Kopen_getElem _ hr.nodup j hj]
        omega
      · intro c hc
        obtain ⟨t, ht, rfl⟩ := List.mem_iff_getElem.mp hc
        exact hcover t ht
  · cases hcs : cornersAt S v with
    | nil =>
      have : ring = [] := List.Perm.eq_nil (hcs ▸ hr.perm)
      subst this
      have : vertexToCorners S v = [] := by unfold vertexToCorners; simp [hcs]
      rw [this]; exact ⟨List.Pairwise.nil, fun c hc => absurd hc List.not_mem_nil⟩
    | cons c0 rest =>
      have hlen : ring.length = rest.length + 1 := by rw [hr.perm.length_eq, hcs]; rfl
      have hc0 : c0 ∈ ring := hr.perm.mem_iff.mpr (by rw [hcs]; exact List.mem_cons_self)
      have hp : ring.idxOf c0 < ring.length := List.idxOf_lt_length_iff.mpr hc0
      have hcp : ring[ring.idxOf c0] = c0 := List.getElem_idxOf hp
      obtain ⟨b1, b2, _, b4⟩ := walkBack_closed (ring.idxOf c0) hr (rest.length + 1) (ring.idxOf c0) hp 0 []
        (by omega) (by simpa using Nat.mod_eq_of_lt hp) (fun e he => absurd he List.not_mem_nil)
      have h00 : (-((0 : Nat) : Int)) = 0 := by omega
      rw [hcp, h00] at b1 b2 b4
      have b1' : (walkBack S (rest.length + 1) c0 0 []).2 = false := b1
      have hidx : (sortIndex S v).1 = (walkBack S (rest.length + 1) c0 0 []).1 := by
        rw [sortIndex_cons hcs, b1']; rfl
      -- the sorted list is the rotation found in `vertexToCorners_closed`
      have hvc : vertexToCorners S v = ring.rotate (ring.idxOf c0 + 1) ∧
          ∀ t (ht : t < ring.length),
            (ring.rotate (ring.idxOf c0 + 1))[t]'(by rw [List.length_rotate]; exact ht) ∈
              (walkBack S (rest.length + 1) c0 0 []).1.map (·.1) ∧
            keyOf (walkBack S (rest.length + 1) c0 0 []).1
              ((ring.rotate (ring.idxOf c0 + 1))[t]'(by rw [List.length_rotate]; exact ht))
              = -((ring.length - 1 - t : Nat) : Int) := by
        have key : ∀ t (ht : t < ring.length),
            (ring.rotate (ring.idxOf c0 + 1))[t]'(by rw [List.length_rotate]; exact ht) ∈
              (walkBack S (rest.length + 1) c0 0 []).1.map (·.1) ∧
            keyOf (walkBack S (rest.length + 1) c0 0 []).1
              ((ring.rotate (ring.idxOf c0 + 1))[t]'(by rw [List.length_rotate]; exact ht))
              = -((ring.length - 1 - t : Nat) : Int) := by
          intro t ht
          rw [List.getElem_rotate]
          have hidx : (t + (ring.idxOf c0 + 1)) % ring.length
              = (ring.idxOf c0 + ring.length - (ring.length - 1 - t)) % ring.length := by
            congr 1; omega
          have hmem := b4 (ring.length - 1 - t) (by omega) (by omega)
          have heq : ring[(t + (ring.idxOf c0 + 1)) % ring.length]'(Nat.mod_lt _ (by omega))
              = ring[(ring.idxOf c0 + ring.length - (ring.length - 1 - t)) % ring.length]'(Nat.mod_lt _ (by omega)) := by
            congr 1
          rw [heq]
          refine ⟨hmem, ?_⟩
          rw [keyOf_of_cons b2 hmem]
          unfold Kclosed
          rw [hr.nodup.idxOf_getElem _ (Nat.mod_lt _ (by omega)), ← hidx]
          have := modC (n := ring.length) (a := t) (p := ring.idxOf c0) ht hp
          have h2 : (t + (ring.idxOf c0 + 1)) = (t + ring.idxOf c0 + 1) := by omega
          rw [h2, this]
        refine ⟨?_, key⟩
        unfold vertexToCorners
        simp only [hs, if_true]
        apply mergeSort_eq_of_strict
        · exact hr.perm.symm.trans (List.rotate_perm ring _).symm
        · rw [hidx, List.pairwise_iff_getElem]
          intro i j hi hj hij
          rw [List.length_rotate] at hi hj
          rw [(key i hi).2, (key j hj).2]
          omega
      rw [hvc.1, hidx]
      constructor
      · rw [List.pairwise_iff_getElem]
        intro i j hi hj hij
        rw [List.length_rotate] at hi hj
        rw [(hvc.2 i hi).2, (hvc.2 j hj).2]
        omega
      · intro c hc
        obtain ⟨t, ht, rfl⟩ := List.mem_iff_getElem.mp hc
        rw [List.length_rotate] at ht
        exact (hvc.2 t ht).1

end Mouette.Surface
