import Mouette.Lemmas.AttrBasic
/-
Storage invariant of the attribute model and the effect of each primitive on the abstraction function `lookupVal`.
-/
namespace Mouette.Attr
set_option linter.unusedSimpArgs false
set_option linter.unusedVariables false

/-- abstraction function: what `a[i]` answers (bounds aside) -/
def lookupVal (h : Heap) (a : Attr) (i : Int) : Val :=
  match a.store with
  | .sparse data => match data.lookup i with | some r => cellVec h r | none => a.dfltRow
  | .dense _ arr => (cellMat h arr).getD i.toNat []

def RefsInj (d : List (Int × Nat)) : Prop := ∀ p ∈ d, ∀ q ∈ d, p.2 = q.2 → p.1 = q.1

def keysOf (a : Attr) : List (Int × Nat) := match a.store with | .sparse data => data | .dense _ _ => []

def KeysIn (d : List (Int × Nat)) (n : Nat) : Prop := ∀ p ∈ d, 0 ≤ p.1 ∧ p.1 < (n : Int)

/-- AliasFree for attribute storage: distinct keys own distinct, well-typed heap cells; the dense matrix is aligned
with the container -/
def StoreOk (h : Heap) (size : Nat) (a : Attr) : Prop :=
  match a.store with
  | .sparse data => KeysDistinct data ∧ RefsInj data ∧ ∀ p ∈ data, ∃ v, h[p.2]? = some (.vec v)
  | .dense n arr => n = size ∧ ∃ rows, h[arr]? = some (.mat rows) ∧ rows.length = size

def Inv (s : State) : Prop := ∀ a, s.attr = some a → StoreOk s.heap s.size a

theorem storeOk_append {h : Heap} {n : Nat} {a : Attr} (c : Cell) (hok : StoreOk h n a) : StoreOk (h ++ [c]) n a := by
  unfold StoreOk at *
  cases hst : a.store with
  | sparse data =>
    rw [hst] at hok; simp only at hok ⊢
    refine ⟨hok.1, hok.2.1, ?_⟩
    intro p hp; obtain ⟨v, hv⟩ := hok.2.2 p hp; exact ⟨v, heap_append_some hv⟩
  | dense n' arr =>
    rw [hst] at hok; simp only at hok ⊢
    obtain ⟨h1, rows, h2, h3⟩ := hok
    exact ⟨h1, rows, heap_append_some h2, h3⟩

theorem lookupVal_append {h : Heap} {n : Nat} {a : Attr} (c : Cell) (hok : StoreOk h n a) (i : Int) :
    lookupVal (h ++ [c]) a i = lookupVal h a i := by
  unfold StoreOk at hok; unfold lookupVal
  cases hst : a.store with
  | sparse data =>
    rw [hst] at hok; simp only at hok ⊢
    cases hl : data.lookup i with
    | none => rfl
    | some r =>
      obtain ⟨v, hv⟩ := hok.2.2 (i, r) (mem_of_lookup hl)
      exact cellVec_append c hv
  | dense n' arr =>
    rw [hst] at hok; simp only at hok ⊢
    obtain ⟨h1, rows, h2, h3⟩ := hok
    rw [cellMat_append c h2]

/-! ### get / mutate -/

theorem get_dense_inRange {s : State} {a : Attr} {n arr : Nat} {i : Int} {r : State × Handle × Val}
    (hst : a.store = .dense n arr) (hg : get s a i = .ok r) : 0 ≤ i ∧ i < (n : Int) := by
  unfold get at hg; rw [hst] at hg; simp only at hg
  by_cases hb : oobGuard i n = true
  · rw [if_pos hb] at hg; cases hg
  · unfold oobGuard at hb; simp at hb; omega

theorem get_spec {s s' : State} {a : Attr} {i : Int} {hd : Handle} {v : Val}
    (hok : StoreOk s.heap s.size a) (hg : get s a i = .ok (s', hd, v)) :
    v = lookupVal s.heap a i ∧ s'.size = s.size ∧ s'.attr = s.attr ∧ StoreOk s'.heap s.size a ∧
    (∀ j, lookupVal s'.heap a j = lookupVal s.heap a j) ∧
    (∀ c x, StoreOk (mutate s'.heap hd c x) s.size a ∧
       ∀ j, j ≠ i → 0 ≤ j → lookupVal (mutate s'.heap hd c x) a j = lookupVal s.heap a j) := by
  cases hst : a.store with
  | sparse data =>
    have hok' := hok
    unfold StoreOk at hok; rw [hst] at hok; simp only at hok
    obtain ⟨hkd, hinj, hty⟩ := hok
    unfold get at hg; rw [hst] at hg; simp only at hg
    cases hl : data.lookup i with
    | some r =>
      rw [hl] at hg; simp only at hg
      injection hg with hg; injection hg with h1 h2; injection h2 with h2 h3
      subst h1; subst h2; subst h3
      refine ⟨by unfold lookupVal; rw [hst]; simp only [hl], rfl, rfl, hok', fun _ => rfl, ?_⟩
      intro c x
      obtain ⟨v0, hv0⟩ := hty (i, r) (mem_of_lookup hl)
      have hmut : mutate s.heap (.whole r) c x = s.heap.set r (.vec (v0.set c x)) := by
        unfold mutate; simp only [hv0]
      rw [hmut]
      constructor
      · unfold StoreOk; rw [hst]; simp only
        refine ⟨hkd, hinj, ?_⟩
        intro p hp
        by_cases hpr : r = p.2
        · exact ⟨v0.set c x, by rw [← hpr]; exact heap_set_same _ hv0⟩
        · obtain ⟨w, hw⟩ := hty p hp; exact ⟨w, by rw [heap_set_ne _ hpr]; exact hw⟩
      · intro j hji _
        unfold lookupVal; rw [hst]; simp only
        cases hlj : data.lookup j with
        | none => rfl
        | some r' =>
          simp only
          have hne : r ≠ r' := by
            intro e
            have := hinj (i, r) (mem_of_lookup hl) (j, r') (mem_of_lookup hlj) e
            exact hji this.symm
          unfold cellVec; rw [heap_set_ne _ hne]
    | none =>
      rw [hl] at hg; simp only at hg
      injection hg with hg; injection hg with h1 h2; injection h2 with h2 h3
      subst h1; subst h2; subst h3
      refine ⟨by unfold lookupVal; rw [hst]; simp only [hl], rfl, rfl, storeOk_append _ hok',
        fun j => lookupVal_append _ hok' j, ?_⟩
      intro c x
      have hmut : mutate (s.heap ++ [Cell.vec a.dfltRow]) (.whole s.heap.length) c x
          = (s.heap ++ [Cell.vec a.dfltRow]).set s.heap.length (.vec (a.dfltRow.set c x)) := by
        unfold mutate; simp only [heap_append_new]
      simp only [hmut]
      have hfresh : ∀ p ∈ data, s.heap.length ≠ p.2 := by
        intro p hp e
        obtain ⟨w, hw⟩ := hty p hp
        have := heap_some_lt hw; omega
      constructor
      · unfold StoreOk; rw [hst]; simp only
        refine ⟨hkd, hinj, ?_⟩
        intro p hp
        obtain ⟨w, hw⟩ := hty p hp
        exact ⟨w, by rw [heap_set_ne _ (hfresh p hp)]; exact heap_append_some hw⟩
      · intro j _ _
        unfold lookupVal; rw [hst]; simp only
        cases hlj : data.lookup j with
        | none => rfl
        | some r' =>
          simp only
          have hmem := mem_of_lookup hlj
          obtain ⟨w, hw⟩ := hty (j, r') hmem
          unfold cellVec
          rw [heap_set_ne _ (hfresh (j, r') hmem), heap_append_some hw, hw]
  | dense n arr =>
    have hok' := hok
    have hir := get_dense_inRange (r := (s', hd, v)) hst hg
    unfold StoreOk at hok; rw [hst] at hok; simp only at hok
    obtain ⟨hn, rows, hrows, hlen⟩ := hok
    unfold get at hg; rw [hst] at hg; simp only at hg
    have hb : ¬ oobGuard i n = true := by unfold oobGuard; simp; omega
    rw [if_neg hb] at hg
    injection hg with hg; injection hg with h1 h2; injection h2 with h2 h3
    subst h1; subst h2; subst h3
    refine ⟨by unfold lookupVal; rw [hst], rfl, rfl, hok', fun _ => rfl, ?_⟩
    intro c x
    have hmut : mutate s.heap (.row arr i.toNat) c x
        = s.heap.set arr (.mat (rows.set i.toNat ((rows.getD i.toNat []).set c x))) := by
      unfold mutate; simp only [hrows]
    rw [hmut]
    constructor
    · unfold StoreOk; rw [hst]; simp only
      exact ⟨hn, _, heap_set_same _ hrows, by simp [hlen]⟩
    · intro j hji hj0
      unfold lookupVal; rw [hst]; simp only
      have h1 : cellMat (s.heap.set arr (.mat (rows.set i.toNat ((rows.getD i.toNat []).set c x)))) arr
          = rows.set i.toNat ((rows.getD i.toNat []).set c x) := by
        unfold cellMat; rw [heap_set_same _ hrows]
      have h2 : cellMat s.heap arr = rows := by unfold cellMat; rw [hrows]
      rw [h1, h2]
      have hne : i.toNat ≠ j.toNat := by omega
      simp [List.getD_eq_getElem?_getD, List.getElem?_set_ne hne]

/-! ### put -/

theorem put_spec {s s' : State} {a a' : Attr} {i : Int} {v : Val}
    (hok : StoreOk s.heap s.size a) (hp : put s a i v = .ok (s', a')) :
    s'.size = s.size ∧ s'.attr = s.attr ∧ a'.ty = a.ty ∧ a'.k = a.k ∧ a'.dflt = a.dflt ∧ StoreOk s'.heap s.size a' ∧
    lookupVal s'.heap a' i = v ∧
    (∀ j, j ≠ i → 0 ≤ j → lookupVal s'.heap a' j = lookupVal s.heap a j) ∧
    (∀ p ∈ keysOf a', p.1 = i ∨ p ∈ keysOf a) := by
  cases hst : a.store with
  | sparse data =>
    have hok' := hok
    unfold StoreOk at hok; rw [hst] at hok; simp only at hok
    obtain ⟨hkd, hinj, hty⟩ := hok
    unfold put at hp; rw [hst] at hp; simp only at hp
    injection hp with hp; injection hp with h1 h2
    subst h1; subst h2
    have hfresh : ∀ p ∈ data, s.heap.length ≠ p.2 := by
      intro p hp e
      obtain ⟨w, hw⟩ := hty p hp
      have := heap_some_lt hw; omega
    refine ⟨rfl, rfl, rfl, rfl, rfl, ?_, ?_, ?_, ?_⟩
    · unfold StoreOk; simp only
      refine ⟨keysDistinct_dinsert hkd _ _, ?_, ?_⟩
      · intro p hp q hq e
        rcases mem_dinsert hp with hp | hp <;> rcases mem_dinsert hq with hq | hq
        · rw [hp, hq]
        · rw [hp] at e; exact absurd e (hfresh q hq)
        · rw [hq] at e; exact absurd e.symm (hfresh p hp)
        · exact hinj p hp q hq e
      · intro p hp
        rcases mem_dinsert hp with hp | hp
        · rw [hp]; exact ⟨v, heap_append_new _ _⟩
        · obtain ⟨w, hw⟩ := hty p hp; exact ⟨w, heap_append_some hw⟩
    · unfold lookupVal; simp only [lookup_dinsert, if_true]
      exact cellVec_new _ _
    · intro j hji _
      unfold lookupVal; rw [hst]; simp only [lookup_dinsert, if_neg hji]
      cases hlj : data.lookup j with
      | none => rfl
      | some r' =>
        simp only
        obtain ⟨w, hw⟩ := hty (j, r') (mem_of_lookup hlj)
        exact cellVec_append _ hw
    · intro p hp
      unfold keysOf at hp ⊢; rw [hst]; simp only at hp ⊢
      rcases mem_dinsert hp with hp | hp
      · left; rw [hp]
      · right; exact hp
  | dense n arr =>
    have hok' := hok
    unfold StoreOk at hok; rw [hst] at hok; simp only at hok
    obtain ⟨hn, rows, hrows, hlen⟩ := hok
    unfold put at hp; rw [hst] at hp; simp only at hp
    by_cases hb : oobGuard i n = true
    · rw [if_pos hb] at hp; cases hp
    · rw [if_neg hb] at hp
      have hir : 0 ≤ i ∧ i < (n : Int) := by unfold oobGuard at hb; simp at hb; omega
      injection hp with hp; injection hp with h1 h2
      subst h1; subst h2
      have h2 : cellMat s.heap arr = rows := by unfold cellMat; rw [hrows]
      have h1 : ∀ m, cellMat (s.heap.set arr (.mat m)) arr = m := by
        intro m; unfold cellMat; rw [heap_set_same _ hrows]
      refine ⟨rfl, rfl, rfl, rfl, rfl, ?_, ?_, ?_, ?_⟩
      · unfold StoreOk; rw [hst]; simp only
        exact ⟨hn, _, heap_set_same _ hrows, by rw [h2]; simp [hlen]⟩
      · unfold lookupVal; rw [hst]; simp only [h1, h2]
        have : i.toNat < rows.length := by omega
        simp [List.getD_eq_getElem?_getD, List.getElem?_set_self this]
      · intro j hji hj0
        unfold lookupVal; rw [hst]; simp only [h1, h2]
        have hne : i.toNat ≠ j.toNat := by omega
        simp [List.getD_eq_getElem?_getD, List.getElem?_set_ne hne]
      · intro p hp; unfold keysOf at hp; rw [hst] at hp; simp at hp

/-! ### growth -/

theorem expand_spec {h h' : Heap} {n m : Nat} {a a' : Attr}
    (hok : StoreOk h n a) (he : expandAttr h a m = (h', a')) :
    a'.ty = a.ty ∧ a'.k = a.k ∧ a'.dflt = a.dflt ∧ StoreOk h' (n + m) a' ∧ keysOf a' = keysOf a ∧
    (∀ i : Int, 0 ≤ i → i < (n : Int) → lookupVal h' a' i = lookupVal h a i) ∧
    (∀ i : Int, (n : Int) ≤ i → i < ((n + m : Nat) : Int) → (∀ p ∈ keysOf a, p.1 ≠ i) → lookupVal h' a' i = a.dfltRow) := by
  cases hst : a.store with
  | sparse data =>
    have hok' := hok
    unfold StoreOk at hok; rw [hst] at hok; simp only at hok
    unfold expandAttr at he; rw [hst] at he; simp only at he
    injection he with h1 h2; subst h1; subst h2
    refine ⟨rfl, rfl, rfl, ?_, rfl, fun _ _ _ => rfl, ?_⟩
    · unfold StoreOk; rw [hst]; simp only; exact hok
    · intro i _ _ hk
      unfold lookupVal; rw [hst]; simp only
      have : data.lookup i = none := by
        apply lookup_none_of_not_key
        intro q hq e
        have := hk q (by unfold keysOf; rw [hst]; exact hq)
        exact this e.symm
      rw [this]
  | dense n' arr =>
    unfold StoreOk at hok; rw [hst] at hok; simp only at hok
    obtain ⟨hn, rows, hrows, hlen⟩ := hok
    unfold expandAttr at he; rw [hst] at he; simp only at he
    injection he with h1 h2; subst h1; subst h2
    have h2 : cellMat h arr = rows := by unfold cellMat; rw [hrows]
    refine ⟨rfl, rfl, rfl, ?_, ?_, ?_, ?_⟩
    · unfold StoreOk; simp only
      exact ⟨by omega, _, heap_append_new _ _, by rw [h2]; simp [hlen]⟩
    · unfold keysOf; rw [hst]
    · intro i h0 hi
      unfold lookupVal; rw [hst]; simp only [cellMat_new, h2]
      have : i.toNat < rows.length := by omega
      simp [List.getD_eq_getElem?_getD, List.getElem?_append_left this]
    · intro i h0 hi _
      unfold lookupVal; simp only [cellMat_new, h2]
      have h1 : rows.length ≤ i.toNat := by omega
      have h3 : i.toNat - rows.length < m := by omega
      simp [List.getD_eq_getElem?_getD, List.getElem?_append_right h1, List.getElem?_replicate, h3]

/-! ### clear -/

theorem clear_spec {h h' : Heap} {n : Nat} {a a' : Attr}
    (hok : StoreOk h n a) (he : clearAttr h a = (h', a')) :
    a'.ty = a.ty ∧ a'.k = a.k ∧ a'.dflt = a.dflt ∧ StoreOk h' n a' ∧ keysOf a' = [] ∧
    (∀ i : Int, 0 ≤ i → i < (n : Int) → lookupVal h' a' i = a.dfltRow) := by
  cases hst : a.store with
  | sparse data =>
    unfold clearAttr at he; rw [hst] at he; simp only at he
    injection he with h1 h2; subst h1; subst h2
    refine ⟨rfl, rfl, rfl, ?_, rfl, ?_⟩
    · unfold StoreOk; simp only
      exact ⟨List.Pairwise.nil, (fun p hp => by cases hp), (fun p hp => by cases hp)⟩
    · intro i _ _; unfold lookupVal; simp only [List.lookup]; rfl
  | dense n' arr =>
    unfold StoreOk at hok; rw [hst] at hok; simp only at hok
    obtain ⟨hn, rows, hrows, hlen⟩ := hok
    unfold clearAttr at he; rw [hst] at he; simp only at he
    injection he with h1 h2; subst h1; subst h2
    refine ⟨rfl, rfl, rfl, ?_, ?_, ?_⟩
    · unfold StoreOk; simp only
      exact ⟨hn, _, heap_append_new _ _, by simp [hn]⟩
    · unfold keysOf; rfl
    · intro i h0 hi
      unfold lookupVal; simp only [cellMat_new]
      have : i.toNat < n' := by omega
      simp [List.getD_eq_getElem?_getD, List.getElem?_replicate, this]

/-! ### create -/

theorem mkAttr_spec (dense : Bool) (s : State) (ty : Ty) (k : Nat) (d : Scalar) :
    (mkAttr dense s ty k d).size = s.size ∧
    ∃ a', (mkAttr dense s ty k d).attr = some a' ∧ a'.ty = ty ∧ a'.k = k ∧ a'.dflt = d ∧
      StoreOk (mkAttr dense s ty k d).heap s.size a' ∧ keysOf a' = [] ∧
      (∀ i : Int, 0 ≤ i → i < (s.size : Int) → lookupVal (mkAttr dense s ty k d).heap a' i = List.replicate k d) := by
  cases dense with
  | false =>
    simp only [mkAttr, Bool.false_eq_true, if_false]
    refine ⟨trivial, _, rfl, rfl, rfl, rfl, ?_, rfl, ?_⟩
    · unfold StoreOk; simp only
      exact ⟨List.Pairwise.nil, (fun p hp => by cases hp), (fun p hp => by cases hp)⟩
    · intro i _ _; unfold lookupVal; simp only [List.lookup]; rfl
  | true =>
    simp only [mkAttr, if_true]
    refine ⟨trivial, _, rfl, rfl, rfl, rfl, ?_, rfl, ?_⟩
    · unfold StoreOk; simp only
      exact ⟨trivial, _, heap_append_new _ _, by simp⟩
    · intro i h0 hi
      unfold lookupVal; simp only [cellMat_new]
      have : i.toNat < s.size := by omega
      simp [List.getD_eq_getElem?_getD, List.getElem?_replicate, this]

/-! ### as_array -/

theorem sparseArray_spec (h : Heap) (size : Nat) (dr : Val) :
    ∀ (data : List (Int × Nat)) (out : List Val), KeysDistinct data → KeysIn data size → out.length = size →
    ∃ out', sparseArray h size dr data out = .ok out' ∧ out'.length = size ∧
      ∀ i : Nat, i < size → out'.getD i [] = match data.lookup (i : Int) with
        | some r => cellVec h r | none => out.getD i [] := by
  intro data
  induction data with
  | nil => intro out _ _ hl; exact ⟨out, rfl, hl, fun i _ => rfl⟩
  | cons p t ih =>
    intro out hkd hki hl
    obtain ⟨key, r⟩ := p
    unfold KeysDistinct at hkd; rw [List.pairwise_cons] at hkd
    have hk := hki (key, r) List.mem_cons_self
    simp only at hk
    have hneg : ¬ key < 0 := by omega
    have hguard : ((decide (key < 0) || decide ((size : Int) ≤ key)) = true) = False := by simp; omega
    obtain ⟨out', h1, h2, h3⟩ := ih (out.set key.toNat (cellVec h r)) hkd.2
      (fun q hq => hki q (List.mem_cons_of_mem _ hq)) (by simp [hl])
    refine ⟨out', ?_, h2, ?_⟩
    · unfold sparseArray; simp only [if_neg hneg, hguard, if_false]; exact h1
    · intro i hi
      rw [h3 i hi, lookup_cons_eq]
      by_cases hik : (i : Int) = key
      · rw [if_pos hik]
        have : t.lookup (i : Int) = none := by
          apply lookup_none_of_not_key
          intro q hq; rw [hik]; exact hkd.1 q hq
        rw [this]; simp only
        have hlt : key.toNat < out.length := by omega
        have : key.toNat = i := by omega
        rw [← this]
        simp [List.getD_eq_getElem?_getD, List.getElem?_set_self hlt]
      · rw [if_neg hik]
        cases hlk : t.lookup (i : Int) with
        | some r' => rfl
        | none =>
          simp only
          have hne : key.toNat ≠ i := by omega
          simp [List.getD_eq_getElem?_getD, List.getElem?_set_ne hne]

theorem asArray_spec {s : State} {a : Attr} (hok : StoreOk s.heap s.size a) (hki : KeysIn (keysOf a) s.size) :
    ∃ rows, asArray s a = .ok rows ∧ rows.length = s.size ∧
      ∀ i : Nat, i < s.size → rows.getD i [] = lookupVal s.heap a (i : Int) := by
  cases hst : a.store with
  | sparse data =>
    unfold StoreOk at hok; rw [hst] at hok; simp only at hok
    unfold keysOf at hki; rw [hst] at hki; simp only at hki
    obtain ⟨out', h1, h2, h3⟩ := sparseArray_spec s.heap s.size a.dfltRow data (List.replicate s.size a.dfltRow)
      hok.1 hki (by simp)
    refine ⟨out', by unfold asArray; rw [hst]; exact h1, h2, ?_⟩
    intro i hi
    rw [h3 i hi]; unfold lookupVal; rw [hst]; simp only
    cases data.lookup (i : Int) with
    | some r => rfl
    | none => simp [List.getD_eq_getElem?_getD, List.getElem?_replicate, hi]
  | dense n arr =>
    unfold StoreOk at hok; rw [hst] at hok; simp only at hok
    obtain ⟨hn, rows, hrows, hlen⟩ := hok
    have h2 : cellMat s.heap arr = rows := by unfold cellMat; rw [hrows]
    refine ⟨rows, by unfold asArray; rw [hst]; simp only [h2], hlen, ?_⟩
    intro i hi; unfold lookupVal; rw [hst]; simp only [h2, Int.toNat_natCast]

end Mouette.Attr
