import Mathlib.Algebra.BigOperators.Group.Finset.Basic
import Mathlib.Data.Nat.Choose.Sum
import Mathlib.Tactic.Ring
import Mathlib.Tactic.Linarith
import Mathlib.Tactic.Positivity
import Mouette.Model.Bezier
/-
Helper lemmas for C19 (Bézier): the Bernstein form (with `Nat.choose`), the shrinking de Casteljau step,
the in-place loop of the code, index arithmetic of the exports.
-/
namespace Mouette.Lemmas.C19
open Mouette.Bezier Finset

/-- Bernstein basis polynomial `C(n,i) t^i (1-t)^(n-i)` -/
def bernstein (n i : Nat) (t : Rat) : Rat := (n.choose i : Rat) * t ^ i * (1 - t) ^ (n - i)

/-- Bernstein form of a control list of degree `n` (`n+1` control values) -/
def bernsteinSum (n : Nat) (t : Rat) (P : List Rat) : Rat :=
  ∑ i ∈ range (n + 1), bernstein n i t * P.getD i 0

theorem headD_eq_getD (P : List Rat) : P.headD 0 = P.getD 0 0 := by cases P <;> simp

theorem step_length (t : Rat) : ∀ P : List Rat, (step t P).length = P.length - 1 := by
  intro P
  induction P with
  | nil => simp [step]
  | cons a P ih =>
    cases P with
    | nil => simp [step]
    | cons b r => simp only [step, List.length_cons] at ih ⊢; omega

theorem step_getD (t : Rat) : ∀ (P : List Rat) (i : Nat), i + 1 < P.length →
    (step t P).getD i 0 = lerp t (P.getD i 0) (P.getD (i + 1) 0) := by
  intro P
  induction P with
  | nil => intro i h; simp at h
  | cons a P ih =>
    intro i h
    cases P with
    | nil => simp at h
    | cons b r =>
      cases i with
      | zero => simp [step]
      | succ i =>
        have h' : i + 1 < (b :: r).length := by simpa using h
        have := ih i h'
        simp only [step, List.getD_cons_succ] at this ⊢
        exact this

/-- Pascal's rule lifted to the Bernstein form: one de Casteljau step lowers the degree. -/
theorem bernsteinSum_step (t : Rat) (n : Nat) (P : List Rat) (hP : P.length = n + 2) :
    bernsteinSum (n + 1) t P = bernsteinSum n t (step t P) := by
  unfold bernsteinSum
  -- right-hand side: expand the step
  have hR : ∀ i ∈ range (n + 1), bernstein n i t * (step t P).getD i 0
      = (n.choose i : Rat) * t ^ i * (1 - t) ^ (n + 1 - i) * P.getD i 0
        + (n.choose i : Rat) * t ^ (i + 1) * (1 - t) ^ (n - i) * P.getD (i + 1) 0 := by
    intro i hi
    have hi' : i < n + 1 := mem_range.mp hi
    rw [step_getD t P i (by omega)]
    have e : n + 1 - i = (n - i) + 1 := by omega
    unfold bernstein lerp
    rw [e]; ring
  rw [sum_congr rfl hR, sum_add_distrib]
  -- left-hand side: peel the first term and use Pascal
  rw [sum_range_succ' (fun i => bernstein (n + 1) i t * P.getD i 0) (n + 1)]
  have hL : ∀ i ∈ range (n + 1), bernstein (n + 1) (i + 1) t * P.getD (i + 1) 0
      = (n.choose i : Rat) * t ^ (i + 1) * (1 - t) ^ (n - i) * P.getD (i + 1) 0
        + (n.choose (i + 1) : Rat) * t ^ (i + 1) * (1 - t) ^ (n + 1 - (i + 1)) * P.getD (i + 1) 0 := by
    intro i _
    unfold bernstein
    rw [Nat.choose_succ_succ]
    have e : n + 1 - (i + 1) = n - i := by omega
    rw [e]; push_cast; ring
  rw [sum_congr rfl hL, sum_add_distrib]
  -- the second part plus the peeled term is the full sum with `choose n`
  have hS : ∑ i ∈ range (n + 1), (n.choose (i + 1) : Rat) * t ^ (i + 1) * (1 - t) ^ (n + 1 - (i + 1)) * P.getD (i + 1) 0
        + bernstein (n + 1) 0 t * P.getD 0 0
      = ∑ i ∈ range (n + 1), (n.choose i : Rat) * t ^ i * (1 - t) ^ (n + 1 - i) * P.getD i 0 := by
    have h1 := sum_range_succ' (fun i => (n.choose i : Rat) * t ^ i * (1 - t) ^ (n + 1 - i) * P.getD i 0) (n + 1)
    have h2 := sum_range_succ (fun i => (n.choose i : Rat) * t ^ i * (1 - t) ^ (n + 1 - i) * P.getD i 0) (n + 1)
    rw [h1] at h2
    have hz : (n.choose (n + 1) : Rat) = 0 := by
      rw [Nat.choose_eq_zero_of_lt (Nat.lt_succ_self n)]; simp
    simp only [hz, zero_mul, add_zero] at h2
    rw [← h2]
    unfold bernstein
    simp
  linarith [hS]

theorem deC_eq_bernsteinSum (t : Rat) : ∀ (n : Nat) (P : List Rat), P.length = n + 1 →
    deC t n P = bernsteinSum n t P := by
  intro n
  induction n with
  | zero =>
    intro P hP
    match P, hP with
    | [x], _ => simp [deC, bernsteinSum, bernstein]
  | succ n ih =>
    intro P hP
    rw [deC, ih (step t P) (by rw [step_length, hP]; rfl), ← bernsteinSum_step t n P hP]

theorem pass_zero (t : Rat) (l : List Rat) : pass t 0 l = l := by
  cases l with
  | nil => simp [pass]
  | cons a l => cases l <;> simp [pass]

/-- one in-place pass over a prefix `a` of length `n+1` = shrinking step on `a`, plus one stale entry -/
theorem pass_append (t : Rat) : ∀ (n : Nat) (a s : List Rat), a.length = n + 1 →
    ∃ x, pass t n (a ++ s) = step t a ++ x :: s := by
  intro n
  induction n with
  | zero =>
    intro a s h
    match a, h with
    | [x], _ => exact ⟨x, by simp [pass_zero, step]⟩
  | succ n ih =>
    intro a s h
    match a, h with
    | x :: y :: r, h =>
      have h' : (y :: r).length = n + 1 := by simpa using h
      obtain ⟨z, hz⟩ := ih (y :: r) s h'
      refine ⟨z, ?_⟩
      simp only [List.cons_append, pass, step] at hz ⊢
      rw [hz]

theorem loop_append (t : Rat) : ∀ (k : Nat) (a s : List Rat), a.length = k + 1 →
    (loop t k (a ++ s)).headD 0 = deC t k a := by
  intro k
  induction k with
  | zero =>
    intro a s h
    match a, h with
    | [x], _ => simp [loop, deC]
  | succ k ih =>
    intro a s h
    obtain ⟨x, hx⟩ := pass_append t (k + 1) a s h
    rw [loop, hx, ih (step t a) (x :: s) (by rw [step_length, h]; rfl), deC]

theorem deCasteljau_eq_deC' (t : Rat) (P : List Rat) : deCasteljau t P = deC t (P.length - 1) P := by
  cases P with
  | nil => simp [deCasteljau, loop, deC]
  | cons a P =>
    have := loop_append t P.length (a :: P) [] (by simp)
    simpa [deCasteljau] using this

theorem bernsteinSum_nil (t : Rat) : bernsteinSum 0 t [] = 0 := by
  simp [bernsteinSum]

theorem deCasteljau_eq_bernsteinSum (t : Rat) (P : List Rat) :
    deCasteljau t P = bernsteinSum (P.length - 1) t P := by
  cases P with
  | nil => simp [deCasteljau, loop, bernsteinSum]
  | cons a P =>
    rw [deCasteljau_eq_deC']
    exact deC_eq_bernsteinSum t _ _ (by simp)

theorem deC_zero : ∀ (n : Nat) (P : List Rat), P.length = n + 1 → deC 0 n P = P.getD 0 0 := by
  intro n
  induction n with
  | zero => intro P hP; match P, hP with
    | [x], _ => simp [deC]
  | succ n ih =>
    intro P hP
    rw [deC, ih (step 0 P) (by rw [step_length, hP]; rfl), step_getD 0 P 0 (by omega)]
    unfold lerp; ring

theorem deC_one : ∀ (n : Nat) (P : List Rat), P.length = n + 1 → deC 1 n P = P.getD n 0 := by
  intro n
  induction n with
  | zero => intro P hP; match P, hP with
    | [x], _ => simp [deC]
  | succ n ih =>
    intro P hP
    rw [deC, ih (step 1 P) (by rw [step_length, hP]; rfl), step_getD 1 P n (by omega)]
    unfold lerp; ring

theorem bernstein_nonneg' (n i : Nat) {t : Rat} (h0 : 0 ≤ t) (h1 : t ≤ 1) : 0 ≤ bernstein n i t := by
  unfold bernstein
  have : 0 ≤ 1 - t := by linarith
  positivity

theorem bernstein_sum_one' (n : Nat) (t : Rat) : ∑ i ∈ range (n + 1), bernstein n i t = 1 := by
  have h := add_pow t (1 - t) n
  have e : t + (1 - t) = 1 := by ring
  rw [e, one_pow] at h
  rw [h]
  apply sum_congr rfl
  intro i _
  unfold bernstein; ring

theorem getD_map_default (f : List Rat → Rat) (hf : f [] = 0) (rows : List (List Rat)) (i : Nat) :
    (rows.map f).getD i 0 = f (rows.getD i []) := by
  simp only [List.getD_eq_getElem?_getD, List.getElem?_map]
  cases rows[i]? with
  | none => simp [hf]
  | some r => simp

theorem deCasteljau_between' (t lo hi : Rat) (P : List Rat) (h0 : 0 ≤ t) (h1 : t ≤ 1) (hne : P ≠ [])
    (hP : ∀ x ∈ P, lo ≤ x ∧ x ≤ hi) : lo ≤ deCasteljau t P ∧ deCasteljau t P ≤ hi := by
  rw [deCasteljau_eq_bernsteinSum]
  unfold bernsteinSum
  have hlen : 0 < P.length := List.length_pos_iff.mpr hne
  have hmem : ∀ i ∈ range (P.length - 1 + 1), lo ≤ P.getD i 0 ∧ P.getD i 0 ≤ hi := by
    intro i hi'
    have : i < P.length := by have := mem_range.mp hi'; omega
    rw [List.getD_eq_getElem?_getD, List.getElem?_eq_getElem this]
    exact hP _ (List.getElem_mem this)
  have hsum := bernstein_sum_one' (P.length - 1) t
  constructor
  · calc lo = (∑ i ∈ range (P.length - 1 + 1), bernstein (P.length - 1) i t) * lo := by rw [hsum, one_mul]
      _ = ∑ i ∈ range (P.length - 1 + 1), bernstein (P.length - 1) i t * lo := by rw [sum_mul]
      _ ≤ _ := sum_le_sum (fun i hi' => mul_le_mul_of_nonneg_left (hmem i hi').1 (bernstein_nonneg' _ _ h0 h1))
  · calc _ ≤ ∑ i ∈ range (P.length - 1 + 1), bernstein (P.length - 1) i t * hi :=
          sum_le_sum (fun i hi' => mul_le_mul_of_nonneg_left (hmem i hi').2 (bernstein_nonneg' _ _ h0 h1))
      _ = (∑ i ∈ range (P.length - 1 + 1), bernstein (P.length - 1) i t) * hi := by rw [sum_mul]
      _ = hi := by rw [hsum, one_mul]

theorem deCasteljau_nil (t : Rat) : deCasteljau t [] = 0 := by simp [deCasteljau, loop]

/-! ### indices -/

theorem quad_lt {n1 n2 i j : Nat} (hi : i < n1 - 1) (hj : j < n2 - 1) : ∀ k ∈ quad n2 i j, k < n1 * n2 := by
  intro k hk
  have h2 : (i + 2) * n2 ≤ n1 * n2 := Nat.mul_le_mul_right n2 (by omega)
  have e2 : (i + 2) * n2 = i * n2 + 2 * n2 := by ring
  have e1 : (i + 1) * n2 = i * n2 + n2 := by ring
  simp only [quad, vertexIndex, List.mem_cons, List.mem_nil_iff, or_false] at hk
  rcases hk with rfl | rfl | rfl | rfl <;> omega

theorem vertexIndex_inj {n2 i j i' j' : Nat} (hj : j < n2) (hj' : j' < n2)
    (h : vertexIndex n2 i j = vertexIndex n2 i' j') : i = i' ∧ j = j' := by
  unfold vertexIndex at h
  have hpos : 0 < n2 := by omega
  have d1 : (i * n2 + j) / n2 = i := by
    rw [Nat.mul_comm, Nat.mul_add_div hpos, Nat.div_eq_of_lt hj]; rfl
  have d2 : (i' * n2 + j') / n2 = i' := by
    rw [Nat.mul_comm, Nat.mul_add_div hpos, Nat.div_eq_of_lt hj']; rfl
  have hi : i = i' := by rw [← d1, ← d2, h]
  subst hi
  exact ⟨rfl, by omega⟩

theorem gridPairs_succ (n1 n2 : Nat) :
    gridPairs (n1 + 1) n2 = gridPairs n1 n2 ++ (List.range n2).map (fun j => (n1, j)) := by
  simp [gridPairs, List.range_succ, List.flatMap_append]

theorem gridPairs_length (n1 n2 : Nat) : (gridPairs n1 n2).length = n1 * n2 := by
  induction n1 with
  | zero => simp [gridPairs]
  | succ n ih => rw [gridPairs_succ, List.length_append, ih, List.length_map, List.length_range]; ring

theorem gridPairs_getElem? (n1 n2 i j : Nat) (hi : i < n1) (hj : j < n2) :
    (gridPairs n1 n2)[vertexIndex n2 i j]? = some (i, j) := by
  unfold vertexIndex
  induction n1 with
  | zero => omega
  | succ n ih =>
    rw [gridPairs_succ]
    by_cases h : i < n
    · have hlt : i * n2 + j < (gridPairs n n2).length := by
        rw [gridPairs_length]
        have h2 : (i + 1) * n2 ≤ n * n2 := Nat.mul_le_mul_right n2 (by omega)
        have e1 : (i + 1) * n2 = i * n2 + n2 := by ring
        omega
      rw [List.getElem?_append_left hlt]
      exact ih h
    · have hin : i = n := by omega
      subst hin
      rw [List.getElem?_append_right (by rw [gridPairs_length]; omega), gridPairs_length]
      have : i * n2 + j - i * n2 = j := by omega
      rw [this]
      simp [hj]

end Mouette.Lemmas.C19
