import Mathlib.Analysis.SpecialFunctions.Complex.Arg
import Mathlib.Algebra.Order.Floor.Ring
/-
Noncomputable SPECIFICATIONS over ℝ of the angle primitives (`math.atan2`, float `%`, `cmath.rect/polar`):
what `maths.principal_angle`, `maths.angle_diff`, `geometry.angle_3pts`, `geometry.cotan`, `maths.roots` compute in
exact real arithmetic.  They are tied to the code only by the numerical oracle (tolerance 1e-9), never evaluated.
-/
namespace Mouette.Angles
open Real

noncomputable section

/-- Python's `a % m` for `m > 0`, over the reals -/
def pmod (a m : ℝ) : ℝ := a - m * ⌊a / m⌋

theorem pmod_range (a m : ℝ) (hm : 0 < m) : 0 ≤ pmod a m ∧ pmod a m < m := by
  unfold pmod
  have h1 := Int.floor_le (a / m)
  have h2 := Int.lt_floor_add_one (a / m)
  have e : a = m * (a / m) := by field_simp
  constructor
  · nlinarith
  · nlinarith

/-- `maths.principal_angle`: `b = a % (2π); if b > π: b -= 2π` -/
def principalAngle (a : ℝ) : ℝ := if pmod a (2 * π) > π then pmod a (2 * π) - 2 * π else pmod a (2 * π)

/-- `maths.angle_diff`: `(a - b + π) % (2π) - π` -/
def angleDiff (a b : ℝ) : ℝ := pmod (a - b + π) (2 * π) - π

/-- `math.atan2(s, c)` -/
def atan2 (s c : ℝ) : ℝ := Complex.arg (⟨c, s⟩ : ℂ)

/-- `cmath.rect(1, θ)` -/
def rect1 (θ : ℝ) : ℂ := Complex.exp ((θ : ℂ) * Complex.I)

end
end Mouette.Angles
