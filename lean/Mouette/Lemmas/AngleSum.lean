import Mouette.Model.Geom
import Mouette.Lemmas.GeomLemmas
import Mathlib.Geometry.Euclidean.Triangle
import Mathlib.Analysis.InnerProductSpace.PiL2
import Mathlib.Analysis.SpecialFunctions.Complex.Arg
/-
C07, real-analysis part: the code's corner angle `atan2(‖BA×BC‖, BA·BC)` — i.e. `atan2(√cross², dot)` of the model's exact
`(cross², dot)` pair — IS the Euclidean angle at `B`, and the three corner angles of a non-degenerate triangle sum to π.
Noncomputable specifications over ℝ (`math.atan2(s,c)` := `Complex.arg (c + s i)`); never evaluated.
-/
namespace Mouette.GeomR
open Mouette.Geom

noncomputable section

/-- `math.atan2(s, c)` over the reals -/
def atan2 (s c : ℝ) : ℝ := Complex.arg (⟨c, s⟩ : ℂ)

/-- `geometry.angle_3pts` evaluated in exact real arithmetic on the model's `(cross², dot)` pair -/
def angleOfCS (cs : Rat × Rat) : ℝ := atan2 (Real.sqrt (cs.1 : ℝ)) (cs.2 : ℝ)

/-- the corner angle at `b` of the rational points `a b c` as the code computes it -/
def codeAngle (a b c : V3) : ℝ := angleOfCS (cornerCS a b c)

abbrev E3 := EuclideanSpace ℝ (Fin 3)

/-- a rational point as a point of Euclidean 3-space -/
def toE (p : V3) : E3 := !₂[(p.x : ℝ), (p.y : ℝ), (p.z : ℝ)]

theorem inner_toE (u v : V3) : inner ℝ (toE u) (toE v) = ((dot u v : Rat) : ℝ) := by
  simp [toE, EuclideanSpace.inner_eq_star_dotProduct, dotProduct, Fin.sum_univ_three, dot]
  ring

theorem toE_sub (u v : V3) : toE u - toE v = toE (sub u v) := by
  ext i; fin_cases i <;> simp [toE, sub]

theorem toE_injective (u v : V3) (h : toE u = toE v) : u = v := by
  have h0 := congrArg (fun w : E3 => w 0) h
  have h1 := congrArg (fun w : E3 => w 1) h
  have h2 := congrArg (fun w : E3 => w 2) h
  simp [toE] at h0 h1 h2
  exact V3.ext (by exact_mod_cast h0) (by exact_mod_cast h1) (by exact_mod_cast h2)

/-- Lagrange identity, cast to ℝ: `cross² = |u|²|v|² − (u·v)²` -/
theorem cross2_real (u v : V3) :
    ((norm2 (cross u v) : Rat) : ℝ) = inner ℝ (toE u) (toE u) * inner ℝ (toE v) (toE v)
      - inner ℝ (toE u) (toE v) * inner ℝ (toE u) (toE v) := by
  rw [inner_toE, inner_toE, inner_toE]
  have : norm2 (cross u v) = dot u u * dot v v - dot u v * dot u v := by
    simp only [norm2, dot, cross]; ring
  rw [this]; push_cast; ring

/-- general bridge: for non-zero vectors of a real inner product space,
`atan2(√(|x|²|y|² − ⟨x,y⟩²), ⟨x,y⟩)` is the unoriented angle between them -/
theorem atan2_eq_angle {V : Type*} [NormedAddCommGroup V] [InnerProductSpace ℝ V] (x y : V) (hx : x ≠ 0) (hy : y ≠ 0) :
    atan2 (Real.sqrt (inner ℝ x x * inner ℝ y y - inner ℝ x y * inner ℝ x y)) (inner ℝ x y)
      = InnerProductGeometry.angle x y := by
  have hr : 0 < ‖x‖ * ‖y‖ := mul_pos (norm_pos_iff.mpr hx) (norm_pos_iff.mpr hy)
  have hc := InnerProductGeometry.cos_angle_mul_norm_mul_norm x y
  have hs := InnerProductGeometry.sin_angle_mul_norm_mul_norm x y
  have hmem : InnerProductGeometry.angle x y ∈ Set.Ioc (-Real.pi) Real.pi :=
    ⟨lt_of_lt_of_le (neg_lt_zero.mpr Real.pi_pos) (InnerProductGeometry.angle_nonneg x y),
      InnerProductGeometry.angle_le_pi x y⟩
  have key := Complex.arg_mul_cos_add_sin_mul_I hr hmem
  unfold atan2
  rw [← key]
  congr 1
  apply Complex.ext
  · show inner ℝ x y = _
    rw [← hc]
    simp [Complex.cos_ofReal_re, Complex.sin_ofReal_re, Complex.cos_ofReal_im, Complex.sin_ofReal_im]
    ring
  · show Real.sqrt (inner ℝ x x * inner ℝ y y - inner ℝ x y * inner ℝ x y) = _
    rw [← hs]
    simp [Complex.cos_ofReal_re, Complex.sin_ofReal_re, Complex.cos_ofReal_im, Complex.sin_ofReal_im]
    ring

/-- THE BRIDGE: the code's formula on the model's exact pair equals the Euclidean angle `∠ a b c` -/
theorem codeAngle_eq_angle (a b c : V3) (hab : a ≠ b) (hcb : c ≠ b) :
    codeAngle a b c = EuclideanGeometry.angle (toE a) (toE b) (toE c) := by
  unfold codeAngle angleOfCS cornerCS EuclideanGeometry.angle
  simp only [vsub_eq_sub, toE_sub]
  have hx : toE (sub a b) ≠ 0 := by
    intro h; apply hab
    have : toE a = toE b := by rw [← sub_eq_zero, toE_sub]; exact h
    exact toE_injective a b this
  have hy : toE (sub c b) ≠ 0 := by
    intro h; apply hcb
    have : toE c = toE b := by rw [← sub_eq_zero, toE_sub]; exact h
    exact toE_injective c b this
  rw [← atan2_eq_angle _ _ hx hy, cross2_real, inner_toE (sub a b) (sub c b)]

/-- **angle_sum_pi**: the three corner angles the code computes for a triangle with pairwise distinct vertices sum to π
(order of `corner_angles`: corner 0 = `(c,a,b)`, corner 1 = `(a,b,c)`, corner 2 = `(b,c,a)`) -/
theorem angle_sum_pi (a b c : V3) (hab : a ≠ b) (hbc : b ≠ c) (hca : c ≠ a) :
    codeAngle c a b + codeAngle a b c + codeAngle b c a = Real.pi := by
  rw [codeAngle_eq_angle c a b hca (Ne.symm hab), codeAngle_eq_angle a b c hab (Ne.symm hbc),
    codeAngle_eq_angle b c a hbc (Ne.symm hca)]
  have h := EuclideanGeometry.angle_add_angle_add_angle_eq_pi (p₁ := toE c) (p₂ := toE a) (toE b)
    (fun h => hca (toE_injective _ _ h).symm)
  linarith [h]

end

end Mouette.GeomR
