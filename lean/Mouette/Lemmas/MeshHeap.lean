import Mouette.Model.MeshHeap
/-
Helper lemmas for C06 (core Lean only): allocation, well-formedness, alias freedom, rebinding and in-place loops.
-/
namespace Mouette.MeshHeap
set_option linter.unusedSimpArgs false
set_option linter.unusedVariables false

/-- every reference of every mesh points into the heap -/
def WF (s : State) : Prop := ∀ m ∈ s.meshes, ∀ r ∈ m.verts, r < s.heap.length

/-- a reference occurs at most once in the whole state (not twice in one mesh, not in two meshes) -/
def NoShare (ms : List Mesh) : Prop :=
  ∀ (i j : Nat) (mi mj : Mesh) (a b r : Nat), ms[i]? = some mi → ms[j]? = some mj → mi.verts[a]? = some r → mj.verts[b]? = some r → i = j ∧ a = b

def AliasFree (s : State) : Prop := WF s ∧ NoShare s.meshes

theorem deref_append (h vs : Heap) {r : Nat} (hr : r < h.length) : deref (h ++ vs) r = deref h r := by
  unfold deref; simp [List.getD_eq_getElem?_getD, List.getElem?_append_left hr]

theorem coords_append (h vs : Heap) {m : Mesh} (hm : ∀ r ∈ m.verts, r < h.length) : coords (h ++ vs) m = coords h m := by
  unfold coords
  apply List.map_congr_left
  intro r hr; exact deref_append h vs (hm r hr)

theorem deref_new (h vs : Heap) (i : Nat) (hi : i < vs.length) : deref (h ++ vs) (h.length + i) = vs[i] := by
  unfold deref
  simp [List.getD_eq_getElem?_getD, List.getElem?_append_right, hi]

theorem map_deref_range (h vs : Heap) : (List.range' h.length vs.length).map (deref (h ++ vs)) = vs := by
  apply List.ext_getElem
  · simp
  · intro i h1 h2
    simp only [List.getElem_map, List.getElem_range', Nat.one_mul]
    exact deref_new h vs i (by simpa using h2)

theorem mem_range'_iff {n k r : Nat} : r ∈ List.range' n k ↔ n ≤ r ∧ r < n + k := by
  simp [List.mem_range'_1]

theorem range'_getElem? {n k a r : Nat} (h : (List.range' n k)[a]? = some r) : r = n + a ∧ a < k := by
  rw [List.getElem?_eq_some_iff] at h
  obtain ⟨ha, h⟩ := h
  simp only [List.getElem_range', Nat.one_mul] at h
  simp at ha
  exact ⟨h.symm, ha⟩

theorem mem_of_getElem? {α} {l : List α} {a : Nat} {x : α} (h : l[a]? = some x) : x ∈ l := by
  rw [List.getElem?_eq_some_iff] at h
  obtain ⟨ha, h⟩ := h
  rw [← h]; exact List.getElem_mem ha

/-! ### newMesh: the common core of `new`, `copy`, `merge` -/

theorem newMesh_spec (s : State) (vs : List V3) (e f c : List (List Nat)) (hwf : WF s) :
    ∃ m', (newMesh s vs e f c).meshes = s.meshes ++ [m'] ∧ m'.edges = e ∧ m'.faces = f ∧ m'.cells = c ∧
      coords (newMesh s vs e f c).heap m' = vs ∧
      m'.verts = List.range' s.heap.length vs.length ∧
      (newMesh s vs e f c).heap = s.heap ++ vs ∧
      (∀ m0 ∈ s.meshes, coords (newMesh s vs e f c).heap m0 = coords s.heap m0) := by
  refine ⟨{ verts := List.range' s.heap.length vs.length, edges := e, faces := f, cells := c }, rfl, rfl, rfl, rfl, ?_, rfl, rfl, ?_⟩
  · simp only [newMesh, alloc, coords]; exact map_deref_range s.heap vs
  · intro m0 hm0; simp only [newMesh, alloc]; exact coords_append _ _ (hwf m0 hm0)

theorem wf_newMesh (s : State) (vs : List V3) (e f c : List (List Nat)) (hwf : WF s) : WF (newMesh s vs e f c) := by
  intro m hm r hr
  simp only [newMesh, alloc] at hm ⊢
  rw [List.length_append]
  rcases List.mem_append.mp hm with hm | hm
  · have := hwf m hm r hr; omega
  · simp only [List.mem_singleton] at hm; rw [hm] at hr; simp only at hr
    have := mem_range'_iff.mp hr; omega

theorem noShare_append (s : State) (n : Nat) (e f c : List (List Nat)) (hwf : WF s) (hns : NoShare s.meshes) :
    NoShare (s.meshes ++ [{ verts := List.range' s.heap.length n, edges := e, faces := f, cells := c }]) := by
  intro i j mi mj a b r hi hj ha hb
  have key : ∀ (i : Nat) (mi : Mesh) (a : Nat), (s.meshes ++ [({ verts := List.range' s.heap.length n, edges := e, faces := f, cells := c } : Mesh)])[i]? = some mi →
      mi.verts[a]? = some r →
      (i < s.meshes.length ∧ s.meshes[i]? = some mi ∧ r < s.heap.length) ∨
      (i = s.meshes.length ∧ r = s.heap.length + a) := by
    intro i mi a hi ha
    by_cases hlt : i < s.meshes.length
    · rw [List.getElem?_append_left hlt] at hi
      exact Or.inl ⟨hlt, hi, hwf mi (mem_of_getElem? hi) r (mem_of_getElem? ha)⟩
    · have hge : s.meshes.length ≤ i := by omega
      rw [List.getElem?_append_right hge] at hi
      have : i - s.meshes.length = 0 := by
        rcases Nat.eq_zero_or_pos (i - s.meshes.length) with h | h
        · exact h
        · rw [List.getElem?_eq_none (by simp; omega)] at hi; cases hi
      rw [this] at hi; simp only [List.getElem?_cons_zero, Option.some.injEq] at hi
      rw [← hi] at ha; simp only at ha
      exact Or.inr ⟨by omega, (range'_getElem? ha).1⟩
  rcases key i mi a hi ha with ⟨h1, h2, h3⟩ | ⟨h1, h2⟩ <;> rcases key j mj b hj hb with ⟨g1, g2, g3⟩ | ⟨g1, g2⟩
  · exact hns i j mi mj a b r h2 g2 ha hb
  · omega
  · omega
  · exact ⟨by omega, by omega⟩

theorem aliasFree_newMesh (s : State) (vs : List V3) (e f c : List (List Nat)) (haf : AliasFree s) :
    AliasFree (newMesh s vs e f c) :=
  ⟨wf_newMesh s vs e f c haf.1, by simp only [newMesh, alloc]; exact noShare_append s vs.length e f c haf.1 haf.2⟩

/-! ### rebinding loops -/

theorem mapRebind_spec (f : V3 → V3) (s : State) (i : Nat) (m : Mesh) (hm : s.meshes[i]? = some m) (hwf : WF s) :
    (mapRebind f s i).meshes.length = s.meshes.length ∧
    (∃ m', (mapRebind f s i).meshes[i]? = some m' ∧ coords (mapRebind f s i).heap m' = (coords s.heap m).map f ∧
        m'.edges = m.edges ∧ m'.faces = m.faces ∧ m'.cells = m.cells ∧
        m'.verts = List.range' s.heap.length m.verts.length) ∧
    (∀ j mj, j ≠ i → s.meshes[j]? = some mj →
        (mapRebind f s i).meshes[j]? = some mj ∧ coords (mapRebind f s i).heap mj = coords s.heap mj) := by
  have hi : i < s.meshes.length := by
    rw [List.getElem?_eq_some_iff] at hm; exact hm.1
  simp only [mapRebind, hm, alloc]
  refine ⟨by simp, ⟨{ m with verts := List.range' s.heap.length ((coords s.heap m).map f).length },
    by rw [List.getElem?_set_self hi], ?_, rfl, rfl, rfl, by simp [coords]⟩, ?_⟩
  · exact map_deref_range s.heap ((coords s.heap m).map f)
  · intro j mj hji hj
    refine ⟨by rw [List.getElem?_set_ne (fun e => hji e.symm)]; exact hj, ?_⟩
    exact coords_append _ _ (hwf mj (mem_of_getElem? hj))

theorem wf_mapRebind (f : V3 → V3) (s : State) (i : Nat) (hwf : WF s) : WF (mapRebind f s i) := by
  cases hm : s.meshes[i]? with
  | none => simp only [mapRebind, hm]; exact hwf
  | some m =>
    simp only [mapRebind, hm, alloc]
    intro m0 hm0 r hr
    simp only at hm0 ⊢
    rw [List.length_append]
    rcases List.mem_or_eq_of_mem_set hm0 with h | h
    · have := hwf m0 h r hr; omega
    · rw [h] at hr; simp only at hr
      have := mem_range'_iff.mp hr
      simp only [coords, List.length_map] at this ⊢; omega

theorem noShare_set (s : State) (i : Nat) (m : Mesh) (n : Nat) (hm : s.meshes[i]? = some m) (hwf : WF s) (hns : NoShare s.meshes) :
    NoShare (s.meshes.set i { m with verts := List.range' s.heap.length n }) := by
  have hi : i < s.meshes.length := by
    rw [List.getElem?_eq_some_iff] at hm; exact hm.1
  intro i1 j1 mi mj a b r h1 h2 ha hb
  have key : ∀ (i1 : Nat) (mi : Mesh) (a : Nat), (s.meshes.set i { m with verts := List.range' s.heap.length n })[i1]? = some mi →
      mi.verts[a]? = some r →
      (i1 ≠ i ∧ s.meshes[i1]? = some mi ∧ r < s.heap.length) ∨ (i1 = i ∧ r = s.heap.length + a) := by
    intro i1 mi a h1 ha
    by_cases he : i1 = i
    · rw [he, List.getElem?_set_self hi] at h1
      simp only [Option.some.injEq] at h1
      rw [← h1] at ha; simp only at ha
      exact Or.inr ⟨he, (range'_getElem? ha).1⟩
    · rw [List.getElem?_set_ne (fun e => he e.symm)] at h1
      exact Or.inl ⟨he, h1, hwf mi (mem_of_getElem? h1) r (mem_of_getElem? ha)⟩
  rcases key i1 mi a h1 ha with ⟨p1, p2, p3⟩ | ⟨p1, p2⟩ <;> rcases key j1 mj b h2 hb with ⟨q1, q2, q3⟩ | ⟨q1, q2⟩
  · exact hns i1 j1 mi mj a b r p2 q2 ha hb
  · omega
  · omega
  · exact ⟨by omega, by omega⟩

theorem aliasFree_mapRebind (f : V3 → V3) (s : State) (i : Nat) (haf : AliasFree s) : AliasFree (mapRebind f s i) := by
  refine ⟨wf_mapRebind f s i haf.1, ?_⟩
  cases hm : s.meshes[i]? with
  | none => simp only [mapRebind, hm]; exact haf.2
  | some m =>
    simp only [mapRebind, hm, alloc]
    exact noShare_set s i m _ hm haf.1 haf.2

/-! ### in-place loops -/

theorem foldl_set_length (f : V3 → V3) (l : List Nat) (h : Heap) :
    (l.foldl (fun h r => h.set r (f (deref h r))) h).length = h.length := by
  induction l generalizing h with
  | nil => rfl
  | cons r t ih => simp only [List.foldl_cons]; rw [ih]; simp

theorem foldl_set_notin (f : V3 → V3) (l : List Nat) (h : Heap) (r : Nat) (hr : r ∉ l) :
    deref (l.foldl (fun h r => h.set r (f (deref h r))) h) r = deref h r := by
  induction l generalizing h with
  | nil => rfl
  | cons r0 t ih =>
    simp only [List.foldl_cons]
    have h1 : r ≠ r0 := fun e => hr (by rw [e]; exact List.mem_cons_self)
    have h2 : r ∉ t := fun e => hr (List.mem_cons_of_mem _ e)
    rw [ih _ h2]
    unfold deref
    simp [List.getD_eq_getElem?_getD, List.getElem?_set_ne (fun e => h1 e.symm)]

theorem foldl_set_in (f : V3 → V3) (l : List Nat) (h : Heap) (hnd : l.Nodup) (hlt : ∀ r ∈ l, r < h.length) (r : Nat) (hr : r ∈ l) :
    deref (l.foldl (fun h r => h.set r (f (deref h r))) h) r = f (deref h r) := by
  induction l generalizing h with
  | nil => cases hr
  | cons r0 t ih =>
    simp only [List.foldl_cons]
    rw [List.nodup_cons] at hnd
    rcases List.mem_cons.mp hr with he | hin
    · rw [he, foldl_set_notin f t _ r0 hnd.1]
      have : r0 < h.length := hlt r0 List.mem_cons_self
      unfold deref
      simp [List.getD_eq_getElem?_getD, List.getElem?_set_self this]
    · have hne : r ≠ r0 := fun e => hnd.1 (by rw [← e]; exact hin)
      rw [ih _ hnd.2 (fun x hx => by simp; exact hlt x (List.mem_cons_of_mem _ hx)) hin]
      unfold deref
      simp [List.getD_eq_getElem?_getD, List.getElem?_set_ne (fun e => hne e.symm)]

theorem nodup_of_noShare {ms : List Mesh} {i : Nat} {m : Mesh} (hns : NoShare ms) (hm : ms[i]? = some m) : m.verts.Nodup := by
  rw [List.nodup_iff_pairwise_ne, List.pairwise_iff_getElem]
  intro a b ha hb hab e
  have hb' : m.verts[b]? = some (m.verts[b]) := List.getElem?_eq_getElem hb
  have ha' : m.verts[a]? = some (m.verts[b]) := by rw [← e]; exact List.getElem?_eq_getElem ha
  have := (hns i i m m a b _ hm hm ha' hb').2
  omega

theorem mapInPlace_spec (f : V3 → V3) (s : State) (i : Nat) (m : Mesh) (hm : s.meshes[i]? = some m) (haf : AliasFree s) :
    (mapInPlace f s i).meshes = s.meshes ∧
    coords (mapInPlace f s i).heap m = (coords s.heap m).map f ∧
    (∀ j mj, j ≠ i → s.meshes[j]? = some mj → coords (mapInPlace f s i).heap mj = coords s.heap mj) := by
  simp only [mapInPlace, hm]
  have hnd := nodup_of_noShare haf.2 hm
  have hlt : ∀ r ∈ m.verts, r < s.heap.length := haf.1 m (mem_of_getElem? hm)
  refine ⟨trivial, ?_, ?_⟩
  · simp only [coords, List.map_map]
    apply List.map_congr_left
    intro r hr
    exact foldl_set_in f m.verts s.heap hnd hlt r hr
  · intro j mj hji hj
    simp only [coords]
    apply List.map_congr_left
    intro r hr
    apply foldl_set_notin
    intro hin
    obtain ⟨a, ha⟩ := List.getElem?_of_mem hin
    obtain ⟨b, hb⟩ := List.getElem?_of_mem hr
    exact hji (haf.2 j i mj m b a r hj hm hb ha).1

theorem aliasFree_mapInPlace (f : V3 → V3) (s : State) (i : Nat) (haf : AliasFree s) : AliasFree (mapInPlace f s i) := by
  cases hm : s.meshes[i]? with
  | none => simp only [mapInPlace, hm]; exact haf
  | some m =>
    simp only [mapInPlace, hm]
    refine ⟨?_, haf.2⟩
    intro m0 hm0 r hr
    simp only at hm0 ⊢
    rw [foldl_set_length]; exact haf.1 m0 hm0 r hr

theorem aliasFree_editVertex (s : State) (i v c : Nat) (x : Rat) (haf : AliasFree s) : AliasFree (editVertex s i v c x) := by
  unfold editVertex
  cases hm : s.meshes[i]? with
  | none => exact haf
  | some m =>
    simp only
    cases hv : m.verts[v]? with
    | none => exact haf
    | some r =>
      simp only
      refine ⟨?_, haf.2⟩
      intro m0 hm0 r0 hr0
      simp only [List.length_set]; exact haf.1 m0 hm0 r0 hr0

/-- `mesh.vertices[v][c] = x` under alias freedom: exactly vertex `v` of mesh `i` changes -/
theorem editVertex_spec (s : State) (i v c : Nat) (x : Rat) (m : Mesh) (r : Nat) (hm : s.meshes[i]? = some m)
    (hv : m.verts[v]? = some r) (haf : AliasFree s) :
    (editVertex s i v c x).meshes = s.meshes ∧
    (∀ j mj b rb, s.meshes[j]? = some mj → mj.verts[b]? = some rb → (j ≠ i ∨ b ≠ v) →
        deref (editVertex s i v c x).heap rb = deref s.heap rb) ∧
    deref (editVertex s i v c x).heap r = (deref s.heap r).set c x := by
  simp only [editVertex, hm, hv]
  have hr : r < s.heap.length := haf.1 m (mem_of_getElem? hm) r (mem_of_getElem? hv)
  refine ⟨trivial, ?_, ?_⟩
  · intro j mj b rb hj hb hne
    have : r ≠ rb := by
      intro e; rw [← e] at hb
      have := haf.2 j i mj m b v r hj hm hb hv
      rcases hne with h | h
      · exact h this.1
      · exact h this.2
    unfold deref
    simp [List.getD_eq_getElem?_getD, List.getElem?_set_ne this]
  · unfold deref
    simp [List.getD_eq_getElem?_getD, List.getElem?_set_self hr]

/-! ### merge: the accumulator loop computes the structural specification -/

/-- specification of the element lists of a merge: block `j` is shifted by the vertex count of the blocks before it -/
def shiftedFrom (sel : Mesh → List (List Nat)) : Nat → List Mesh → List (List Nat)
  | _, [] => []
  | off, m :: ms => shift off (sel m) ++ shiftedFrom sel (off + m.verts.length) ms

def totalVerts (ms : List Mesh) : Nat := (ms.map (·.verts.length)).sum

theorem mergeFold_spec {α : Type} (payload : Mesh → List α) (ms : List Mesh) (acc : MergeAcc α) :
    (ms.foldl (mergeStep payload) acc).verts = acc.verts ++ ms.flatMap payload ∧
    (ms.foldl (mergeStep payload) acc).edges = acc.edges ++ shiftedFrom (·.edges) acc.offset ms ∧
    (ms.foldl (mergeStep payload) acc).faces = acc.faces ++ shiftedFrom (·.faces) acc.offset ms ∧
    (ms.foldl (mergeStep payload) acc).cells = acc.cells ++ shiftedFrom (·.cells) acc.offset ms ∧
    (ms.foldl (mergeStep payload) acc).offset = acc.offset + totalVerts ms := by
  induction ms generalizing acc with
  | nil => simp [shiftedFrom, totalVerts]
  | cons m t ih =>
    simp only [List.foldl_cons]
    obtain ⟨h1, h2, h3, h4, h5⟩ := ih (mergeStep payload acc m)
    refine ⟨?_, ?_, ?_, ?_, ?_⟩
    · rw [h1]; simp [mergeStep, List.flatMap_cons]
    · rw [h2]; simp [mergeStep, shiftedFrom]
    · rw [h3]; simp [mergeStep, shiftedFrom]
    · rw [h4]; simp [mergeStep, shiftedFrom]
    · rw [h5]; simp [mergeStep, totalVerts]; omega

theorem mergeLoop_spec {α : Type} (payload : Mesh → List α) (ms : List Mesh) :
    (mergeLoop payload ms).verts = ms.flatMap payload ∧
    (mergeLoop payload ms).edges = shiftedFrom (·.edges) 0 ms ∧
    (mergeLoop payload ms).faces = shiftedFrom (·.faces) 0 ms ∧
    (mergeLoop payload ms).cells = shiftedFrom (·.cells) 0 ms ∧
    (mergeLoop payload ms).offset = totalVerts ms := by
  have := mergeFold_spec payload ms { offset := 0, verts := [], edges := [], faces := [], cells := [] }
  simpa [mergeLoop] using this

/-- every index of block `j` lands inside block `j`'s range of vertex ids -/
theorem shiftedFrom_block (sel : Mesh → List (List Nat)) (ms : List Mesh) (off : Nat)
    (hv : ∀ m ∈ ms, ∀ e ∈ sel m, ∀ u ∈ e, u < m.verts.length) :
    ∀ e ∈ shiftedFrom sel off ms, ∀ u ∈ e, off ≤ u ∧ u < off + totalVerts ms := by
  induction ms generalizing off with
  | nil => intro e he; cases he
  | cons m t ih =>
    intro e he u hu
    simp only [shiftedFrom, List.mem_append] at he
    simp only [totalVerts, List.map_cons, List.sum_cons]
    rcases he with he | he
    · simp only [shift, List.mem_map] at he
      obtain ⟨e0, he0, rfl⟩ := he
      simp only [List.mem_map] at hu
      obtain ⟨u0, hu0, rfl⟩ := hu
      have := hv m List.mem_cons_self e0 he0 u0 hu0
      omega
    · have := ih (off + m.verts.length) (fun m' hm' => hv m' (List.mem_cons_of_mem _ hm')) e he u hu
      simp only [totalVerts] at this
      omega

theorem shiftedFrom_eq_nil (sel : Mesh → List (List Nat)) (ms : List Mesh) (off : Nat) :
    shiftedFrom sel off ms = [] ↔ ∀ m ∈ ms, sel m = [] := by
  induction ms generalizing off with
  | nil => simp [shiftedFrom]
  | cons m t ih =>
    simp only [shiftedFrom, List.append_eq_nil_iff, ih, List.mem_cons, forall_eq_or_imp]
    constructor
    · rintro ⟨h1, h2⟩; exact ⟨by simpa [shift] using h1, h2⟩
    · rintro ⟨h1, h2⟩; exact ⟨by simp [shift, h1], h2⟩

theorem length_flatMap_coords (h : Heap) (ms : List Mesh) : (ms.flatMap (coords h)).length = totalVerts ms := by
  induction ms with
  | nil => rfl
  | cons m t ih => simp [List.flatMap_cons, totalVerts, coords] at ih ⊢

end Mouette.MeshHeap
