import Mouette.Lemmas.SubdivComponents3
import Mouette.Lemmas.SubdivArea2
/-
C13 (round 5): connected components through `triangulate_face` and `triangulate`, on EVERY well-formed polygon mesh
(regular complex or not): two original vertices are connected in the result iff they were connected in the input.
-/
namespace Mouette.Subdiv

/-- the original vertices are still there and are connected in `m'` exactly as they were in `m` -/
def CompPres (m m' : Raw) : Prop :=
  m.verts.length ≤ m'.verts.length ∧ ∀ x y, x < m.verts.length → y < m.verts.length → (Conn m' x y ↔ Conn m x y)

theorem CompPres.refl (m : Raw) : CompPres m m := ⟨Nat.le_refl _, fun _ _ _ _ => Iff.rfl⟩

theorem CompPres.trans {a b c : Raw} (h1 : CompPres a b) (h2 : CompPres b c) : CompPres a c :=
  ⟨Nat.le_trans h1.1 h2.1, fun x y hx hy =>
    (h2.2 x y (Nat.lt_of_lt_of_le hx h1.1) (Nat.lt_of_lt_of_le hy h1.1)).trans (h1.2 x y hx hy)⟩

theorem triFace_components (m m' : Raw) (fid : Nat) (hwf : WF m) (h : triangulateFace m fid = .ok m') : CompPres m m' := by
  have h0 := h
  unfold triangulateFace at h
  cases hf : m.faces[fid]? with
  | none => simp [hf] at h
  | some f =>
    simp only [hf] at h
    rcases f with _ | ⟨a, _ | ⟨b, _ | ⟨c, _ | ⟨d, _ | ⟨e, t⟩⟩⟩⟩⟩
    · simp [pure, Except.pure] at h; subst h; exact CompPres.refl m
    · simp [pure, Except.pure] at h; subst h; exact CompPres.refl m
    · simp [pure, Except.pure] at h; subst h; exact CompPres.refl m
    · simp [pure, Except.pure] at h; subst h; exact CompPres.refl m
    · obtain ⟨hv, _⟩ := quad_split_spec m m' fid a b c d hf h0
      exact ⟨by rw [hv], fun x y _ _ => quad_components m m' fid a b c d hf h0 x y⟩
    · have h1 : ¬ ((a :: b :: c :: d :: e :: t).length < 4) := by simp
      simp only [h1, if_false] at h
      obtain ⟨_, _, _, _, _, _, _, _, hv, _⟩ := fan_spec m m' fid h
      exact ⟨by rw [hv]; simp, (fan_components m m' fid hwf h).1⟩

theorem triangulateFrom_components : ∀ (ids : List Nat) (m m' : Raw), WF m → triangulateFrom m ids = .ok m' → CompPres m m' := by
  intro ids
  induction ids with
  | nil => intro m m' _ h; simp [triangulateFrom, pure, Except.pure] at h; subst h; exact CompPres.refl m
  | cons k ks ih =>
    intro m m' hwf h
    simp only [triangulateFrom] at h
    cases hf : m.faces[k]? with
    | none => simp [hf] at h
    | some face =>
      simp only [hf] at h
      by_cases h3 : face.length ≠ 3
      · simp only [h3, if_true, ne_eq, not_false_eq_true, bind, Except.bind] at h
        cases ht : triangulateFace m k with
        | error e => simp [ht] at h
        | ok m1 =>
          simp only [ht] at h
          have hwf1 : WF m1 := (applyOp_area m m1 (.triFace k) rfl hwf ht).2
          exact (triFace_components m m1 k hwf ht).trans (ih m1 m' hwf1 h)
      · simp only [h3, if_false] at h
        exact ih m m' hwf h

end Mouette.Subdiv
