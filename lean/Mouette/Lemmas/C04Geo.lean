import Mouette.Lemmas.C04Basic
import Mouette.Model.IOGeogram
/-! C04: pointer arithmetic of geogram's facet_ptr / cell_ptr: prefix sums written by the exporter are decoded
back to the same element list by the importer's `ptrSizes` + `buildElems`. -/
namespace Mouette.IO.Geo
open Mouette.IO
variable {α : Type}

theorem prefixSums_length (p : Nat) (fs : List (List Nat)) : (prefixSums p fs).length = fs.length := by
  induction fs generalizing p with
  | nil => rfl
  | cons f t ih => simp [prefixSums, ih]

theorem slice_mid (pre f post : List α) : slice (pre ++ (f ++ post)) pre.length f.length = some f := by
  simp [slice]

/-- slicing the concatenated corner list at the prefix sums gives back the elements -/
theorem slices_prefixSums (pre : List Nat) (fs : List (List Nat)) :
    mapOpt (fun (q : Nat × Nat) => slice (pre ++ fs.flatten) q.2 q.1)
      ((fs.map List.length).zip (prefixSums pre.length fs)) = some fs := by
  induction fs generalizing pre with
  | nil => rfl
  | cons f t ih =>
    have h1 : slice (pre ++ (f :: t).flatten) pre.length f.length = some f := by
      simpa using slice_mid pre f t.flatten
    have h2 := ih (pre ++ f)
    have e : pre ++ (f :: t).flatten = (pre ++ f) ++ t.flatten := by simp
    simp only [List.map_cons, prefixSums, List.zip_cons_cons, mapOpt, h1]
    rw [e]
    have e2 : pre.length + f.length = (pre ++ f).length := by simp
    rw [e2, h2]

theorem buildElems_ptr (fs : List (List Nat)) :
    buildElems fs.flatten fs.length (fs.map List.length, prefixSums 0 fs) = some fs := by
  unfold buildElems
  have hl : ¬ ((fs.map List.length).length < fs.length ∨ (prefixSums 0 fs).length < fs.length) := by
    simp [prefixSums_length]
  simp only [hl, if_false]
  have ht : ((fs.map List.length).zip (prefixSums 0 fs)).take fs.length = (fs.map List.length).zip (prefixSums 0 fs) := by
    apply List.take_of_length_le
    simp [prefixSums_length]
  rw [ht]
  simpa using slices_prefixSums [] fs

/-- length of the last element -/
def lastLen : List (List Nat) → Nat
  | [] => 0
  | [f] => f.length
  | _ :: g :: t => lastLen (g :: t)

theorem lastLen_le (f : List Nat) (t : List (List Nat)) : lastLen (f :: t) ≤ (f :: t).flatten.length := by
  induction t generalizing f with
  | nil => simp [lastLen]
  | cons g t ih => have := ih g; simp only [lastLen, List.flatten_cons, List.length_append] at this ⊢; omega

theorem prefixSums_getLast (p : Nat) (f : List Nat) (t : List (List Nat)) :
    (prefixSums p (f :: t)).getLast? = some (p + (f :: t).flatten.length - lastLen (f :: t)) := by
  induction t generalizing p f with
  | nil => simp [prefixSums, lastLen]
  | cons g t ih =>
    have := ih (p + f.length) g
    simp only [prefixSums] at this ⊢
    rw [List.getLast?_cons_cons, this]
    congr 1
    simp only [lastLen, List.flatten_cons, List.length_append]
    omega

/-- sizes recovered from the pointer list: `data[i+1]-data[i]`, last one from the corner count -/
theorem ptrSizes_prefixSums (p : Nat) (f : List Nat) (t : List (List Nat)) :
    (diffs (prefixSums p (f :: t))).take ((f :: t).length - 1)
      ++ [p + (f :: t).flatten.length - (p + (f :: t).flatten.length - lastLen (f :: t))]
      = (f :: t).map List.length := by
  induction t generalizing p f with
  | nil => simp [prefixSums, diffs, lastLen]
  | cons g t ih =>
    have := ih (p + f.length) g
    have hle := lastLen_le g t
    simp only [prefixSums, diffs, List.length_cons, Nat.add_sub_cancel, List.take_succ_cons, List.map_cons,
      List.cons_append, lastLen, List.flatten_cons, List.length_append] at this hle ⊢
    have e1 : p + f.length - p = f.length := by omega
    rw [e1]
    congr 1
    rw [← this]
    congr 2
    omega

theorem ptrSizes_export (fs : List (List Nat)) (hne : fs ≠ []) :
    ptrSizes fs.length fs.flatten.length (prefixSums 0 fs) = some (fs.map List.length) := by
  match fs, hne with
  | f :: t, _ =>
    unfold ptrSizes
    rw [prefixSums_getLast 0 f t]
    have hl : ¬ (2 ≤ (f :: t).length ∧ (prefixSums 0 (f :: t)).length < (f :: t).length) := by
      simp [prefixSums_length]
    simp only [hl, if_false]
    have := ptrSizes_prefixSums 0 f t
    simp only [Nat.zero_add] at this ⊢
    rw [this]

/-- "By convention, all faces are triangles": replicate / multiples of k are the sizes / prefix sums -/
theorem prefixSums_uniform (k p : Nat) (fs : List (List Nat)) (h : ∀ f ∈ fs, f.length = k) :
    prefixSums p fs = (List.range fs.length).map (fun i => p + k * i) := by
  induction fs generalizing p with
  | nil => rfl
  | cons f t ih =>
    have hf := h f (by simp)
    rw [prefixSums, ih (p + f.length) (fun x hx => h x (by simp [hx])), hf]
    simp only [List.length_cons, List.range_succ_eq_map, List.map_cons, List.map_map]
    congr 1
    apply List.map_congr_left
    intro i _
    simp [Nat.mul_succ]; omega

theorem buildElems_default (k : Nat) (fs : List (List Nat)) (h : ∀ f ∈ fs, f.length = k) :
    buildElems fs.flatten fs.length (defaultPtr k fs.length ([], [])) = some fs := by
  by_cases hne : fs = []
  · subst hne; simp [buildElems, defaultPtr, mapOpt]
  · have hpos : 0 < fs.length := List.length_pos_iff.mpr hne
    have e1 : List.replicate fs.length k = fs.map List.length := by
      have : ∀ (l : List (List Nat)), (∀ f ∈ l, f.length = k) → List.replicate l.length k = l.map List.length := by
        intro l hl
        induction l with
        | nil => rfl
        | cons a t ih => simp [List.replicate_succ, hl a (by simp), ih (fun x hx => hl x (by simp [hx]))]
      exact this fs h
    have e2 : (List.range fs.length).map (fun i => k * i) = prefixSums 0 fs := by
      rw [prefixSums_uniform k 0 fs h]; simp
    simp only [defaultPtr, List.length_nil, hpos, and_self, if_true, e1, e2]
    exact buildElems_ptr fs

end Mouette.IO.Geo
