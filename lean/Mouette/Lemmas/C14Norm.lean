import Mouette.Generated.C14
import Mouette.Lemmas.EdgeCount
import Mathlib.Tactic.Ring
/-!
Normal spelling of the index expressions of the row-major generators (`unit_grid`, `torus`).

The theorems of Props/C14*.lean work with the index expressions spelled `i * n + j`. A harmless respelling in the source
(`j + n*i`, `n*(i+1) + j`, a renamed local …) changes the translated term but not its value: `*_norm` re-proves, on every run,
that the translated term equals the normal spelling — entry by entry, by `ring` — and the other proofs start from there.
A change of the VALUE of an index expression makes `*_norm` fail (a broken obligation, followed by the failing-input search).
-/
namespace Mouette.Props.C14
open Mouette.Generated.C14 Mouette.EdgeCount

/-- the face loop of `unit_grid` in the normal spelling -/
def unit_gridFacesCanon (nu nv : Nat) (triangulate : Bool) : List (List Nat) :=
  ((List.range nu).flatMap (fun i => ((List.range nv).flatMap (fun j => (if ((i < (nu - 1)) ∧ (j < (nv - 1))) then (if triangulate = true then ([[((i * nv) + j), (((i * nv) + j) + 1), (((i + 1) * nv) + j)]] ++ [[(((i * nv) + j) + 1), ((((i + 1) * nv) + j) + 1), (((i + 1) * nv) + j)]]) else [[((i * nv) + j), (((i * nv) + j) + 1), ((((i + 1) * nv) + j) + 1), (((i + 1) * nv) + j)]]) else [])))))

/-- the face loop of `torus` in the normal spelling -/
def torusFacesCanon (major_segments minor_segments : Nat) (triangulate : Bool) : List (List Nat) :=
  ((List.range major_segments).flatMap (fun i => (let i_next := ((i + 1) % major_segments); ((List.range minor_segments).flatMap (fun j => (let j_next := ((j + 1) % minor_segments); (let v0 := ((i * minor_segments) + j); (let v1 := ((i * minor_segments) + j_next); (let v2 := ((i_next * minor_segments) + j_next); (let v3 := ((i_next * minor_segments) + j); (if triangulate = true then [[v0, v1, v3], [v1, v2, v3]] else [[v0, v1, v2, v3]])))))))))))

/-- closes `[[a, b, …], …] = [[a', b', …], …]` goals whose entries agree up to commutative-semiring identities -/
macro "index_lists" : tactic =>
  `(tactic| (simp only [List.cons_append, List.nil_append, List.cons.injEq, and_true] <;> (repeat' constructor) <;> ring))

theorem unit_gridFaces_norm (nu nv : Nat) (t u : Bool) : unit_gridFaces nu nv t u = unit_gridFacesCanon nu nv t := by
  unfold unit_gridFaces unit_gridFacesCanon
  first
  | rfl
  | (apply flatMap_congr_on; intro i _
     apply flatMap_congr_on; intro j _
     split
     · split
       · index_lists
       · index_lists
     · rfl)

theorem torusFaces_norm (M N : Nat) (t : Bool) : torusFaces M N t = torusFacesCanon M N t := by
  unfold torusFaces torusFacesCanon
  first
  | rfl
  | (apply flatMap_congr_on; intro i _
     show List.flatMap _ _ = List.flatMap _ _
     apply flatMap_congr_on; intro j _
     show (if _ then _ else _) = (if _ then _ else _)
     split
     · index_lists
     · index_lists)

/-! ## round 5: the same layer for `sphere_uv`, `cylinder`, `ring`, `flat_ring`, `unit_triangle` -/

/-- the face loop of `sphere_uv` in the normal spelling -/
def sphere_uvFacesCanon (n_lat n_long : Nat) : List (List Nat) :=
  (((List.range n_long).flatMap (fun i => (let i0 := (i + 1); (let i1 := (((i + 1) % n_long) + 1); ([[i0, 0, i1]] ++ (let i0 := ((i + (n_long * (n_lat - 1))) + 1); (let i1 := ((((i + 1) % n_long) + (n_long * (n_lat - 1))) + 1); [[((sphere_uvNVerts n_lat n_long) - 1), i0, i1]]))))))) ++ ((List.range (n_lat - 1)).flatMap (fun j => (let j0 := ((j * n_long) + 1); (let j1 := (((j + 1) * n_long) + 1); ((List.range n_long).flatMap (fun i => (let i0 := (j0 + i); (let i1 := (j0 + ((i + 1) % n_long)); (let i2 := (j1 + ((i + 1) % n_long)); (let i3 := (j1 + i); [[i0, i1, i2, i3]])))))))))))

/-- the face loop of `cylinder` in the normal spelling -/
def cylinderFacesCanon (N : Nat) (fill_caps : Bool) : List (List Nat) :=
  ((if fill_caps = true then ((List.range N).flatMap (fun i => ([[i, ((i + 1) % N), (2 * N)]] ++ [[(i + N), ((2 * N) + 1), (((i + 1) % N) + N)]]))) else []) ++ ((List.range N).flatMap (fun i => ([[i, (N + i), ((i + 1) % N)]] ++ [[(N + i), (N + ((i + 1) % N)), ((i + 1) % N)]]))))

/-- the face loop of `ring` in the normal spelling -/
def ringFacesCanon (N n_cover : Nat) (isOpen : Bool) : List (List Nat) :=
  (((List.range' 1 ((N * n_cover) - 1)).flatMap (fun i => (let nxt := (if isOpen = true then (i + 1) else ((i + 1) % ((N * n_cover) + 1))); [[0, i, nxt]]))) ++ (if isOpen = true then [[0, (N * n_cover), ((N * n_cover) + 1)]] else [[0, (N * n_cover), 1]]))

/-- the face loop of `flat_ring` in the normal spelling -/
def flat_ringFacesCanon (N n_cover : Nat) : List (List Nat) :=
  ((List.range (N * n_cover)).flatMap (fun i => [[0, (i + 1), (i + 2)]]))

/-- the face loop of `unit_triangle` in the normal spelling -/
def unit_triangleFacesCanon (nu nv : Nat) (generate_uvs : Bool) : List (List Nat) :=
  (let npt := 0; ((List.range nv).flatMap (fun j => (((List.range nu).takeWhile (fun i => decide (¬(((i > j) ∨ (j = (nv - 1))))))).flatMap (fun i => (let kpt := (((j * (j + 1)) / 2) + i); ((if (i < j) then [[kpt, ((kpt + j) + 2), (kpt + 1)]] else []) ++ [[kpt, ((kpt + j) + 1), ((kpt + j) + 2)]])))))))

theorem ite_congr_same {α} (c : Prop) [Decidable c] (a a' b b' : α) (h1 : c → a = a') (h2 : ¬c → b = b') :
    (if c then a else b) = (if c then a' else b') := by
  by_cases h : c
  · simp only [h, if_true]; exact h1 h
  · simp only [h, if_false]; exact h2 h

theorem takeWhile_flatMap_congr {β} (l : List Nat) (p q : Nat → Bool) (f g : Nat → List β) (hp : ∀ x, p x = q x)
    (h : ∀ a ∈ l, f a = g a) : (l.takeWhile p).flatMap f = (l.takeWhile q).flatMap g := by
  have : p = q := funext hp
  subst this
  apply flatMap_congr_on
  intro a ha
  exact h a ((List.takeWhile_sublist p).subset ha)

/-- `l.flatMap f = l.flatMap g`, `a ++ b = a' ++ b'`, `(if c then a else b) = (if c then a' else b')`, `let`s, literal face lists
whose entries agree up to commutative-semiring identities (also inside `%` and `/`): the structure of the two loop nests must be
the same, the spelling of every index expression is free -/
macro "norm_faces" : tactic =>
  `(tactic| first
    | rfl
    | ((try simp only [])
       repeat' (first
         | rfl
         | (apply flatMap_congr_on; intro _ _)
         | (apply takeWhile_flatMap_congr _ _ _ _ _ (fun _ => by first | rfl | (apply decide_eq_decide.mpr; omega)); intro _ _)
         | (apply congrArg₂ (· ++ ·))
         | (apply ite_congr_same <;> intro _)
         | (simp only [List.cons_append, List.nil_append, List.cons.injEq, and_true]; (repeat' constructor) <;>
              first | ring1 | (ring_nf; done) | omega))))

theorem sphere_uvFaces_norm (n_lat n_long : Nat) : sphere_uvFaces n_lat n_long = sphere_uvFacesCanon n_lat n_long := by
  unfold sphere_uvFaces sphere_uvFacesCanon
  norm_faces

theorem cylinderFaces_norm (N : Nat) (fill_caps : Bool) : cylinderFaces N fill_caps = cylinderFacesCanon N fill_caps := by
  unfold cylinderFaces cylinderFacesCanon
  norm_faces

theorem ringFaces_norm (N n_cover : Nat) (isOpen : Bool) : ringFaces N n_cover isOpen = ringFacesCanon N n_cover isOpen := by
  unfold ringFaces ringFacesCanon
  norm_faces

theorem flat_ringFaces_norm (N n_cover : Nat) : flat_ringFaces N n_cover = flat_ringFacesCanon N n_cover := by
  unfold flat_ringFaces flat_ringFacesCanon
  norm_faces

theorem unit_triangleFaces_norm (nu nv : Nat) (generate_uvs : Bool) : unit_triangleFaces nu nv generate_uvs = unit_triangleFacesCanon nu nv generate_uvs := by
  unfold unit_triangleFaces unit_triangleFacesCanon
  norm_faces

end Mouette.Props.C14
