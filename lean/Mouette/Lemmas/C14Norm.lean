import Mouette.Generated.C14
import Mouette.Lemmas.EdgeCount
import Mathlib.Tactic.Ring
/-!
Normal spelling of the index expressions of the row-major generators (`unit_grid`, `torus`).

The theorems of Props/C14*.lean work with the index expressions spelled `i * n + j`. A harmless respelling in the source
(`j + n*i`, `n*(i+1) + j`, a renamed local …) changes the translated term but not its value: `*_norm` re-proves, on every run,
that the translated term equals the normal spelling — entry by entry, by `ring` — and the other proofs start from there.
A change of the VALUE of an index expression makes `*_norm` fail (a broken obligation, followed by the failing-input search).
-/
namespace Mouette.Props.C14
open Mouette.Generated.C14 Mouette.EdgeCount

/-- the face loop of `unit_grid` in the normal spelling -/
def unit_gridFacesCanon (nu nv : Nat) (triangulate : Bool) : List (List Nat) :=
  ((List.range nu).flatMap (fun i => ((List.range nv).flatMap (fun j => (if ((i < (nu - 1)) ∧ (j < (nv - 1))) then (if triangulate = true then ([[((i * nv) + j), (((i * nv) + j) + 1), (((i + 1) * nv) + j)]] ++ [[(((i * nv) + j) + 1), ((((i + 1) * nv) + j) + 1), (((i + 1) * nv) + j)]]) else [[((i * nv) + j), (((i * nv) + j) + 1), ((((i + 1) * nv) + j) + 1), (((i + 1) * nv) + j)]]) else [])))))

/-- the face loop of `torus` in the normal spelling -/
def torusFacesCanon (major_segments minor_segments : Nat) (triangulate : Bool) : List (List Nat) :=
  ((List.range major_segments).flatMap (fun i => (let i_next := ((i + 1) % major_segments); ((List.range minor_segments).flatMap (fun j => (let j_next := ((j + 1) % minor_segments); (let v0 := ((i * minor_segments) + j); (let v1 := ((i * minor_segments) + j_next); (let v2 := ((i_next * minor_segments) + j_next); (let v3 := ((i_next * minor_segments) + j); (if triangulate = true then [[v0, v1, v3], [v1, v2, v3]] else [[v0, v1, v2, v3]])))))))))))

/-- closes `[[a, b, …], …] = [[a', b', …], …]` goals whose entries agree up to commutative-semiring identities -/
macro "index_lists" : tactic =>
  `(tactic| (simp only [List.cons_append, List.nil_append, List.cons.injEq, and_true] <;> (repeat' constructor) <;> ring))

theorem unit_gridFaces_norm (nu nv : Nat) (t u : Bool) : unit_gridFaces nu nv t u = unit_gridFacesCanon nu nv t := by
  unfold unit_gridFaces unit_gridFacesCanon
  first
  | rfl
  | (apply flatMap_congr_on; intro i _
     apply flatMap_congr_on; intro j _
     split
     · split
       · index_lists
       · index_lists
     · rfl)

theorem torusFaces_norm (M N : Nat) (t : Bool) : torusFaces M N t = torusFacesCanon M N t := by
  unfold torusFaces torusFacesCanon
  first
  | rfl
  | (apply flatMap_congr_on; intro i _
     show List.flatMap _ _ = List.flatMap _ _
     apply flatMap_congr_on; intro j _
     show (if _ then _ else _) = (if _ then _ else _)
     split
     · index_lists
     · index_lists)

end Mouette.Props.C14
