import Mouette.Lemmas.TreesTables
/-
`*SpanningForest.compute`: one breadth-first tree per connected component, every element covered once
(for a symmetric admissible adjacency).
-/
namespace Mouette.Trees

/-- the admissible adjacency is undirected -/
def Sym (g : Cfg) : Prop := ∀ u x, x ∈ nbrs g u → u ∈ nbrs g x

def Conn (g : Cfg) (a b : Nat) : Prop := ∃ k, Hops g a b k

theorem Hops.trans {g : Cfg} {a b c j k : Nat} (h1 : Hops g a b j) (h2 : Hops g b c k) : Hops g a c (j + k) := by
  induction h1 with
  | zero a => simpa using h2
  | @step a b' t j hab _ ih =>
    have := Hops.step hab (ih h2)
    have e : j + k + 1 = j + 1 + k := by omega
    rw [e] at this
    exact this

theorem Hops.symm {g : Cfg} (hs : Sym g) {a b k : Nat} (h : Hops g a b k) : Hops g b a k := by
  induction h with
  | zero a => exact Hops.zero a
  | @step a b' t k hab _ ih => exact ih.snoc (hs a b' hab)

theorem Conn.trans {g : Cfg} {a b c : Nat} : Conn g a b → Conn g b c → Conn g a c
  | ⟨_, h1⟩, ⟨_, h2⟩ => ⟨_, h1.trans h2⟩

theorem Conn.symm {g : Cfg} (hs : Sym g) {a b : Nat} : Conn g a b → Conn g b a
  | ⟨_, h⟩ => ⟨_, h.symm hs⟩

/-- one step of the forest loop -/
def forestStep (g : Cfg) (n : Nat) (skipInf : Bool) (acc : (Nat → Bool) × List Tree) (v : Nat) :
    (Nat → Bool) × List Tree :=
  if acc.1 v then acc else
    let t := bfsTree g n v skipInf
    let nodes := (traverse true n t).1.map (·.1)
    (fun x => acc.1 x || nodes.contains x, acc.2 ++ [t])

theorem forest_eq (g : Cfg) (n : Nat) (skipInf : Bool) :
    forest g n skipInf = ((List.range n).foldl (forestStep g n skipInf) (fun _ => false, [])).2 := rfl

structure FInv (g : Cfg) (n : Nat) (skipInf : Bool) (acc : (Nat → Bool) × List Tree) : Prop where
  vis_iff : ∀ x, acc.1 x = true ↔ ∃ t ∈ acc.2, t.reached x = true
  is_bfs : ∀ t ∈ acc.2, t.root < n ∧ t = bfsTree g n t.root skipInf
  disj : acc.2.Pairwise (fun t1 t2 => ∀ x, ¬ (t1.reached x = true ∧ t2.reached x = true))
  roots : acc.2.Pairwise (fun t1 t2 => ¬ Conn g t1.root t2.root)

theorem bfsTree_root (g : Cfg) (n v : Nat) (skipInf : Bool) : (bfsTree g n v skipInf).root = v := rfl

theorem finv_step {g : Cfg} {n : Nat} {skipInf : Bool} (hwf : WF g n) (hs : Sym g)
    {acc : (Nat → Bool) × List Tree} (I : FInv g n skipInf acc) {v : Nat} (hv : v < n) :
    FInv g n skipInf (forestStep g n skipInf acc v) ∧ (forestStep g n skipInf acc v).1 v = true ∧
    (∀ x, acc.1 x = true → (forestStep g n skipInf acc v).1 x = true) := by
  unfold forestStep
  by_cases hvis : acc.1 v = true
  · rw [if_pos hvis]; exact ⟨I, hvis, fun _ h => h⟩
  · rw [if_neg hvis]
    simp only
    obtain ⟨O, hO, _, hmem, _⟩ := traverse_spec (bfsTree_ok hwf hv skipInf) true
    have hO' : traverse true n (bfsTree g n v skipInf) = (O, []) := hO
    have hnodes : ∀ x, ((traverse true n (bfsTree g n v skipInf)).1.map (·.1)).contains x = true ↔
        (bfsTree g n v skipInf).reached x = true := by
      intro x
      rw [hO']
      simp only [List.contains_iff_mem]
      exact hmem x
    have hreach_v : (bfsTree g n v skipInf).reached v = true :=
      (reached_root hwf hv skipInf)
    -- no earlier tree reaches anything the new tree reaches
    have hnew : ∀ t ∈ acc.2, ∀ x, ¬ (t.reached x = true ∧ (bfsTree g n v skipInf).reached x = true) := by
      intro t ht x ⟨h1, h2⟩
      obtain ⟨hr, ht'⟩ := I.is_bfs t ht
      rw [ht'] at h1
      have c1 : Conn g t.root x := (reached_conn hwf hr skipInf x).mp h1
      have c2 : Conn g v x := (reached_conn hwf hv skipInf x).mp h2
      have c3 : Conn g t.root v := c1.trans (c2.symm hs)
      have : t.reached v = true := by rw [ht']; exact (reached_conn hwf hr skipInf v).mpr c3
      exact hvis ((I.vis_iff v).mpr ⟨t, ht, this⟩)
    refine ⟨{ vis_iff := ?_, is_bfs := ?_, disj := ?_, roots := ?_ }, ?_, ?_⟩
    · intro x
      simp only [Bool.or_eq_true, List.mem_append, List.mem_singleton]
      rw [hnodes, I.vis_iff]
      constructor
      · rintro (⟨t, ht, h⟩ | h)
        · exact ⟨t, Or.inl ht, h⟩
        · exact ⟨_, Or.inr rfl, h⟩
      · rintro ⟨t, ht | ht, h⟩
        · exact Or.inl ⟨t, ht, h⟩
        · subst ht; exact Or.inr h
    · intro t ht
      rcases List.mem_append.mp ht with h | h
      · exact I.is_bfs t h
      · simp at h; subst h; exact ⟨hv, rfl⟩
    · rw [List.pairwise_append]
      refine ⟨I.disj, by simp, ?_⟩
      intro t ht t2 ht2
      simp at ht2; subst ht2
      exact hnew t ht
    · rw [List.pairwise_append]
      refine ⟨I.roots, by simp, ?_⟩
      intro t ht t2 ht2
      simp at ht2; subst ht2
      intro hc
      obtain ⟨hr, ht'⟩ := I.is_bfs t ht
      have : t.reached v = true := by rw [ht']; exact (reached_conn hwf hr skipInf v).mpr hc
      exact hnew t ht v ⟨this, hreach_v⟩
    · simp only [Bool.or_eq_true]
      exact Or.inr ((hnodes v).mpr hreach_v)
    · intro x hx
      simp only [Bool.or_eq_true]
      exact Or.inl hx
where
  reached_root {g : Cfg} {n v : Nat} (hwf : WF g n) (hv : v < n) (skipInf : Bool) :
      (bfsTree g n v skipInf).reached v = true := (bfinal_run hwf hv).inv.seen_root
  reached_conn {g : Cfg} {n r : Nat} (hwf : WF g n) (hr : r < n) (skipInf : Bool) (x : Nat) :
      (bfsTree g n r skipInf).reached x = true ↔ Conn g r x := by
    have F := bfinal_run hwf hr
    have I := F.inv
    show (brun g n r).seen x = true ↔ _
    constructor
    · intro hx
      obtain ⟨d, hd⟩ := I.dist_some x hx
      exact ⟨d, (I.tree_path d x hx hd).2⟩
    · rintro ⟨k, hk⟩
      exact (F.closed hk I.seen_root).1

theorem finv_fold {g : Cfg} {n : Nat} {skipInf : Bool} (hwf : WF g n) (hs : Sym g) :
    ∀ (ids : List Nat) (acc : (Nat → Bool) × List Tree), (∀ v ∈ ids, v < n) → FInv g n skipInf acc →
      FInv g n skipInf (ids.foldl (forestStep g n skipInf) acc) ∧
      (∀ x, (acc.1 x = true ∨ x ∈ ids) → (ids.foldl (forestStep g n skipInf) acc).1 x = true)
  | [], acc, _, I => ⟨I, fun x h => by simpa using h⟩
  | v :: ids, acc, hlt, I => by
    obtain ⟨I', h1, h2⟩ := finv_step hwf hs I (hlt v (by simp))
    obtain ⟨I'', h3⟩ := finv_fold hwf hs ids _ (fun x hx => hlt x (List.mem_cons_of_mem _ hx)) I'
    refine ⟨I'', ?_⟩
    intro x hx
    rw [List.foldl_cons]
    rcases hx with hx | hx
    · exact h3 x (Or.inl (h2 x hx))
    · rcases List.mem_cons.mp hx with h | h
      · subst h; exact h3 x (Or.inl h1)
      · exact h3 x (Or.inr h)

end Mouette.Trees
