import Mouette.Lemmas.SubdivComponents2
/-
C13 (round 5): connected components through `split_face_as_fan`: the corners of one face are pairwise connected, the only
new adjacencies are the spokes corner - new vertex, so two old vertices are connected in the result iff they were in the
input, and the new vertex is connected to every corner of the split face.
-/
namespace Mouette.Subdiv

theorem cycGo_chain {α} (R : α → α → Prop) (first : α) : ∀ (l : List α) (x : α),
    (∀ p ∈ cycGo first (x :: l), R p.1 p.2) → ∀ v ∈ x :: l, Relation.ReflTransGen R x v := by
  intro l
  induction l with
  | nil => intro x _ v hv; simp at hv; subst hv; exact Relation.ReflTransGen.refl
  | cons y t ih =>
    intro x hp v hv
    have hxy : R x y := hp (x, y) (by simp [cycGo])
    rcases List.mem_cons.mp hv with rfl | hv'
    · exact Relation.ReflTransGen.refl
    · exact Relation.ReflTransGen.head hxy (ih y (fun p hpm => hp p (by simp [cycGo, hpm])) v hv')

/-- the corners of one face are pairwise connected -/
theorem face_conn (m : Raw) (f : List Nat) (hf : f ∈ m.faces) (u v : Nat) (hu : u ∈ f) (hv : v ∈ f) : Conn m u v := by
  cases f with
  | nil => simp at hu
  | cons a t =>
    have hall : ∀ w ∈ a :: t, Conn m a w := by
      apply cycGo_chain (Adj m) a t a
      intro p hp
      exact Or.inl (List.mem_flatMap.mpr ⟨a :: t, hf, by simpa [cycPairs] using hp⟩)
    exact (hall u hu).symm.trans (hall v hv)

theorem fan_components (m m' : Raw) (fid : Nat) (hwf : WF m) (h : splitFaceAsFan m fid = .ok m') :
    (∀ x y, x < m.verts.length → y < m.verts.length → (Conn m' x y ↔ Conn m x y)) ∧
    ∃ f, m.faces[fid]? = some f ∧ ∀ v ∈ f, Conn m' m.verts.length v := by
  obtain ⟨f, hf, hperm⟩ := fan_dirSides_perm m m' fid h
  have hfm : f ∈ m.faces := List.mem_of_getElem? hf
  have memD : ∀ y, y ∈ dirSides m' ↔ y ∈ dirSides m ∨ y ∈ spokes f m.verts.length := fun y => by
    rw [hperm.mem_iff, List.mem_append]
  have bound : ∀ y ∈ dirSides m, y.1 < m.verts.length ∧ y.2 < m.verts.length := by
    intro y hy
    obtain ⟨g, hg, hyg⟩ := List.mem_flatMap.mp hy
    exact ⟨hwf g hg _ (cycPairs_mem g y hyg).1, hwf g hg _ (cycPairs_mem g y hyg).2⟩
  obtain ⟨_, _, a, b, rest, hf', _, hc, _⟩ := fan_spec m m' fid h
  have hff : f = _ := Option.some.inj (hf.symm.trans hf')
  have ha : a ∈ f := by
    have : (a, b) ∈ cycPairs f := by rw [hff, hc]; simp
    exact (cycPairs_mem f (a, b) this).1
  have halt : a < m.verts.length := hwf f hfm a ha
  -- representative of a vertex of the result in the input
  let rep : Nat → Nat := fun z => if z = m.verts.length then a else z
  have rep_old : ∀ z, z < m.verts.length → rep z = z := fun z hz => by
    simp only [rep]; rw [if_neg (by omega)]
  have rep_new : rep m.verts.length = a := by simp [rep]
  have side_step : ∀ x y, (x, y) ∈ dirSides m' → Conn m (rep x) (rep y) := by
    intro x y hxy
    rcases (memD _).mp hxy with h1 | h1
    · obtain ⟨b1, b2⟩ := bound _ h1
      rw [rep_old x b1, rep_old y b2]
      exact Relation.ReflTransGen.single (Or.inl h1)
    · obtain ⟨p, hp, hy⟩ := (mem_spokes f _ _).mp h1
      have hp1 := (cycPairs_mem f p hp).1
      have hp2 := (cycPairs_mem f p hp).2
      rcases hy with hy | hy
      · simp only [Prod.mk.injEq] at hy
        rw [hy.1, hy.2, rep_new, rep_old _ (hwf f hfm _ hp2)]
        exact face_conn m f hfm _ _ hp2 ha
      · simp only [Prod.mk.injEq] at hy
        rw [hy.1, hy.2, rep_new, rep_old _ (hwf f hfm _ hp1)]
        exact face_conn m f hfm _ _ ha hp1
  have project : ∀ x y, Conn m' x y → Conn m (rep x) (rep y) := by
    intro x y hc'
    induction hc' with
    | refl => exact Relation.ReflTransGen.refl
    | @tail u v _ huv ih =>
      rcases huv with huv | huv
      · exact ih.trans (side_step u v huv)
      · exact ih.trans (side_step v u huv).symm
  have lift : ∀ x y, Conn m x y → Conn m' x y := by
    intro x y hc'
    induction hc' with
    | refl => exact Relation.ReflTransGen.refl
    | @tail u v _ huv ih =>
      refine ih.tail ?_
      rcases huv with huv | huv
      · exact Or.inl ((memD _).mpr (Or.inl huv))
      · exact Or.inr ((memD _).mpr (Or.inl huv))
  refine ⟨?_, f, hf, ?_⟩
  · intro x y hx hy
    constructor
    · intro hc'
      have := project x y hc'
      rwa [rep_old x hx, rep_old y hy] at this
    · exact lift x y
  · intro v hv
    have : v ∈ (cycPairs f).map Prod.fst := by rw [cycPairs_map_fst]; exact hv
    obtain ⟨p, hp, e⟩ := List.mem_map.mp this
    exact Relation.ReflTransGen.single (Or.inl ((memD _).mpr (Or.inr ((mem_spokes f _ _).mpr ⟨p, hp, Or.inr (by simp [e])⟩))))

end Mouette.Subdiv
