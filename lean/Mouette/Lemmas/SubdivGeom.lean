import Mathlib.Tactic.Ring
import Mathlib.Tactic.LinearCombination
import Mathlib.Algebra.Order.Field.Rat
import Mouette.Model.Subdiv
/-
Geometry used by the C13 theorems: (twice the) vector area of a polygon, (six times the) signed
volume of a tetrahedron, and the algebraic identities behind every refinement pattern of
`subdivision.py`.  All identities hold over `Rat` for arbitrary (also degenerate / non-planar) points.
-/
namespace Mouette.Subdiv

/-- twice the vector area of the polygon `ps`: Σ p_i × p_{i+1} (cyclic) -/
def vecArea2 (ps : List Pt) : Pt := sumPts ((cycPairs ps).map (fun ab => Pt.cross ab.1 ab.2))

/-- six times the signed volume of the tetrahedron (a,b,c,d): det(b-a, c-a, d-a) -/
def vol6 (a b c d : Pt) : Rat := Pt.dot (Pt.sub b a) (Pt.cross (Pt.sub c a) (Pt.sub d a))

/-- `0.25*(pA+pB+pC+pD)` -/
def centre4 (a b c d : Pt) : Pt := Pt.smul (1/4) (sumPts [a, b, c, d])

/-- `sum([...])/3` -/
def centre3 (a b c : Pt) : Pt := (sumPts [a, b, c]).divn 3

def triArea2 (p : Pt) (ab : Pt × Pt) : Pt := vecArea2 [ab.1, ab.2, p]

macro "pt_ring" : tactic => `(tactic| (
  simp only [triArea2, vecArea2, vol6, centre4, centre3, cycPairs, cycGo, sumPts, mid, bary, Pt.add, Pt.sub, Pt.divn, Pt.cross,
    Pt.dot, Pt.smul, Pt.zero, List.map, List.foldr, List.length, Prod.mk.injEq]
  <;> push_cast
  <;> (try refine ⟨?_, ?_, ?_⟩)
  <;> ring))

/-! ### 1 → 4 (loop_subdivision) -/

theorem area_loop_centre (a b c : Pt) :
    vecArea2 [mid a b, mid b c, mid c a] = Pt.smul (1/4) (vecArea2 [a, b, c]) := by
  obtain ⟨a1, a2, a3⟩ := a; obtain ⟨b1, b2, b3⟩ := b; obtain ⟨c1, c2, c3⟩ := c
  pt_ring

theorem area_loop_corner (a b c : Pt) :
    vecArea2 [a, mid a b, mid c a] = Pt.smul (1/4) (vecArea2 [a, b, c]) := by
  obtain ⟨a1, a2, a3⟩ := a; obtain ⟨b1, b2, b3⟩ := b; obtain ⟨c1, c2, c3⟩ := c
  pt_ring

/-- vector area is invariant under rotation of a triangle -/
theorem vecArea2_rot3 (a b c : Pt) : vecArea2 [b, c, a] = vecArea2 [a, b, c] := by
  obtain ⟨a1, a2, a3⟩ := a; obtain ⟨b1, b2, b3⟩ := b; obtain ⟨c1, c2, c3⟩ := c
  pt_ring

/-- the four sub-triangles written by `loop_subdivision` for the face (a,b,c) -/
def loopTris (a b c : Pt) : List (List Pt) :=
  [[mid a b, mid b c, mid c a], [a, mid a b, mid c a], [b, mid b c, mid a b], [c, mid c a, mid b c]]

theorem area_loop_sum (a b c : Pt) :
    sumPts ((loopTris a b c).map vecArea2) = vecArea2 [a, b, c] := by
  obtain ⟨a1, a2, a3⟩ := a; obtain ⟨b1, b2, b3⟩ := b; obtain ⟨c1, c2, c3⟩ := c
  simp only [loopTris]
  pt_ring

theorem area_loop_each (a b c : Pt) :
    ∀ t ∈ loopTris a b c, vecArea2 t = Pt.smul (1/4) (vecArea2 [a, b, c]) := by
  intro t ht
  simp only [loopTris, List.mem_cons, List.not_mem_nil, or_false] at ht
  obtain ⟨a1, a2, a3⟩ := a; obtain ⟨b1, b2, b3⟩ := b; obtain ⟨c1, c2, c3⟩ := c
  rcases ht with h | h | h | h <;> subst h <;> pt_ring

/-! ### 1 → 3 quads, 1 → 6 -/

def quadsOf (a b c : Pt) : List (List Pt) :=
  let s := centre3 a b c
  [[a, mid a b, s, mid c a], [b, mid b c, s, mid a b], [c, mid c a, s, mid b c]]

theorem area_quads3_each (a b c : Pt) :
    ∀ q ∈ quadsOf a b c, vecArea2 q = Pt.smul (1/3) (vecArea2 [a, b, c]) := by
  intro q hq
  simp only [quadsOf, List.mem_cons, List.not_mem_nil, or_false] at hq
  obtain ⟨a1, a2, a3⟩ := a; obtain ⟨b1, b2, b3⟩ := b; obtain ⟨c1, c2, c3⟩ := c
  rcases hq with h | h | h <;> subst h <;> pt_ring

theorem area_quads3_sum (a b c : Pt) :
    sumPts ((quadsOf a b c).map vecArea2) = vecArea2 [a, b, c] := by
  obtain ⟨a1, a2, a3⟩ := a; obtain ⟨b1, b2, b3⟩ := b; obtain ⟨c1, c2, c3⟩ := c
  simp only [quadsOf]
  pt_ring

/-- the quad cut of `triangulate_face`: (A,B,C,D) → (A,B,D), (B,C,D) -/
theorem area_quad_split (a b c d : Pt) :
    Pt.add (vecArea2 [a, b, d]) (vecArea2 [b, c, d]) = vecArea2 [a, b, c, d] := by
  obtain ⟨a1, a2, a3⟩ := a; obtain ⟨b1, b2, b3⟩ := b; obtain ⟨c1, c2, c3⟩ := c; obtain ⟨d1, d2, d3⟩ := d
  pt_ring

/-- the two triangles `triangulate` makes of the quad (a, m_ab, s, m_ca) of the 1→6 pattern are
1/4 and 1/12 of the parent: positive multiples -/
theorem area_sub6_corner (a b c : Pt) :
    vecArea2 [a, mid a b, mid c a] = Pt.smul (1/4) (vecArea2 [a, b, c]) := area_loop_corner a b c

theorem area_sub6_inner (a b c : Pt) :
    vecArea2 [mid a b, centre3 a b c, mid c a] = Pt.smul (1/12) (vecArea2 [a, b, c]) := by
  obtain ⟨a1, a2, a3⟩ := a; obtain ⟨b1, b2, b3⟩ := b; obtain ⟨c1, c2, c3⟩ := c
  pt_ring

/-! ### fan around any point (split_face_as_fan), all polygon sizes -/

theorem Pt.add_assoc' (a b c : Pt) : Pt.add (Pt.add a b) c = Pt.add a (Pt.add b c) := by
  obtain ⟨a1, a2, a3⟩ := a; obtain ⟨b1, b2, b3⟩ := b; obtain ⟨c1, c2, c3⟩ := c
  simp only [Pt.add, Prod.mk.injEq]; refine ⟨?_, ?_, ?_⟩ <;> ring

theorem Pt.add_comm' (a b : Pt) : Pt.add a b = Pt.add b a := by
  obtain ⟨a1, a2, a3⟩ := a; obtain ⟨b1, b2, b3⟩ := b
  simp only [Pt.add, Prod.mk.injEq]; refine ⟨?_, ?_, ?_⟩ <;> ring

theorem Pt.add_zero' (a : Pt) : Pt.add a Pt.zero = a := by
  obtain ⟨a1, a2, a3⟩ := a
  simp [Pt.add, Pt.zero]

theorem Pt.zero_add' (a : Pt) : Pt.add Pt.zero a = a := by
  obtain ⟨a1, a2, a3⟩ := a
  simp [Pt.add, Pt.zero]

theorem sumPts_cons (p : Pt) (l : List Pt) : sumPts (p :: l) = Pt.add p (sumPts l) := rfl

theorem sumPts_append (l₁ l₂ : List Pt) : sumPts (l₁ ++ l₂) = Pt.add (sumPts l₁) (sumPts l₂) := by
  induction l₁ with
  | nil => simp [sumPts, Pt.zero_add']
  | cons a t ih => simp only [List.cons_append, sumPts_cons, ih, Pt.add_assoc']

/-- telescoping: along the chain x → … → first, the fan triangles around `p` add up to the chain's cross
products plus a boundary term that vanishes when the chain closes -/
theorem fan_chain (p first : Pt) : ∀ (l : List Pt) (x : Pt),
    sumPts ((cycGo first (x :: l)).map (triArea2 p)) =
      Pt.add (sumPts ((cycGo first (x :: l)).map (fun ab => Pt.cross ab.1 ab.2)))
             (Pt.sub (Pt.cross first p) (Pt.cross x p)) := by
  intro l
  induction l with
  | nil =>
    intro x
    obtain ⟨p1, p2, p3⟩ := p; obtain ⟨f1, f2, f3⟩ := first; obtain ⟨x1, x2, x3⟩ := x
    simp only [cycGo]
    pt_ring
  | cons y t ih =>
    intro x
    have h := ih y
    simp only [cycGo, List.map_cons, sumPts_cons] at h ⊢
    rw [h]
    obtain ⟨p1, p2, p3⟩ := p; obtain ⟨f1, f2, f3⟩ := first; obtain ⟨x1, x2, x3⟩ := x; obtain ⟨y1, y2, y3⟩ := y
    generalize sumPts (List.map (fun ab => Pt.cross ab.1 ab.2) (cycGo (f1, f2, f3) ((y1, y2, y3) :: t))) = S
    obtain ⟨s1, s2, s3⟩ := S
    pt_ring

/-- **fan split preserves the vector area**, for every polygon size and every apex `p` -/
theorem area_fan (p : Pt) (ps : List Pt) :
    sumPts ((cycPairs ps).map (triArea2 p)) = vecArea2 ps := by
  cases ps with
  | nil => simp [cycPairs, vecArea2]
  | cons x t =>
    simp only [cycPairs, vecArea2]
    rw [fan_chain]
    obtain ⟨p1, p2, p3⟩ := p; obtain ⟨x1, x2, x3⟩ := x
    generalize sumPts (List.map (fun ab => Pt.cross ab.1 ab.2) (cycGo (x1, x2, x3) ((x1, x2, x3) :: t))) = S
    obtain ⟨s1, s2, s3⟩ := S
    simp only [Pt.add, Pt.sub, Pt.cross, Prod.mk.injEq]
    refine ⟨?_, ?_, ?_⟩ <;> ring

/-! ### tetrahedra -/

/-- `split_cell_as_fan`: each of the four cells is a quarter of the parent, same sign -/
theorem vol_cell_fan (a b c d : Pt) :
    let g := centre4 a b c d
    vol6 g b c d = (1/4) * vol6 a b c d ∧ vol6 a g c d = (1/4) * vol6 a b c d ∧
    vol6 a b g d = (1/4) * vol6 a b c d ∧ vol6 a b c g = (1/4) * vol6 a b c d := by
  obtain ⟨a1, a2, a3⟩ := a; obtain ⟨b1, b2, b3⟩ := b; obtain ⟨c1, c2, c3⟩ := c; obtain ⟨d1, d2, d3⟩ := d
  refine ⟨?_, ?_, ?_, ?_⟩ <;> pt_ring

/-- `split_tet_from_face_center`: the centre of a face replaces each vertex of that face in turn; each cell is a
third of the parent, same sign (stated for the face opposite to each of the four positions) -/
theorem vol_face_centre_opp0 (a b c d : Pt) :
    let g := centre3 b c d
    vol6 a g c d = (1/3) * vol6 a b c d ∧ vol6 a b g d = (1/3) * vol6 a b c d ∧ vol6 a b c g = (1/3) * vol6 a b c d := by
  obtain ⟨a1, a2, a3⟩ := a; obtain ⟨b1, b2, b3⟩ := b; obtain ⟨c1, c2, c3⟩ := c; obtain ⟨d1, d2, d3⟩ := d
  refine ⟨?_, ?_, ?_⟩ <;> pt_ring

theorem vol_face_centre_opp1 (a b c d : Pt) :
    let g := centre3 a c d
    vol6 g b c d = (1/3) * vol6 a b c d ∧ vol6 a b g d = (1/3) * vol6 a b c d ∧ vol6 a b c g = (1/3) * vol6 a b c d := by
  obtain ⟨a1, a2, a3⟩ := a; obtain ⟨b1, b2, b3⟩ := b; obtain ⟨c1, c2, c3⟩ := c; obtain ⟨d1, d2, d3⟩ := d
  refine ⟨?_, ?_, ?_⟩ <;> pt_ring

theorem vol_face_centre_opp2 (a b c d : Pt) :
    let g := centre3 a b d
    vol6 g b c d = (1/3) * vol6 a b c d ∧ vol6 a g c d = (1/3) * vol6 a b c d ∧ vol6 a b c g = (1/3) * vol6 a b c d := by
  obtain ⟨a1, a2, a3⟩ := a; obtain ⟨b1, b2, b3⟩ := b; obtain ⟨c1, c2, c3⟩ := c; obtain ⟨d1, d2, d3⟩ := d
  refine ⟨?_, ?_, ?_⟩ <;> pt_ring

theorem vol_face_centre_opp3 (a b c d : Pt) :
    let g := centre3 a b c
    vol6 g b c d = (1/3) * vol6 a b c d ∧ vol6 a g c d = (1/3) * vol6 a b c d ∧ vol6 a b g d = (1/3) * vol6 a b c d := by
  obtain ⟨a1, a2, a3⟩ := a; obtain ⟨b1, b2, b3⟩ := b; obtain ⟨c1, c2, c3⟩ := c; obtain ⟨d1, d2, d3⟩ := d
  refine ⟨?_, ?_, ?_⟩ <;> pt_ring

/-- the centre of the face is the same whatever the order of its vertices -/
theorem centre3_perm (a b c : Pt) : centre3 b c a = centre3 a b c ∧ centre3 b a c = centre3 a b c := by
  obtain ⟨a1, a2, a3⟩ := a; obtain ⟨b1, b2, b3⟩ := b; obtain ⟨c1, c2, c3⟩ := c
  constructor <;> pt_ring

/-! ### polyline -/

/-- squared length -/
def len2 (a b : Pt) : Rat := Pt.dot (Pt.sub b a) (Pt.sub b a)

/-- `split_edge`: both halves are colinear with the edge, same direction, half as long
(so the length is preserved: |AC| + |CB| = |AB|) -/
theorem split_edge_halves (a b : Pt) :
    Pt.sub (mid a b) a = Pt.smul (1/2) (Pt.sub b a) ∧ Pt.sub b (mid a b) = Pt.smul (1/2) (Pt.sub b a) ∧
    len2 a (mid a b) = (1/4) * len2 a b ∧ len2 (mid a b) b = (1/4) * len2 a b := by
  obtain ⟨a1, a2, a3⟩ := a; obtain ⟨b1, b2, b3⟩ := b
  simp only [len2]
  refine ⟨?_, ?_, ?_, ?_⟩ <;> pt_ring

theorem mid_comm (a b : Pt) : mid a b = mid b a := by
  obtain ⟨a1, a2, a3⟩ := a; obtain ⟨b1, b2, b3⟩ := b
  pt_ring

end Mouette.Subdiv
