import Mouette.Model.Geom
import Mouette.Lemmas.AngleSum
import Mathlib.Algebra.BigOperators.Group.Finset.Basic
import Mathlib.Algebra.BigOperators.Group.List.Basic
/-
C07: discrete Gauss–Bonnet for the model of `attributes.angle_defects` (`angleDefectStruct`: interior vertex `2π − Σ angles`,
border vertex `π − Σ angles`).  Combinatorial core over ℝ for ANY corner-angle function whose triangles sum to π, then the
instance with the angles the code computes (via `angle_sum_pi`).
-/
namespace Mouette.GeomR
open Mouette.Geom
open Finset

noncomputable section

/-- the angle defect of vertex `v` as `angle_defects(zero_border=False)` computes it from corner angles `θ` -/
def defectR (faces : List Face) (θ : Nat → ℝ) (v : Nat) : ℝ :=
  ((angleDefectStruct faces false v).1 : ℝ) * Real.pi - ((angleDefectStruct faces false v).2.map θ).sum

end

/-- example mesh for the non-vacuity checks: boundary of a tetrahedron -/
def tetFaces : List Face := [[0, 2, 1], [0, 1, 3], [1, 2, 3], [2, 0, 3]]
def tetPts : List V3 := [⟨0,0,0⟩, ⟨1,0,0⟩, ⟨0,1,0⟩, ⟨0,0,1⟩]

/-- number of border vertices among `0..nV-1` -/
def nBorderV (faces : List Face) (nV : Nat) : Nat := ((List.range nV).filter (isBorderVertex faces)).length

/-- decidable well-formedness: every face is a triangle whose vertices are `< nV` -/
def TriMesh (faces : List Face) (nV : Nat) : Prop := ∀ f ∈ faces, f.length = 3 ∧ ∀ v ∈ f, v < nV
instance (faces : List Face) (nV : Nat) : Decidable (TriMesh faces nV) := by unfold TriMesh; infer_instance

theorem sum_filter_map {α} (L : List α) (p : α → Bool) (f : α → ℝ) :
    ((L.filter p).map f).sum = (L.map (fun x => if p x then f x else 0)).sum := by
  induction L with
  | nil => simp
  | cons a L ih => by_cases h : p a <;> simp [h, ih]

theorem list_range_sum (n : Nat) (f : Nat → ℝ) : ((List.range n).map f).sum = ∑ i ∈ range n, f i := by
  induction n with
  | zero => simp
  | succ n ih => rw [List.range_succ, List.map_append, List.sum_append, ih, Finset.sum_range_succ]; simp

/-- every corner belongs to exactly one vertex `< nV`: summing corner values vertex by vertex gives the sum over all corners -/
theorem corner_sum_by_vertex (cv : List Nat) (nV : Nat) (θ : Nat → ℝ) (h : ∀ c, c < cv.length → cv.getD c 0 < nV) :
    ∑ v ∈ range nV, ((indicesWhere cv v).map θ).sum = ∑ c ∈ range cv.length, θ c := by
  have e : ∀ v, ((indicesWhere cv v).map θ).sum = ∑ c ∈ range cv.length, if cv.getD c 0 = v then θ c else 0 := by
    intro v
    unfold indicesWhere
    rw [sum_filter_map, list_range_sum]
    apply Finset.sum_congr rfl
    intro c _
    by_cases hc : cv.getD c 0 = v <;> simp [hc]
  simp only [e]
  rw [Finset.sum_comm]
  apply Finset.sum_congr rfl
  intro c hc
  have hlt := h c (Finset.mem_range.mp hc)
  rw [Finset.sum_ite_eq, if_pos (Finset.mem_range.mpr hlt)]

theorem triangle_angle_total (F : Nat) (θ : Nat → ℝ)
    (h : ∀ t, t < F → θ (3 * t) + θ (3 * t + 1) + θ (3 * t + 2) = Real.pi) :
    ∑ c ∈ range (3 * F), θ c = F * Real.pi := by
  induction F with
  | zero => simp
  | succ F ih =>
    have e : 3 * (F + 1) = 3 * F + 1 + 1 + 1 := by ring
    rw [e, Finset.sum_range_succ, Finset.sum_range_succ, Finset.sum_range_succ, ih (fun t ht => h t (by omega))]
    have := h F (by omega)
    push_cast
    linarith

theorem cornerVerts_length (faces : List Face) (h : ∀ f ∈ faces, f.length = 3) : (cornerVerts faces).length = 3 * faces.length := by
  induction faces with
  | nil => rfl
  | cons f fs ih =>
    have hf := h f (by simp)
    have := ih (fun g hg => h g (List.mem_cons_of_mem _ hg))
    simp only [cornerVerts, List.flatten_cons, List.length_append, List.length_cons] at this ⊢
    rw [this, hf]; ring

theorem cornerVerts_lt (faces : List Face) (nV : Nat) (h : TriMesh faces nV) :
    ∀ c, c < (cornerVerts faces).length → (cornerVerts faces).getD c 0 < nV := by
  intro c hc
  have hm : (cornerVerts faces).getD c 0 ∈ cornerVerts faces := by simp [List.getD, hc]
  simp only [cornerVerts, List.mem_flatten] at hm
  obtain ⟨f, hf, hv⟩ := hm
  exact (h f hf).2 _ hv

theorem base_sum (faces : List Face) (nV : Nat) :
    ∑ v ∈ range nV, (((angleDefectStruct faces false v).1 : Nat) : ℝ) = 2 * (nV : ℝ) - (nBorderV faces nV : ℝ) := by
  unfold nBorderV
  induction nV with
  | zero => simp
  | succ n ih =>
    rw [Finset.sum_range_succ, ih, List.range_succ, List.filter_append, List.length_append]
    by_cases hb : isBorderVertex faces n
    · simp [angleDefectStruct, hb]; ring
    · simp [angleDefectStruct, hb]; ring

theorem defect_corners (faces : List Face) (v : Nat) :
    (angleDefectStruct faces false v).2 = indicesWhere (cornerVerts faces) v := by
  unfold angleDefectStruct
  by_cases hb : isBorderVertex faces v <;> simp [hb]

noncomputable section

/-- **Gauss–Bonnet, combinatorial core**: if the corner angles of every triangle sum to π then
`Σ_v defect_v = π (2V − V_border − F)`  (border vertices start from π, interior ones from 2π) -/
theorem defect_total (faces : List Face) (nV : Nat) (θ : Nat → ℝ) (hm : TriMesh faces nV)
    (hθ : ∀ t, t < faces.length → θ (3 * t) + θ (3 * t + 1) + θ (3 * t + 2) = Real.pi) :
    ∑ v ∈ range nV, defectR faces θ v
      = Real.pi * (2 * (nV : ℝ) - (nBorderV faces nV : ℝ) - (faces.length : ℝ)) := by
  unfold defectR
  rw [Finset.sum_sub_distrib, ← Finset.sum_mul, base_sum]
  simp only [defect_corners]
  rw [corner_sum_by_vertex _ nV θ (cornerVerts_lt faces nV hm), cornerVerts_length faces (fun f hf => (hm f hf).1),
    triangle_angle_total _ θ hθ]
  ring

/-- **gauss_bonnet (combinatorial)**: with the handshake identity `3F + E_b = 2E` (every face has three sides, an interior edge has
two faces, a border edge one), as many border vertices as border edges (border = disjoint cycles) and `χ = V − E + F`,
the defects sum to `2π χ`.  Closed surfaces are the case `E_b = 0`, i.e. `2E = 3F`. -/
theorem gauss_bonnet_combinatorial (faces : List Face) (nV E Eb : Nat) (χ : Int) (θ : Nat → ℝ) (hm : TriMesh faces nV)
    (hθ : ∀ t, t < faces.length → θ (3 * t) + θ (3 * t + 1) + θ (3 * t + 2) = Real.pi)
    (hand : 3 * faces.length + Eb = 2 * E) (hcycle : nBorderV faces nV = Eb)
    (hχ : χ = (nV : Int) - (E : Int) + (faces.length : Int)) :
    ∑ v ∈ range nV, defectR faces θ v = 2 * Real.pi * (χ : ℝ) := by
  rw [defect_total faces nV θ hm hθ, hcycle, hχ]
  have h : (3 : ℝ) * (faces.length : ℝ) + (Eb : ℝ) = 2 * (E : ℝ) := by exact_mod_cast hand
  push_cast
  have hE : (E : ℝ) = (3 * (faces.length : ℝ) + (Eb : ℝ)) / 2 := by linarith
  rw [hE]; ring

theorem gauss_bonnet_closed (faces : List Face) (nV E : Nat) (χ : Int) (θ : Nat → ℝ) (hm : TriMesh faces nV)
    (hθ : ∀ t, t < faces.length → θ (3 * t) + θ (3 * t + 1) + θ (3 * t + 2) = Real.pi)
    (hand : 3 * faces.length = 2 * E) (hclosed : nBorderV faces nV = 0)
    (hχ : χ = (nV : Int) - (E : Int) + (faces.length : Int)) :
    ∑ v ∈ range nV, defectR faces θ v = 2 * Real.pi * (χ : ℝ) :=
  gauss_bonnet_combinatorial faces nV E 0 χ θ hm hθ (by omega) hclosed hχ

/-! ### instance with the angles the code computes -/

/-- corner angle `c` of the mesh as `corner_angles` computes it (exact real arithmetic) -/
def meshAngle (vs : List V3) (faces : List Face) (c : Nat) : ℝ :=
  angleOfCS ((faces.flatMap (faceCornerCS vs)).getD c (0, 0))

/-- every face is a triangle `[a,b,c]` with pairwise distinct vertex POSITIONS -/
def NonDegenerate (vs : List V3) (faces : List Face) : Prop :=
  ∀ f ∈ faces, ∃ a b c, f = [a, b, c] ∧ pt vs a ≠ pt vs b ∧ pt vs b ≠ pt vs c ∧ pt vs c ≠ pt vs a

theorem faceCornerCS_tri (vs : List V3) (a b c : Nat) :
    faceCornerCS vs [a, b, c] = [cornerCS (pt vs c) (pt vs a) (pt vs b), cornerCS (pt vs a) (pt vs b) (pt vs c),
      cornerCS (pt vs b) (pt vs c) (pt vs a)] := by
  simp [faceCornerCS, List.range, List.range.loop]

theorem flatMap_getD_block {α β} (g : α → List β) (L : List α) (d : β) (hg : ∀ x ∈ L, (g x).length = 3)
    (t i : Nat) (ht : t < L.length) (hi : i < 3) :
    (L.flatMap g).getD (3 * t + i) d = (g (L[t]'ht)).getD i d := by
  induction L generalizing t with
  | nil => simp at ht
  | cons x xs ih =>
    have hx := hg x (by simp)
    rw [List.flatMap_cons]
    cases t with
    | zero =>
      simp only [Nat.mul_zero, Nat.zero_add, List.getElem_cons_zero]
      simp [List.getD, List.getElem?_append_left (show i < (g x).length by omega)]
    | succ t =>
      have ht' : t < xs.length := by simpa using ht
      have := ih (fun y hy => hg y (List.mem_cons_of_mem _ hy)) t ht'
      simp only [List.getElem_cons_succ]
      rw [← this]
      simp only [List.getD]
      rw [List.getElem?_append_right (by omega)]
      congr 2
      omega

theorem meshAngle_sum (vs : List V3) (faces : List Face) (h : NonDegenerate vs faces) :
    ∀ t, t < faces.length →
      meshAngle vs faces (3 * t) + meshAngle vs faces (3 * t + 1) + meshAngle vs faces (3 * t + 2) = Real.pi := by
  intro t ht
  have hlen : ∀ f ∈ faces, (faceCornerCS vs f).length = 3 := by
    intro f hf
    obtain ⟨a, b, c, rfl, _⟩ := h f hf
    rw [faceCornerCS_tri]; rfl
  obtain ⟨a, b, c, hf, hab, hbc, hca⟩ := h (faces[t]'ht) (List.getElem_mem ht)
  unfold meshAngle
  have e0 := flatMap_getD_block (faceCornerCS vs) faces ((0, 0) : Rat × Rat) hlen t 0 ht (by omega)
  have e1 := flatMap_getD_block (faceCornerCS vs) faces ((0, 0) : Rat × Rat) hlen t 1 ht (by omega)
  have e2 := flatMap_getD_block (faceCornerCS vs) faces ((0, 0) : Rat × Rat) hlen t 2 ht (by omega)
  rw [Nat.add_zero] at e0
  rw [e0, e1, e2, hf, faceCornerCS_tri]
  simp only [List.getD, List.getElem?_cons_zero, List.getElem?_cons_succ, Option.getD_some]
  exact angle_sum_pi (pt vs a) (pt vs b) (pt vs c) hab hbc hca

/-- **gauss_bonnet**: for a triangulation with non-degenerate triangles, the angle defects computed from the code's corner angles
(`atan2(√cross², dot)`, border vertices from π) sum to `2π χ` under the handshake / border-cycle / Euler hypotheses -/
theorem gauss_bonnet (vs : List V3) (faces : List Face) (nV E Eb : Nat) (χ : Int) (hm : TriMesh faces nV)
    (hnd : NonDegenerate vs faces) (hand : 3 * faces.length + Eb = 2 * E) (hcycle : nBorderV faces nV = Eb)
    (hχ : χ = (nV : Int) - (E : Int) + (faces.length : Int)) :
    ∑ v ∈ range nV, defectR faces (meshAngle vs faces) v = 2 * Real.pi * (χ : ℝ) :=
  gauss_bonnet_combinatorial faces nV E Eb χ _ hm (meshAngle_sum vs faces hnd) hand hcycle hχ

end

end Mouette.GeomR
