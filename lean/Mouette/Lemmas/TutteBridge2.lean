import Mouette.Generated.C17TutteB
import Mouette.Model.Tutte
import Mathlib.Tactic.Ring
import Mathlib.Tactic.FieldSimp
/-!
Bridge between the second group of fragments re-translated from `tutte.py` on every run (`Generated/C17TutteB.lean`:
CIRCLE and CUSTOM branches of `_initialize_boundary`, the Euler gate and the border order chosen in `run`) and the
hand-written model. A change of the gate's operator or constant, of the angle expression, of the radius, of the
real/imag assignment, of the returned columns or of the border order makes these lemmas fail to compile.
-/
namespace Mouette.Tutte
open Mouette.Generated

/-- the translated gate rejects exactly what the model's `gate` does not accept -/
theorem bridge_gate (nV nE nF : Nat) :
    C17B.rejects ((nV : Int) - (nE : Int) + (nF : Int)) = !gate nV nE nF := by
  unfold C17B.rejects gate
  generalize (nV : Int) - (nE : Int) + (nF : Int) = chi
  by_cases h : chi = 1
  · subst h; rfl
  · have h1 : (chi != 1) = true := by simpa using h
    have h2 : (chi == 1) = false := by simpa using h
    rw [h1, h2]; rfl

theorem bridge_customCols : C17B.customCols = (0, 1) := rfl
theorem bridge_circleRadius : C17B.circleRadius = 1 := rfl
theorem bridge_circleParts : C17B.circleParts = ("real", "imag") := rfl
theorem bridge_bndSource : C17B.bndSource = ("boundary_vertices", "extract_border_cycle") := rfl
theorem bridge_circleCount (n : Nat) : C17B.circleCount n = (circleTurns n).length := by
  unfold C17B.circleCount circleTurns; simp

/-- the translated angle is linear in `pi` … -/
theorem bridge_circleAngle_linear (p : Rat) (n i : Nat) : C17B.circleAngle p n i = p * C17B.circleAngle 1 n i := by
  unfold C17B.circleAngle
  ring

/-- … and is `2·pi` times the fraction of a turn of the model -/
theorem bridge_circleAngle (p : Rat) (n i : Nat) (hi : i < n) :
    ∃ t, (circleTurns n)[i]? = some t ∧ C17B.circleAngle p n i = 2 * p * t := by
  refine ⟨(i : Rat) / (n : Rat), ?_, ?_⟩
  · unfold circleTurns
    rw [List.getElem?_map, List.getElem?_range hi]; rfl
  · unfold C17B.circleAngle
    ring

end Mouette.Tutte
