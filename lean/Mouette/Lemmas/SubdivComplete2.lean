import Mouette.Lemmas.SubdivComplete
import Mouette.Lemmas.SubdivEdges3
import Mouette.Lemmas.SubdivManifold
/-
C13 (round 2): helper lemmas about faces with the same key, about membership in the completed face list, and the
hypotheses under which the completion counts of the volume splits are proved.
-/
namespace Mouette.Subdiv

/-- the face list has pairwise different keys and contains (up to vertex order) every face of every cell -/
def FacesAreCellFaces (m : Raw) : Prop :=
  (m.faces.map keyifyL).Nodup ∧ ∀ cell ∈ m.cells, ∀ f ∈ tetFaces cell, keyifyL f ∈ m.faces.map keyifyL

instance (m : Raw) : Decidable (FacesAreCellFaces m) := by unfold FacesAreCellFaces; infer_instance

/-- the edge list is a duplicate-free list of sorted vertex pairs that contains every side of every face -/
def EdgesCoverSides (m : Raw) : Prop :=
  m.edges.Nodup ∧ (∀ e ∈ m.edges, e.1 < e.2 ∧ e.2 < m.verts.length) ∧ (∀ s ∈ m.faces.flatMap sidesKeyed, s ∈ m.edges)

instance (m : Raw) : Decidable (EdgesCoverSides m) := by unfold EdgesCoverSides; infer_instance

theorem key_mem_of_eq {l₁ l₂ : List Nat} (h : keyifyL l₁ = keyifyL l₂) (t : Nat) (ht : t ∈ l₁) : t ∈ l₂ := by
  rw [← mem_keyifyL l₂, ← h, mem_keyifyL]; exact ht

/-- a face with the key of the triangle (x,y,z) has the same three undirected sides -/
theorem sides_of_same_key (f : List Nat) (x y z : Nat) (hxy : x ≠ y) (hyz : y ≠ z) (hzx : z ≠ x)
    (h : keyifyL f = keyifyL [x, y, z]) : ∀ s, s ∈ sidesKeyed f ↔ s ∈ sidesKeyed [x, y, z] := by
  have hp : f.Perm [x, y, z] := (keyifyL_perm f).symm.trans (h ▸ keyifyL_perm [x, y, z])
  have hl := hp.length_eq
  have hnd : f.Nodup := hp.nodup_iff.mpr (by
    simp only [List.nodup_cons, List.mem_cons, List.not_mem_nil, or_false, not_or, List.nodup_nil, and_true,
      not_false_eq_true]
    exact ⟨⟨hxy, fun e => hzx e.symm⟩, hyz⟩)
  rcases f with _ | ⟨p, _ | ⟨q, _ | ⟨r, _ | ⟨w, t⟩⟩⟩⟩ <;> simp at hl
  have mp := hp.mem_iff (a := p)
  have mq := hp.mem_iff (a := q)
  have mr := hp.mem_iff (a := r)
  simp only [List.mem_cons, List.not_mem_nil, or_false, true_or, or_true, true_iff] at mp mq mr
  obtain ⟨n1, n2, n3⟩ := nodup3 hnd
  intro s
  simp only [sidesKeyed_tri, List.mem_cons, List.not_mem_nil, or_false]
  rcases mp with rfl | rfl | rfl <;> rcases mq with rfl | rfl | rfl <;> rcases mr with rfl | rfl | rfl <;>
    first
    | (exfalso; omega)
    | (rw [keyify_comm p q, keyify_comm q r, keyify_comm r p]; tauto)
    | tauto

/-! ### membership in the completed face list -/

theorem completeFold_mem {β κ} [BEq κ] [LawfulBEq κ] (key : β → κ) : ∀ (L : List β) (start : List κ × List β),
    ∀ f ∈ (completeFold key start L).2, f ∈ start.2 ∨ (f ∈ L ∧ key f ∉ start.1)
  | [], start, f, hf => Or.inl (by simpa [completeFold] using hf)
  | g :: t, start, f, hf => by
    simp only [completeFold, List.foldl_cons] at hf
    by_cases he : start.1.elem (key g) = true
    · simp only [he, if_true] at hf
      rcases completeFold_mem key t start f hf with h | ⟨h1, h2⟩
      · exact Or.inl h
      · exact Or.inr ⟨by simp [h1], h2⟩
    · have he' : start.1.elem (key g) = false := by simpa using he
      simp only [he', Bool.false_eq_true, if_false] at hf
      rcases completeFold_mem key t (start.1 ++ [key g], start.2 ++ [g]) f hf with h | ⟨h1, h2⟩
      · rcases List.mem_append.mp h with h | h
        · exact Or.inl h
        · simp only [List.mem_singleton] at h
          subst h
          exact Or.inr ⟨by simp, fun hc => he (List.elem_iff.mpr hc)⟩
      · exact Or.inr ⟨by simp [h1], fun hc => h2 (List.mem_append_left _ hc)⟩

theorem completeFold_keys {β κ} [BEq κ] (key : β → κ) : ∀ (L : List β) (start : List κ × List β),
    start.1 = start.2.map key → (completeFold key start L).1 = (completeFold key start L).2.map key
  | [], start, h => by simpa [completeFold] using h
  | g :: t, start, h => by
    simp only [completeFold, List.foldl_cons]
    by_cases he : start.1.elem (key g) = true
    · simp only [he, if_true]; exact completeFold_keys key t start h
    · have he' : start.1.elem (key g) = false := by simpa using he
      simp only [he', Bool.false_eq_true, if_false]
      exact completeFold_keys key t _ (by simp [h])

/-- every key met during the completion is the key of a face of the completed list -/
theorem completeFaces_has_key (m : Raw) (f : List Nat) (hf : f ∈ m.cells.flatMap tetFaces) :
    ∃ g ∈ (completeFaces m).faces, keyifyL g = keyifyL f := by
  rw [completeFaces_eq]
  have hk := completeFold_keys keyifyL (m.cells.flatMap tetFaces) (m.faces.map keyifyL, m.faces) rfl
  obtain ⟨h1, _⟩ := completeFold_spec keyifyL (m.cells.flatMap tetFaces) (m.faces.map keyifyL, m.faces)
  have hm := (dedup_foldl_spec' ((m.cells.flatMap tetFaces).map keyifyL) (m.faces.map keyifyL)) (keyifyL f)
  have : keyifyL f ∈ (completeFold keyifyL (m.faces.map keyifyL, m.faces) (m.cells.flatMap tetFaces)).1 := by
    rw [h1]; exact hm.mpr (Or.inr (List.mem_map.mpr ⟨f, hf, rfl⟩))
  rw [hk] at this
  obtain ⟨g, hg, e⟩ := List.mem_map.mp this
  exact ⟨g, hg, e⟩
where
  /-- membership part of `dedup_foldl_spec` without the `Nodup` hypothesis -/
  dedup_foldl_spec' {α} [BEq α] [LawfulBEq α] : ∀ (l acc : List α) (x : α),
      x ∈ l.foldl (fun acc x => if acc.elem x then acc else acc ++ [x]) acc ↔ x ∈ acc ∨ x ∈ l
    | [], acc, x => by simp
    | a :: t, acc, x => by
      simp only [List.foldl_cons]
      by_cases ha : acc.elem a = true
      · have hm : a ∈ acc := List.elem_iff.mp ha
        simp only [ha, if_true]
        rw [dedup_foldl_spec' t acc x]; simp only [List.mem_cons]
        constructor
        · rintro (h | h); exact Or.inl h; exact Or.inr (Or.inr h)
        · rintro (h | h | h); exact Or.inl h; exact Or.inl (h ▸ hm); exact Or.inr h
      · have ha' : acc.elem a = false := by simpa using ha
        simp only [ha', Bool.false_eq_true, if_false]
        rw [dedup_foldl_spec' t (acc ++ [a]) x]
        simp only [List.mem_append, List.mem_cons, List.not_mem_nil, or_false]
        tauto

/-- faces of a tetrahedral cell are triangles on vertices of the cell -/
theorem tetFaces_mem (v0 v1 v2 v3 : Nat) (f : List Nat) (hf : f ∈ tetFaces [v0, v1, v2, v3]) :
    ∃ p q r, f = [p, q, r] ∧ p ∈ [v0, v1, v2, v3] ∧ q ∈ [v0, v1, v2, v3] ∧ r ∈ [v0, v1, v2, v3] ∧
      ([v0, v1, v2, v3].Nodup → p ≠ q ∧ q ≠ r ∧ r ≠ p) := by
  simp only [tetFaces, List.mem_cons, List.not_mem_nil, or_false] at hf
  rcases hf with rfl | rfl | rfl | rfl
  all_goals
    refine ⟨_, _, _, rfl, by simp, by simp, by simp, ?_⟩
    intro hn
    simp only [List.nodup_cons, List.mem_cons, List.not_mem_nil, or_false, not_or, List.nodup_nil, and_true,
      not_false_eq_true] at hn
    omega

end Mouette.Subdiv
