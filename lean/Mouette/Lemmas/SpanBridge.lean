import Mouette.Generated.C16Span
import Mouette.Lemmas.TreesKruskal
/-!
The Kruskal loop of `_build_singularity_spanning_tree_no_features` as written (`Generated/C16Span.lean: spanLoop`) is the C10
Kruskal loop (`Trees.kStep`) on the entries read as weighted edges; the C10 invariant `KInv` then gives: the selected keys form a
forest, and the two ends of EVERY candidate key are linked through selected keys.
-/
namespace Mouette.SpanSrc
open Mouette Mouette.UF Mouette.Trees Mouette.Generated

/-- an entry `(length, (a,b))` read as the weighted edge `(a, b, length)` -/
def asEdge (x : Rat × (Nat × Nat)) : Nat × Nat × Rat := (x.2.1, x.2.2, x.1)

theorem spanStep_kStep (acc : UF.State × List (Nat × Nat)) (x : Rat × (Nat × Nat)) :
    (C16P.spanStep acc x).1 = (kStep (acc.1, acc.2.map (fun k => keyify k.1 k.2)) (asEdge x)).1 ∧
    (C16P.spanStep acc x).2.map (fun k => keyify k.1 k.2) = (kStep (acc.1, acc.2.map (fun k => keyify k.1 k.2)) (asEdge x)).2 := by
  unfold C16P.spanStep kStep asEdge
  simp only []
  cases h : UF.connected acc.1 x.2.1 x.2.2 with
  | none => exact ⟨rfl, rfl⟩
  | some r =>
    obtain ⟨uf, c⟩ := r
    cases c with
    | true => exact ⟨rfl, rfl⟩
    | false => simp

theorem foldl_spanStep : ∀ (es : List (Rat × (Nat × Nat))) (acc : UF.State × List (Nat × Nat)),
    (es.foldl C16P.spanStep acc).1 = ((es.map asEdge).foldl kStep (acc.1, acc.2.map (fun k => keyify k.1 k.2))).1 ∧
    (es.foldl C16P.spanStep acc).2.map (fun k => keyify k.1 k.2) =
      ((es.map asEdge).foldl kStep (acc.1, acc.2.map (fun k => keyify k.1 k.2))).2
  | [], _ => ⟨rfl, rfl⟩
  | x :: es, acc => by
    obtain ⟨a, b⟩ := spanStep_kStep acc x
    have ih := foldl_spanStep es (C16P.spanStep acc x)
    rw [List.foldl_cons, List.map_cons, List.foldl_cons]
    have e : kStep (acc.1, acc.2.map (fun k => keyify k.1 k.2)) (asEdge x) =
        ((C16P.spanStep acc x).1, (C16P.spanStep acc x).2.map (fun k => keyify k.1 k.2)) := by rw [a, b]
    rw [e]; exact ih

/-- BRIDGE: the loop as written = the C10 Kruskal loop on the same entries (same union-find state; the selected keys, keyified,
are the model's tree edges) -/
theorem spanLoop_bridge (es : List (Rat × (Nat × Nat))) (uf : UF.State) :
    (C16P.spanLoop es uf).1 = (kruskalLoop (es.map asEdge) uf).1 ∧
    (C16P.spanLoop es uf).2.map (fun k => keyify k.1 k.2) = (kruskalLoop (es.map asEdge) uf).2 := by
  have := foldl_spanStep es (uf, [])
  simpa [C16P.spanLoop, kruskalLoop_eq] using this

/-- membership in the candidate keys -/
theorem mem_candKeys_border {sing : List Nat} {border a : Nat} (ha : a ∈ sing) :
    (border, a) ∈ C16P.candKeys sing true border := by
  unfold C16P.candKeys
  obtain ⟨i, hi, rfl⟩ := List.mem_iff_getElem.mp ha
  rw [List.mem_flatMap]
  refine ⟨(sing[i], i), ?_, by simp⟩
  rw [List.mem_zipIdx_iff_getElem?]
  simp [hi]

theorem mem_candKeys_pair {sing : List Nat} {hasBorder : Bool} {border : Nat} {i j : Nat} (hij : i ≤ j) (hj : j < sing.length) :
    keyify (sing.getD i 0) (sing.getD j 0) ∈ C16P.candKeys sing hasBorder border := by
  unfold C16P.candKeys
  have hi : i < sing.length := by omega
  rw [List.mem_flatMap]
  refine ⟨(sing[i], i), ?_, ?_⟩
  · rw [List.mem_zipIdx_iff_getElem?]; simp [hi]
  · rw [List.mem_append]; left
    rw [List.mem_map]
    refine ⟨sing.getD j 0, ?_, ?_⟩
    · rw [List.mem_drop_iff_getElem]
      refine ⟨j - i, by omega, ?_⟩
      have : i + (j - i) = j := by omega
      simp [this, List.getD_eq_getElem?_getD, hj]
    · simp [List.getD_eq_getElem?_getD, hi]

/-- THE SPANNING FOREST: run the loop as written on ANY list of entries that contains every candidate key (the sorted list does),
all ids `< n`, from the union-find over `range n`. Then the selected keys come from a list `C` of united pairs that is a forest
(`Indep`), and the two ends of every candidate key are linked through `C`; in particular every singularity is linked to the
BORDER node when the mesh has a border, and any two singularities are linked to each other. -/
theorem spanning_forest (n : Nat) (sing : List Nat) (hasBorder : Bool) (border : Nat) (es : List (Rat × (Nat × Nat)))
    (hlt : ∀ x, x ∈ es → x.2.1 < n ∧ x.2.2 < n)
    (hall : ∀ k, k ∈ C16P.candKeys sing hasBorder border → ∃ x, x ∈ es ∧ x.2 = k) :
    ∃ C : List (Nat × Nat), (C16P.spanLoop es (ufInit n)).2.map (fun k => keyify k.1 k.2) = C.reverse.map (fun p => keyify p.1 p.2) ∧
      Indep C ∧ (∀ p, p ∈ C → ∃ x, x ∈ es ∧ p = x.2) ∧
      (hasBorder = true → ∀ a, a ∈ sing → EqvClosure (fun x y => (x, y) ∈ C) border a) ∧
      (∀ i j, i < sing.length → j < sing.length → EqvClosure (fun x y => (x, y) ∈ C) (sing.getD i 0) (sing.getD j 0)) := by
  have K := kinv_fold (es.map asEdge) [] (ufInit n, []) (by
    intro e he
    obtain ⟨x, hx, rfl⟩ := List.mem_map.mp he
    exact hlt x hx) (kinv_init n)
  obtain ⟨ops, C, _, _, _, h4, h5, h6, h7⟩ := K.hist
  have hb := (spanLoop_bridge es (ufInit n)).2
  rw [kruskalLoop_eq] at hb
  have link : ∀ k, k ∈ C16P.candKeys sing hasBorder border → EqvClosure (fun x y => (x, y) ∈ C) k.1 k.2 := by
    intro k hk
    obtain ⟨x, hx, rfl⟩ := hall k hk
    exact h7 (asEdge x) (by simpa using List.mem_map.mpr ⟨x, hx, rfl⟩)
  refine ⟨C, by rw [hb, h4], h5, ?_, ?_, ?_⟩
  · intro p hp
    obtain ⟨e, he, hpe⟩ := h6 p hp
    simp only [List.nil_append] at he
    obtain ⟨x, hx, rfl⟩ := List.mem_map.mp he
    exact ⟨x, hx, by rw [hpe]; rfl⟩
  · intro hB a ha
    subst hB
    exact link (border, a) (mem_candKeys_border ha)
  · intro i j hi hj
    rcases Nat.le_total i j with h | h
    · have := link _ (mem_candKeys_pair (hasBorder := hasBorder) (border := border) h hj)
      rcases keyify_fst_snd (sing.getD i 0) (sing.getD j 0) with ⟨e1, e2⟩ | ⟨e1, e2⟩
      · rw [e1, e2] at this; exact this
      · rw [e1, e2] at this; exact this.symm
    · have := link _ (mem_candKeys_pair (hasBorder := hasBorder) (border := border) h hi)
      rcases keyify_fst_snd (sing.getD j 0) (sing.getD i 0) with ⟨e1, e2⟩ | ⟨e1, e2⟩
      · rw [e1, e2] at this; exact this.symm
      · rw [e1, e2] at this; exact this

end Mouette.SpanSrc
