import Mouette.Model.Operators
import Mouette.Lemmas.OpLemmas
/-
C08: the matrix denoted by a triplet list does not depend on the ORDER of the triplets (duplicates are summed), so bridges to
translated write lists can be stated up to permutation (a harmless reordering of the source's writes keeps them provable).
-/
namespace Mouette.Ops
open Mouette.Geom

theorem rsum_perm {l₁ l₂ : List Rat} (h : l₁.Perm l₂) : rsum l₁ = rsum l₂ := by
  induction h with
  | nil => rfl
  | cons x _ ih => simp only [rsum_cons, ih]
  | swap x y l => simp only [rsum_cons]; ring
  | trans _ _ ih1 ih2 => rw [ih1, ih2]

theorem toFun_perm {A B : List Trip} (h : A.Perm B) (i j : Nat) : toFun A i j = toFun B i j := by
  unfold toFun
  exact rsum_perm (h.map _)

theorem rowSum_perm {A B : List Trip} (h : A.Perm B) (i : Nat) : rowSum A i = rowSum B i := by
  unfold rowSum
  exact rsum_perm (h.map _)

theorem eval_perm (w : Nat → Rat) {A B : List SEntry} (h : A.Perm B) : (eval w A).Perm (eval w B) := h.map _

end Mouette.Ops
