import Mouette.Generated.C20UF
import Mouette.Generated.C20PQ
import Mouette.Lemmas.UFSource
import Mouette.Lemmas.BinHeap
/-!
Histories run on the TRANSLATED definitions (`Generated/C20UF.lean`, `Generated/C20PQ.lean`): the same operations as the
hand model's `UF.step` / `UF.run`, each dispatched to the definition extracted from the source. Definitions only; the
bridges are in `Props/C20Source.lean`.
-/
namespace Mouette.C20Src
open Mouette.UF Mouette.UFS
open Mouette.Generated

/-- forget `_indx` in the result of a raising method -/
def lift {α : Type} (o : Option (St × α)) : Option (State × α) := o.map (fun r => (r.1.toState, r.2))

/-- state after one operation of a history on the translated definitions (an exception leaves the state unchanged) -/
def srcStep (g : St) : Op → St
  | .add x => C20.add g x
  | .union x y => match C20.union g x y with | some (g', _) => g' | none => g
  | .find x => match C20.find g x with | some (g', _) => g' | none => g
  | .connected x y => match C20.connected g x y with | some (g', _) => g' | none => g
  | .component x => match C20.component g x with | some (g', _) => g' | none => g

/-- a history on the translated definitions, from `UnionFind()` -/
def srcRun (ops : List Op) : St := ops.foldl srcStep C20.init

/-- `UnionFind(elements)` followed by a history -/
def srcRunFrom (elements : List Nat) (ops : List Op) : St := ops.foldl srcStep (C20.ctor C20.init elements)

/-! ### priority queue histories on the translated definitions -/

open Mouette.PQ Mouette.BinHeap

/-- operations of a queue history -/
inductive QOp where
  | push (x : Nat) (w : Prio)
  | pop
deriving Repr, DecidableEq

/-- `self.data` after one operation (a pop on the empty queue raises and leaves it unchanged) -/
def pqStep (d : List Item) : QOp → List Item
  | .push x w => C20PQ.push d x w
  | .pop => match C20PQ.pop_ d with | some (_, d') => d' | none => d

/-- `self.data` after a history, from `PriorityQueue()` -/
def pqRun (ops : List QOp) : List Item := ops.foldl pqStep C20PQ.initData

/-- the observable events of a history run on the translated `push` / `pop`: every push, and every successful pop
together with the item it handed out -/
def pqEvents (d : List Item) : List QOp → List Ev
  | [] => []
  | .push x w :: ops => .push x w :: pqEvents (C20PQ.push d x w) ops
  | .pop :: ops => match C20PQ.pop_ d with
    | some (e, d') => .pop e :: pqEvents d' ops
    | none => pqEvents d ops

/-! ### several instances of one class

`World σ`: the objects reachable through the attribute under study - ONE object owned by the class body and one per
instance. `home` (extracted from the source) says which of them `self.<attr>` denotes. -/

structure World (σ : Type) where
  shared : σ
  own : Nat → σ

def World.get {σ : Type} (home : AttrHome) (w : World σ) (i : Nat) : σ :=
  match home with
  | .instance => w.own i
  | .classBody => w.shared

def World.set {σ : Type} (home : AttrHome) (w : World σ) (i : Nat) (v : σ) : World σ :=
  match home with
  | .instance => { w with own := fun j => if j = i then v else w.own j }
  | .classBody => { w with shared := v }

/-- an interleaved history: each operation is applied to the instance it is tagged with -/
def runTagged {σ op : Type} (home : AttrHome) (step : σ → op → σ) (init : σ) (ops : List (Nat × op)) : World σ :=
  ops.foldl (fun w o => w.set home o.1 (step (w.get home o.1) o.2)) ⟨init, fun _ => init⟩

/-- the operations of instance `i`, in order -/
def project {op : Type} (i : Nat) (ops : List (Nat × op)) : List op := (ops.filter (fun o => o.1 == i)).map (·.2)

theorem runTagged_instance_aux {σ op : Type} (step : σ → op → σ) (i : Nat) : ∀ (ops : List (Nat × op)) (w : World σ),
    (ops.foldl (fun w o => w.set .instance o.1 (step (w.get .instance o.1) o.2)) w).own i
      = (project i ops).foldl step (w.own i) := by
  intro ops
  induction ops with
  | nil => intro w; rfl
  | cons o ops ih =>
    intro w
    rw [List.foldl_cons, ih]
    by_cases h : o.1 = i
    · subst h
      simp [project, World.set, World.get]
    · have : (o.1 == i) = false := by simp [h]
      have h' : ¬ i = o.1 := fun e => h e.symm
      simp [project, World.set, World.get, this, h']

/-- instance attributes: what instance `i` holds only depends on ITS OWN operations -/
theorem runTagged_instance {σ op : Type} (step : σ → op → σ) (init : σ) (ops : List (Nat × op)) (i : Nat) :
    (runTagged .instance step init ops).get .instance i = (project i ops).foldl step init :=
  runTagged_instance_aux step i ops _

/-- class-body attribute: every instance holds the result of ALL the operations, whoever they were addressed to -/
theorem runTagged_classBody {σ op : Type} (step : σ → op → σ) (init : σ) (ops : List (Nat × op)) (i : Nat) :
    (runTagged .classBody step init ops).get .classBody i = (ops.map (·.2)).foldl step init := by
  have aux : ∀ (ops : List (Nat × op)) (w : World σ),
      (ops.foldl (fun w o => w.set .classBody o.1 (step (w.get .classBody o.1) o.2)) w).shared
        = (ops.map (·.2)).foldl step w.shared := by
    intro ops
    induction ops with
    | nil => intro w; rfl
    | cons o ops ih => intro w; rw [List.foldl_cons, ih]; rfl
  exact aux ops _

end Mouette.C20Src
