import Mouette.Lemmas.CuttingEuler
/-!
The missing step of the Euler count (round 3): if the uncut interior edges, taken as dual edges in the order the code
processes them, never close a cycle among the faces (each one joins two different classes of a union-find over the
faces: a dual FOREST; with `|uncut| = F − 1` and one class: a spanning TREE), then every one of the `2·|uncut|` corner
unions of `_build_mesh_with_cuts` joins two distinct classes.

Invariant: two corners of one class lie in faces of one face-class; and corners of one class belong to one original
vertex (`Resp`).
-/
namespace Mouette.Cutting
open Mouette Mouette.UF

/-- corners of one class lie in faces of one class -/
def FaceCompat (s t : State) (n : Nat) : Prop :=
  ∀ c c', c < n → c' < n → classOf s c = classOf s c' → classOf t (c / 3) = classOf t (c' / 3)

/-- what is needed of the two union pairs `(A₁,A₂)`, `(B₁,B₂)` of one uncut edge -/
structure EdgeOK {α : Type} (n nF : Nat) (lab : Nat → α) (e : (Nat × Nat) × (Nat × Nat)) : Prop where
  a1 : e.1.1 < n
  a2 : e.1.2 < n
  b1 : e.2.1 < n
  b2 : e.2.2 < n
  f1 : e.1.1 / 3 = e.2.1 / 3
  f2 : e.1.2 / 3 = e.2.2 / 3
  g1 : e.1.1 / 3 < nF
  g2 : e.1.2 / 3 < nF
  la : lab e.1.1 = lab e.1.2
  lb : lab e.2.1 = lab e.2.2
  ne : lab e.1.1 ≠ lab e.2.1

def pairsOfEdges : List ((Nat × Nat) × (Nat × Nat)) → List (Nat × Nat)
  | [] => []
  | e :: l => e.1 :: e.2 :: pairsOfEdges l

/-- the dual edges: the two faces of every uncut edge -/
def facePairs : List ((Nat × Nat) × (Nat × Nat)) → List (Nat × Nat)
  | [] => []
  | e :: l => (e.1.1 / 3, e.1.2 / 3) :: facePairs l

theorem facePairs_length : ∀ es : List ((Nat × Nat) × (Nat × Nat)), (facePairs es).length = es.length
  | [] => rfl
  | _ :: l => by simp [facePairs, facePairs_length l]

theorem classOf_eq_of_resp {α : Type} {s : State} {lab : Nat → α} {n : Nat} (inv : Inv s)
    (he : s.elts = List.range n) (r : Resp s lab) {c c' : Nat} (hc : c < n) (hc' : c' < n)
    (h : classOf s c = classOf s c') : lab c = lab c' := by
  have h1 := r c (mem_range_elts he hc)
  have h2 := r c' (mem_range_elts he hc')
  rw [← h1, ← h2, h]

/-- a union whose two arguments lie in faces of one class keeps the compatibility -/
theorem faceCompat_union {s t : State} {n : Nat} (inv : Inv s) (he : s.elts = List.range n)
    (J : FaceCompat s t n) {x y : Nat} (hx : x < n) (hy : y < n)
    (hf : classOf t (x / 3) = classOf t (y / 3)) : FaceCompat (union s x y) t n := by
  have hxm := mem_range_elts he hx
  have hym := mem_range_elts he hy
  have hadd : add (add s x) y = s := by rw [add_of_mem hxm, add_of_mem hym]
  obtain ⟨a, b, hab, hc⟩ := classOf_union inv x y
  rw [hadd] at hab hc
  intro c c' hcn hc'n h
  rw [hc c (mem_range_elts he hcn), hc c' (mem_range_elts he hc'n)] at h
  have key : ∀ z, z < n → classOf s z = a ∨ classOf s z = b →
      classOf t (z / 3) = classOf t (x / 3) := by
    intro z hz hzab
    rcases hab with ⟨ha, hb⟩ | ⟨ha, hb⟩
    · rcases hzab with h1 | h1
      · exact J z x hz hx (by rw [h1, ha])
      · rw [hf]; exact J z y hz hy (by rw [h1, hb])
    · rcases hzab with h1 | h1
      · rw [hf]; exact J z y hz hy (by rw [h1, ha])
      · exact J z x hz hx (by rw [h1, hb])
  by_cases h1 : classOf s c = a <;> by_cases h2 : classOf s c' = a
  · exact J c c' hcn hc'n (by rw [h1, h2])
  · rw [if_pos h1, if_neg h2] at h
    rw [key c hcn (Or.inl h1), key c' hc'n (Or.inr h.symm)]
  · rw [if_neg h1, if_pos h2] at h
    rw [key c hcn (Or.inr h), key c' hc'n (Or.inl h2)]
  · rw [if_neg h1, if_neg h2] at h
    exact J c c' hcn hc'n h

/-- merging two face classes keeps the compatibility -/
theorem faceCompat_faceUnion {s t : State} {n nF : Nat} (invt : Inv t) (het : t.elts = List.range nF)
    (hn : n ≤ 3 * nF) (J : FaceCompat s t n) {f g : Nat} (hf : f < nF) (hg : g < nF) :
    FaceCompat s (union t f g) n := by
  have hfm := mem_range_elts het hf
  have hgm := mem_range_elts het hg
  have hadd : add (add t f) g = t := by rw [add_of_mem hfm, add_of_mem hgm]
  intro c c' hc hc' h
  have e1 : c / 3 ∈ (add (add t f) g).elts := by rw [hadd]; exact mem_range_elts het (by omega)
  have e2 : c' / 3 ∈ (add (add t f) g).elts := by rw [hadd]; exact mem_range_elts het (by omega)
  apply same_union invt f g e1 e2
  rw [hadd]; exact J c c' hc hc' h

/-- the core step: all corner unions are effective along a dual forest -/
theorem effective_of_dual_forest {α : Type} (lab : Nat → α) (n nF : Nat) (hn : n ≤ 3 * nF) :
    ∀ (es : List ((Nat × Nat) × (Nat × Nat))) (s t : State),
      (∀ e, e ∈ es → EdgeOK n nF lab e) →
      Inv s → s.elts = List.range n → Resp s lab → Inv t → t.elts = List.range nF → FaceCompat s t n →
      effCount t (facePairs es) = es.length →
      effCount s (pairsOfEdges es) = 2 * es.length
  | [], _, _, _, _, _, _, _, _, _, _ => rfl
  | e :: es, s, t, ok, inv, he, r, invt, het, J, hdual => by
    have eo := ok e List.mem_cons_self
    -- the face union is effective, and so are the remaining ones
    have hle := effCount_le (union t (e.1.1 / 3) (e.1.2 / 3)) (facePairs es)
    rw [facePairs_length] at hle
    have hdual' : (if classOf t (e.1.1 / 3) = classOf t (e.1.2 / 3) then 0 else 1) +
        effCount (union t (e.1.1 / 3) (e.1.2 / 3)) (facePairs es) = es.length + 1 := by
      have := hdual
      simp only [facePairs, effCount, List.length_cons] at this
      exact this
    have hfne : classOf t (e.1.1 / 3) ≠ classOf t (e.1.2 / 3) := by
      intro heq; rw [if_pos heq] at hdual'; omega
    have hrest : effCount (union t (e.1.1 / 3) (e.1.2 / 3)) (facePairs es) = es.length := by
      rw [if_neg hfne] at hdual'; omega
    -- first corner union: effective
    have h1 : classOf s e.1.1 ≠ classOf s e.1.2 := fun heq => hfne (J _ _ eo.a1 eo.a2 heq)
    -- second corner union: effective in the state after the first
    have hxm := mem_range_elts he eo.a1
    have hym := mem_range_elts he eo.a2
    have hadd : add (add s e.1.1) e.1.2 = s := by rw [add_of_mem hxm, add_of_mem hym]
    have inv1 : Inv (union s e.1.1 e.1.2) := (union_spec inv e.1.1 e.1.2).1
    have he1 : (union s e.1.1 e.1.2).elts = List.range n := by rw [union_elts_of_mem inv hxm hym, he]
    have r1 : Resp (union s e.1.1 e.1.2) lab := resp_union inv r eo.la
    have h2 : classOf (union s e.1.1 e.1.2) e.2.1 ≠ classOf (union s e.1.1 e.1.2) e.2.2 := by
      obtain ⟨a, b, hab, hc⟩ := classOf_union inv e.1.1 e.1.2
      rw [hadd] at hab hc
      rw [hc e.2.1 (mem_range_elts he eo.b1), hc e.2.2 (mem_range_elts he eo.b2)]
      -- classes of B₁, B₂ are different from those of A₁, A₂ (labels, faces)
      have nB1A1 : classOf s e.2.1 ≠ classOf s e.1.1 := fun h =>
        eo.ne (classOf_eq_of_resp inv he r eo.b1 eo.a1 h).symm
      have nB2A2 : classOf s e.2.2 ≠ classOf s e.1.2 := fun h =>
        eo.ne ((eo.la.trans (classOf_eq_of_resp inv he r eo.b2 eo.a2 h).symm).trans eo.lb.symm)
      have nB1A2 : classOf s e.2.1 ≠ classOf s e.1.2 := fun h =>
        hfne (by rw [eo.f1]; exact J _ _ eo.b1 eo.a2 h)
      have nB2A1 : classOf s e.2.2 ≠ classOf s e.1.1 := fun h =>
        hfne (by rw [eo.f2]; exact (J _ _ eo.b2 eo.a1 h).symm)
      have nB1B2 : classOf s e.2.1 ≠ classOf s e.2.2 := fun h =>
        hfne (by rw [eo.f1, eo.f2]; exact J _ _ eo.b1 eo.b2 h)
      have hna1 : classOf s e.2.1 ≠ a := by
        rcases hab with ⟨ha, _⟩ | ⟨ha, _⟩ <;> rw [ha] <;> assumption
      have hna2 : classOf s e.2.2 ≠ a := by
        rcases hab with ⟨ha, _⟩ | ⟨ha, _⟩ <;> rw [ha] <;> assumption
      rw [if_neg hna1, if_neg hna2]
      exact nB1B2
    -- invariants for the rest
    have invt' : Inv (union t (e.1.1 / 3) (e.1.2 / 3)) := (union_spec invt _ _).1
    have het' : (union t (e.1.1 / 3) (e.1.2 / 3)).elts = List.range nF := by
      rw [union_elts_of_mem invt (mem_range_elts het eo.g1) (mem_range_elts het eo.g2), het]
    have J0 : FaceCompat s (union t (e.1.1 / 3) (e.1.2 / 3)) n :=
      faceCompat_faceUnion invt het hn J eo.g1 eo.g2
    have hjoin : classOf (union t (e.1.1 / 3) (e.1.2 / 3)) (e.1.1 / 3) =
        classOf (union t (e.1.1 / 3) (e.1.2 / 3)) (e.1.2 / 3) := union_joins invt _ _
    have J1 : FaceCompat (union s e.1.1 e.1.2) (union t (e.1.1 / 3) (e.1.2 / 3)) n :=
      faceCompat_union inv he J0 eo.a1 eo.a2 hjoin
    have hjoin2 : classOf (union t (e.1.1 / 3) (e.1.2 / 3)) (e.2.1 / 3) =
        classOf (union t (e.1.1 / 3) (e.1.2 / 3)) (e.2.2 / 3) := by rw [← eo.f1, ← eo.f2]; exact hjoin
    have hb1m := mem_range_elts he1 eo.b1
    have hb2m := mem_range_elts he1 eo.b2
    have inv2 : Inv (union (union s e.1.1 e.1.2) e.2.1 e.2.2) := (union_spec inv1 _ _).1
    have he2 : (union (union s e.1.1 e.1.2) e.2.1 e.2.2).elts = List.range n := by
      rw [union_elts_of_mem inv1 hb1m hb2m, he1]
    have r2 : Resp (union (union s e.1.1 e.1.2) e.2.1 e.2.2) lab := resp_union inv1 r1 eo.lb
    have J2 := faceCompat_union inv1 he1 J1 eo.b1 eo.b2 hjoin2
    have ih := effective_of_dual_forest lab n nF hn es _ _ (fun x hx => ok x (List.mem_cons_of_mem _ hx))
      inv2 he2 r2 invt' het' J2 hrest
    simp only [pairsOfEdges, effCount, List.length_cons]
    rw [if_neg h1, if_neg h2, ih]
    omega

/-- in `UnionFind(range(n))` every element is its own class -/
theorem classOf_ufRange {n c : Nat} (hc : c < n) : classOf (ufRange n) c = c := by
  obtain ⟨inv, he, r⟩ := ufRange_spec (fun x => x) n
  have h := r c (mem_range_elts he hc)
  have hlt : classOf (ufRange n) c < n := by
    have := classOf_lt inv (mem_range_elts he hc)
    rw [he] at this; simpa using this
  rw [eltAt_range he hlt] at h
  exact h

theorem faceCompat_init (n nF : Nat) : FaceCompat (ufRange n) (ufRange nF) n := by
  intro c c' hc hc' h
  rw [classOf_ufRange hc, classOf_ufRange hc'] at h
  rw [h]

/-- a spanning tree: `|pairs| + 1` elements and one class at the end force every union to be effective -/
theorem all_effective_of_one_class (nF : Nat) (fp : List (Nat × Nat)) (hb : ∀ p, p ∈ fp → p.1 < nF ∧ p.2 < nF)
    (hsize : fp.length + 1 = nF) (hone : (applyUnions (ufRange nF) fp).nComps = 1) :
    effCount (ufRange nF) fp = fp.length := by
  obtain ⟨inv0, he0, _⟩ := ufRange_spec (fun _ => ()) nF
  have h := nComps_applyUnions nF fp _ inv0 he0 hb
  rw [ufRange_nComps, hone] at h
  have := effCount_le (ufRange nF) fp
  omega

/-! ### the union pairs of `_build_mesh_with_cuts` have that shape -/

theorem gluePairs_verts {F : List Face} {ab : Nat × Nat} {p q : Nat × Nat}
    (h : gluePairs (halfEdges F) (cornerFaces F) ab = some (p, q)) :
    vertOf F p.1 = ab.1 ∧ vertOf F q.1 = ab.2 := by
  unfold gluePairs at h
  split at h
  · rename_i f1 iA1 iB1 f2 iB2 iA2 hd1 hd2
    split at h
    · rename_i c1 c2 c3 c4 hc1 hc2 hc3 hc4
      injection h with h
      injection h with hp hq
      subst hp; subst hq
      obtain ⟨e1, e2⟩ := directFace_spec hd1
      exact ⟨(vertOf_corner hc1 e1).2, (vertOf_corner hc3 e2).2⟩
    · cases h
  · cases h

theorem nxt_div (c : Nat) : nxt c / 3 = c / 3 := by unfold nxt; omega

theorem gluePairs_edgeOK {F : List Face} (tri : AllTri F) {ab : Nat × Nat} {p q : Nat × Nat}
    (h : gluePairs (halfEdges F) (cornerFaces F) ab = some (p, q)) (hne : ab.1 ≠ ab.2) :
    EdgeOK (3 * F.length) F.length (vertOf F) (p, q) := by
  have hlen : (cornerVerts F).length = 3 * F.length := flatten_length_tri F tri
  obtain ⟨⟨p1, p2, pl⟩, ⟨q1, q2, ql⟩⟩ := gluePairs_spec h
  obtain ⟨s1, s2⟩ := gluePairs_sides tri h
  obtain ⟨v1, v2⟩ := gluePairs_verts h
  rw [hlen] at p1 p2 q1 q2
  refine ⟨p1, p2, q1, q2, ?_, ?_, ?_, ?_, pl, ql, ?_⟩
  · show p.1 / 3 = q.1 / 3
    rw [← s1, nxt_div]
  · show p.2 / 3 = q.2 / 3
    rw [← s2, nxt_div]
  · show p.1 / 3 < F.length
    omega
  · show p.2 / 3 < F.length
    omega
  · show vertOf F p.1 ≠ vertOf F q.1
    rw [v1, v2]; exact hne

theorem unionPairs_edges {F : List Face} (tri : AllTri F) : ∀ (uncut ps : List (Nat × Nat)),
    unionPairs (halfEdges F) (cornerFaces F) uncut = some ps → (∀ ab, ab ∈ uncut → ab.1 ≠ ab.2) →
    ∃ es, ps = pairsOfEdges es ∧ es.length = uncut.length ∧
      ∀ e, e ∈ es → EdgeOK (3 * F.length) F.length (vertOf F) e
  | [], ps, h, _ => by
    simp only [unionPairs, Option.some.injEq] at h
    subst h
    exact ⟨[], rfl, rfl, fun e he => by simp at he⟩
  | ab :: r, ps, h, hne => by
    unfold unionPairs at h
    split at h
    · rename_i p q l hg hr
      injection h with h
      subst h
      obtain ⟨es, e1, e2, e3⟩ := unionPairs_edges tri r l hr (fun x hx => hne x (List.mem_cons_of_mem _ hx))
      refine ⟨(p, q) :: es, by rw [e1]; rfl, by simp [e2], ?_⟩
      intro e he
      rcases List.mem_cons.mp he with he | he
      · subst he; exact gluePairs_edgeOK tri hg (hne ab List.mem_cons_self)
      · exact e3 e he
    · cases h

end Mouette.Cutting
