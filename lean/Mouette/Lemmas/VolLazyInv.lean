import Mouette.Model.VolLazy
/-!
The invariant argument behind `wellGuarded`: a set of states that contains the fresh state, is closed
under every public query and on which no query fails, contains every state reached by any history.
-/
namespace Mouette.VolLazy
namespace Table
variable (t : Table)

theorem closedUnder_step {R : List State} (hR : t.closedUnder R = true) {s : State} (hs : s ∈ R)
    {q : Nat} (hq : q ∈ t.alphabet) : (t.stepQ s q).2 = .ok ∧ (t.stepQ s q).1 ∈ R := by
  unfold closedUnder at hR
  rw [List.all_eq_true] at hR
  have h1 := hR s hs
  rw [List.all_eq_true] at h1
  have h2 := h1 q hq
  simp only [Bool.and_eq_true, beq_iff_eq] at h2
  exact ⟨h2.1, by simpa using h2.2⟩

/-- every outcome of every history over the alphabet, started in a state of a closed set, is `ok` -/
theorem run_ok_of_closed {R : List State} (hR : t.closedUnder R = true) :
    ∀ (qs : List Nat) (s : State), s ∈ R → (∀ q ∈ qs, q ∈ t.alphabet) → ∀ o ∈ t.run s qs, o = .ok := by
  intro qs
  induction qs with
  | nil => intro s _ _ o ho; simp [run] at ho
  | cons q qs ih =>
    intro s hs hq o ho
    simp only [run, List.mem_cons] at ho
    obtain ⟨hok, hmem⟩ := t.closedUnder_step hR hs (hq q (by simp))
    rcases ho with rfl | ho
    · exact hok
    · exact ih _ hmem (fun q' hq' => hq q' (by simp [hq'])) o ho

theorem history_safe_of_wellGuarded (h : t.wellGuarded = true) (qs : List Nat)
    (hq : ∀ q ∈ qs, q ∈ t.alphabet) : t.fresh.2 = .ok ∧ ∀ o ∈ t.run t.fresh.1 qs, o = .ok := by
  unfold wellGuarded at h
  simp only [Bool.and_eq_true, beq_iff_eq] at h
  obtain ⟨⟨h1, h2⟩, h3⟩ := h
  exact ⟨h1, t.run_ok_of_closed h3 qs _ (by simpa using h2) hq⟩

end Table
end Mouette.VolLazy
