import Mathlib.Tactic.Ring
import Mathlib.Tactic.Linarith
import Mouette.Lemmas.C19Bezier
import Mouette.Generated.C19DC
/-
C19 round 2 — the loop nest of `de_casteljau` read imperatively (array = list, `coeffs[k]` = `getD`,
`coeffs[k] = x` = `set`) with the bounds / target / update expression / result index extracted from the source,
and the proof that this imperative reading equals the structural model `Bezier.deCasteljau`.
-/
namespace Mouette.Lemmas.C19
open Mouette.Bezier

/-- inner loop: `for i in range(n): coeffs[tgt i] = upd coeffs i` -/
def impInner (tgt : Nat → Nat) (upd : (Nat → Rat) → Nat → Rat) (n : Nat) (l : List Rat) : List Rat :=
  (List.range n).foldl (fun c i => c.set (tgt i) (upd (fun k => c.getD k 0) i)) l

/-- outer loop: `for j in range(outer): <inner loop of size inner j>` -/
def impOuter (tgt : Nat → Nat) (upd : (Nat → Rat) → Nat → Rat) (outer : Nat) (inner : Nat → Nat) (l : List Rat) : List Rat :=
  (List.range outer).foldl (fun c j => impInner tgt upd (inner j) c) l

/-- `de_casteljau` (without the guard) with every loop bound, index and the update expression taken from
`Generated/C19DC.lean`, i.e. from the source text -/
def srcDeCasteljau (t : Rat) (P : List Rat) : Rat :=
  let order := Mouette.Generated.C19.dcOrder P.length
  (impOuter Mouette.Generated.C19.dcTarget (Mouette.Generated.C19.dcUpdate t) (Mouette.Generated.C19.dcOuter order)
    (Mouette.Generated.C19.dcInner order) P).getD Mouette.Generated.C19.dcResult 0

/-- the update of the model, as a function of the array -/
def lerpUpd (t : Rat) (c : Nat → Rat) (i : Nat) : Rat := lerp t (c i) (c (i + 1))

theorem pass_length (t : Rat) : ∀ (n : Nat) (l : List Rat), (pass t n l).length = l.length := by
  intro n
  induction n with
  | zero => intro l; rw [pass_zero]
  | succ n ih =>
    intro l
    match l with
    | [] => simp [pass]
    | [a] => simp [pass]
    | a :: b :: r =>
      have := ih (b :: r)
      simp only [pass, List.length_cons] at this ⊢
      omega

theorem pass_getD (t : Rat) : ∀ (n : Nat) (l : List Rat), n + 1 ≤ l.length → ∀ k,
    (pass t n l).getD k 0 = if k < n then lerp t (l.getD k 0) (l.getD (k + 1) 0) else l.getD k 0 := by
  intro n
  induction n with
  | zero => intro l _ k; rw [pass_zero]; simp
  | succ n ih =>
    intro l hl k
    match l, hl with
    | a :: b :: r, hl =>
      have hl' : n + 1 ≤ (b :: r).length := by simp only [List.length_cons] at hl ⊢; omega
      cases k with
      | zero => simp [pass]
      | succ k =>
        have := ih (b :: r) hl' k
        simp only [pass, List.getD_cons_succ] at this ⊢
        rw [this]
        by_cases h : k < n
        · simp [h]
        · simp [h]

theorem impInner_succ (tgt : Nat → Nat) (upd : (Nat → Rat) → Nat → Rat) (n : Nat) (l : List Rat) :
    impInner tgt upd (n + 1) l =
      (impInner tgt upd n l).set (tgt n) (upd (fun k => (impInner tgt upd n l).getD k 0) n) := by
  simp [impInner, List.range_succ, List.foldl_append]

theorem impInner_length (upd : (Nat → Rat) → Nat → Rat) : ∀ (n : Nat) (l : List Rat),
    (impInner id upd n l).length = l.length := by
  intro n
  induction n with
  | zero => intro l; simp [impInner]
  | succ n ih => intro l; rw [impInner_succ, List.length_set, ih]

theorem getD_set (l : List Rat) (i k : Nat) (a : Rat) :
    (l.set i a).getD k 0 = if i = k ∧ i < l.length then a else l.getD k 0 := by
  simp only [List.getD_eq_getElem?_getD, List.getElem?_set]
  by_cases h : i = k
  · by_cases h2 : i < l.length
    · subst h; simp [h2]
    · subst h
      have : l[i]? = none := by simp; omega
      simp [h2, this]
  · simp [h]

theorem impInner_getD (t : Rat) : ∀ (n : Nat) (l : List Rat), n + 1 ≤ l.length → ∀ k,
    (impInner id (lerpUpd t) n l).getD k 0 = if k < n then lerp t (l.getD k 0) (l.getD (k + 1) 0) else l.getD k 0 := by
  intro n
  induction n with
  | zero => intro l _ k; simp [impInner]
  | succ n ih =>
    intro l hl k
    have hl' : n + 1 ≤ l.length := by omega
    have hlen := impInner_length (lerpUpd t) n l
    rw [impInner_succ, getD_set, hlen]
    simp only [id, lerpUpd]
    rw [ih l hl' n, ih l hl' (n + 1), ih l hl' k]
    by_cases h : n = k
    · subst h
      have h1 : n < l.length := by omega
      simp [h1]
    · by_cases h2 : k < n
      · have : k < n + 1 := by omega
        simp [h, h2, this]
      · have : ¬ k < n + 1 := by omega
        simp [h, h2, this]

theorem ext_getD (l1 l2 : List Rat) (hl : l1.length = l2.length) (h : ∀ k, l1.getD k 0 = l2.getD k 0) : l1 = l2 := by
  apply List.ext_getElem hl
  intro k h1 h2
  have := h k
  simp only [List.getD_eq_getElem?_getD, List.getElem?_eq_getElem h1, List.getElem?_eq_getElem h2, Option.getD_some] at this
  exact this

/-- the inner loop read imperatively is the structural `pass` of the model -/
theorem impInner_eq_pass (t : Rat) (n : Nat) (l : List Rat) (hl : n + 1 ≤ l.length) :
    impInner id (lerpUpd t) n l = pass t n l := by
  apply ext_getD
  · rw [impInner_length, pass_length]
  · intro k; rw [impInner_getD t n l hl k, pass_getD t n l hl k]

/-- the loop nest read imperatively (passes of sizes `order-0, order-1, …, 1`) is the model's `loop` -/
theorem impOuter_eq_loop (t : Rat) : ∀ (order : Nat) (l : List Rat), order + 1 ≤ l.length →
    impOuter id (lerpUpd t) order (fun j => order - j) l = loop t order l := by
  intro order
  induction order with
  | zero => intro l _; simp [impOuter, loop]
  | succ n ih =>
    intro l hl
    have h1 : impInner id (lerpUpd t) (n + 1) l = pass t (n + 1) l := impInner_eq_pass t (n + 1) l hl
    have h2 : n + 1 ≤ (pass t (n + 1) l).length := by rw [pass_length]; omega
    have := ih (pass t (n + 1) l) h2
    simp only [impOuter] at this ⊢
    rw [List.range_succ_eq_map, List.foldl_cons, List.foldl_map, loop]
    simp only [Nat.sub_zero, Nat.succ_eq_add_one, Nat.add_sub_add_right]
    rw [h1]
    exact this

/-- bridges for the extracted pieces (a changed bound / index / operator breaks one of them) -/
theorem bridge_dc_pieces (t : Rat) :
    Mouette.Generated.C19.dcTarget = id ∧ Mouette.Generated.C19.dcUpdate t = lerpUpd t ∧
    (∀ o, Mouette.Generated.C19.dcOuter o = o) ∧ (∀ o j, Mouette.Generated.C19.dcInner o j = o - j) ∧
    (∀ n, Mouette.Generated.C19.dcOrder n = n - 1) ∧ Mouette.Generated.C19.dcResult = 0 := by
  refine ⟨?_, ?_, ?_, ?_, ?_, ?_⟩
  · funext i; simp [Mouette.Generated.C19.dcTarget]
  · funext c i; simp only [Mouette.Generated.C19.dcUpdate, lerpUpd, lerp]; try ring
  · intro o; simp [Mouette.Generated.C19.dcOuter]
  · intro o j; simp [Mouette.Generated.C19.dcInner]
  · intro n; simp [Mouette.Generated.C19.dcOrder]
  · simp [Mouette.Generated.C19.dcResult]

/-- **the loop nest as written in the source computes the model's `deCasteljau`**, every list, every `t` -/
theorem srcDeCasteljau_eq (t : Rat) (P : List Rat) : srcDeCasteljau t P = deCasteljau t P := by
  obtain ⟨e1, e2, e3, e4, e5, e6⟩ := bridge_dc_pieces t
  unfold srcDeCasteljau
  simp only [e1, e2, e3, e5, e6]
  have e4' : Mouette.Generated.C19.dcInner (P.length - 1) = fun j => (P.length - 1) - j := by
    funext j; exact e4 _ j
  rw [e4']
  cases P with
  | nil => simp [impOuter, deCasteljau, loop]
  | cons a P =>
    rw [impOuter_eq_loop t _ _ (by simp), ← headD_eq_getD]
    rfl

end Mouette.Lemmas.C19
