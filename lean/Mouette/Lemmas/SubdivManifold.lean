import Mouette.Lemmas.SubdivEdges4
/-
C13 (round 2): the 1→4 refinement preserves consistent orientation / edge-manifoldness ("every directed side occurs in
at most one face") and maps border sides to border sides.
-/
namespace Mouette.Subdiv

/-- all directed sides (a → b) of all faces -/
def dirSides (m : Raw) : List (Nat × Nat) := m.faces.flatMap cycPairs

/-- every directed side occurs at most once: faces are consistently oriented and every undirected edge has at most
two incident faces -/
def OrientedSides (m : Raw) : Prop := (dirSides m).Nodup

instance (m : Raw) : Decidable (OrientedSides m) := by unfold OrientedSides; infer_instance

/-- edges are sorted pairs of vertices (part of `EdgesAreSides`) -/
def EdgesSorted (m : Raw) : Prop := ∀ e ∈ m.edges, e.1 < e.2 ∧ e.2 < m.verts.length

instance (m : Raw) : Decidable (EdgesSorted m) := by unfold EdgesSorted; infer_instance

theorem keyify_comm (a b : Nat) : keyify a b = keyify b a := by
  unfold keyify; split_ifs <;> first | rfl | (simp only [Prod.mk.injEq]; omega)

section
variable (es : List (Nat × Nat)) (base : Nat)

/-- `x` is one of the two halves of a directed side of `f` -/
def IsHalf (f : List Nat) (x : Nat × Nat) : Prop :=
  ∃ u v mu, (u, v) ∈ cycPairs f ∧ halfLookup es base (keyify u v) = some mu ∧ (x = (u, mu) ∨ x = (mu, v))

/-- `x` joins the midpoints of two different sides of `f` -/
def IsInner (f : List Nat) (x : Nat × Nat) : Prop :=
  ∃ s t ms mt, s ∈ sidesKeyed f ∧ t ∈ sidesKeyed f ∧ s ≠ t ∧ halfLookup es base s = some ms ∧
    halfLookup es base t = some mt ∧ x = (ms, mt)

variable {es base}

theorem half_bounds (hes : ∀ e ∈ es, e.1 < e.2 ∧ e.2 < base) {u v mu : Nat}
    (h : halfLookup es base (keyify u v) = some mu) : u < base ∧ v < base ∧ u ≠ v ∧ base ≤ mu := by
  obtain ⟨i, hi, e, _, _, _, _, h1, h2, h3⟩ := lookup_side es base u v mu hes h
  exact ⟨h1, h2, h3, by omega⟩

theorem same_mid {u v u' v' r : Nat}
    (h : halfLookup es base (keyify u v) = some r) (h' : halfLookup es base (keyify u' v') = some r) :
    (u = u' ∧ v = v') ∨ (u = v' ∧ v = u') :=
  keyify_eq (halfLookup_inj es base _ _ r h h')

theorem half_half (hes : ∀ e ∈ es, e.1 < e.2 ∧ e.2 < base) (f g : List Nat) (x : Nat × Nat)
    (hf : IsHalf es base f x) (hg : IsHalf es base g x) : ∃ s, s ∈ cycPairs f ∧ s ∈ cycPairs g := by
  obtain ⟨u, v, mu, huv, hl, hx⟩ := hf
  obtain ⟨u', v', mu', huv', hl', hx'⟩ := hg
  obtain ⟨b1, b2, b3, b4⟩ := half_bounds hes hl
  obtain ⟨c1, c2, c3, c4⟩ := half_bounds hes hl'
  rcases hx with rfl | rfl <;> rcases hx' with hx' | hx' <;> simp only [Prod.mk.injEq] at hx'
  · obtain ⟨e1, e2⟩ := hx'
    subst e2
    rcases same_mid hl hl' with ⟨_, e4⟩ | ⟨e3, e4⟩
    · subst e1; subst e4; exact ⟨_, huv, huv'⟩
    · omega
  · omega
  · omega
  · obtain ⟨e1, e2⟩ := hx'
    subst e1
    rcases same_mid hl hl' with ⟨e3, _⟩ | ⟨e3, e4⟩
    · subst e2; subst e3; exact ⟨_, huv, huv'⟩
    · omega

theorem half_not_inner (hes : ∀ e ∈ es, e.1 < e.2 ∧ e.2 < base) (f g : List Nat) (x : Nat × Nat)
    (hf : IsHalf es base f x) (hg : IsInner es base g x) : False := by
  obtain ⟨u, v, mu, _, hl, hx⟩ := hf
  obtain ⟨s, t, ms, mt, _, _, _, l1, l2, rfl⟩ := hg
  obtain ⟨b1, b2, _, _⟩ := half_bounds hes hl
  have g1 := (lookup_ge _ _ _ _ l1).1
  have g2 := (lookup_ge _ _ _ _ l2).1
  rcases hx with hx | hx <;> simp only [Prod.mk.injEq] at hx <;> omega

theorem inner_not_inner (f g : List Nat) (x : Nat × Nat) (hs : ShareAtMostOne f g)
    (hf : IsInner es base f x) (hg : IsInner es base g x) : False := by
  obtain ⟨s, t, ms, mt, hs1, ht1, hne, l1, l2, rfl⟩ := hf
  obtain ⟨s', t', ms', mt', hs2, ht2, _, l1', l2', hx⟩ := hg
  simp only [Prod.mk.injEq] at hx
  obtain ⟨e1, e2⟩ := hx
  have := halfLookup_inj es base s s' ms l1 (e1 ▸ l1')
  have := halfLookup_inj es base t t' mt l2 (e2 ▸ l2')
  subst_vars
  exact hne (hs _ hs1 _ ht1 hs2 ht2)

end

/-- the twelve directed sides of the four triangles written for the face (a,b,c) -/
theorem twelve_eq (a b c mab mbc mca : Nat) :
    [[mab, mbc, mca], [a, mab, mca], [b, mbc, mab], [c, mca, mbc]].flatMap cycPairs =
      [(mab, mbc), (mbc, mca), (mca, mab), (a, mab), (mab, mca), (mca, a), (b, mbc), (mbc, mab), (mab, b),
       (c, mca), (mca, mbc), (mbc, c)] := rfl

theorem twelve_nodup (base a b c mab mbc mca : Nat) (ha : a < base) (hb : b < base) (hc : c < base)
    (h1 : base ≤ mab) (h2 : base ≤ mbc) (h3 : base ≤ mca)
    (d1 : mab ≠ mbc) (d2 : mbc ≠ mca) (d3 : mca ≠ mab) :
    ([[mab, mbc, mca], [a, mab, mca], [b, mbc, mab], [c, mca, mbc]].flatMap cycPairs).Nodup := by
  simp only [twelve_eq, List.nodup_cons, List.mem_cons, Prod.mk.injEq, List.not_mem_nil, or_false, List.nodup_nil,
    and_true, not_or]
  repeat' apply And.intro
  all_goals (first | omega | (intro h; omega))

/-- membership in the twelve sides, in terms of halves and inner sides -/
theorem twelve_mem (es : List (Nat × Nat)) (base a b c mab mbc mca : Nat)
    (hab : a ≠ b) (hbc : b ≠ c) (hca : c ≠ a)
    (l1 : halfLookup es base (keyify a b) = some mab) (l2 : halfLookup es base (keyify b c) = some mbc)
    (l3 : halfLookup es base (keyify c a) = some mca) (x : Nat × Nat) :
    x ∈ [[mab, mbc, mca], [a, mab, mca], [b, mbc, mab], [c, mca, mbc]].flatMap cycPairs ↔
      IsHalf es base [a, b, c] x ∨ IsInner es base [a, b, c] x := by
  obtain ⟨n1, n2, n3⟩ := tri_keys_ne hab hbc hca
  have cA : (a, b) ∈ cycPairs [a, b, c] := by simp [cycPairs, cycGo]
  have cB : (b, c) ∈ cycPairs [a, b, c] := by simp [cycPairs, cycGo]
  have cC : (c, a) ∈ cycPairs [a, b, c] := by simp [cycPairs, cycGo]
  have mA : keyify a b ∈ sidesKeyed [a, b, c] := by simp [sidesKeyed_tri]
  have mB : keyify b c ∈ sidesKeyed [a, b, c] := by simp [sidesKeyed_tri]
  have mC : keyify c a ∈ sidesKeyed [a, b, c] := by simp [sidesKeyed_tri]
  rw [twelve_eq]
  constructor
  · intro hx
    simp only [List.mem_cons, List.not_mem_nil, or_false] at hx
    rcases hx with rfl | rfl | rfl | rfl | rfl | rfl | rfl | rfl | rfl | rfl | rfl | rfl
    · exact Or.inr ⟨_, _, _, _, mA, mB, n1, l1, l2, rfl⟩
    · exact Or.inr ⟨_, _, _, _, mB, mC, n2, l2, l3, rfl⟩
    · exact Or.inr ⟨_, _, _, _, mC, mA, n3, l3, l1, rfl⟩
    · exact Or.inl ⟨a, b, mab, cA, l1, Or.inl rfl⟩
    · exact Or.inr ⟨_, _, _, _, mA, mC, fun e => n3 e.symm, l1, l3, rfl⟩
    · exact Or.inl ⟨c, a, mca, cC, l3, Or.inr rfl⟩
    · exact Or.inl ⟨b, c, mbc, cB, l2, Or.inl rfl⟩
    · exact Or.inr ⟨_, _, _, _, mB, mA, fun e => n1 e.symm, l2, l1, rfl⟩
    · exact Or.inl ⟨a, b, mab, cA, l1, Or.inr rfl⟩
    · exact Or.inl ⟨c, a, mca, cC, l3, Or.inl rfl⟩
    · exact Or.inr ⟨_, _, _, _, mC, mB, fun e => n2 e.symm, l3, l2, rfl⟩
    · exact Or.inl ⟨b, c, mbc, cB, l2, Or.inr rfl⟩
  · rintro (⟨u, v, mu, huv, hl, hx⟩ | ⟨s, t, ms, mt, hs, ht, hne, hl1, hl2, rfl⟩)
    · simp only [cycPairs, cycGo, List.mem_cons, Prod.mk.injEq, List.not_mem_nil, or_false] at huv
      rcases huv with ⟨rfl, rfl⟩ | ⟨rfl, rfl⟩ | ⟨rfl, rfl⟩
      · rw [l1] at hl; cases hl; rcases hx with rfl | rfl <;> simp
      · rw [l2] at hl; cases hl; rcases hx with rfl | rfl <;> simp
      · rw [l3] at hl; cases hl; rcases hx with rfl | rfl <;> simp
    · simp only [sidesKeyed_tri, List.mem_cons, List.not_mem_nil, or_false] at hs ht
      rcases hs with rfl | rfl | rfl <;> rcases ht with rfl | rfl | rfl <;>
        first
        | exact absurd rfl hne
        | (simp only [l1, l2, l3, Option.some.injEq] at hl1 hl2; subst hl1; subst hl2; simp)

/-! ### the refined mesh -/

/-- description of the part written for one face -/
theorem loop_part_desc (m : Raw) (hes : EdgesSorted m) (f : List Nat) (p : List (List Nat) × List (Nat × Nat))
    (hp : loopFace (m.edges, m.verts.length) f = .ok p) :
    ∃ a b c mab mbc mca, f = [a, b, c] ∧ a ≠ b ∧ b ≠ c ∧ c ≠ a ∧
      halfLookup m.edges m.verts.length (keyify a b) = some mab ∧
      halfLookup m.edges m.verts.length (keyify b c) = some mbc ∧
      halfLookup m.edges m.verts.length (keyify c a) = some mca ∧
      p.1 = [[mab, mbc, mca], [a, mab, mca], [b, mbc, mab], [c, mca, mbc]] := by
  obtain ⟨fs, es⟩ := p
  obtain ⟨a, b, c, mab, mbc, mca, hf, g1, g2, g3, hfs, _⟩ := loopFace_spec _ _ _ _ hp
  have l1 := getHalf_ok _ _ _ _ _ g1
  have l2 := getHalf_ok _ _ _ _ _ g2
  have l3 := getHalf_ok _ _ _ _ _ g3
  exact ⟨a, b, c, mab, mbc, mca, hf, (half_bounds hes l1).2.2.1, (half_bounds hes l2).2.2.1, (half_bounds hes l3).2.2.1,
    l1, l2, l3, hfs⟩

/-- a directed side of the refined mesh is a half of a directed side of some face or joins two midpoints of some face -/
theorem mem_dirSides_loop (m m' : Raw) (h : loopOnce m = .ok m') (hes : EdgesSorted m) (x : Nat × Nat) :
    x ∈ dirSides m' ↔ ∃ f ∈ m.faces, IsHalf m.edges m.verts.length f x ∨ IsInner m.edges m.verts.length f x := by
  obtain ⟨mids, parts, _, h2, _, hf, _, _⟩ := loopOnce_spec m m' h
  simp only [dirSides, hf, List.mem_flatMap]
  constructor
  · rintro ⟨face, ⟨p, hp, hfp⟩, hx⟩
    obtain ⟨f, hfm, hfl⟩ := mapE_mem_back _ _ _ h2 p hp
    obtain ⟨a, b, c, mab, mbc, mca, rfl, hab, hbc, hca, l1, l2, l3, hp1⟩ := loop_part_desc m hes f p hfl
    refine ⟨_, hfm, (twelve_mem m.edges m.verts.length a b c mab mbc mca hab hbc hca l1 l2 l3 x).mp ?_⟩
    rw [← hp1]; exact List.mem_flatMap.mpr ⟨face, hfp, hx⟩
  · rintro ⟨f, hfm, hx⟩
    obtain ⟨p, hp, hfl⟩ := mapE_mem_of _ _ _ h2 f hfm
    obtain ⟨a, b, c, mab, mbc, mca, rfl, hab, hbc, hca, l1, l2, l3, hp1⟩ := loop_part_desc m hes _ p hfl
    have := (twelve_mem m.edges m.verts.length a b c mab mbc mca hab hbc hca l1 l2 l3 x).mpr hx
    rw [← hp1] at this
    obtain ⟨face, hface, hxf⟩ := List.mem_flatMap.mp this
    exact ⟨face, ⟨p, hp, hface⟩, hxf⟩

/-- **the 1→4 refinement preserves "every directed side occurs in at most one face"** -/
theorem loop_oriented (m m' : Raw) (h : loopOnce m = .ok m') (hes : EdgesSorted m) (ho : OrientedSides m)
    (hS : SharesAtMostOne m) : OrientedSides m' := by
  obtain ⟨mids, parts, _, h2, _, hf, _, _⟩ := loopOnce_spec m m' h
  unfold OrientedSides dirSides at ho ⊢
  rw [hf, List.flatMap_assoc, List.nodup_flatMap]
  rw [List.nodup_flatMap] at ho
  constructor
  · intro p hp
    obtain ⟨f, hfm, hfl⟩ := mapE_mem_back _ _ _ h2 p hp
    obtain ⟨a, b, c, mab, mbc, mca, rfl, hab, hbc, hca, l1, l2, l3, hp1⟩ := loop_part_desc m hes f p hfl
    obtain ⟨a1, a2, _, a4⟩ := half_bounds hes l1
    obtain ⟨_, b2, _, b4⟩ := half_bounds hes l2
    obtain ⟨_, _, _, c4⟩ := half_bounds hes l3
    obtain ⟨d1, d2, d3⟩ := lookups_distinct _ _ _ _ _ _ _ _
      (by simp only [List.nodup_cons, List.mem_cons, List.not_mem_nil, or_false, not_or, List.nodup_nil, and_true,
            not_false_eq_true]; exact ⟨⟨hab, fun e => hca e.symm⟩, hbc⟩) l1 l2 l3
    rw [hp1]
    exact twelve_nodup m.verts.length a b c mab mbc mca a1 a2 b2 a4 b4 c4 d1 d2 d3
  · have hpw : m.faces.Pairwise (fun f g => (List.Disjoint (cycPairs f) (cycPairs g)) ∧ ShareAtMostOne f g) :=
      List.Pairwise.and ho.2 hS
    refine mapE_pairwise (loopFace (m.edges, m.verts.length)) _ _ ?_ m.faces parts hpw h2
    intro f g p q hp hq ⟨hdis, hsh⟩
    obtain ⟨a, b, c, mab, mbc, mca, rfl, hab, hbc, hca, l1, l2, l3, hp1⟩ := loop_part_desc m hes f p hp
    obtain ⟨a', b', c', nab, nbc, nca, rfl, hab', hbc', hca', k1, k2, k3, hq1⟩ := loop_part_desc m hes g q hq
    simp only [Function.onFun, List.disjoint_left]
    intro x hx hy
    rw [hp1] at hx; rw [hq1] at hy
    rcases (twelve_mem _ _ a b c mab mbc mca hab hbc hca l1 l2 l3 x).mp hx with hx | hx <;>
      rcases (twelve_mem _ _ a' b' c' nab nbc nca hab' hbc' hca' k1 k2 k3 x).mp hy with hy | hy
    · obtain ⟨s, s1, s2⟩ := half_half hes _ _ x hx hy
      exact List.disjoint_left.mp hdis s1 s2
    · exact half_not_inner hes _ _ x hx hy
    · exact half_not_inner hes _ _ x hy hx
    · exact inner_not_inner _ _ x hsh hx hy

/-- **border sides map to border sides**: a directed side of the refined mesh has no opposite side iff it is one of the
two halves of a directed side of the input that has no opposite side -/
theorem loop_border (m m' : Raw) (h : loopOnce m = .ok m') (hes : EdgesSorted m) (x : Nat × Nat) (hx : x ∈ dirSides m') :
    (x.2, x.1) ∉ dirSides m' ↔
      ∃ u v mu, (u, v) ∈ dirSides m ∧ (v, u) ∉ dirSides m ∧
        halfLookup m.edges m.verts.length (keyify u v) = some mu ∧ (x = (u, mu) ∨ x = (mu, v)) := by
  have hesb : ∀ e ∈ m.edges, e.1 < e.2 ∧ e.2 < m.verts.length := hes
  have memD := mem_dirSides_loop m m' h hes
  obtain ⟨f, hfm, hx⟩ := (memD x).mp hx
  rcases hx with ⟨u, v, mu, huv, hl, hxe⟩ | ⟨s, t, ms, mt, hs, ht, hne, l1, l2, rfl⟩
  · obtain ⟨b1, b2, b3, b4⟩ := half_bounds hesb hl
    have huvD : (u, v) ∈ dirSides m := List.mem_flatMap.mpr ⟨f, hfm, huv⟩
    constructor
    · intro hno
      refine ⟨u, v, mu, huvD, ?_, hl, hxe⟩
      intro hvu
      obtain ⟨g, hgm, hvug⟩ := List.mem_flatMap.mp hvu
      have hl' : halfLookup m.edges m.verts.length (keyify v u) = some mu := by rw [keyify_comm]; exact hl
      apply hno
      rcases hxe with rfl | rfl
      · exact (memD _).mpr ⟨g, hgm, Or.inl ⟨v, u, mu, hvug, hl', Or.inr rfl⟩⟩
      · exact (memD _).mpr ⟨g, hgm, Or.inl ⟨v, u, mu, hvug, hl', Or.inl rfl⟩⟩
    · rintro ⟨u', v', mu', _, hborder, hl', hxe'⟩ hopp
      obtain ⟨c1, c2, c3, c4⟩ := half_bounds hesb hl'
      -- x determines the directed side it is half of
      have hsame : u' = u ∧ v' = v := by
        rcases hxe with rfl | rfl <;> rcases hxe' with e | e <;> simp only [Prod.mk.injEq] at e
        · obtain ⟨e1, e2⟩ := e; subst e2
          rcases same_mid hl hl' with ⟨e3, e4⟩ | ⟨e3, e4⟩ <;> omega
        · omega
        · omega
        · obtain ⟨e1, e2⟩ := e; subst e1
          rcases same_mid hl hl' with ⟨e3, e4⟩ | ⟨e3, e4⟩ <;> omega
      obtain ⟨rfl, rfl⟩ := hsame
      obtain ⟨g, hgm, hg⟩ := (memD _).mp hopp
      rcases hg with ⟨u2, v2, mu2, huv2, hl2, hx2⟩ | ⟨s, t, ms, mt, _, _, _, k1, k2, hx2⟩
      · obtain ⟨d1, d2, d3, d4⟩ := half_bounds hesb hl2
        have : (v', u') ∈ cycPairs g := by
          rcases hxe with rfl | rfl <;> rcases hx2 with e | e <;> simp only [Prod.mk.injEq] at e
          · omega
          · obtain ⟨e1, e2⟩ := e; subst e1
            rcases same_mid hl hl2 with ⟨e3, e4⟩ | ⟨e3, e4⟩
            · omega
            · subst e2; subst e4; exact huv2
          · obtain ⟨e1, e2⟩ := e; subst e2
            rcases same_mid hl hl2 with ⟨e3, e4⟩ | ⟨e3, e4⟩
            · omega
            · subst e1; subst e3; exact huv2
          · omega
        exact hborder (List.mem_flatMap.mpr ⟨g, hgm, this⟩)
      · have g1 := (lookup_ge _ _ _ _ k1).1
        have g2 := (lookup_ge _ _ _ _ k2).1
        rcases hxe with rfl | rfl <;> simp only [Prod.mk.injEq] at hx2 <;> omega
  · -- an inner side always has its opposite in the same face, and is never a half
    have g1 := (lookup_ge _ _ _ _ l1).1
    have g2 := (lookup_ge _ _ _ _ l2).1
    constructor
    · intro hno
      exact absurd ((memD _).mpr ⟨f, hfm, Or.inr ⟨t, s, mt, ms, ht, hs, fun e => hne e.symm, l2, l1, rfl⟩⟩) hno
    · rintro ⟨u', v', mu', _, _, hl', hxe'⟩
      obtain ⟨c1, c2, c3, c4⟩ := half_bounds hesb hl'
      rcases hxe' with e | e <;> simp only [Prod.mk.injEq] at e <;> omega

end Mouette.Subdiv
