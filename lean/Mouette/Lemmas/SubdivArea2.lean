import Mouette.Lemmas.SubdivArea
/-
C13: total vector area through the 1→3-quads refinement, the 1→6 refinement, repeated refinements and whole editing
blocks (all surface operations, all sequences), together with well-formedness of the refined meshes.
-/
namespace Mouette.Subdiv

theorem midpoints_get (m : Raw) (mids : List Pt) (h1 : midpointsOf m = .ok mids) (i : Nat) (hi : i < m.edges.length) :
    ∃ p q, m.verts[m.edges[i].1]? = some p ∧ m.verts[m.edges[i].2]? = some q ∧ mids[i]? = some (mid p q) := by
  obtain ⟨b, hb1, hb2⟩ := mapE_get _ _ _ h1 i hi
  unfold edgeMid at hb1
  cases hp : m.verts[m.edges[i].1]? with
  | none => simp [hp] at hb1
  | some p =>
    cases hq : m.verts[m.edges[i].2]? with
    | none => simp [hp, hq] at hb1
    | some q =>
      simp only [hp, hq, Except.ok.injEq] at hb1
      exact ⟨p, q, rfl, rfl, by rw [hb2, hb1]⟩

/-- the index found for side (a,b) is `|V| + i` for an edge rank `i` whose midpoint is the midpoint of a and b -/
theorem lookup_mid (m : Raw) (mids : List Pt) (h1 : midpointsOf m = .ok mids) (a b mab : Nat)
    (hl : getHalf (m.edges, m.verts.length) a b = .ok mab) :
    ∃ pa pb i, m.verts[a]? = some pa ∧ m.verts[b]? = some pb ∧ mab = m.verts.length + i ∧ i < m.edges.length ∧
      mids[i]? = some (mid pa pb) := by
  unfold getHalf at hl
  cases hh : halfLookup m.edges m.verts.length (keyify a b) with
  | none => simp [hh] at hl
  | some r =>
    simp only [hh, Except.ok.injEq] at hl; subst hl
    obtain ⟨i, hi, hr, hk⟩ := halfLookup_spec _ _ _ _ hh
    obtain ⟨p, q, hp, hq, hm⟩ := midpoints_get m mids h1 i hi
    rcases keyify_eq hk with ⟨e1, e2⟩ | ⟨e1, e2⟩
    · exact ⟨p, q, i, by rw [← e1]; exact hp, by rw [← e2]; exact hq, hr, hi, hm⟩
    · refine ⟨q, p, i, by rw [← e2]; exact hq, by rw [← e1]; exact hp, hr, hi, ?_⟩
      rw [hm]
      simp only [mid, Pt.add, Pt.divn, Option.some.injEq, Prod.mk.injEq]
      refine ⟨?_, ?_, ?_⟩ <;> rw [Rat.add_comm]

theorem loopOnce_wf (m m' : Raw) (hwf : WF m) (h : loopOnce m = .ok m') : WF m' := by
  obtain ⟨mids, parts, h1, h2, hv, hf, _, _⟩ := loopOnce_spec m m' h
  have hl1 := mapE_length _ _ _ h1
  intro g hg v hv'
  rw [hv]; simp only [List.length_append, hl1]
  rw [hf] at hg
  obtain ⟨p, hp, hgp⟩ := List.mem_flatMap.mp hg
  obtain ⟨i, hi, rfl⟩ := List.getElem_of_mem hp
  have hi' : i < m.faces.length := by rw [← mapE_length _ _ _ h2]; exact hi
  obtain ⟨b, hb1, hb2⟩ := mapE_get _ _ _ h2 i hi'
  have : parts[i] = b := by
    have := List.getElem?_eq_getElem hi; rw [this] at hb2; exact Option.some.inj hb2
  rw [this] at hgp
  obtain ⟨fs, es⟩ := b
  obtain ⟨a, b', c, mab, mbc, mca, hfe, hab, hbc, hca, hfs, _⟩ := loopFace_spec _ _ _ _ hb1
  have hmem : m.faces[i] ∈ m.faces := List.getElem_mem hi'
  rw [hfe] at hmem
  have wa := hwf _ hmem a (by simp)
  have wb := hwf _ hmem b' (by simp)
  have wc := hwf _ hmem c (by simp)
  obtain ⟨_, _, i1, _, _, e1, l1, _⟩ := lookup_mid m mids h1 a b' mab hab
  obtain ⟨_, _, i2, _, _, e2, l2, _⟩ := lookup_mid m mids h1 b' c mbc hbc
  obtain ⟨_, _, i3, _, _, e3, l3, _⟩ := lookup_mid m mids h1 c a mca hca
  subst hfs
  simp only [List.mem_cons, List.not_mem_nil, or_false] at hgp
  rcases hgp with rfl | rfl | rfl | rfl <;>
    (simp only [List.mem_cons, List.not_mem_nil, or_false] at hv'; rcases hv' with rfl | rfl | rfl <;> omega)

/-! ### 1 → 3 quads -/

theorem number_getElem? {α} : ∀ (k : Nat) (l : List α) (i : Nat), (number k l)[i]? = (l[i]?).map (fun a => (k + i, a))
  | _, [], i => by simp [number]
  | k, a :: t, 0 => by simp [number]
  | k, a :: t, i + 1 => by
    simp only [number, List.getElem?_cons_succ, number_getElem? (k + 1) t i]
    cases t[i]? <;> (simp; try omega)

theorem sum_congr_index {β α} (Φ : β → Pt) (Ψ : α → Pt) : ∀ (r : List β) (l : List α), r.length = l.length →
    (∀ (i : Nat) x y, r[i]? = some x → l[i]? = some y → Φ x = Ψ y) → (r.map Φ).sum = (l.map Ψ).sum
  | [], [], _, _ => rfl
  | [], _ :: _, h, _ => by simp at h
  | _ :: _, [], h, _ => by simp at h
  | x :: r, y :: l, h, hP => by
    have h0 := hP 0 x y (by simp) (by simp)
    have := sum_congr_index Φ Ψ r l (by simpa using h) (fun i a b ha hb => hP (i + 1) a b (by simpa using ha) (by simpa using hb))
    simp [h0, this]

theorem pts3 (m : Raw) (a b c : Nat) (ps : List Pt) (h : pts m [a, b, c] = .ok ps) :
    ps = [vpos m.verts a, vpos m.verts b, vpos m.verts c] := by
  simp only [pts, mapE] at h
  cases ha : getPt m a with
  | error e => simp [ha] at h
  | ok pa =>
    cases hb : getPt m b with
    | error e => simp [ha, hb] at h
    | ok pb =>
      cases hc : getPt m c with
      | error e => simp [ha, hb, hc] at h
      | ok pc =>
        simp only [ha, hb, hc, Except.ok.injEq] at h
        rw [← h, (getPt_vpos' m a pa ha), (getPt_vpos' m b pb hb), (getPt_vpos' m c pc hc)]
where
  getPt_vpos' (m : Raw) (a : Nat) (p : Pt) (h : getPt m a = .ok p) : p = vpos m.verts a := by
    unfold getPt at h
    cases hv : m.verts[a]? with
    | none => simp [hv] at h
    | some q => simp only [hv, Except.ok.injEq] at h; subst h; simp [vpos, hv]

theorem quads3Core_area (m m' : Raw) (hwf : WF m) (h : quads3Core m = .ok m') :
    totalArea2 m' = totalArea2 m ∧ WF m' := by
  obtain ⟨mids, bs, parts, h1, h2, h3, hv, hf, _⟩ := quads3Core_spec m m' h
  have hl1 := mapE_length _ _ _ h1
  have hl2 := mapE_length _ _ _ h2
  have hl3 := mapE_length _ _ _ h3
  rw [number_length] at hl3
  -- description of the i-th part
  have hpart : ∀ i p f, parts[i]? = some p → m.faces[i]? = some f →
      ∃ a b c mab mbc mca, f = [a, b, c] ∧
        p.1 = [[a, mab, m.verts.length + m.edges.length + i, mca], [b, mbc, m.verts.length + m.edges.length + i, mab],
               [c, mca, m.verts.length + m.edges.length + i, mbc]] ∧
        getHalf (m.edges, m.verts.length) a b = .ok mab ∧ getHalf (m.edges, m.verts.length) b c = .ok mbc ∧
        getHalf (m.edges, m.verts.length) c a = .ok mca ∧ i < m.faces.length := by
    intro i p f hp hfi
    have hi : i < m.faces.length := by
      by_contra hc; rw [List.getElem?_eq_none (by omega)] at hfi; cases hfi
    have hin : i < (number (m.verts.length + m.edges.length) m.faces).length := by rw [number_length]; exact hi
    obtain ⟨b0, hb1, hb2⟩ := mapE_get _ _ _ h3 i hin
    have hnum := number_getElem? (m.verts.length + m.edges.length) m.faces i
    rw [List.getElem?_eq_getElem hin, hfi] at hnum
    simp only [Option.map_some, Option.some.injEq] at hnum
    rw [hnum] at hb1
    rw [hb2] at hp; cases hp
    obtain ⟨fs, es⟩ := p
    obtain ⟨a, b, c, mab, mbc, mca, hfe, hab, hbc, hca, hfs⟩ := quadsFace_spec _ _ _ _ _ hb1
    exact ⟨a, b, c, mab, mbc, mca, hfe, hfs, hab, hbc, hca, hi⟩
  constructor
  · unfold totalArea2
    rw [hf, List.map_flatMap, sum_flatMap]
    have := sum_congr_index
      (fun p : List (List Nat) × List (Nat × Nat) => (p.1.map (faceArea2 m'.verts)).sum) (faceArea2 m.verts)
      parts m.faces hl3 ?_
    · simpa using this
    · intro i p f hp hfi
      obtain ⟨a, b, c, mab, mbc, mca, hfe, hfs, hab, hbc, hca, hi⟩ := hpart i p f hp hfi
      have hmem : f ∈ m.faces := List.mem_of_getElem? hfi
      subst hfe
      have hwa := hwf _ hmem a (by simp)
      have hwb := hwf _ hmem b (by simp)
      have hwc := hwf _ hmem c (by simp)
      obtain ⟨pa, pb, i1, hpa, hpb, e1, l1, hm1⟩ := lookup_mid m mids h1 a b mab hab
      obtain ⟨pb', pc, i2, hpb', hpc, e2, l2, hm2⟩ := lookup_mid m mids h1 b c mbc hbc
      obtain ⟨pc', pa', i3, hpc', hpa', e3, l3, hm3⟩ := lookup_mid m mids h1 c a mca hca
      rw [hpb] at hpb'; cases hpb'
      rw [hpc] at hpc'; cases hpc'
      rw [hpa] at hpa'; cases hpa'
      -- the barycentre vertex
      obtain ⟨b0, hb1, hb2⟩ := mapE_get _ _ _ h2 i hi
      have hfi' : m.faces[i] = [a, b, c] := by
        have := List.getElem?_eq_getElem hi; rw [this] at hfi; exact Option.some.inj hfi
      rw [hfi'] at hb1
      simp only [bind, Except.bind] at hb1
      cases hps : pts m [a, b, c] with
      | error e => simp [hps] at hb1
      | ok ps =>
        simp only [hps, pure, Except.pure, Except.ok.injEq] at hb1
        have hps3 := pts3 m a b c ps hps
        have oa : vpos m.verts a = pa := by simp [vpos, hpa]
        have ob : vpos m.verts b = pb := by simp [vpos, hpb]
        have oc : vpos m.verts c = pc := by simp [vpos, hpc]
        have hS : b0 = centre3 pa pb pc := by rw [← hb1, hps3, oa, ob, oc]; rfl
        have va : vpos m'.verts a = pa := by
          simp [vpos, hv, List.append_assoc, List.getElem?_append_left hwa, hpa]
        have vb : vpos m'.verts b = pb := by
          simp [vpos, hv, List.append_assoc, List.getElem?_append_left hwb, hpb]
        have vc : vpos m'.verts c = pc := by
          simp [vpos, hv, List.append_assoc, List.getElem?_append_left hwc, hpc]
        have vmid : ∀ j (p : Pt), j < m.edges.length → mids[j]? = some p → vpos m'.verts (m.verts.length + j) = p := by
          intro j p hj hmj
          have : m'.verts[m.verts.length + j]? = some p := by
            rw [hv, List.append_assoc, List.getElem?_append_right (by omega)]
            rw [List.getElem?_append_left (by simp; omega)]
            simpa using hmj
          simp [vpos, this]
        have vab : vpos m'.verts mab = mid pa pb := by rw [e1]; exact vmid i1 _ l1 hm1
        have vbc : vpos m'.verts mbc = mid pb pc := by rw [e2]; exact vmid i2 _ l2 hm2
        have vca : vpos m'.verts mca = mid pc pa := by rw [e3]; exact vmid i3 _ l3 hm3
        have vS : vpos m'.verts (m.verts.length + m.edges.length + i) = centre3 pa pb pc := by
          have : m'.verts[m.verts.length + m.edges.length + i]? = some b0 := by
            rw [hv, List.getElem?_append_right (by simp; omega)]
            simpa [hl1] using hb2
          simp [vpos, this, hS]
        have key := area_quads3_sum pa pb pc
        simp only [quadsOf, List.map_cons, List.map_nil, sumPts_eq] at key
        rw [hfs]
        simp only [faceArea2, List.map_cons, List.map_nil, va, vb, vc, vab, vbc, vca, vS, oa, ob, oc]
        exact key
  · intro g hg v hv'
    rw [hv]; simp only [List.length_append, hl1, hl2]
    rw [hf] at hg
    obtain ⟨p, hp, hgp⟩ := List.mem_flatMap.mp hg
    obtain ⟨i, hi, rfl⟩ := List.getElem_of_mem hp
    have hi' : i < m.faces.length := by rw [← hl3]; exact hi
    obtain ⟨a, b, c, mab, mbc, mca, hfe, hfs, hab, hbc, hca, _⟩ :=
      hpart i parts[i] m.faces[i] (List.getElem?_eq_getElem hi) (List.getElem?_eq_getElem hi')
    have hmem : m.faces[i] ∈ m.faces := List.getElem_mem hi'
    rw [hfe] at hmem
    have wa := hwf _ hmem a (by simp)
    have wb := hwf _ hmem b (by simp)
    have wc := hwf _ hmem c (by simp)
    obtain ⟨_, _, i1, _, _, e1, l1, _⟩ := lookup_mid m mids h1 a b mab hab
    obtain ⟨_, _, i2, _, _, e2, l2, _⟩ := lookup_mid m mids h1 b c mbc hbc
    obtain ⟨_, _, i3, _, _, e3, l3, _⟩ := lookup_mid m mids h1 c a mca hca
    rw [hfs] at hgp
    simp only [List.mem_cons, List.not_mem_nil, or_false] at hgp
    rcases hgp with rfl | rfl | rfl <;>
      (simp only [List.mem_cons, List.not_mem_nil, or_false] at hv'; rcases hv' with rfl | rfl | rfl | rfl <;> omega)

/-! ### compositions: 3quads, 1→6, repeated passes, whole blocks -/

/-- what every surface operation preserves -/
def AreaInv (m m' : Raw) : Prop := totalArea2 m' = totalArea2 m ∧ WF m'

theorem quads3_area (m m' : Raw) (hwf : WF m) (h : quads3 m = .ok m') : AreaInv m m' := by
  rw [quads3_eq] at h
  cases h1 : triangulate m with
  | error e => simp [h1, Except.bind] at h
  | ok m1 =>
    simp only [h1, Except.bind] at h
    obtain ⟨a1, w1⟩ := triangulate_area m m1 hwf h1
    obtain ⟨a2, w2⟩ := quads3Core_area m1 m' w1 h
    exact ⟨a2.trans a1, w2⟩

theorem iterM_area (f : Raw → Except Err Raw) (hf : ∀ a a', WF a → f a = .ok a' → AreaInv a a') :
    ∀ (n : Nat) (a a' : Raw), WF a → iterM f n a = .ok a' → AreaInv a a'
  | 0, a, a', hw, h => by simp only [iterM, pure, Except.pure, Except.ok.injEq] at h; subst h; exact ⟨rfl, hw⟩
  | n + 1, a, a', hw, h => by
    rw [iterM_succ] at h
    cases h1 : f a with
    | error e => simp [h1, Except.bind] at h
    | ok a1 =>
      simp only [h1, Except.bind] at h
      obtain ⟨e1, w1⟩ := hf a a1 hw h1
      obtain ⟨e2, w2⟩ := iterM_area f hf n a1 a' w1 h
      exact ⟨e2.trans e1, w2⟩

/-- the operations of `SurfaceSubdivision` -/
def Op.isSurface : Op → Bool
  | .fan _ | .triFace _ | .tri | .loop _ | .quads3 | .sub6 _ => true
  | _ => false

theorem applyOp_area (m m' : Raw) (op : Op) (hs : op.isSurface = true) (hwf : WF m) (h : applyOp m op = .ok m') :
    AreaInv m m' := by
  cases op with
  | fan f => exact fan_area m m' f hwf h
  | triFace f => exact triFace_area m m' f hwf h
  | tri => exact triangulate_area m m' hwf h
  | loop n =>
    simp only [applyOp, loopSubdivision, bind, Except.bind] at h
    cases h1 : triangulate m with
    | error e => simp [h1] at h
    | ok m1 =>
      simp only [h1] at h
      obtain ⟨a1, w1⟩ := triangulate_area m m1 hwf h1
      obtain ⟨a2, w2⟩ := iterM_area loopOnce (fun a a' hw ha => ⟨loopOnce_area a a' hw ha, loopOnce_wf a a' hw ha⟩) n m1 m' w1 h
      exact ⟨a2.trans a1, w2⟩
  | quads3 => exact quads3_area m m' hwf h
  | sub6 n =>
    simp only [applyOp, sub6] at h
    refine iterM_area _ ?_ n m m' hwf h
    intro a a' hw ha
    simp only [bind, Except.bind] at ha
    cases h1 : quads3 a with
    | error e => simp [h1] at ha
    | ok a1 =>
      simp only [h1] at ha
      obtain ⟨e1, w1⟩ := quads3_area a a1 hw h1
      obtain ⟨e2, w2⟩ := triangulate_area a1 a' w1 ha
      exact ⟨e2.trans e1, w2⟩
  | cellFan c => simp [Op.isSurface] at hs
  | faceSplit f => simp [Op.isSurface] at hs
  | edgeSplit e => simp [Op.isSurface] at hs

theorem runOps_area : ∀ (ops : List Op) (m m' : Raw) (i : Nat), (∀ op ∈ ops, op.isSurface = true) → WF m →
    runOps m ops i = (m', none) → AreaInv m m'
  | [], m, m', i, _, hw, h => by simp only [runOps, Prod.mk.injEq, and_true] at h; subst h; exact ⟨rfl, hw⟩
  | op :: ops, m, m', i, hs, hw, h => by
    simp only [runOps] at h
    cases h1 : applyOp m op with
    | error e => simp [h1] at h
    | ok m1 =>
      simp only [h1] at h
      obtain ⟨e1, w1⟩ := applyOp_area m m1 op (hs op (by simp)) hw h1
      obtain ⟨e2, w2⟩ := runOps_area ops m1 m' (i + 1) (fun o ho => hs o (by simp [ho])) w1 h
      exact ⟨e2.trans e1, w2⟩

/-- `prepare` completes edges (and, with no cells, no faces): vertices and faces are untouched -/
theorem prepare_faces_of_no_cells (m : Raw) (hc : m.cells = []) : (prepare m).faces = m.faces := by
  simp [prepare, completeEdges, completeFaces, hc]

end Mouette.Subdiv
