import Mouette.Model.BinHeap
import Mouette.Lemmas.PQueue
/-!
The heap contract, PROVED for the model of `heapq` in `Model/BinHeap.lean` (core Lean only): `heappush` / `heappop` keep
the heap invariant w.r.t. `PriorityItem.__lt__` and the multiset of items; on a heap, `heappop` returns `heap[0]`, which is
`<=` every item. So the only thing assumed about the standard library is that CPython's `heapq` IS this algorithm.
-/
namespace Mouette.BinHeap
open Mouette.PQ

/-! ### the order on items -/

def le (a b : Item) : Prop := Prio.le a.2 b.2 = true

theorem le_refl (a : Item) : le a a := Prio.le_refl _
theorem le_trans {a b c : Item} (h1 : le a b) (h2 : le b c) : le a c := Prio.le_trans h1 h2

theorem le_of_lt {a b : Item} (h : lt a b = true) : le a b := by
  unfold lt Prio.lt at h
  unfold le
  rcases Prio.le_total a.2 b.2 with t | t
  · exact t
  · rw [t] at h; cases h

theorem le_of_not_lt {a b : Item} (h : lt a b = false) : le b a := by
  unfold lt Prio.lt at h
  unfold le
  cases e : Prio.le b.2 a.2
  · rw [e] at h; cases h
  · rfl

/-! ### cells and exchanges -/

theorem length_swap (h : List Item) (i j : Nat) : (swap h i j).length = h.length := by
  simp [swap]

theorem at_eq_getElem {h : List Item} {i : Nat} (hi : i < h.length) : at_ h i = h[i] := by
  simp [at_, List.getD_eq_getElem?_getD, hi]

theorem at_swap_right {h : List Item} {i j : Nat} (hj : j < h.length) : at_ (swap h i j) j = at_ h i := by
  unfold swap
  rw [at_eq_getElem (by simp [hj])]
  simp

theorem at_swap_left {h : List Item} {i j : Nat} (hi : i < h.length) (hj : j < h.length) :
    at_ (swap h i j) i = at_ h j := by
  by_cases e : i = j
  · subst e; exact at_swap_right hj
  · unfold swap
    rw [at_eq_getElem (by simp [hi])]
    rw [List.getElem_set_ne (fun h' => e h'.symm)]
    simp

theorem at_swap_ne {h : List Item} {i j k : Nat} (hi : k ≠ i) (hj : k ≠ j) : at_ (swap h i j) k = at_ h k := by
  unfold swap
  show ((h.set i (at_ h j)).set j (at_ h i)).getD k dflt = h.getD k dflt
  rw [List.getD_eq_getElem?_getD, List.getD_eq_getElem?_getD, List.getElem?_set_ne (fun e => hj e.symm),
    List.getElem?_set_ne (fun e => hi e.symm)]

theorem swap_perm {h : List Item} {i j : Nat} (hi : i < h.length) (hj : j < h.length) : (swap h i j).Perm h := by
  unfold swap
  rw [at_eq_getElem hi, at_eq_getElem hj]
  exact List.set_set_perm hi hj

/-! ### heap invariant -/

/-- no item is `lt` its parent: `heap[(i-1)/2] <= heap[i]` for every `i > 0` -/
def IsHeap (h : List Item) : Prop := ∀ i, 0 < i → i < h.length → le (at_ h ((i - 1) / 2)) (at_ h i)

theorem isHeap_nil : IsHeap [] := fun _ _ h => absurd h (by simp)

/-- the root is a minimum -/
theorem root_le {h : List Item} (hh : IsHeap h) : ∀ i, i < h.length → le (at_ h 0) (at_ h i) := by
  intro i
  induction i using Nat.strongRecOn with
  | _ i ih =>
    intro hi
    by_cases h0 : i = 0
    · subst h0; exact le_refl _
    · exact le_trans (ih ((i - 1) / 2) (by omega) (by omega)) (hh i (by omega) hi)

theorem root_min {h : List Item} (hh : IsHeap h) : ∀ e', e' ∈ h → Prio.le (at_ h 0).2 e'.2 = true := by
  intro e' he
  obtain ⟨i, hi, rfl⟩ := List.mem_iff_getElem.mp he
  have := root_le hh i hi
  rw [at_eq_getElem hi] at this
  exact this

/-! ### `bubbleUp` (heapq._siftdown) -/

/-- heap everywhere except possibly between `pos` and its parent; the parent of `pos` is `≤` the children of `pos` -/
structure UpInv (h : List Item) (pos : Nat) : Prop where
  edges : ∀ i, 0 < i → i < h.length → i ≠ pos → le (at_ h ((i - 1) / 2)) (at_ h i)
  grand : ∀ i, 0 < i → i < h.length → (i - 1) / 2 = pos → 0 < pos → le (at_ h ((pos - 1) / 2)) (at_ h i)

theorem upInv_step {h : List Item} {pos : Nat} (hpos : 0 < pos) (hlt : pos < h.length) (inv : UpInv h pos)
    (hl : lt (at_ h pos) (at_ h ((pos - 1) / 2)) = true) :
    UpInv (swap h pos ((pos - 1) / 2)) ((pos - 1) / 2) := by
  have hp : (pos - 1) / 2 < pos := by omega
  have hpl : (pos - 1) / 2 < h.length := by omega
  generalize hpdef : (pos - 1) / 2 = p at *
  have hlp : le (at_ h pos) (at_ h p) := le_of_lt hl
  constructor
  · intro i hi0 hin hne
    rw [length_swap] at hin
    by_cases hip : i = pos
    · subst hip
      rw [hpdef, at_swap_right hpl, at_swap_left hlt hpl]
      exact hlp
    · rw [at_swap_ne (k := i) hip hne]
      by_cases hq : (i - 1) / 2 = p
      · rw [hq, at_swap_right hpl]
        have := inv.edges i hi0 hin hip
        rw [hq] at this
        exact le_trans hlp this
      · by_cases hq2 : (i - 1) / 2 = pos
        · rw [hq2, at_swap_left hlt hpl]
          have := inv.grand i hi0 hin hq2 hpos
          rw [hpdef] at this
          exact this
        · rw [at_swap_ne hq2 hq]
          exact inv.edges i hi0 hin hip
  · intro i hi0 hin hq hp0
    rw [length_swap] at hin
    have hpp : (p - 1) / 2 < p := by omega
    rw [at_swap_ne (k := (p - 1) / 2) (by omega) (by omega)]
    have e1 := inv.edges p hp0 hpl (by omega)
    by_cases hip : i = pos
    · subst hip
      rw [at_swap_left hlt hpl]
      exact e1
    · rw [at_swap_ne (k := i) hip (by omega)]
      have e2 := inv.edges i hi0 hin hip
      rw [hq] at e2
      exact le_trans e1 e2

theorem length_bubbleUp (h : List Item) (pos : Nat) : (bubbleUp h pos).length = h.length := by
  induction pos using Nat.strongRecOn generalizing h with
  | _ pos ih =>
    rw [bubbleUp]
    split
    · rfl
    · split
      · rw [ih _ (by omega), length_swap]
      · rfl

theorem bubbleUp_perm (h : List Item) (pos : Nat) (hlt : pos < h.length) : (bubbleUp h pos).Perm h := by
  induction pos using Nat.strongRecOn generalizing h with
  | _ pos ih =>
    rw [bubbleUp]
    split
    · exact List.Perm.refl _
    · split
      · exact (ih _ (by omega) _ (by rw [length_swap]; omega)).trans (swap_perm hlt (by omega))
      · exact List.Perm.refl _

theorem bubbleUp_heap (h : List Item) (pos : Nat) (hlt : pos < h.length) (inv : UpInv h pos) :
    IsHeap (bubbleUp h pos) := by
  induction pos using Nat.strongRecOn generalizing h with
  | _ pos ih =>
    rw [bubbleUp]
    split
    · rename_i h0
      subst h0
      intro i hi0 hin
      exact inv.edges i hi0 hin (by omega)
    · rename_i h0
      split
      · rename_i hl
        exact ih _ (by omega) _ (by rw [length_swap]; omega) (upInv_step (by omega) hlt inv hl)
      · rename_i hl
        have hl' : lt (at_ h pos) (at_ h ((pos - 1) / 2)) = false := by
          cases e : lt (at_ h pos) (at_ h ((pos - 1) / 2))
          · rfl
          · exact absurd e hl
        intro i hi0 hin
        by_cases hip : i = pos
        · subst hip; exact le_of_not_lt hl'
        · exact inv.edges i hi0 hin hip

/-! ### `heappush` -/

theorem at_append_left {h : List Item} {i : Nat} (x : Item) (hi : i < h.length) : at_ (h ++ [x]) i = at_ h i := by
  rw [at_eq_getElem (by simp; omega), at_eq_getElem hi, List.getElem_append_left hi]

theorem heappush_perm (h : List Item) (x : Item) : (heappush h x).Perm (x :: h) := by
  unfold heappush
  refine (bubbleUp_perm _ _ (by simp)).trans ?_
  exact List.perm_append_singleton x h

theorem heappush_length (h : List Item) (x : Item) : (heappush h x).length = h.length + 1 := by
  unfold heappush; rw [length_bubbleUp]; simp

theorem heappush_heap {h : List Item} (hh : IsHeap h) (x : Item) : IsHeap (heappush h x) := by
  unfold heappush
  apply bubbleUp_heap _ _ (by simp)
  constructor
  · intro i hi0 hin hne
    have hin' : i < h.length := by simp at hin; omega
    rw [at_append_left x hin', at_append_left x (by omega)]
    exact hh i hi0 hin'
  · intro i _ hin hq _
    simp at hin
    omega

/-! ### `sink` (first phase of heapq._siftup) -/

/-- every edge that does not touch `pos` is fine, and the parent of `pos` is `≤` the children of `pos` -/
structure DownInv (h : List Item) (pos : Nat) : Prop where
  edges : ∀ i, 0 < i → i < h.length → i ≠ pos → (i - 1) / 2 ≠ pos → le (at_ h ((i - 1) / 2)) (at_ h i)
  grand : ∀ i, 0 < i → i < h.length → (i - 1) / 2 = pos → 0 < pos → le (at_ h ((pos - 1) / 2)) (at_ h i)

theorem child_spec (h : List Item) (n pos : Nat) (hl : 2 * pos + 1 < n) :
    (child h n pos = 2 * pos + 1 ∨ child h n pos = 2 * pos + 2) ∧ child h n pos < n ∧
    (∀ i, i < n → (i - 1) / 2 = pos → 0 < i → le (at_ h (child h n pos)) (at_ h i)) := by
  unfold child
  split
  · rename_i hc
    refine ⟨Or.inr rfl, hc.1, ?_⟩
    intro i hin hq hi0
    have : i = 2 * pos + 1 ∨ i = 2 * pos + 2 := by omega
    rcases this with rfl | rfl
    · exact le_of_not_lt hc.2
    · exact le_refl _
  · rename_i hc
    refine ⟨Or.inl rfl, hl, ?_⟩
    intro i hin hq hi0
    have : i = 2 * pos + 1 ∨ i = 2 * pos + 2 := by omega
    rcases this with rfl | rfl
    · exact le_refl _
    · have : lt (at_ h (2 * pos + 1)) (at_ h (2 * pos + 2)) = true := by
        cases e : lt (at_ h (2 * pos + 1)) (at_ h (2 * pos + 2))
        · exact absurd ⟨hin, e⟩ hc
        · rfl
      exact le_of_lt this

theorem downInv_step {h : List Item} {pos : Nat} (hl : 2 * pos + 1 < h.length) (inv : DownInv h pos) :
    DownInv (swap h pos (child h h.length pos)) (child h h.length pos) := by
  obtain ⟨hc, hcn, hmin⟩ := child_spec h h.length pos hl
  generalize child h h.length pos = c at *
  have hpc : (c - 1) / 2 = pos := by omega
  have hposn : pos < h.length := by omega
  have hcp : c ≠ pos := by omega
  constructor
  · intro i hi0 hin hne hqne
    rw [length_swap] at hin
    by_cases hip : i = pos
    · subst hip
      have hq1 : (i - 1) / 2 ≠ i := by omega
      rw [at_swap_left hposn hcn, at_swap_ne hq1 hqne]
      exact inv.grand c (by omega) hcn hpc hi0
    · rw [at_swap_ne (k := i) hip hne]
      by_cases hq : (i - 1) / 2 = pos
      · rw [hq, at_swap_left hposn hcn]
        exact hmin i hin hq hi0
      · rw [at_swap_ne hq hqne]
        exact inv.edges i hi0 hin hip hq
  · intro i hi0 hin hq _
    rw [length_swap] at hin
    rw [hpc, at_swap_left hposn hcn, at_swap_ne (k := i) (by omega) (by omega)]
    have := inv.edges i hi0 hin (by omega) (by omega)
    rw [hq] at this
    exact this

theorem sink_basic (n : Nat) (h : List Item) (pos : Nat) (hn : h.length = n) (hpos : pos < n) :
    (sink n h pos).1.length = n ∧ (sink n h pos).2 < n ∧ (sink n h pos).1.Perm h := by
  generalize hk : n - pos = k
  induction k using Nat.strongRecOn generalizing h pos with
  | _ k ih =>
    rw [sink]
    split
    · rename_i hl
      subst hn
      obtain ⟨hc, hcn, _⟩ := child_spec h h.length pos hl
      obtain ⟨a, b, c⟩ := ih (h.length - child h h.length pos) (by omega)
        (swap h pos (child h h.length pos)) (child h h.length pos) (length_swap ..) hcn rfl
      exact ⟨a, b, c.trans (swap_perm hpos hcn)⟩
    · exact ⟨hn, hpos, List.Perm.refl _⟩

theorem sink_upInv (n : Nat) (h : List Item) (pos : Nat) (hn : h.length = n) (hpos : pos < n) (inv : DownInv h pos) :
    UpInv (sink n h pos).1 (sink n h pos).2 := by
  generalize hk : n - pos = k
  induction k using Nat.strongRecOn generalizing h pos with
  | _ k ih =>
    rw [sink]
    split
    · rename_i hl
      subst hn
      obtain ⟨hc, hcn, _⟩ := child_spec h h.length pos hl
      exact ih (h.length - child h h.length pos) (by omega)
        (swap h pos (child h h.length pos)) (child h h.length pos) (length_swap ..) hcn (downInv_step hl inv) rfl
    · rename_i hl
      constructor
      · intro i hi0 hin hne
        have hin' : i < n := by rw [← hn]; exact hin
        exact inv.edges i hi0 hin hne (by omega)
      · intro i hi0 hin hq _
        have hin' : i < n := by rw [← hn]; exact hin
        have hq' : (i - 1) / 2 = pos := hq
        omega

/-! ### `heappop` -/

theorem heappop_none_iff (h : List Item) : heappop h = none ↔ h = [] := by
  unfold heappop
  constructor
  · intro hp
    cases hl : h.getLast? with
    | none => exact List.getLast?_eq_none_iff.mp hl
    | some last =>
      rw [hl] at hp
      simp only [] at hp
      split at hp <;> cases hp
  · rintro rfl; rfl

/-- shape of a successful pop: either a one-element heap, or `h = (ret :: tl) ++ [last]` and the result is the root
`ret` with `last :: tl` sifted -/
theorem heappop_cases {h : List Item} {e : Item} {h' : List Item} (hp : heappop h = some (e, h')) :
    (h = [e] ∧ h' = []) ∨
    ∃ tl last, h = (e :: tl) ++ [last] ∧
      h' = bubbleUp (sink (tl.length + 1) (last :: tl) 0).1 (sink (tl.length + 1) (last :: tl) 0).2 := by
  unfold heappop at hp
  cases hl : h.getLast? with
  | none => rw [hl] at hp; cases hp
  | some last =>
    rw [hl] at hp
    simp only [] at hp
    have hne : h ≠ [] := by intro e0; rw [e0] at hl; cases hl
    have hsplit := List.dropLast_concat_getLast hne
    have hlast : h.getLast hne = last := by
      have := List.getLast?_eq_some_getLast hne
      rw [hl] at this; injection this with this; exact this.symm
    rw [hlast] at hsplit
    cases hd : h.dropLast with
    | nil =>
      rw [hd] at hp hsplit
      simp only [] at hp
      injection hp with hp; injection hp with e1 e2
      left
      subst e1 e2
      exact ⟨hsplit.symm, rfl⟩
    | cons ret tl =>
      rw [hd] at hp hsplit
      simp only [] at hp
      injection hp with hp; injection hp with e1 e2
      right
      subst e1
      exact ⟨tl, last, hsplit.symm, e2.symm⟩

theorem heappop_head {h : List Item} {e : Item} {h' : List Item} (hp : heappop h = some (e, h')) :
    h.head? = some e := by
  rcases heappop_cases hp with ⟨rfl, _⟩ | ⟨tl, last, rfl, _⟩ <;> rfl

theorem downInv_replace_root {ret last : Item} {tl : List Item} (hh : IsHeap ((ret :: tl) ++ [last])) :
    DownInv (last :: tl) 0 := by
  constructor
  · intro i hi0 hin _ hq
    obtain ⟨j, rfl⟩ : ∃ j, i = j + 1 := ⟨i - 1, by omega⟩
    have hin' : j < tl.length := by simpa using hin
    obtain ⟨q, hqd⟩ : ∃ q, (j + 1 - 1) / 2 = q + 1 := ⟨(j + 1 - 1) / 2 - 1, by omega⟩
    have hql : q < tl.length := by omega
    have := hh (j + 1) (by omega) (by simp; omega)
    rw [hqd] at this ⊢
    rw [at_eq_getElem (by simp; omega), at_eq_getElem (by simp; omega)] at this
    rw [at_eq_getElem (by simp; omega), at_eq_getElem (by simp; omega)]
    simpa [List.getElem_append_left, hin', hql] using this
  · intro i _ _ _ h0
    omega

theorem heappop_perm {h : List Item} {e : Item} {h' : List Item} (hp : heappop h = some (e, h')) :
    (e :: h').Perm h := by
  rcases heappop_cases hp with ⟨rfl, rfl⟩ | ⟨tl, last, rfl, rfl⟩
  · exact List.Perm.refl _
  · obtain ⟨a, b, c⟩ := sink_basic (tl.length + 1) (last :: tl) 0 (by simp) (by omega)
    have p1 := (bubbleUp_perm _ _ (by rw [a]; exact b)).trans c
    refine (List.Perm.cons e p1).trans ?_
    refine (List.Perm.swap last e tl).trans ?_
    exact (List.perm_append_singleton last (e :: tl)).symm

theorem heappop_heap {h : List Item} (hh : IsHeap h) {e : Item} {h' : List Item} (hp : heappop h = some (e, h')) :
    IsHeap h' := by
  rcases heappop_cases hp with ⟨rfl, rfl⟩ | ⟨tl, last, rfl, rfl⟩
  · exact isHeap_nil
  · obtain ⟨a, b, _⟩ := sink_basic (tl.length + 1) (last :: tl) 0 (by simp) (by omega)
    exact bubbleUp_heap _ _ (by rw [a]; exact b)
      (sink_upInv (tl.length + 1) (last :: tl) 0 (by simp) (by omega) (downInv_replace_root hh))

theorem heappop_min {h : List Item} (hh : IsHeap h) {e : Item} {h' : List Item} (hp : heappop h = some (e, h')) :
    ∀ e', e' ∈ h → Prio.le e.2 e'.2 = true := by
  have hd := heappop_head hp
  have : at_ h 0 = e := by
    cases h with
    | nil => cases hd
    | cons a t => simp at hd; subst hd; rfl
  rw [← this]
  exact root_min hh

/-- on a heap, `heappop` satisfies the abstract pop contract: a pending pair of minimum priority, removed once -/
theorem heappop_ok {h : List Item} (hh : IsHeap h) {e : Item} {h' : List Item} (hp : heappop h = some (e, h')) :
    PopOk h e h' := by
  have hperm := heappop_perm hp
  have hmem : e ∈ h := hperm.mem_iff.mp (List.mem_cons_self ..)
  refine ⟨hmem, heappop_min hh hp, ?_⟩
  have := hperm.erase e
  rwa [List.erase_cons_head] at this

end Mouette.BinHeap
