import Mouette.Model.IOSource
import Mouette.Generated.C04Writers
import Mouette.Lemmas.C04Basic
/-
C04 (round 4) — lemmas that turn the statement-by-statement translations emitted by `vlib/gen/c04_translate.py`
(`Generated/C04Writers.lean`) into the list expressions of the hand-written models of `Model/IO.lean`, and the bridges
`Generated.C04W.export_f = IO.export_f`.
-/
set_option linter.unusedSimpArgs false
namespace Mouette.IOS
open Mouette.IO Mouette.Generated
variable {C : Type}

/-! ### loops -/

theorem flatMap_single {α β : Type} (g : α → β) (l : List α) : l.flatMap (fun x => [g x]) = l.map g := by
  induction l with
  | nil => rfl
  | cons a t ih => simp [List.flatMap_cons, ih]

theorem flatMap_ite {α β : Type} (p : α → Bool) (g : α → β) (l : List α) :
    l.flatMap (fun x => if p x = true then [g x] else []) = (l.filter p).map g := by
  induction l with
  | nil => rfl
  | cons a t ih => by_cases h : p a = true <;> simp [List.flatMap_cons, ih, h, List.filter_cons]

theorem flatMap_withEdge (es : List (Nat × Nat)) (g : Nat × Nat → Line) (ks : List Nat) :
    ks.flatMap (fun k => withEdge es[k]? [] (fun a b => [g (a, b)])) = (ks.filterMap (fun k => es[k]?)).map g := by
  induction ks with
  | nil => rfl
  | cons k t ih =>
    rw [List.flatMap_cons, ih, List.filterMap_cons]
    cases h : es[k]? with
    | none => simp [withEdge]
    | some e => cases e; simp [withEdge]

/-! ### lines -/

theorem fmtI_succ (n : Nat) : fmtI (n + 1) = idx1 n := by simp [fmtI, idx1]
theorem fmtI_idx0 (n : Nat) : fmtI n = idx0 n := rfl
theorem line_coords (cd : Codec C) (v : C × C × C) : List.map (fun c => fmtC cd c) (coords v) = coordLine cd v := rfl
theorem line_coords3 (cd : Codec C) (v : C × C × C) : [fmtC cd v.1] ++ ([fmtC cd v.2.1] ++ [fmtC cd v.2.2]) = coordLine cd v := rfl
theorem line_medV (cd : Codec C) (v : C × C × C) :
    [fmtC cd v.1] ++ ([fmtC cd v.2.1] ++ ([fmtC cd v.2.2] ++ [Tok.int 1])) = medVLine cd v := rfl
theorem line_rec (f : List Nat) : [fmtI f.length] ++ List.map (fun x => fmtI x) f = recLine f := rfl
theorem line_v (cd : Codec C) (v : C × C × C) : [Tok.kw "v"] ++ coordLine cd v = vLine cd v := rfl
theorem line_l (e : Nat × Nat) : [Tok.kw "l"] ++ ([fmtI (e.1 + 1)] ++ [fmtI (e.2 + 1)]) = lLine e := by
  simp [lLine, fmtI_succ]
theorem line_f (f : List Nat) : [Tok.kw "f"] ++ List.map (fun x => fmtI (x + 1)) f = fLine f := by
  simp [fLine, fmtI_succ]
theorem line_medE (e : Nat × Nat) : [fmtI (e.1 + 1)] ++ ([fmtI (e.2 + 1)] ++ [Tok.int 1]) = medRec [e.1, e.2] := by
  simp [medRec, fmtI_succ]

/-! ### text writers without branches -/

theorem exportOff_bridge (cd : Codec C) (m : Raw C) : C04W.exportOff cd m = IO.exportOff cd m := by
  unfold C04W.exportOff IO.exportOff
  simp only [flatMap_single, List.append_nil, List.append_assoc, line_coords, line_coords3, line_rec, fmtI_idx0]
  rfl

theorem exportTet_bridge (cd : Codec C) (m : Raw C) : C04W.exportTet cd m = IO.exportTet cd m := by
  unfold C04W.exportTet IO.exportTet
  simp only [flatMap_single, List.append_nil, List.append_assoc, line_coords, line_coords3, line_rec, fmtI_idx0]
  rfl

theorem exportXyz_bridge (cd : Codec C) (m : Raw C) : C04W.exportXyz cd m = IO.exportXyz cd m := by
  unfold C04W.exportXyz IO.exportXyz
  simp only [flatMap_single, List.append_nil, List.append_assoc, line_coords, line_coords3]

/-! ### obj -/

theorem hardEdges_eq (m : Raw C) : hardEdges m = (hardKeys m).filterMap (fun e => m.edges[e]?) := by
  unfold hardEdges hardKeys
  cases m.hard <;> simp

theorem hardEdges_none (m : Raw C) (h : m.hard = none) : hardEdges m = [] := by
  unfold hardEdges; rw [h]

theorem exportObj_bridge (cd : Codec C) (cfg : Cfg) (m : Raw C) : C04W.exportObj cd cfg m = IO.exportObj cd cfg m := by
  unfold C04W.exportObj IO.exportObj objEdges
  simp only [flatMap_single, List.append_nil, List.append_assoc, line_coords, line_coords3, line_v, line_f, line_l]
  have hl : ∀ a b : Nat, [[Tok.kw "l"] ++ ([fmtI (a + 1)] ++ [fmtI (b + 1)])] = [lLine (a, b)] := by
    intro a b; rw [← line_l]
  simp only [hl, flatMap_withEdge, ← hardEdges_eq]
  cases cfg.exportEdges <;> cases (!cfg.completeEdges || m.faces.isEmpty) <;> cases h3 : m.hard <;>
    simp [hardEdges_none, h3]

/-! ### medit -/

theorem count_fold (a b : Nat) (hab : a ≠ b) (l : List (List Nat)) (c : Nat × Nat × Nat) :
    (l.foldl (fun (cnt : Nat × Nat × Nat) (x : List Nat) =>
        if (x.length == a) then (cnt.1 + 1, cnt.2.1, cnt.2.2) else if (x.length == b) then (cnt.1, cnt.2.1 + 1, cnt.2.2)
        else (cnt.1, cnt.2.1, cnt.2.2 + 1)) c).1 = c.1 + (ofArity a l).length ∧
    (l.foldl (fun (cnt : Nat × Nat × Nat) (x : List Nat) =>
        if (x.length == a) then (cnt.1 + 1, cnt.2.1, cnt.2.2) else if (x.length == b) then (cnt.1, cnt.2.1 + 1, cnt.2.2)
        else (cnt.1, cnt.2.1, cnt.2.2 + 1)) c).2.1 = c.2.1 + (ofArity b l).length := by
  induction l generalizing c with
  | nil => simp [ofArity]
  | cons x t ih =>
    rw [List.foldl_cons]
    by_cases h1 : x.length = a
    · have h2 : x.length ≠ b := fun e => hab (h1 ▸ e)
      have := ih (c.1 + 1, c.2.1, c.2.2)
      simp [h1, h2, ofArity, List.filter_cons] at this ⊢
      subst h1
      simp [hab] at this ⊢
      omega
    · by_cases h2 : x.length = b
      · have := ih (c.1, c.2.1 + 1, c.2.2)
        simp [h1, h2, ofArity, List.filter_cons] at this ⊢
        subst h2
        simp [h1] at this ⊢
        omega
      · have := ih (c.1, c.2.1, c.2.2 + 1)
        simp [h1, h2, ofArity, List.filter_cons] at this ⊢
        omega

/-- `count_faces` returns (number of quads, number of triangles, …) -/
theorem countFaces_eq (m : Raw C) :
    (C04W.countFaces m).1 = (ofArity 4 m.faces).length ∧ (C04W.countFaces m).2.1 = (ofArity 3 m.faces).length := by
  have := count_fold 4 3 (by decide) m.faces (0, 0, 0)
  simpa [C04W.countFaces] using this

/-- `count_cells` returns (number of hexahedra, number of tetrahedra, …) -/
theorem countCells_eq (m : Raw C) :
    (C04W.countCells m).1 = (ofArity 8 m.cells).length ∧ (C04W.countCells m).2.1 = (ofArity 4 m.cells).length := by
  have := count_fold 8 4 (by decide) m.cells (0, 0, 0)
  simpa [C04W.countCells] using this

/-- every key of `hard_edges` is an edge index (what `a, b = mesh.edges[e]` needs in order not to raise) -/
def HardOk (m : Raw C) : Prop := ∀ k ∈ hardKeys m, k < m.edges.length

theorem length_filterMap_get {α : Type} (es : List α) (ks : List Nat) (h : ∀ k ∈ ks, k < es.length) :
    (ks.filterMap (fun k => es[k]?)).length = ks.length := by
  induction ks with
  | nil => rfl
  | cons k t ih =>
    have hk : k < es.length := h k (by simp)
    have : es[k]? = some es[k] := List.getElem?_eq_getElem hk
    simp [List.filterMap_cons, this, ih (fun k hk => h k (by simp [hk]))]

theorem star_rec (k : Nat) (l : List (List Nat)) :
    (l.filter (fun x => x.length == k)).map (fun f => starArgs k (List.map (fun x => fmtI (x + 1)) f) ++ [Tok.int 1])
      = (ofArity k l).map medRec := by
  unfold ofArity
  apply List.map_congr_left
  intro f hf
  have : f.length = k := by simpa using (List.mem_filter.mp hf).2
  have h2 : (List.map (fun x => fmtI (x + 1)) f).length = k := by simp [this]
  simp only [starArgs, medRec, ← h2, List.take_length]
  simp [fmtI_succ]

theorem block_eq (kwd : String) (recs : List Line) :
    block kwd recs = if decide (0 < recs.length) = true then [[Tok.kw kwd], [fmtI recs.length]] ++ recs else [] := by
  unfold block
  cases recs <;> simp [fmtI, idx0]



theorem flatMap_withEdge' (es : List (Nat × Nat)) (g : Nat → Nat → Line) (ks : List Nat) :
    ks.flatMap (fun k => withEdge es[k]? [] (fun a b => [g a b])) = (ks.filterMap (fun k => es[k]?)).map (fun e => g e.1 e.2) :=
  flatMap_withEdge es (fun e => g e.1 e.2) ks

theorem guard_nonempty {α β : Type} (l : List α) (X : List β) (h : l = [] → X = []) :
    (if (!l.isEmpty) = true then X else []) = X := by
  cases l with
  | nil => simp [h rfl]
  | cons a t => simp

theorem ofArity_nil (k : Nat) : ofArity k [] = [] := rfl

theorem exportMedit_bridge (cd : Codec C) (m : Raw C) (h : HardOk m) : C04W.exportMedit cd m = IO.exportMedit cd m := by
  have hlen : (hardKeys m).length = (hardEdges m).length := by
    rw [hardEdges_eq, length_filterMap_get _ _ h]
  unfold C04W.exportMedit IO.exportMedit
  simp only [flatMap_single, List.append_nil, List.append_assoc, line_medV, line_medE, (countFaces_eq m).1, (countFaces_eq m).2,
    (countCells_eq m).1, (countCells_eq m).2]
  simp only [flatMap_withEdge', ← hardEdges_eq, flatMap_ite, star_rec, block_eq, List.length_map, hlen, line_medE]
  rw [guard_nonempty m.faces _ (by intro e; simp [e, ofArity_nil]), guard_nonempty m.cells _ (by intro e; simp [e, ofArity_nil])]
  have hE : (if (!m.edges.isEmpty) = true then
              [[Tok.kw "Edges"]] ++
                if (m.hard.isSome && !(m.faces.isEmpty && m.cells.isEmpty)) = true then
                  [[fmtI (hardEdges m).length]] ++ List.map (fun e => medRec [e.fst, e.snd]) (hardEdges m)
                else [[fmtI m.edges.length]] ++ List.map (fun x => medRec [x.fst, x.snd]) m.edges
            else []) = (if m.edges = [] then []
            else
              [Tok.kw "Edges"] ::
                [idx0 (medEdges m).length] :: List.map (fun e => medRec [e.fst, e.snd]) (medEdges m)) := by
    unfold medEdges
    cases m.edges <;> cases m.hard <;> cases (m.faces.isEmpty && m.cells.isEmpty) <;> simp [fmtI_idx0]
  rw [hE]
  cases m.verts <;> simp [fmtI_idx0]

/-! ### stl (binary writer) -/


theorem mapOpt_length {α β : Type} (f : α → Option β) : ∀ (l : List α) (r : List β), mapOpt f l = some r → r.length = l.length
  | [], r, h => by simp [mapOpt] at h; subst h; rfl
  | a :: t, r, h => by
    unfold mapOpt at h
    cases ha : f a with
    | none => simp [ha] at h
    | some b =>
      cases ht : mapOpt f t with
      | none => simp [ha, ht] at h
      | some bs =>
        simp [ha, ht] at h
        subst h
        simp [mapOpt_length f t bs ht]

theorem writeTriangle_eq (cd : Codec C) (st : Nat × File) (a b c : C × C × C) :
    C04W.writeTriangle cd st a b c = (st.1 + 1, st.2 ++ [stlRec cd (a, b, c)]) := by
  simp [C04W.writeTriangle, stlRec, packZero, packF, num, coordLine, r32pt]

theorem writeFace_eq (cd : Codec C) (m : Raw C) (st : Nat × File) (f : List Nat) :
    C04W.writeFace cd m st f =
      match stlFaceTris m f with
      | none => none
      | some ts => some (st.1 + ts.length, st.2 ++ ts.map (stlRec cd)) := by
  unfold C04W.writeFace stlFaceTris
  cases hp : mapOpt (fun v => m.verts[v]?) f with
  | none => rfl
  | some pts =>
    have hl := mapOpt_length _ _ _ hp
    match pts, hl with
    | [], hl => simp [← hl]
    | [a], hl => simp [← hl]
    | [a, b], hl => simp [← hl]
    | [a, b, c], hl => simp [← hl, writeTriangle_eq]
    | [a, b, c, d], hl => simp [← hl, writeTriangle_eq, Nat.add_assoc]
    | a :: b :: c :: d :: e :: t, hl => simp [← hl]

theorem foldOpt_writeFace (cd : Codec C) (m : Raw C) : ∀ (fs : List (List Nat)) (st : Nat × File),
    foldOpt (C04W.writeFace cd m) st fs =
      match mapOpt (stlFaceTris m) fs with
      | none => none
      | some tss => some (st.1 + tss.flatten.length, st.2 ++ tss.flatten.map (stlRec cd))
  | [], st => by simp [foldOpt, mapOpt]
  | f :: t, st => by
    unfold foldOpt mapOpt
    rw [writeFace_eq]
    cases hf : stlFaceTris m f with
    | none => rfl
    | some ts =>
      simp only []
      rw [foldOpt_writeFace cd m t]
      cases ht : mapOpt (stlFaceTris m) t with
      | none => rfl
      | some tss => simp [Nat.add_assoc]

theorem exportStl_bridge (cd : Codec C) (m : Raw C) : C04W.exportStl cd m = IO.exportStl cd m := by
  unfold C04W.exportStl IO.exportStl stlTris
  rw [foldOpt_writeFace]
  cases mapOpt (stlFaceTris m) m.faces with
  | none => rfl
  | some tss => simp [fmtI, idx0]

end Mouette.IOS
