import Mouette.Generated.C09HeapQ
import Mouette.Lemmas.BinHeap
/-
CPython's Lib/heapq.py (`heappush`, `heappop`, `_siftdown`, `_siftup`, translated statement by statement into
Generated/C09HeapQ.lean: the "hole" formulation — the travelling item is kept aside and written once at the end) computes
exactly what the exchange formulation of Model/BinHeap.lean computes: at every iteration the array of the model is the
array of heapq with the hole filled by the travelling item.
-/
namespace Mouette.BinHeap
open Mouette.PQ Mouette.Generated

theorem at_set_self {h : List Item} {i : Nat} (hi : i < h.length) (x : Item) : at_ (h.set i x) i = x := by
  unfold at_; simp [List.getD_eq_getElem?_getD, hi]

theorem at_set_ne {h : List Item} {i j : Nat} (x : Item) (hij : i ≠ j) : at_ (h.set i x) j = at_ h j := by
  unfold at_; simp [List.getD_eq_getElem?_getD, List.getElem?_set_ne hij]

theorem set_at_self {h : List Item} {i : Nat} (hi : i < h.length) : h.set i (at_ h i) = h := by
  rw [at_eq_getElem hi]; exact List.set_getElem_self hi

/-- exchanging the hole-filled cell with cell `c` = moving cell `c` into the hole and the hole to `c` -/
theorem swap_fill {h : List Item} {pos c : Nat} (hp : pos < h.length) (hc : c < h.length) (hne : c ≠ pos) (x : Item) :
    swap (h.set pos x) pos c = (h.set pos (at_ h c)).set c x := by
  unfold swap
  rw [at_set_self hp, at_set_ne x (Ne.symm hne), List.set_set]

theorem siftdownLoop_spec (newitem : Item) : ∀ (fuel : Nat) (heap : List Item) (pos : Nat), pos < heap.length → pos ≤ fuel →
    ((HeapQ.siftdownLoop newitem 0 fuel heap pos).1).set (HeapQ.siftdownLoop newitem 0 fuel heap pos).2 newitem =
      bubbleUp (heap.set pos newitem) pos := by
  intro fuel
  induction fuel with
  | zero =>
    intro heap pos _ h0
    have : pos = 0 := by omega
    subst this
    unfold HeapQ.siftdownLoop bubbleUp
    simp
  | succ fuel ih =>
    intro heap pos hp hf
    unfold HeapQ.siftdownLoop
    by_cases h0 : 0 < pos
    · rw [if_pos h0]
      have hpar : (pos - 1) >>> 1 = (pos - 1) / 2 := by simp [Nat.shiftRight_eq_div_pow]
      have hlt : (pos - 1) / 2 < pos := by omega
      simp only [hpar]
      rw [bubbleUp, dif_neg (by omega)]
      rw [at_set_self hp, at_set_ne newitem (by omega : pos ≠ (pos - 1) / 2)]
      by_cases hl : lt newitem (at_ heap ((pos - 1) / 2)) = true
      · rw [if_pos hl, if_pos hl]
        have := ih (heap.set pos (at_ heap ((pos - 1) / 2))) ((pos - 1) / 2) (by simp; omega) (by omega)
        rw [this, swap_fill hp (by omega) (by omega)]
      · rw [if_neg hl, if_neg hl]
    · have : pos = 0 := by omega
      subst this
      rw [if_neg (by omega)]
      unfold bubbleUp
      simp

/-- `_siftdown(heap, 0, pos)` of heapq.py = `bubbleUp` of the model -/
theorem siftdown_eq_bubbleUp (heap : List Item) (pos : Nat) (hp : pos < heap.length) :
    HeapQ.siftdown heap 0 pos = bubbleUp heap pos := by
  unfold HeapQ.siftdown
  simp only
  rw [siftdownLoop_spec (at_ heap pos) (pos + 1) heap pos hp (by omega), set_at_self hp]

theorem siftupLoop_spec (newitem : Item) (n : Nat) : ∀ (fuel : Nat) (heap : List Item) (pos : Nat), heap.length = n → pos < n →
    n ≤ fuel + pos →
    (((HeapQ.siftupLoop n fuel heap pos (2 * pos + 1)).1).set (HeapQ.siftupLoop n fuel heap pos (2 * pos + 1)).2.1 newitem,
      (HeapQ.siftupLoop n fuel heap pos (2 * pos + 1)).2.1) = sink n (heap.set pos newitem) pos := by
  intro fuel
  induction fuel with
  | zero =>
    intro heap pos hn hp hf
    omega
  | succ fuel ih =>
    intro heap pos hn hp hf
    unfold HeapQ.siftupLoop
    rw [sink]
    by_cases hc : 2 * pos + 1 < n
    · rw [if_pos hc, if_pos hc]
      have hpl : pos < heap.length := by omega
      -- the child picked by heapq is the model's `child` (the hole is not one of the two cells compared)
      have hchild : (if 2 * pos + 1 + 1 < n ∧ ¬ (lt (at_ heap (2 * pos + 1)) (at_ heap (2 * pos + 1 + 1)) = true) then 2 * pos + 1 + 1
          else 2 * pos + 1) = child (heap.set pos newitem) n pos := by
        unfold child
        rw [at_set_ne newitem (by omega : pos ≠ 2 * pos + 1), at_set_ne newitem (by omega : pos ≠ 2 * pos + 2)]
        by_cases h1 : 2 * pos + 2 < n
        · cases hl : lt (at_ heap (2 * pos + 1)) (at_ heap (2 * pos + 2)) <;> simp [h1, hl]
        · have : ¬ 2 * pos + 1 + 1 < n := h1
          simp [h1, this]
      simp only
      rw [hchild]
      have hcs := child_spec (heap.set pos newitem) n pos hc
      have hcpos : child (heap.set pos newitem) n pos ≠ pos := by omega
      have hclt : child (heap.set pos newitem) n pos < heap.length := by omega
      have := ih (heap.set pos (at_ heap (child (heap.set pos newitem) n pos))) (child (heap.set pos newitem) n pos)
        (by simp [hn]) (by omega) (by omega)
      rw [this, swap_fill hpl hclt hcpos]
    · rw [if_neg hc, if_neg hc]

/-- `_siftup(heap, 0)` of heapq.py = the model's `sink` to a leaf followed by `bubbleUp` -/
theorem siftup_eq (heap : List Item) (hne : 0 < heap.length) :
    HeapQ.siftup heap 0 = bubbleUp (sink heap.length heap 0).1 (sink heap.length heap 0).2 := by
  unfold HeapQ.siftup
  simp only
  have h := siftupLoop_spec (at_ heap 0) heap.length heap.length heap 0 rfl hne (by omega)
  rw [set_at_self hne] at h
  have h1 := congrArg Prod.fst h
  have h2 := congrArg Prod.snd h
  simp only at h1 h2
  obtain ⟨a, b, _⟩ := sink_basic heap.length heap 0 rfl hne
  rw [h1, h2]
  exact siftdown_eq_bubbleUp _ _ (by rw [a]; exact b)

/-- BRIDGE: `heapq.heappush` as written in Lib/heapq.py is the model's `heappush` -/
theorem heapq_heappush_eq : HeapQ.heappush = heappush := by
  funext heap item
  unfold HeapQ.heappush heappush
  simp only
  have : (heap ++ [item]).length - 1 = heap.length := by simp
  rw [this]
  exact siftdown_eq_bubbleUp _ _ (by simp)

/-- BRIDGE: `heapq.heappop` as written in Lib/heapq.py is the model's `heappop` -/
theorem heapq_heappop_eq : HeapQ.heappop = heappop := by
  funext heap
  unfold HeapQ.heappop heappop
  cases hl : heap.getLast? with
  | none => rfl
  | some last =>
    simp only
    cases hd : heap.dropLast with
    | nil => simp
    | cons ret tl =>
      have hpos : 0 < (ret :: tl).length := by simp
      rw [if_pos hpos]
      have e0 : at_ (ret :: tl) 0 = ret := rfl
      have e1 : (ret :: tl).set 0 last = last :: tl := rfl
      rw [e0, e1, siftup_eq _ (by simp)]
      simp

end Mouette.BinHeap
