import Mouette.Lemmas.SubdivManifold4
import Mouette.Lemmas.SubdivManifold5
/-
C13 (round 7): 1→6 at full strength.  After 1→3 quads every quad [x, m, S, m'] is cut along the diagonal m - m' joining two
edge midpoints of the same face; these diagonals are the "inner" sides of the 1→4 pattern.  They differ from the halves
(one old end) and from the spokes (one end is a barycentre vertex), within a face the three of them join different pairs of
midpoints, and two faces sharing at most one edge have no pair of midpoints in common.
-/
namespace Mouette.Subdiv

theorem range_flatMap_get {α β} (g : Option α → List β) (l : List α) :
    (List.range l.length).flatMap (fun i => g l[i]?) = l.flatMap (fun f => g (some f)) := by
  induction l with
  | nil => rfl
  | cons a t ih =>
    rw [List.length_cons, List.range_succ_eq_map, List.flatMap_cons, List.flatMap_map]
    simp only [List.getElem?_cons_zero, List.getElem?_cons_succ, List.flatMap_cons]
    rw [ih]

theorem six_eq (a b c mab mbc mca s : Nat) :
    [[a, mab, s, mca], [b, mbc, s, mab], [c, mca, s, mbc]].flatMap (fun f => diagOf (some f)) =
      [(mab, mca), (mca, mab), (mbc, mab), (mab, mbc), (mca, mbc), (mbc, mca)] := rfl

theorem six_inner (es : List (Nat × Nat)) (base a b c mab mbc mca : Nat) (hab : a ≠ b) (hbc : b ≠ c) (hca : c ≠ a)
    (l1 : halfLookup es base (keyify a b) = some mab) (l2 : halfLookup es base (keyify b c) = some mbc)
    (l3 : halfLookup es base (keyify c a) = some mca) (x : Nat × Nat)
    (hx : x ∈ [(mab, mca), (mca, mab), (mbc, mab), (mab, mbc), (mca, mbc), (mbc, mca)]) : IsInner es base [a, b, c] x := by
  obtain ⟨n1, n2, n3⟩ := tri_keys_ne hab hbc hca
  have mA : keyify a b ∈ sidesKeyed [a, b, c] := by simp [sidesKeyed_tri]
  have mB : keyify b c ∈ sidesKeyed [a, b, c] := by simp [sidesKeyed_tri]
  have mC : keyify c a ∈ sidesKeyed [a, b, c] := by simp [sidesKeyed_tri]
  simp only [List.mem_cons, List.not_mem_nil, or_false] at hx
  rcases hx with rfl | rfl | rfl | rfl | rfl | rfl
  · exact ⟨_, _, _, _, mA, mC, fun e => n3 e.symm, l1, l3, rfl⟩
  · exact ⟨_, _, _, _, mC, mA, n3, l3, l1, rfl⟩
  · exact ⟨_, _, _, _, mB, mA, fun e => n1 e.symm, l2, l1, rfl⟩
  · exact ⟨_, _, _, _, mA, mB, n1, l1, l2, rfl⟩
  · exact ⟨_, _, _, _, mC, mB, fun e => n2 e.symm, l3, l2, rfl⟩
  · exact ⟨_, _, _, _, mB, mC, n2, l2, l3, rfl⟩

theorem six_nodup (mab mbc mca : Nat) (d1 : mab ≠ mbc) (d2 : mbc ≠ mca) (d3 : mca ≠ mab) :
    [(mab, mca), (mca, mab), (mbc, mab), (mab, mbc), (mca, mbc), (mbc, mca)].Nodup := by
  simp only [List.nodup_cons, List.mem_cons, Prod.mk.injEq, List.not_mem_nil, or_false, List.nodup_nil, and_true, not_or]
  repeat' apply And.intro
  all_goals (first | omega | (intro h; omega))

theorem spoke_not_inner {es : List (Nat × Nat)} {base : Nat} (f g : List Nat) (s : Nat) (hs : base + es.length ≤ s) (x : Nat × Nat)
    (hf : IsSpoke es base f s x) (hg : IsInner es base g x) : False := by
  obtain ⟨t, mt, _, l1, hx⟩ := hf
  obtain ⟨s', t', ms, mt', _, _, _, k1, k2, rfl⟩ := hg
  have g1 := (lookup_ge _ _ _ _ k1).2
  have g2 := (lookup_ge _ _ _ _ k2).2
  rcases hx with e | e <;> simp only [Prod.mk.injEq] at e <;> omega

/-- **the sides of the 1→3 quads mesh and the diagonals its quads are cut along are pairwise distinct** -/
theorem q3_sides_diags_nodup (m m1 : Raw) (h : quads3Core m = .ok m1) (hes : EdgesSorted m) (ho : OrientedSides m)
    (hS : SharesAtMostOne m) :
    (dirSides m1 ++ (List.range m1.faces.length).flatMap (fun i => diagOf m1.faces[i]?)).Nodup := by
  have hesb : ∀ e ∈ m.edges, e.1 < e.2 ∧ e.2 < m.verts.length := hes
  obtain ⟨mids, bs, parts, _, _, h3, _, hf, _⟩ := quads3Core_spec m m1 h
  have hdiag : (List.range m1.faces.length).flatMap (fun i => diagOf m1.faces[i]?) =
      parts.flatMap (fun p => p.1.flatMap (fun f => diagOf (some f))) := by
    rw [range_flatMap_get diagOf m1.faces, hf, List.flatMap_assoc]
  -- a diagonal is an inner side of the face its part was written for
  have diag_inner : ∀ p ∈ parts, ∀ x ∈ p.1.flatMap (fun f => diagOf (some f)),
      ∃ sf ∈ number (m.verts.length + m.edges.length) m.faces, IsInner m.edges m.verts.length sf.2 x := by
    intro p hp x hx
    obtain ⟨sf, hsf, hfl⟩ := mapE_mem_back _ _ _ h3 p hp
    obtain ⟨a, b, c, mab, mbc, mca, hfe, hab, hbc, hca, l1, l2, l3, hp1⟩ := q3_part_desc m hes sf.1 sf.2 p hfl
    rw [hp1, six_eq] at hx
    exact ⟨sf, hsf, by rw [hfe]; exact six_inner _ _ a b c mab mbc mca hab hbc hca l1 l2 l3 x hx⟩
  rw [hdiag, List.nodup_append]
  refine ⟨q3_oriented m m1 h hes ho, ?_, ?_⟩
  · rw [List.nodup_flatMap]
    constructor
    · intro p hp
      obtain ⟨sf, hsf, hfl⟩ := mapE_mem_back _ _ _ h3 p hp
      obtain ⟨a, b, c, mab, mbc, mca, _, hab, hbc, hca, l1, l2, l3, hp1⟩ := q3_part_desc m hes sf.1 sf.2 p hfl
      obtain ⟨d1, d2, d3⟩ := lookups_distinct _ _ _ _ _ _ _ _
        (by simp only [List.nodup_cons, List.mem_cons, List.not_mem_nil, or_false, not_or, List.nodup_nil, and_true,
              not_false_eq_true]; exact ⟨⟨hab, fun e => hca e.symm⟩, hbc⟩) l1 l2 l3
      rw [hp1, six_eq]
      exact six_nodup mab mbc mca d1 d2 d3
    · have hpw := number_pairwiseR ShareAtMostOne m.faces (m.verts.length + m.edges.length) hS
      refine mapE_pairwise (fun sf : Nat × List Nat => quadsFace (m.edges, m.verts.length) sf.1 sf.2) _ _ ?_ _ parts hpw h3
      intro sf sg p q hp hq ⟨_, hsh⟩
      obtain ⟨a, b, c, mab, mbc, mca, hfe, hab, hbc, hca, l1, l2, l3, hp1⟩ := q3_part_desc m hes sf.1 sf.2 p hp
      obtain ⟨a', b', c', nab, nbc, nca, hge, hab', hbc', hca', k1, k2, k3, hq1⟩ := q3_part_desc m hes sg.1 sg.2 q hq
      simp only [Function.onFun, List.disjoint_left]
      intro x hx hy
      rw [hp1, six_eq] at hx; rw [hq1, six_eq] at hy
      have i1 := six_inner _ _ a b c mab mbc mca hab hbc hca l1 l2 l3 x hx
      have i2 := six_inner _ _ a' b' c' nab nbc nca hab' hbc' hca' k1 k2 k3 x hy
      rw [← hfe] at i1; rw [← hge] at i2
      exact inner_not_inner _ _ x hsh i1 i2
  · intro x hx y hy hxy
    subst hxy
    obtain ⟨p, hp, hxp⟩ := List.mem_flatMap.mp hy
    obtain ⟨sg, _, hin⟩ := diag_inner p hp x hxp
    obtain ⟨sf, hsf, hcase⟩ := (mem_dirSides_q3 m m1 h hes x).mp hx
    obtain ⟨hsb, _, _⟩ := number_mem _ _ sf hsf
    rcases hcase with hh | hs
    · exact half_not_inner hesb _ _ x hh hin
    · exact spoke_not_inner _ _ _ hsb x hs hin

theorem diagOf_swap (o : Option (List Nat)) (y : Nat × Nat) (hy : y ∈ diagOf o) : (y.2, y.1) ∈ diagOf o := by
  rcases o with _ | f
  · simp [diagOf] at hy
  · rcases f with _ | ⟨a, _ | ⟨b, _ | ⟨c, _ | ⟨d, _ | ⟨e, t⟩⟩⟩⟩⟩ <;> simp [diagOf] at hy ⊢
    rcases hy with rfl | rfl <;> simp

/-- cutting quads along diagonals that are new: the border sides are those of the mesh before the cuts -/
theorem cuts_border (S D S' : List (Nat × Nat)) (hperm : S'.Perm (S ++ D)) (hnd : (S ++ D).Nodup)
    (hsw : ∀ y ∈ D, (y.2, y.1) ∈ D) (x : Nat × Nat) (hx : x ∈ S') :
    (x.2, x.1) ∉ S' ↔ (x ∈ S ∧ (x.2, x.1) ∉ S) := by
  have memD : ∀ y, y ∈ S' ↔ y ∈ S ∨ y ∈ D := fun y => by rw [hperm.mem_iff, List.mem_append]
  have hdis : ∀ y, y ∈ S → y ∈ D → False := fun y h1 h2 => (List.nodup_append.mp hnd).2.2 y h1 y h2 rfl
  rcases (memD x).mp hx with h1 | h1
  · constructor
    · intro hno; exact ⟨h1, fun hc => hno ((memD _).mpr (Or.inl hc))⟩
    · rintro ⟨_, hno⟩ hopp
      rcases (memD _).mp hopp with hc | hc
      · exact hno hc
      · exact hdis x h1 (by simpa using hsw _ hc)
  · constructor
    · intro hno; exact absurd ((memD _).mpr (Or.inr (hsw x h1))) hno
    · rintro ⟨h2, _⟩; exact absurd h1 (fun h => hdis x h2 h)

end Mouette.Subdiv
