import Mathlib.Tactic.Ring
import Mathlib.Tactic.Linarith
import Mouette.Lemmas.C19Sampling
import Mouette.Lemmas.C19Wrap
import Mouette.Model.SamplingFn
import Mouette.Lemmas.C19Loop
/-
C19 round 4 — helper lemmas for the whole-function bridges (`Props/C19Fn.lean`): numpy broadcasting primitives of
`Model/SamplingSource.lean` against the per-point model functions, and the enumerate/row-store loop as a `map`.
-/
namespace Mouette.Lemmas.C19Fn
open Mouette.Sampling Mouette.SamplingWrap Mouette.SamplingSrc Mouette.SamplingFn

/-! ### the sampling loop: `for i,x in enumerate(xs): buf[i,:] = f x i` fills the buffer with `map` -/

theorem foldl_setRow_aux {α β : Type} (f : α → Nat → β) : ∀ (xs : List α) (k : Nat) (pre buf : List β),
    pre.length = k → xs.length ≤ buf.length →
    (xs.zipIdx k).foldl (fun b (ix : α × Nat) => b.set ix.2 (f ix.1 ix.2)) (pre ++ buf)
      = pre ++ (xs.zipIdx k).map (fun ix => f ix.1 ix.2) ++ buf.drop xs.length := by
  intro xs
  induction xs with
  | nil => intro k pre buf _ _; simp
  | cons a xs ih =>
    intro k pre buf hk hl
    match buf, hl with
    | b :: buf, hl =>
      have hl' : xs.length ≤ buf.length := by simpa using hl
      simp only [List.zipIdx_cons, List.foldl_cons, List.map_cons, List.length_cons, List.drop_succ_cons]
      have hset : (pre ++ b :: buf).set k (f a k) = (pre ++ [f a k]) ++ buf := by
        rw [List.set_append_right _ _ (by omega)]
        simp [hk]
      rw [hset, ih (k + 1) (pre ++ [f a k]) buf (by simp [hk]) hl']
      simp

/-- the loop `for i,x in enumerate(xs): buf[i,:] = f x i` on a buffer with one row per element of `xs` -/
theorem foldl_setRow_zipIdx {α β : Type} (f : α → Nat → β) (xs : List α) (buf : List β) (h : buf.length = xs.length) :
    xs.zipIdx.foldl (fun b (ix : α × Nat) => b.set ix.2 (f ix.1 ix.2)) buf = xs.zipIdx.map (fun ix => f ix.1 ix.2) := by
  have := foldl_setRow_aux f xs 0 [] buf rfl (by omega)
  simp only [List.nil_append] at this
  rw [this, List.drop_of_length_le (by omega)]
  simp

/-! ### broadcasting primitives, row by row -/

theorem segPoint_src (t : Rat) : ∀ (a b : Row), vadd (smul (1 - t) b) (smul t a) = segPoint t a b := by
  intro a
  induction a with
  | nil => intro b; simp [vadd, smul, segPoint]
  | cons x a ih =>
    intro b
    cases b with
    | nil => simp [vadd, smul, segPoint]
    | cons y b =>
      have := ih b
      simp only [vadd, smul, List.map_cons, List.zipWith_cons_cons, segPoint, segCoord] at this ⊢
      rw [this]
      congr 1
      ring

theorem triPoint_src (sq u2 : Rat) : ∀ (a b c : Row),
    vadd (smul ((1 - (1 - sq)) * u2) (vsub c a)) (vadd (smul (1 - sq) (vsub b a)) a) = triPoint sq u2 a b c := by
  intro a
  induction a with
  | nil => intro b c; simp [vadd, smul, vsub, triPoint]
  | cons x a ih =>
    intro b c
    cases b with
    | nil => simp [vadd, smul, vsub, triPoint]
    | cons y b =>
      cases c with
      | nil => simp [vadd, smul, vsub, triPoint]
      | cons z c =>
        have := ih b c
        simp only [vadd, smul, vsub, List.map_cons, List.zipWith_cons_cons, triPoint, triCoord] at this ⊢
        rw [this]
        congr 1
        ring

theorem boxMap_src : ∀ (lo hi row : Row),
    List.zipWith (· + ·) (List.zipWith (· * ·) row (vsub hi lo)) lo = boxMap lo hi row := by
  intro lo
  induction lo with
  | nil => intro hi row; cases hi <;> cases row <;> simp [vsub, boxMap]
  | cons l lo ih =>
    intro hi row
    cases hi with
    | nil => cases row <;> simp [vsub, boxMap]
    | cons h hi =>
      cases row with
      | nil => simp [vsub, boxMap]
      | cons r row =>
        have := ih hi row
        simp only [vsub, List.zipWith_cons_cons, boxMap, boxCoord] at this ⊢
        rw [this]
        congr 1
        ring

theorem isEmpty_src : ∀ (lo hi : Row), anyB (vge lo hi) = boxEmpty lo hi := by
  intro lo
  induction lo with
  | nil => intro hi; cases hi <;> simp [anyB, vge, boxEmpty]
  | cons l lo ih =>
    intro hi
    cases hi with
    | nil => simp [anyB, vge, boxEmpty]
    | cons h hi =>
      have := ih hi
      simp only [anyB, vge, List.zipWith_cons_cons, List.any_cons, boxEmpty, id] at this ⊢
      rw [this]

theorem boxMap_length : ∀ (lo hi u : Row), lo.length = hi.length → u.length = lo.length →
    (boxMap lo hi u).length = lo.length := by
  intro lo
  induction lo with
  | nil => intro hi u _ _; cases hi <;> cases u <;> simp [boxMap]
  | cons l lo ih =>
    intro hi u h1 h2
    cases hi with
    | nil => simp at h1
    | cons h hi =>
      cases u with
      | nil => simp at h2
      | cons y u =>
        simp only [boxMap, List.length_cons]
        rw [ih hi u (by simpa using h1) (by simpa using h2)]

/-- `de_casteljau(P,t)` of the source WITH its range guard: guard, loop bounds, update, result index all from `Generated/C19DC` -/
def srcDeCasteljau? (t : Rat) (P : List Rat) : Option Rat :=
  if Mouette.Generated.C19.dcRaises t then none else some (Mouette.Lemmas.C19.srcDeCasteljau t P)

theorem normalise_eq (w : List Rat) : normalise w = probs w := rfl

end Mouette.Lemmas.C19Fn
