import Mouette.Lemmas.SubdivComplete6
/-
C13 (round 2): the cells, face keys and sides after `split_tet_from_face_center`, classified.
-/
namespace Mouette.Subdiv

theorem mem_adjacentCells_of (m : Raw) (f : List Nat) (k : Nat) (cell : List Nat) (h1 : m.cells[k]? = some cell)
    (h2 : f ⊆ cell) : k ∈ adjacentCells m f := by
  have hk : k < m.cells.length := by
    by_contra hc; rw [List.getElem?_eq_none (by omega)] at h1; cases h1
  simp only [adjacentCells, List.mem_filter, List.mem_range]
  refine ⟨hk, ?_⟩
  rw [h1]
  exact (isSubset_iff f cell).mpr h2

/-- the cells after the split: untouched cells that do not contain the face, and for every cell on the face its three
sub-cells (one per vertex of the face) -/
theorem faceSplit_cells (m m' : Raw) (fid a b c : Nat) (hf : m.faces[fid]? = some [a, b, c])
    (h : splitTetFromFaceCenter m fid = .ok m') (hT : TetCells m) (hn : [a, b, c].Nodup) :
    (∀ cell' ∈ m'.cells, (cell' ∈ m.cells ∧ ¬ [a, b, c] ⊆ cell') ∨
        (∃ cell ∈ m.cells, [a, b, c] ⊆ cell ∧ SubcellOf [a, b, c] m.verts.length cell cell')) ∧
    (∀ cell ∈ m.cells, [a, b, c] ⊆ cell → ∀ x ∈ [a, b, c], ∃ cell' ∈ m'.cells, cell'.length = 4 ∧ cell'.Nodup ∧
        ∀ v, v ∈ cell' ↔ (v = m.verts.length ∨ (v ∈ cell ∧ v ≠ x))) := by
  obtain ⟨ps, cells, _, hfold, _, hce, _, _⟩ := faceSplit_spec m m' fid a b c hf h
  have hadj : AdjOk [a, b, c] m.verts.length m.cells (adjacentCells m [a, b, c]) := by
    intro k hk
    obtain ⟨cell, h1, h2⟩ := mem_adjacentCells m _ k hk
    obtain ⟨h4, hc, hb⟩ := hT cell (List.mem_of_getElem? h1)
    exact ⟨cell, h1, (isSubset_iff _ _).mp h2, h4, hc, fun hic => by have := hb _ hic; omega⟩
  obtain ⟨A1, _, A3⟩ := fold_cells_desc [a, b, c] m.verts.length hn rfl _ m.cells cells (adjacentCells_nodup m _) hadj hfold
  rw [hce]
  constructor
  · intro cell' hc'
    rcases A1 cell' hc' with ⟨j, hj, hcj⟩ | ⟨k, hk, cell, hck, hsc⟩
    · exact Or.inl ⟨List.mem_of_getElem? hcj, fun hsub => hj (mem_adjacentCells_of m _ j cell' hcj hsub)⟩
    · obtain ⟨cell0, h1, h2⟩ := mem_adjacentCells m _ k hk
      have e : cell0 = cell := by rw [h1] at hck; exact Option.some.inj hck
      rw [e] at h1 h2
      exact Or.inr ⟨cell, List.mem_of_getElem? h1, (isSubset_iff _ _).mp h2, hsc⟩
  · intro cell hcm hsub x hx
    obtain ⟨k, hk, rfl⟩ := List.getElem_of_mem hcm
    exact A3 k (mem_adjacentCells_of m _ k _ (List.getElem?_eq_getElem hk) hsub) _ (List.getElem?_eq_getElem hk) x hx

/-- vertices of a sub-cell: the new centre, the opposite vertex, and the two other vertices of the face -/
theorem subcell_mem {f cell cell' : List Nat} {ic o : Nat} (hsub : f ⊆ cell) (hopp : IsOpp f cell o)
    {x : Nat} (hdesc : ∀ v, v ∈ cell' ↔ (v = ic ∨ (v ∈ cell ∧ v ≠ x))) (hx : x ∈ f) (v : Nat) :
    v ∈ cell' ↔ (v = ic ∨ v = o ∨ (v ∈ f ∧ v ≠ x)) := by
  rw [hdesc v, opp_mem_iff hopp hsub v]
  have hox : o ≠ x := fun e => hopp.2.1 (e ▸ hx)
  constructor
  · rintro (h | ⟨h1 | h1, h2⟩)
    · exact Or.inl h
    · exact Or.inr (Or.inl h1)
    · exact Or.inr (Or.inr ⟨h1, h2⟩)
  · rintro (h | h | ⟨h1, h2⟩)
    · exact Or.inl h
    · exact Or.inr ⟨Or.inl h, h ▸ hox⟩
    · exact Or.inr ⟨Or.inr h1, h2⟩

theorem len4 {l : List Nat} (h : l.length = 4) : ∃ a b c d, l = [a, b, c, d] := by
  rcases l with _ | ⟨a, _ | ⟨b, _ | ⟨c, _ | ⟨d, _ | ⟨e, t⟩⟩⟩⟩⟩ <;> simp at h
  exact ⟨a, b, c, d, rfl⟩

/-- a face of a cell lies inside the cell -/
theorem tetFaces_subset (cell g : List Nat) (h4 : cell.length = 4) (hc : cell.Nodup) (hg : g ∈ tetFaces cell) :
    g ⊆ cell ∧ g.Nodup ∧ g.length = 3 := by
  obtain ⟨v0, v1, v2, v3, rfl⟩ := len4 h4
  obtain ⟨p, q, r, rfl, hp, hq, hr, hd⟩ := tetFaces_mem v0 v1 v2 v3 g hg
  obtain ⟨d1, d2, d3⟩ := hd hc
  refine ⟨?_, ?_, rfl⟩
  · intro v hv
    simp only [List.mem_cons, List.not_mem_nil, or_false] at hv
    rcases hv with rfl | rfl | rfl <;> assumption
  · simp only [List.nodup_cons, List.mem_cons, List.not_mem_nil, or_false, not_or, List.nodup_nil, and_true,
      not_false_eq_true]
    exact ⟨⟨d1, fun e => d3 e.symm⟩, d2⟩

theorem face_of_cell' (cell f3 : List Nat) (h4 : cell.length = 4) (hc : cell.Nodup) (h3 : f3.Nodup) (hl : f3.length = 3)
    (hsub : f3 ⊆ cell) : ∃ g ∈ tetFaces cell, keyifyL g = keyifyL f3 := by
  obtain ⟨v0, v1, v2, v3, rfl⟩ := len4 h4
  exact face_of_cell v0 v1 v2 v3 f3 hc h3 hl hsub

/-- keys of the faces of the cells after the split: an old face other than the split one, one of the three new faces,
or a new face (t, centre, opposite vertex) -/
theorem classify_key (m m' : Raw) (fid a b c : Nat) (hf : m.faces[fid]? = some [a, b, c])
    (h : splitTetFromFaceCenter m fid = .ok m') (hF : FacesAreCellFaces m) (hwf : WF m) (hT : TetCells m)
    (hn : [a, b, c].Nodup) (cell' : List Nat) (hc' : cell' ∈ m'.cells) (g : List Nat) (hg : g ∈ tetFaces cell') :
    (keyifyL g ∈ m.faces.map keyifyL ∧ keyifyL g ≠ keyifyL [a, b, c]) ∨
    (keyifyL g = keyifyL [a, b, m.verts.length] ∨ keyifyL g = keyifyL [m.verts.length, b, c] ∨
      keyifyL g = keyifyL [a, m.verts.length, c]) ∨
    (∃ t ∈ [a, b, c], ∃ o ∈ opps m [a, b, c], keyifyL g = keyifyL [t, m.verts.length, o]) := by
  set ic := m.verts.length with hic
  have hfm : [a, b, c] ∈ m.faces := List.mem_of_getElem? hf
  have la : a < ic := hwf _ hfm a (by simp)
  have lb : b < ic := hwf _ hfm b (by simp)
  have lc : c < ic := hwf _ hfm c (by simp)
  obtain ⟨nab, nbc, nca⟩ := nodup3 hn
  rcases (faceSplit_cells m m' fid a b c hf h hT hn).1 cell' hc' with ⟨hcm, hnsub⟩ | ⟨cell, hcm, hsub, x, hx, h4', hcn', hdesc⟩
  · left
    obtain ⟨h4, hc, _⟩ := hT cell' hcm
    refine ⟨hF.2 cell' hcm g hg, fun e => hnsub ?_⟩
    intro v hv
    exact (tetFaces_subset cell' g h4 hc hg).1 (key_mem_of_eq e.symm v hv)
  · obtain ⟨h4, hc, hb⟩ := hT cell hcm
    obtain ⟨o, hopp⟩ := opp_exists [a, b, c] cell hc h4 hn rfl hsub
    have lo : o < ic := hb o hopp.1
    have hoo : o ∈ opps m [a, b, c] := (mem_opps m _ hT hn rfl o).mpr ⟨cell, hcm, hsub, hopp⟩
    have hmem := subcell_mem hsub hopp hdesc hx
    obtain ⟨hgsub, hgn, hgl⟩ := tetFaces_subset cell' g h4' hcn' hg
    have lx : x < ic := by
      simp only [List.mem_cons, List.not_mem_nil, or_false] at hx
      rcases hx with rfl | rfl | rfl <;> assumption
    by_cases hicg : ic ∈ g
    · by_cases hog : o ∈ g
      · right; right
        obtain ⟨t, ht, t1, t2⟩ := third_elem g hgn hgl ic o
        have htf : t ∈ [a, b, c] := by
          rcases (hmem t).mp (hgsub ht) with e | e | ⟨e, _⟩
          · exact absurd e t1
          · exact absurd e t2
          · exact e
        exact ⟨t, htf, o, hoo, key_of_three g t ic o hgl ht hicg hog t1 (by omega) (fun e => t2 e.symm)⟩
      · right; left
        obtain ⟨y, hy, y1, _⟩ := third_elem g hgn hgl ic ic
        obtain ⟨z, hz, z1, z2⟩ := third_elem g hgn hgl ic y
        have hyf : y ∈ [a, b, c] ∧ y ≠ x := by
          rcases (hmem y).mp (hgsub hy) with e | e | e
          · exact absurd e y1
          · exact absurd (e ▸ hy) hog
          · exact e
        have hzf : z ∈ [a, b, c] ∧ z ≠ x := by
          rcases (hmem z).mp (hgsub hz) with e | e | e
          · exact absurd e z1
          · exact absurd (e ▸ hz) hog
          · exact e
        have hk := key_of_three g y ic z hgl hy hicg hz y1 (fun e => z1 e.symm) z2
        rw [hk]
        have key3 : ∀ (p q r : Nat), p ≠ q → q ≠ r → r ≠ p → (∀ v, (v = y ∨ v = ic ∨ v = z) ↔ (v = p ∨ v = q ∨ v = r)) →
            keyifyL [y, ic, z] = keyifyL [p, q, r] := by
          intro p q r h1 h2 h3 hv
          refine (keyifyL_eq_iff ?_ ?_).mpr (fun v => by simpa using hv v)
          · simp only [List.nodup_cons, List.mem_cons, List.not_mem_nil, or_false, not_or, List.nodup_nil, and_true,
              not_false_eq_true]
            exact ⟨⟨y1, fun e => z2 e.symm⟩, fun e => z1 e.symm⟩
          · simp only [List.nodup_cons, List.mem_cons, List.not_mem_nil, or_false, not_or, List.nodup_nil, and_true,
              not_false_eq_true]
            exact ⟨⟨h1, fun e => h3 e.symm⟩, h2⟩
        simp only [List.mem_cons, List.not_mem_nil, or_false] at hx hyf hzf
        rcases hx with rfl | rfl | rfl
        · right; left; exact key3 ic b c (by omega) nbc (by omega) (by intro v; omega)
        · right; right; exact key3 a ic c (by omega) (by omega) nca (by intro v; omega)
        · left; exact key3 a b ic nab (by omega) (by omega) (by intro v; omega)
    · left
      have hgc : g ⊆ cell := by
        intro w hw
        rcases (hmem w).mp (hgsub hw) with e | e | ⟨e, _⟩
        · exact absurd (show ic ∈ g by rw [hic, ← e]; exact hw) hicg
        · exact e ▸ hopp.1
        · exact hsub e
      obtain ⟨g0, hg0, e0⟩ := face_of_cell' cell g h4 hc hgn hgl hgc
      refine ⟨e0 ▸ hF.2 cell hcm g0 hg0, fun e => ?_⟩
      have hxg : x ∈ g := key_mem_of_eq e.symm x hx
      rcases (hmem x).mp (hgsub hxg) with e1 | e1 | ⟨_, e1⟩
      · omega
      · exact hopp.2.1 (e1 ▸ hx)
      · exact e1 rfl

end Mouette.Subdiv
