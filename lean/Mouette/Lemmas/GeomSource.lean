import Mouette.Model.GeomSource
import Mouette.Lemmas.GeomLemmas
/-
Generic lemmas about the loop combinators of `Model/GeomSource.lean`: a loop whose body only touches the entry of its own index
("local" body) computes, at every index, what ONE run of the body computes there.
-/
namespace Mouette.GeomSrc
open Mouette.Geom

theorem wr_same {α : Type} (a : Attr α) (i : Nat) (v : α) : wr a i v i = v := by simp [wr]
theorem wr_other {α : Type} (a : Attr α) (i j : Nat) (v : α) (h : j ≠ i) : wr a i v j = a j := by simp [wr, h]
theorem upd_same {α : Type} (a : Attr α) (i : Nat) (f : α → α) : upd a i f i = f (a i) := by simp [upd]
theorem upd_other {α : Type} (a : Attr α) (i j : Nat) (f : α → α) (h : j ≠ i) : upd a i f j = a j := by simp [upd, h]
theorem wr_eq_upd {α : Type} (a : Attr α) (i : Nat) (v : α) : wr a i v = upd a i (fun _ => v) := rfl

/-- a `range` loop body that only rewrites the entry of its own index, as a function of that entry -/
def IsLocal {α : Type} (body : Attr α → Nat → Attr α) : Prop :=
  ∀ a i, body a i = upd a i (fun v => body (fun _ => v) i i)

/-- same for an `enumerate` loop -/
def IsLocalE {α β : Type} (body : Attr α → Nat → β → Attr α) : Prop :=
  ∀ a i x, body a i x = upd a i (fun v => body (fun _ => v) i x i)

theorem forRange_succ {σ : Type} (n : Nat) (s : σ) (body : σ → Nat → σ) :
    forRange (n + 1) s body = body (forRange n s body) n := by
  simp [forRange, List.range_succ, List.foldl_append]

theorem forRange_zero {σ : Type} (s : σ) (body : σ → Nat → σ) : forRange 0 s body = s := rfl

theorem forRange_local_at {α : Type} (body : Attr α → Nat → Attr α) (h : IsLocal body) (a : Attr α) :
    ∀ (n j : Nat), forRange n a body j = if j < n then body (fun _ => a j) j j else a j := by
  intro n
  induction n with
  | zero => intro j; simp [forRange_zero]
  | succ n ih =>
    intro j
    rw [forRange_succ, h]
    by_cases hj : j = n
    · subst hj
      rw [upd_same, ih]
      simp
    · rw [upd_other _ _ _ _ hj, ih]
      by_cases h1 : j < n
      · have : j < n + 1 := by omega
        simp [h1, this]
      · have : ¬ j < n + 1 := by omega
        simp [h1, this]

/-- the table read from the result of a local `range` loop -/
theorem tab_forRange_local {α : Type} (body : Attr α → Nat → Attr α) (h : IsLocal body) (a : Attr α) (n : Nat) :
    tab (forRange n a body) n = (List.range n).map (fun j => body (fun _ => a j) j j) := by
  unfold tab
  apply List.map_congr_left
  intro j hj
  rw [forRange_local_at body h a n j]
  simp [List.mem_range.mp hj]

theorem forEnumFrom_local_at {α β : Type} (body : Attr α → Nat → β → Attr α) (h : IsLocalE body) :
    ∀ (l : List β) (k : Nat) (a : Attr α) (j : Nat),
      forEnumFrom k l a body j =
        if k ≤ j then (match l[j - k]? with | some x => body (fun _ => a j) j x j | none => a j) else a j := by
  intro l
  induction l with
  | nil => intro k a j; simp [forEnumFrom]
  | cons x xs ih =>
    intro k a j
    rw [forEnumFrom, ih, h]
    by_cases hjk : j = k
    · subst hjk
      simp [upd_same]
    · rw [upd_other _ _ _ _ hjk]
      by_cases h1 : k + 1 ≤ j
      · have h2 : k ≤ j := by omega
        have h3 : j - k = (j - (k + 1)) + 1 := by omega
        simp only [h1, h2, if_true]
        rw [h3, List.getElem?_cons_succ]
      · have h2 : ¬ k ≤ j := by omega
        simp [h1, h2, upd_other _ _ _ _ hjk]

/-- the table read from the result of a local `enumerate` loop: one run of the body per element -/
theorem tab_forEnum_local {α β : Type} (body : Attr α → Nat → β → Attr α) (h : IsLocalE body) (a : Attr α) (l : List β) :
    tab (forEnum l a body) l.length = l.mapIdx (fun j x => body (fun _ => a j) j x j) := by
  apply List.ext_getElem
  · simp [tab]
  · intro j h1 h2
    simp only [tab, List.getElem_map, List.getElem_range, List.getElem_mapIdx]
    rw [forEnum, forEnumFrom_local_at body h]
    have hj : j < l.length := by simpa [tab] using h1
    simp [hj]

theorem forEnum_local_get {α β : Type} (body : Attr α → Nat → β → Attr α) (h : IsLocalE body) (a : Attr α) (l : List β)
    (j : Nat) (hj : j < l.length) : forEnum l a body j = body (fun _ => a j) j l[j] j := by
  rw [forEnum, forEnumFrom_local_at body h]; simp [hj]

theorem forEnum_local_out {α β : Type} (body : Attr α → Nat → β → Attr α) (h : IsLocalE body) (a : Attr α) (l : List β)
    (j : Nat) (hj : l.length ≤ j) : forEnum l a body j = a j := by
  rw [forEnum, forEnumFrom_local_at body h]; simp [hj]

/-- a loop on a pair of containers whose body treats them independently is the pair of the two loops -/
theorem forEnumFrom_pair {α β γ : Type} (b1 : Attr α → Nat → γ → Attr α) (b2 : Attr β → Nat → γ → Attr β) :
    ∀ (l : List γ) (k : Nat) (a : Attr α) (b : Attr β),
      forEnumFrom k l (a, b) (fun s c v => (b1 s.1 c v, b2 s.2 c v)) = (forEnumFrom k l a b1, forEnumFrom k l b b2) := by
  intro l
  induction l with
  | nil => intro k a b; rfl
  | cons x xs ih => intro k a b; simp only [forEnumFrom]; exact ih _ _ _

/-! ### block-local loops: element `i` only touches the entries `b*i .. b*i+b-1` (COO assemblies: `rows[2*e+k] = ..`) -/

/-- an `enumerate` loop body that only rewrites entries of the block of its own index -/
def IsBlockE {α β : Type} (b : Nat) (body : Attr α → Nat → β → Attr α) : Prop :=
  ∀ a i x j, body a i x j = if j / b = i then body (fun _ => a j) i x j else a j

theorem forEnumFrom_block_at {α β : Type} (b : Nat) (body : Attr α → Nat → β → Attr α) (h : IsBlockE b body) :
    ∀ (l : List β) (k : Nat) (a : Attr α) (j : Nat),
      forEnumFrom k l a body j =
        if k ≤ j / b then (match l[j / b - k]? with | some x => body (fun _ => a j) (j / b) x j | none => a j) else a j := by
  intro l
  induction l with
  | nil => intro k a j; simp [forEnumFrom]
  | cons x xs ih =>
    intro k a j
    rw [forEnumFrom, ih]
    by_cases hjk : j / b = k
    · have h1 : ¬ k + 1 ≤ j / b := by omega
      have h2 : k ≤ j / b := by omega
      simp only [h1, h2, if_false, if_true]
      rw [h a k x j]
      simp [hjk]
    · have hb : body a k x j = a j := by rw [h a k x j]; simp [hjk]
      by_cases h1 : k + 1 ≤ j / b
      · have h2 : k ≤ j / b := by omega
        have h3 : j / b - k = (j / b - (k + 1)) + 1 := by omega
        simp only [h1, h2, if_true]
        rw [h3, List.getElem?_cons_succ, hb]
      · have h2 : ¬ k ≤ j / b := by omega
        simp [h1, h2, hb]

/-- the value at `j` of a block-local `enumerate` loop: one run of the body of element `j / b` -/
theorem forEnum_block_get {α β : Type} (b : Nat) (body : Attr α → Nat → β → Attr α) (h : IsBlockE b body) (a : Attr α) (l : List β)
    (j : Nat) (hj : j / b < l.length) : forEnum l a body j = body (fun _ => a j) (j / b) l[j / b] j := by
  rw [forEnum, forEnumFrom_block_at b body h]; simp [hj]

/-- same for a `range` loop -/
def IsBlock {α : Type} (b : Nat) (body : Attr α → Nat → Attr α) : Prop :=
  ∀ a i j, body a i j = if j / b = i then body (fun _ => a j) i j else a j

theorem forRange_block_at {α : Type} (b : Nat) (body : Attr α → Nat → Attr α) (h : IsBlock b body) (a : Attr α) :
    ∀ (n j : Nat), forRange n a body j = if j / b < n then body (fun _ => a j) (j / b) j else a j := by
  intro n
  induction n with
  | zero => intro j; simp [forRange_zero]
  | succ n ih =>
    intro j
    rw [forRange_succ, h]
    by_cases hj : j / b = n
    · have : j / b < n + 1 := by omega
      have h' : ¬ j / b < n := by omega
      simp only [hj, if_true, ih, h', if_false, this]
      simp [hj]
    · simp only [hj, if_false, ih]
      by_cases h1 : j / b < n
      · have : j / b < n + 1 := by omega
        simp [h1, this]
      · have : ¬ j / b < n + 1 := by omega
        simp [h1, this]

/-- entry `j` of a concatenation of blocks of three -/
theorem flatMap3_get {α β : Type} (g : β → List α) (hg : ∀ x, (g x).length = 3) : ∀ (l : List β) (j : Nat),
    (l.flatMap g)[j]? = (l[j / 3]?).bind (fun x => (g x)[j % 3]?) := by
  intro l
  induction l with
  | nil => intro j; simp
  | cons x xs ih =>
    intro j
    rw [List.flatMap_cons]
    by_cases hj : j < 3
    · have h0 : j / 3 = 0 := by omega
      have h1 : j % 3 = j := by omega
      rw [List.getElem?_append_left (by rw [hg]; exact hj), h0, h1]; simp
    · have h3 : (g x).length ≤ j := by rw [hg]; omega
      have h0 : j / 3 = (j - 3) / 3 + 1 := by omega
      have h1 : j % 3 = (j - 3) % 3 := by omega
      rw [List.getElem?_append_right h3, hg, ih, h0, h1, List.getElem?_cons_succ]

/-! ### loops that write at a running counter (`a[c] = g(i); c += 1`) -/

/-- `for i in range(n): a[c] = g(i); c += 1` fills the block `c .. c+n-1` -/
theorem forRange_counter {α : Type} (g : Nat → α) (n : Nat) (a : Attr α) (c : Nat) :
    forRange n (a, c) (fun s i => (wr s.1 s.2 (g i), s.2 + 1))
      = ((fun j => if c ≤ j ∧ j < c + n then g (j - c) else a j), c + n) := by
  induction n with
  | zero =>
    simp only [forRange_zero, Nat.add_zero, Prod.mk.injEq, and_true]
    funext j
    have : ¬ (c ≤ j ∧ j < c) := by omega
    simp [this]
  | succ n ih =>
    rw [forRange_succ, ih]
    simp only [Prod.mk.injEq]
    refine ⟨?_, by omega⟩
    funext j
    simp only [wr]
    by_cases h1 : j = c + n
    · subst h1; simp
    · by_cases h2 : c ≤ j ∧ j < c + n
      · have : c ≤ j ∧ j < c + (n + 1) := ⟨h2.1, by omega⟩
        simp [h1, h2, this]
      · have : ¬ (c ≤ j ∧ j < c + (n + 1)) := by omega
        simp [h1, h2, this]

/-- the outer loop over the elements: the blocks are laid out one after the other -/
theorem forEach_counter {α β : Type} (G : β → Nat → α) (len : β → Nat) : ∀ (fs : List β) (a : Attr α) (c : Nat),
    forEach fs (a, c) (fun s f => forRange (len f) (s.1, s.2) (fun s i => (wr s.1 s.2 (G f i), s.2 + 1)))
      = ((fun j => if c ≤ j then ((fs.flatMap (fun f => (List.range (len f)).map (G f)))[j - c]?).getD (a j) else a j),
         c + (fs.flatMap (fun f => (List.range (len f)).map (G f))).length) := by
  intro fs
  induction fs with
  | nil => intro a c; simp [forEach]
  | cons f fs ih =>
    intro a c
    simp only [forEach, List.foldl_cons] at ih ⊢
    rw [forRange_counter, ih]
    simp only [Prod.mk.injEq, List.flatMap_cons, List.length_append, List.length_map, List.length_range]
    refine ⟨?_, by omega⟩
    funext j
    by_cases h1 : c ≤ j
    · by_cases h2 : j < c + len f
      · have h3 : ¬ c + len f ≤ j := by omega
        have h4 : j - c < ((List.range (len f)).map (G f)).length := by simp; omega
        simp only [h3, if_false, h1, h2, and_self, if_true]
        rw [List.getElem?_append_left h4]
        simp [h4]
        have : j - c < len f := by omega
        simp [this]
      · have h3 : c + len f ≤ j := by omega
        have h4 : ((List.range (len f)).map (G f)).length ≤ j - c := by simp; omega
        simp only [h3, if_true, h1, h2, and_false, if_false]
        rw [List.getElem?_append_right h4]
        simp only [List.length_map, List.length_range]
        have : j - (c + len f) = j - c - len f := by omega
        rw [this]
    · have h3 : ¬ c + len f ≤ j := by omega
      simp [h1, h3]

/-- an inner loop that keeps updating ONE entry is one update of that entry by the folded function -/
theorem forRange_upd_same {α : Type} (n : Nat) (a : Attr α) (t : Nat) (f : Nat → α → α) :
    forRange n a (fun a i => upd a t (f i)) = upd a t (fun v => forRange n v (fun v i => f i v)) := by
  induction n with
  | zero => funext j; simp [forRange_zero, upd]
  | succ n ih =>
    rw [forRange_succ, ih]
    funext j
    by_cases hj : j = t
    · subst hj; simp [upd, forRange_succ]
    · simp [upd, hj]

theorem forEach_upd_same {α β : Type} (l : List β) (a : Attr α) (t : Nat) (f : β → α → α) :
    forEach l a (fun a x => upd a t (f x)) = upd a t (fun v => forEach l v (fun v x => f x v)) := by
  induction l generalizing a with
  | nil => funext j; simp [forEach, upd]
  | cons x xs ih =>
    simp only [forEach, List.foldl_cons] at ih ⊢
    rw [ih]
    funext j
    by_cases hj : j = t
    · subst hj; simp [upd]
    · simp [upd, hj]

theorem mapIdx_ignore {α β : Type} (l : List α) (g : α → β) : l.mapIdx (fun _ x => g x) = l.map g := by
  apply List.ext_getElem <;> simp

/-- proves `IsLocal` / `IsLocalE` for a body made of `wr` / `upd` at the loop index -/
macro "local_body" : tactic =>
  `(tactic| (intros; funext k; simp only [wr, upd]; split_ifs <;> simp_all))

/-! ### formal roots -/

theorem radicands_add (a b : SSum) : SSum.radicands (SSum.add a b) = SSum.radicands a ++ SSum.radicands b := by
  simp [SSum.radicands, SSum.add]

theorem radicands_scale (k : Rat) (s : SSum) :
    SSum.radicands (SSum.scale k s) = (SSum.radicands s).map (fun r => k * k * r) := by
  simp only [SSum.radicands, SSum.scale, List.map_map]
  apply List.map_congr_left
  intro p _
  simp only [Function.comp]
  ring

theorem radicands_root (r : Rat) : SSum.radicands (SSum.root r) = [r] := by
  simp [SSum.radicands, SSum.root]

theorem coefs_add (a b : SSum) : SSum.coefsNonneg (SSum.add a b) = (SSum.coefsNonneg a && SSum.coefsNonneg b) := by
  simp [SSum.coefsNonneg, SSum.add]

theorem coefs_root (r : Rat) : SSum.coefsNonneg (SSum.root r) = true := by
  simp [SSum.coefsNonneg, SSum.root]

theorem coefs_scale (k : Rat) (hk : 0 ≤ k) (s : SSum) (h : SSum.coefsNonneg s = true) :
    SSum.coefsNonneg (SSum.scale k s) = true := by
  simp only [SSum.coefsNonneg, SSum.scale, List.all_map, List.all_eq_true, Function.comp, decide_eq_true_eq] at h ⊢
  intro p hp
  exact mul_nonneg hk (h p hp)

end Mouette.GeomSrc
