import Mouette.Generated.C11Src
import Mouette.Lemmas.KDTreeFlat
/-
Bridge lemmas: the definitions extracted from the bodies of `mouette/spatial/kdtree.py` (`Generated/C11Src.lean`)
compute what the flat model (`Model/KDTreeFlat.lean`) computes.
-/
namespace Mouette.KDSrc
open Mouette.KD Mouette.KDS Mouette.AABB Mouette.AABB.EQ
open Mouette.Generated

variable {P : Nat → Pt} {n dim leafSize : Nat} {piv : Nat → List Rat → Rat}

/-! ### construction -/

theorem splitPoints_eq (P : Nat → Pt) (fp : List Rat → Rat) (idx : List Nat) (axis : Nat) :
    C11S.splitPoints P fp idx axis = splitIdx P axis (fp (takeAx P idx axis)) idx := by
  unfold C11S.splitPoints splitIdx
  dsimp only
  -- by cases on the two tests, so that a commuted / re-associated guard in the source is still accepted
  generalize maskAll (leMask (takeAx P idx axis) (fp (takeAx P idx axis))) = a
  generalize maskAny (leMask (takeAx P idx axis) (fp (takeAx P idx axis))) = b
  cases a <;> cases b <;> rfl

theorem newLeaf_eq (s : BSt) (a : Nat) (p : Option Nat) (x : List Nat) (g : Nat) :
    C11S.newLeaf s a p x g = ({ s with nid := s.nid + 1 }, (⟨s.nid, a, p, g, x, noBox⟩ : Pending)) := rfl

theorem initBody_leaf {it : Pending} {rest : List Pending} {s : BSt} (h : it.idx.length ≤ leafSize) :
    C11S.initLoop1Body P n dim piv leafSize (it :: rest, s) = some (rest, ⟨s.nodes ++ [it.toLeaf], s.nid⟩) := by
  simp only [C11S.initLoop1Body, C11S.leafSize, h, decide_true, if_true]

theorem initBody_split {it : Pending} {rest : List Pending} {s : BSt} (h : ¬ it.idx.length ≤ leafSize) :
    C11S.initLoop1Body P n dim piv leafSize (it :: rest, s) =
      some (rest ++ [it.less P dim piv s.nid, it.more P dim piv s.nid], ⟨s.nodes ++ [it.toNode P piv s.nid], s.nid + 2⟩) := by
  simp only [C11S.initLoop1Body, C11S.leafSize, h, decide_false, Bool.false_eq_true, if_false, splitPoints_eq, newLeaf_eq,
    List.append_assoc, List.cons_append, List.nil_append]
  rfl

/-- **the construction loop of the source is the flat model's**: same node list for every amount of fuel (`none` =
the fuel ran out) -/
theorem initLoop_eq : ∀ (fuel : Nat) (queue : List Pending) (s : BSt),
    (C11S.initLoop1 P n dim piv leafSize fuel (queue, s)).map (fun c => c.2.nodes) =
      buildBFS P dim leafSize piv fuel queue s.nid s.nodes
  | 0, [], s => by simp [C11S.initLoop1, C11S.initLoop1Cond, buildBFS]
  | 0, _ :: _, s => by simp [C11S.initLoop1, C11S.initLoop1Cond, buildBFS]
  | fuel + 1, [], s => by simp [C11S.initLoop1, C11S.initLoop1Cond, buildBFS]
  | fuel + 1, it :: rest, s => by
    have hc : C11S.initLoop1Cond P n dim piv leafSize (it :: rest, s) = true := by simp [C11S.initLoop1Cond]
    rw [C11S.initLoop1, if_pos hc, buildBFS]
    by_cases h : it.idx.length ≤ leafSize
    · rw [initBody_leaf h, if_pos h]
      exact initLoop_eq fuel rest _
    · rw [initBody_split h, if_neg h]
      exact initLoop_eq fuel _ _

/-- the queue is empty when the loop of the source returns -/
theorem initLoop_queue : ∀ (fuel : Nat) (queue : List Pending) (s : BSt) (c : List Pending × BSt),
    C11S.initLoop1 P n dim piv leafSize fuel (queue, s) = some c → c.1 = []
  | 0, queue, s, c, h => by
    cases queue with
    | nil => simp [C11S.initLoop1, C11S.initLoop1Cond] at h; rw [← h]
    | cons a as => simp [C11S.initLoop1, C11S.initLoop1Cond] at h
  | fuel + 1, [], s, c, h => by simp [C11S.initLoop1, C11S.initLoop1Cond] at h; rw [← h]
  | fuel + 1, it :: rest, s, c, h => by
    have hc : C11S.initLoop1Cond P n dim piv leafSize (it :: rest, s) = true := by simp [C11S.initLoop1Cond]
    rw [C11S.initLoop1, if_pos hc] at h
    by_cases hl : it.idx.length ≤ leafSize
    · rw [initBody_leaf hl] at h
      exact initLoop_queue fuel _ _ c h
    · rw [initBody_split hl] at h
      exact initLoop_queue fuel _ _ c h

theorem init_eq (P : Nat → Pt) (n dim leafSize : Nat) (piv : Nat → List Rat → Rat) (fuel : Nat) :
    (C11S.init P n dim piv leafSize fuel).map (fun s => s.nodes) =
      buildBFS P dim leafSize piv fuel [rootPending n dim] 1 [] := by
  have := initLoop_eq (P := P) (n := n) (dim := dim) (leafSize := leafSize) (piv := piv) fuel [rootPending n dim] ⟨[], 1⟩
  rw [← this]
  unfold C11S.init
  simp only [newLeaf_eq, List.nil_append]
  cases h : C11S.initLoop1 P n dim piv leafSize fuel ([rootPending n dim], ⟨[], 1⟩) with
  | none =>
    have : C11S.initLoop1 P n dim piv leafSize fuel
        ([({ ( (⟨0, 0, none, 1, List.range n, noBox⟩ : Pending)) with box := Box.infinite dim } : Pending)], ⟨[], 0 + 1⟩) = none := h
    rw [this]; rfl
  | some c =>
    have : C11S.initLoop1 P n dim piv leafSize fuel
        ([({ ( (⟨0, 0, none, 1, List.range n, noBox⟩ : Pending)) with box := Box.infinite dim } : Pending)], ⟨[], 0 + 1⟩) = some c := h
    rw [this]; rfl

/-- children ids are ordered in every node the construction appends (`left = nid`, `right = nid + 1`) -/
def Ordered (nodes : List FNode) : Prop := ∀ nd ∈ nodes, nd.left ≤ nd.right

theorem buildBFS_ordered : ∀ (fuel : Nat) (queue : List Pending) (nid : Nat) (nodes out : List FNode),
    Ordered nodes → buildBFS P dim leafSize piv fuel queue nid nodes = some out → Ordered out
  | _, [], _, nodes, out, ho, h => by
    have : nodes = out := by cases ‹Nat› <;> simpa [buildBFS] using h
    exact this ▸ ho
  | 0, _ :: _, _, _, _, _, h => by simp [buildBFS] at h
  | fuel + 1, it :: rest, nid, nodes, out, ho, h => by
    rw [buildBFS] at h
    split at h
    · refine buildBFS_ordered fuel _ _ _ out ?_ h
      intro nd hnd
      rcases List.mem_append.mp hnd with hnd | hnd
      · exact ho nd hnd
      · simp only [List.mem_singleton] at hnd; subst hnd; simp [Pending.toLeaf, FNode.left, FNode.right]
    · refine buildBFS_ordered fuel _ _ _ out ?_ h
      intro nd hnd
      rcases List.mem_append.mp hnd with hnd | hnd
      · exact ho nd hnd
      · simp only [List.mem_singleton] at hnd; subst hnd; simp [Pending.toNode, FNode.left, FNode.right]

/-! ### k nearest neighbours -/

theorem isLeaf_eq (nodes : List FNode) (id : Nat) : C11S.isLeaf nodes id = (nodes[id]?).map FNode.isLeaf := by
  unfold C11S.isLeaf
  cases nodes[id]? <;> rfl

/-- **the trimming loop** `while n_found > k: found.pop(); n_found -= 1` keeps the `k` nearest candidates and exits by
its own condition within `n_found` iterations -/
theorem trimLoop_eq (nodes : List FNode) (k : Nat) : ∀ (fuel nf : Nat) (st : List Cand), st.length = nf → nf - k ≤ fuel →
    C11S.queryLoop2 P nodes k fuel (nf, st) = (min nf k, st.take k)
  | 0, nf, st, hl, hf => by
    have hk : nf ≤ k := by omega
    simp only [C11S.queryLoop2]
    rw [Nat.min_eq_left hk, List.take_of_length_le (by omega)]
  | fuel + 1, nf, st, hl, hf => by
    rw [C11S.queryLoop2]
    by_cases hk : k < nf
    · have hc : C11S.queryLoop2Cond P nodes k (nf, st) = true := by simp [C11S.queryLoop2Cond, hk]
      rw [if_pos hc]
      have hb : C11S.queryLoop2Body P nodes k (nf, st) = (nf - 1, st.dropLast) := rfl
      rw [hb, trimLoop_eq nodes k fuel (nf - 1) st.dropLast (by simp [hl]) (by omega)]
      rw [List.dropLast_eq_take, List.take_take, hl]
      congr 1
      · omega
      · congr 1; omega
    · have hc : ¬ C11S.queryLoop2Cond P nodes k (nf, st) = true := by simp [C11S.queryLoop2Cond, hk]
      rw [if_neg hc, Nat.min_eq_left (by omega), List.take_of_length_le (by omega)]

theorem trimLoop_exits (nodes : List FNode) (k nf : Nat) (st : List Cand) (hl : st.length = nf) :
    C11S.queryLoop2Cond P nodes k (C11S.queryLoop2 P nodes k nf (nf, st)) = false := by
  rw [trimLoop_eq nodes k nf nf st hl (by omega)]
  simp only [C11S.queryLoop2Cond, decide_eq_false_iff_not, Nat.not_lt]
  exact Nat.min_le_right _ _

/-- the `for idx in leaf.points` loop of `query` is `visitLeaf` (with `n_found` = number of candidates held) -/
theorem leafFold_eq (nodes : List FNode) (q : Pt) (k : Nat) : ∀ (idx : List Nat) (st : List Cand),
    idx.foldl (fun (c : Nat × List Cand) (i : Nat) =>
        C11S.queryLoop2 P nodes k (c.1 + 1) (c.1 + 1, pqPush c.2 (sqDist (P i) q) i)) (st.length, st) =
      ((visitLeaf P q k idx st).length, visitLeaf P q k idx st)
  | [], st => rfl
  | i :: is, st => by
    rw [List.foldl_cons]
    dsimp only
    rw [trimLoop_eq nodes k (st.length + 1) (st.length + 1) _ (by simp [pqPush, length_ins]) (by omega)]
    have hl : ((pqPush st (sqDist (P i) q) i).take k).length = min (st.length + 1) k := by
      rw [List.length_take, pqPush, length_ins, Nat.min_comm]
    rw [← hl]
    have := leafFold_eq nodes q k is ((pqPush st (sqDist (P i) q) i).take k)
    rw [this]
    simp only [visitLeaf, List.foldl_cons, push, pqPush]

theorem visitLeaf_length_le (q : Pt) (k : Nat) : ∀ (idx : List Nat) (st : List Cand), st.length ≤ k →
    (visitLeaf P q k idx st).length ≤ k
  | [], st, h => h
  | i :: is, st, _ => by
    simp only [visitLeaf, List.foldl_cons]
    exact visitLeaf_length_le q k is _ (length_push_le k _ _)

theorem furthest_eq_src (k : Nat) (st : List Cand) (h : st.length ≤ k) :
    (if (decide (k ≤ st.length) && !(pqEmpty st)) = true then fin (pqFrontDist st) else pinf) = furthest k st := by
  unfold furthest pqEmpty pqFrontDist
  by_cases hl : st.length = k
  · rw [if_pos hl]
    cases st with
    | nil => simp
    | cons a as =>
      have : k ≤ (a :: as).length := by omega
      simp only [this, decide_true, List.isEmpty_cons, Bool.not_false, Bool.and_self, if_true]
      cases hg : (a :: as).getLast? with
      | none => simp at hg
      | some w => rfl
  · rw [if_neg hl]
    have : ¬ k ≤ st.length := by omega
    simp [this]

theorem lt_iff_not_le' (a b : EQ) : a < b ↔ ¬ b ≤ a := by
  show leB b a = false ↔ ¬ leB b a = true
  cases leB b a <;> simp

/-- the `for dist, child in sorted([..])` loop of `query` pushes the children as `pushOrder` says (needs `l ≤ r`
for the tie-break of Python's tuple order) -/
theorem pushFold_eq (fz dl dr : EQ) (l r : Nat) (hlr : l ≤ r) (stack : List Nat) :
    (sorted2 (dl, l) (dr, r)).foldl (fun (c : List Nat) (e : EQ × Nat) => if decide (e.1 < fz) = true then e.2 :: c else c) stack =
      (pushOrder fz dl dr l r).reverse ++ stack := by
  have e1 : ∀ (x : EQ), (x < fz) = (fz.leB x = false) := fun _ => rfl
  unfold sorted2 pushOrder
  by_cases h : dl ≤ dr
  · have h1 : ¬ (dr < dl) := by rw [lt_iff_not_le']; exact fun hh => hh h
    have h2 : ¬ ((decide (dr = dl) && decide (r < l)) = true) := by
      simp only [Bool.and_eq_true, decide_eq_true_eq, not_and]; intro _; omega
    have hc : ¬ ((decide (dr < dl) || (decide (dr = dl) && decide (r < l))) = true) := by
      simp only [Bool.or_eq_true, decide_eq_true_eq, not_or]; exact ⟨h1, h2⟩
    simp only at hc ⊢
    rw [if_neg hc, if_pos h]
    simp only [e1]
    by_cases ha : fz.leB dl = false <;> by_cases hb : fz.leB dr = false <;> simp [ha, hb]
  · have h1 : dr < dl := (lt_iff_not_le' _ _).mpr h
    have hc : ((decide (dr < dl) || (decide (dr = dl) && decide (r < l))) = true) := by simp [h1]
    simp only at hc ⊢
    rw [if_pos hc, if_neg h]
    simp only [e1]
    by_cases ha : fz.leB dl = false <;> by_cases hb : fz.leB dr = false <;> simp [ha, hb]

/-- **the traversal loop of `query` is the flat model's**, with `n_found` = number of candidates held -/
theorem queryLoop_eq {nodes : List FNode} (ho : Ordered nodes) (q : Pt) (k : Nat) : ∀ (fuel : Nat) (stack : List Nat) (st : List Cand),
    st.length ≤ k →
    C11S.queryLoop1 P nodes k q fuel (st.length, stack, st) =
      (queryFlat P q k nodes fuel stack st).map (fun res => (res.length, [], res))
  | 0, [], st, _ => by simp [C11S.queryLoop1, C11S.queryLoop1Cond, queryFlat]
  | 0, _ :: _, st, _ => by simp [C11S.queryLoop1, C11S.queryLoop1Cond, queryFlat]
  | fuel + 1, [], st, _ => by simp [C11S.queryLoop1, C11S.queryLoop1Cond, queryFlat]
  | fuel + 1, id :: stack, st, hst => by
    have hc : C11S.queryLoop1Cond P nodes k q (st.length, id :: stack, st) = true := by simp [C11S.queryLoop1Cond]
    rw [C11S.queryLoop1, if_pos hc, queryFlat]
    unfold C11S.queryLoop1Body
    simp only [isLeaf_eq]
    cases hnd : nodes[id]? with
    | none => rfl
    | some nd =>
      cases nd with
      | leaf i a p idx b =>
        simp only [Option.map_some, FNode.isLeaf, if_true, FNode.points]
        have := leafFold_eq (P := P) nodes q k idx st
        rw [this]
        exact queryLoop_eq ho q k fuel stack _ (visitLeaf_length_le q k idx st hst)
      | node i a p sv l r b =>
        simp only [Option.map_some, FNode.isLeaf, Bool.false_eq_true, if_false, FNode.left, FNode.right]
        cases hl : nodes[l]? with
        | none => cases nodes[r]? <;> rfl
        | some nl =>
          cases hr : nodes[r]? with
          | none => rfl
          | some nr =>
            simp only []
            have hlr : l ≤ r := by
              have := ho _ (List.mem_of_getElem? hnd)
              simpa [FNode.left, FNode.right] using this
            rw [furthest_eq_src k st hst, pushFold_eq _ _ _ l r hlr stack]
            exact queryLoop_eq ho q k fuel _ st hst

/-- `[found.pop().x for _ in range(n)][::-1]` with `n` = number of candidates held: the indices in list order -/
theorem drain_aux : ∀ (l : List Nat) (st : List Cand) (acc : List Nat), l.length ≤ st.length →
    (l.foldl (fun (a : List Nat × List Cand) _ => (a.1 ++ [pqPopX a.2], pqPop a.2)) (acc, st)).1 =
      acc ++ (st.reverse.take l.length).map Prod.snd
  | [], st, acc, _ => by simp
  | _ :: l, st, acc, h => by
    rw [List.foldl_cons]
    rcases List.eq_nil_or_concat' st with hnil | ⟨ys, w, rfl⟩
    · subst hnil; simp at h
    · have h1 : pqPopX (ys ++ [w]) = w.2 := by simp [pqPopX]
      have h2 : pqPop (ys ++ [w]) = ys := by simp [pqPop]
      simp only [h1, h2]
      rw [drain_aux l ys _ (by simpa using h)]
      simp [List.reverse_append, List.take_succ_cons]

theorem drain_eq (st : List Cand) : pqDrainRev st st.length = st.map Prod.snd := by
  unfold pqDrainRev
  rw [drain_aux (List.range st.length) st [] (by simp)]
  simp [List.take_of_length_le, ← List.map_reverse]

/-- **`query` of the source is `knnFlat`**: same answer (indices in increasing distance order), same fuel -/
theorem query_eq {nodes : List FNode} (ho : Ordered nodes) (q : Pt) (k fuel : Nat) :
    C11S.query P nodes q k fuel = (knnFlat P q k nodes fuel).map (fun res => res.map Prod.snd) := by
  unfold C11S.query knnFlat
  have := queryLoop_eq (P := P) ho q k fuel [0] [] (Nat.zero_le _)
  simp only [List.length_nil] at this
  simp only []
  rw [this]
  cases queryFlat P q k nodes fuel [0] [] with
  | none => rfl
  | some res => simp [drain_eq]

/-! ### radius query -/

theorem radiusLoop_eq {nodes : List FNode} (q : Pt) (r2 : Rat) : ∀ (fuel : Nat) (queue acc : List Nat),
    C11S.queryRadiusLoop1 P nodes q r2 fuel (acc, queue) =
      (radiusFlat P q r2 nodes fuel queue acc).map (fun res => (res, []))
  | 0, [], acc => by simp [C11S.queryRadiusLoop1, C11S.queryRadiusLoop1Cond, radiusFlat]
  | 0, _ :: _, acc => by simp [C11S.queryRadiusLoop1, C11S.queryRadiusLoop1Cond, radiusFlat]
  | fuel + 1, [], acc => by simp [C11S.queryRadiusLoop1, C11S.queryRadiusLoop1Cond, radiusFlat]
  | fuel + 1, id :: queue, acc => by
    have hc : C11S.queryRadiusLoop1Cond P nodes q r2 (acc, id :: queue) = true := by simp [C11S.queryRadiusLoop1Cond]
    rw [C11S.queryRadiusLoop1, if_pos hc, radiusFlat]
    unfold C11S.queryRadiusLoop1Body
    simp only [isLeaf_eq]
    cases hnd : nodes[id]? with
    | none => rfl
    | some nd =>
      simp only []
      by_cases hp : fin r2 < nd.box.dist2 q
      · simp only [hp, decide_true, if_true]
        exact radiusLoop_eq q r2 fuel queue acc
      · simp only [hp, decide_false, Bool.false_eq_true, if_false]
        cases nd with
        | leaf i a p idx b =>
          simp only [Option.map_some, FNode.isLeaf, if_true, FNode.points]
          exact radiusLoop_eq q r2 fuel queue _
        | node i a p sv l r b =>
          simp only [Option.map_some, FNode.isLeaf, Bool.false_eq_true, if_false, FNode.left, FNode.right,
            List.append_assoc, List.cons_append, List.nil_append]
          exact radiusLoop_eq q r2 fuel _ acc

/-- **`query_radius` of the source is `radiusFlat`** -/
theorem queryRadius_eq {nodes : List FNode} (q : Pt) (r2 : Rat) (fuel : Nat) :
    C11S.queryRadius P nodes q r2 fuel = radiusFlat P q r2 nodes fuel [0] [] := by
  unfold C11S.queryRadius
  have := radiusLoop_eq (P := P) (nodes := nodes) q r2 fuel [0] []
  simp only [List.nil_append]
  rw [this]
  cases radiusFlat P q r2 nodes fuel [0] [] <;> rfl

end Mouette.KDSrc
