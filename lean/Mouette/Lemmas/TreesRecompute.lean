import Mouette.Model.Trees
/-
`compute()` as a transformer of the tables of an already used tree object: what it leaves depends on which tables
it re-initialises first (`resets`, read from the source by the translator): `parent[nv] = v` overwrites single
entries, `children[p].append(v)` and `edges.append(..)` append.
-/
namespace Mouette.Trees

structure Tables where
  parent : Nat → Option Nat
  children : Nat → List Nat
  edges : List (Nat × Nat)

def Tables.fresh : Tables := { parent := fun _ => none, children := fun _ => [], edges := [] }

/-- tables after one `compute()` that starts from the tables `prev` and produces the tree `t` -/
def computeOn (resets : List String) (prev : Tables) (t : Tree) : Tables :=
  { parent := fun v => match t.parent v with
      | some p => some p
      | none => if resets.contains "parent" then none else prev.parent v,
    children := fun p => (if resets.contains "children" then [] else prev.children p) ++ t.children p,
    edges := (if resets.contains "edges" then [] else prev.edges) ++ t.edges }

/-- `k` further calls of `compute()` on the same object -/
def computeTimes (resets : List String) (t : Tree) : Nat → Tables → Tables
  | 0, T => T
  | k+1, T => computeOn resets (computeTimes resets t k T) t

theorem computeOn_eq_fresh {resets : List String} (h1 : resets.contains "parent" = true)
    (h2 : resets.contains "children" = true) (h3 : resets.contains "edges" = true) (prev : Tables) (t : Tree) :
    computeOn resets prev t = computeOn resets Tables.fresh t := by
  unfold computeOn
  simp only [h1, h2, h3, if_true]

theorem computeTimes_eq_fresh {resets : List String} (h1 : resets.contains "parent" = true)
    (h2 : resets.contains "children" = true) (h3 : resets.contains "edges" = true) (t : Tree) (k : Nat) (prev : Tables) :
    computeTimes resets t (k + 1) prev = computeOn resets Tables.fresh t := by
  unfold computeTimes
  exact computeOn_eq_fresh h1 h2 h3 _ t

/-- forests: `self.trees` / `self.roots` are appended to -/
def forestOn (resets : List String) (name : String) (prev new : List Nat) : List Nat :=
  (if resets.contains name then [] else prev) ++ new

end Mouette.Trees
