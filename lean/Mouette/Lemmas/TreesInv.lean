import Mouette.Lemmas.DijkstraBasic
import Mouette.Model.Trees
/-
Invariant of the breadth-first tree loop (`Trees.bstep`) and its consequences at the final state.
-/
namespace Mouette.Trees
open Mouette.Dijkstra (upd upd_same upd_ne nodup_length_le)

theorem mem_nbrs {g : Cfg} {u x : Nat} : x ∈ nbrs g u ↔ ∃ k, (x, k) ∈ g.adj u ∧ g.excl k = false := by
  unfold nbrs
  simp only [List.mem_map, List.mem_filter]
  constructor
  · rintro ⟨e, ⟨he, hx⟩, rfl⟩
    exact ⟨e.2, he, by simpa using hx⟩
  · rintro ⟨k, hk, hx⟩
    exact ⟨(x, k), ⟨hk, by simpa using hx⟩, rfl⟩

/-- admissible neighbours are element ids `< n` -/
def WF (g : Cfg) (n : Nat) : Prop := ∀ u, ∀ x ∈ nbrs g u, x < n

/-- `Hops g a t k`: `t` is joined to `a` by `k` admissible adjacencies -/
inductive Hops (g : Cfg) : Nat → Nat → Nat → Prop
  | zero (a : Nat) : Hops g a a 0
  | step {a b t k : Nat} : b ∈ nbrs g a → Hops g b t k → Hops g a t (k + 1)

theorem Hops.snoc {g : Cfg} {a t k : Nat} (h : Hops g a t k) {x : Nat} (hx : x ∈ nbrs g t) : Hops g a x (k + 1) := by
  induction h with
  | zero a => exact Hops.step hx (Hops.zero x)
  | step hab _ ih => exact Hops.step hab (ih hx)

/-- depth in the tree: `TreeDepth parent root x d` iff following `parent` from `x` reaches `root` in `d` steps -/
inductive TreeDepth (parent : Nat → Option Nat) (root : Nat) : Nat → Nat → Prop
  | root : TreeDepth parent root root 0
  | child {x p d : Nat} : parent x = some p → TreeDepth parent root p d → TreeDepth parent root x (d + 1)

def dget (s : BState) (u : Nat) : Nat := (s.dist u).getD 0

structure BInv (g : Cfg) (root n : Nat) (s : BState) : Prop where
  root_lt : root < n
  seen_root : s.seen root = true
  dist_root : s.dist root = some 0
  parent_root : s.parent root = none
  seen_lt : ∀ u, s.seen u = true → u < n
  seen_dist : ∀ u, s.seen u = false → s.dist u = none
  par_ok : ∀ u p, s.parent u = some p → s.seen u = true ∧ s.seen p = true ∧ u ∈ nbrs g p ∧
      ∃ dp, s.dist p = some dp ∧ s.dist u = some (dp + 1)
  par_some : ∀ u, s.seen u = true → u ≠ root → ∃ p, s.parent u = some p
  dist_some : ∀ u, s.seen u = true → ∃ d, s.dist u = some d
  q_src : ∀ e ∈ s.queue, s.seen e.1 = true ∧ e.2 ∈ nbrs g e.1
  q_sorted : s.queue.Pairwise (fun e1 e2 => dget s e1.1 ≤ dget s e2.1)
  q_bound : ∀ u, s.seen u = true → ∀ e ∈ s.queue, dget s u ≤ dget s e.1 + 1
  edges : ∀ u, s.seen u = true → ∀ x ∈ nbrs g u, (s.seen x = true ∧ dget s x ≤ dget s u + 1) ∨ (u, x) ∈ s.queue

theorem binv_init (g : Cfg) {root n : Nat} (h : root < n) : BInv g root n (binit g root) := by
  have hq : (binit g root).queue = (nbrs g root).map (fun x => (root, x)) := by
    simp [binit, put]
  refine { root_lt := h, seen_root := by simp [binit], dist_root := by simp [binit], parent_root := rfl,
           seen_lt := ?_, seen_dist := ?_, par_ok := by simp [binit], par_some := ?_, dist_some := ?_,
           q_src := ?_, q_sorted := ?_, q_bound := ?_, edges := ?_ }
  · intro u hu
    by_cases hur : u = root
    · subst hur; exact h
    · simp [binit, upd_ne _ _ hur] at hu
  · intro u hu
    by_cases hur : u = root
    · subst hur; simp [binit] at hu
    · simp [binit, upd_ne _ _ hur]
  · intro u hu hur
    simp [binit, upd_ne _ _ hur] at hu
  · intro u hu
    by_cases hur : u = root
    · subst hur; exact ⟨0, by simp [binit]⟩
    · simp [binit, upd_ne _ _ hur] at hu
  · intro e he
    rw [hq] at he
    simp at he
    obtain ⟨x, hx, rfl⟩ := he
    exact ⟨by simp [binit], hx⟩
  · rw [hq]
    rw [List.pairwise_map]
    exact List.pairwise_of_forall (fun _ _ => le_refl _)
  · intro u hu e he
    rw [hq] at he
    simp at he
    obtain ⟨x, _, rfl⟩ := he
    by_cases hur : u = root
    · subst hur; simp
    · simp [binit, upd_ne _ _ hur] at hu
  · intro u hu x hx
    by_cases hur : u = root
    · subst hur
      right; rw [hq]; simp; exact hx
    · simp [binit, upd_ne _ _ hur] at hu

theorem binv_step {g : Cfg} {root n : Nat} (hwf : WF g n) {s s' : BState} (I : BInv g root n s)
    (hstep : bstep g s = some s') : BInv g root n s' := by
  unfold bstep at hstep
  cases hq : s.queue with
  | nil => rw [hq] at hstep; simp at hstep
  | cons e q' =>
    obtain ⟨v, nv⟩ := e
    rw [hq] at hstep
    simp only at hstep
    have hhead : (v, nv) ∈ s.queue := by rw [hq]; simp
    have htail : ∀ e, e ∈ q' → e ∈ s.queue := by intro e he; rw [hq]; exact List.mem_cons_of_mem _ he
    obtain ⟨hsv, hnvadm⟩ := I.q_src _ hhead
    simp only at hsv hnvadm
    have hsorted := I.q_sorted
    rw [hq, List.pairwise_cons] at hsorted
    by_cases hseen : s.seen nv = true
    · rw [if_pos hseen] at hstep
      simp at hstep; subst hstep
      refine { I with q_src := fun e he => I.q_src e (htail e he), q_sorted := hsorted.2,
                      q_bound := fun u hu e he => I.q_bound u hu e (htail e he), edges := ?_ }
      intro u hu x hx
      rcases I.edges u hu x hx with h | h
      · exact Or.inl h
      · rw [hq] at h
        rcases List.mem_cons.mp h with h | h
        · left
          simp at h
          obtain ⟨rfl, rfl⟩ := h
          exact ⟨hseen, I.q_bound x hseen _ hhead⟩
        · exact Or.inr h
    · have hunseen : s.seen nv = false := by simpa using hseen
      rw [if_neg hseen] at hstep
      obtain ⟨dv, hdv⟩ := I.dist_some v hsv
      have hdnv : s.dist nv = none := I.seen_dist nv hunseen
      have hlt : ltOpt (succOpt (s.dist v)) (s.dist nv) = true := by rw [hdv, hdnv]; rfl
      rw [if_pos hlt] at hstep
      simp only [Option.some.injEq] at hstep
      subst hstep
      have hnv_root : nv ≠ root := by intro h; rw [h, I.seen_root] at hunseen; simp at hunseen
      have hnv_v : nv ≠ v := by intro h; rw [h, hsv] at hunseen; simp at hunseen
      have hne_of_seen : ∀ u, s.seen u = true → u ≠ nv := by
        intro u hu h; rw [h, hunseen] at hu; simp at hu
      have hsucc : succOpt (s.dist v) = some (dv + 1) := by rw [hdv]; rfl
      -- abbreviations for the new state
      set s' : BState := { seen := upd s.seen nv true, parent := upd s.parent nv (some v),
                           dist := upd s.dist nv (succOpt (s.dist v)),
                           queue := put g (upd s.seen nv true) nv q' } with hs'
      have hdget_old : ∀ u, u ≠ nv → dget s' u = dget s u := by
        intro u hu; simp [dget, hs', upd_ne _ _ hu]
      have hdget_nv : dget s' nv = dv + 1 := by simp [dget, hs', hsucc]
      have hdget_v : dget s v = dv := by simp [dget, hdv]
      have hseen' : ∀ u, s'.seen u = true ↔ (u = nv ∨ s.seen u = true) := by
        intro u
        by_cases hu : u = nv
        · subst hu; simp [hs']
        · simp [hs', upd_ne _ _ hu, hu]
      have hqmem : ∀ e, e ∈ s'.queue ↔ (e ∈ q' ∨ (e.1 = nv ∧ e.2 ∈ nbrs g nv ∧ s'.seen e.2 = false)) := by
        intro e
        simp only [hs', put, List.mem_append, List.mem_map, List.mem_filter]
        constructor
        · rintro (h | ⟨x, ⟨hx, hsx⟩, rfl⟩)
          · exact Or.inl h
          · exact Or.inr ⟨rfl, hx, by simpa using hsx⟩
        · rintro (h | ⟨h1, h2, h3⟩)
          · exact Or.inl h
          · exact Or.inr ⟨e.2, ⟨h2, by simpa using h3⟩, by rw [← h1]⟩
      refine { root_lt := I.root_lt, seen_root := (hseen' _).mpr (Or.inr I.seen_root), dist_root := ?_,
               parent_root := ?_, seen_lt := ?_, seen_dist := ?_, par_ok := ?_, par_some := ?_, dist_some := ?_,
               q_src := ?_, q_sorted := ?_, q_bound := ?_, edges := ?_ }
      · simp only [hs']; rw [upd_ne _ _ (Ne.symm hnv_root)]; exact I.dist_root
      · simp only [hs']; rw [upd_ne _ _ (Ne.symm hnv_root)]; exact I.parent_root
      · intro u hu
        rcases (hseen' u).mp hu with h | h
        · subst h; exact hwf v _ hnvadm
        · exact I.seen_lt u h
      · intro u hu
        have hu' : ¬ (s'.seen u = true) := by simp [hu]
        rw [hseen'] at hu'
        have hu1 : u ≠ nv := fun h => hu' (Or.inl h)
        have hu2 : ¬ (s.seen u = true) := fun h => hu' (Or.inr h)
        simp only [hs']
        rw [upd_ne _ _ hu1]
        exact I.seen_dist u (by simpa using hu2)
      · intro u p hp
        simp only [hs'] at hp
        by_cases hu : u = nv
        · subst hu
          simp at hp; subst hp
          refine ⟨(hseen' _).mpr (Or.inl rfl), (hseen' _).mpr (Or.inr hsv), hnvadm, dv, ?_, ?_⟩
          · simp only [hs']; rw [upd_ne _ _ (Ne.symm hnv_v)]; exact hdv
          · simp [hs', hsucc]
        · rw [upd_ne _ _ hu] at hp
          obtain ⟨h1, h2, h3, dp, h4, h5⟩ := I.par_ok u p hp
          refine ⟨(hseen' _).mpr (Or.inr h1), (hseen' _).mpr (Or.inr h2), h3, dp, ?_, ?_⟩
          · simp only [hs']; rw [upd_ne _ _ (hne_of_seen p h2)]; exact h4
          · simp only [hs']; rw [upd_ne _ _ hu]; exact h5
      · intro u hu hur
        simp only [hs']
        by_cases hunv : u = nv
        · subst hunv; exact ⟨v, by simp⟩
        · rw [upd_ne _ _ hunv]
          rcases (hseen' u).mp hu with h | h
          · exact absurd h hunv
          · exact I.par_some u h hur
      · intro u hu
        by_cases hunv : u = nv
        · subst hunv; exact ⟨dv + 1, by simp [hs', hsucc]⟩
        · rcases (hseen' u).mp hu with h | h
          · exact absurd h hunv
          · obtain ⟨d, hd⟩ := I.dist_some u h
            exact ⟨d, by simp only [hs']; rw [upd_ne _ _ hunv]; exact hd⟩
      · intro e he
        rcases (hqmem e).mp he with h | ⟨h1, h2, _⟩
        · obtain ⟨a, b⟩ := I.q_src e (htail e h)
          exact ⟨(hseen' _).mpr (Or.inr a), b⟩
        · exact ⟨(hseen' _).mpr (Or.inl h1), by rw [h1]; exact h2⟩
      · -- sortedness of the new queue
        have hold : q'.Pairwise (fun e1 e2 => dget s' e1.1 ≤ dget s' e2.1) := by
          refine List.Pairwise.imp_of_mem ?_ hsorted.2
          intro a b ha hb hab
          rw [hdget_old _ (hne_of_seen _ (I.q_src a (htail a ha)).1),
              hdget_old _ (hne_of_seen _ (I.q_src b (htail b hb)).1)]
          exact hab
        show (put g (upd s.seen nv true) nv q').Pairwise _
        unfold put
        rw [List.pairwise_append]
        refine ⟨hold, ?_, ?_⟩
        · rw [List.pairwise_map]
          exact List.pairwise_of_forall (fun _ _ => le_refl _)
        · intro a ha b hb
          simp only [List.mem_map] at hb
          obtain ⟨x, _, rfl⟩ := hb
          simp only
          rw [hdget_nv, hdget_old _ (hne_of_seen _ (I.q_src a (htail a ha)).1)]
          have := I.q_bound a.1 (I.q_src a (htail a ha)).1 _ hhead
          simp only at this
          rw [hdget_v] at this
          exact this
      · intro u hu e he
        rcases (hqmem e).mp he with h | ⟨h1, _, _⟩
        · have hsrc := (I.q_src e (htail e h)).1
          rw [hdget_old _ (hne_of_seen _ hsrc)]
          rcases (hseen' u).mp hu with hu' | hu'
          · subst hu'
            rw [hdget_nv]
            have := hsorted.1 e h
            simp only at this
            rw [hdget_v] at this
            omega
          · rw [hdget_old _ (hne_of_seen _ hu')]
            exact I.q_bound u hu' e (htail e h)
        · rw [h1, hdget_nv]
          rcases (hseen' u).mp hu with hu' | hu'
          · subst hu'; rw [hdget_nv]; omega
          · rw [hdget_old _ (hne_of_seen _ hu')]
            have := I.q_bound u hu' _ hhead
            simp only at this
            rw [hdget_v] at this
            omega
      · intro u hu x hx
        rcases (hseen' u).mp hu with hu' | hu'
        · subst hu'
          cases hsx : s'.seen x with
          | true =>
            left
            refine ⟨rfl, ?_⟩
            rw [hdget_nv]
            rcases (hseen' x).mp hsx with h | h
            · subst h; rw [hdget_nv]; omega
            · rw [hdget_old _ (hne_of_seen _ h)]
              have := I.q_bound x h _ hhead
              simp only at this
              rw [hdget_v] at this
              omega
          | false =>
            right
            exact (hqmem _).mpr (Or.inr ⟨rfl, hx, hsx⟩)
        · have hune := hne_of_seen u hu'
          rcases I.edges u hu' x hx with ⟨h1, h2⟩ | h
          · left
            refine ⟨(hseen' _).mpr (Or.inr h1), ?_⟩
            rw [hdget_old _ (hne_of_seen _ h1), hdget_old _ hune]
            exact h2
          · rw [hq] at h
            rcases List.mem_cons.mp h with h | h
            · left
              simp at h
              obtain ⟨rfl, rfl⟩ := h
              refine ⟨(hseen' _).mpr (Or.inl rfl), ?_⟩
              rw [hdget_nv, hdget_old _ hune, hdget_v]
            · exact Or.inr ((hqmem _).mpr (Or.inl h))

theorem binv_iter {g : Cfg} {root n : Nat} (hwf : WF g n) : ∀ (f : Nat) (s : BState), BInv g root n s →
    BInv g root n (biter g f s)
  | 0, _, I => I
  | f+1, s, I => by
    unfold biter
    cases h : bstep g s with
    | none => exact I
    | some s' => exact binv_iter hwf f s' (binv_step hwf I h)

/-! ### termination -/

def unseenDeg (g : Cfg) (vis : Nat → Bool) : Nat → Nat
  | 0 => 0
  | n+1 => unseenDeg g vis n + (if vis n then 0 else (nbrs g n).length)

def bmeasure (g : Cfg) (n : Nat) (s : BState) : Nat := s.queue.length + unseenDeg g s.seen n

theorem unseenDeg_upd_ge (g : Cfg) (vis : Nat → Bool) (v : Nat) : ∀ n, n ≤ v → unseenDeg g (upd vis v true) n = unseenDeg g vis n
  | 0, _ => rfl
  | n+1, h => by
    unfold unseenDeg
    rw [unseenDeg_upd_ge g vis v n (by omega), upd_ne _ _ (by omega : n ≠ v)]

theorem unseenDeg_upd (g : Cfg) (vis : Nat → Bool) (v : Nat) (hv : vis v = false) :
    ∀ n, v < n → unseenDeg g (upd vis v true) n + (nbrs g v).length = unseenDeg g vis n
  | 0, h => by omega
  | n+1, h => by
    unfold unseenDeg
    by_cases hvn : v = n
    · subst hvn
      rw [unseenDeg_upd_ge g vis v v (le_refl _)]
      simp [hv]
    · have := unseenDeg_upd g vis v hv n (by omega)
      rw [upd_ne _ _ (Ne.symm hvn)]
      omega

theorem unseenDeg_none (g : Cfg) : ∀ n, unseenDeg g (fun _ => false) n = degSum g n
  | 0 => rfl
  | n+1 => by unfold unseenDeg degSum; rw [unseenDeg_none g n]; simp

theorem put_length (g : Cfg) (seen : Nat → Bool) (v : Nat) (q : List (Nat × Nat)) :
    (put g seen v q).length ≤ q.length + (nbrs g v).length := by
  unfold put
  simp only [List.length_append, List.length_map]
  have := List.length_filter_le (fun x => !seen x) (nbrs g v)
  omega

theorem bstep_measure {g : Cfg} {root n : Nat} (hwf : WF g n) {s s' : BState} (I : BInv g root n s)
    (hstep : bstep g s = some s') : bmeasure g n s' + 1 ≤ bmeasure g n s := by
  unfold bstep at hstep
  cases hq : s.queue with
  | nil => rw [hq] at hstep; simp at hstep
  | cons e q' =>
    obtain ⟨v, nv⟩ := e
    rw [hq] at hstep
    simp only at hstep
    have hhead : (v, nv) ∈ s.queue := by rw [hq]; simp
    by_cases hseen : s.seen nv = true
    · rw [if_pos hseen] at hstep
      simp at hstep; subst hstep
      unfold bmeasure
      simp only [hq, List.length_cons]
      omega
    · rw [if_neg hseen] at hstep
      have hunseen : s.seen nv = false := by simpa using hseen
      have hnvn : nv < n := hwf v nv (I.q_src _ hhead).2
      have h2 := unseenDeg_upd g s.seen nv hunseen n hnvn
      have h1 := put_length g (upd s.seen nv true) nv q'
      split at hstep <;>
      · simp only [Option.some.injEq] at hstep
        subst hstep
        unfold bmeasure
        simp only [hq, List.length_cons]
        omega

theorem biter_queue_empty {g : Cfg} {root n : Nat} (hwf : WF g n) : ∀ (f : Nat) (s : BState), BInv g root n s →
    bmeasure g n s ≤ f → (biter g f s).queue = []
  | 0, s, _, h => by
    unfold bmeasure at h
    have : s.queue.length = 0 := by omega
    simpa [biter] using this
  | f+1, s, I, h => by
    unfold biter
    cases hs : bstep g s with
    | none =>
      simp only
      unfold bstep at hs
      cases hq : s.queue with
      | nil => rfl
      | cons e q' =>
        rw [hq] at hs
        simp only at hs
        split at hs <;> simp at hs
    | some s' =>
      simp only
      have := bstep_measure hwf I hs
      exact biter_queue_empty hwf f s' (binv_step hwf I hs) (by omega)

theorem bmeasure_init (g : Cfg) {n root : Nat} (h : root < n) : bmeasure g n (binit g root) ≤ degSum g n := by
  unfold bmeasure
  have h1 : (binit g root).queue.length ≤ (nbrs g root).length := by
    have := put_length g (fun _ => false) root []
    simpa [binit] using this
  have h2 := unseenDeg_upd g (fun _ => false) root rfl n h
  rw [unseenDeg_none] at h2
  have h3 : (binit g root).seen = upd (fun _ => false) root true := rfl
  rw [h3]
  omega

/-! ### final states -/

structure BFinal (g : Cfg) (root n : Nat) (s : BState) : Prop where
  inv : BInv g root n s
  empty : s.queue = []

theorem bfinal_run {g : Cfg} {root n : Nat} (hwf : WF g n) (h : root < n) : BFinal g root n (brun g n root) :=
  ⟨binv_iter hwf _ _ (binv_init g h),
   biter_queue_empty hwf _ _ (binv_init g h) (by have := bmeasure_init g h; unfold bfuel; omega)⟩

/-- every element joined to a seen element by `k` admissible adjacencies is seen, at depth at most `+k` -/
theorem BFinal.closed {g : Cfg} {root n : Nat} {s : BState} (F : BFinal g root n s) {a t k : Nat}
    (h : Hops g a t k) : s.seen a = true → s.seen t = true ∧ dget s t ≤ dget s a + k := by
  induction h with
  | zero a => intro ha; exact ⟨ha, by omega⟩
  | @step a b t k hab _ ih =>
    intro ha
    rcases F.inv.edges a ha b hab with ⟨h1, h2⟩ | h
    · obtain ⟨h3, h4⟩ := ih h1
      exact ⟨h3, by omega⟩
    · rw [F.empty] at h; simp at h

/-- a seen element at depth `d` hangs `d` parent links below the root, each link an admissible adjacency -/
theorem BInv.tree_path {g : Cfg} {root n : Nat} {s : BState} (I : BInv g root n s) :
    ∀ (d x : Nat), s.seen x = true → s.dist x = some d → TreeDepth s.parent root x d ∧ Hops g root x d
  | 0, x, hx, hd => by
    by_cases hxr : x = root
    · subst hxr; exact ⟨TreeDepth.root, Hops.zero x⟩
    · obtain ⟨p, hp⟩ := I.par_some x hx hxr
      obtain ⟨_, _, _, dp, _, h5⟩ := I.par_ok x p hp
      rw [hd] at h5; simp at h5
  | d+1, x, hx, hd => by
    have hxr : x ≠ root := by intro h; rw [h, I.dist_root] at hd; simp at hd
    obtain ⟨p, hp⟩ := I.par_some x hx hxr
    obtain ⟨_, h2, h3, dp, h4, h5⟩ := I.par_ok x p hp
    rw [hd] at h5
    have hdp : dp = d := by simp at h5; omega
    subst hdp
    obtain ⟨t1, t2⟩ := BInv.tree_path I dp p h2 h4
    exact ⟨TreeDepth.child hp t1, t2.snoc h3⟩

end Mouette.Trees
