import Mouette.Lemmas.CuttingDualTree
/-!
The hypotheses `hR`, `hdisj` of the Euler count (no corner starts two glued sides) follow from the uncut edges being pairwise
distinct undirected non-loop edges: every twin `(c, c')` of an uncut edge `(a,b)` consists of the corner at which the directed
side `a→b` starts and the corner at which `b→a` starts, and a corner determines its directed side. Core Lean only.
-/
namespace Mouette.Cutting
open Mouette Mouette.UF

/-- the directed side (pair of original vertices) that starts at corner `c` -/
def sideDir (F : List Face) (c : Nat) : Nat × Nat := (vertOf F c, vertOf F (nxt c))

/-- the four corners of `gluePairs` carry the ends of the edge: `p = (A₁, A₂)`, `q = (B₁, B₂)` -/
theorem gluePairs_ends {F : List Face} {ab : Nat × Nat} {p q : Nat × Nat}
    (h : gluePairs (halfEdges F) (cornerFaces F) ab = some (p, q)) :
    vertOf F p.1 = ab.1 ∧ vertOf F p.2 = ab.1 ∧ vertOf F q.1 = ab.2 ∧ vertOf F q.2 = ab.2 := by
  unfold gluePairs at h
  split at h
  · rename_i f1 iA1 iB1 f2 iB2 iA2 hd1 hd2
    split at h
    · rename_i c1 c2 c3 c4 hc1 hc2 hc3 hc4
      injection h with h
      injection h with hp hq
      subst hp; subst hq
      obtain ⟨e1, e2⟩ := directFace_spec hd1
      obtain ⟨e3, e4⟩ := directFace_spec hd2
      exact ⟨(vertOf_corner hc1 e1).2, (vertOf_corner hc2 e4).2, (vertOf_corner hc3 e2).2, (vertOf_corner hc4 e3).2⟩
    · cases h
  · cases h

/-- the twins, read as directed sides: first components give the uncut pairs, second components the reversed pairs -/
theorem twins_sideDir {F : List Face} (tri : AllTri F) : ∀ (uncut ps : List (Nat × Nat)),
    unionPairs (halfEdges F) (cornerFaces F) uncut = some ps →
    (twins ps).map (fun t => sideDir F t.1) = uncut ∧
    (twins ps).map (fun t => sideDir F t.2) = uncut.map (fun ab => (ab.2, ab.1))
  | [], ps, h => by
    simp only [unionPairs, Option.some.injEq] at h
    subst h
    exact ⟨rfl, rfl⟩
  | ab :: r, ps, h => by
    unfold unionPairs at h
    split at h
    · rename_i p q l hg hr
      injection h with h
      subst h
      obtain ⟨i1, i2⟩ := twins_sideDir tri r l hr
      obtain ⟨s1, s2⟩ := gluePairs_sides tri hg
      obtain ⟨a1, a2, b1, b2⟩ := gluePairs_ends hg
      refine ⟨?_, ?_⟩
      · simp only [twins, List.map_cons, i1]
        congr 1
        unfold sideDir
        rw [s1, a1, b1]
      · simp only [twins, List.map_cons, i2]
        congr 1
        unfold sideDir
        rw [s2, b2, a2]
    · cases h

/-- `hR` and `hdisj` of `edge_count_partial`, from: the uncut pairs are pairwise distinct, none is the reverse of another
(in particular none is a loop `(a,a)`) — i.e. they are distinct undirected edges, as `mesh.edges` restricted to the uncut
interior edges is. -/
theorem edge_hyps_of_distinct_edges {F : List Face} (tri : AllTri F) (uncut ps : List (Nat × Nat))
    (hps : unionPairs (halfEdges F) (cornerFaces F) uncut = some ps) (nd : uncut.Nodup)
    (norev : ∀ x, x ∈ uncut → ∀ y, y ∈ uncut → x ≠ (y.2, y.1)) :
    ((twins ps).map Prod.snd).Nodup ∧ ∀ t, t ∈ twins ps → t.1 ∉ (twins ps).map Prod.snd := by
  obtain ⟨h1, h2⟩ := twins_sideDir tri uncut ps hps
  constructor
  · have : (((twins ps).map Prod.snd).map (sideDir F)).Nodup := by
      rw [List.map_map]
      have e : (sideDir F ∘ Prod.snd) = (fun t : Nat × Nat => sideDir F t.2) := rfl
      rw [e, h2]
      apply nd.map
      intro x y hxy
      have := congrArg (fun z : Nat × Nat => (z.2, z.1)) hxy
      simpa using this
    exact List.Nodup.of_map _ this
  · intro t ht hmem
    obtain ⟨t', ht', hEq⟩ := List.mem_map.mp hmem
    have hx : sideDir F t.1 ∈ uncut := by
      rw [← h1]; exact List.mem_map.mpr ⟨t, ht, rfl⟩
    have hy : sideDir F t'.2 ∈ uncut.map (fun ab => (ab.2, ab.1)) := by
      rw [← h2]; exact List.mem_map.mpr ⟨t', ht', rfl⟩
    obtain ⟨y, hyu, hyeq⟩ := List.mem_map.mp hy
    apply norev _ hx y hyu
    rw [← hEq, ← hyeq]

end Mouette.Cutting
