import Mouette.Model.Volume
import Mathlib.Tactic.Ring
import Mathlib.Tactic.Linarith
/-!
Algebra of the orientation test (exact rationals; every finite binary64 coordinate is a rational).
-/
namespace Mouette.Vol

/-- The determinant used by the code *is* the outwardness of the triangle seen from `D`:
`det(pA−pD, pB−pD, pC−pD) = ((pB−pA)×(pC−pA))·(pA−pD)`. -/
theorem det3_eq_outwardValue (pa pb pc pd : Pt) :
    det3 (pa.sub pd) (pb.sub pd) (pc.sub pd) = outwardValue pa pb pc pd := by
  simp only [det3, outwardValue, dot, cross, Pt.sub]
  ring

/-- swapping two vertices of the triangle negates its outwardness -/
theorem outwardValue_swap (pa pb pc pd : Pt) :
    outwardValue pa pc pb pd = - outwardValue pa pb pc pd := by
  simp only [outwardValue, dot, cross, Pt.sub]
  ring

/-- rotating the triangle does not change its outwardness -/
theorem outwardValue_rotate (pa pb pc pd : Pt) :
    outwardValue pb pc pa pd = outwardValue pa pb pc pd := by
  simp only [outwardValue, dot, cross, Pt.sub]
  ring

/-- the four rows of the tetra face table, seen from the omitted vertex, have outwardness
`−det(p1−p0, p2−p0, p3−p0)` -/
theorem table_row0 (p0 p1 p2 p3 : Pt) :
    outwardValue p1 p3 p2 p0 = - det3 (p1.sub p0) (p2.sub p0) (p3.sub p0) := by
  simp only [det3, outwardValue, dot, cross, Pt.sub]; ring
theorem table_row1 (p0 p1 p2 p3 : Pt) :
    outwardValue p0 p2 p3 p1 = - det3 (p1.sub p0) (p2.sub p0) (p3.sub p0) := by
  simp only [det3, outwardValue, dot, cross, Pt.sub]; ring
theorem table_row2 (p0 p1 p2 p3 : Pt) :
    outwardValue p3 p1 p0 p2 = - det3 (p1.sub p0) (p2.sub p0) (p3.sub p0) := by
  simp only [det3, outwardValue, dot, cross, Pt.sub]; ring
theorem table_row3 (p0 p1 p2 p3 : Pt) :
    outwardValue p0 p1 p2 p3 = - det3 (p1.sub p0) (p2.sub p0) (p3.sub p0) := by
  simp only [det3, outwardValue, dot, cross, Pt.sub]; ring

/-- the orientation rule of the model (keep `(a,b,c)` when the determinant is positive, else
`(a,c,b)`) yields an outward triangle whenever the determinant does not vanish -/
theorem rule_outward (pa pb pc pd : Pt) (h : det3 (pa.sub pd) (pb.sub pd) (pc.sub pd) ≠ 0) :
    (if 0 < det3 (pa.sub pd) (pb.sub pd) (pc.sub pd) then 0 < outwardValue pa pb pc pd
     else 0 < outwardValue pa pc pb pd) := by
  rw [det3_eq_outwardValue] at *
  split
  · assumption
  · rename_i hneg
    rw [outwardValue_swap]
    have : outwardValue pa pb pc pd ≤ 0 := not_lt.1 hneg
    have : outwardValue pa pb pc pd < 0 := lt_of_le_of_ne this h
    linarith

end Mouette.Vol
