import Mouette.Lemmas.SubdivSource
import Mouette.Lemmas.SubdivEdges4
/-
C13 (round 4): BRIDGES, part 2 - the operations that rebuild the mesh (`loop_subdivision`, `subdivide_triangles_3quads`,
`subdivide_triangles_6`).  The Python loops of the source (edge loop filling the dict `half`, face loop appending the
sub-faces and adding their sides to the set `new_edges`, barycentre loop filling the dict `bary`) are shown to compute
what the hand model writes with `mapE` / `halfLookup` / `dedup`.
-/
namespace Mouette.SubdivSrc
open Mouette.Subdiv
open Mouette.Generated

/-! ### `for _ in range(n): body`  =  `iterM` -/

theorem foldE_iterM {σ α} (g : σ → α → Except Err σ) (f : σ → Except Err σ) (Inv : σ → Prop)
    (hg : ∀ s a, Inv s → g s a = f s) (hp : ∀ s s', Inv s → f s = .ok s' → Inv s') :
    ∀ (l : List α) (s : σ), Inv s → foldE g s l = iterM f l.length s := by
  intro l
  induction l with
  | nil => intro s _; rfl
  | cons a t ih =>
    intro s hs
    simp only [foldE, List.length_cons, iterM, hg s a hs, bind, Except.bind]
    cases hf : f s with
    | error e => rfl
    | ok s' => exact ih s' (hp s s' hs hf)

/-! ### the dict `half` -/

/-- the dict after `for (A,B) in edges: half[keyify(A,B)] = C` with `C` counting up from `c` -/
def dictOf : Dict (Nat × Nat) → List (Nat × Nat) → Nat → Dict (Nat × Nat)
  | d, [], _ => d
  | d, e :: es, c => dictOf (dset d (keyify e.1 e.2) c) es (c + 1)

theorem dictOf_lookup : ∀ (l : List (Nat × Nat)) (d : Dict (Nat × Nat)) (c : Nat) (k : Nat × Nat),
    (dictOf d l c).lookup k = match halfLookup l c k with | some r => some r | none => d.lookup k := by
  intro l
  induction l with
  | nil => intro d c k; rfl
  | cons e es ih =>
    intro d c k
    simp only [dictOf, halfLookup, ih]
    cases halfLookup es (c + 1) k with
    | some r => rfl
    | none =>
      simp only [dset, List.lookup_cons]
      by_cases hk : keyify e.1 e.2 = k
      · subst hk; simp
      · have : (k == keyify e.1 e.2) = false := by
          rw [Bool.beq_eq_decide_eq]; exact decide_eq_false (fun h => hk h.symm)
        simp [this, hk]

theorem dgetE_dictOf (l : List (Nat × Nat)) (c a b : Nat) :
    dgetE (dictOf [] l c) (keyify a b) = getHalf (l, c) a b := by
  unfold dgetE getHalf
  rw [dictOf_lookup]
  cases halfLookup l c (keyify a b) <;> rfl

/-! ### the edge loop (shared by the 1->4 pass and the 1->3 quads pass) -/

theorem edgeLoop (m : Raw) (g : Raw × Dict (Nat × Nat) → Nat × Nat → Except Err (Raw × Dict (Nat × Nat)))
    (hg : ∀ x d e, g (x, d) e = match edgeMid m e with
        | .error er => .error er
        | .ok p => .ok ({ x with verts := x.verts ++ [p] }, dset d (keyify e.1 e.2) x.verts.length)) :
    ∀ (l : List (Nat × Nat)) (x : Raw) (d : Dict (Nat × Nat)),
      foldE g (x, d) l = match mapE (edgeMid m) l with
        | .error er => .error er
        | .ok mids => .ok ({ x with verts := x.verts ++ mids }, dictOf d l x.verts.length) := by
  intro l
  induction l with
  | nil => intro x d; simp [foldE, mapE, dictOf]
  | cons e es ih =>
    intro x d
    simp only [foldE, mapE, hg]
    cases edgeMid m e with
    | error er => rfl
    | ok p =>
      simp only [ih]
      cases mapE (edgeMid m) es with
      | error er => rfl
      | ok mids => simp [dictOf]

/-! ### the face loop of the 1->4 pass -/

theorem foldl_sadd_eq_dedup (l : List (Nat × Nat)) : l.foldl sadd [] = dedup l := rfl

theorem loopFaceLoop (h : List (Nat × Nat) × Nat)
    (g : Raw × List (Nat × Nat) → List Nat → Except Err (Raw × List (Nat × Nat)))
    (hg : ∀ x s f, g (x, s) f = match loopFace h f with
        | .error er => .error er
        | .ok part => .ok ({ x with faces := x.faces ++ part.1 }, part.2.foldl sadd s)) :
    ∀ (l : List (List Nat)) (x : Raw) (s : List (Nat × Nat)),
      foldE g (x, s) l = match mapE (loopFace h) l with
        | .error er => .error er
        | .ok parts => .ok ({ x with faces := x.faces ++ parts.flatMap (·.1) }, (parts.flatMap (·.2)).foldl sadd s) := by
  intro l
  induction l with
  | nil => intro x s; simp [foldE, mapE]
  | cons f fs ih =>
    intro x s
    simp only [foldE, mapE, hg]
    cases loopFace h f with
    | error er => rfl
    | ok part =>
      simp only [ih]
      cases mapE (loopFace h) fs with
      | error er => rfl
      | ok parts => simp [List.foldl_append]

/-! ### the barycentre loop and the face loop of the 1->3 quads pass -/

/-- the dict after `for iF, F in enumerate(faces): bary[iF] = len(vertices)` -/
def baryDict : Dict Nat → Nat → Nat → Nat → Dict Nat
  | d, _, 0, _ => d
  | d, k, n + 1, c => baryDict (dset d k c) (k + 1) n (c + 1)

theorem baryDict_lookup_lt : ∀ (n : Nat) (d : Dict Nat) (k c i : Nat), i < k → (baryDict d k n c).lookup i = d.lookup i := by
  intro n
  induction n with
  | zero => intro d k c i _; rfl
  | succ n ih =>
    intro d k c i hi
    simp only [baryDict]
    rw [ih _ _ _ _ (by omega)]
    simp only [dset, List.lookup_cons]
    have : (i == k) = false := by simp; omega
    simp [this]

theorem baryDict_lookup : ∀ (n : Nat) (d : Dict Nat) (k c i : Nat), k ≤ i → i < k + n →
    (baryDict d k n c).lookup i = some (c + (i - k)) := by
  intro n
  induction n with
  | zero => intro d k c i h1 h2; omega
  | succ n ih =>
    intro d k c i h1 h2
    simp only [baryDict]
    by_cases hik : i = k
    · subst hik
      rw [baryDict_lookup_lt _ _ _ _ _ (by omega)]
      simp [dset, List.lookup_cons]
    · rw [ih _ _ _ _ (by omega) (by omega)]
      congr 1; omega

theorem baryLoop (q : List Nat → Except Err Pt) (g : Raw × Dict Nat → Nat × List Nat → Except Err (Raw × Dict Nat))
    (hg : ∀ x d e, g (x, d) e = match q e.2 with
        | .error er => .error er
        | .ok p => .ok ({ x with verts := x.verts ++ [p] }, dset d e.1 x.verts.length)) :
    ∀ (l : List (List Nat)) (k : Nat) (x : Raw) (d : Dict Nat),
      foldE g (x, d) (number k l) = match mapE q l with
        | .error er => .error er
        | .ok bs => .ok ({ x with verts := x.verts ++ bs }, baryDict d k l.length x.verts.length) := by
  intro l
  induction l with
  | nil => intro k x d; simp [foldE, mapE, number, baryDict]
  | cons f fs ih =>
    intro k x d
    simp only [number, foldE, mapE, hg]
    cases q f with
    | error er => rfl
    | ok p =>
      simp only [ih]
      cases mapE q fs with
      | error er => rfl
      | ok bs => simp [baryDict]

theorem quadsFaceLoop (h : List (Nat × Nat) × Nat) (base : Nat)
    (g : Raw × List (Nat × Nat) → Nat × List Nat → Except Err (Raw × List (Nat × Nat))) :
    ∀ (l : List (List Nat)) (k : Nat) (x : Raw) (s : List (Nat × Nat)),
      (∀ x s e, e ∈ number k l → g (x, s) e = match quadsFace h (base + e.1) e.2 with
        | .error er => .error er
        | .ok part => .ok ({ x with faces := x.faces ++ part.1 }, part.2.foldl sadd s)) →
      foldE g (x, s) (number k l) = match mapE (fun sf => quadsFace h sf.1 sf.2) (number (base + k) l) with
        | .error er => .error er
        | .ok parts => .ok ({ x with faces := x.faces ++ parts.flatMap (·.1) }, (parts.flatMap (·.2)).foldl sadd s) := by
  intro l
  induction l with
  | nil => intro k x s _; simp [foldE, mapE, number]
  | cons f fs ih =>
    intro k x s hg
    simp only [number, foldE, mapE, hg x s (k, f) (by simp [number])]
    cases quadsFace h (base + k) f with
    | error er => rfl
    | ok part =>
      simp only []
      rw [ih (k + 1) _ _ (fun x s e he => hg x s e (by simp [number, he]))]
      rw [show base + (k + 1) = base + k + 1 by omega]
      cases mapE (fun sf => quadsFace h sf.1 sf.2) (number (base + k + 1) fs) with
      | error er => rfl
      | ok parts => simp [List.foldl_append]

theorem number_mem_range {α} : ∀ (l : List α) (k : Nat) (e : Nat × α), e ∈ number k l → k ≤ e.1 ∧ e.1 < k + l.length := by
  intro l
  induction l with
  | nil => intro k e he; simp [number] at he
  | cons a t ih =>
    intro k e he
    simp only [number, List.mem_cons] at he
    rcases he with he | he
    · subst he; simp
    · have := ih (k + 1) e he
      simp only [List.length_cons]; omega

/-! ### `loop_subdivision` -/

theorem loopSubdivision_bridge (m : Raw) (n : Nat) (h2 : FacesGe2 m) :
    C13Src.loopSubdivision m n = Subdiv.loopSubdivision m n := by
  unfold C13Src.loopSubdivision Subdiv.loopSubdivision
  rw [triangulate_bridge m h2]
  simp only [bind, Except.bind]
  cases ht : Subdiv.triangulate m with
  | error e => rfl
  | ok m1 =>
    simp only []
    rw [foldE_iterM _ loopOnce (fun _ => True) ?hg (fun _ _ _ _ => trivial) _ m1 trivial]
    case hg =>
      intro s k _
      simp only [Raw.empty, List.nil_append]
      unfold loopOnce midpointsOf
      rw [edgeLoop s _ ?hge]
      case hge =>
        intro x d e
        unfold edgeMid idx
        cases s.verts[e.1]? <;> cases s.verts[e.2]? <;> rfl
      simp only [bind, Except.bind]
      cases hm : mapE (edgeMid s) s.edges with
      | error er => rfl
      | ok mids =>
        simp only []
        rw [loopFaceLoop (s.edges, s.verts.length) _ ?hgf]
        case hgf =>
          intro x st f
          rcases f with _ | ⟨a, _ | ⟨b, _ | ⟨c, _ | ⟨d, t⟩⟩⟩⟩
          · rfl
          · rfl
          · rfl
          · simp only [unpack3, dgetE_dictOf, loopFace, bind, Except.bind]
            cases getHalf (s.edges, s.verts.length) a b with
            | error er => rfl
            | ok mab =>
              cases getHalf (s.edges, s.verts.length) b c with
              | error er => rfl
              | ok mbc =>
                cases getHalf (s.edges, s.verts.length) c a with
                | error er => rfl
                | ok mca => simp [pure, Except.pure]
          · rfl
        cases hp : mapE (loopFace (s.edges, s.verts.length)) s.faces with
        | error er => rfl
        | ok parts => simp [pure, Except.pure, foldl_sadd_eq_dedup]
    simp only [List.length_range]

/-! ### `subdivide_triangles_3quads` -/

theorem quads3_bridge (m : Raw) (h2 : FacesGe2 m) : C13Src.quads3 m = Subdiv.quads3 m := by
  rw [quads3_eq]
  unfold C13Src.quads3
  rw [triangulate_bridge m h2]
  simp only [bind, Except.bind]
  cases ht : Subdiv.triangulate m with
  | error e => rfl
  | ok s =>
    simp only [Raw.empty, List.nil_append]
    unfold quads3Core midpointsOf
    rw [edgeLoop s _ ?hge]
    case hge =>
      intro x d e
      unfold edgeMid idx
      cases s.verts[e.1]? <;> cases s.verts[e.2]? <;> rfl
    simp only [bind, Except.bind]
    cases hm : mapE (edgeMid s) s.edges with
    | error er => rfl
    | ok mids =>
      have hml : mids.length = s.edges.length := mapE_length _ _ _ hm
      simp only []
      rw [baryLoop (fun f => do let ps ← pts s f; pure ((sumPts ps).divn 3)) _ ?hgb]
      case hgb =>
        intro x d e
        simp only [idx_eq_getPt, bind, Except.bind, pts]
        cases mapE (getPt s) e.2 <;> rfl
      have hq : mapE (fun f => do let ps ← pts s f; pure ((sumPts ps).divn 3)) s.faces = baryCentres s := rfl
      rw [hq]
      cases hb : baryCentres s with
      | error er => rfl
      | ok bs =>
        simp only []
        rw [quadsFaceLoop (s.edges, s.verts.length) (s.verts.length + s.edges.length) _ s.faces 0 _ _ ?hgq]
        case hgq =>
          intro x st e he
          obtain ⟨i, f⟩ := e
          have hr := number_mem_range _ _ _ he
          have hbd : dgetE (baryDict [] 0 s.faces.length (s.verts ++ mids).length) i
              = .ok (s.verts.length + s.edges.length + i) := by
            unfold dgetE
            rw [baryDict_lookup _ _ _ _ _ (by omega) (by simpa using hr.2)]
            simp [hml]
          rcases f with _ | ⟨a, _ | ⟨b, _ | ⟨c, _ | ⟨d, t⟩⟩⟩⟩
          · rfl
          · rfl
          · rfl
          · simp only [unpack3, dgetE_dictOf, quadsFace, bind, Except.bind, hbd]
            cases getHalf (s.edges, s.verts.length) a b with
            | error er => rfl
            | ok mab =>
              cases getHalf (s.edges, s.verts.length) b c with
              | error er => rfl
              | ok mbc =>
                cases getHalf (s.edges, s.verts.length) c a with
                | error er => rfl
                | ok mca => simp [pure, Except.pure]
          · rfl
        simp only [Nat.add_zero]
        cases hp : mapE (fun sf => quadsFace (s.edges, s.verts.length) sf.1 sf.2)
            (number (s.verts.length + s.edges.length) s.faces) with
        | error er => rfl
        | ok parts => simp [pure, Except.pure, foldl_sadd_eq_dedup]

/-! ### preservation of `FacesGe2` (so that the bridges compose along sequences) -/

theorem triangulate_ok_facesGe2 (m m' : Raw) (h : Subdiv.triangulate m = .ok m') (h2 : FacesGe2 m) : FacesGe2 m' :=
  triangulate_facesGe2 _ m m' h h2

theorem quads3_facesGe2 (m m' : Raw) (h : Subdiv.quads3 m = .ok m') : FacesGe2 m' := by
  rw [quads3_eq] at h
  cases ht : Subdiv.triangulate m with
  | error e => simp [ht, Except.bind] at h
  | ok s =>
    simp only [ht, Except.bind] at h
    obtain ⟨_, _, h4, _⟩ := quads3Core_counts s m' h
    intro f hf
    have := h4 f hf
    omega

theorem loopOnce_facesGe2 (m m' : Raw) (h : loopOnce m = .ok m') : FacesGe2 m' := by
  obtain ⟨_, _, h3, _⟩ := loop_counts' m m' h
  intro f hf
  have := h3 f hf
  omega

theorem iterM_inv {α} (f : α → Except Err α) (Inv : α → Prop) (hp : ∀ s s', Inv s → f s = .ok s' → Inv s') :
    ∀ (n : Nat) (s s' : α), Inv s → iterM f n s = .ok s' → Inv s' := by
  intro n
  induction n with
  | zero => intro s s' hs h; simp [iterM, pure, Except.pure] at h; subst h; exact hs
  | succ n ih =>
    intro s s' hs h
    simp only [iterM, bind, Except.bind] at h
    cases hf : f s with
    | error e => simp [hf] at h
    | ok s1 => simp only [hf] at h; exact ih s1 s' (hp s s1 hs hf) h

/-! ### `subdivide_triangles_6` -/

theorem sub6Step_facesGe2 (s s' : Raw) (hs : FacesGe2 s)
    (h : (do let m ← Subdiv.quads3 s; Subdiv.triangulate m) = .ok s') : FacesGe2 s' := by
  simp only [bind, Except.bind] at h
  cases hq : Subdiv.quads3 s with
  | error e => simp [hq] at h
  | ok s1 =>
    simp only [hq] at h
    exact triangulate_ok_facesGe2 s1 s' h (quads3_facesGe2 s s1 hq)

theorem sub6_bridge (m : Raw) (n : Nat) (h2 : FacesGe2 m) : C13Src.sub6 m n = Subdiv.sub6 m n := by
  unfold C13Src.sub6 Subdiv.sub6
  rw [foldE_iterM _ (fun m => do let m ← Subdiv.quads3 m; Subdiv.triangulate m) FacesGe2 ?hg sub6Step_facesGe2 _ m h2]
  case hg =>
    intro s k hs
    simp only [bind, Except.bind]
    rw [quads3_bridge s hs]
    cases hq : Subdiv.quads3 s with
    | error e => rfl
    | ok s1 =>
      simp only []
      rw [triangulate_bridge s1 (quads3_facesGe2 s s1 hq)]
  simp only [List.length_range]

theorem loopSubdivision_facesGe2 (m m' : Raw) (n : Nat) (h : Subdiv.loopSubdivision m n = .ok m') (h2 : FacesGe2 m) : FacesGe2 m' := by
  simp only [Subdiv.loopSubdivision, bind, Except.bind] at h
  cases ht : Subdiv.triangulate m with
  | error e => simp [ht] at h
  | ok s =>
    simp only [ht] at h
    exact iterM_inv loopOnce FacesGe2 (fun a b _ hab => loopOnce_facesGe2 a b hab) n s m' (triangulate_ok_facesGe2 m s ht h2) h

theorem sub6_facesGe2 (m m' : Raw) (n : Nat) (h : Subdiv.sub6 m n = .ok m') (h2 : FacesGe2 m) : FacesGe2 m' :=
  iterM_inv _ FacesGe2 sub6Step_facesGe2 n m m' h2 h

end Mouette.SubdivSrc
