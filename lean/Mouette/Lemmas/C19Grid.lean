import Mathlib.Algebra.Order.Field.Basic
import Mathlib.Algebra.Order.GroupWithZero.Basic
import Mathlib.Data.Real.Basic
import Mathlib.Tactic.Ring
import Mathlib.Tactic.Linarith
import Mathlib.Tactic.Positivity
import Mathlib.Tactic.FieldSimp
/-
C19 round 2 — the grid resolution of `sample_AABB(mode="grid")`: `res = round(n^(1/d))`.
"`res` is the integer nearest to the d-th root of n" is characterised without roots:
  |res - x| ≤ 1/2  ⇔  (res - 1/2)^d ≤ n ≤ (res + 1/2)^d        (x ≥ 0, x^d = n, res ≥ 1)
and the right-hand side is the integer test of the oracle  (2res-1)^d ≤ 2^d n ≤ (2res+1)^d.
-/
namespace Mouette.Lemmas.C19

/-- root-free characterisation of "nearest integer to the d-th root", in any linearly ordered field
(ℚ when the root is rational, ℝ in general) -/
theorem nearest_root_iff {K : Type} [Field K] [LinearOrder K] [IsStrictOrderedRing K]
    (r x n : K) (d : ℕ) (hd : d ≠ 0) (hr : 1 / 2 ≤ r) (hx : 0 ≤ x) (hxn : x ^ d = n) :
    |r - x| ≤ 1 / 2 ↔ (r - 1 / 2) ^ d ≤ n ∧ n ≤ (r + 1 / 2) ^ d := by
  have h1 : (0 : K) ≤ r - 1 / 2 := by linarith
  have h2 : (0 : K) ≤ r + 1 / 2 := by linarith
  rw [abs_le, ← hxn, pow_le_pow_iff_left₀ h1 hx hd, pow_le_pow_iff_left₀ hx h2 hd]
  constructor
  · rintro ⟨a, b⟩; constructor <;> linarith
  · rintro ⟨a, b⟩; constructor <;> linarith

/-- the case `res = 0` (no point returned): `0` is nearest to the root iff `n ≤ (1/2)^d` -/
theorem nearest_root_zero_iff {K : Type} [Field K] [LinearOrder K] [IsStrictOrderedRing K]
    (x n : K) (d : ℕ) (hd : d ≠ 0) (hx : 0 ≤ x) (hxn : x ^ d = n) :
    |0 - x| ≤ 1 / 2 ↔ n ≤ (1 / 2) ^ d := by
  have h2 : (0 : K) ≤ 1 / 2 := by positivity
  rw [zero_sub, abs_neg, abs_of_nonneg hx, ← hxn, pow_le_pow_iff_left₀ hx h2 hd]

/-- the oracle's integer test is the rational characterisation -/
theorem integer_test_iff (r d n : ℕ) (hr : 1 ≤ r) :
    ((2 * r - 1) ^ d ≤ 2 ^ d * n ∧ 2 ^ d * n ≤ (2 * r + 1) ^ d) ↔
      (((r : ℚ) - 1 / 2) ^ d ≤ (n : ℚ) ∧ (n : ℚ) ≤ ((r : ℚ) + 1 / 2) ^ d) := by
  have h2 : (0 : ℚ) < 2 ^ d := by positivity
  have e1 : ((r : ℚ) - 1 / 2) = (((2 * r - 1 : ℕ) : ℚ)) / 2 := by
    rw [Nat.cast_sub (by omega)]; push_cast; ring
  have e2 : ((r : ℚ) + 1 / 2) = (((2 * r + 1 : ℕ) : ℚ)) / 2 := by push_cast; ring
  rw [e1, e2, div_pow, div_pow, div_le_iff₀ h2, le_div_iff₀ h2]
  have c1 : ((2 * r - 1) ^ d ≤ 2 ^ d * n) ↔ (((2 * r - 1 : ℕ) : ℚ) ^ d ≤ (n : ℚ) * 2 ^ d) := by
    rw [← Nat.cast_le (α := ℚ)]
    simp only [Nat.cast_pow, Nat.cast_mul, Nat.cast_ofNat]
    rw [mul_comm ((2 : ℚ) ^ d) (n : ℚ)]
  have c2 : (2 ^ d * n ≤ (2 * r + 1) ^ d) ↔ ((n : ℚ) * 2 ^ d ≤ ((2 * r + 1 : ℕ) : ℚ) ^ d) := by
    rw [← Nat.cast_le (α := ℚ)]
    simp only [Nat.cast_pow, Nat.cast_mul, Nat.cast_ofNat]
    rw [mul_comm ((2 : ℚ) ^ d) (n : ℚ)]
  rw [c1, c2]

/-- same in ℝ (where the root always exists) -/
theorem integer_test_iff_real (r d n : ℕ) (hr : 1 ≤ r) :
    ((2 * r - 1) ^ d ≤ 2 ^ d * n ∧ 2 ^ d * n ≤ (2 * r + 1) ^ d) ↔
      (((r : ℝ) - 1 / 2) ^ d ≤ (n : ℝ) ∧ (n : ℝ) ≤ ((r : ℝ) + 1 / 2) ^ d) := by
  rw [integer_test_iff r d n hr]
  constructor
  · rintro ⟨a, b⟩
    constructor
    · have : ((((r : ℚ) - 1 / 2) ^ d : ℚ) : ℝ) ≤ ((n : ℚ) : ℝ) := by exact_mod_cast a
      push_cast at this; exact this
    · have : (((n : ℚ)) : ℝ) ≤ ((((r : ℚ) + 1 / 2) ^ d : ℚ) : ℝ) := by exact_mod_cast b
      push_cast at this; exact this
  · rintro ⟨a, b⟩
    constructor
    · have : ((((r : ℚ) - 1 / 2) ^ d : ℚ) : ℝ) ≤ ((n : ℚ) : ℝ) := by push_cast; exact a
      exact_mod_cast this
    · have : (((n : ℚ)) : ℝ) ≤ ((((r : ℚ) + 1 / 2) ^ d : ℚ) : ℝ) := by push_cast; exact b
      exact_mod_cast this

end Mouette.Lemmas.C19
