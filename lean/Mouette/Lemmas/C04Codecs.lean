import Mouette.Lemmas.C04Basic
/-! C04: round-trip lemmas for obj, off, tet, xyz. -/
namespace Mouette.IO
variable {C : Type}

/-! ### obj -/

theorem stepObj_v (cd : Codec C) (h : RoundTrips cd) (r : Raw C) (v : C × C × C) :
    stepObj cd r (vLine cd v) = some { r with verts := r.verts ++ [v] } := by
  simp [stepObj, vLine, coordLine, readNum_num cd h]

theorem stepObj_l (cd : Codec C) (r : Raw C) (e : Nat × Nat) :
    stepObj cd r (lLine e) = some { r with edges := r.edges ++ [keyify e] } := by
  simp [stepObj, lLine]

theorem stepObj_f (cd : Codec C) (r : Raw C) (f : List Nat) :
    stepObj cd r (fLine f) = some { r with faces := r.faces ++ [f] } := by
  simp [stepObj, fLine, mapOpt_idx1]

theorem foldObj_v (cd : Codec C) (h : RoundTrips cd) (vs : List (C × C × C)) (r : Raw C) :
    foldOpt (stepObj cd) r (vs.map (vLine cd)) = some { r with verts := r.verts ++ vs } := by
  induction vs generalizing r with
  | nil => simp [foldOpt]
  | cons v t ih =>
    simp only [List.map_cons, foldOpt, stepObj_v cd h]
    rw [ih]; simp

theorem foldObj_l (cd : Codec C) (es : List (Nat × Nat)) (r : Raw C) :
    foldOpt (stepObj cd) r (es.map lLine) = some { r with edges := r.edges ++ es.map keyify } := by
  induction es generalizing r with
  | nil => simp [foldOpt]
  | cons e t ih =>
    simp only [List.map_cons, foldOpt, stepObj_l]
    rw [ih]; simp

theorem foldObj_f (cd : Codec C) (fs : List (List Nat)) (r : Raw C) :
    foldOpt (stepObj cd) r (fs.map fLine) = some { r with faces := r.faces ++ fs } := by
  induction fs generalizing r with
  | nil => simp [foldOpt]
  | cons f t ih =>
    simp only [List.map_cons, foldOpt, stepObj_f]
    rw [ih]; simp

theorem importObj_exportObj (cd : Codec C) (h : RoundTrips cd) (cfg : Cfg) (m : Raw C) :
    importObj cd (exportObj cd cfg m) = some (restrictObj cfg m) := by
  unfold importObj exportObj
  rw [foldOpt_append_some _ _ _ _ _ (foldObj_v cd h m.verts Raw.empty)]
  rw [foldOpt_append_some _ _ _ _ _ (foldObj_l cd (objEdges cfg m) _)]
  rw [foldObj_f]
  simp [restrictObj, Raw.empty]

/-! ### off -/

theorem stepOff_tri (r : Raw C) (f : List Nat) (hf : f.length = 3) :
    stepOff r (recLine f) = some { r with faces := r.faces ++ [f] } := by
  match f, hf with
  | [a, b, c], _ => simp [stepOff, recLine, mapOpt]

theorem stepOff_quad (r : Raw C) (f : List Nat) (hf : f.length = 4) :
    stepOff r (recLine f) = some { r with cells := r.cells ++ [f] } := by
  match f, hf with
  | [a, b, c, d], _ => simp [stepOff, recLine, mapOpt]

theorem stepOff_other (r : Raw C) (f : List Nat) (h2 : f.length ≠ 2) (h3 : f.length ≠ 3) (h4 : f.length ≠ 4) :
    stepOff r (recLine f) = some r := by
  have e3 : ((f.length : Nat) : Int) ≠ 3 := by omega
  have e4 : ((f.length : Nat) : Int) ≠ 4 := by omega
  have e2 : ((f.length : Nat) : Int) ≠ 2 := by omega
  simp [stepOff, recLine, e2, e3, e4]

theorem foldOff_tris (fs : List (List Nat)) (hf : ∀ f ∈ fs, f.length = 3) (r : Raw C) :
    foldOpt stepOff r (fs.map recLine) = some { r with faces := r.faces ++ fs } := by
  induction fs generalizing r with
  | nil => simp [foldOpt]
  | cons f t ih =>
    simp only [List.map_cons, foldOpt, stepOff_tri r f (hf f (by simp))]
    rw [ih (fun x hx => hf x (by simp [hx]))]; simp

/-- what `parse_off_data` really does with the records `export_off` writes -/
theorem foldOff_actual (fs : List (List Nat)) (hf : ∀ f ∈ fs, f.length ≠ 2) (r : Raw C) :
    foldOpt stepOff r (fs.map recLine)
      = some { r with faces := r.faces ++ ofArity 3 fs, cells := r.cells ++ ofArity 4 fs } := by
  induction fs generalizing r with
  | nil => simp [foldOpt, ofArity]
  | cons f t ih =>
    have ht := ih (fun x hx => hf x (by simp [hx]))
    have h2 := hf f (by simp)
    simp only [List.map_cons, foldOpt]
    by_cases h3 : f.length = 3
    · rw [stepOff_tri r f h3]; simp only []; rw [ht]; simp [ofArity, h3]
    · by_cases h4 : f.length = 4
      · rw [stepOff_quad r f h4]; simp only []; rw [ht]; simp [ofArity, h4]
      · rw [stepOff_other r f h2 h3 h4]; simp only []; rw [ht]; simp [ofArity, h3, h4]

theorem take_off (cd : Codec C) (m : Raw C) :
    (m.verts.map (coordLine cd) ++ m.faces.map recLine).take m.verts.length = m.verts.map (coordLine cd) := by
  rw [List.take_left' (by simp)]

theorem drop_off (cd : Codec C) (m : Raw C) :
    ((m.verts.map (coordLine cd) ++ m.faces.map recLine).drop m.verts.length).take m.faces.length = m.faces.map recLine := by
  rw [List.drop_left' (by simp)]
  rw [List.take_of_length_le (by simp)]

theorem importOff_exportOff_actual (cd : Codec C) (h : RoundTrips cd) (m : Raw C)
    (hf : ∀ f ∈ m.faces, f.length ≠ 2) :
    importOff cd (exportOff cd m)
      = some { verts := m.verts, faces := ofArity 3 m.faces, cells := ofArity 4 m.faces } := by
  have hv : mapOpt (readCoords cd) (m.verts.map (coordLine cd)) = some m.verts :=
    mapOpt_map _ _ (readCoords_coordLine cd h) _
  simp only [importOff, exportOff, readIdx0_idx0, readInt_idx0, if_true]
  rw [take_off, drop_off, hv]
  have hl : ¬ ((m.verts.map (coordLine cd) ++ m.faces.map recLine).length < m.verts.length + m.faces.length) := by
    simp
  simp only [hl, if_false]
  rw [foldOff_actual m.faces hf]
  simp

theorem ofArity_all (n : Nat) (l : List (List Nat)) (h : ∀ f ∈ l, f.length = n) : ofArity n l = l := by
  simp only [ofArity]
  exact List.filter_eq_self.mpr (fun f hf => by simp [h f hf])

theorem ofArity_none (n : Nat) (l : List (List Nat)) (h : ∀ f ∈ l, f.length ≠ n) : ofArity n l = [] := by
  simp only [ofArity]
  exact List.filter_eq_nil_iff.mpr (fun f hf => by simp [h f hf])

/-! ### tet -/

theorem readTetRec_recLine (c : List Nat) : readTetRec (recLine c) = some c := by
  simp [readTetRec, recLine, mapOpt_idx0]

theorem importTet_exportTet (cd : Codec C) (h : RoundTrips cd) (m : Raw C) :
    importTet cd (exportTet cd m) = some (restrictTet m) := by
  have hv : mapOpt (readCoords cd) (m.verts.map (coordLine cd)) = some m.verts :=
    mapOpt_map _ _ (readCoords_coordLine cd h) _
  have hc : mapOpt readTetRec (m.cells.map recLine) = some m.cells :=
    mapOpt_map _ _ readTetRec_recLine _
  have t1 : (m.verts.map (coordLine cd) ++ m.cells.map recLine).take m.verts.length = m.verts.map (coordLine cd) := by
    rw [List.take_left' (by simp)]
  have t2 : ((m.verts.map (coordLine cd) ++ m.cells.map recLine).drop m.verts.length).take m.cells.length
      = m.cells.map recLine := by
    rw [List.drop_left' (by simp), List.take_of_length_le (by simp)]
  have hl : ¬ ((m.verts.map (coordLine cd) ++ m.cells.map recLine).length < m.verts.length + m.cells.length) := by
    simp
  simp only [importTet, exportTet, readIdx0_idx0]
  rw [t1, t2, hv, hc]
  simp [hl, restrictTet]

/-! ### xyz -/

theorem stepXyz_line (cd : Codec C) (h : RoundTrips cd) (r : Raw C) (v : C × C × C) :
    stepXyz cd r (coordLine cd v) = some { r with verts := r.verts ++ [v] } := by
  simp [stepXyz, coordLine, mapOpt, readNum_num cd h]

theorem importXyz_exportXyz (cd : Codec C) (h : RoundTrips cd) (m : Raw C) :
    importXyz cd (exportXyz cd m) = some (restrictXyz m) := by
  have key : ∀ (vs : List (C × C × C)) (r : Raw C),
      foldOpt (stepXyz cd) r (vs.map (coordLine cd)) = some { r with verts := r.verts ++ vs } := by
    intro vs
    induction vs with
    | nil => intro r; simp [foldOpt]
    | cons v t ih =>
      intro r
      simp only [List.map_cons, foldOpt, stepXyz_line cd h]
      rw [ih]; simp
  simp [importXyz, exportXyz, key, restrictXyz, Raw.empty]

end Mouette.IO
