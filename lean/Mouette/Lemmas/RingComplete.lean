import Mouette.Lemmas.RingCheck
import Mouette.Lemmas.RingSort
import Mouette.Lemmas.RingMesh
/-! Completeness of the decidable umbrella checker `umbrellaB` (`Model/RingSpec.lean`): on a built, oriented mesh with sorting on,
the checker accepts EXACTLY the vertices that satisfy the umbrella condition (the converse is `umbrellaB_sound`). -/
namespace Mouette.Surface

theorem chainB_complete {S : Surf} {ring : List Nat}
    (hb : ∀ j (hj : j + 1 < ring.length), stepB S ring[j+1] = some ring[j])
    (hf : ∀ j (hj : j + 1 < ring.length), stepF S ring[j] = some ring[j+1]) : chainB S ring = true := by
  unfold chainB
  rw [List.all_eq_true]
  intro j hj
  have hj' : j + 1 < ring.length := by have := List.mem_range.mp hj; omega
  rw [Bool.and_eq_true, beq_iff_eq, beq_iff_eq, getD_eq_getElem hj', getD_eq_getElem (by omega : j < ring.length)]
  exact ⟨hb j hj', hf j hj'⟩

theorem ringOpenB_complete {S : Surf} {v : Nat} {ring : List Nat} (hr : RingOpen S v ring) : ringOpenB S v ring = true := by
  unfold ringOpenB
  simp only [Bool.and_eq_true, decide_eq_true_eq, Bool.or_eq_true, beq_iff_eq]
  refine ⟨⟨⟨hr.perm, hr.nodup⟩, chainB_complete hr.back hr.fwd⟩, ?_⟩
  by_cases hne : ring = []
  · left; simp [hne]
  · right
    have h0 : 0 < ring.length := List.length_pos_iff.mpr hne
    rw [getD_eq_getElem h0, getD_eq_getElem (by omega : ring.length - 1 < ring.length)]
    exact ⟨hr.first h0, hr.last h0⟩

section built
variable {faces : Faces} (nv : Nat) (so : Bool)

/-- on a built oriented mesh, a list of corners at `v` that is chained by `stepB` is chained by `stepF` the other way -/
theorem fwd_of_back (hO : Oriented faces) {v : Nat} {L : List Nat} (hmem : ∀ c ∈ L, c ∈ cornersAt (build nv faces so) v)
    (hb : ∀ j (hj : j + 1 < L.length), stepB (build nv faces so) L[j+1] = some L[j]) :
    ∀ j (hj : j + 1 < L.length), stepF (build nv faces so) L[j] = some L[j+1] := by
  intro j hj
  obtain ⟨f, i, hf, hi, _, hc⟩ := mem_cornersAt.mp (hmem _ (List.getElem_mem hj))
  have := hb j hj
  rw [hc] at this
  rw [hc]
  exact stepF_of_stepB nv so hO hf hi this

theorem ringClosedB_rotate_complete (hO : Oriented faces) {v : Nat} {ring : List Nat} (hr : RingClosed (build nv faces so) v ring) (r : Nat) :
    ringClosedB (build nv faces so) v (ring.rotate r) = true := by
  have hlen : (ring.rotate r).length = ring.length := List.length_rotate ring r
  have hperm : (ring.rotate r).Perm (cornersAt (build nv faces so) v) := (List.rotate_perm ring r).trans hr.perm
  have hb : ∀ j (hj : j + 1 < (ring.rotate r).length), stepB (build nv faces so) (ring.rotate r)[j+1] = some (ring.rotate r)[j] := by
    intro j hj
    have h := closed_rotate_chain hr r j (by omega)
    have hmod : (j + 1) % ring.length = j + 1 := Nat.mod_eq_of_lt (by omega)
    simp only [hmod] at h
    exact h
  have hfw := fwd_of_back nv so hO (fun c hc => hperm.mem_iff.mp hc) hb
  unfold ringClosedB
  simp only [Bool.and_eq_true, decide_eq_true_eq, Bool.or_eq_true, beq_iff_eq]
  refine ⟨⟨⟨hperm, (List.nodup_rotate).mpr hr.nodup⟩, chainB_complete hb hfw⟩, ?_⟩
  by_cases hne : ring.rotate r = []
  · left; simp [hne]
  · right
    have h0 : 0 < (ring.rotate r).length := List.length_pos_iff.mpr hne
    rw [getD_eq_getElem h0, getD_eq_getElem (by omega : (ring.rotate r).length - 1 < (ring.rotate r).length)]
    have h := closed_rotate_chain hr r (ring.length - 1) (by omega)
    have hmod : (ring.length - 1 + 1) % ring.length = 0 := by
      have : ring.length - 1 + 1 = ring.length := by omega
      rw [this, Nat.mod_self]
    simp only [hmod, hlen] at h ⊢
    exact h

/-- **completeness of `umbrellaB`**: with sorting on, on a built oriented mesh, the decidable checker evaluated by the driver is
true whenever the umbrella condition holds at `v` — together with `umbrellaB_sound`: `umbrellaB` DECIDES the umbrella condition -/
theorem umbrellaB_complete (hO : Oriented faces) {v : Nat}
    (hu : ∃ ring, RingOpen (build nv faces true) v ring ∨ RingClosed (build nv faces true) v ring) :
    umbrellaB (build nv faces true) v = true := by
  unfold umbrellaB
  rw [Bool.or_eq_true]
  obtain ⟨ring, hr | hr⟩ := hu
  · left
    rw [vertexToCorners_open rfl hr]
    exact ringOpenB_complete hr
  · right
    obtain ⟨r, hrot⟩ := vertexToCorners_closed rfl hr
    rw [hrot]
    exact ringClosedB_rotate_complete nv true hO hr r

theorem umbrellaB_iff (hO : Oriented faces) (v : Nat) :
    umbrellaB (build nv faces true) v = true ↔
      ∃ ring, RingOpen (build nv faces true) v ring ∨ RingClosed (build nv faces true) v ring :=
  ⟨umbrellaB_sound, umbrellaB_complete nv hO⟩

end built
end Mouette.Surface
