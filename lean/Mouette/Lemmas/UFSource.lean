import Mouette.Model.UFSource
import Mouette.Lemmas.UnionFind
/-!
Helper lemmas for the C20 translated fragments: the dict `_indx` (kept by the source, abstracted to `elts.idxOf` by the
hand model), fuel-stability of the `find` loop, `set(…)` of a duplicate-free list.
-/
namespace Mouette.UFS
open Mouette.UF

/-- `_indx` is the inverse of `_elts` and `_next` is its length: the facts under which the source (which reads the
dict) and the hand model (which searches the list) coincide -/
structure IndxInv (g : St) : Prop where
  look : ∀ x, g.indx.lookup x = if x ∈ g.elts then some (g.elts.idxOf x) else none
  next : g.next = g.elts.length

theorem indxInv_init : IndxInv {} := ⟨fun _ => by simp, rfl⟩

theorem IndxInv.dmem {g : St} (h : IndxInv g) (x : Nat) : UFS.dmem g.indx x = g.toState.mem x := by
  unfold UFS.dmem State.mem St.toState
  rw [h.look x]
  by_cases hx : x ∈ g.elts <;> simp [hx]

theorem IndxInv.dmem_iff {g : St} (h : IndxInv g) (x : Nat) : UFS.dmem g.indx x = true ↔ x ∈ g.elts := by
  rw [h.dmem, mem_iff]; rfl

theorem IndxInv.dget {g : St} (h : IndxInv g) {x : Nat} (hx : x ∈ g.elts) : UFS.dget g.indx x = g.elts.idxOf x := by
  unfold UFS.dget
  rw [h.look x]; simp [hx]

/-- a state with the same `_elts`, `_indx`, `_next` -/
theorem IndxInv.congr {g g' : St} (h : IndxInv g) (he : g'.elts = g.elts) (hi : g'.indx = g.indx)
    (hn : g'.next = g.next) : IndxInv g' :=
  ⟨fun x => by rw [hi, he]; exact h.look x, by rw [hn, he]; exact h.next⟩

/-- the three updates of `add` on a new element -/
theorem IndxInv.append {g g' : St} (h : IndxInv g) {x : Nat} (hx : x ∉ g.elts) (he : g'.elts = g.elts ++ [x])
    (hi : g'.indx = dset g.indx x g.next) (hn : g'.next = g.next + 1) : IndxInv g' := by
  refine ⟨fun y => ?_, by rw [hn, he, h.next]; simp⟩
  rw [hi, he, dset, List.lookup_cons]
  by_cases hy : y = x
  · subst hy
    have : (y == y) = true := by simp
    rw [this]
    simp only [List.mem_append, List.mem_singleton, or_true, if_true]
    rw [h.next, List.idxOf_append, if_neg hx]
    simp
  · have : (y == x) = false := by simp [hy]
    rw [this, h.look y]
    by_cases hm : y ∈ g.elts
    · simp [hm, List.idxOf_append]
    · simp [hm, hy]

/-! ### the `find` loop: more fuel changes nothing, and the loop condition is false at exit -/

theorem findLoop_stable {rk : Nat → Nat} : ∀ (fuel : Nat) (par : List Nat) (p : Nat), WF par rk →
    p < par.length → par.length ≤ fuel + rk p + numRoots par → ∀ k,
    findLoop par (fuel + k) p = findLoop par fuel p := by
  intro fuel
  induction fuel with
  | zero =>
    intro par p w hp hb k
    have hr : parent par p = p := by
      apply Classical.byContradiction
      intro hr
      have h1 := w.rkInc p hp hr
      have h2 := w.rkBound _ (w.inRange p hp)
      omega
    cases k with
    | zero => rfl
    | succ k => rw [Nat.zero_add, findLoop_succ_root k hr, findLoop_zero]
  | succ fuel ih =>
    intro par p w hp hb k
    have e : fuel + 1 + k = (fuel + k) + 1 := by omega
    rw [e]
    by_cases hr : parent par p = p
    · rw [findLoop_succ_root _ hr, findLoop_succ_root _ hr]
    · rw [findLoop_succ_step _ hr, findLoop_succ_step _ hr]
      have he := halve_equiv w hr
      have hw := halve_wf w hr
      have h1 := w.rkInc p hp hr
      have hq := w.inRange p hp
      exact ih _ (parent par p) hw (by rw [he.len]; exact hq) (by rw [he.len, he.numRoots]; omega) k

theorem findLoop_exit {rk : Nat → Nat} (par : List Nat) (p : Nat) (w : WF par rk) (hp : p < par.length) :
    parent (findLoop par par.length p).1 (findLoop par par.length p).2 = (findLoop par par.length p).2 := by
  obtain ⟨_, b, c⟩ := findLoop_spec (rk := rk) par.length par p w hp (by omega)
  exact (b.root_iff _).mpr c.isRoot

/-! ### `set(l)` of a duplicate-free list -/

theorem eraseDups_of_nodup : ∀ (l : List Nat), l.Nodup → l.eraseDups = l := by
  intro l
  induction l with
  | nil => intro _; simp
  | cons a l ih =>
    intro h
    rw [List.nodup_cons] at h
    rw [List.eraseDups_cons]
    have : l.filter (fun b => !b == a) = l := by
      rw [List.filter_eq_self]
      intro b hb
      have : b ≠ a := fun e => h.1 (e ▸ hb)
      simp [this]
    rw [this, ih h.2]

theorem setOf_of_nodup {l : List Nat} (h : l.Nodup) : setOf l = l := eraseDups_of_nodup l h

theorem mem_setOf (l : List Nat) (x : Nat) : x ∈ setOf l ↔ x ∈ l := List.mem_eraseDups

end Mouette.UFS
