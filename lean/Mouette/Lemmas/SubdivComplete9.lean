import Mouette.Lemmas.SubdivComplete8
/-
C13 (round 2): `split_tet_from_face_center` + `prepare()`: 2 + 3k faces and 3 + k edges more (k cells on the face), hence
V − E + F − C is preserved.
-/
namespace Mouette.Subdiv

theorem faceSplit_edges_count (m m' : Raw) (fid a b c : Nat) (hf : m.faces[fid]? = some [a, b, c])
    (h : splitTetFromFaceCenter m fid = .ok m') (hF : FacesAreCellFaces m) (hwf : WF m) (hE : EdgesCoverSides m)
    (hT : TetCells m) (hD : CellsDistinct m) (hn : [a, b, c].Nodup) :
    (completeEdges (completeFaces m')).edges.length = m.edges.length + 3 + (adjacentCells m [a, b, c]).length := by
  set ic := m.verts.length with hic
  obtain ⟨_, hinK, _, _, _⟩ := faceSplit_setup m m' fid a b c hf h hF hwf hT hn
  obtain ⟨_, _, _, _, _, _, hfa, hed⟩ := faceSplit_spec m m' fid a b c hf h
  obtain ⟨_, hNL⟩ := faceSplit_faces_count m m' fid a b c hf h hF hwf hT hD hn
  obtain ⟨hend, hesb, hcov⟩ := hE
  have hfm : [a, b, c] ∈ m.faces := List.mem_of_getElem? hf
  have la : a < ic := hwf _ hfm a (by simp)
  have lb : b < ic := hwf _ hfm b (by simp)
  have lc : c < ic := hwf _ hfm c (by simp)
  obtain ⟨nab, nbc, nca⟩ := nodup3 hn
  have hoppf : ∀ o ∈ opps m [a, b, c], o < ic ∧ o ≠ a ∧ o ≠ b ∧ o ≠ c := by
    intro o ho
    obtain ⟨cell, hcm, _, hopp⟩ := (mem_opps m _ hT hn rfl o).mp ho
    have := (hT cell hcm).2.2 o hopp.1
    have hnf := hopp.2.1
    simp only [List.mem_cons, List.not_mem_nil, or_false, not_or] at hnf
    exact ⟨this, hnf.1, hnf.2.1, hnf.2.2⟩
  have fsides : keyify a b ∈ m.edges ∧ keyify b c ∈ m.edges ∧ keyify c a ∈ m.edges := by
    refine ⟨?_, ?_, ?_⟩ <;>
      exact hcov _ (List.mem_flatMap.mpr ⟨[a, b, c], hfm, by simp [sidesKeyed_tri]⟩)
  set m2 := completeFaces m' with hm2
  have hm2e : m2.edges = m.edges := by rw [hm2, (completeFaces_other m').2.1, hed]
  let NE : List (Nat × Nat) := [(a, ic), (b, ic), (c, ic)] ++ (opps m [a, b, c]).map (fun o => (o, ic))
  have memNE : ∀ w, (w ∈ [a, b, c] ∨ w ∈ opps m [a, b, c]) → (w, ic) ∈ NE := by
    intro w hw
    simp only [NE, List.mem_append, List.mem_cons, Prod.mk.injEq, and_true, List.not_mem_nil, or_false, List.mem_map]
    rcases hw with hw | hw
    · left; simpa using hw
    · right; exact ⟨w, hw, rfl⟩
  have hcount := completeEdges_count m2 NE (by rw [hm2e]; intro e he; exact Nat.le_of_lt (hesb e he).1)
    (by rw [hm2e]; exact hend) ?_ ?_ ?_
  · rw [hcount, hm2e]
    simp only [NE, List.length_append, List.length_cons, List.length_nil, List.length_map]
    rw [opps_length m _ hT hn rfl]; omega
  · -- NE has no duplicates
    rw [List.nodup_append]
    refine ⟨?_, ?_, ?_⟩
    · simp only [List.nodup_cons, List.mem_cons, Prod.mk.injEq, and_true, List.not_mem_nil, or_false, not_or,
        List.nodup_nil, not_false_eq_true]
      exact ⟨⟨nab, fun e => nca e.symm⟩, nbc⟩
    · exact (opps_nodup m _ hT hD hn rfl).map (fun x y e => by simpa using e)
    · intro x hx y hy hxy
      subst hxy
      obtain ⟨o, ho, rfl⟩ := List.mem_map.mp hy
      obtain ⟨_, oa, ob, oc⟩ := hoppf o ho
      simp only [List.mem_cons, Prod.mk.injEq, and_true, List.not_mem_nil, or_false] at hx
      omega
  · intro k hk hke
    rw [hm2e] at hke
    have hb := (hesb k hke).2
    have : k.2 = ic := by
      simp only [NE, List.mem_append, List.mem_cons, List.not_mem_nil, or_false, List.mem_map] at hk
      rcases hk with (rfl | rfl | rfl) | ⟨o, _, rfl⟩ <;> rfl
    omega
  · intro k
    rw [hm2e]
    constructor
    · rintro (hk | hk)
      · exact Or.inl hk
      · obtain ⟨g, hg, hkg⟩ := List.mem_flatMap.mp hk
        rw [hm2, completeFaces_eq] at hg
        rcases completeFold_mem keyifyL _ _ g hg with h1 | ⟨h1, h2⟩
        · -- a face of the face list after the split
          simp only at h1
          rw [hfa] at h1
          rcases List.mem_append.mp h1 with h3 | h3
          · rcases List.mem_or_eq_of_mem_set h3 with h4 | rfl
            · exact Or.inl (hcov k (List.mem_flatMap.mpr ⟨g, h4, hkg⟩))
            · simp only [sidesKeyed_tri, List.mem_cons, List.not_mem_nil, or_false] at hkg
              rcases hkg with rfl | rfl | rfl
              · exact Or.inl fsides.1
              · right; rw [keyify_sorted lb]; exact memNE b (Or.inl (by simp))
              · right; rw [keyify_sorted' la]; exact memNE a (Or.inl (by simp))
          · simp only [List.mem_cons, List.not_mem_nil, or_false] at h3
            rcases h3 with rfl | rfl <;>
              simp only [sidesKeyed_tri, List.mem_cons, List.not_mem_nil, or_false] at hkg
            · rcases hkg with rfl | rfl | rfl
              · right; rw [keyify_sorted' lb]; exact memNE b (Or.inl (by simp))
              · exact Or.inl fsides.2.1
              · right; rw [keyify_sorted lc]; exact memNE c (Or.inl (by simp))
            · rcases hkg with rfl | rfl | rfl
              · right; rw [keyify_sorted la]; exact memNE a (Or.inl (by simp))
              · right; rw [keyify_sorted' lc]; exact memNE c (Or.inl (by simp))
              · exact Or.inl fsides.2.2
        · -- a completed face: it belongs to a sub-cell
          simp only at h2
          obtain ⟨cell', hc', hgc⟩ := List.mem_flatMap.mp h1
          rcases (faceSplit_cells m m' fid a b c hf h hT hn).1 cell' hc' with ⟨hcm, hnsub⟩ |
              ⟨cell, hcm, hsub, x, hx, h4', hcn', hdesc⟩
          · exfalso
            obtain ⟨h4, hc, _⟩ := hT cell' hcm
            refine h2 (hinK _ (hF.2 cell' hcm g hgc) (fun e => hnsub ?_))
            intro v hv
            exact (tetFaces_subset cell' g h4 hc hgc).1 (key_mem_of_eq e.symm v hv)
          · obtain ⟨h4, hc, hb⟩ := hT cell hcm
            obtain ⟨o, hopp⟩ := opp_exists [a, b, c] cell hc h4 hn rfl hsub
            have lo : o < ic := hb o hopp.1
            have hoo : o ∈ opps m [a, b, c] := (mem_opps m _ hT hn rfl o).mpr ⟨cell, hcm, hsub, hopp⟩
            have hmem := subcell_mem hsub hopp hdesc hx
            obtain ⟨hgsub, hgn, hgl⟩ := tetFaces_subset cell' g h4' hcn' hgc
            obtain ⟨x0, x1, x2, x3, rfl⟩ := len4 h4
            have pairClass : ∀ u w, u ∈ g → w ∈ g → u ≠ w → keyify u w ∈ m.edges ∨ keyify u w ∈ NE := by
              intro u w hu hw hne
              have cu := (hmem u).mp (hgsub hu)
              have cw := (hmem w).mp (hgsub hw)
              have inCell : ∀ v, (v = o ∨ (v ∈ [a, b, c] ∧ v ≠ x)) → v ∈ [x0, x1, x2, x3] := by
                rintro v (rfl | ⟨hv, _⟩)
                · exact hopp.1
                · exact hsub hv
              have small : ∀ v, (v = o ∨ (v ∈ [a, b, c] ∧ v ≠ x)) → v < ic ∧ (v ∈ [a, b, c] ∨ v ∈ opps m [a, b, c]) := by
                rintro v (rfl | ⟨hv, _⟩)
                · exact ⟨lo, Or.inr hoo⟩
                · refine ⟨?_, Or.inl hv⟩
                  simp only [List.mem_cons, List.not_mem_nil, or_false] at hv
                  rcases hv with rfl | rfl | rfl <;> assumption
              rcases cu with eu | cu
              · rcases cw with ew | cw
                · exact absurd (eu.trans ew.symm) hne
                · obtain ⟨lw, hw'⟩ := small w cw
                  right; rw [eu, keyify_sorted' (show w < m.verts.length from lw)]; exact memNE w hw'
              · rcases cw with ew | cw
                · obtain ⟨lu, hu'⟩ := small u cu
                  right; rw [ew, keyify_sorted (show u < m.verts.length from lu)]; exact memNE u hu'
                · left
                  exact cell_pair_edge m hF ⟨hend, hesb, hcov⟩ x0 x1 x2 x3 hcm hc u w (inCell u cu) (inCell w cw) hne
            obtain ⟨p, q, r, rfl⟩ : ∃ p q r, g = [p, q, r] := by
              rcases g with _ | ⟨p, _ | ⟨q, _ | ⟨r, _ | ⟨s, t⟩⟩⟩⟩ <;> simp at hgl
              exact ⟨p, q, r, rfl⟩
            obtain ⟨d1, d2, d3⟩ := nodup3 hgn
            simp only [sidesKeyed_tri, List.mem_cons, List.not_mem_nil, or_false] at hkg
            rcases hkg with rfl | rfl | rfl
            · exact pairClass p q (by simp) (by simp) d1
            · exact pairClass q r (by simp) (by simp) d2
            · exact pairClass r p (by simp) (by simp) d3
    · rintro (hk | hk)
      · exact Or.inl hk
      · right
        have keep : ∀ g ∈ m'.faces, g ∈ m2.faces := by
          intro g hg
          rw [hm2, completeFaces_eq]
          exact completeFold_keeps keyifyL _ _ g hg
        have n1 : [a, b, ic] ∈ m'.faces := by
          rw [hfa]
          have hi : fid < m.faces.length := by
            by_contra hc; rw [List.getElem?_eq_none (by omega)] at hf; cases hf
          exact List.mem_append_left _ (mem_set_self' _ _ _ hi)
        have n2 : [ic, b, c] ∈ m'.faces := by rw [hfa]; exact List.mem_append_right _ (by rw [hic]; simp)
        simp only [NE, List.mem_append, List.mem_cons, List.not_mem_nil, or_false, List.mem_map] at hk
        rcases hk with (rfl | rfl | rfl) | ⟨o, ho, rfl⟩
        · exact List.mem_flatMap.mpr ⟨_, keep _ n1, by simp [sidesKeyed_tri, keyify_sorted' la]⟩
        · exact List.mem_flatMap.mpr ⟨_, keep _ n1, by simp [sidesKeyed_tri, keyify_sorted lb]⟩
        · exact List.mem_flatMap.mpr ⟨_, keep _ n2, by simp [sidesKeyed_tri, keyify_sorted lc]⟩
        · obtain ⟨lo, oa, ob, oc⟩ := hoppf o ho
          have hkN : keyifyL [a, ic, o] ∈ newFaceKeys m a b c := by
            simp only [newFaceKeys, List.mem_flatMap]
            exact ⟨o, ho, by rw [hic]; simp⟩
          obtain ⟨g0, hg0, e0⟩ := List.mem_map.mp (hNL _ hkN)
          obtain ⟨g, hg, e⟩ := completeFaces_has_key m' g0 hg0
          refine List.mem_flatMap.mpr ⟨g, hg, ?_⟩
          refine (sides_of_same_key g a ic o (by omega) (by omega) (fun e => oa e) (e.trans e0) _).mpr ?_
          simp [sidesKeyed_tri, keyify_sorted' lo]

/-- V − E + F − C is preserved by `split_tet_from_face_center` + `prepare()` -/
theorem faceSplit_chi (m m' : Raw) (fid a b c : Nat) (hf : m.faces[fid]? = some [a, b, c])
    (h : splitTetFromFaceCenter m fid = .ok m') (hF : FacesAreCellFaces m) (hwf : WF m) (hE : EdgesCoverSides m)
    (hT : TetCells m) (hD : CellsDistinct m) (hn : [a, b, c].Nodup) :
    ((prepare m').verts.length = m.verts.length + 1 ∧
     (prepare m').edges.length = m.edges.length + 3 + (adjacentCells m [a, b, c]).length ∧
     (prepare m').faces.length = m.faces.length + 2 + 3 * (adjacentCells m [a, b, c]).length ∧
     (prepare m').cells.length = m.cells.length + 2 * (adjacentCells m [a, b, c]).length) ∧
    chiVol (prepare m') = chiVol m := by
  have he := faceSplit_edges_count m m' fid a b c hf h hF hwf hE hT hD hn
  obtain ⟨hfc, _⟩ := faceSplit_faces_count m m' fid a b c hf h hF hwf hT hD hn
  obtain ⟨ps, cells, _, hfold, hv, hce, _, _⟩ := faceSplit_spec m m' fid a b c hf h
  obtain ⟨hl, _⟩ := foldE_splitOneCell_length _ _ _ _ _ (fun x hx => (hT x hx).1) hfold
  have e1 : (prepare m').verts.length = m.verts.length + 1 := by
    show (completeEdges (completeFaces m')).verts.length = _
    have : (completeEdges (completeFaces m')).verts = m'.verts := rfl
    rw [this, hv]; simp
  have e2 : (prepare m').cells.length = m.cells.length + 2 * (adjacentCells m [a, b, c]).length := by
    show (completeEdges (completeFaces m')).cells.length = _
    have : (completeEdges (completeFaces m')).cells = m'.cells := rfl
    rw [this, hce, hl]
  have e3 : (prepare m').faces.length = m.faces.length + 2 + 3 * (adjacentCells m [a, b, c]).length := by
    show (completeEdges (completeFaces m')).faces.length = _
    have : (completeEdges (completeFaces m')).faces = (completeFaces m').faces := rfl
    rw [this, hfc]
  refine ⟨⟨e1, he, e3, e2⟩, ?_⟩
  unfold chiVol
  rw [e1, e2, e3, show (prepare m').edges.length = _ from he]
  push_cast; omega

/-- two tetrahedra glued along the face (1,2,3): witness for the non-vacuity examples -/
def twoTets : Raw :=
  prepare ⟨[(0, 0, 0), (1, 0, 0), (0, 1, 0), (0, 0, 1), (1, 1, 1)], [], [], [[0, 1, 2, 3], [1, 2, 3, 4]]⟩

end Mouette.Subdiv
