import Mouette.Generated.C01Acc
import Mouette.Model.Surface
/-! Bridges for the search loops (`in_face_index`, `common_edge`) and the cache reads TRANSLATED into `Generated/C01Acc.lean`. -/
namespace Mouette.Lemmas.C01Acc
open Mouette.Surface Mouette.SurfSource

/-- a `for x in l: if p x: return g x` loop returns `g` of the first element that satisfies `p` -/
theorem search_fold {α ρ} (p : α → Bool) (g : α → ρ) (l : List α) :
    l.foldl (fun (st : Option ρ) x => if st.isSome then st else if p x then some (g x) else none) none = (l.find? p).map g := by
  have hs : ∀ (l : List α) (r : ρ),
      l.foldl (fun (st : Option ρ) x => if st.isSome then st else if p x then some (g x) else none) (some r) = some r := by
    intro l r; induction l with
    | nil => rfl
    | cons x l ih => rw [List.foldl_cons]; simpa using ih
  induction l with
  | nil => rfl
  | cons x l ih =>
    rw [List.foldl_cons, List.find?_cons]
    cases hp : p x
    · simpa [hp] using ih
    · simp [hp, hs]

theorem find_zipIdx_findIdx (l : List Nat) (v k : Nat) :
    ((l.zipIdx k).find? fun p => p.1 == v).map (·.2) = (l.findIdx? (· == v)).map (· + k) := by
  induction l generalizing k with
  | nil => rfl
  | cons x l ih =>
    rw [List.zipIdx_cons, List.find?_cons, List.findIdx?_cons]
    cases hx : x == v
    · simp only [Bool.false_eq_true, if_false]
      rw [ih (k + 1)]
      cases l.findIdx? (· == v) <;> simp [Nat.add_comm, Nat.add_left_comm]
    · simp

theorem inFaceIndex_bridge (S : Surf) (a b : V2Cn) (f v : Nat) :
    Mouette.Generated.C01Acc.inFaceIndex S a b f v = Mouette.Surface.inFaceIndex S f v := by
  unfold Mouette.Generated.C01Acc.inFaceIndex Mouette.Surface.inFaceIndex
  have hstep : Mouette.Generated.C01Acc.inFaceIndex_for1_step S a b v =
      fun (st : Option (Option Nat)) (x : Nat × Nat) => if st.isSome then st else if (x.2 == v) then some (some x.1) else none := by
    funext st x
    obtain ⟨i, w⟩ := x
    simp only [Mouette.Generated.C01Acc.inFaceIndex_for1_step]
    rw [show (v == w) = (w == v) from BEq.comm]
  rw [hstep, search_fold (fun (x : Nat × Nat) => x.2 == v) (fun x => some x.1), List.find?_map]
  have := find_zipIdx_findIdx (faceOf S f) v 0
  simp only [Nat.add_zero, Option.map_id'] at this
  cases hfi : (faceOf S f).findIdx? (· == v) with
  | none =>
    rw [hfi] at this
    cases hz : (faceOf S f).zipIdx.find? ((fun (x : Nat × Nat) => x.2 == v) ∘ fun p => (p.2, p.1)) with
    | none => rfl
    | some e =>
      have h2 : (faceOf S f).zipIdx.find? (fun p => p.1 == v) = some e := hz
      rw [h2] at this; simp at this
  | some i =>
    rw [hfi] at this
    have h2 : ((faceOf S f).zipIdx.find? ((fun (x : Nat × Nat) => x.2 == v) ∘ fun p => (p.2, p.1))) =
        (faceOf S f).zipIdx.find? (fun p => p.1 == v) := rfl
    rw [h2]
    cases hz : (faceOf S f).zipIdx.find? (fun p => p.1 == v) with
    | none => rw [hz] at this; simp at this
    | some e => rw [hz] at this; simp at this; simp [this]

theorem commonEdge_bridge (S : Surf) (a b : V2Cn) (f1 f2 : Nat) :
    Mouette.Generated.C01Acc.commonEdge S a b f1 f2 = Mouette.Surface.commonEdge S f1 f2 := by
  unfold Mouette.Generated.C01Acc.commonEdge Mouette.Surface.commonEdge
  simp only []
  have hstep : Mouette.Generated.C01Acc.commonEdge_for1_step S a b f1 f2 (faceOf S f1) (faceOf S f1).length =
      fun (st : Option (Option (Nat × Nat))) (i : Nat) => if st.isSome then st else
        if (oppositeFace S ((faceOf S f1).getD i 0) ((faceOf S f1).getD ((i + 1) % (faceOf S f1).length) 0) f1 == some f2)
        then some (some (key2 ((faceOf S f1).getD i 0) ((faceOf S f1).getD ((i + 1) % (faceOf S f1).length) 0))) else none := by
    funext st i; rfl
  rw [hstep, search_fold]
  cases (List.range (faceOf S f1).length).find? _ <;> rfl

theorem faceToVertices_bridge (S : Surf) (a b : V2Cn) (f : Nat) :
    Mouette.Generated.C01Acc.faceToVertices S a b f = faceOf S f := rfl

theorem edgeToVertices_bridge (S : Surf) (a b : V2Cn) (e : Nat) :
    Mouette.Generated.C01Acc.edgeToVertices S a b e = Mouette.Surface.edgeToVertices S e := by
  unfold Mouette.Generated.C01Acc.edgeToVertices Mouette.Surface.edgeToVertices
  cases S.edges[e]? <;> rfl

/-- the two ring accessors read the tables `_sort_vertex_neighborhoods` leaves: when these hold the model's rings, so do they -/
theorem vertexToCorners_bridge (S : Surf) (a b : V2Cn) (ha : a = (List.range S.nv).map (Mouette.Surface.vertexToCorners S)) (v : Nat)
    (hv : v < S.nv) : Mouette.Generated.C01Acc.vertexToCorners S a b v = some (Mouette.Surface.vertexToCorners S v) := by
  unfold Mouette.Generated.C01Acc.vertexToCorners
  rw [ha]; simp [hv]

theorem vertexToVertices_bridge (S : Surf) (a b : V2Cn) (hb : b = (List.range S.nv).map (Mouette.Surface.vertexToVertices S)) (v : Nat)
    (hv : v < S.nv) : Mouette.Generated.C01Acc.vertexToVertices S a b v = some (Mouette.Surface.vertexToVertices S v) := by
  unfold Mouette.Generated.C01Acc.vertexToVertices
  rw [hb]; simp [hv]

end Mouette.Lemmas.C01Acc
