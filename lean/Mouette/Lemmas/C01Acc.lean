import Mouette.Generated.C01Acc
import Mouette.Model.Surface
import Mouette.Lemmas.C01HalfEdge
import Mouette.Lemmas.C01Source
import Mathlib.Tactic.Tauto
/-! Bridges for the search loops (`in_face_index`, `common_edge`) and the cache reads TRANSLATED into `Generated/C01Acc.lean`. -/
namespace Mouette.Lemmas.C01Acc
open Mouette.Surface Mouette.SurfSource

/-- a `for x in l: if p x: return g x` loop returns `g` of the first element that satisfies `p` -/
theorem search_fold {α ρ} (p : α → Bool) (g : α → ρ) (l : List α) :
    l.foldl (fun (st : Option ρ) x => if st.isSome then st else if p x then some (g x) else none) none = (l.find? p).map g := by
  have hs : ∀ (l : List α) (r : ρ),
      l.foldl (fun (st : Option ρ) x => if st.isSome then st else if p x then some (g x) else none) (some r) = some r := by
    intro l r; induction l with
    | nil => rfl
    | cons x l ih => rw [List.foldl_cons]; simpa using ih
  induction l with
  | nil => rfl
  | cons x l ih =>
    rw [List.foldl_cons, List.find?_cons]
    cases hp : p x
    · simpa [hp] using ih
    · simp [hp, hs]

theorem find_zipIdx_findIdx (l : List Nat) (v k : Nat) :
    ((l.zipIdx k).find? fun p => p.1 == v).map (·.2) = (l.findIdx? (· == v)).map (· + k) := by
  induction l generalizing k with
  | nil => rfl
  | cons x l ih =>
    rw [List.zipIdx_cons, List.find?_cons, List.findIdx?_cons]
    cases hx : x == v
    · simp only [Bool.false_eq_true, if_false]
      rw [ih (k + 1)]
      cases l.findIdx? (· == v) <;> simp [Nat.add_comm, Nat.add_left_comm]
    · simp

theorem inFaceIndex_bridge (S : Surf) (a b : V2Cn) (f v : Nat) :
    Mouette.Generated.C01Acc.inFaceIndex S a b f v = Mouette.Surface.inFaceIndex S f v := by
  unfold Mouette.Generated.C01Acc.inFaceIndex Mouette.Surface.inFaceIndex
  have hstep : Mouette.Generated.C01Acc.inFaceIndex_for1_step S a b v =
      fun (st : Option (Option Nat)) (x : Nat × Nat) => if st.isSome then st else if (x.2 == v) then some (some x.1) else none := by
    funext st x
    obtain ⟨i, w⟩ := x
    simp only [Mouette.Generated.C01Acc.inFaceIndex_for1_step]
    rw [show (v == w) = (w == v) from BEq.comm]
  rw [hstep, search_fold (fun (x : Nat × Nat) => x.2 == v) (fun x => some x.1), List.find?_map]
  have := find_zipIdx_findIdx (faceOf S f) v 0
  simp only [Nat.add_zero, Option.map_id'] at this
  cases hfi : (faceOf S f).findIdx? (· == v) with
  | none =>
    rw [hfi] at this
    cases hz : (faceOf S f).zipIdx.find? ((fun (x : Nat × Nat) => x.2 == v) ∘ fun p => (p.2, p.1)) with
    | none => rfl
    | some e =>
      have h2 : (faceOf S f).zipIdx.find? (fun p => p.1 == v) = some e := hz
      rw [h2] at this; simp at this
  | some i =>
    rw [hfi] at this
    have h2 : ((faceOf S f).zipIdx.find? ((fun (x : Nat × Nat) => x.2 == v) ∘ fun p => (p.2, p.1))) =
        (faceOf S f).zipIdx.find? (fun p => p.1 == v) := rfl
    rw [h2]
    cases hz : (faceOf S f).zipIdx.find? (fun p => p.1 == v) with
    | none => rw [hz] at this; simp at this
    | some e => rw [hz] at this; simp at this; simp [this]

theorem commonEdge_bridge (S : Surf) (a b : V2Cn) (f1 f2 : Nat) :
    Mouette.Generated.C01Acc.commonEdge S a b f1 f2 = Mouette.Surface.commonEdge S f1 f2 := by
  unfold Mouette.Generated.C01Acc.commonEdge Mouette.Surface.commonEdge
  simp only []
  have hstep : Mouette.Generated.C01Acc.commonEdge_for1_step S a b f1 f2 (faceOf S f1) (faceOf S f1).length =
      fun (st : Option (Option (Nat × Nat))) (i : Nat) => if st.isSome then st else
        if (oppositeFace S ((faceOf S f1).getD i 0) ((faceOf S f1).getD ((i + 1) % (faceOf S f1).length) 0) f1 == some f2)
        then some (some (key2 ((faceOf S f1).getD i 0) ((faceOf S f1).getD ((i + 1) % (faceOf S f1).length) 0))) else none := by
    funext st i; rfl
  rw [hstep, search_fold]
  cases (List.range (faceOf S f1).length).find? _ <;> rfl

theorem faceToVertices_bridge (S : Surf) (a b : V2Cn) (f : Nat) :
    Mouette.Generated.C01Acc.faceToVertices S a b f = faceOf S f := rfl

theorem edgeToVertices_bridge (S : Surf) (a b : V2Cn) (e : Nat) :
    Mouette.Generated.C01Acc.edgeToVertices S a b e = Mouette.Surface.edgeToVertices S e := by
  unfold Mouette.Generated.C01Acc.edgeToVertices Mouette.Surface.edgeToVertices
  cases S.edges[e]? <;> rfl

theorem cornerToFace_bridge (S : Surf) (a b : V2Cn) (c : Nat) :
    Mouette.Generated.C01Acc.cornerToFace S a b c = Mouette.Surface.cornerToFace S c := by
  unfold Mouette.Generated.C01Acc.cornerToFace Mouette.Surface.cornerToFace
  cases S.fc[c]? <;> rfl

/-- the two ring accessors read the tables `_sort_vertex_neighborhoods` leaves: when these hold the model's rings, so do they -/
theorem vertexToCorners_bridge (S : Surf) (a b : V2Cn) (ha : a = (List.range S.nv).map (Mouette.Surface.vertexToCorners S)) (v : Nat)
    (hv : v < S.nv) : Mouette.Generated.C01Acc.vertexToCorners S a b v = some (Mouette.Surface.vertexToCorners S v) := by
  unfold Mouette.Generated.C01Acc.vertexToCorners
  rw [ha]; simp [hv]

theorem vertexToVertices_bridge (S : Surf) (a b : V2Cn) (hb : b = (List.range S.nv).map (Mouette.Surface.vertexToVertices S)) (v : Nat)
    (hv : v < S.nv) : Mouette.Generated.C01Acc.vertexToVertices S a b v = some (Mouette.Surface.vertexToVertices S v) := by
  unfold Mouette.Generated.C01Acc.vertexToVertices
  rw [hb]; simp [hv]


/-! ### `_adjF2Cn` (first write wins) and the accessors reading it -/
open Mouette.Generated.C01HE

/-- the corner loop of `_compute_connectivity` on `_adjF2Cn`: a face already bound keeps its corner, a new face gets the first
corner that names it -/
theorem dictGet_cons (g c : Nat) (d : FDict) (f : Nat) :
    dictGet ((g, c) :: d) f = if (g == f) = true then some c else dictGet d f := by
  unfold dictGet
  rw [List.find?_cons]
  cases h : g == f <;> simp

theorem dictHas_eq (d : FDict) (g : Nat) : dictHas d g = (dictGet d g).isSome := by
  unfold dictHas dictGet
  rw [Option.isSome_map, Bool.eq_iff_iff, List.any_eq_true, List.find?_isSome]

theorem f2cn_fold (S : Surf) (l : List Nat) : ∀ (st : FDict × V2Cn × VFDict) (f : Nat),
    dictGet (l.foldl (computeConnectivity_for1_step S) st).1 f =
      (dictGet st.1 f).or (l.find? fun c => (S.fc.getD c (0, 0)).2 == f) := by
  induction l with
  | nil => intro st f; simp
  | cons c l ih =>
    intro st f
    rw [List.foldl_cons, ih]
    obtain ⟨d, t, vf⟩ := st
    have hstep : (computeConnectivity_for1_step S (d, t, vf) c).1 =
        if dictHas d (S.fc.getD c (0, 0)).2 then d else ((S.fc.getD c (0, 0)).2, c) :: d := by
      simp only [computeConnectivity_for1_step]
      cases dictHas d (S.fc.getD c (0, 0)).2 <;> rfl
    rw [hstep, List.find?_cons]
    generalize (S.fc.getD c (0, 0)).2 = g
    by_cases hd : dictHas d g = true
    · rw [if_pos hd]
      cases hgf : g == f
      · rfl
      · have : g = f := by simpa using hgf
        subst this
        rw [dictHas_eq] at hd
        obtain ⟨x, hx⟩ := Option.isSome_iff_exists.mp hd
        show (dictGet d g).or _ = (dictGet d g).or _
        rw [hx]; rfl
    · rw [if_neg hd, dictGet_cons]
      cases hgf : g == f
      · rfl
      · have : g = f := by simpa using hgf
        subst this
        have hn : dictGet d g = none := by
          rw [dictHas_eq] at hd
          cases h : dictGet d g with
          | none => rfl
          | some x => rw [h] at hd; simp at hd
        simp only [if_true]
        show (some c).or _ = (dictGet d g).or (some c)
        rw [hn]; rfl

theorem find?_congr'' {α} {l : List α} {p q : α → Bool} (h : ∀ x ∈ l, p x = q x) : l.find? p = l.find? q := by
  induction l with
  | nil => rfl
  | cons x l ih =>
    rw [List.find?_cons, List.find?_cons, h x (List.mem_cons_self ..), ih (fun y hy => h y (List.mem_cons_of_mem _ hy))]

theorem find_range_findIdx {α} (l : List α) (d : α) (p : α → Bool) (k : Nat) :
    (List.range' k l.length).find? (fun c => p ((l.getD (c - k) d))) = (l.findIdx? p).map (· + k) := by
  induction l generalizing k with
  | nil => rfl
  | cons x l ih =>
    simp only [List.length_cons, List.range'_succ, List.find?_cons, Nat.sub_self, List.getD_cons_zero, List.findIdx?_cons]
    cases hp : p x
    · simp only [Bool.false_eq_true, if_false]
      have hcongr : (List.range' (k + 1) l.length).find? (fun c => p ((x :: l).getD (c - k) d)) =
          (List.range' (k + 1) l.length).find? (fun c => p (l.getD (c - (k + 1)) d)) := by
        apply find?_congr''
        intro c hc
        have hck : k + 1 ≤ c := (List.mem_range'_1.mp hc).1
        have : c - k = (c - (k + 1)) + 1 := by omega
        rw [this, List.getD_cons_succ]
      rw [hcongr, ih (k + 1)]
      cases l.findIdx? p <;> simp [Nat.add_comm, Nat.add_left_comm]
    · simp

/-- **`_adjF2Cn`** after `_compute_connectivity`: a lookup gives the first corner of the face in the `face_corners` container -/
theorem computeConnectivity_f2cn (S : Surf) (f : Nat) :
    dictGet (computeConnectivity S).2.2.1 f = faceToFirstCorner S f := by
  have h := f2cn_fold S (List.range S.fc.length) ([], List.replicate S.nv [], []) f
  have hshape : (computeConnectivity S).2.2.1 =
      (List.foldl (computeConnectivity_for1_step S) ([], List.replicate S.nv [], []) (List.range S.fc.length)).1 := rfl
  rw [hshape, h]
  have hr := find_range_findIdx S.fc (0, 0) (fun e => e.2 == f) 0
  simp only [Nat.sub_zero, Nat.add_zero, Option.map_id'] at hr
  rw [List.range_eq_range']
  unfold faceToFirstCorner
  simp only [dictGet, List.find?_nil, Option.map_none, Option.none_or]
  exact hr

theorem faceToFirstCorner_bridge (S : Surf) (d : FDict) (hd : ∀ f, dictGet d f = Mouette.Surface.faceToFirstCorner S f) (f : Nat) :
    Mouette.Generated.C01Acc.faceToFirstCorner S d f = Mouette.Surface.faceToFirstCorner S f := by
  unfold Mouette.Generated.C01Acc.faceToFirstCorner
  rw [hd]; cases Mouette.Surface.faceToFirstCorner S f <;> rfl

theorem mapM_some' {α β} (g : α → β) (l : List α) : l.mapM (fun x => some (g x)) = some (l.map g) := by
  induction l with
  | nil => rfl
  | cons x l ih => rw [List.mapM_cons, ih]; rfl

theorem mapM_none' {α β} (l : List α) (hl : l ≠ []) : l.mapM (fun _ => (none : Option β)) = none := by
  cases l with
  | nil => exact absurd rfl hl
  | cons x l => rfl

/-- `face_to_corners` on a face that exists and is not empty (`[]` is returned, not a KeyError, for an empty face) -/
theorem faceToCorners_bridge (S : Surf) (d : FDict) (hd : ∀ f, dictGet d f = Mouette.Surface.faceToFirstCorner S f) (f : Nat)
    (hne : faceOf S f ≠ []) :
    Mouette.Generated.C01Acc.faceToCorners S d f = Mouette.Surface.faceToCorners S f := by
  unfold Mouette.Generated.C01Acc.faceToCorners Mouette.Surface.faceToCorners
  rw [hd]
  cases Mouette.Surface.faceToFirstCorner S f with
  | none =>
    have : List.range (faceOf S f).length ≠ [] := by
      intro h; apply hne; exact List.length_eq_zero_iff.mp (by simpa using congrArg List.length h)
    simp only [Option.map_none]
    rw [mapM_none' _ this]
  | some c0 =>
    simp only [Option.map_some]
    rw [mapM_some' (fun i => c0 + i)]

theorem faceToFaces_bridge (S : Surf) (d : FDict) (f : Nat) :
    Mouette.Generated.C01Acc.faceToFaces S d f = Mouette.Surface.faceToFaces S f := by
  unfold Mouette.Generated.C01Acc.faceToFaces Mouette.Surface.faceToFaces
  cases Mouette.Surface.faceToCorners S f with
  | none => rfl
  | some cs =>
    simp only [Option.map_some]
    rw [List.filterMap_map]
    rfl


/-! ### `PolyLine._Connectivity._compute_connectivity` (the neighbour sets `_adjV2V`) -/
open Mouette.Generated.C01Acc Mouette.Lemmas.C01Source

theorem v2cnGet_set (t : V2Cn) (i v : Nat) (l : List Nat) :
    v2cnGet (t.set i l) v = if i = v ∧ i < t.length then l else v2cnGet t v := by
  unfold v2cnGet
  rw [List.getD_eq_getElem?_getD, List.getD_eq_getElem?_getD, List.getElem?_set]
  by_cases h : i = v
  · subst h
    by_cases hl : i < t.length
    · simp [hl]
    · have : t[i]? = none := List.getElem?_eq_none (by omega)
      simp [hl, this]
  · simp [h]

theorem v2cnGet_add (t : V2Cn) (a c v : Nat) :
    v2cnGet (v2cnAdd t a c) v = if a = v ∧ a < t.length then setAdd (v2cnGet t v) c else v2cnGet t v := by
  unfold v2cnAdd
  rw [v2cnGet_set]
  by_cases h : a = v ∧ a < t.length
  · obtain ⟨rfl, _⟩ := h; simp [*, v2cnGet]
  · simp [h]

theorem length_v2cnAdd (t : V2Cn) (a c : Nat) : (v2cnAdd t a c).length = t.length := by simp [v2cnAdd]

/-- `w` is joined to `v` by one of the edges of `l` -/
def Joined (l : List (Nat × Nat)) (v w : Nat) : Prop := ∃ e ∈ l, (e.1 = v ∧ e.2 = w) ∨ (e.2 = v ∧ e.1 = w)

theorem add2_spec (t : V2Cn) (a b : Nat) (ha : a < t.length) (hb : b < t.length) :
    (v2cnAdd (v2cnAdd t a b) b a).length = t.length ∧
    ∀ v, (∀ w, w ∈ v2cnGet (v2cnAdd (v2cnAdd t a b) b a) v ↔ w ∈ v2cnGet t v ∨ ((a = v ∧ b = w) ∨ (b = v ∧ a = w))) ∧
      ((v2cnGet t v).Nodup → (v2cnGet (v2cnAdd (v2cnAdd t a b) b a) v).Nodup) := by
  refine ⟨by rw [length_v2cnAdd, length_v2cnAdd], fun v => ?_⟩
  have hget : v2cnGet (v2cnAdd (v2cnAdd t a b) b a) v =
      (if b = v then setAdd (if a = v then setAdd (v2cnGet t v) b else v2cnGet t v) a
       else (if a = v then setAdd (v2cnGet t v) b else v2cnGet t v)) := by
    rw [v2cnGet_add, v2cnGet_add, length_v2cnAdd]
    simp only [ha, hb, and_true]
  rw [hget]
  refine ⟨fun w => ?_, fun hnd => ?_⟩
  · by_cases hb' : b = v <;> by_cases ha' : a = v <;> simp only [hb', ha', if_true, if_false, mem_setAdd] <;>
      constructor <;> intro h <;> simp_all <;> tauto
  · by_cases hb' : b = v <;> by_cases ha' : a = v <;> simp only [hb', ha', if_true, if_false] <;>
      first | exact hnd | exact nodup_setAdd _ _ hnd | exact nodup_setAdd _ _ (nodup_setAdd _ _ hnd)

theorem poly_fold (S : Surf) (l : List (Nat × Nat)) : ∀ (t : V2Cn), (∀ e ∈ l, e.1 < t.length ∧ e.2 < t.length) →
    (l.foldl (polyComputeConnectivity_for1_step S) t).length = t.length ∧
    ∀ v, v < t.length →
      (∀ w, w ∈ v2cnGet (l.foldl (polyComputeConnectivity_for1_step S) t) v ↔ w ∈ v2cnGet t v ∨ Joined l v w) ∧
      ((v2cnGet t v).Nodup → (v2cnGet (l.foldl (polyComputeConnectivity_for1_step S) t) v).Nodup) := by
  induction l with
  | nil => intro t _; exact ⟨rfl, fun v _ => ⟨fun w => by simp [Joined], id⟩⟩
  | cons e l ih =>
    intro t hr
    obtain ⟨a, b⟩ := e
    have hab := hr (a, b) (List.mem_cons_self ..)
    rw [List.foldl_cons]
    -- the two `.add` calls, in either order
    have hstep : ∃ t', polyComputeConnectivity_for1_step S t (a, b) = t' ∧ t'.length = t.length ∧
        ∀ v, (∀ w, w ∈ v2cnGet t' v ↔ w ∈ v2cnGet t v ∨ ((a = v ∧ b = w) ∨ (b = v ∧ a = w))) ∧
          ((v2cnGet t v).Nodup → (v2cnGet t' v).Nodup) := by
      first
        | exact ⟨v2cnAdd (v2cnAdd t a b) b a, rfl, add2_spec t a b hab.1 hab.2⟩
        | (obtain ⟨h1, h2⟩ := add2_spec t b a hab.2 hab.1
           exact ⟨v2cnAdd (v2cnAdd t b a) a b, rfl, h1, fun v => ⟨fun w => by rw [(h2 v).1 w, or_comm (a := b = v ∧ a = w)], (h2 v).2⟩⟩)
    obtain ⟨t', ht', hlen, hspec⟩ := hstep
    rw [ht']
    obtain ⟨h1, h2⟩ := ih t' (fun e he => by rw [hlen]; exact hr e (List.mem_cons_of_mem _ he))
    refine ⟨h1.trans hlen, fun v hv => ?_⟩
    obtain ⟨hm, hn⟩ := h2 v (by rw [hlen]; exact hv)
    refine ⟨fun w => ?_, fun hnd => hn ((hspec v).2 hnd)⟩
    rw [hm, (hspec v).1 w]
    have hJ : Joined ((a, b) :: l) v w ↔ ((a = v ∧ b = w) ∨ (b = v ∧ a = w)) ∨ Joined l v w := by
      unfold Joined; simp only [List.mem_cons, exists_eq_or_imp]
    rw [hJ, or_assoc]

theorem poly_fold2 (S : Surf) (l : List Nat) : ∀ (t : V2Cn) (v : Nat),
    v2cnGet (l.foldl (polyComputeConnectivity_for2_step S) t) v = v2cnGet t v := by
  induction l with
  | nil => intro t v; rfl
  | cons u l ih =>
    intro t v
    rw [List.foldl_cons, ih]
    show v2cnGet (v2cnSet t u (v2cnGet t u)) v = _
    unfold v2cnSet
    rw [v2cnGet_set]
    by_cases h : u = v ∧ u < t.length
    · obtain ⟨rfl, _⟩ := h; simp [*]
    · simp [h]

theorem mem_neighbours (S : Surf) (v w : Nat) : w ∈ neighbours S v ↔ Joined S.edges v w := by
  unfold neighbours sortNat Joined
  rw [(List.mergeSort_perm _ _).mem_iff, List.mem_filterMap]
  constructor
  · rintro ⟨⟨a, b⟩, he, h⟩
    refine ⟨(a, b), he, ?_⟩
    by_cases ha : a = v
    · subst ha; simp at h; exact Or.inl ⟨rfl, h⟩
    · have ha' : (a == v) = false := by simpa using ha
      simp only [ha', Bool.false_eq_true, if_false] at h
      by_cases hb : b = v
      · subst hb; simp at h; exact Or.inr ⟨rfl, h⟩
      · have hb' : (b == v) = false := by simpa using hb
        simp [hb'] at h
  · rintro ⟨⟨a, b⟩, he, h⟩
    refine ⟨(a, b), he, ?_⟩
    rcases h with ⟨h1, h2⟩ | ⟨h1, h2⟩
    · simp only at h1 h2; subst h1; subst h2; simp
    · simp only at h1 h2; subst h1; subst h2
      by_cases ha : a = b
      · subst ha; simp
      · have ha' : (a == b) = false := by simpa using ha
        simp [ha']

/-- **bridge** `PolyLine._Connectivity._compute_connectivity`: for every vertex id, the set it builds has exactly the elements of
the model's `neighbours`, each once (the iteration order of a Python set is not modelled) -/
theorem polyComputeConnectivity_bridge (S : Surf) (hR : ∀ e ∈ S.edges, e.1 < S.nv ∧ e.2 < S.nv) (v : Nat) (hv : v < S.nv) :
    (∀ w, w ∈ v2cnGet (polyComputeConnectivity S) v ↔ w ∈ neighbours S v) ∧ (v2cnGet (polyComputeConnectivity S) v).Nodup := by
  have h0 : (List.replicate S.nv ([] : List Nat)).length = S.nv := List.length_replicate
  obtain ⟨_, h2⟩ := poly_fold S S.edges (List.replicate S.nv []) (fun e he => by rw [h0]; exact hR e he)
  obtain ⟨hm, hn⟩ := h2 v (by rw [h0]; exact hv)
  have hempty : v2cnGet (List.replicate S.nv ([] : List Nat)) v = [] := by
    simp [v2cnGet, List.getD_eq_getElem?_getD, List.getElem?_replicate, hv]
  have hshape : v2cnGet (polyComputeConnectivity S) v =
      v2cnGet (List.foldl (polyComputeConnectivity_for1_step S) (List.replicate S.nv []) S.edges) v := by
    show v2cnGet (List.foldl (polyComputeConnectivity_for2_step S) _ (List.range S.nv)) v = _
    rw [poly_fold2]
  rw [hshape]
  refine ⟨fun w => ?_, hn (by rw [hempty]; exact List.nodup_nil)⟩
  rw [hm, hempty, mem_neighbours]
  simp

end Mouette.Lemmas.C01Acc
