import Mouette.Lemmas.EQ
/-
Box algebra over `EQ` lists (any dimension): clamp projection, distances, union, intersection, `do_intersect`,
`of_points`.
-/
namespace Mouette.AABB
open EQ

namespace Box

/-- componentwise `≤` on bound vectors of the same length -/
abbrev AllLe (a b : List EQ) : Prop := List.Forall₂ (fun x y => x ≤ y) a b

/-- `p - r` for a point `p` and a (possibly infinite) vector `r` -/
def diffVec : List Rat → List EQ → List EQ
  | q :: qs, r :: rs => EQ.rsub q r :: diffVec qs rs
  | _, _ => []

/-! ### one coordinate -/

theorem abs_fin (x : Rat) : (fin x).abs = fin (if x < 0 then -x else x) := rfl

theorem abs_abs (x : EQ) : x.abs.abs = x.abs := by
  cases x <;> simp only [EQ.abs]
  congr 1; split_ifs <;> linarith

theorem sq_abs (x : EQ) : x.abs.sq = x.sq := by
  cases x <;> simp only [EQ.abs, EQ.sq]
  congr 1; split_ifs <;> ring

theorem clamp_in {l h : EQ} (q : Rat) (hv : l ≤ h) : l ≤ EQ.max l (EQ.min h (fin q)) ∧ EQ.max l (EQ.min h (fin q)) ≤ h :=
  ⟨le_max_left' _ _, max_le_iff.mpr ⟨hv, min_le_left' _ _⟩⟩

theorem clamp_of_inside {l h : EQ} {q : Rat} (h1 : l ≤ fin q) (h2 : fin q ≤ h) : EQ.max l (EQ.min h (fin q)) = fin q := by
  have hm : EQ.min h (fin q) = fin q := by
    unfold EQ.min; split
    · rename_i hh; exact le_antisymm' hh h2
    · rfl
  rw [hm]; unfold EQ.max; split
  · rfl
  · rename_i hh; exact absurd h1 hh

@[simp] theorem min_fin_fin (x y : Rat) : EQ.min (fin x) (fin y) = fin (rmin x y) := by
  unfold EQ.min rmin; by_cases h : x ≤ y <;> simp [leB, h]
@[simp] theorem min_pinf_left (a : Rat) : EQ.min pinf (fin a) = fin a := by simp [EQ.min, leB]
@[simp] theorem min_ninf_left (a : EQ) : EQ.min ninf a = ninf := by simp [EQ.min, leB]
@[simp] theorem max_pinf_fin (x : Rat) : EQ.max pinf (fin x) = pinf := by simp [EQ.max, leB]

/-- `|q - clamp(q)|` is the excess of `q` over `[l,h]` (valid interval `l ≤ h`) -/
theorem abs_diff_clamp {l h : EQ} (q : Rat) (hv : l ≤ h) :
    (EQ.rsub q (EQ.max l (EQ.min h (fin q)))).abs = excess l h q := by
  cases l <;> cases h
  all_goals first
    | (simp [leB] at hv; done)
    | skip
  · simp [EQ.rsub, EQ.abs, excess, EQ.subR]
  · rename_i y
    rw [excess_ninf_fin, min_fin_fin, max_ninf_left]
    simp only [EQ.rsub, abs_fin]
    congr 1; unfold rmin rmax; split_ifs <;> linarith
  · rw [excess_ninf_pinf, min_pinf_left, max_ninf_left]
    simp only [EQ.rsub, abs_fin]
    congr 1; split_ifs <;> linarith
  · rename_i x y
    have hxy : x ≤ y := fin_le_fin.mp hv
    rw [excess_fin_fin, min_fin_fin, max_fin_fin]
    simp only [EQ.rsub, abs_fin]
    congr 1; unfold rmin rmax; split_ifs <;> linarith
  · rename_i x
    rw [excess_fin_pinf, min_pinf_left, max_fin_fin]
    simp only [EQ.rsub, abs_fin]
    congr 1; unfold rmax; split_ifs <;> linarith
  · simp [EQ.rsub, EQ.abs, excess, EQ.subR, EQ.max, leB]

theorem excess_nonneg_abs (l h : EQ) (q : Rat) : (excess l h q).abs = excess l h q := by
  unfold excess
  rcases max_cases (EQ.max (l.subR q) (EQ.rsub q h)) (fin 0) with hm | hm
  · -- the max is the left operand, which is then ≥ 0
    have h0 : fin 0 ≤ EQ.max (l.subR q) (EQ.rsub q h) := by
      have := le_max_right' (EQ.max (l.subR q) (EQ.rsub q h)) (fin 0); rwa [hm] at this
    rw [hm]
    generalize EQ.max (l.subR q) (EQ.rsub q h) = m at h0
    cases m
    · simp [leB] at h0
    · rename_i x
      have : (0 : Rat) ≤ x := fin_le_fin.mp h0
      simp only [EQ.abs]; split
      · exfalso; linarith
      · rfl
    · rfl
  · rw [hm]; simp [EQ.abs]


theorem le_of_lt' {a b : EQ} (h : a < b) : a ≤ b := by
  rcases le_total' a b with h' | h'
  · exact h'
  · exact absurd h' (EQ.not_le'.mpr h)

/-! ### vectors -/

theorem clampVec_in : ∀ {lo hi : List EQ} {p : List Rat}, AllLe lo hi → p.length = lo.length →
    AllLe lo (clampVec lo hi p) ∧ AllLe (clampVec lo hi p) hi
  | [], [], p, _, hp => by
    cases p with
    | nil => simp [clampVec]
    | cons a as => simp at hp
  | l :: ls, h :: hs, [], _, hp => by simp at hp
  | l :: ls, h :: hs, q :: qs, hv, hp => by
    replace hv := List.forall₂_cons.mp hv
    have ih := clampVec_in (lo := ls) (hi := hs) (p := qs) hv.2 (by simpa using hp)
    have hc := clamp_in q hv.1
    simp only [clampVec]
    exact ⟨List.Forall₂.cons hc.1 ih.1, List.Forall₂.cons hc.2 ih.2⟩

theorem map_fin_eq_clamp : ∀ {lo hi : List EQ} {p : List Rat}, p.length = lo.length → lo.length = hi.length →
    insideClosed lo hi p = true → p.map fin = clampVec lo hi p
  | [], [], [], _, _, _ => by simp [clampVec]
  | [], [], q :: qs, hp, _, _ => by simp at hp
  | [], h :: hs, _, _, hl, _ => by simp at hl
  | l :: ls, [], _, _, hl, _ => by simp at hl
  | l :: ls, h :: hs, [], hp, _, _ => by simp at hp
  | l :: ls, h :: hs, q :: qs, hp, hl, hin => by
    simp only [insideClosed, Bool.and_eq_true, decide_eq_true_eq] at hin
    simp only [List.map_cons, clampVec]
    rw [clamp_of_inside hin.1.1 hin.1.2, map_fin_eq_clamp (by simpa using hp) (by simpa using hl) hin.2]

/-- half-open membership implies closed membership -/
theorem insideClosed_of_contains : ∀ {lo hi : List EQ} {p : List Rat}, p.length = lo.length → lo.length = hi.length →
    containsAux lo hi p = true → insideClosed lo hi p = true
  | [], [], [], _, _, _ => by simp [insideClosed]
  | [], [], q :: qs, hp, _, _ => by simp at hp
  | [], h :: hs, _, _, hl, _ => by simp at hl
  | l :: ls, [], _, _, hl, _ => by simp at hl
  | l :: ls, h :: hs, [], hp, _, _ => by simp at hp
  | l :: ls, h :: hs, q :: qs, hp, hl, hc => by
    simp only [containsAux, Bool.and_eq_true, decide_eq_true_eq] at hc
    simp only [insideClosed, Bool.and_eq_true, decide_eq_true_eq]
    exact ⟨⟨hc.1.1, le_of_lt' hc.1.2⟩, insideClosed_of_contains (by simpa using hp) (by simpa using hl) hc.2⟩

theorem project_eq_clamp {b : Box} {p : List Rat} (hp : p.length = b.dim) (hl : b.lo.length = b.hi.length) :
    b.project p = some (clampVec b.lo b.hi p) := by
  unfold project
  rw [if_pos hp]
  split
  · rename_i hc
    rw [map_fin_eq_clamp hp hl (insideClosed_of_contains hp hl hc)]
  · rfl

theorem normL1_diff_clamp : ∀ {lo hi : List EQ} {p : List Rat}, AllLe lo hi →
    normL1 (diffVec p (clampVec lo hi p)) = normL1 (distVec lo hi p)
  | [], [], p, _ => by cases p <;> simp [clampVec, distVec, diffVec]
  | l :: ls, h :: hs, [], _ => by simp [clampVec, distVec, diffVec]
  | l :: ls, h :: hs, q :: qs, hv => by
    replace hv := List.forall₂_cons.mp hv
    simp only [clampVec, distVec, diffVec, normL1]
    rw [abs_diff_clamp q hv.1, excess_nonneg_abs, normL1_diff_clamp hv.2]

theorem normLinf_diff_clamp : ∀ {lo hi : List EQ} {p : List Rat}, AllLe lo hi →
    normLinf (diffVec p (clampVec lo hi p)) = normLinf (distVec lo hi p)
  | [], [], p, _ => by cases p <;> simp [clampVec, distVec, diffVec]
  | l :: ls, h :: hs, [], _ => by simp [clampVec, distVec, diffVec]
  | l :: ls, h :: hs, q :: qs, hv => by
    replace hv := List.forall₂_cons.mp hv
    simp only [clampVec, distVec, diffVec, normLinf]
    rw [abs_diff_clamp q hv.1, excess_nonneg_abs, normLinf_diff_clamp hv.2]

theorem normL2sq_diff_clamp : ∀ {lo hi : List EQ} {p : List Rat}, AllLe lo hi →
    normL2sq (diffVec p (clampVec lo hi p)) = normL2sq (distVec lo hi p)
  | [], [], p, _ => by cases p <;> simp [clampVec, distVec, diffVec]
  | l :: ls, h :: hs, [], _ => by simp [clampVec, distVec, diffVec]
  | l :: ls, h :: hs, q :: qs, hv => by
    replace hv := List.forall₂_cons.mp hv
    simp only [clampVec, distVec, diffVec, normL2sq]
    rw [← sq_abs, abs_diff_clamp q hv.1, normL2sq_diff_clamp hv.2]

theorem excess_zero_of_inside {l h : EQ} {q : Rat} (h1 : l ≤ fin q) (h2 : fin q ≤ h) : excess l h q = fin 0 := by
  rw [← abs_diff_clamp q (le_trans' h1 h2), clamp_of_inside h1 h2]
  simp [EQ.rsub, EQ.abs]

theorem norms_zero_of_inside : ∀ {lo hi : List EQ} {p : List Rat}, insideClosed lo hi p = true →
    normL1 (distVec lo hi p) = fin 0 ∧ normLinf (distVec lo hi p) = fin 0 ∧ normL2sq (distVec lo hi p) = fin 0
  | [], hi, p, h => by
    cases hi <;> cases p <;> simp [insideClosed] at h
    simp [distVec, normL1, normLinf, normL2sq]
  | l :: ls, [], p, h => by simp [insideClosed] at h
  | l :: ls, h' :: hs, [], h => by simp [insideClosed] at h
  | l :: ls, h' :: hs, q :: qs, h => by
    simp only [insideClosed, Bool.and_eq_true, decide_eq_true_eq] at h
    have ih := norms_zero_of_inside h.2
    simp only [distVec, normL1, normLinf, normL2sq, excess_zero_of_inside h.1.1 h.1.2, ih.1, ih.2.1, ih.2.2]
    simp [EQ.abs, EQ.add, EQ.sq, EQ.max, leB]

/-! ### union, intersection, do_intersect -/

theorem zipWith_min_le : ∀ {a b : List EQ}, a.length = b.length →
    AllLe (List.zipWith EQ.min a b) a ∧ AllLe (List.zipWith EQ.min a b) b
  | [], [], _ => by simp
  | [], y :: ys, h => by simp at h
  | x :: xs, [], h => by simp at h
  | x :: xs, y :: ys, h => by
    have ih := zipWith_min_le (a := xs) (b := ys) (by simpa using h)
    simp only [List.zipWith_cons_cons]
    exact ⟨List.Forall₂.cons (min_le_left' _ _) ih.1, List.Forall₂.cons (min_le_right' _ _) ih.2⟩

theorem le_zipWith_max : ∀ {a b : List EQ}, a.length = b.length →
    AllLe a (List.zipWith EQ.max a b) ∧ AllLe b (List.zipWith EQ.max a b)
  | [], [], _ => by simp
  | [], y :: ys, h => by simp at h
  | x :: xs, [], h => by simp at h
  | x :: xs, y :: ys, h => by
    have ih := le_zipWith_max (a := xs) (b := ys) (by simpa using h)
    simp only [List.zipWith_cons_cons]
    exact ⟨List.Forall₂.cons (le_max_left' _ _) ih.1, List.Forall₂.cons (le_max_right' _ _) ih.2⟩

/-- a point is in the componentwise overlap iff it is in both boxes (closed boxes of equal dimension) -/
theorem inside_inter : ∀ {alo ahi blo bhi : List EQ} {p : List Rat},
    alo.length = blo.length → ahi.length = bhi.length →
    (insideClosed (List.zipWith EQ.max alo blo) (List.zipWith EQ.min ahi bhi) p = true ↔
      insideClosed alo ahi p = true ∧ insideClosed blo bhi p = true)
  | [], ahi, [], bhi, p, _, h2 => by
    cases ahi <;> cases bhi <;> cases p <;> simp_all [insideClosed]
  | [], _, y :: ys, _, _, h1, _ => by simp at h1
  | x :: xs, _, [], _, _, h1, _ => by simp at h1
  | al :: als, [], bl :: bls, [], p, _, _ => by simp [insideClosed]
  | al :: als, [], bl :: bls, y :: ys, p, _, h2 => by simp at h2
  | al :: als, x :: xs, bl :: bls, [], p, _, h2 => by simp at h2
  | al :: als, ah :: ahs, bl :: bls, bh :: bhs, [], _, _ => by simp [insideClosed]
  | al :: als, ah :: ahs, bl :: bls, bh :: bhs, q :: qs, h1, h2 => by
    have ih := inside_inter (alo := als) (ahi := ahs) (blo := bls) (bhi := bhs) (p := qs) (by simpa using h1) (by simpa using h2)
    simp only [List.zipWith_cons_cons, insideClosed, Bool.and_eq_true, decide_eq_true_eq, ih]
    rw [max_le_iff, le_min_iff]
    tauto

/-- for valid boxes (`lo ≤ hi`), `do_intersect` ⇔ the overlap `[max lo, min hi]` has non-negative extent everywhere -/
theorem overlapAll_iff : ∀ {alo ahi blo bhi : List EQ}, AllLe alo ahi → AllLe blo bhi → alo.length = blo.length →
    (overlapAll alo ahi blo bhi = true ↔ AllLe (List.zipWith EQ.max alo blo) (List.zipWith EQ.min ahi bhi))
  | [], [], [], [], _, _, _ => by simp [overlapAll]
  | [], [], y :: ys, _, _, _, h => by simp at h
  | x :: xs, _, [], _, _, _, h => by simp at h
  | al :: als, ah :: ahs, bl :: bls, bh :: bhs, ha, hb, hl => by
    replace ha := List.forall₂_cons.mp ha
    replace hb := List.forall₂_cons.mp hb
    have ih := overlapAll_iff ha.2 hb.2 (by simpa using hl)
    simp only [overlapAll, overlap1, Bool.and_eq_true, decide_eq_true_eq, List.zipWith_cons_cons, List.forall₂_cons, ih]
    rw [max_le_iff, le_min_iff, le_min_iff]
    have h1 := ha.1; have h2 := hb.1
    tauto


/-! ### of_points -/

abbrev RLe (a b : List Rat) : Prop := List.Forall₂ (fun x y => x ≤ y) a b

theorem rle_refl : ∀ (a : List Rat), RLe a a
  | [] => List.Forall₂.nil
  | x :: xs => List.Forall₂.cons (le_refl x) (rle_refl xs)

theorem rle_trans : ∀ {a b c : List Rat}, RLe a b → RLe b c → RLe a c
  | [], [], [], _, _ => List.Forall₂.nil
  | x :: xs, y :: ys, z :: zs, h1, h2 => by
    have h1' := List.forall₂_cons.mp h1
    have h2' := List.forall₂_cons.mp h2
    exact List.Forall₂.cons (le_trans h1'.1 h2'.1) (rle_trans h1'.2 h2'.2)

theorem rmin_le_left (x y : Rat) : rmin x y ≤ x := by unfold rmin; split_ifs <;> linarith
theorem rmin_le_right (x y : Rat) : rmin x y ≤ y := by unfold rmin; split_ifs <;> linarith
theorem le_rmax_left (x y : Rat) : x ≤ rmax x y := by unfold rmax; split_ifs <;> linarith
theorem le_rmax_right (x y : Rat) : y ≤ rmax x y := by unfold rmax; split_ifs <;> linarith
theorem rmin_cases (x y : Rat) : rmin x y = x ∨ rmin x y = y := by unfold rmin; split_ifs <;> simp
theorem rmax_cases (x y : Rat) : rmax x y = x ∨ rmax x y = y := by unfold rmax; split_ifs <;> simp

theorem zipWith_rmin_le : ∀ {a b : List Rat}, a.length = b.length →
    RLe (List.zipWith rmin a b) a ∧ RLe (List.zipWith rmin a b) b
  | [], [], _ => by simp
  | [], y :: ys, h => by simp at h
  | x :: xs, [], h => by simp at h
  | x :: xs, y :: ys, h => by
    have ih := zipWith_rmin_le (a := xs) (b := ys) (by simpa using h)
    simp only [List.zipWith_cons_cons]
    exact ⟨List.Forall₂.cons (rmin_le_left _ _) ih.1, List.Forall₂.cons (rmin_le_right _ _) ih.2⟩

theorem le_zipWith_rmax : ∀ {a b : List Rat}, a.length = b.length →
    RLe a (List.zipWith rmax a b) ∧ RLe b (List.zipWith rmax a b)
  | [], [], _ => by simp
  | [], y :: ys, h => by simp at h
  | x :: xs, [], h => by simp at h
  | x :: xs, y :: ys, h => by
    have ih := le_zipWith_rmax (a := xs) (b := ys) (by simpa using h)
    simp only [List.zipWith_cons_cons]
    exact ⟨List.Forall₂.cons (le_rmax_left _ _) ih.1, List.Forall₂.cons (le_rmax_right _ _) ih.2⟩

theorem length_colFold (f : Rat → Rat → Rat) : ∀ (ps : List (List Rat)) (acc : List Rat),
    (∀ p ∈ ps, p.length = acc.length) → (colFold f acc ps).length = acc.length
  | [], acc, _ => rfl
  | p :: ps, acc, h => by
    have hp : p.length = acc.length := h p (List.mem_cons_self ..)
    have hz : (List.zipWith f acc p).length = acc.length := by simp [hp]
    simp only [colFold]
    rw [length_colFold f ps _ (fun q hq => by rw [hz]; exact h q (List.mem_cons_of_mem _ hq)), hz]

/-- the column-wise minimum is below the start vector and below every point -/
theorem colFold_rmin_le : ∀ (ps : List (List Rat)) (acc : List Rat), (∀ p ∈ ps, p.length = acc.length) →
    RLe (colFold rmin acc ps) acc ∧ ∀ p ∈ ps, RLe (colFold rmin acc ps) p
  | [], acc, _ => ⟨rle_refl _, by simp⟩
  | p :: ps, acc, h => by
    have hp : p.length = acc.length := h p (List.mem_cons_self ..)
    have hz : (List.zipWith rmin acc p).length = acc.length := by simp [hp]
    have ih := colFold_rmin_le ps (List.zipWith rmin acc p)
      (fun q hq => by rw [hz]; exact h q (List.mem_cons_of_mem _ hq))
    have hz' := zipWith_rmin_le (a := acc) (b := p) hp.symm
    simp only [colFold]
    refine ⟨rle_trans ih.1 hz'.1, ?_⟩
    intro q hq
    rcases List.mem_cons.mp hq with rfl | hq
    · exact rle_trans ih.1 hz'.2
    · exact ih.2 q hq

theorem colFold_rmax_ge : ∀ (ps : List (List Rat)) (acc : List Rat), (∀ p ∈ ps, p.length = acc.length) →
    RLe acc (colFold rmax acc ps) ∧ ∀ p ∈ ps, RLe p (colFold rmax acc ps)
  | [], acc, _ => ⟨rle_refl _, by simp⟩
  | p :: ps, acc, h => by
    have hp : p.length = acc.length := h p (List.mem_cons_self ..)
    have hz : (List.zipWith rmax acc p).length = acc.length := by simp [hp]
    have ih := colFold_rmax_ge ps (List.zipWith rmax acc p)
      (fun q hq => by rw [hz]; exact h q (List.mem_cons_of_mem _ hq))
    have hz' := le_zipWith_rmax (a := acc) (b := p) hp.symm
    simp only [colFold]
    refine ⟨rle_trans hz'.1 ih.1, ?_⟩
    intro q hq
    rcases List.mem_cons.mp hq with rfl | hq
    · exact rle_trans hz'.2 ih.1
    · exact ih.2 q hq

theorem getD_zipWith (f : Rat → Rat → Rat) : ∀ (a b : List Rat) (i : Nat), i < a.length → i < b.length →
    (List.zipWith f a b).getD i 0 = f (a.getD i 0) (b.getD i 0)
  | [], _, _, h, _ => by simp at h
  | _ :: _, [], _, _, h => by simp at h
  | x :: xs, y :: ys, 0, _, _ => by simp
  | x :: xs, y :: ys, i + 1, h1, h2 => by
    simpa using getD_zipWith f xs ys i (by simpa using h1) (by simpa using h2)

/-- every coordinate of the column-wise fold of a choice function (`rmin`/`rmax`) is attained by the start vector or a point -/
theorem colFold_attained (f : Rat → Rat → Rat) (hf : ∀ x y, f x y = x ∨ f x y = y) :
    ∀ (ps : List (List Rat)) (acc : List Rat) (a : Nat), (∀ p ∈ ps, p.length = acc.length) → a < acc.length →
    ∃ pt ∈ acc :: ps, (colFold f acc ps).getD a 0 = pt.getD a 0
  | [], acc, a, _, _ => ⟨acc, by simp, rfl⟩
  | p :: ps, acc, a, h, ha => by
    have hp : p.length = acc.length := h p (List.mem_cons_self ..)
    have hz : (List.zipWith f acc p).length = acc.length := by simp [hp]
    obtain ⟨pt, hpt, he⟩ := colFold_attained f hf ps (List.zipWith f acc p) a
      (fun q hq => by rw [hz]; exact h q (List.mem_cons_of_mem _ hq)) (by rw [hz]; exact ha)
    simp only [colFold]
    rcases List.mem_cons.mp hpt with rfl | hpt
    · rw [he, getD_zipWith f acc p a ha (by rw [hp]; exact ha)]
      rcases hf (acc.getD a 0) (p.getD a 0) with h' | h'
      · exact ⟨acc, by simp, h'⟩
      · exact ⟨p, by simp, h'⟩
    · exact ⟨pt, by simp [hpt], he⟩

theorem insideClosed_of_rle : ∀ {m M pt : List Rat} {pad : Rat}, 0 ≤ pad → RLe m pt → RLe pt M →
    insideClosed (m.map (fun x => fin (x - pad))) (M.map (fun x => fin (x + pad))) pt = true
  | [], [], [], _, _, _, _ => by simp [insideClosed]
  | x :: xs, z :: zs, y :: ys, pad, hpad, h1, h2 => by
    have h1' := List.forall₂_cons.mp h1
    have h2' := List.forall₂_cons.mp h2
    simp only [List.map_cons, insideClosed, Bool.and_eq_true, decide_eq_true_eq]
    refine ⟨⟨fin_le_fin.mpr (by linarith), fin_le_fin.mpr (by linarith)⟩, insideClosed_of_rle hpad h1'.2 h2'.2⟩
  | [], _ :: _, _, _, _, h1, h2 => by cases h1; cases h2
  | _ :: _, [], _, _, _, h1, h2 => by cases h1; cases h2
  | [], [], _ :: _, _, _, h1, _ => by cases h1
  | _ :: _, _ :: _, [], _, _, h1, _ => by cases h1

end Box
end Mouette.AABB
