import Mouette.Generated.C18Src
import Mouette.Lemmas.C18Lemmas
import Mouette.Lemmas.C18Hist
/-
C18, round 4 — lemmas for the bridges `Generated.C18S.f = FFS.fM` and for the theorems about the normal forms
(gather / scatter algebra, the partition, the loop of `normalize`).
-/
namespace Mouette.Lemmas.C18S
open Mouette.FF Mouette.FFS Mouette.Lemmas.C18
open Mouette.Generated

/-! ## bridges -/

theorem mapFrom_all (f : Cpx → Cpx) : ∀ (zs : Vec) (i : Nat), mapFrom 0 (i + zs.length) f i zs = zs.map f
  | [], _ => rfl
  | z :: zs, i => by
    have h := mapFrom_all f zs (i + 1)
    have e : i + 1 + zs.length = i + (z :: zs).length := by simp; omega
    rw [e] at h
    simp only [mapFrom, List.map_cons, h]
    have : (0 ≤ i ∧ i < i + (z :: zs).length) := ⟨Nat.zero_le _, by simp⟩
    rw [if_pos this]

theorem mapRange_all (f : Cpx → Cpx) (zs : Vec) : mapRange 0 zs.length f zs = zs.map f := by
  have := mapFrom_all f zs 0
  simpa [mapRange] using this

theorem normalize_bridge (N : Num) (var : Vec) : C18S.normalize N var = normalizeM N var := by
  unfold C18S.normalize normalizeM
  rw [mapRange_all]
  rfl

theorem normalize_fun (N : Num) : C18S.normalize N = normalizeM N := funext (normalize_bridge N)

theorem optimizeFaces_bridge (N : Num) (P : OptIn) (var : Vec) : C18S.optimizeFaces N P var = optimizeFacesM N P var := by
  unfold C18S.optimizeFaces
  rw [normalize_fun]
  unfold optimizeFacesM
  by_cases h : 0 < P.nFeatV
  · simp only [h, if_true]; rfl
  · simp only [h, if_false]; rfl

theorem optimizeVerts_bridge (N : Num) (P : OptIn) (var : Vec) : C18S.optimizeVerts N P var = optimizeVertsM N P var := by
  unfold C18S.optimizeVerts
  rw [normalize_fun]
  unfold optimizeVertsM
  by_cases h : 0 < P.nFeatV
  · simp only [h, if_true]; rfl
  · simp only [h, if_false]; rfl

theorem run_bridge {α : Type} (init opt : α → α) (s : FFH.St α) : C18S.run init opt s = FFH.run init opt s := by
  unfold C18S.run FFH.run
  cases h1 : s.initialized <;> cases h2 : s.smoothed <;> simp [h1, h2]

theorem fresh_bridge {α : Type} (d : α) : C18S.fresh d = FFH.fresh d := rfl

theorem initializeFaces_bridge {α : Type} (attrs vars : α → α) (s : FFH.St α) :
    C18S.initializeFaces attrs vars s = FFH.initializeStep true (fun d => vars (attrs d)) s := by
  unfold C18S.initializeFaces FFH.initializeStep
  simp

theorem initializeVerts_bridge {α : Type} (attrs vars mpt : α → α) (s : FFH.St α) :
    C18S.initializeVerts attrs vars false mpt s = FFH.initializeStep true (fun d => vars (attrs d)) s := by
  unfold C18S.initializeVerts FFH.initializeStep
  simp

/-- the two nested loops of the face-based `_initialize_variables` are a fold over the flattened write list -/
theorem foldl_adj (N : Num) (order : Nat) (proj : Nat → Nat → Cpx) (id : Nat) :
    ∀ (adj : List (Option Nat)) (var : Vec),
      adj.foldl (fun var t => match t with
        | none => var
        | some T => var.set T (cpow (cdivR (proj id T) (N.abs (proj id T))) 4)) var
      = (adj.filterMap (fun t => t.map (fun T => (T, proj id T, N.abs (proj id T))))).foldl
          (fun var w => var.set w.1 (constraintValue order w.2.1 w.2.2)) var
  | [], _ => rfl
  | none :: adj, var => by
    simp only [List.foldl_cons, List.filterMap_cons, Option.map_none]
    exact foldl_adj N order proj id adj var
  | some T :: adj, var => by
    simp only [List.foldl_cons, List.filterMap_cons, Option.map_some]
    exact foldl_adj N order proj id adj _

theorem initVariablesFaces_bridge (N : Num) (order n : Nat) (proj : Nat → Nat → Cpx) (fes : List FeatEdge) :
    C18S.initVariablesFaces N order n proj fes = initFaces order n (writesOf N proj fes) := by
  unfold C18S.initVariablesFaces initFaces writesOf
  generalize List.replicate n czero = var
  induction fes generalizing var with
  | nil => rfl
  | cons e es ih =>
    simp only [List.foldl_cons, List.map_cons, List.flatten_cons, List.foldl_append]
    rw [← foldl_adj N order proj e.id e.adj var]
    exact ih _

theorem mem_freeOf (n : Nat) (fl : List Bool) (i : Nat) (h : i ∈ freeOf n fl) : fl.getD i false = false := by
  unfold freeOf at h
  have := (List.mem_filter.mp h).2
  simpa using this

theorem freeOf_nodup (n : Nat) (p : Nat → Bool) : ((List.range n).filter p).Nodup :=
  List.Nodup.sublist List.filter_sublist List.nodup_range
theorem freeOf_lt (n : Nat) (p : Nat → Bool) (i : Nat) (h : i ∈ (List.range n).filter p) : i < n :=
  List.mem_range.mp (List.mem_filter.mp h).1

/-! ## gather / scatter -/

theorem scatter_length : ∀ (idx : List Nat) (var res : Vec), (scatter var idx res).length = var.length
  | [], _, _ => by simp [scatter]
  | _ :: _, _, [] => by simp [scatter]
  | i :: is, var, r :: rs => by
    simp only [scatter]
    rw [scatter_length is (var.set i r) rs, List.length_set]

theorem gather_scatter_disjoint (idx idx2 : List Nat) (var res : Vec) (h : ∀ i ∈ idx2, i ∉ idx) :
    gather (scatter var idx res) idx2 = gather var idx2 := by
  unfold gather
  apply List.map_congr_left
  intro i hi
  exact scatter_untouched idx var res i (h i hi)

theorem getD_set_self' (l : Vec) (i : Nat) (x : Cpx) (h : i < l.length) : (l.set i x).getD i czero = x := by
  simp [List.getD, h]

theorem gather_scatter_same : ∀ (idx : List Nat) (var res : Vec), idx.Nodup → (∀ i ∈ idx, i < var.length) →
    res.length = idx.length → gather (scatter var idx res) idx = res
  | [], _, res, _, _, hl => by
    cases res with
    | nil => rfl
    | cons r rs => simp at hl
  | i :: is, var, [], _, _, hl => by simp at hl
  | i :: is, var, r :: rs, hnd, hlt, hl => by
    have hnd' := List.nodup_cons.mp hnd
    have hi : i < var.length := hlt i (by simp)
    simp only [scatter, gather, List.map_cons]
    have h1 : (scatter (var.set i r) is rs).getD i czero = r := by
      rw [scatter_untouched is (var.set i r) rs i hnd'.1]
      exact getD_set_self' var i r hi
    rw [h1]
    have ih := gather_scatter_same is (var.set i r) rs hnd'.2
      (fun j hj => by rw [List.length_set]; exact hlt j (List.mem_cons_of_mem _ hj)) (by simpa using hl)
    unfold gather at ih
    rw [ih]

/-! ## normalisation -/
theorem norm1_czero (N : Num) : norm1 N czero = czero := by
  unfold norm1 normalize1
  split
  · simp [cdivR, czero]
  · rfl

theorem getD_normalizeM (N : Num) (v : Vec) (i : Nat) : (normalizeM N v).getD i czero = norm1 N (v.getD i czero) := by
  unfold normalizeM
  by_cases h : i < v.length
  · simp [List.getD, h]
  · have h' : v.length ≤ i := Nat.le_of_not_lt h
    simp [List.getD, h', norm1_czero]

theorem norm1_of_abs_one (N : Num) (z : Cpx) (h : N.abs z = 1) : norm1 N z = z := by
  unfold norm1 normalize1
  rw [h]
  split
  · simp [cdivR]
  · rfl

theorem normalizeM_length (N : Num) (v : Vec) : (normalizeM N v).length = v.length := by
  simp [normalizeM]

/-! ## the solve branch -/
theorem iter_invariant {α : Type} (f : α → α) (Q : α → Prop) (hf : ∀ x, Q x → Q (f x)) : ∀ (k : Nat) (x : α), Q x → Q (iter f k x)
  | 0, _, h => h
  | k + 1, x, h => iter_invariant f Q hf k (f x) (hf x h)

theorem smoothStep_keeps (N : Num) (lap area : Mat) (alpha : Rat) (free : List Nat) (valB v : Vec) (i : Nat) (z : Cpx)
    (hi : i ∉ free) (hz : N.abs z = 1) (hv : v.getD i czero = z) :
    (smoothStepM N lap area alpha free valB v).getD i czero = z := by
  unfold smoothStepM
  rw [scatter_untouched free _ _ i hi, getD_normalizeM, hv, norm1_of_abs_one N z hz]

theorem optimizeBordered_keeps (N : Num) (lap area : Mat) (nSmooth : Nat) (alpha : Rat) (free fixed : List Nat) (var : Vec) (i : Nat)
    (hi : i ∉ free) (hz : N.abs (var.getD i czero) = 1) :
    (optimizeBorderedM N lap area nSmooth alpha free fixed var).getD i czero = var.getD i czero := by
  unfold optimizeBorderedM
  rw [getD_normalizeM]
  have h0 : (harmonicM N lap free fixed var).getD i czero = var.getD i czero := by
    unfold harmonicM; exact scatter_untouched free _ _ i hi
  split
  · have := iter_invariant (smoothStepM N lap area alpha free (dot (sub lap free fixed) (gather var fixed)))
      (fun v => v.getD i czero = var.getD i czero)
      (fun v hv => smoothStep_keeps N lap area alpha free _ v i _ hi hz hv) nSmooth _ h0
    rw [this, norm1_of_abs_one N _ hz]
  · rw [h0, norm1_of_abs_one N _ hz]

theorem normalizeM_unit (N : Num) (habs : ∀ z, N.abs z * N.abs z = normSq z) (y : Vec) (i : Nat)
    (hthr : normThreshold < N.abs (y.getD i czero)) : normSq ((normalizeM N y).getD i czero) = 1 := by
  rw [getD_normalizeM]
  exact normalize1_unit _ _ hthr (habs _)

/-- the linear system the solve step hands to `spsolve`, and the exactness contract of the solver -/
def SolvedExactly (N : Num) (lap : Mat) (free fixed : List Nat) (var : Vec) : Prop :=
  dot (sub lap free free) (N.spsolve (sub lap free free) (vneg (dot (sub lap free fixed) (gather var fixed))))
      = vneg (dot (sub lap free fixed) (gather var fixed))
  ∧ (N.spsolve (sub lap free free) (vneg (dot (sub lap free fixed) (gather var fixed)))).length = free.length

theorem harmonic_block (N : Num) (lap : Mat) (free fixed : List Nat) (var : Vec)
    (hnd : free.Nodup) (hlt : ∀ i ∈ free, i < var.length) (hdisj : ∀ i ∈ fixed, i ∉ free)
    (hs : SolvedExactly N lap free fixed var) :
    gather (harmonicM N lap free fixed var) fixed = gather var fixed ∧
    dot (sub lap free free) (gather (harmonicM N lap free fixed var) free)
      = vneg (dot (sub lap free fixed) (gather (harmonicM N lap free fixed var) fixed)) := by
  have h1 : gather (harmonicM N lap free fixed var) fixed = gather var fixed := by
    unfold harmonicM; exact gather_scatter_disjoint free fixed var _ hdisj
  refine ⟨h1, ?_⟩
  rw [h1]
  unfold harmonicM
  rw [gather_scatter_same free var _ hnd hlt hs.2]
  exact hs.1

theorem rowDotL_csum (L : Mat) (a : Nat) (y : Vec) : ∀ (cols : List Nat),
    rowDotL (cols.map (fun b => L a b)) (gather y cols) = csum (cols.map (fun b => cmul (L a b) (asFun y b)))
  | [] => rfl
  | c :: cs => by
    simp only [List.map_cons, gather, rowDotL, csum]
    have := rowDotL_csum L a y cs
    unfold gather at this
    rw [this]; rfl

theorem cadd_cneg_left (w : Cpx) : cadd (cneg w) w = czero := by
  rw [cadd_comm]; exact cadd_cneg w

theorem harmonic_rows (N : Num) (lap : Mat) (free fixed : List Nat) (var : Vec)
    (hnd : free.Nodup) (hlt : ∀ i ∈ free, i < var.length) (hdisj : ∀ i ∈ fixed, i ∉ free)
    (hs : SolvedExactly N lap free fixed var) :
    ∀ a ∈ free, harmonicAt lap free fixed (asFun (harmonicM N lap free fixed var)) a := by
  have hb := (harmonic_block N lap free fixed var hnd hlt hdisj hs).2
  unfold dot sub vneg at hb
  simp only [List.map_map] at hb
  intro a ha
  have := (List.map_inj_left.mp hb) a ha
  simp only [Function.comp] at this
  rw [rowDotL_csum, rowDotL_csum] at this
  unfold harmonicAt
  rw [this]
  exact cadd_cneg_left _

/-! ## renumbering -/
theorem harmonicAt_renumber (L : Mat) (free fixed : List Nat) (σ τ : Nat → Nat) (hτσ : ∀ i, τ (σ i) = i) (y' : Nat → Cpx) (a : Nat) :
    harmonicAt (fun p q => L (τ p) (τ q)) (free.map σ) (fixed.map σ) y' (σ a)
      ↔ harmonicAt L free fixed (fun i => y' (σ i)) a := by
  unfold harmonicAt
  simp only [List.map_map, Function.comp_def, hτσ]

/-! ## `flag_singularities` (faces) -/
theorem foldl_step_filterMap {α β : Type} (f : List β → α → List β) (g : α → Option β)
    (h : ∀ acc x, f acc x = match g x with | some y => acc ++ [y] | none => acc) : ∀ (l : List α) (acc : List β),
    l.foldl f acc = acc ++ l.filterMap g
  | [], acc => by simp
  | x :: xs, acc => by
    simp only [List.foldl_cons, List.filterMap_cons]
    rw [h acc x]
    cases hg : g x with
    | none => simp only []; exact foldl_step_filterMap f g h xs acc
    | some y =>
      simp only []
      rw [foldl_step_filterMap f g h xs (acc ++ [y])]
      simp

theorem flagInto_split (c : Bool) (old : Option FFH.Attr) (w : FFH.Attr) : FFH.flagInto c old w = FFH.flagInto c old [] ++ w := by
  simp [FFH.flagInto]

theorem flagEdgeRotFaces_bridge (P : FlagFacesIn) (old : Option FFH.Attr) :
    C18S.flagEdgeRotFaces P old = FFH.flagInto C18H.facesRotCleared old (rotWritesM P) := by
  rw [flagInto_split]
  unfold C18S.flagEdgeRotFaces rotWritesM
  refine foldl_step_filterMap _ _ ?_ _ _
  intro acc it
  rcases it with ⟨i, t1, t2⟩
  cases t1 <;> cases t2 <;> try rfl
  rename_i T1 T2
  have hc := Mouette.Lemmas.C18H.candidatesF_bridge P.order (P.theta T1) (P.ang i T1) (P.theta T2) (P.ang i T2)
  show acc ++ [(i, argminAbs (Mouette.Lemmas.C18H.candidatesSrcF P.order (P.theta T1) (P.ang i T1) (P.theta T2) (P.ang i T2)))] = _
  rw [hc]; rfl

theorem index_scale_bridge (x : Rat) : (x * (2 : Rat)) / ((1 : Rat) / 2) = indexOf x := by
  unfold indexOf C18.indexPerTurn
  ring

theorem flagSingulsFaces_bridge (P : FlagFacesIn) (er : FFH.Attr) (old : Option FFH.Attr) :
    C18S.flagSingulsFaces P er old = FFH.flagInto C18H.facesSingulsCleared old (singulsM P (FFH.lookup er)) := by
  rw [flagInto_split]
  unfold C18S.flagSingulsFaces singulsM
  refine foldl_step_filterMap _ _ ?_ _ _
  intro acc v
  show (if P.thrTurns < rabs (holonomyAdjM P (FFH.lookup er) v)
        then acc ++ [(v, (holonomyAdjM P (FFH.lookup er) v * (2 : Rat)) / ((1 : Rat) / 2))] else acc) = _
  rw [index_scale_bridge]
  split <;> rfl

end Mouette.Lemmas.C18S
