import Mouette.Generated.C18Src
import Mouette.Lemmas.C18Lemmas
import Mouette.Lemmas.C18Hist
import Mouette.Lemmas.C18Bridge
import Mouette.Lemmas.C18Vertex
/-
C18, round 4 — lemmas for the bridges `Generated.C18S.f = FFS.fM` and for the theorems about the normal forms
(gather / scatter algebra, the partition, the loop of `normalize`).
-/
namespace Mouette.Lemmas.C18S
open Mouette.FF Mouette.FFS Mouette.Lemmas.C18
open Mouette.Generated

/-! ## bridges -/

theorem mapFrom_all (f : Cpx → Cpx) : ∀ (zs : Vec) (i : Nat), mapFrom 0 (i + zs.length) f i zs = zs.map f
  | [], _ => rfl
  | z :: zs, i => by
    have h := mapFrom_all f zs (i + 1)
    have e : i + 1 + zs.length = i + (z :: zs).length := by simp; omega
    rw [e] at h
    simp only [mapFrom, List.map_cons, h]
    have : (0 ≤ i ∧ i < i + (z :: zs).length) := ⟨Nat.zero_le _, by simp⟩
    rw [if_pos this]

theorem mapRange_all (f : Cpx → Cpx) (zs : Vec) : mapRange 0 zs.length f zs = zs.map f := by
  have := mapFrom_all f zs 0
  simpa [mapRange] using this

theorem normalize_bridge (N : Num) (var : Vec) : C18S.normalize N var = normalizeM N var := by
  unfold C18S.normalize normalizeM
  rw [mapRange_all]
  rfl

theorem normalize_fun (N : Num) : C18S.normalize N = normalizeM N := funext (normalize_bridge N)

theorem optimizeFaces_bridge (N : Num) (P : OptIn) (var : Vec) : C18S.optimizeFaces N P var = optimizeFacesM N P var := by
  unfold C18S.optimizeFaces
  rw [normalize_fun]
  unfold optimizeFacesM
  by_cases h : 0 < P.nFeatV
  · simp only [h, if_true]; rfl
  · simp only [h, if_false]; rfl

theorem optimizeVerts_bridge (N : Num) (P : OptIn) (var : Vec) : C18S.optimizeVerts N P var = optimizeVertsM N P var := by
  unfold C18S.optimizeVerts
  rw [normalize_fun]
  unfold optimizeVertsM
  by_cases h : 0 < P.nFeatV
  · simp only [h, if_true]; rfl
  · simp only [h, if_false]; rfl

theorem run_bridge {α : Type} (init opt : α → α) (s : FFH.St α) : C18S.run init opt s = FFH.run init opt s := by
  unfold C18S.run FFH.run
  cases h1 : s.initialized <;> cases h2 : s.smoothed <;> simp [h1, h2]

theorem fresh_bridge {α : Type} (d : α) : C18S.fresh d = FFH.fresh d := rfl

theorem initializeFaces_bridge {α : Type} (attrs vars : α → α) (s : FFH.St α) :
    C18S.initializeFaces attrs vars s = FFH.initializeStep true (fun d => vars (attrs d)) s := by
  unfold C18S.initializeFaces FFH.initializeStep
  simp

theorem initializeVerts_bridge {α : Type} (attrs vars mpt : α → α) (s : FFH.St α) :
    C18S.initializeVerts attrs vars false mpt s = FFH.initializeStep true (fun d => vars (attrs d)) s := by
  unfold C18S.initializeVerts FFH.initializeStep
  simp

/-- the two nested loops of the face-based `_initialize_variables` are a fold over the flattened write list -/
theorem foldl_adj (N : Num) (order : Nat) (proj : Nat → Nat → Cpx) (id : Nat) :
    ∀ (adj : List (Option Nat)) (var : Vec),
      adj.foldl (fun var t => match t with
        | none => var
        | some T => var.set T (cpow (cdivR (proj id T) (N.abs (proj id T))) 4)) var
      = (adj.filterMap (fun t => t.map (fun T => (T, proj id T, N.abs (proj id T))))).foldl
          (fun var w => var.set w.1 (constraintValue order w.2.1 w.2.2)) var
  | [], _ => rfl
  | none :: adj, var => by
    simp only [List.foldl_cons, List.filterMap_cons, Option.map_none]
    exact foldl_adj N order proj id adj var
  | some T :: adj, var => by
    simp only [List.foldl_cons, List.filterMap_cons, Option.map_some]
    exact foldl_adj N order proj id adj _

theorem initVariablesFaces_bridge (N : Num) (order n : Nat) (proj : Nat → Nat → Cpx) (fes : List FeatEdge) :
    C18S.initVariablesFaces N order n proj fes = initFaces order n (writesOf N proj fes) := by
  unfold C18S.initVariablesFaces initFaces writesOf
  generalize List.replicate n czero = var
  induction fes generalizing var with
  | nil => rfl
  | cons e es ih =>
    simp only [List.foldl_cons, List.map_cons, List.flatten_cons, List.foldl_append]
    rw [← foldl_adj N order proj e.id e.adj var]
    exact ih _

theorem mem_freeOf (n : Nat) (fl : List Bool) (i : Nat) (h : i ∈ freeOf n fl) : fl.getD i false = false := by
  unfold freeOf at h
  have := (List.mem_filter.mp h).2
  simpa using this

theorem freeOf_nodup (n : Nat) (p : Nat → Bool) : ((List.range n).filter p).Nodup :=
  List.Nodup.sublist List.filter_sublist List.nodup_range
theorem freeOf_lt (n : Nat) (p : Nat → Bool) (i : Nat) (h : i ∈ (List.range n).filter p) : i < n :=
  List.mem_range.mp (List.mem_filter.mp h).1

/-! ## gather / scatter -/

theorem scatter_length : ∀ (idx : List Nat) (var res : Vec), (scatter var idx res).length = var.length
  | [], _, _ => by simp [scatter]
  | _ :: _, _, [] => by simp [scatter]
  | i :: is, var, r :: rs => by
    simp only [scatter]
    rw [scatter_length is (var.set i r) rs, List.length_set]

theorem gather_scatter_disjoint (idx idx2 : List Nat) (var res : Vec) (h : ∀ i ∈ idx2, i ∉ idx) :
    gather (scatter var idx res) idx2 = gather var idx2 := by
  unfold gather
  apply List.map_congr_left
  intro i hi
  exact scatter_untouched idx var res i (h i hi)

theorem getD_set_self' (l : Vec) (i : Nat) (x : Cpx) (h : i < l.length) : (l.set i x).getD i czero = x := by
  simp [List.getD, h]

theorem gather_scatter_same : ∀ (idx : List Nat) (var res : Vec), idx.Nodup → (∀ i ∈ idx, i < var.length) →
    res.length = idx.length → gather (scatter var idx res) idx = res
  | [], _, res, _, _, hl => by
    cases res with
    | nil => rfl
    | cons r rs => simp at hl
  | i :: is, var, [], _, _, hl => by simp at hl
  | i :: is, var, r :: rs, hnd, hlt, hl => by
    have hnd' := List.nodup_cons.mp hnd
    have hi : i < var.length := hlt i (by simp)
    simp only [scatter, gather, List.map_cons]
    have h1 : (scatter (var.set i r) is rs).getD i czero = r := by
      rw [scatter_untouched is (var.set i r) rs i hnd'.1]
      exact getD_set_self' var i r hi
    rw [h1]
    have ih := gather_scatter_same is (var.set i r) rs hnd'.2
      (fun j hj => by rw [List.length_set]; exact hlt j (List.mem_cons_of_mem _ hj)) (by simpa using hl)
    unfold gather at ih
    rw [ih]

/-! ## normalisation -/
theorem norm1_czero (N : Num) : norm1 N czero = czero := by
  unfold norm1 normalize1
  split
  · simp [cdivR, czero]
  · rfl

theorem getD_normalizeM (N : Num) (v : Vec) (i : Nat) : (normalizeM N v).getD i czero = norm1 N (v.getD i czero) := by
  unfold normalizeM
  by_cases h : i < v.length
  · simp [List.getD, h]
  · have h' : v.length ≤ i := Nat.le_of_not_lt h
    simp [List.getD, h', norm1_czero]

theorem norm1_of_abs_one (N : Num) (z : Cpx) (h : N.abs z = 1) : norm1 N z = z := by
  unfold norm1 normalize1
  rw [h]
  split
  · simp [cdivR]
  · rfl

theorem normalizeM_length (N : Num) (v : Vec) : (normalizeM N v).length = v.length := by
  simp [normalizeM]

/-! ## the solve branch -/
theorem iter_invariant {α : Type} (f : α → α) (Q : α → Prop) (hf : ∀ x, Q x → Q (f x)) : ∀ (k : Nat) (x : α), Q x → Q (iter f k x)
  | 0, _, h => h
  | k + 1, x, h => iter_invariant f Q hf k (f x) (hf x h)

theorem smoothStep_keeps (N : Num) (lap area : Mat) (alpha : Rat) (free : List Nat) (valB v : Vec) (i : Nat) (z : Cpx)
    (hi : i ∉ free) (hz : N.abs z = 1) (hv : v.getD i czero = z) :
    (smoothStepM N lap area alpha free valB v).getD i czero = z := by
  unfold smoothStepM
  rw [scatter_untouched free _ _ i hi, getD_normalizeM, hv, norm1_of_abs_one N z hz]

theorem optimizeBordered_keeps (N : Num) (lap area : Mat) (nSmooth : Nat) (alpha : Rat) (free fixed : List Nat) (var : Vec) (i : Nat)
    (hi : i ∉ free) (hz : N.abs (var.getD i czero) = 1) :
    (optimizeBorderedM N lap area nSmooth alpha free fixed var).getD i czero = var.getD i czero := by
  unfold optimizeBorderedM
  rw [getD_normalizeM]
  have h0 : (harmonicM N lap free fixed var).getD i czero = var.getD i czero := by
    unfold harmonicM; exact scatter_untouched free _ _ i hi
  split
  · have := iter_invariant (smoothStepM N lap area alpha free (dot (sub lap free fixed) (gather var fixed)))
      (fun v => v.getD i czero = var.getD i czero)
      (fun v hv => smoothStep_keeps N lap area alpha free _ v i _ hi hz hv) nSmooth _ h0
    rw [this, norm1_of_abs_one N _ hz]
  · rw [h0, norm1_of_abs_one N _ hz]

theorem normalizeM_unit (N : Num) (habs : ∀ z, N.abs z * N.abs z = normSq z) (y : Vec) (i : Nat)
    (hthr : normThreshold < N.abs (y.getD i czero)) : normSq ((normalizeM N y).getD i czero) = 1 := by
  rw [getD_normalizeM]
  exact normalize1_unit _ _ hthr (habs _)

/-- the linear system the solve step hands to `spsolve`, and the exactness contract of the solver -/
def SolvedExactly (N : Num) (lap : Mat) (free fixed : List Nat) (var : Vec) : Prop :=
  dot (sub lap free free) (N.spsolve (sub lap free free) (vneg (dot (sub lap free fixed) (gather var fixed))))
      = vneg (dot (sub lap free fixed) (gather var fixed))
  ∧ (N.spsolve (sub lap free free) (vneg (dot (sub lap free fixed) (gather var fixed)))).length = free.length

theorem harmonic_block (N : Num) (lap : Mat) (free fixed : List Nat) (var : Vec)
    (hnd : free.Nodup) (hlt : ∀ i ∈ free, i < var.length) (hdisj : ∀ i ∈ fixed, i ∉ free)
    (hs : SolvedExactly N lap free fixed var) :
    gather (harmonicM N lap free fixed var) fixed = gather var fixed ∧
    dot (sub lap free free) (gather (harmonicM N lap free fixed var) free)
      = vneg (dot (sub lap free fixed) (gather (harmonicM N lap free fixed var) fixed)) := by
  have h1 : gather (harmonicM N lap free fixed var) fixed = gather var fixed := by
    unfold harmonicM; exact gather_scatter_disjoint free fixed var _ hdisj
  refine ⟨h1, ?_⟩
  rw [h1]
  unfold harmonicM
  rw [gather_scatter_same free var _ hnd hlt hs.2]
  exact hs.1

theorem rowDotL_csum (L : Mat) (a : Nat) (y : Vec) : ∀ (cols : List Nat),
    rowDotL (cols.map (fun b => L a b)) (gather y cols) = csum (cols.map (fun b => cmul (L a b) (asFun y b)))
  | [] => rfl
  | c :: cs => by
    simp only [List.map_cons, gather, rowDotL, csum]
    have := rowDotL_csum L a y cs
    unfold gather at this
    rw [this]; rfl

theorem cadd_cneg_left (w : Cpx) : cadd (cneg w) w = czero := by
  rw [cadd_comm]; exact cadd_cneg w

theorem harmonic_rows (N : Num) (lap : Mat) (free fixed : List Nat) (var : Vec)
    (hnd : free.Nodup) (hlt : ∀ i ∈ free, i < var.length) (hdisj : ∀ i ∈ fixed, i ∉ free)
    (hs : SolvedExactly N lap free fixed var) :
    ∀ a ∈ free, harmonicAt lap free fixed (asFun (harmonicM N lap free fixed var)) a := by
  have hb := (harmonic_block N lap free fixed var hnd hlt hdisj hs).2
  unfold dot sub vneg at hb
  simp only [List.map_map] at hb
  intro a ha
  have := (List.map_inj_left.mp hb) a ha
  simp only [Function.comp] at this
  rw [rowDotL_csum, rowDotL_csum] at this
  unfold harmonicAt
  rw [this]
  exact cadd_cneg_left _

/-! ## renumbering -/
theorem harmonicAt_renumber (L : Mat) (free fixed : List Nat) (σ τ : Nat → Nat) (hτσ : ∀ i, τ (σ i) = i) (y' : Nat → Cpx) (a : Nat) :
    harmonicAt (fun p q => L (τ p) (τ q)) (free.map σ) (fixed.map σ) y' (σ a)
      ↔ harmonicAt L free fixed (fun i => y' (σ i)) a := by
  unfold harmonicAt
  simp only [List.map_map, Function.comp_def, hτσ]

/-! ## `flag_singularities` (faces) -/
theorem foldl_step_filterMap {α β : Type} (f : List β → α → List β) (g : α → Option β)
    (h : ∀ acc x, f acc x = match g x with | some y => acc ++ [y] | none => acc) : ∀ (l : List α) (acc : List β),
    l.foldl f acc = acc ++ l.filterMap g
  | [], acc => by simp
  | x :: xs, acc => by
    simp only [List.foldl_cons, List.filterMap_cons]
    rw [h acc x]
    cases hg : g x with
    | none => simp only []; exact foldl_step_filterMap f g h xs acc
    | some y =>
      simp only []
      rw [foldl_step_filterMap f g h xs (acc ++ [y])]
      simp

theorem flagInto_split (c : Bool) (old : Option FFH.Attr) (w : FFH.Attr) : FFH.flagInto c old w = FFH.flagInto c old [] ++ w := by
  simp [FFH.flagInto]

theorem flagEdgeRotFaces_bridge (P : FlagFacesIn) (old : Option FFH.Attr) :
    C18S.flagEdgeRotFaces P old = FFH.flagInto C18H.facesRotCleared old (rotWritesM P) := by
  rw [flagInto_split]
  unfold C18S.flagEdgeRotFaces rotWritesM
  refine foldl_step_filterMap _ _ ?_ _ _
  intro acc it
  rcases it with ⟨i, t1, t2⟩
  cases t1 <;> cases t2 <;> try rfl
  rename_i T1 T2
  have hc := Mouette.Lemmas.C18H.candidatesF_bridge P.order (P.theta T1) (P.ang i T1) (P.theta T2) (P.ang i T2)
  show acc ++ [(i, argminAbs (Mouette.Lemmas.C18H.candidatesSrcF P.order (P.theta T1) (P.ang i T1) (P.theta T2) (P.ang i T2)))] = _
  rw [hc]; rfl

theorem index_scale_bridge (x : Rat) : (x * (2 : Rat)) / ((1 : Rat) / 2) = indexOf x := by
  unfold indexOf C18.indexPerTurn
  ring

theorem flagSingulsFaces_bridge (P : FlagFacesIn) (er : FFH.Attr) (old : Option FFH.Attr) :
    C18S.flagSingulsFaces P er old = FFH.flagInto C18H.facesSingulsCleared old (singulsM P (FFH.lookup er)) := by
  rw [flagInto_split]
  unfold C18S.flagSingulsFaces singulsM
  refine foldl_step_filterMap _ _ ?_ _ _
  intro acc v
  show (if P.thrTurns < rabs (holonomyAdjM P (FFH.lookup er) v)
        then acc ++ [(v, (holonomyAdjM P (FFH.lookup er) v * (2 : Rat)) / ((1 : Rat) / 2))] else acc) = _
  rw [index_scale_bridge]
  split <;> rfl

/-! ## vertex-based `_initialize_variables` -/
theorem guard_iff (N : Num) (hc : AbsContract N) (s : Cpx) :
    (((1 : Rat) / 10000000000) < N.abs s) ↔ (C18.vertexGuardSq < normSq s) := by
  unfold C18.vertexGuardSq
  rw [← hc.sq s]
  have h0 := hc.nonneg s
  have ht : (0 : Rat) < (1 : Rat) / 10000000000 := by norm_num
  constructor
  · intro h; nlinarith
  · intro h
    by_contra hn
    have hle : N.abs s ≤ (1 : Rat) / 10000000000 := not_lt.mp hn
    have : N.abs s * N.abs s ≤ ((1 : Rat) / 10000000000) * ((1 : Rat) / 10000000000) := by nlinarith
    linarith

/-- one accumulation step of the round-1 model `FF.initVerts` -/
def modelStep (order : Nat) (guarded : Bool) (var : Vec) (w : Nat × Cpx) : Vec :=
  if guarded && !(decide (C18.vertexGuardSq < normSq (cadd (var.getD w.1 czero) (cpow w.2 order)))) then var
  else var.set w.1 (cadd (var.getD w.1 czero) (cpow w.2 order))

theorem initVerts_eq_foldl (order n : Nat) (guarded : Bool) (cs : List (Nat × Cpx)) :
    initVerts order n guarded cs = cs.foldl (modelStep order guarded) (List.replicate n czero) := rfl

theorem guardedStep_eq (N : Num) (hc : AbsContract N) (order : Nat) (var : Vec) (X : Nat) (u : Cpx) :
    (if ((1 : Rat) / 10000000000) < N.abs (cadd (var.getD X czero) (cpow u order))
      then var.set X (cadd (var.getD X czero) (cpow u order)) else var) = modelStep order true var (X, u) := by
  unfold modelStep
  by_cases h : ((1 : Rat) / 10000000000) < N.abs (cadd (var.getD X czero) (cpow u order))
  · have h2 := (guard_iff N hc _).mp h
    rw [if_pos h]
    show _ = if (true && !(decide (C18.vertexGuardSq < normSq (cadd (var.getD X czero) (cpow u order))))) = true then _ else _
    rw [decide_eq_true h2]
    rfl
  · have h2 : ¬ (C18.vertexGuardSq < normSq (cadd (var.getD X czero) (cpow u order))) := fun h' => h ((guard_iff N hc _).mpr h')
    rw [if_neg h]
    show _ = if (true && !(decide (C18.vertexGuardSq < normSq (cadd (var.getD X czero) (cpow u order))))) = true then _ else _
    rw [decide_eq_false h2]
    rfl

theorem accGuarded_bridge (N : Num) (hc : AbsContract N) (order : Nat) (proj : Nat → Nat → Cpx) : ∀ (fes : List VFeatEdge) (var : Vec),
    fes.foldl (fun var it =>
        let var := if ((1 : Rat) / 10000000000) < N.abs (cadd (var.getD it.b czero) (cpow (cdivR (proj it.id it.b) (N.abs (proj it.id it.b))) order))
          then var.set it.b (cadd (var.getD it.b czero) (cpow (cdivR (proj it.id it.b) (N.abs (proj it.id it.b))) order)) else var
        if ((1 : Rat) / 10000000000) < N.abs (cadd (var.getD it.a czero) (cpow (cdivR (proj it.id it.a) (N.abs (proj it.id it.a))) order))
          then var.set it.a (cadd (var.getD it.a czero) (cpow (cdivR (proj it.id it.a) (N.abs (proj it.id it.a))) order)) else var) var
      = (contribsGuarded N proj fes).foldl (modelStep order true) var
  | [], _ => rfl
  | e :: es, var => by
    simp only [List.foldl_cons, contribsGuarded, List.map_cons, List.flatten_cons, List.foldl_append, List.foldl_nil]
    rw [guardedStep_eq N hc, guardedStep_eq N hc]
    exact accGuarded_bridge N hc order proj es _

theorem accPlain_bridge (order : Nat) (rect : Nat → Nat → Cpx) : ∀ (fes : List VFeatEdge) (var : Vec),
    fes.foldl (fun var it =>
        let var := var.set it.a (cadd (var.getD it.a czero) (cpow (rect it.a it.b) order))
        var.set it.b (cadd (var.getD it.b czero) (cpow (rect it.b it.a) order))) var
      = (contribsPlain rect fes).foldl (modelStep order false) var
  | [], _ => rfl
  | e :: es, var => by
    simp only [List.foldl_cons, contribsPlain, List.map_cons, List.flatten_cons, List.foldl_append, List.foldl_nil]
    have h : ∀ (v : Vec) (w : Nat × Cpx), modelStep order false v w = v.set w.1 (cadd (v.getD w.1 czero) (cpow w.2 order)) := by
      intro v w; simp [modelStep]
    rw [h, h]
    exact accPlain_bridge order rect es _

theorem abs_czero (N : Num) (hc : AbsContract N) : N.abs czero = 0 := by
  have h := hc.sq czero
  have : normSq czero = 0 := by simp [normSq, czero]
  rw [this] at h
  exact mul_self_eq_zero.mp h

theorem getD_map_abs (N : Num) (hc : AbsContract N) (v : Vec) (i : Nat) : (v.map N.abs).getD i 0 = N.abs (v.getD i czero) := by
  by_cases h : i < v.length
  · simp [List.getD, h]
  · have h' : v.length ≤ i := Nat.le_of_not_lt h
    simp [List.getD, h', abs_czero N hc]

/-- the normalisation loop reads `abs(var[A])` at loop time; on a duplicate-free `feature_vertices` that is `abs` of the accumulated value -/
theorem normDyn_bridge (N : Num) (hc : AbsContract N) (var0 : Vec) : ∀ (featV : List Nat) (v : Vec), featV.Nodup →
    (∀ A ∈ featV, v.getD A czero = var0.getD A czero) →
    featV.foldl (fun var A => if ((1 : Rat) / 100000000) < N.abs (var.getD A czero)
        then var.set A (cdivR (var.getD A czero) (N.abs (var.getD A czero))) else var) v
      = FFV.normalizeFeature v featV (var0.map N.abs)
  | [], _, _, _ => rfl
  | A :: rest, v, hnd, hinv => by
    have hnd' := List.nodup_cons.mp hnd
    simp only [List.foldl_cons, FFV.normalizeFeature]
    rw [getD_map_abs N hc, ← hinv A (by simp)]
    have hthr : FFV.featThreshold = (1 : Rat) / 100000000 := rfl
    rw [hthr]
    have ih := fun v' h' => normDyn_bridge N hc var0 rest v' hnd'.2 h'
    unfold FFV.normalizeFeature at ih
    apply ih
    intro B hB
    have hne : A ≠ B := fun h => hnd'.1 (h ▸ hB)
    split
    · rw [getD_set_ne _ _ _ _ _ hne]; exact hinv B (List.mem_cons_of_mem _ hB)
    · exact hinv B (List.mem_cons_of_mem _ hB)

theorem initVariablesVerts_bridge (N : Num) (hc : AbsContract N) (order n : Nat) (sn : Bool) (proj rect : Nat → Nat → Cpx)
    (fes : List VFeatEdge) (featV : List Nat) (hnd : featV.Nodup) :
    C18S.initVariablesVerts N order sn proj rect fes featV (List.replicate n czero)
      = FFV.initVertsFull order n sn (if FFV.guardedBranch sn order then contribsGuarded N proj fes else contribsPlain rect fes) featV
          ((initVerts order n (FFV.guardedBranch sn order)
            (if FFV.guardedBranch sn order then contribsGuarded N proj fes else contribsPlain rect fes)).map N.abs) := by
  have hg : (sn && (order % 2 != 1)) = FFV.guardedBranch sn order := by
    unfold FFV.guardedBranch
    rcases Nat.mod_two_eq_zero_or_one order with h | h <;> simp [h]
  unfold C18S.initVariablesVerts FFV.initVertsFull
  rw [hg]
  cases hb : FFV.guardedBranch sn order
  · simp only [Bool.false_eq_true, if_false]
    rw [initVerts_eq_foldl]
    have := accPlain_bridge order rect fes (List.replicate n czero)
    simp only [] at this
    rw [← this]
    exact normDyn_bridge N hc _ featV _ hnd (fun _ _ => rfl)
  · simp only [if_true]
    rw [initVerts_eq_foldl]
    have := accGuarded_bridge N hc order proj fes (List.replicate n czero)
    simp only [] at this
    rw [← this]
    exact normDyn_bridge N hc _ featV _ hnd (fun _ _ => rfl)

/-! ## vertex-based `flag_singularities` -/
open Mouette.FFV Mouette.Lemmas.C18V in
theorem foldl_pair {α δ β : Type} (f : δ → α → δ) (g : α → β) : ∀ (l : List α) (d : δ) (a : List β),
    l.foldl (fun (st : δ × List β) it => (f st.1 it, st.2 ++ [g it])) (d, a) = (l.foldl f d, a ++ l.map g)
  | [], d, a => by simp
  | x :: xs, d, a => by
    simp only [List.foldl_cons, List.map_cons]
    rw [foldl_pair f g xs]
    simp

theorem foldl_map' {α β δ : Type} (f : δ → β → δ) (h : α → β) : ∀ (l : List α) (d : δ),
    l.foldl (fun d x => f d (h x)) d = (l.map h).foldl f d
  | [], _ => rfl
  | x :: xs, d => by simp only [List.foldl_cons, List.map_cons]; exact foldl_map' f h xs _

theorem edgeRotV_src (P : FlagVertsIn) (A B : Nat) :
    argminAbs ((List.range P.order).map (fun k => C18V.angleDiff
      (C18V.matchFst (C18V.rootPhase (P.theta B) P.order 0) (P.tr B A) (C18V.rootPhase (P.theta A) P.order k) (P.tr A B))
      (C18V.matchSnd (C18V.rootPhase (P.theta B) P.order 0) (P.tr B A) (C18V.rootPhase (P.theta A) P.order k) (P.tr A B))))
    = FFV.edgeRotV P.order (vedgeOf P A B) := by
  have := Mouette.Lemmas.C18B.candidates_bridge P.order (vedgeOf P A B)
  unfold Mouette.Lemmas.C18B.candidatesSrc at this
  unfold FFV.edgeRotV
  rw [← this]
  rfl

theorem flagEdgeRotVerts_bridge (P : FlagVertsIn) (old : Option FFH.Attr) :
    C18S.flagEdgeRotVerts P old = (dictOfM (resM P), FFH.flagInto C18H.vertsRotCleared old (attrWritesM P)) := by
  rw [flagInto_split]
  unfold C18S.flagEdgeRotVerts
  have hstep : (fun (st : Dict × FFH.Attr) (it : Nat × Nat × Nat) =>
      (dset (dset st.1 it.2.1 it.2.2 (argminAbs ((List.range P.order).map (fun k => C18V.angleDiff
          (C18V.matchFst (C18V.rootPhase (P.theta it.2.2) P.order 0) (P.tr it.2.2 it.2.1) (C18V.rootPhase (P.theta it.2.1) P.order k) (P.tr it.2.1 it.2.2))
          (C18V.matchSnd (C18V.rootPhase (P.theta it.2.2) P.order 0) (P.tr it.2.2 it.2.1) (C18V.rootPhase (P.theta it.2.1) P.order k) (P.tr it.2.1 it.2.2))))))
        it.2.2 it.2.1 (-(argminAbs ((List.range P.order).map (fun k => C18V.angleDiff
          (C18V.matchFst (C18V.rootPhase (P.theta it.2.2) P.order 0) (P.tr it.2.2 it.2.1) (C18V.rootPhase (P.theta it.2.1) P.order k) (P.tr it.2.1 it.2.2))
          (C18V.matchSnd (C18V.rootPhase (P.theta it.2.2) P.order 0) (P.tr it.2.2 it.2.1) (C18V.rootPhase (P.theta it.2.1) P.order k) (P.tr it.2.1 it.2.2)))))),
       st.2 ++ [(it.1, -(argminAbs ((List.range P.order).map (fun k => C18V.angleDiff
          (C18V.matchFst (C18V.rootPhase (P.theta it.2.2) P.order 0) (P.tr it.2.2 it.2.1) (C18V.rootPhase (P.theta it.2.1) P.order k) (P.tr it.2.1 it.2.2))
          (C18V.matchSnd (C18V.rootPhase (P.theta it.2.2) P.order 0) (P.tr it.2.2 it.2.1) (C18V.rootPhase (P.theta it.2.1) P.order k) (P.tr it.2.1 it.2.2))))))]))
      = (fun st it => ((fun (d : Dict) (x : Nat × Nat × Nat) =>
            dset (dset d x.2.1 x.2.2 (FFV.edgeRotV P.order (vedgeOf P x.2.1 x.2.2))) x.2.2 x.2.1 (-(FFV.edgeRotV P.order (vedgeOf P x.2.1 x.2.2)))) st.1 it,
          st.2 ++ [(fun (x : Nat × Nat × Nat) => (x.1, -(FFV.edgeRotV P.order (vedgeOf P x.2.1 x.2.2)))) it])) := by
    funext st it
    simp only [edgeRotV_src]
  show List.foldl _ _ _ = _
  rw [hstep]
  refine Eq.trans (foldl_pair (fun (d : Dict) (x : Nat × Nat × Nat) =>
      dset (dset d x.2.1 x.2.2 (FFV.edgeRotV P.order (vedgeOf P x.2.1 x.2.2))) x.2.2 x.2.1 (-(FFV.edgeRotV P.order (vedgeOf P x.2.1 x.2.2))))
    (fun (x : Nat × Nat × Nat) => (x.1, -(FFV.edgeRotV P.order (vedgeOf P x.2.1 x.2.2)))) P.edges (fun _ _ => 0) (FFH.flagInto true old [])) ?_
  apply Prod.ext
  · unfold dictOfM resM
    exact foldl_map' (fun (d : Dict) (e : FFV.RE) => dset (dset d e.a e.b e.r) e.b e.a (-e.r))
      (fun (it : Nat × Nat × Nat) => (vedgeOf P it.2.1 it.2.2).toRE P.order) P.edges _
  · rfl

theorem flagSingulsVerts_bridge (P : FlagVertsIn) (d : Dict) (old : Option FFH.Attr) :
    C18S.flagSingulsVerts P d old = FFH.flagInto C18H.vertsSingulsCleared old (singulsVM P d) := by
  rw [flagInto_split]
  unfold C18S.flagSingulsVerts singulsVM
  refine foldl_step_filterMap _ _ ?_ _ _
  intro acc it
  show (if P.thrTurns < faceAngleAdjM d P.curv it then acc ++ [(it.1, 1)]
        else if faceAngleAdjM d P.curv it < -P.thrTurns then acc ++ [(it.1, -1)] else acc) = _
  split
  · rfl
  · split <;> rfl

/-! ### the dict is `rotD` of the model on a well-formed edge list -/
def matchesB (u v : Nat) (e : FFV.RE) : Bool := (e.a == u && e.b == v) || (e.b == u && e.a == v)

theorem matchesB_iff (u v : Nat) (e : FFV.RE) : matchesB u v e = true ↔ Mouette.Lemmas.C18V.Matches e u v := by
  unfold matchesB Mouette.Lemmas.C18V.Matches
  simp

def dstep (d : Dict) (e : FFV.RE) : Dict := dset (dset d e.a e.b e.r) e.b e.a (-e.r)

theorem dstep_nomatch (d : Dict) (e : FFV.RE) (u v : Nat) (h : ¬ Mouette.Lemmas.C18V.Matches e u v) : dstep d e u v = d u v := by
  unfold dstep dset
  unfold Mouette.Lemmas.C18V.Matches at h
  have h1 : ¬ (u = e.b ∧ v = e.a) := fun hh => h (Or.inr ⟨hh.1.symm, hh.2.symm⟩)
  have h2 : ¬ (u = e.a ∧ v = e.b) := fun hh => h (Or.inl ⟨hh.1.symm, hh.2.symm⟩)
  simp only [h1, h2, if_false]

theorem dstep_match (d : Dict) (e : FFV.RE) (hne : e.a ≠ e.b) (u v : Nat) (h : Mouette.Lemmas.C18V.Matches e u v) :
    dstep d e u v = FFV.dirContrib e u v := by
  unfold dstep dset FFV.dirContrib
  rcases h with ⟨h1, h2⟩ | ⟨h1, h2⟩
  · subst h1; subst h2
    have : ¬ (e.a = e.b ∧ e.b = e.a) := fun hh => hne hh.1
    simp [this]
  · subst h1; subst h2
    have : ¬ (e.a = e.b ∧ e.b = e.a) := fun hh => hne hh.1
    simp [this]

theorem foldl_dstep_nomatch : ∀ (es : List FFV.RE) (d : Dict) (u v : Nat), (∀ x ∈ es, ¬ Mouette.Lemmas.C18V.Matches x u v) →
    (es.foldl dstep d) u v = d u v
  | [], _, _, _, _ => rfl
  | e :: es, d, u, v, h => by
    simp only [List.foldl_cons]
    rw [foldl_dstep_nomatch es (dstep d e) u v (fun x hx => h x (List.mem_cons_of_mem _ hx))]
    exact dstep_nomatch d e u v (h e (by simp))

theorem same_of_matches (e x : FFV.RE) (u v : Nat) (h1 : Mouette.Lemmas.C18V.Matches e u v) (h2 : Mouette.Lemmas.C18V.Matches x u v) :
    FFV.sameUndirected e x = true := by
  unfold FFV.sameUndirected
  rcases h1 with ⟨a1, b1⟩ | ⟨a1, b1⟩ <;> rcases h2 with ⟨a2, b2⟩ | ⟨a2, b2⟩ <;> simp [a1, b1, a2, b2]

theorem dict_eq_rotD : ∀ (es : List FFV.RE) (d : Dict) (u v : Nat), FFV.uniqueEdges es = true →
    (es.foldl dstep d) u v = if es.any (matchesB u v) then FFV.rotD es u v else d u v
  | [], _, _, _, _ => rfl
  | e :: es, d, u, v, hu => by
    unfold FFV.uniqueEdges at hu
    simp only [Bool.and_eq_true, bne_iff_ne, ne_eq, Bool.not_eq_true'] at hu
    obtain ⟨⟨hne, hnot⟩, hrest⟩ := hu
    simp only [List.foldl_cons, List.any_cons]
    have hrot : FFV.rotD (e :: es) u v = FFV.dirContrib e u v + FFV.rotD es u v := rfl
    by_cases hm : Mouette.Lemmas.C18V.Matches e u v
    · have hno : ∀ x ∈ es, ¬ Mouette.Lemmas.C18V.Matches x u v := by
        intro x hx hmx
        have := same_of_matches e x u v hm hmx
        have h2 : es.any (FFV.sameUndirected e) = true := List.any_eq_true.mpr ⟨x, hx, this⟩
        rw [hnot] at h2; exact Bool.noConfusion h2
      rw [foldl_dstep_nomatch es _ u v hno, dstep_match d e hne u v hm]
      simp only [(matchesB_iff u v e).mpr hm, Bool.true_or, if_true]
      rw [hrot, Mouette.Lemmas.C18V.rotD_nomatch es u v hno]
      simp
    · have hb : matchesB u v e = false := by
        cases h : matchesB u v e
        · rfl
        · exact absurd ((matchesB_iff u v e).mp h) hm
      rw [dict_eq_rotD es (dstep d e) u v hrest]
      simp only [hb, Bool.false_or]
      rw [hrot, Mouette.Lemmas.C18V.dirContrib_nomatch e u v hm, dstep_nomatch d e u v hm]
      simp

theorem dictOfM_eq_rotD (es : List FFV.RE) (hu : FFV.uniqueEdges es = true) (u v : Nat) : dictOfM es u v = FFV.rotD es u v := by
  have := dict_eq_rotD es (fun _ _ => 0) u v hu
  unfold dictOfM
  show (es.foldl dstep (fun _ _ => 0)) u v = _
  rw [this]
  split
  · rfl
  · rename_i h
    symm
    apply Mouette.Lemmas.C18V.rotD_nomatch
    intro x hx hm
    apply h
    exact List.any_eq_true.mpr ⟨x, hx, (matchesB_iff u v x).mpr hm⟩

/-! ## adjacency-form holonomy sum = edge-list `vertexAngle` -/
def hterm (v : Nat) (p : Nat × Rat) : Rat := if p.1 < v then p.2 else -p.2

theorem foldl_incident (v : Nat) : ∀ (es : List REdge) (d : Rat),
    (incidentPairs es v).foldl (fun acc p => acc + hterm v p) d = d + es.foldr (fun e acc => edgeContrib e v + acc) 0
  | [], d => by simp [incidentPairs]
  | e :: es, d => by
    have ih := foldl_incident v es
    unfold incidentPairs at ih ⊢
    simp only [List.filterMap_cons, List.foldr_cons]
    by_cases ha : e.a = v
    · simp only [ha, if_true, List.foldl_cons]
      rw [ih]
      have : edgeContrib e v = hterm v (e.b, e.rot) := by
        unfold edgeContrib hterm
        simp [C18.signPlusWhenOtherLess, ha]
      rw [this]; ring
    · by_cases hb : e.b = v
      · simp only [ha, hb, if_true, if_false, List.foldl_cons]
        rw [ih]
        have : edgeContrib e v = hterm v (e.a, e.rot) := by
          unfold edgeContrib hterm
          have ha' : ¬ v = e.a := fun h => ha h.symm
          simp [C18.signPlusWhenOtherLess, ha', hb]
        rw [this]; ring
      · simp only [ha, hb, if_false]
        rw [ih]
        have : edgeContrib e v = 0 := by
          unfold edgeContrib
          have ha' : ¬ v = e.a := fun h => ha h.symm
          have hb' : ¬ v = e.b := fun h => hb h.symm
          simp [ha', hb']
        rw [this]; ring

theorem holonomyAdj_refines (P : FlagFacesIn) (rot : Nat → Rat) (es : List REdge) (v : Nat)
    (hperm : ((P.vertexEdges v).map (fun e => (P.otherEnd e v, rot e))).Perm (incidentPairs es v)) :
    holonomyAdjM P rot v = vertexAngle P.defect es v := by
  unfold holonomyAdjM vertexAngle
  have h1 : (P.vertexEdges v).foldl (fun acc e => acc + (if P.otherEnd e v < v then rot e else -(rot e))) (P.defect v)
      = ((P.vertexEdges v).map (fun e => (P.otherEnd e v, rot e))).foldl (fun acc p => acc + hterm v p) (P.defect v) := by
    rw [List.foldl_map]; rfl
  rw [h1, List.Perm.foldl_eq' hperm (fun x _ y _ z => by ring) (P.defect v), foldl_incident]

/-! ## round 6: operator assembly -/
theorem cadd_assoc' (x y z : Cpx) : cadd (cadd x y) z = cadd x (cadd y z) := by
  unfold cadd; ext <;> simp <;> ring
theorem cadd_czero' (x : Cpx) : cadd x czero = x := by unfold cadd czero; ext <;> simp
theorem czero_cadd' (x : Cpx) : cadd czero x = x := by unfold cadd czero; ext <;> simp

theorem tripCoeff_append (l1 l2 : List (Nat × Nat × Cpx)) (a b : Nat) :
    tripCoeff (l1 ++ l2) a b = cadd (tripCoeff l1 a b) (tripCoeff l2 a b) := by
  induction l1 with
  | nil => simp [tripCoeff, czero_cadd']
  | cons t ts ih =>
    have h : tripCoeff (t :: ts ++ l2) a b = cadd (if a = t.1 ∧ b = t.2.1 then t.2.2 else czero) (tripCoeff (ts ++ l2) a b) := rfl
    have h' : tripCoeff (t :: ts) a b = cadd (if a = t.1 ∧ b = t.2.1 then t.2.2 else czero) (tripCoeff ts a b) := rfl
    rw [h, h', ih, cadd_assoc']

theorem four_terms (w x y z : Cpx) : cadd w (cadd x (cadd y (cadd z czero))) = cadd (cadd w x) (cadd y z) := by
  unfold cadd czero; ext <;> simp <;> ring

theorem tripCoeff_trip4 (e : Entry) (a b : Nat) : tripCoeff (trip4 e) a b = contrib e a b := by
  unfold trip4 contrib
  show cadd _ (cadd _ (cadd _ (cadd _ czero))) = _
  exact four_terms _ _ _ _

theorem tripCoeff_entries : ∀ (es : List Entry) (a b : Nat), tripCoeff (es.flatMap trip4) a b = coeff es a b
  | [], _, _ => rfl
  | e :: es, a, b => by
    rw [List.flatMap_cons, tripCoeff_append, tripCoeff_trip4, tripCoeff_entries es a b]
    rfl

theorem foldl_step_append {α β : Type} (f : List β → α → List β) (g : α → List β) (h : ∀ acc x, f acc x = acc ++ g x) :
    ∀ (l : List α) (acc : List β), l.foldl f acc = acc ++ l.flatMap g
  | [], acc => by simp
  | x :: xs, acc => by
    simp only [List.foldl_cons, List.flatMap_cons]
    rw [h, foldl_step_append f g h xs, List.append_assoc]

theorem laplacianTriplets_bridge (U : Rat → Cpx) (order : Nat) (cotan : Bool) (faces : List (Nat × Nat × Nat × Nat)) (cot tr : Nat → Nat → Rat) :
    C18S.laplacianTriplets U order cotan true faces cot tr = (lapEntriesM U order cotan faces cot tr).flatMap trip4 := by
  unfold C18S.laplacianTriplets lapEntriesM
  rw [List.flatMap_assoc] 
  have := foldl_step_append
    (fun (acc : List (Nat × Nat × Cpx)) (it : Nat × Nat × Nat × Nat) =>
      [(it.2.1, it.2.2.1, (if cotan then cot it.1 it.2.2.2 / ((2 : Rat) / 1) else ((1 : Rat) / 2))),
       (it.2.2.1, it.2.2.2, (if cotan then cot it.1 it.2.1 / ((2 : Rat) / 1) else ((1 : Rat) / 2))),
       (it.2.2.2, it.2.1, (if cotan then cot it.1 it.2.2.1 / ((2 : Rat) / 1) else ((1 : Rat) / 2)))].foldl (fun acc h =>
          if true = true then
            (acc ++ [(h.1, h.1, ofReal h.2.2)] ++ [(h.2.1, h.2.1, ofReal h.2.2)]
              ++ [(h.1, h.2.1, cneg (csmul h.2.2 (U ((order : Rat) * (((tr h.1 h.2.1) - (tr h.2.1 h.1)) - ((1 : Rat) / 2))))))]
              ++ [(h.2.1, h.1, cneg (csmul h.2.2 (U ((order : Rat) * (((tr h.2.1 h.1) - (tr h.1 h.2.1)) - ((1 : Rat) / 2))))))])
          else
            (acc ++ [(h.1, h.1, ofReal h.2.2)] ++ [(h.2.1, h.2.1, ofReal h.2.2)] ++ [(h.1, h.2.1, cneg (ofReal h.2.2))] ++ [(h.2.1, h.1, cneg (ofReal h.2.2))])) acc)
    (fun it => (lapFaceEntriesM U order cotan cot tr it).flatMap trip4)
    (by
      intro acc it
      simp only [List.foldl_cons, List.foldl_nil, if_true, lapFaceEntriesM, List.flatMap_cons, List.flatMap_nil, trip4, entryVert, lapPhase,
        List.append_assoc, List.cons_append, List.nil_append, List.append_nil]
      norm_num)
    faces []
  simpa using this

theorem conj_neg_smul (v : Rat) (z : Cpx) : cconj (cneg (csmul v z)) = cneg (csmul v (cconj z)) := by
  unfold cconj cneg csmul; ext <;> simp

theorem lapPhase_opposite (order : Nat) (tr : Nat → Nat → Rat) (i j : Nat) :
    lapPhase order tr j i = -(lapPhase order tr i j) + ((-(order : Int) : Int) : Rat) := by
  unfold lapPhase; push_cast; ring

theorem lapFaceEntries_herm (U : Rat → Cpx) (hU : UnitContract U) (order : Nat) (cotan : Bool) (cot tr : Nat → Nat → Rat) (it : Nat × Nat × Nat × Nat) :
    ∀ e ∈ lapFaceEntriesM U order cotan cot tr it, e.oji = cconj e.oij := by
  intro e he
  unfold lapFaceEntriesM at he
  simp only [List.mem_cons, List.mem_nil_iff, or_false] at he
  rcases he with rfl | rfl | rfl <;>
  · unfold entryVert
    simp only []
    rw [conj_neg_smul, lapPhase_opposite, hU.period, hU.conj]

theorem rowGram_two (w : Rat) (T1 T2 : Nat) (t : Cpx) (a b : Nat) :
    rowGram w [(T1, cneg cone), (T2, t)] a b = contrib (entryFace T1 T2 w t) a b := by
  unfold rowGram contrib entryFace
  simp only [List.flatMap_cons, List.flatMap_nil, List.map_cons, List.map_nil, List.append_nil, List.cons_append, List.nil_append, csum]
  have e11 : csmul w (cmul (cconj (cneg cone)) (cneg cone)) = ofReal w := by
    unfold csmul cmul cconj cneg cone ofReal; ext <;> simp
  have e12 : csmul w (cmul (cconj (cneg cone)) t) = cneg (csmul w t) := by
    unfold csmul cmul cconj cneg cone; ext <;> simp
  have e21 : csmul w (cmul (cconj t) (cneg cone)) = cneg (csmul w (cconj t)) := by
    unfold csmul cmul cconj cneg cone; ext <;> simp
  have e22 : csmul w (cmul (cconj t) t) = ofReal (w * normSq t) := by
    unfold csmul cmul cconj ofReal normSq
    apply Prod.ext
    · show w * (t.1 * t.1 - -t.2 * t.2) = w * (t.1 * t.1 + t.2 * t.2); ring
    · show w * (t.1 * t.2 + -t.2 * t.1) = 0; ring
  rw [e11, e12, e21, e22]
  generalize (if a = T1 ∧ b = T1 then ofReal w else czero) = x1
  generalize (if a = T1 ∧ b = T2 then cneg (csmul w t) else czero) = x2
  generalize (if a = T2 ∧ b = T1 then cneg (csmul w (cconj t)) else czero) = x3
  generalize (if a = T2 ∧ b = T2 then ofReal (w * normSq t) else czero) = x4
  unfold cadd czero; ext <;> simp <;> ring

theorem nablaRows_bridge (U : Rat → Cpx) (order : Nat) (edges : List (Nat × Option Nat × Option Nat)) (tr : Nat → Nat → Rat) :
    C18S.nablaRows U order true edges tr = edges.filterMap (fun it => match it.2.1, it.2.2 with
      | some T1, some T2 => some (it.1, [(T1, cneg cone), (T2, U ((order : Rat) * tr T1 T2))])
      | _, _ => none) := by
  unfold C18S.nablaRows
  have := foldl_step_filterMap
    (fun (acc : List (Nat × List (Nat × Cpx))) (it : Nat × Option Nat × Option Nat) =>
      match it.2.1, it.2.2 with
      | some v_T1, some v_T2 =>
        if true = true then acc ++ [(it.1, [(v_T1, cneg cone), (v_T2, U ((order : Rat) * (tr v_T1 v_T2)))])] else acc ++ [(it.1, [(v_T1, cneg cone), (v_T2, cone)])]
      | _, _ => acc)
    (fun it => match it.2.1, it.2.2 with
      | some T1, some T2 => some (it.1, [(T1, cneg cone), (T2, U ((order : Rat) * tr T1 T2))])
      | _, _ => none)
    (by
      intro acc it
      rcases it with ⟨i, t1, t2⟩
      cases t1 <;> cases t2 <;> rfl)
    edges []
  simp only [List.nil_append] at this
  exact this

theorem gramCoeff_rows (U : Rat → Cpx) (order : Nat) (weight : Nat → Rat) (tr : Nat → Nat → Rat) :
    ∀ (edges : List (Nat × Option Nat × Option Nat)) (a b : Nat),
      gramCoeff weight (edges.filterMap (fun it => match it.2.1, it.2.2 with
        | some T1, some T2 => some (it.1, [(T1, cneg cone), (T2, U ((order : Rat) * tr T1 T2))])
        | _, _ => none)) a b = coeff (triEntriesM U order weight edges tr) a b
  | [], _, _ => rfl
  | it :: es, a, b => by
    rcases it with ⟨i, t1, t2⟩
    have ih := gramCoeff_rows U order weight tr es a b
    unfold triEntriesM at ih ⊢
    cases t1 <;> cases t2 <;> simp only [List.filterMap_cons] <;> try exact ih
    rename_i T1 T2
    show cadd (rowGram (weight i) [(T1, cneg cone), (T2, U ((order : Rat) * tr T1 T2))] a b) _ = cadd (contrib _ a b) _
    rw [rowGram_two]
    congr 1

/-! ## round 6: connection on faces -/
theorem connFacesTriple_feature (isFeat : Nat → Nat → Bool) (it : Nat × Nat × Nat × Nat)
    (h : isFeat it.2.1 it.2.2.1 = true ∨ isFeat it.2.2.1 it.2.2.2 = true ∨ isFeat it.2.2.2 it.2.1 = true) :
    isFeat (C18S.connFacesTriple isFeat it).1 (C18S.connFacesTriple isFeat it).2.1 = true := by
  unfold C18S.connFacesTriple
  cases h1 : isFeat it.2.1 it.2.2.1 <;> cases h2 : isFeat it.2.2.1 it.2.2.2 <;> cases h3 : isFeat it.2.2.2 it.2.1 <;>
    simp [h1, h2, h3, rotl3, argmaxB] at h ⊢ <;> assumption

theorem connFacesTransport_bridge (interior : List (Nat × Nat × Nat)) (ang : Nat → Nat → Rat) :
    C18S.connFacesTransport interior ang
      = dictOfM (interior.map (fun it => ({ a := it.2.1, b := it.2.2, r := ang it.1 it.2.1 - ang it.1 it.2.2 } : FFV.RE))) := by
  unfold C18S.connFacesTransport dictOfM
  rw [← foldl_map' (fun (d : Dict) (e : FFV.RE) => dset (dset d e.a e.b e.r) e.b e.a (-e.r))
    (fun (it : Nat × Nat × Nat) => ({ a := it.2.1, b := it.2.2, r := ang it.1 it.2.1 - ang it.1 it.2.2 } : FFV.RE))]
  congr 1
  funext d it
  have : ang it.1 it.2.2 - ang it.1 it.2.1 = -(ang it.1 it.2.1 - ang it.1 it.2.2) := by ring
  simp only [this]

theorem dirContrib_antisymm (e : FFV.RE) (hne : e.a ≠ e.b) (u v : Nat) : FFV.dirContrib e v u = -FFV.dirContrib e u v := by
  unfold FFV.dirContrib
  by_cases h1 : e.a = u ∧ e.b = v
  · obtain ⟨rfl, rfl⟩ := h1
    have : ¬ (e.a = e.b ∧ e.b = e.a) := fun h => hne h.1
    simp [this]
  · by_cases h2 : e.b = u ∧ e.a = v
    · obtain ⟨rfl, rfl⟩ := h2
      have : ¬ (e.a = e.b ∧ e.b = e.a) := fun h => hne h.1
      simp [this]
    · have h3 : ¬ (e.a = v ∧ e.b = u) := fun h => h2 ⟨h.2, h.1⟩
      have h4 : ¬ (e.b = v ∧ e.a = u) := fun h => h1 ⟨h.2, h.1⟩
      simp [h1, h2, h3, h4]

theorem rotD_antisymm : ∀ (es : List FFV.RE), (∀ e ∈ es, e.a ≠ e.b) → ∀ u v, FFV.rotD es v u = -FFV.rotD es u v
  | [], _, _, _ => by simp [FFV.rotD]
  | e :: es, h, u, v => by
    have h1 : FFV.rotD (e :: es) v u = FFV.dirContrib e v u + FFV.rotD es v u := rfl
    have h2 : FFV.rotD (e :: es) u v = FFV.dirContrib e u v + FFV.rotD es u v := rfl
    rw [h1, h2, dirContrib_antisymm e (h e (by simp)), rotD_antisymm es (fun x hx => h x (List.mem_cons_of_mem _ hx))]
    ring

/-! ## round 6: connection on vertices -/
def ringStepI (total : Nat → Rat) (ca : Nat → Nat → Option Rat) (u : Nat) (st : Dict × Rat) (v : Nat) : Dict × Rat :=
  (dset st.1 u v (((st.2 * (2 : Rat)) * ((1 : Rat) / 2)) / total u), st.2 + (ca u v).getD 0)

theorem ringInterior_eq (total : Nat → Rat) (ca : Nat → Nat → Option Rat) (u : Nat) (ring : List Nat) (d : Dict) (a : Rat) :
    C18S.connVertsRingInterior total ca u ring d a = (ring.foldl (ringStepI total ca u) (d, a)).1 := rfl

theorem ringStepI_keep (total : Nat → Rat) (ca : Nat → Nat → Option Rat) (u w : Nat) : ∀ (ring : List Nat) (st : Dict × Rat), w ∉ ring →
    (ring.foldl (ringStepI total ca u) st).1 u w = st.1 u w
  | [], _, _ => rfl
  | v :: rest, st, h => by
    simp only [List.foldl_cons]
    rw [ringStepI_keep total ca u w rest _ (fun hm => h (List.mem_cons_of_mem _ hm))]
    have hne : w ≠ v := fun e => h (by simp [e])
    unfold ringStepI dset
    simp [hne]

theorem ringInterior_first (total : Nat → Rat) (ca : Nat → Nat → Option Rat) (u v0 : Nat) (rest : List Nat) (d : Dict) (a : Rat) (h : v0 ∉ rest) :
    C18S.connVertsRingInterior total ca u (v0 :: rest) d a u v0 = ((a * 2) * (1 / 2)) / total u := by
  rw [ringInterior_eq]
  simp only [List.foldl_cons]
  rw [ringStepI_keep total ca u v0 rest _ h]
  unfold ringStepI dset
  simp

theorem ringInterior_second (total : Nat → Rat) (ca : Nat → Nat → Option Rat) (u v0 v1 : Nat) (rest : List Nat) (d : Dict) (a : Rat)
    (h1 : v1 ∉ rest) :
    C18S.connVertsRingInterior total ca u (v0 :: v1 :: rest) d a u v1 = (((a + (ca u v0).getD 0) * 2) * (1 / 2)) / total u := by
  rw [ringInterior_eq]
  simp only [List.foldl_cons]
  rw [ringStepI_keep total ca u v1 rest _ h1]
  unfold ringStepI dset
  simp

/-! ## round 7: the ring loops in closed form -/
/-- sum of the corner angles met before `w` on the ring -/
def prefixBefore (ca : Nat → Nat → Option Rat) (u : Nat) : List Nat → Nat → Rat
  | [], _ => 0
  | v :: rest, w => if v = w then 0 else (ca u v).getD 0 + prefixBefore ca u rest w

theorem prefixBefore_cons_ne (ca : Nat → Nat → Option Rat) (u v w : Nat) (rest : List Nat) (h : ¬ v = w) :
    prefixBefore ca u (v :: rest) w = (ca u v).getD 0 + prefixBefore ca u rest w := by
  show (if v = w then 0 else (ca u v).getD 0 + prefixBefore ca u rest w) = _
  rw [if_neg h]

def sumAngles (ca : Nat → Nat → Option Rat) (u : Nat) (ring : List Nat) : Rat := (ring.map (fun v => (ca u v).getD 0)).sum

def ringStepF (total : Nat → Rat) (ca : Nat → Nat → Option Rat) (u : Nat) (dfct : Rat) (st : Dict × Rat) (v : Nat) : Dict × Rat :=
  (dset st.1 u v ((st.2 * dfct) / total u), st.2 + (ca u v).getD 0)

theorem ringFeature_eq (total : Nat → Rat) (ca : Nat → Nat → Option Rat) (u : Nat) (dfct : Rat) (ring : List Nat) (d : Dict) (a : Rat) :
    C18S.connVertsRingFeature total ca u dfct ring d a = (ring.foldl (ringStepF total ca u dfct) (d, a)).1 := by
  unfold C18S.connVertsRingFeature
  congr 2
  funext st v
  unfold ringStepF
  cases ca u v <;> simp

theorem ringStepF_keep (total : Nat → Rat) (ca : Nat → Nat → Option Rat) (u w : Nat) (dfct : Rat) : ∀ (ring : List Nat) (st : Dict × Rat), w ∉ ring →
    (ring.foldl (ringStepF total ca u dfct) st).1 u w = st.1 u w
  | [], _, _ => rfl
  | v :: rest, st, h => by
    simp only [List.foldl_cons]
    rw [ringStepF_keep total ca u w dfct rest _ (fun hm => h (List.mem_cons_of_mem _ hm))]
    have hne : w ≠ v := fun e => h (by simp [e])
    unfold ringStepF dset
    simp [hne]

theorem ringF_closed_form (total : Nat → Rat) (ca : Nat → Nat → Option Rat) (u w : Nat) (dfct : Rat) : ∀ (ring : List Nat) (st : Dict × Rat),
    ring.Nodup → w ∈ ring → (ring.foldl (ringStepF total ca u dfct) st).1 u w = ((st.2 + prefixBefore ca u ring w) * dfct) / total u
  | [], _, _, h => by simp at h
  | v :: rest, st, hnd, hw => by
    have hnd' := List.nodup_cons.mp hnd
    simp only [List.foldl_cons]
    by_cases hv : v = w
    · subst hv
      rw [ringStepF_keep total ca u v dfct rest _ hnd'.1]
      unfold ringStepF dset prefixBefore
      simp
    · have hw' : w ∈ rest := by
        rcases List.mem_cons.mp hw with h | h
        · exact absurd h.symm hv
        · exact h
      rw [ringF_closed_form total ca u w dfct rest _ hnd'.2 hw']
      rw [prefixBefore_cons_ne ca u v w rest hv]
      unfold ringStepF
      simp only []
      ring

theorem ringI_closed_form (total : Nat → Rat) (ca : Nat → Nat → Option Rat) (u w : Nat) : ∀ (ring : List Nat) (st : Dict × Rat),
    ring.Nodup → w ∈ ring → (ring.foldl (ringStepI total ca u) st).1 u w = (((st.2 + prefixBefore ca u ring w) * 2) * (1 / 2)) / total u
  | [], _, _, h => by simp at h
  | v :: rest, st, hnd, hw => by
    have hnd' := List.nodup_cons.mp hnd
    simp only [List.foldl_cons]
    by_cases hv : v = w
    · subst hv
      rw [ringStepI_keep total ca u v rest _ hnd'.1]
      unfold ringStepI dset prefixBefore
      simp
    · have hw' : w ∈ rest := by
        rcases List.mem_cons.mp hw with h | h
        · exact absurd h.symm hv
        · exact h
      rw [ringI_closed_form total ca u w rest _ hnd'.2 hw']
      rw [prefixBefore_cons_ne ca u v w rest hv]
      unfold ringStepI
      simp only []
      ring

theorem prefixBefore_last (ca : Nat → Nat → Option Rat) (u w : Nat) : ∀ (pre : List Nat), w ∉ pre →
    prefixBefore ca u (pre ++ [w]) w = sumAngles ca u pre
  | [], _ => by simp [prefixBefore, sumAngles]
  | v :: rest, h => by
    have hne : v ≠ w := fun e => h (by simp [e])
    have ih := prefixBefore_last ca u w rest (fun hm => h (List.mem_cons_of_mem _ hm))
    simp only [List.cons_append, prefixBefore, hne, if_false, ih, sumAngles, List.map_cons, List.sum_cons]

/-! ## round 7: the defect loop of the vertex-based `_initialize_attributes` -/
theorem getD_set_eq_rat (l : List Rat) (i : Nat) (x : Rat) (h : i < l.length) : (l.set i x).getD i 0 = x := by
  simp [List.getD, h]
theorem getD_set_ne_rat (l : List Rat) (i j : Nat) (x : Rat) (h : j ≠ i) : (l.set j x).getD i 0 = l.getD i 0 := by
  simp [List.getD, List.getElem?_set, h]

theorem defect_fold (angles : Nat → Rat) (v : Nat) : ∀ (l : List (Nat × Nat)) (d : List Rat), v < d.length →
    (l.foldl (fun d it => d.set it.2 (d.getD it.2 0 + angles it.1)) d).getD v 0
      = d.getD v 0 + (l.map (fun it => if it.2 = v then angles it.1 else 0)).sum
  | [], d, _ => by simp
  | it :: rest, d, h => by
    simp only [List.foldl_cons, List.map_cons, List.sum_cons]
    rw [defect_fold angles v rest _ (by rw [List.length_set]; exact h)]
    by_cases hv : it.2 = v
    · rw [hv, getD_set_eq_rat _ _ _ h]; simp; ring
    · rw [getD_set_ne_rat _ _ _ _ hv]; simp [hv]

/-! ## round 6: export_as_mesh -/
theorem exportEdges_mem (order n : Nat) (g : Nat → List (Nat × Nat)) (per : Nat)
    (hg : ∀ i, ∀ e ∈ g i, e.1 < per * (i + 1) ∧ e.2 < per * (i + 1)) :
    ∀ e ∈ (List.range n).foldl (fun acc i => acc ++ g i) [], e.1 < per * n ∧ e.2 < per * n := by
  intro e he
  rw [foldl_step_append (fun acc i => acc ++ g i) g (fun _ _ => rfl)] at he
  simp only [List.nil_append, List.mem_flatMap, List.mem_range] at he
  obtain ⟨i, hi, hm⟩ := he
  have := hg i e hm
  have hle : per * (i + 1) ≤ per * n := Nat.mul_le_mul_left per hi
  exact ⟨Nat.lt_of_lt_of_le this.1 hle, Nat.lt_of_lt_of_le this.2 hle⟩

end Mouette.Lemmas.C18S
