import Mouette.Lemmas.C04Medit
/-! C04 (round 3): independence from the numeric representation of the coordinates.

The writer prints coordinates of a representation type `Cw` (Python int, numpy int64 / float32 / float64 scalars,
Vec entries …) with `cdw.fmt`; the reader parses text into doubles `Cr` with `cdr.parse`.  If the text of every
coordinate parses to its exact value (`Reads cdw cdr ι`, `ι : Cw → Cr` the value embedding; sampled by the harness
on integer-valued, numpy integer, float32 and float64 inputs), then what is loaded is the mesh with `ι` applied
to the coordinates — the same for every representation of the same values.  `RoundTrips cd = Reads cd cd id`. -/
namespace Mouette.IO
variable {Cw Cr : Type}

def Reads (cdw : Codec Cw) (cdr : Codec Cr) (ι : Cw → Cr) : Prop := ∀ c, cdr.parse (cdw.fmt c) = some (ι c)

def mapPt (ι : Cw → Cr) (v : Cw × Cw × Cw) : Cr × Cr × Cr := (ι v.1, ι v.2.1, ι v.2.2)

/-- the same mesh with its coordinates seen through `ι` -/
def mapRaw (ι : Cw → Cr) (m : Raw Cw) : Raw Cr :=
  { verts := m.verts.map (mapPt ι), edges := m.edges, faces := m.faces, cells := m.cells, hard := m.hard }

variable (cdw : Codec Cw) (cdr : Codec Cr) (ι : Cw → Cr)

theorem readNum_num2 (h : Reads cdw cdr ι) (c : Cw) : readNum cdr (num cdw c) = some (ι c) := by
  simp [readNum, num, h c]

theorem readCoords_coordLine2 (h : Reads cdw cdr ι) (v : Cw × Cw × Cw) :
    readCoords cdr (coordLine cdw v) = some (mapPt ι v) := by
  simp [readCoords, coordLine, readNum_num2 cdw cdr ι h, mapPt]

theorem foldObj_v2 (h : Reads cdw cdr ι) (vs : List (Cw × Cw × Cw)) (r : Raw Cr) :
    foldOpt (stepObj cdr) r (vs.map (vLine cdw)) = some { r with verts := r.verts ++ vs.map (mapPt ι) } := by
  induction vs generalizing r with
  | nil => simp [foldOpt]
  | cons v t ih =>
    have st : stepObj cdr r (vLine cdw v) = some { r with verts := r.verts ++ [mapPt ι v] } := by
      simp [stepObj, vLine, coordLine, readNum_num2 cdw cdr ι h, mapPt]
    simp only [List.map_cons, foldOpt, st]
    rw [ih]; simp

theorem objEdges_mapRaw (cfg : Cfg) (m : Raw Cw) : objEdges cfg (mapRaw ι m) = objEdges cfg m := rfl

theorem importObj_exportObj_repr (h : Reads cdw cdr ι) (cfg : Cfg) (m : Raw Cw) :
    importObj cdr (exportObj cdw cfg m) = some (restrictObj cfg (mapRaw ι m)) := by
  unfold importObj exportObj
  rw [foldOpt_append_some _ _ _ _ _ (foldObj_v2 cdw cdr ι h m.verts Raw.empty)]
  rw [foldOpt_append_some _ _ _ _ _ (foldObj_l cdr (objEdges cfg m) _)]
  rw [foldObj_f]
  have e := objEdges_mapRaw ι cfg m
  simp only [restrictObj, e]
  simp [Raw.empty, mapRaw]

theorem importTet_exportTet_repr (h : Reads cdw cdr ι) (m : Raw Cw) :
    importTet cdr (exportTet cdw m) = some (restrictTet (mapRaw ι m)) := by
  have hv : mapOpt (readCoords cdr) (m.verts.map (coordLine cdw)) = some (m.verts.map (mapPt ι)) :=
    mapOpt_map_gen _ _ _ _ (fun v _ => readCoords_coordLine2 cdw cdr ι h v)
  have hc : mapOpt readTetRec (m.cells.map recLine) = some m.cells := mapOpt_map _ _ readTetRec_recLine _
  have t1 : (m.verts.map (coordLine cdw) ++ m.cells.map recLine).take m.verts.length = m.verts.map (coordLine cdw) := by
    rw [List.take_left' (by simp)]
  have t2 : ((m.verts.map (coordLine cdw) ++ m.cells.map recLine).drop m.verts.length).take m.cells.length
      = m.cells.map recLine := by
    rw [List.drop_left' (by simp), List.take_of_length_le (by simp)]
  simp only [importTet, exportTet, readIdx0_idx0]
  rw [t1, t2, hv, hc]
  simp [restrictTet, mapRaw]

theorem importXyz_exportXyz_repr (h : Reads cdw cdr ι) (m : Raw Cw) :
    importXyz cdr (exportXyz cdw m) = some (restrictXyz (mapRaw ι m)) := by
  have key : ∀ (vs : List (Cw × Cw × Cw)) (r : Raw Cr),
      foldOpt (stepXyz cdr) r (vs.map (coordLine cdw)) = some { r with verts := r.verts ++ vs.map (mapPt ι) } := by
    intro vs
    induction vs with
    | nil => intro r; simp [foldOpt]
    | cons v t ih =>
      intro r
      have st : stepXyz cdr r (coordLine cdw v) = some { r with verts := r.verts ++ [mapPt ι v] } := by
        simp [stepXyz, coordLine, mapOpt, readNum_num2 cdw cdr ι h, mapPt]
      simp only [List.map_cons, foldOpt, st]
      rw [ih]; simp
  simp [importXyz, exportXyz, key, restrictXyz, Raw.empty, mapRaw]

theorem importOff_exportOff_repr (h : Reads cdw cdr ι) (m : Raw Cw) (hf : ∀ f ∈ m.faces, f.length ≠ 2) :
    importOff cdr (exportOff cdw m)
      = some { verts := m.verts.map (mapPt ι), faces := ofArity 3 m.faces, cells := ofArity 4 m.faces } := by
  have hv : mapOpt (readCoords cdr) (m.verts.map (coordLine cdw)) = some (m.verts.map (mapPt ι)) :=
    mapOpt_map_gen _ _ _ _ (fun v _ => readCoords_coordLine2 cdw cdr ι h v)
  simp only [importOff, exportOff, readIdx0_idx0, readInt_idx0, if_true]
  rw [take_off, drop_off, hv]
  have hl : ¬ ((m.verts.map (coordLine cdw) ++ m.faces.map recLine).length < m.verts.length + m.faces.length) := by
    simp
  simp only [hl, if_false]
  rw [foldOff_actual m.faces hf]
  simp

theorem medit_vertices2 (h : Reads cdw cdr ι) (rows : List (String × Cont × Nat))
    (vs : List (Cw × Cw × Cw)) (r : Raw Cr) :
    foldOpt (stepMedit cdr rows) (afterCount none vs.length, r) (vs.map (medVLine cdw))
      = some (.idle, { r with verts := r.verts ++ vs.map (mapPt ι) }) := by
  induction vs generalizing r with
  | nil => simp [afterCount, foldOpt]
  | cons v t ih =>
    have hstep : stepMedit cdr rows (afterCount none (v :: t).length, r) (medVLine cdw v)
        = some (afterCount none t.length, { r with verts := r.verts ++ [mapPt ι v] }) := by
      simp [afterCount, stepMedit, medVLine, coordLine, readNum_num2 cdw cdr ι h, mapPt]
    simp only [List.map_cons, foldOpt, hstep]
    rw [ih]; simp

theorem importMedit_exportMedit_repr (h : Reads cdw cdr ι) (m : Raw Cw) :
    importMedit cdr (exportMedit cdw m) = some (restrictMedit (mapRaw ι m)) := by
  unfold importMedit importMeditWith exportMedit
  simp only [foldOpt]
  have s0 : stepMedit cdr meditRows (.idle, Raw.empty) [.kw "MeshVersionFormatted", .int 1] = some (.idle, Raw.empty) := by
    simp [stepMedit]
  have s1 : stepMedit cdr meditRows (.idle, (Raw.empty : Raw Cr)) [.kw "Dimension", .int 3] = some (.idle, Raw.empty) := by
    simp [stepMedit]
  simp only [s0, s1]
  have hv : foldOpt (stepMedit cdr meditRows) (.idle, (Raw.empty : Raw Cr))
      (if m.verts = [] then [] else [.kw "Vertices"] :: [idx0 m.verts.length] :: m.verts.map (medVLine cdw))
      = some (.idle, { (Raw.empty : Raw Cr) with verts := m.verts.map (mapPt ι) }) := by
    by_cases hn : m.verts = []
    · simp [hn, foldOpt, Raw.empty]
    · simp only [hn, if_false, foldOpt]
      have a1 : stepMedit cdr meditRows (.idle, (Raw.empty : Raw Cr)) [.kw "Vertices"] = some (.count none, Raw.empty) := by
        simp [stepMedit]
      have a2 : stepMedit cdr meditRows (.count none, (Raw.empty : Raw Cr)) [idx0 m.verts.length]
          = some (afterCount none m.verts.length, Raw.empty) := by
        simp [stepMedit]
      simp only [a1, a2]
      rw [medit_vertices2 cdw cdr ι h]; simp [Raw.empty]
  rw [foldOpt_append_some _ _ _ _ _ hv]
  have he : foldOpt (stepMedit cdr meditRows) (.idle, { (Raw.empty : Raw Cr) with verts := m.verts.map (mapPt ι) })
      (if m.edges = [] then [] else
        [.kw "Edges"] :: [idx0 (medEdges m).length] :: (medEdges m).map (fun e => medRec [e.1, e.2]))
      = some (.idle, { (Raw.empty : Raw Cr) with verts := m.verts.map (mapPt ι), edges := medEdges m }) := by
    by_cases hn : m.edges = []
    · have : medEdges m = [] := by
        unfold medEdges hardEdges
        cases m.hard with
        | none => exact hn
        | some l => simp only [hn]; split <;> simp
      simp [hn, this, foldOpt, Raw.empty]
    · simp only [hn, if_false, foldOpt]
      have a1 : stepMedit cdr meditRows (.idle, { (Raw.empty : Raw Cr) with verts := m.verts.map (mapPt ι) }) [.kw "Edges"]
          = some (.count (some (.edges, 2)), { (Raw.empty : Raw Cr) with verts := m.verts.map (mapPt ι) }) := by
        simp [stepMedit, lookupRow, meditRows]
      have a2 : stepMedit cdr meditRows (.count (some (.edges, 2)), { (Raw.empty : Raw Cr) with verts := m.verts.map (mapPt ι) })
            [idx0 (medEdges m).length]
          = some (afterCount (some (.edges, 2)) ((medEdges m).map (fun e => [e.1, e.2])).length,
                  { (Raw.empty : Raw Cr) with verts := m.verts.map (mapPt ι) }) := by
        simp [stepMedit]
      simp only [a1, a2]
      have hmap : (medEdges m).map (fun e => medRec [e.1, e.2])
          = ((medEdges m).map (fun e => [e.1, e.2])).map medRec := by simp
      rw [hmap]
      apply medit_records cdr meditRows .edges 2 _ (by intro f hf; simp at hf; obtain ⟨_, _, _, rfl⟩ := hf; rfl)
      rw [pushAll_edges]; simp [Raw.empty]
  rw [foldOpt_append_some _ _ _ _ _ he]
  rw [foldOpt_append_some _ _ _ _ _
    (medit_block cdr meditRows "Triangles" .faces 3 (by decide) (by decide) (by decide) _ (ofArity_length 3 _) _ _
      (pushAll_faces _ _))]
  rw [foldOpt_append_some _ _ _ _ _
    (medit_block cdr meditRows "Quadrilaterals" .faces 4 (by decide) (by decide) (by decide) _ (ofArity_length 4 _) _ _
      (pushAll_faces _ _))]
  rw [foldOpt_append_some _ _ _ _ _
    (medit_block cdr meditRows "Hexahedra" .cells 8 (by decide) (by decide) (by decide) _ (ofArity_length 8 _) _ _
      (pushAll_cells _ _))]
  rw [medit_block cdr meditRows "Tetrahedra" .cells 4 (by decide) (by decide) (by decide) _ (ofArity_length 4 _) _ _
      (pushAll_cells _ _)]
  simp [restrictMedit, Raw.empty, mapRaw, medEdges, hardEdges]

/-- two representations of the same values load as the same mesh -/
theorem same_values_same_load {Cw' : Type} (cdw' : Codec Cw') (ι' : Cw' → Cr)
    (h : Reads cdw cdr ι) (h' : Reads cdw' cdr ι') (cfg : Cfg) (m : Raw Cw) (m' : Raw Cw')
    (hm : mapRaw ι m = mapRaw ι' m') :
    importObj cdr (exportObj cdw cfg m) = importObj cdr (exportObj cdw' cfg m')
    ∧ importMedit cdr (exportMedit cdw m) = importMedit cdr (exportMedit cdw' m')
    ∧ importTet cdr (exportTet cdw m) = importTet cdr (exportTet cdw' m')
    ∧ importXyz cdr (exportXyz cdw m) = importXyz cdr (exportXyz cdw' m') := by
  rw [importObj_exportObj_repr cdw cdr ι h, importObj_exportObj_repr cdw' cdr ι' h',
      importMedit_exportMedit_repr cdw cdr ι h, importMedit_exportMedit_repr cdw' cdr ι' h',
      importTet_exportTet_repr cdw cdr ι h, importTet_exportTet_repr cdw' cdr ι' h',
      importXyz_exportXyz_repr cdw cdr ι h, importXyz_exportXyz_repr cdw' cdr ι' h', hm]
  exact ⟨rfl, rfl, rfl, rfl⟩


/-! second generation: the content read from a medit file is a fixed point of the vocabulary restriction -/

theorem ofArity_append (n : Nat) (x y : List (List Nat)) : ofArity n (x ++ y) = ofArity n x ++ ofArity n y := by
  simp [ofArity]

theorem ofArity_pair (a b : Nat) (hab : a ≠ b) (l : List (List Nat)) :
    ofArity a (ofArity a l ++ ofArity b l) = ofArity a l ∧ ofArity b (ofArity a l ++ ofArity b l) = ofArity b l := by
  rw [ofArity_append, ofArity_append]
  rw [ofArity_all a _ (ofArity_length a l), ofArity_all b _ (ofArity_length b l)]
  rw [ofArity_none a (ofArity b l) (fun f hf => by rw [ofArity_length b l f hf]; exact fun e => hab e.symm)]
  rw [ofArity_none b (ofArity a l) (fun f hf => by rw [ofArity_length a l f hf]; exact hab)]
  simp

theorem restrictMedit_idem {C : Type} (m : Raw C) : restrictMedit (restrictMedit m) = restrictMedit m := by
  have f := ofArity_pair 3 4 (by decide) m.faces
  have c := ofArity_pair 8 4 (by decide) m.cells
  simp [restrictMedit, medEdges, f.1, f.2, c.1, c.2]

end Mouette.IO
